import PfVerif.Model.C09
/-! Extension of C09: loop-for-loop models of the ITERATIVE stages of `pyflwdir/upscale.py::ihu` —
`next_outlet`, `ihu_relocate_outlets`, `ihu_optimize_rivlen`, `ihu_minimize_error` and the `niter` loop of `ihu`
itself (`outlet_pix`, `new_outlet`, `upscale_check`, `upscale_error` are modelled in `Model/C09.lean`). Core Lean only.

Conventions (as in `Model/C09.lean`)
* fine network `ds : Array Nat`, size `subn`, missing value `subn`; `out : Array Nat` (outlet pixel per coarse cell,
  missing `subn`), `cds : Array Nat` (coarse network, missing `ncell`), both of size `ncell = nrow * ncol`;
* `upa : Array Int` upstream area (integer valued; the harness scales quarter units by 4 together with `minupa`);
* `streams : Array Int` is the `streams` array of `upscale_check` (`-9` nodata, `-1` stream, `≥ 0` coarse cell of an
  outlet pixel);
* every `while` is a structural recursion on fuel; `none` = fuel exhausted;
* Python variables that survive the loop in which they were assigned (`idx1` in `ihu_relocate_outlets`) are carried
  explicitly in the state;
* `np.argsort` (default kind) does not fix the order of ties (on this machine NumPy dispatches to an AVX-512 sort
  which is not stable even for 4 elements). The model therefore takes the permutations the implementation actually
  used as an ORACLE (`sorts`, one list per `np.argsort` call in call order), checks each of them
  (`isSortPerm`: a permutation that sorts the keys) and falls back to the stable order when the oracle is exhausted or
  offers something else (counted in `bad`);
* indexing with the missing value: on the signed index types `a[mv]` is `a[-1]` in Python. The model reads with `a[i]!`
  and writes with `setIfInBounds`; the harness runs the kernels on guarded arrays and reports every negative index as a
  failure, so the two semantics are only compared where they cannot differ. -/
namespace Pf.C09ihu
open Pf

/-- static inputs of the iterative stages -/
structure Env where
  ds : Array Nat
  upa : Array Int
  subncol : Nat
  cs : Nat
  nrow : Nat
  ncol : Nat
  deriving Repr

def Env.subn (e : Env) : Nat := e.ds.size
def Env.ncell (e : Env) : Nat := e.nrow * e.ncol

/-- `subidx_2_idx(subidx, subncol, cellsize, ncol)`; the missing pixel is mapped to the missing cell
(`subidx_2_idx(-1, …) = -1` for the signed index types) -/
def Env.cell (e : Env) (p : Nat) : Nat :=
  if p < e.ds.size then subidx2idx p e.subncol e.cs e.ncol else e.ncell

/-! ### `core._d8_idx`, `core._upstream_d8_idx` -/

def d8Offsets : List (Int × Int) :=
  [(-1, -1), (-1, 0), (-1, 1), (0, -1), (0, 1), (1, -1), (1, 0), (1, 1)]

/-- `core._d8_idx(idx0, shape)`: the neighbours inside the raster, row by row -/
def d8Idx (idx0 nrow ncol : Nat) : List Nat :=
  d8Offsets.filterMap fun (dr, dc) =>
    let r : Int := Int.ofNat (idx0 / ncol) + dr
    let c : Int := Int.ofNat (idx0 % ncol) + dc
    if 0 ≤ r ∧ r < Int.ofNat nrow ∧ 0 ≤ c ∧ c < Int.ofNat ncol then some (r * Int.ofNat ncol + c).toNat else none

/-- `core._upstream_d8_idx(idx0, idxs_ds, shape)` -/
def upstreamD8 (cds : Array Nat) (idx0 nrow ncol : Nat) : List Nat :=
  (d8Idx idx0 nrow ncol).filter fun i => cds[i]! == idx0

/-! ### the `np.argsort` oracle -/

/-- `p` is a permutation of `0 … keys.size-1` along which `keys` is non-decreasing -/
def isSortPerm (keys : Array Int) (p : List Nat) : Bool :=
  p.length == keys.size && (List.range keys.size).all (fun i => p.contains i) &&
    (List.range (p.length - 1)).all fun i => decide (keys[p[i]!]! ≤ keys[p[i + 1]!]!)

def insertByKey (keys : Array Int) (i : Nat) : List Nat → List Nat
  | [] => [i]
  | j :: rest => if keys[i]! < keys[j]! then i :: j :: rest else j :: insertByKey keys i rest

/-- stable argsort (fallback when the oracle is exhausted) -/
def stableArgsort (keys : Array Int) : List Nat :=
  (List.range keys.size).reverse.foldl (fun acc i => insertByKey keys i acc) []

/-- oracle state: remaining recorded permutations, number of rejected / missing ones -/
structure Sorts where
  q : List (List Nat)
  bad : Nat
  deriving Repr

def Sorts.take (s : Sorts) (keys : Array Int) : List Nat × Sorts :=
  match s.q with
  | p :: q => if isSortPerm keys p then (p, { s with q := q }) else (stableArgsort keys, { q := q, bad := s.bad + 1 })
  | [] => (stableArgsort keys, { s with bad := s.bad + 1 })

/-! ### `next_outlet` -/

/-- `next_outlet(subidx, subidxs_ds, subidxs_out, subncol, cellsize, ncol)` → (`subidx1`, `idx1`, `outlet`) -/
def nextOutlet (e : Env) (out : Array Nat) : Nat → Nat → Option (Nat × Nat × Bool)
  | 0, _ => none
  | fuel+1, p =>
    let p1 := e.ds[p]!
    let idx1 := e.cell p1
    let outlet := p1 == out[idx1]!
    if outlet || p1 == p then some (p1, idx1, outlet) else nextOutlet e out fuel p1

/-! ### `ihu_relocate_outlets` -/

/-- result of STEP 1 (the downstream trace @1A) -/
structure Trace where
  stop : Bool
  subidx : Nat
  idx1 : Nat
  cells : List Nat      -- idxs_lst
  pixs : List Nat       -- subidxs_lst
  deriving Repr

/-- the `while True` @1A of `ihu_relocate_outlets`; state (`subidx`, `idx0`, `idx_ds0`, lists) -/
def relocTrace (e : Env) (cds out : Array Nat) :
    Nat → Nat → Nat → Nat → List Nat → List Nat → Option Trace
  | 0, _, _, _, _, _ => none
  | fuel+1, subidx, idx0, idxds0, cells, pixs =>
    let subidx1 := e.ds[subidx]!
    let idx1 := e.cell subidx1
    let pit := subidx1 == subidx
    if pit || idx0 != idx1 then
      let stop := pit || (subidx == out[idxds0]! && !cells.contains idxds0)
      let keep := cds[idx0]! != cds.size
      let pixs' := if keep then pixs ++ [subidx] else pixs
      let cells' := if keep then cells ++ [idx0] else cells
      let idxds0' := if subidx == out[idx0]! then cds[idx0]! else idxds0
      if stop then some ⟨true, subidx, idx1, cells', pixs'⟩
      else relocTrace e cds out fuel subidx1 idx1 idxds0' cells' pixs'
    else relocTrace e cds out fuel subidx1 idx0 idxds0 cells pixs

/-- insert into a strictly increasing list -/
def insertUniq (x : Nat) : List Nat → List Nat
  | [] => [x]
  | y :: r => if x < y then x :: y :: r else if x == y then y :: r else y :: insertUniq x r

/-- `np.unique` of a list of indices (sorted, without duplicates) -/
def uniqueSorted (l : List Nat) : List Nat := l.foldl (fun acc x => insertUniq x acc) []

/-- STEP 2: tributary cells of the trace -/
def relocTribs (e : Env) (cds out : Array Nat) (idx00 : Nat) (t : Trace) : List Nat :=
  (uniqueSorted t.cells).foldl (fun acc idxds =>
    (upstreamD8 cds idxds e.nrow e.ncol).foldl (fun acc idx0 =>
      if t.pixs.contains out[idx0]! || idx0 == idx00 then acc else acc ++ [idx0]) acc) []

/-- state of the connect loop @3B: (`subidx`, `idx`, `ii`, `j0`, `j1`, `connected`, `idx1`) -/
structure Conn where
  j0 : Nat
  j1 : Nat
  connected : Bool
  idx1 : Nat
  deriving Repr

/-- first `j ≥ j0` with `pixs[j] = subidx` (the `for … break` @3C) -/
def findFrom (pixs : List Nat) (j0 p : Nat) : Option Nat :=
  (List.range' j0 (pixs.length - j0)).find? fun j => pixs[j]! == p

/-- the `while True and ii <= 10` @3B -/
def connLoop (e : Env) (pixs : List Nat) (idx0 : Nat) : Nat → Nat → Nat → Nat → Conn → Option Conn
  | 0, _, _, _, _ => none
  | fuel+1, subidx, idx, ii, c =>
    if ii > 10 then some c else
    let subidx1 := e.ds[subidx]!
    let idx1 := e.cell subidx1
    let c := { c with idx1 := idx1 }
    if subidx == subidx1 || idx != idx1 then
      let ii := if c.connected then ii else ii + 1
      let c := match findFrom pixs c.j0 subidx with
        | some j =>
          if !c.connected then { c with j0 := j, j1 := j, connected := true }
          else if inD8 idx0 idx e.ncol then { c with j1 := j }
          else c
        | none => c
      if c.j1 + 1 == pixs.length || subidx == subidx1 then some c
      else connLoop e pixs idx0 fuel subidx1 idx1 ii c
    else connLoop e pixs idx0 fuel subidx1 idx1 ii c

/-- STEP 3 for all tributaries: (`idxs_us_conn_lst`, `idxs_us_conn_lst1`, leaked `idx1`) -/
def relocConn (e : Env) (out : Array Nat) (pixs : List Nat) (tribs : List Nat) (idx1 : Nat) :
    Option (List Nat × List Nat × Nat) :=
  tribs.foldlM (fun (st : List Nat × List Nat × Nat) idx0 =>
    match connLoop e pixs idx0 (e.ds.size + 1) e.ds[out[idx0]!]! idx0 0 ⟨0, 0, false, st.2.2⟩ with
    | none => none
    | some c =>
      if c.connected then some (st.1 ++ [c.j0], st.2.1 ++ [c.j1], c.idx1)
      else some (st.1 ++ [pixs.length - 1], st.2.1 ++ [pixs.length - 1], c.idx1)) ([], [], idx1)

/-- mutable state of STEP 4 (@4A … @4E) -/
structure S4 where
  cds : Array Nat
  out : Array Nat
  outEd : List (Nat × Nat)     -- (idx_out_lst[i], subidx0_out_lst[i])
  dsEd : List (Nat × Nat)      -- (idx0_lst[i], idx_ds0_lst[i])
  idx0 : Nat
  j0 : Nat
  k0 : Nat
  nextiter : Bool
  bott : List Nat
  idx1 : Nat
  deriving Repr

def S4.outEdited (s : S4) (c : Nat) : Bool := s.outEd.any fun x => x.1 == c
def S4.dsEdited (s : S4) (c : Nat) : Bool := s.dsEd.any fun x => x.1 == c

/-- `idxs_ds[c] = v` with bookkeeping, only if it changes something -/
def S4.setDs (s : S4) (c v : Nat) : S4 :=
  if s.cds[c]! != v then { s with dsEd := s.dsEd ++ [(c, s.cds[c]!)], cds := s.cds.setIfInBounds c v } else s

/-- `subidxs_out[c] = p` with bookkeeping, only if it changes something -/
def S4.setOut (s : S4) (c p : Nat) : S4 :=
  if p != s.out[c]! then { s with outEd := s.outEd ++ [(c, s.out[c]!)], out := s.out.setIfInBounds c p } else s

/-- "unroll edits": coarse links in reverse order, outlet pixels in forward order -/
def S4.unroll (s : S4) : S4 :=
  { s with cds := s.dsEd.reverse.foldl (fun a x => a.setIfInBounds x.1 x.2) s.cds,
           out := s.outEd.foldl (fun a x => a.setIfInBounds x.1 x.2) s.out }

/-- tributary data after sorting (STEP 3, last lines) -/
structure Tribs where
  us0 : Array Nat      -- idxs_us0
  sds0 : Array Nat     -- subidxs_ds0
  conn : Array Nat     -- idxs_us_conn
  conn1 : Array Nat    -- idxs_us_conn1
  deriving Repr

/-- the `while True` @4D for tributary `idx0`; state (`subidx`, `idx_ds0`, `path`) -/
def tribLoop (e : Env) (idx0 sds0 : Nat) : Nat → Nat → Nat → List Nat → S4 → Option S4
  | 0, _, _, _, _ => none
  | fuel+1, subidx, idxds0, path, s =>
    let subidx1 := e.ds[subidx]!
    let idxds := e.cell subidx1
    let outlet := subidx1 == s.out[idxds]!
    let pit := subidx1 == subidx
    let idxdsEdit := s.outEdited idxds0
    if outlet || pit then
      let ds0Edit := s.dsEdited idx0 || s.outEdited s.cds[idx0]!
      let ind8 := inD8 idx0 idxds e.ncol
      if (!ind8 && ds0Edit) || (!outlet && pit) then
        some { s with nextiter := true,
                      bott := if s.bott.contains s.cds[idx0]! then s.bott else s.bott ++ [s.cds[idx0]!] }
      else if ind8 then some (s.setDs idx0 idxds)
      else some s
    else
      let go := fun (_ : Unit) => tribLoop e idx0 sds0 fuel subidx1 idxds (path ++ [subidx1]) s
      if idxds0 != idxds && idxds0 != idx0 && path.contains sds0 && !idxdsEdit && inD8 idx0 idxds0 e.ncol then
        match nextOutlet e s.out (e.ds.size + 1) subidx with
        | none => none
        | some (_, idxds00, outlet0) =>
          if (upstreamD8 s.cds idxds0 e.nrow e.ncol).isEmpty && outlet0 && !s.outEdited idxds00 &&
              idxds0 != idxds00 && inD8 idxds0 idxds00 e.ncol then
            some (((s.setDs idx0 idxds0).setDs idxds0 idxds00).setOut idxds0 subidx)
          else go ()
      else go ()

/-- what the body of the loop @4A decides to do for index `j` -/
inductive Act where
  | fail                       -- no valid flow dir found: `nextiter = True`, unroll
  | keep                       -- nothing to do (`continue`, or no branch applies)
  | update (ks : List Nat)     -- update the MAIN connection and the tributaries `ks`
  | drop (ks : List Nat)       -- drop upstream tributary connections @4E
  deriving Repr

/-- the tests at the head of the loop body @4A (`s.idx1` is already `cells[j]`) -/
def step4Act (e : Env) (cells pixs : List Nat) (tr : Tribs) (s : S4) (j : Nat) : Act :=
  let pix1 := pixs[j]!
  let idx1 := cells[j]!
  let d8 := if s.outEdited idx1 || s.bott.contains idx1 then false else inD8 s.idx0 idx1 e.ncol
  let ks := (List.range' s.k0 (tr.conn.size - s.k0)).filter fun k => decide (tr.conn[k]! ≥ s.j0) && decide (tr.conn[k]! ≤ j)
  let lats := !ks.isEmpty
  let nextlats := lats && ks.all fun k => decide (tr.conn1[k]! > j)
  let moved := s.out[idx1]! != pix1
  -- the `for jj` loop: (nextd8, stopped)
  let nd := (List.range' (j + 1) (pixs.length - (j + 1))).foldl (fun (st : Bool × Bool) jj =>
    if st.2 then st else
    let idx := cells[jj]!
    if s.outEdited idx || s.bott.contains idx then st
    else
      let n8 := st.1 || inD8 s.idx0 idx e.ncol
      (n8, s.out[idx]! == pixs[jj]!)) (false, false)
  let nextd8 := moved && nd.1
  if !d8 && !nextd8 then .fail
  else if (!lats && nextd8) || (nextlats && nextd8) then .keep
  else if (d8 && lats) || (d8 && !nextd8) then .update ks
  else if lats then .drop ks
  else .keep

/-- "UPDATE CONNECTIONS": main connection `idx0 → idx1` with outlet pixel `pix1`, then the tributaries @4C -/
def step4Update (e : Env) (tr : Tribs) (s : S4) (idx1 pix1 j : Nat) (ks : List Nat) : Option S4 :=
  match ks.foldlM (fun (s : S4) k =>
      if s.outEdited tr.us0[k]! then some s
      else tribLoop e tr.us0[k]! tr.sds0[k]! (e.ds.size + 1) s.out[tr.us0[k]!]! tr.us0[k]! [] s)
      ((s.setDs s.idx0 idx1).setOut idx1 pix1) with
  | none => none
  | some s1 =>
    if s1.nextiter then some ({ s1 with idx0 := idx1, j0 := j + 1 }).unroll
    else some { s1 with idx0 := idx1, j0 := j + 1 }

/-- drop upstream tributary connections @4E -/
def step4Drop (cells : List Nat) (tr : Tribs) (s : S4) (j : Nat) (ks : List Nat) : S4 :=
  let r := ks.foldl (fun (st : Nat × Bool) k =>
    if st.2 then st else
    let idxds0 := s.cds[tr.us0[k]!]!
    if !(cells.drop j).contains idxds0 && !s.outEdited idxds0 then (k, false) else (st.1, true)) (s.k0, false)
  { s with k0 := r.1 }

/-- one pass of the alternative-outlet loop @4A for index `j` -/
def step4A (e : Env) (cells pixs : List Nat) (tr : Tribs) (s : S4) (j : Nat) : Option S4 :=
  if s.nextiter then some s else
  match step4Act e cells pixs tr { s with idx1 := cells[j]! } j with
  | .fail => some ({ s with idx1 := cells[j]!, nextiter := true }).unroll
  | .keep => some { s with idx1 := cells[j]! }
  | .update ks => step4Update e tr { s with idx1 := cells[j]! } cells[j]! pixs[j]! j ks
  | .drop ks => some (step4Drop cells tr { s with idx1 := cells[j]! } j ks)

/-- the `while len(bottleneck) > nbottlenecks` of STEP 4; `s` carries `bott`, `cds`, `out`, `idx1` -/
def step4 (e : Env) (idx00 : Nat) (cells pixs : List Nat) (tr : Tribs) : Nat → S4 → Option S4
  | 0, _ => none
  | fuel+1, s =>
    let nb := s.bott.length
    let s0 : S4 := { s with outEd := [], dsEd := [], idx0 := idx00, j0 := 0, k0 := 0, nextiter := false }
    match (List.range pixs.length).foldlM (step4A e cells pixs tr) s0 with
    | none => none
    | some s1 => if s1.bott.length > nb then step4 e idx00 cells pixs tr fuel s1 else some s1

/-- state of the outer loop @0A: (`idxs_ds`, `subidxs_out`, `idxs_fix_out`, oracle) -/
structure RelSt where
  cds : Array Nat
  out : Array Nat
  fixOut : List Nat
  sorts : Sorts
  deriving Repr

/-- one iteration of the loop @0A for the flagged cell `idx00` -/
def relocOne (e : Env) (st : RelSt) (idx00 : Nat) : Option RelSt :=
  let cds := st.cds
  let out := st.out
  let subidx := e.ds[out[idx00]!]!
  match relocTrace e cds out (e.ds.size + 1) subidx (e.cell subidx) cds[idx00]! [] [] with
  | none => none
  | some t =>
    if t.subidx == out[cds[idx00]!]! then some st        -- trace ends at first outlet pixel: already fixed
    else
      let tribs := relocTribs e cds out idx00 t
      match relocConn e out t.pixs tribs t.idx1 with
      | none => none
      | some (conn, conn1, idx1) =>
        let (seq1, sorts) := st.sorts.take (conn.map Int.ofNat).toArray
        let us0 := seq1.map fun k => tribs[k]!
        let tr : Tribs := { us0 := us0.toArray, sds0 := (us0.map fun c => out[cds[c]!]!).toArray,
                            conn := (seq1.map fun k => conn[k]!).toArray, conn1 := (seq1.map fun k => conn1[k]!).toArray }
        let s0 : S4 := { cds := cds, out := out, outEd := [], dsEd := [], idx0 := idx00, j0 := 0, k0 := 0,
                         nextiter := false, bott := [], idx1 := idx1 }
        match step4 e idx00 t.cells t.pixs tr (cds.size + 3) s0 with
        | none => none
        | some s =>
          let loop := s.outEdited s.cds[s.idx1]!
          let s := if loop then s.unroll else s
          some { cds := s.cds, out := s.out, sorts := sorts,
                 fixOut := if s.nextiter || loop then st.fixOut ++ [idx00] else st.fixOut }

/-- `ihu_relocate_outlets(idxs_fix, idxs_ds, subidxs_out, subidxs_ds, subuparea, subshape, shape, cellsize)` →
(`idxs_ds`, `subidxs_out`, `idxs_fix_out`, oracle) -/
def relocateOutlets (e : Env) (fix : List Nat) (cds out : Array Nat) (sorts : Sorts) : Option RelSt :=
  let (seq, sorts) := sorts.take (fix.map fun c => e.upa[out[c]!]!).toArray
  seq.foldlM (fun st i0 => relocOne e st fix[i0]!) { cds := cds, out := out, fixOut := [], sorts := sorts }

/-! ### `ihu_optimize_rivlen` -/

/-- `minlen = minNum / minDen`, `minupa` in the units of `upa` -/
structure Par where
  minNum : Nat
  minDen : Nat
  minupa : Int
  deriving Repr

def newOutletE (e : Env) (par : Par) (idx0 subidx0 : Nat) (streams : Array Int) (cds out : Array Nat)
    (target : Option Nat) : Option (Array Int × Array Nat × Array Nat × Bool) :=
  newOutlet e.ds e.upa idx0 subidx0 streams cds out e.ncol e.subncol e.cs par.minNum par.minDen par.minupa target

/-- state: (`streams`, `idxs_ds`, `subidxs_out`) -/
abbrev Tri := Array Int × Array Nat × Array Nat

/-- body of `for idx0 in [idxs_short[i], idxs_ds[idxs_short[i]]]`; returns the state and whether the loop breaks -/
def rivlenOne (e : Env) (par : Par) (valid : Array Bool) (st : Tri) (idx0 : Nat) : Option (Tri × Bool) :=
  let (streams, cds, out) := st
  let subidx0 := out[idx0]!
  let idx1 := cds[idx0]!
  if idx1 == idx0 || valid[idx1]! == false || valid[idx0]! == false then some (st, false) else
  let us := upstreamD8 cds idx0 e.nrow e.ncol
  if us.isEmpty || (us.filter fun i => valid[i]!).all fun i => inD8 i idx1 e.ncol then
    match newOutletE e par idx0 subidx0 streams cds out none with
    | none => none
    | some (streams, cds, out, success) =>
      if success then
        let r := us.foldl (fun (st : Tri) idx =>
          let (streams, cds, out) := st
          if valid[idx]! then (streams, cds.setIfInBounds idx idx1, out)
          else if cds[idx0]! == idx then      -- loop > undo
            let streams := streams.setIfInBounds out[idx0]! (-1)
            let streams := streams.setIfInBounds subidx0 (Int.ofNat idx0)
            (streams, cds.setIfInBounds idx0 idx1, out.setIfInBounds idx0 subidx0)
          else st) (streams, cds, out)
        some (r, true)
      else some ((streams, cds, out), false)
  else some (st, false)

/-- `ihu_optimize_rivlen(idxs_short, valid, streams, idxs_ds, subidxs_out, …)` → (`streams`, `idxs_ds`, `subidxs_out`) -/
def optimizeRivlen (e : Env) (par : Par) (short : List Nat) (valid : Array Bool) (st : Tri) : Option Tri :=
  short.foldlM (fun (st : Tri) i =>
    let second := st.2.1[i]!
    match rivlenOne e par valid st i with
    | none => none
    | some (st, true) => some st
    | some (st, false) => (rivlenOne e par valid st second).map (·.1)) st

/-! ### `ihu_minimize_error` -/

/-- the first `while True` of `ihu_minimize_error`: cells whose outlet pixel lies downstream of `subidx0`;
returns (`idxs`, `subidx`, `subidx_ds`) -/
def errPath (e : Env) (streams : Array Int) (idx0 : Nat) : Nat → Nat → List Nat → Option (List Nat × Nat × Nat)
  | 0, _, _ => none
  | fuel+1, subidx, idxs =>
    let sds := e.ds[subidx]!
    if sds == subidx then some (idxs, subidx, sds)
    else if streams[sds]! ≥ 0 then
      let idx1 := streams[sds]!.toNat
      let idxs := idxs ++ [idx1]
      if idxs.length == 100 || (idxs.length == 1 && inD8 idx0 idx1 e.ncol) then some (idxs, subidx, sds)
      else errPath e streams idx0 fuel sds idxs
    else errPath e streams idx0 fuel sds idxs

/-- state of the neighbour search: (`idxs_ds`, `max_dist`, `max_upa`, `fixed`, `idxs_hw`) -/
structure Nb where
  cds : Array Nat
  maxDist : Nat
  maxUpa : Int
  fixed : Bool
  hw : List Nat
  deriving Repr

/-- `for j in range(max_dist + 1)`: walk down the coarse network from neighbour `idx1`; `k` iterations left -/
def nbWalk (e : Env) (out : Array Nat) (idxs : List Nat) (idx0 idx1 : Nat) (upa : Int) : Nat → Nat → Nat → Nb → Nb
  | 0, _, _, s => s
  | k+1, j, idx, s =>
    match idxs.idxOf? idx with
    | some pos =>
      let d0 := pos + j
      if d0 < s.maxDist || (d0 == s.maxDist && upa > s.maxUpa) then
        let hor := absDiff idx1 idx0 == 1
        let ver := absDiff idx1 idx0 == e.ncol
        let cross :=
          if !(hor || ver) then
            let idxh := idx0 / e.ncol * e.ncol + idx1 % e.ncol     -- idx0 + (idx1 % ncol - idx0 % ncol)
            let idxv := idx1 / e.ncol * e.ncol + idx0 % e.ncol     -- idx0 + (idx1 // ncol - idx0 // ncol) * ncol
            s.cds[idxh]! == idxv || s.cds[idxv]! == idxh
          else false
        if !cross then { s with cds := s.cds.setIfInBounds idx0 idx1, maxDist := d0, maxUpa := upa, fixed := true }
        else s
      else s
    | none =>
      let idxds := s.cds[idx]!
      if idxds == idx || idxds == idx0 then
        if idxds == idx0 && (upstreamD8 s.cds idx1 e.nrow e.ncol).isEmpty then { s with hw := s.hw ++ [idx1] } else s
      else nbWalk e out idxs idx0 idx1 upa k (j + 1) idxds s

/-- the neighbour search of one pass (`if not fixed: for idx1 in idxs_d8: …`) -/
def nbSearch (e : Env) (out : Array Nat) (idxs : List Nat) (idx0 : Nat) (d8 : List Nat) (cds : Array Nat)
    (fixed : Bool) : Nb :=
  if fixed then ⟨cds, 999999, 0, fixed, []⟩
  else d8.foldl (fun (s : Nb) idx1 =>
    if out[idx1]! == e.ds.size then s
    else nbWalk e out idxs idx0 idx1 e.upa[out[idx1]!]! (s.maxDist + 1) 0 idx1 s) ⟨cds, 999999, 0, fixed, []⟩

/-- the `for _ in range(2)` of `ihu_minimize_error`; state (`streams`, `idxs_ds`, `subidxs_out`) -/
def minErrPass (e : Env) (par : Par) (idxs : List Nat) (idx0 : Nat) (d8 : List Nat) :
    Nat → Bool → Tri → Option Tri
  | 0, _, st => some st
  | pass+1, fixed, (streams, cds, out) =>
    let nb := nbSearch e out idxs idx0 d8 cds fixed
    if !nb.fixed && !nb.hw.isEmpty && !idxs.isEmpty then
      -- try resetting the outlet pixel of an upstream headwater cell
      let r := nb.hw.foldlM (fun (st : Tri × Bool) idx =>
        if st.2 then some st else
        let (streams, cds, out) := st.1
        match newOutletE e par idx out[idx]! streams cds out (some out[idxs.head!]!) with
        | none => none
        | some (streams, cds, out, f) => some ((streams, cds, out), f)) ((streams, nb.cds, out), false)
      match r with
      | none => none
      | some (st, _) => minErrPass e par idxs idx0 d8 pass nb.fixed st
    else some (streams, nb.cds, out)

/-- one iteration of the loop @0A of `ihu_minimize_error` for the erroneous cell `idx0` -/
def minErrOne (e : Env) (par : Par) (poc : Nat) (st : Tri) (idx0 : Nat) : Option Tri :=
  let (streams, cds, out) := st
  let subidx0 := out[idx0]!
  match errPath e streams idx0 (e.ds.size + 1) subidx0 [] with
  | none => none
  | some (idxs, subidx, sds) =>
    let atPit := sds == subidx
    let idx1 := e.cell sds
    let checkPit := decide (poc > 0) && atPit &&
      decide (absDiff (idx1 % e.ncol) (idx0 % e.ncol) ≤ poc) && decide (absDiff (idx1 / e.ncol) (idx0 / e.ncol) ≤ poc)
    if checkPit && (sds == subidx0 || idxs.isEmpty) then
      -- set pit at current cell and outlet pixel outside at pit
      let streams := streams.setIfInBounds out[idx0]! (-1)
      let streams := streams.setIfInBounds sds (Int.ofNat idx0)
      some (streams, cds.setIfInBounds idx0 idx0, out.setIfInBounds idx0 sds)
    else
      let d8 := d8Idx idx0 e.nrow e.ncol
      let r := if d8.all fun i => cds[i]! != idx0 then newOutletE e par idx0 subidx0 streams cds out none
               else some (streams, cds, out, false)
      match r with
      | none => none
      | some (streams, cds, out, fixed) => minErrPass e par idxs idx0 d8 2 fixed (streams, cds, out)

/-- `ihu_minimize_error(idxs_fix, valid, streams, idxs_ds, subidxs_out, …, pit_out_of_cell)` →
(`streams`, `idxs_ds`, `subidxs_out`) and the oracle -/
def minimizeError (e : Env) (par : Par) (poc : Nat) (fix : List Nat) (st : Tri) (sorts : Sorts) :
    Option (Tri × Sorts) :=
  let (seq, sorts) := sorts.take (fix.map fun c => e.upa[st.2.2[c]!]!).toArray
  (seq.reverse.foldlM (fun st i0 => minErrOne e par poc st fix[i0]!) st).map fun st => (st, sorts)

/-! ### the `niter` loop of `ihu` -/

structure IhuOpt where
  niter : Nat
  optRivlen : Bool
  minError : Bool
  poc : Nat
  deriving Repr

/-- `for j in range(niter)` of `ihu`, `k` iterations left -/
def ihuLoop (e : Env) (par : Par) (o : IhuOpt) : Nat → List Nat → Array Nat → Array Nat → Sorts →
    Option (Array Nat × Array Nat × Sorts)
  | 0, _, cds, out, sorts => some (cds, out, sorts)
  | k+1, fix, cds, out, sorts =>
    match relocateOutlets e fix cds out sorts with
    | none => none
    | some r =>
      match upscaleCheck e.ds r.out r.cds par.minNum par.minDen with
      | none => none
      | some (valid, streams, fix1, short) =>
        let last := fix1.isEmpty || fix1.length == fix.length || k == 0
        let st1 := if o.optRivlen then optimizeRivlen e par short valid (streams, r.cds, r.out)
                   else some (streams, r.cds, r.out)
        match st1 with
        | none => none
        | some st1 =>
          let st2 := if o.minError then minimizeError e par (if last then o.poc else 0) fix1 st1 r.sorts
                     else some (st1, r.sorts)
          match st2 with
          | none => none
          | some ((_, cds, out), sorts) =>
            if last then some (cds, out, sorts) else ihuLoop e par o k fix1 cds out sorts

/-- `ihu(subidxs_ds, subuparea, subshape, cellsize, niter, opt_rivlen, min_error, pit_out_of_cell)` →
(`idxs_ds`, `subidxs_out`); `upa` in quarter units (`minupa = cs²`), `minlen = cs / 4` -/
def ihuModel (ds : Array Nat) (upa : Array Int) (ea : Array Bool) (g : Geo) (o : IhuOpt) (sorts : Sorts) :
    Option (Array Nat × Array Nat × Sorts) :=
  match eamPlusModel ds upa ea g with
  | none => none
  | some (cds, out, fix) =>
    ihuLoop ⟨ds, upa, g.subncol, g.cs, g.nrow, g.ncol⟩ ⟨g.cs, 4, Int.ofNat (g.cs * g.cs)⟩ o o.niter fix cds out sorts

/-! ### decidable invariants of a (coarse network, outlet pixels) pair (specification side; evaluated by the driver on the
implementation's output, related to the model by the theorems of `Props/C09_ihu.lean`) -/

def chkSizes (e : Env) (cds out : Array Nat) : Bool := cds.size == e.ncell && out.size == e.ncell

/-- every outlet pixel lies inside its own coarse cell -/
def chkOwnCell (e : Env) (out : Array Nat) : Bool :=
  allCells out.size fun c => out[c]! == e.ds.size || (decide (out[c]! < e.ds.size) && e.cell out[c]! == c)

/-- every coarse link is the missing value or a coarse cell -/
def chkCdsRange (cds : Array Nat) : Bool := allCells cds.size fun c => decide (cds[c]! ≤ cds.size)

/-- a coarse cell has a link exactly where it has an outlet pixel -/
def chkValidIff (e : Env) (cds out : Array Nat) : Bool :=
  allCells cds.size fun c => (cds[c]! != cds.size) == (out[c]! != e.ds.size)

/-- every outlet pixel is a pit or drains into another coarse cell -/
def chkOutletPix (e : Env) (out : Array Nat) : Bool :=
  allCells out.size fun c => out[c]! == e.ds.size ||
    (decide (out[c]! < e.ds.size) && (e.ds[out[c]!]! == out[c]! || e.cell e.ds[out[c]!]! != e.cell out[c]!))

/-- every outlet pixel is an exit pixel of its own cell or a pit (of any cell) -/
def chkOutletOrPit (e : Env) (out : Array Nat) : Bool :=
  allCells out.size fun c => out[c]! == e.ds.size ||
    (e.cell out[c]! == c && (e.ds[out[c]!]! == out[c]! || e.cell e.ds[out[c]!]! != e.cell out[c]!)) ||
    e.ds[out[c]!]! == out[c]!

/-- coarse links stay inside the 3x3 neighbourhood -/
def chkD8 (e : Env) (cds : Array Nat) : Bool := okD8 cds e.ncol

/-- every outlet pixel is the missing value or a valid fine cell -/
def chkOutValid (e : Env) (out : Array Nat) : Bool :=
  allCells out.size fun c => out[c]! == e.ds.size || (decide (out[c]! < e.ds.size) && e.ds[out[c]!]! != e.ds.size)

/-- the coarse network is well formed: sizes, links in range and inside the 3x3 neighbourhood, a link exactly where an
outlet pixel is reported, outlet pixels valid (the conjunction the stages are proved to preserve, `LinksOK`) -/
def chkLinksOK (e : Env) (cds out : Array Nat) : Bool :=
  chkSizes e cds out && chkCdsRange cds && chkValidIff e cds out && chkD8 e cds && chkOutValid e out

/-- missing pixels carry no upstream area above `minupa` (hypothesis of the totality theorems) -/
def chkUpaNodata (e : Env) (minupa : Int) : Bool :=
  allCells e.ds.size fun p => e.ds[p]! != e.ds.size || decide (e.upa[p]! ≤ minupa)

/-- the flagged cells handed to a stage are coarse cells with an outlet pixel -/
def chkFixOK (e : Env) (fix : List Nat) (out : Array Nat) : Bool :=
  fix.all fun c => decide (c < e.ncell) && out[c]! != e.ds.size

/-- pixels of valid fine cells lie in coarse cells of the raster (geometry of the environment) -/
def chkEnvCells (e : Env) : Bool :=
  allCells e.ds.size fun p => e.ds[p]! == e.ds.size || decide (e.cell p < e.ncell)

/-- every valid fine cell is at a pit after `ds.size` steps (executable form of `ReachesPit`) -/
def chkReach (ds : Array Nat) : Bool :=
  allCells ds.size fun p => ds[p]! == ds.size || ds[iterA ds ds.size p]! == iterA ds ds.size p

/-- `streams` has one entry per pixel and the entry of every in-range outlet pixel is its coarse cell (`SyncD`) -/
def chkSync (e : Env) (streams : Array Int) (out : Array Nat) : Bool :=
  streams.size == e.ds.size &&
    allCells out.size fun c => !decide (out[c]! < e.ds.size) || streams[out[c]!]! == Int.ofNat c

/-- the reported outlet pixels are pairwise distinct -/
def chkDistinct (e : Env) (out : Array Nat) : Bool :=
  allCells out.size fun c => out[c]! == e.ds.size ||
    allCells out.size fun c' => c == c' || out[c]! != out[c']!

end Pf.C09ihu
