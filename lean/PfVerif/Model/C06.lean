import PfVerif.Model.Core
import PfVerif.Core.FillCert
/-! Executable models for C06 (depression filling), core Lean only.

* `getEdge`        — `gis_utils.get_edge`
* `fillModel`      — `dem.fill_depressions` with `max_depth < 0` (priority flood, Wang & Liu 2006);
                     the heap is a sorted list of distinct tuples `(z, flag, idx)`; Python's `heapq`
                     pops the minimum of distinct totally ordered tuples, so the pop order is the same.
                     The code's tuples are `(z, flag, r, c)`; with `c < ncol` the lexicographic order of
                     `(r, c)` is the order of `idx = r * ncol + c` (`rc_lex_iff` in `Props/C06.lean`).
* `dsOf`           — decoding of the produced D8 raster (`core_d8.from_array` restricted to what
                     `from_dem` hands it)
* `Adj`, `Valid`, `IsSeed`, `Reached`, `fillCertOk` — the declarative vocabulary and the decidable
                     certificate that `Props/C06.lean` proves sound.

Elevations are `Int` (the harness scales every raster to exact integers; the code only compares
and copies elevations, see `levels/C06.json`). Cells are flat indices `i = r * ncol + c`. -/
namespace Pf.C06

structure Grid where
  nrow : Nat
  ncol : Nat
  deriving Repr, DecidableEq

def Grid.n (G : Grid) : Nat := G.nrow * G.ncol

/-! ### geometry -/

/-- `np.where(struct)` minus 1, row-major; the centre is part of the structuring element -/
def offsets (conn : Nat) : List (Int × Int) :=
  if conn = 4 then [(-1, 0), (0, -1), (0, 0), (0, 1), (1, 0)]
  else [(-1, -1), (-1, 0), (-1, 1), (0, -1), (0, 0), (0, 1), (1, -1), (1, 0), (1, 1)]

/-- `core_d8._us[dr + 1, dc + 1]`: the code at offset `(dr, dc)` that points back to the centre -/
def usCode (dr dc : Int) : Nat :=
  if dr = -1 then (if dc = -1 then 2 else if dc = 0 then 4 else 8)
  else if dr = 0 then (if dc = -1 then 1 else if dc = 0 then 0 else 16)
  else (if dc = -1 then 128 else if dc = 0 then 64 else 32)

/-- `core_d8.drdc` on the codes `fill_depressions` can produce (everything else: no move) -/
def drdc (code : Nat) : Int × Int :=
  if code = 1 then (0, 1) else if code = 2 then (1, 1) else if code = 4 then (1, 0)
  else if code = 8 then (1, -1) else if code = 16 then (0, -1) else if code = 32 then (-1, -1)
  else if code = 64 then (-1, 0) else if code = 128 then (-1, 1) else (0, 0)

/-- the cell at offset `(dr, dc)` from `i`, `none` outside the raster
(`r < 0 or r == nrow or c < 0 or c == ncol`) -/
def shift (G : Grid) (i : Nat) (dr dc : Int) : Option Nat :=
  let r : Int := (i / G.ncol : Nat) + dr
  let c : Int := (i % G.ncol : Nat) + dc
  if r < 0 ∨ r ≥ G.nrow ∨ c < 0 ∨ c ≥ G.ncol then none
  else some (r.toNat * G.ncol + c.toNat)

/-- declarative neighbour relation of the raster: two different in-raster cells whose rows and
columns differ by at most one; with connectivity 4 they share a row or a column -/
def Adj (G : Grid) (conn a b : Nat) : Prop :=
  a < G.n ∧ b < G.n ∧ a ≠ b ∧
  a / G.ncol ≤ b / G.ncol + 1 ∧ b / G.ncol ≤ a / G.ncol + 1 ∧
  a % G.ncol ≤ b % G.ncol + 1 ∧ b % G.ncol ≤ a % G.ncol + 1 ∧
  (conn = 4 → a / G.ncol = b / G.ncol ∨ a % G.ncol = b % G.ncol)

instance (G : Grid) (conn a b : Nat) : Decidable (Adj G conn a b) := by
  unfold Adj; exact inferInstance

/-- a cell of the raster that is not nodata (`nod` is the nodata mask: `elevtn == nodata`, or
`isnan(elevtn)` for NaN nodata) -/
def Valid (G : Grid) (nod : Array Bool) (c : Nat) : Prop := c < G.n ∧ nod[c]! = false

instance (G : Grid) (nod : Array Bool) (c : Nat) : Decidable (Valid G nod c) := by
  unfold Valid; exact inferInstance

/-- allowed step between two valid cells -/
def Nbr (G : Grid) (conn : Nat) (nod : Array Bool) (a b : Nat) : Prop :=
  Adj G conn a b ∧ Valid G nod a ∧ Valid G nod b

instance (G : Grid) (conn : Nat) (nod : Array Bool) (a b : Nat) : Decidable (Nbr G conn nod a b) := by
  unfold Nbr; exact inferInstance

def IsSeed (G : Grid) (seed : Array Bool) (c : Nat) : Prop := c < G.n ∧ seed[c]! = true

instance (G : Grid) (seed : Array Bool) (c : Nat) : Decidable (IsSeed G seed c) := by
  unfold IsSeed; exact inferInstance

/-! ### `gis_utils.get_edge` -/

/-- one entry of `a0[s]` in `get_edge`: the cell of the 3x3 window at offset `o` is valid -/
def windowValid (G : Grid) (nod : Array Bool) (i : Nat) (o : Int × Int) : Bool :=
  match shift G i o.1 o.2 with
  | some j => !nod[j]!
  | none => true

/-- body of the double loop of `get_edge` for the cell `i = r * ncol + c` (the loop only reads `a`
and writes `edge[r, c]`, so it is a map over the cells); the argument `a` is `~done`, i.e.
`a[j] = !nod[j]` -/
def edgeAt (G : Grid) (conn : Nat) (nod : Array Bool) (i : Nat) : Bool :=
  let r := i / G.ncol
  let c := i % G.ncol
  if nod[i]! || r == 0 || r == G.nrow - 1 || c == 0 || c == G.ncol - 1 then !nod[i]!
  else if (offsets conn).all (windowValid G nod i) then false
  else !nod[i]!

/-- `get_edge(~done, structure)` -/
def getEdge (G : Grid) (conn : Nat) (nod : Array Bool) : Array Bool :=
  ((List.range G.n).map (edgeAt G conn nod)).toArray

/-- declarative edge: a valid cell on the border of the raster or with a neighbour (in the chosen
connectivity) that is not valid -/
def IsEdge (G : Grid) (conn : Nat) (nod : Array Bool) (c : Nat) : Prop :=
  Valid G nod c ∧
  (c / G.ncol = 0 ∨ c / G.ncol = G.nrow - 1 ∨ c % G.ncol = 0 ∨ c % G.ncol = G.ncol - 1 ∨
    ∃ b, b < G.n ∧ Adj G conn c b ∧ ¬ Valid G nod b)

instance (G : Grid) (conn : Nat) (nod : Array Bool) (c : Nat) : Decidable (IsEdge G conn nod c) := by
  unfold IsEdge; exact inferInstance

/-! ### the heap -/

structure HE where
  z : Int
  flag : Nat
  idx : Nat
  deriving Repr, DecidableEq

/-- tuple comparison `(z, flag, idx)` -/
def HE.lt (a b : HE) : Bool :=
  decide (a.z < b.z) || (a.z == b.z && (decide (a.flag < b.flag) || (a.flag == b.flag && decide (a.idx < b.idx))))

/-- `heappush` on the sorted-list representation -/
def hpush (x : HE) : List HE → List HE
  | [] => [x]
  | y :: r => if x.lt y then x :: y :: r else y :: hpush x r

/-! ### `fill_depressions`, `max_depth < 0` -/

structure St where
  q : List HE
  done : Array Bool
  queued : Array Bool
  f : Array Int
  d8 : Array Nat

/-- `queued` for user outlets: `for idx in idxs_pit: queued.flat[idx] = True` -/
def userSeeds (n : Nat) (pits : List Nat) : Array Bool :=
  pits.foldl (fun a p => a.setIfInBounds p true) (Array.replicate n false)

/-- `for r, c in zip(*np.where(queued)): heappush(q, (elevtn[r, c], 1, r, c))` -/
def initHeap (G : Grid) (elev : Array Int) (queued : Array Bool) : List HE :=
  (List.range G.n).foldl (fun q i => if queued[i]! then hpush ⟨elev[i]!, 1, i⟩ q else q) []

/-- body of the neighbour loop for the popped cell `(z0, i0)` and offset `o` -/
def visit (G : Grid) (elev : Array Int) (z0 : Int) (i0 : Nat) (s : St) (o : Int × Int) : St :=
  match shift G i0 o.1 o.2 with
  | none => s
  | some j =>
    if s.done[j]! then s else
    let z1 := elev[j]!
    let fill := decide (z0 - z1 > 0)
    let z2 := if fill then z0 else z1
    let f' := if fill then s.f.setIfInBounds j z0 else s.f
    let push := !s.queued[j]!
    { q := if push then hpush ⟨z2, 0, j⟩ s.q else s.q
      done := s.done.setIfInBounds j true
      queued := if push then s.queued.setIfInBounds j true else s.queued
      f := f'
      d8 := s.d8.setIfInBounds j (usCode o.1 o.2) }

/-- one iteration of `while len(q) > 0` -/
def popStep (G : Grid) (conn : Nat) (elev : Array Int) (h : HE) (s : St) : St :=
  (offsets conn).foldl (visit G elev h.z h.idx) s

def fillLoop (G : Grid) (conn : Nat) (elev : Array Int) : Nat → St → St
  | 0, s => s
  | fuel + 1, s =>
    match s.q with
    | [] => s
    | h :: rest => fillLoop G conn elev fuel (popStep G conn elev h { s with q := rest })

/-- the seed set before the `outlets == "min"` restriction -/
def seeds0 (G : Grid) (conn : Nat) (nod : Array Bool) (pits : Option (List Nat)) : Array Bool :=
  match pits with
  | none => getEdge G conn nod
  | some p => userSeeds G.n p

/-- the seed set the algorithm starts from; `none` = `heappop` from an empty heap (`IndexError`) -/
def seedsOf (G : Grid) (conn : Nat) (elev : Array Int) (nod : Array Bool) (pits : Option (List Nat))
    (minMode : Bool) : Option (Array Bool) :=
  let queued := seeds0 G conn nod pits
  if minMode then
    match initHeap G elev queued with
    | [] => none
    | h :: _ => some ((Array.replicate G.n false).setIfInBounds h.idx true)
  else some queued

def initState (G : Grid) (elev : Array Int) (nod : Array Bool) (queued : Array Bool) : St :=
  { q := initHeap G elev queued
    done := nod
    queued := queued
    f := elev
    d8 := nod.map fun b => if b then 247 else 0 }

/-- `fill_depressions(elevtn, outlets, idxs_pit, nodata, max_depth=-1, elv_max=None, connectivity)`.
Returns `(elevtn_out, d8, heap empty at the end)`; the fuel `n + 1` always suffices because every
cell is pushed at most once. -/
def fillModel (G : Grid) (conn : Nat) (elev : Array Int) (nod : Array Bool) (pits : Option (List Nat))
    (minMode : Bool) : Option (Array Int × Array Nat × Bool) :=
  match seedsOf G conn elev nod pits minMode with
  | none => none
  | some queued =>
    let s := fillLoop G conn elev (G.n + 1) (initState G elev nod queued)
    some (s.f, s.d8, s.q.isEmpty)

/-! ### decoding the produced directions -/

/-- `core_d8.from_array` for one cell: pit, step outside the raster or onto a nodata cell ⇒ itself -/
def dsOf (G : Grid) (d8 : Array Nat) (c : Nat) : Nat :=
  let o := drdc d8[c]!
  if o = (0, 0) then c else
  match shift G c o.1 o.2 with
  | none => c
  | some j => if d8[j]! = 247 then c else j

/-- `idxs_ds` of `from_array(d8)`: `n` on nodata cells -/
def dsArray (G : Grid) (d8 : Array Nat) : Array Nat :=
  ((List.range G.n).map fun c => if d8[c]! = 247 then G.n else dsOf G d8 c).toArray

/-- steps to the first fixed point of `ds` (0 if none within the fuel): the rank witness the
certificate is evaluated with -/
def walkLen (ds : Nat → Nat) : Nat → Nat → Nat → Nat
  | 0, _, _ => 0
  | fuel + 1, c, k => if ds c = c then k else walkLen ds fuel (ds c) (k + 1)

def rankOf (G : Grid) (d8 : Array Nat) : Array Nat :=
  ((List.range G.n).map fun c => walkLen (dsOf G d8) (G.n + 1) c 0).toArray

/-! ### the certificate -/

/-- a valid cell that is a seed or got a direction -/
def Reached (G : Grid) (nod seed : Array Bool) (d8 : Array Nat) (c : Nat) : Prop :=
  Valid G nod c ∧ (seed[c]! = true ∨ d8[c]! ≠ 0)

instance (G : Grid) (nod seed : Array Bool) (d8 : Array Nat) (c : Nat) :
    Decidable (Reached G nod seed d8 c) := by
  unfold Reached; exact inferInstance

/-- the local conditions on one cell `c < n` -/
def CellOk (G : Grid) (conn : Nat) (elev : Array Int) (nod seed : Array Bool)
    (f : Array Int) (d8 rk : Array Nat) (c : Nat) : Prop :=
  if nod[c]! = true then
    -- nodata: untouched, coded 247, never an outlet
    f[c]! = elev[c]! ∧ d8[c]! = 247 ∧ seed[c]! = false
  else if Reached G nod seed d8 c then
    d8[c]! ≠ 247 ∧
    -- (L2) outlets keep their elevation
    (seed[c]! = true → f[c]! = elev[c]!) ∧
    -- (L3) the direction goes to an allowed valid neighbour, the level is max(own, downstream), rank decreases
    (d8[c]! ≠ 0 →
      Nbr G conn nod c (dsOf G d8 c) ∧ f[c]! = max elev[c]! f[dsOf G d8 c]! ∧
      rk[dsOf G d8 c]! < rk[c]!) ∧
    -- (L1) + closure: every valid neighbour is reached too and cannot hold the level of `c` up
    (∀ b, b < G.n → Nbr G conn nod c b →
      Reached G nod seed d8 b ∧ f[c]! ≤ max elev[c]! f[b]!)
  else
    -- valid but not connected to an outlet: untouched (and `d8 = 0` by definition of `Reached`)
    f[c]! = elev[c]!

instance (G : Grid) (conn : Nat) (elev : Array Int) (nod seed : Array Bool)
    (f : Array Int) (d8 rk : Array Nat) (c : Nat) : Decidable (CellOk G conn elev nod seed f d8 rk c) := by
  unfold CellOk; exact inferInstance

/-- the decidable certificate `FillCert` of DESIGN §5.6 on arrays -/
def FillCert (G : Grid) (conn : Nat) (elev : Array Int) (nod seed : Array Bool)
    (f : Array Int) (d8 rk : Array Nat) : Prop :=
  ∀ c, c < G.n → CellOk G conn elev nod seed f d8 rk c

instance (G : Grid) (conn : Nat) (elev : Array Int) (nod seed : Array Bool)
    (f : Array Int) (d8 rk : Array Nat) : Decidable (FillCert G conn elev nod seed f d8 rk) := by
  unfold FillCert; exact inferInstance

def fillCertOk (G : Grid) (conn : Nat) (elev : Array Int) (nod seed : Array Bool)
    (f : Array Int) (d8 rk : Array Nat) : Bool :=
  decide (FillCert G conn elev nod seed f d8 rk)

/-! ### declarative seed sets -/

/-- `seed` is exactly the set of edge cells -/
def EdgeSeeds (G : Grid) (conn : Nat) (nod seed : Array Bool) : Prop :=
  ∀ c, c < G.n → (seed[c]! = true ↔ IsEdge G conn nod c)

/-- `seed` is a single cell: an edge cell of lowest elevation (first in row-major order among those) -/
def MinSeed (G : Grid) (conn : Nat) (elev : Array Int) (nod seed : Array Bool) : Prop :=
  ∃ m, m < G.n ∧ IsEdge G conn nod m ∧
    (∀ c, c < G.n → IsEdge G conn nod c → elev[m]! < elev[c]! ∨ (elev[m]! = elev[c]! ∧ m ≤ c)) ∧
    ∀ c, c < G.n → (seed[c]! = true ↔ c = m)

/-- executable declarative seeds (independent of `getEdge` / the heap): used by the driver for the
`spec.*` verdicts -/
def specEdge (G : Grid) (conn : Nat) (nod : Array Bool) : Array Bool :=
  ((List.range G.n).map fun c => decide (IsEdge G conn nod c)).toArray

def specMin (G : Grid) (elev : Array Int) (cand : Array Bool) : Array Bool :=
  ((List.range G.n).map fun m => cand[m]! &&
    (List.range G.n).all fun c => !cand[c]! || decide (elev[m]! < elev[c]!) ||
      (elev[m]! == elev[c]! && decide (m ≤ c))).toArray

end Pf.C06
