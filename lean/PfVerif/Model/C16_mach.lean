import PfVerif.Model.C04
/-! # C16 extension `C16_mach` — a machine-integer reading of the index-generic kernels

The kernel models of `Model/*.lean` use `ds : Array Nat` of size `n` with `ds[i] = n` as the missing
value. The library stores the same network in `int32`, `int64` (`intp`), `uint32` or `uint64` arrays with
the missing value `-1` (signed) or the type's maximum (unsigned) - in both cases the all-ones bit
pattern `np.<dtype>(-1)`. This file describes

* the four index dtypes (`IdxTy`), the sentinel, the encoding `enc` of an abstract index as a machine
  value, the decoding `dec` (what the harness' `canon_idx` does) and the capacity condition the
  library's own dtype selection (`pyflwdir.from_array`: `int32 if n < 2147483647 else (uint32 if
  n < 4294967294 else uint64)`) guarantees;
* machine-level versions of the two generic sweeps and of the generic trace: the same loops as
  `Pf.sweepDown`, `Pf.sweepUp` (`Core/Sweep.lean`) and `Pf.trace` (`Model/Core.lean`), but the network
  and the cell order are arrays / lists of `BitVec w`, array positions are obtained with `.toNat`, the
  pit test is machine equality `dsM[i] = i` and the missing-value test is machine equality with the
  sentinel;
* the index ARITHMETIC sites of the library as functions over `BitVec`, in the typing regimes that
  occur (both probed on the installed NumPy 2.5 / Numba 0.67 by the harness):
  (N) Numba scalars (NBEP 1) - an integer operation is at least 64 bit wide and signed as soon as one
  operand is signed (`numbaScalar`): `int32 ⊕ int64`, `uint32 ⊕ int64`, `uint64 ⊕ int64` give `int64`,
  `uint32 ⊕ uint32` gives `uint64`; `int(x)` keeps the type of `x`;
  (P) NumPy >= 2 in the interpreter - a Python `int` operand is weak: `np.uint32(a) - 1` stays `uint32`
  and wraps; two typed operands are promoted (`numpyPromote`): `uint64 ⊕ int64` gives `float64` (the
  F16b / F16d defect class; also what Numba does for ARRAY expressions).

Core Lean only (the driver runs these definitions on the raw machine values of real NumPy arrays). -/
namespace Pf.C16m

/-! ## 1. index dtypes -/

/-- an index dtype: width and signedness (`int32`, `int64`, `uint32`, `uint64`) -/
structure IdxTy where
  w : Nat
  signed : Bool
  deriving DecidableEq, Repr

@[reducible] def i32 : IdxTy := ⟨32, true⟩
@[reducible] def i64 : IdxTy := ⟨64, true⟩
@[reducible] def u32 : IdxTy := ⟨32, false⟩
@[reducible] def u64 : IdxTy := ⟨64, false⟩

/-- the widths that occur -/
def IdxTy.Std (t : IdxTy) : Prop := t.w = 32 ∨ t.w = 64

instance (t : IdxTy) : Decidable t.Std := by unfold IdxTy.Std; exact inferInstance

/-- the missing-value sentinel `np.<dtype>(core._mv)` with `core._mv = np.intp(-1)` (`flwdir.py`:
`self._mv = np.uint32(self._mv)` …): all ones for every dtype -/
def IdxTy.mv (t : IdxTy) : BitVec t.w := BitVec.ofInt t.w (-1)

/-- number of cells the dtype can index (exclusive bound): `2^(w-1) - 1` signed, `2^w - 2` unsigned;
for the 32-bit types these are exactly the constants of `pyflwdir.from_array` -/
def IdxTy.cap (t : IdxTy) : Nat := if t.signed then 2 ^ (t.w - 1) - 1 else 2 ^ t.w - 2

/-- capacity: a network of `n` cells fits the dtype -/
def Cap (t : IdxTy) (n : Nat) : Prop := n < t.cap

instance (t : IdxTy) (n : Nat) : Decidable (Cap t n) := by unfold Cap; exact inferInstance

/-- `pyflwdir.from_array`: `dtype = np.int32 if n < 2147483647 else (np.uint32 if n < 4294967294 else
np.uint64)` -/
def selectDtype (n : Nat) : IdxTy :=
  if n < 2147483647 then i32 else if n < 4294967294 then u32 else u64

/-- abstract index (`i < n` a cell, everything else the missing value) → machine value -/
def enc (t : IdxTy) (n i : Nat) : BitVec t.w := if i < n then BitVec.ofNat t.w i else t.mv

/-- machine value → abstract index (`canon_idx` of the harness; `n` = missing) -/
def dec (t : IdxTy) (n : Nat) (v : BitVec t.w) : Nat := if v = t.mv then n else v.toNat

/-- a machine value that can occur in an index array of a network with `n` cells -/
def WfM (t : IdxTy) (n : Nat) (v : BitVec t.w) : Prop := v = t.mv ∨ v.toNat < n

instance (t : IdxTy) (n : Nat) (v : BitVec t.w) : Decidable (WfM t n v) := by
  unfold WfM; exact inferInstance

/-- the number a machine value denotes under the dtype (two's complement for the signed types) -/
def val (t : IdxTy) (v : BitVec t.w) : Int := if t.signed then v.toInt else (v.toNat : Int)

/-- `a < b` as the machine evaluates it for the dtype (signed / unsigned comparison instruction) -/
def ltM (t : IdxTy) (a b : BitVec t.w) : Bool := if t.signed then a.slt b else a.ult b

/-! ## 2. machine-level sweeps and trace (width generic) -/

section sweeps
variable {α : Type} [Inhabited α] {w : Nat}

/-- one step of `for idx0 in seq: out[idx0] = g(idx0, out[idx0], out[idxs_ds[idx0]])` -/
def stepDownM (dsM : Array (BitVec w)) (g : Nat → α → α → α) (out : Array α) (i : BitVec w) : Array α :=
  out.setIfInBounds i.toNat (g i.toNat out[i.toNat]! out[dsM[i.toNat]!.toNat]!)

def sweepDownM (dsM : Array (BitVec w)) (g : Nat → α → α → α) (seqM : List (BitVec w)) (out : Array α) :
    Array α :=
  seqM.foldl (stepDownM dsM g) out

/-- one step of `for idx0 in seq[::-1]: idx_ds = idxs_ds[idx0]; if idx_ds != idx0: out[idx_ds] = upd(…)`;
the pit test is machine equality -/
def stepUpM (dsM : Array (BitVec w)) (upd : Nat → α → α → α) (i : BitVec w) (out : Array α) : Array α :=
  if dsM[i.toNat]! = i then out
  else out.setIfInBounds dsM[i.toNat]!.toNat (upd i.toNat out[dsM[i.toNat]!.toNat]! out[i.toNat]!)

def sweepUpM (dsM : Array (BitVec w)) (upd : Nat → α → α → α) (seqM : List (BitVec w)) (out : Array α) :
    Array α :=
  seqM.foldr (stepUpM dsM upd) out

/-- `core._trace` on machine indices: `idx1 == idx0 or idx1 == mv` are machine equalities -/
def traceM (nxtM : Array (BitVec w)) (mv : BitVec w) (mask : Option (Array Bool)) (maxLen : Option Int)
    (step : Nat → Nat → Int) : Nat → BitVec w → List (BitVec w) → Int → Option (List (BitVec w) × Int)
  | 0, _, _, _ => none
  | fuel+1, idx0, acc, dist =>
    let stop := match mask with
      | none => false
      | some m => m[idx0.toNat]!
    if stop then some (acc.reverse, dist) else
    let idx1 := nxtM[idx0.toNat]!
    if idx1 = idx0 ∨ idx1 = mv then some (acc.reverse, dist) else
    let d := step idx0.toNat idx1.toNat
    let over := match maxLen with
      | none => false
      | some ml => decide (dist + d > ml)
    if over then some (acc.reverse, dist)
    else traceM nxtM mv mask maxLen step fuel idx1 (idx1 :: acc) (dist + d)

def traceFromM (nxtM : Array (BitVec w)) (mv : BitVec w) (mask : Option (Array Bool)) (maxLen : Option Int)
    (step : Nat → Nat → Int) (fuel : Nat) (idx0 : BitVec w) : Option (List (BitVec w) × Int) :=
  traceM nxtM mv mask maxLen step fuel idx0 [idx0] 0

end sweeps

/-! ### kernels that are definitional instances -/

/-- `core.fillnodata_upstream` on a machine-typed network -/
def fillnodataUpstreamM {w : Nat} (dsM : Array (BitVec w)) (seqM : List (BitVec w)) (data : Array Int)
    (nodata : Int) : Array Int :=
  sweepDownM dsM (gFillNd nodata) seqM data

/-- the nodata guard of `accuflux`: `data[idx_ds] != nodata and data[idx0] != nodata` -/
def linkOkM {w : Nat} (dsM : Array (BitVec w)) (data : Array Int) (nodata : Int) (c : Nat) : Bool :=
  data[dsM[c]!.toNat]! != nodata && data[c]! != nodata

/-- `streams.accuflux` on a machine-typed network -/
def accufluxM {w : Nat} (dsM : Array (BitVec w)) (seqM : List (BitVec w)) (data : Array Int)
    (nodata : Int) : Array Int :=
  sweepUpM dsM (updAdd (linkOkM dsM data nodata)) seqM data

/-- body of `accuflux_ds`: the pit test `idx0 != idx_ds` is a machine comparison -/
def gAddDownM {w : Nat} (dsM : Array (BitVec w)) (ok : Nat → Bool) (c : Nat) (own dsv : Int) : Int :=
  if dsM[c]! ≠ BitVec.ofNat w c ∧ ok c = true then own + dsv else own

/-- `streams.accuflux_ds` on a machine-typed network -/
def accufluxDsM {w : Nat} (dsM : Array (BitVec w)) (seqM : List (BitVec w)) (data : Array Int)
    (nodata : Int) : Array Int :=
  sweepDownM dsM (gAddDownM dsM (linkOkM dsM data nodata)) seqM data

/-! ## 3. index arithmetic sites -/

/-- NumPy's promotion of two integer types for `+ - * //` (`none` = `float64`): same signedness → the
wider one; mixed → the signed type that holds both, `float64` if there is none (`uint64 ⊕ int64` - the
F16b / F16d defect class). Applies to typed scalars and arrays in the interpreter and to array
expressions under Numba. -/
def numpyPromote (a b : IdxTy) : Option IdxTy :=
  if a.signed = b.signed then some ⟨max a.w b.w, a.signed⟩
  else
    let s := if a.signed then a else b
    let u := if a.signed then b else a
    if u.w < s.w then some ⟨s.w, true⟩
    else if u.w < 64 then some ⟨2 * u.w, true⟩
    else none

/-- Numba's typing of SCALAR integer arithmetic (NBEP 1; widths up to 64): machine-word sized, signed
as soon as one operand is signed. `(uint64, int64) → int64`, `(uint32, uint32) → uint64`. -/
def numbaScalar (a b : IdxTy) : IdxTy := ⟨64, a.signed || b.signed⟩

/-- conversion of an index-typed value to `int64` (`np.int64(idx)`, `int(idx)` under the JIT for the
signed types, and the implicit conversion of unification): sign extension for the signed types, zero
extension for `uint32`, reinterpretation for `uint64` -/
def toI64 (t : IdxTy) (v : BitVec t.w) : BitVec 64 :=
  if t.signed then v.signExtend 64 else v.setWidth 64

/-- `abs` of a machine integer (`abs(np.int64(x))`; wraps at the most negative value like the hardware) -/
def absM {w : Nat} (d : BitVec w) : BitVec w := if d.slt 0 then -d else d

/-- **from_array decoders** (`core_d8`, `core_ldd`, `core_nextxy`), `core._d8_idx`, `_downstream_idx`,
`_upstream_idx`, `gis_utils`: `idx_ds = c_ds + r_ds * ncol` on `int64` row / column numbers -/
def linIdx64 (r c ncol : BitVec 64) : BitVec 64 := c + r * ncol

/-- `idxs_ds[idx0] = idx_ds`: storing an `int64` into the index array is a C cast (truncation) -/
def storeIdx (t : IdxTy) (x : BitVec 64) : BitVec t.w := x.setWidth t.w

/-- floor division `idx // ncol` as evaluated at a machine type (both operands non-negative in every
use; signed: Python floor division of the two's-complement values) -/
def fdivM (sg : Bool) {w : Nat} (a b : BitVec w) : BitVec w :=
  if sg then BitVec.ofInt w (a.toInt / b.toInt) else a / b

/-- `idx % ncol` at a machine type (Python modulo: sign of the divisor) -/
def fmodM (sg : Bool) {w : Nat} (a b : BitVec w) : BitVec w :=
  if sg then BitVec.ofInt w (a.toInt % b.toInt) else a % b

/-- regime (P): `idx // ncol` at the index type itself, `ncol` a Python int cast to that type -/
def rowT (t : IdxTy) (idx : BitVec t.w) (ncol : Nat) : BitVec t.w := fdivM t.signed idx (BitVec.ofNat t.w ncol)
def colT (t : IdxTy) (idx : BitVec t.w) (ncol : Nat) : BitVec t.w := fmodM t.signed idx (BitVec.ofNat t.w ncol)

/-- regime (N): `int(idx // ncol)` after unification with the `int64` column count -/
def row64 (t : IdxTy) (idx : BitVec t.w) (ncol : BitVec 64) : BitVec 64 := fdivM true (toI64 t idx) ncol
def col64 (t : IdxTy) (idx : BitVec t.w) (ncol : BitVec 64) : BitVec 64 := fmodM true (toI64 t idx) ncol

/-- the neighbour lists of `dem._local_d4` at one machine type: `[n, w, s, e, n]` and `[nw, sw, se, ne]` -/
def d4List {w : Nat} (idx0 ncol : BitVec w) : List (BitVec w) :=
  [idx0 - ncol, idx0 - 1, idx0 + ncol, idx0 + 1, idx0 - ncol]
def diagList {w : Nat} (idx0 ncol : BitVec w) : List (BitVec w) :=
  [idx0 - ncol - 1, idx0 + ncol - 1, idx0 + ncol + 1, idx0 - ncol + 1]

/-- `dem._local_d4(idx0, idx_ds, ncol)` at one machine type; `none` = `ValueError` of `list.index` -/
def localD4 {w : Nat} (idx0 idxDs ncol : BitVec w) : Option (List (BitVec w)) :=
  if idxDs ≠ idx0 then
    let di := (diagList idx0 ncol).idxOf idxDs
    if di < 4 then some (((d4List idx0 ncol).drop di).take 2) else none
  else some ((d4List idx0 ncol).drop 1)

/-- regime (P): `_local_d4` evaluated at the index type (`idx0 - ncol` with a weak Python int) -/
def localD4T (t : IdxTy) (idx0 idxDs : BitVec t.w) (ncol : Nat) : Option (List (BitVec t.w)) :=
  localD4 idx0 idxDs (BitVec.ofNat t.w ncol)

/-- regime (N): operands unified to `int64` (`numbaScalar t i64 = i64` for all four index types). For
`uint64` Numba evaluates the `==` of `list.index` between the `int64` entries and the `uint64` value
through `float64` (probed by the harness): this definition is the JIT reading below `2^53` cells. -/
def localD4N (t : IdxTy) (idx0 idxDs : BitVec t.w) (ncol : BitVec 64) : Option (List (BitVec 64)) :=
  localD4 (toI64 t idx0) (toI64 t idxDs) ncol

/-- a single neighbour `idx0 + dr*ncol + dc` (`upscale` / `ihu_minimize_error` after `idx0 = int(…)`,
`core._d8_idx`), operands `int64` -/
def nbr64 (t : IdxTy) (idx0 : BitVec t.w) (ncol : BitVec 64) (dr dc : Int) : BitVec 64 :=
  toI64 t idx0 + BitVec.ofInt 64 dr * ncol + BitVec.ofInt 64 dc

/-- the same at the index type (regime P) -/
def nbrT (t : IdxTy) (idx0 : BitVec t.w) (ncol : Nat) (dr dc : Int) : BitVec t.w :=
  idx0 + BitVec.ofInt t.w dr * BitVec.ofNat t.w ncol + BitVec.ofInt t.w dc

/-- **repaired** `dem.dig_4connectivity`: `dd = abs(np.int64(idx0) - np.int64(idx_ds))` -/
def absDiff64 (t : IdxTy) (a b : BitVec t.w) : BitVec 64 := absM (toI64 t a - toI64 t b)

/-- the **unrepaired** form `abs(idx0 - idx_ds)` evaluated at the index type (the interpreter before
b088814) -/
def absDiffT (t : IdxTy) (a b : BitVec t.w) : BitVec t.w :=
  if t.signed then absM (a - b) else a - b

/-- the form between b088814 and 23a01f9, `abs(int(idx0) - int(idx_ds))`, **under the JIT**: `int()`
keeps the type, `numbaScalar t t` is `uint64` for the unsigned index types - the subtraction wraps in
64 bits (F07d); for the signed types it is the `int64` computation -/
def absDiffJit (t : IdxTy) (a b : BitVec t.w) : BitVec 64 :=
  if t.signed then absM (toI64 t a - toI64 t b) else a.setWidth 64 - b.setWidth 64

/-- `upscale.subidx_2_idx(subidx, subncol, cellsize, ncol)`: `r = int(subidx // subncol) // cellsize;
c = int(subidx % subncol) // cellsize; return r * ncol + c` - the first division at the index type
(regime P) or after unification (regime N, argument `false`), the rest in `int64` -/
def subidx2idx (t : IdxTy) (regimeP : Bool) (subidx : BitVec t.w) (subncol cellsize ncol : Nat) : BitVec 64 :=
  let r0 : BitVec 64 := if regimeP then toI64 t (rowT t subidx subncol) else row64 t subidx (BitVec.ofNat 64 subncol)
  let c0 : BitVec 64 := if regimeP then toI64 t (colT t subidx subncol) else col64 t subidx (BitVec.ofNat 64 subncol)
  let r := fdivM true r0 (BitVec.ofNat 64 cellsize)
  let c := fdivM true c0 (BitVec.ofNat 64 cellsize)
  r * BitVec.ofNat 64 ncol + c

/-- `upscale.in_d8(idx0, idx_ds, ncol)`: `abs(int(idx_ds % ncol) - int(idx0 % ncol)) <= 1 and
abs(int(idx_ds // ncol) - int(idx0 // ncol)) <= 1` (also `gis_utils.distance`: `dr`, `dc`) -/
def inD8 (t : IdxTy) (idx0 idxDs : BitVec t.w) (ncol : Nat) : Bool :=
  let dc := absM (toI64 t (colT t idxDs ncol) - toI64 t (colT t idx0 ncol))
  let dr := absM (toI64 t (rowT t idxDs ncol) - toI64 t (rowT t idx0 ncol))
  !(BitVec.slt 1 dc) && !(BitVec.slt 1 dr)

end Pf.C16m
