import PfVerif.Model.C06
/-! C06, second part of the model of `dem.fill_depressions`: the `elv_max` restriction of the
initial outlets and the `max_depth >= 0` branch (pour-point depth limit), loop for loop, as of /repo
463c4a4. Core Lean only.

`max_depth >= 0`: when a not-done neighbour `j` of the popped cell lies `dz >= max_depth`, `dz > 0`
below the popped level it is *too deep*: it is pushed with its own elevation (it will become a pit),
and every non-nodata cell of its 3x3 window (structure cells only) is re-opened (`done = False`).
A re-opened cell that was filled before (`delv > 0`) is reset (`queued = False`, `delv = 0`,
`elevtn_out = elevtn`) when it is visited again and is not too deep. Heap entries are no longer
unique per cell; equal tuples are indistinguishable, so the sorted-list heap still pops what `heapq`
pops. `ev`, `evc` are ghost counters (number of too-deep events, per cell) used by the theorems and
reported to the harness; they do not influence the run. -/
namespace Pf.C06

/-! ### `elv_max` -/

/-- `queued = get_edge(~done) & (elevtn <= elv_max)` -/
def edgeBelow (G : Grid) (conn : Nat) (elev : Array Int) (nod : Array Bool) (m : Int) : Array Bool :=
  ((List.range G.n).map fun c => (getEdge G conn nod)[c]! && decide (elev[c]! ≤ m)).toArray

/-- the initial outlets with the optional `elv_max` (only looked at when `idxs_pit is None`);
`none` = `ValueError("No initial outlet cells found.")` -/
def seeds0E (G : Grid) (conn : Nat) (elev : Array Int) (nod : Array Bool) (pits : Option (List Nat))
    (elvMax : Option Int) : Option (Array Bool) :=
  match pits, elvMax with
  | none, some m =>
    let q := edgeBelow G conn elev nod m
    if (List.range G.n).any (fun c => q[c]!) then some q else none
  | _, _ => some (seeds0 G conn nod pits)

inductive SeedErr where
  | valueError   -- no initial outlet cells (elv_max)
  | indexError   -- heappop from an empty heap (outlets='min' without candidates)
  deriving Repr, DecidableEq

/-- the seed set the algorithm starts from, all options -/
def seedsOfE (G : Grid) (conn : Nat) (elev : Array Int) (nod : Array Bool) (pits : Option (List Nat))
    (minMode : Bool) (elvMax : Option Int) : Except SeedErr (Array Bool) :=
  match seeds0E G conn elev nod pits elvMax with
  | none => .error .valueError
  | some queued =>
    if minMode then
      match initHeap G elev queued with
      | [] => .error .indexError
      | h :: _ => .ok ((Array.replicate G.n false).setIfInBounds h.idx true)
    else .ok queued

/-- `fill_depressions(..., max_depth < 0, elv_max)` -/
def fillModelE (G : Grid) (conn : Nat) (elev : Array Int) (nod : Array Bool) (pits : Option (List Nat))
    (minMode : Bool) (elvMax : Option Int) : Except SeedErr (Array Int × Array Nat × Bool) :=
  match seedsOfE G conn elev nod pits minMode elvMax with
  | .error e => .error e
  | .ok queued =>
    let s := fillLoop G conn elev (G.n + 1) (initState G elev nod queued)
    .ok (s.f, s.d8, s.q.isEmpty)

/-! ### `max_depth >= 0` -/

structure StD where
  q : List HE
  done : Array Bool
  queued : Array Bool
  f : Array Int
  d8 : Array Nat
  delv : Array Int
  ev : Nat            -- ghost: number of too-deep events so far
  evc : Array Nat     -- ghost: too-deep events per cell

/-- `for dr1, dc1 in zip(drs, dcs): ... if not isnodata[r1, c1]: done[r1, c1] = False` -/
def reopen (G : Grid) (conn : Nat) (nod : Array Bool) (j : Nat) (done : Array Bool) : Array Bool :=
  (offsets conn).foldl (fun d o =>
    match shift G j o.1 o.2 with
    | some k => if nod[k]! then d else d.setIfInBounds k false
    | none => d) done

/-- the too-deep branch for the cell `j`: push with its own elevation (it will become a pit),
re-open its window, `continue` -/
def deepStep (G : Grid) (conn : Nat) (elev : Array Int) (nod : Array Bool) (s : StD) (j : Nat) : StD :=
  { s with
    q := hpush ⟨elev[j]!, 0, j⟩ s.q
    queued := s.queued.setIfInBounds j true
    done := reopen G conn nod j s.done
    ev := s.ev + 1
    evc := s.evc.setIfInBounds j (s.evc[j]! + 1) }

/-- `elif delv[r, c] > 0`: reset a previously filled cell that is visited again -/
def resetStep (elev : Array Int) (s : StD) (j : Nat) : StD :=
  if s.delv[j]! > 0 then
    { s with
      queued := s.queued.setIfInBounds j false
      delv := s.delv.setIfInBounds j 0
      f := s.f.setIfInBounds j elev[j]! }
  else s

/-- the rest of the loop body (same as for unlimited depth, plus `delv`) -/
def fillStep (elev : Array Int) (z0 : Int) (s : StD) (j : Nat) (code : Nat) : StD :=
  let dz := z0 - elev[j]!
  let fill := decide (dz > 0)
  let push := !s.queued[j]!
  { s with
    q := if push then hpush ⟨if fill then z0 else elev[j]!, 0, j⟩ s.q else s.q
    done := s.done.setIfInBounds j true
    queued := if push then s.queued.setIfInBounds j true else s.queued
    f := if fill then s.f.setIfInBounds j z0 else s.f
    delv := if fill then s.delv.setIfInBounds j dz else s.delv
    d8 := s.d8.setIfInBounds j code }

/-- `dz >= max_depth and dz > 0` -/
def tooDeep (md dz : Int) : Bool := decide (dz ≥ md) && decide (dz > 0)

/-- body of the neighbour loop for the popped cell `(z0, i0)`, offset `o`, `max_depth = md >= 0` -/
def visitD (G : Grid) (conn : Nat) (elev : Array Int) (nod : Array Bool) (md : Int) (z0 : Int) (i0 : Nat)
    (s : StD) (o : Int × Int) : StD :=
  match shift G i0 o.1 o.2 with
  | none => s
  | some j =>
    if s.done[j]! then s
    else if tooDeep md (z0 - elev[j]!) then deepStep G conn elev nod s j
    else fillStep elev z0 (resetStep elev s j) j (usCode o.1 o.2)

def popStepD (G : Grid) (conn : Nat) (elev : Array Int) (nod : Array Bool) (md : Int) (h : HE) (s : StD) : StD :=
  (offsets conn).foldl (visitD G conn elev nod md h.z h.idx) s

def fillLoopD (G : Grid) (conn : Nat) (elev : Array Int) (nod : Array Bool) (md : Int) : Nat → StD → StD
  | 0, s => s
  | fuel + 1, s =>
    match s.q with
    | [] => s
    | h :: rest => fillLoopD G conn elev nod md fuel (popStepD G conn elev nod md h { s with q := rest })

def initStateD (G : Grid) (elev : Array Int) (nod : Array Bool) (queued : Array Bool) : StD :=
  { q := initHeap G elev queued
    done := nod
    queued := queued
    f := elev
    d8 := nod.map fun b => if b then 247 else 0
    delv := Array.replicate G.n 0
    ev := 0
    evc := Array.replicate G.n 0 }

/-- fuel of the depth-limited loop: potential `2n` at the start, at most `+10` per too-deep event,
`-1` per pop (`potD_loop`), and at most one too-deep event per cell (`too_deep_once`, proved in
`Proofs/C06Once.lean`); `fillModelDepth_total`: this fuel is never exhausted -/
def fuelD (G : Grid) : Nat := 12 * G.n + 1

/-- `fill_depressions(elevtn, outlets, idxs_pit, nodata, max_depth = md >= 0, elv_max, connectivity)`.
Returns `(elevtn_out, d8, heap empty at the end, number of too-deep events, per-cell counts)` -/
def fillModelDepth (G : Grid) (conn : Nat) (elev : Array Int) (nod : Array Bool) (pits : Option (List Nat))
    (minMode : Bool) (elvMax : Option Int) (md : Int) :
    Except SeedErr (Array Int × Array Nat × Bool × Nat × Array Nat) :=
  match seedsOfE G conn elev nod pits minMode elvMax with
  | .error e => .error e
  | .ok queued =>
    let s := fillLoopD G conn elev nod md (fuelD G) (initStateD G elev nod queued)
    .ok (s.f, s.d8, s.q.isEmpty, s.ev, s.evc)

/-- forget the depth bookkeeping -/
def StD.toSt (s : StD) : St := { q := s.q, done := s.done, queued := s.queued, f := s.f, d8 := s.d8 }

end Pf.C06
