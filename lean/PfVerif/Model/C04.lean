import PfVerif.Model.Core
/-! Models of the accumulation kernels (C04), loop for loop, core Lean only:
`streams.accuflux`, `streams.accuflux_ds`, `streams.upstream_area`, the unit handling of
`FlwdirRaster.upstream_area` / `Flwdir.upstream_area`, `gis_utils.area_grid`; followed by the
executable *declarative* definitions the driver uses as oracle (brute-force catchment sum, walk to the
pit) - `Props/C04.lean` relates the two.

Numbers: fields are `Int`; the harness scales dyadic float fields (and the nodata value) by a common
power of two, so `+` is exact on both sides. -/
namespace Pf

/-! ### the kernels -/

/-- the nodata guard of `accuflux` / `accuflux_ds` for the link `c → ds c`; it reads the INPUT field
(`data[idx_ds] != nodata and data[idx0] != nodata`) -/
def linkOk (ds : Array Nat) (data : Array Int) (nodata : Int) (c : Nat) : Bool :=
  data[ds[c]!]! != nodata && data[c]! != nodata

/-- `accu[idx_ds] += accu[idx0]` under the guard `ok idx0` -/
def updAdd (ok : Nat → Bool) (c : Nat) (acc v : Int) : Int :=
  if ok c then acc + v else acc

/-- `streams.accuflux(idxs_ds, seq, data, nodata)`:
`accu = data.copy(); for idx0 in seq[::-1]: if idx0 != idx_ds and <guard>: accu[idx_ds] += accu[idx0]`
(`sweepUp`/`stepUp` skip the pits: `idx0 != idx_ds`) -/
def accuflux (ds : Array Nat) (seq : List Nat) (data : Array Int) (nodata : Int) : Array Int :=
  sweepUp ds (updAdd (linkOk ds data nodata)) seq data

/-- body of `accuflux_ds`: `if idx0 != idx_ds and <guard>: accu[idx0] += accu[idx_ds]` -/
def gAddDown (ds : Array Nat) (ok : Nat → Bool) (c : Nat) (own dsv : Int) : Int :=
  if ds[c]! ≠ c ∧ ok c = true then own + dsv else own

/-- `streams.accuflux_ds(idxs_ds, seq, data, nodata)` (`for idx0 in seq`) -/
def accufluxDs (ds : Array Nat) (seq : List Nat) (data : Array Int) (nodata : Int) : Array Int :=
  sweepDown ds (gAddDown ds (linkOk ds data nodata)) seq data

/-- `uparea[~self.mask] = -9999` (the nodata value arrives scaled like the field) -/
def maskInvalid (ds : Array Nat) (nodata : Int) (a : Array Int) : Array Int :=
  a.mapIdx fun i v => if ds[i]! = ds.size then nodata else v

/-- `FlwdirRaster.upstream_area(unit)` / `Flwdir.upstream_area()` after the cell-area vector has been
formed (`area = self.area.ravel() / AREA_FACTORS[unit]`, or ones for `unit='cell'`):
`accuflux(idxs_ds, seq, area, nodata=-9999)` then `uparea[~mask] = -9999`. -/
def upstreamArea (ds : Array Nat) (seq : List Nat) (area : Array Int) (nodata : Int) : Array Int :=
  maskInvalid ds nodata (accuflux ds seq area nodata)

/-- `gis_utils.area_grid(transform, shape, latlon, unit)`: one value per raster row
(projected: the constant `|xres*yres| / factor`; geographic: `cellarea(lat_row) / factor`, passed in) -/
def areaGrid (nrow ncol : Nat) (rowArea : Array Int) : Array Int :=
  Array.ofFn (n := nrow * ncol) fun i => rowArea[i.val / ncol]!

/-- `streams.upstream_area(idxs_ds, seq, ncol, latlon, transform, area_factor, nodata)`:
`uparea = full(n, nodata); uparea[idx] = rowArea[idx // ncol] for idx in seq;`
`for idx0 in seq[::-1]: if idx0 != idx_ds: uparea[idx_ds] += uparea[idx0]` (no nodata guard) -/
def upstreamAreaKernel (ds : Array Nat) (seq : List Nat) (ncol : Nat) (rowArea : Array Int)
    (nodata : Int) : Array Int :=
  sweepUp ds (updAdd fun _ => true) seq
    (seq.foldl (fun a idx => a.setIfInBounds idx rowArea[idx / ncol]!) (Array.replicate ds.size nodata))

/-! ### declarative oracles (executable) -/

/-- `Σ_{k < n} f k` -/
def sumRange : Nat → (Nat → Int) → Int
  | 0, _ => 0
  | n+1, f => sumRange n f + f n

/-- walk downstream from `k` for at most `fuel` steps over links that pass flow (`ok`); true when `j` is met -/
def reachesG (ds : Array Nat) (ok : Nat → Bool) : Nat → Nat → Nat → Bool
  | 0, j, k => k == j
  | fuel+1, j, k => k == j || (ds[k]! != k && ok k && reachesG ds ok fuel j ds[k]!)

/-- brute-force upstream accumulation of cell `j`: the sum of the field over every valid cell whose
flow path (over links that pass flow) meets `j` -/
def catchSumB (ds : Array Nat) (ok : Nat → Bool) (data : Array Int) (fuel j : Nat) : Int :=
  sumRange ds.size fun k => if isValid ds k && reachesG ds ok fuel j k then data[k]! else 0

/-- the sum of the field along the flow path from `i` to the first cell that does not pass flow on
(a pit, or a link cut by nodata); `none` when the fuel runs out (cell on a loop) -/
def pathSumG (ds : Array Nat) (ok : Nat → Bool) (data : Array Int) : Nat → Nat → Option Int
  | 0, _ => none
  | fuel+1, i =>
    if ds[i]! ≠ i ∧ ok i = true then (pathSumG ds ok data fuel ds[i]!).map (data[i]! + ·)
    else some data[i]!

/-- every valid cell is in `seq` and `seq` holds valid cells only (loop-free network, C03) -/
def coversValid (ds : Array Nat) (seq : List Nat) : Bool :=
  (List.range ds.size).all (fun k => isValid ds k == seq.contains k) && seq.all (fun k => k < ds.size)

/-! ### IEEE double model of `accuflux` (geographic cell areas are not dyadic-small, so their float
sums round; this model performs the same additions in the same order on `Float` = binary64) -/

def accufluxF64 (ds : Array Nat) (seq : List Nat) (data : Array Float) (nodata : Float) : Array Float :=
  seq.foldr (fun idx0 accu =>
    let d := ds[idx0]!
    if idx0 != d && data[d]! != nodata && data[idx0]! != nodata then
      accu.setIfInBounds d (accu[d]! + accu[idx0]!)
    else accu) data

end Pf
