import PfVerif.Model.Core
/-! Models of `basins.subbasins_streamorder`, `basins.subbasins_area`, `basins._tributaries`,
`basins.subbasins_pfafstetter` (with `streams.stream_order`, the classic order it calls), and the
decidable certificate predicates of C18. Core Lean only.

Numbers: stream orders, labels and Pfafstetter codes are `Int`; upstream areas and thresholds are
rationals scaled to `Int` by the harness (common denominator), so `>`/`-` are exact. -/
namespace Pf

/-- `Array.map` through lists (reduces in the kernel, so closed examples can be decided) -/
def amap {α β : Type} (f : α → β) (a : Array α) : Array β := (a.toList.map f).toArray

/-! ### the shared idiom `idxs.append(idx); subbas[idx] = len(idxs)` -/

/-- state = (`subbas`, `idxs` in append order) -/
abbrev Seeds := Array Int × List Nat

def pushOutlet (st : Seeds) (idx : Nat) : Seeds :=
  (st.1.setIfInBounds idx (Int.ofNat (st.2.length + 1)), st.2 ++ [idx])

/-- one iteration of a loop that carries a side state `σ`, decides from it whether the current
cell becomes an outlet, and updates the side state -/
def pushStep {σ : Type} (dec : σ → Nat → Bool) (next : σ → Nat → σ) (acc : σ × Seeds) (x : Nat) :
    σ × Seeds :=
  (next acc.1 x, if dec acc.1 x then pushOutlet acc.2 x else acc.2)

def pushFold {σ : Type} (dec : σ → Nat → Bool) (next : σ → Nat → σ) (l : List Nat)
    (acc : σ × Seeds) : σ × Seeds :=
  l.foldl (pushStep dec next) acc

/-! ### `subbasins_streamorder` -/

/-- `int(strord.max())` for an unsigned order array -/
def arrMax (a : Array Int) : Int := a.foldl max 0

/-- `if min_sto < 0: min_sto = int(strord.max()) + min_sto` -/
def soMinSto (strord : Array Int) (minSto : Int) : Int :=
  if minSto < 0 then arrMax strord + minSto else minSto

/-- the loop body's test `(mask is not None and mask[idx0] == False) or strord[idx0] < min_sto`
(negated) and the outlet condition. (Before commit 88f86c0 of /repo the mask test read
`mask[idx0] is False`, which the interpreter never satisfied; it now excludes false cells in
interpreted and compiled mode alike.) -/
def soIsOutlet (ds : Array Nat) (strord : Array Int) (mask : Option (Array Bool)) (m : Int)
    (idx0 : Nat) : Bool :=
  maskAt mask idx0 && decide (strord[idx0]! ≥ m) &&
    (strord[idx0]! != strord[ds[idx0]!]! || ds[idx0]! == idx0)

/-- `for idx0 in seq[::-1]: …` -/
def soSeeds (ds : Array Nat) (seq : List Nat) (strord : Array Int) (mask : Option (Array Bool))
    (m : Int) : Seeds :=
  (pushFold (σ := Unit) (fun _ x => soIsOutlet ds strord mask m x) (fun s _ => s) seq.reverse
    ((), (Array.replicate ds.size 0, []))).2

/-- returns (label map, outlet cells in the order returned) -/
def subbasinsStreamorder (ds : Array Nat) (seq : List Nat) (strord : Array Int)
    (mask : Option (Array Bool)) (minSto : Int) : Array Int × List Nat :=
  let st := soSeeds ds seq strord mask (soMinSto strord minSto)
  (fillnodataUpstream ds seq st.1 0, st.2)

/-! ### `subbasins_area` -/

/-- does the loop body append `idx`? (`upaOut` = `upa_out` before the iteration) -/
def areaDec (ds usMain : Array Nat) (uparea : Array Int) (amin : Int) (upaOut : Array Int)
    (idx : Nat) : Bool :=
  let d := ds[idx]!
  if d = idx then true
  else
    let upa0 := upaOut[d]!
    let upa := uparea[idx]!
    if upa0 - upa > amin ∧ upa > amin then
      let conf := decide (uparea[d]! - upa > amin)
      let trib := usMain[d]! != idx
      !conf || trib
    else false

/-- the loop body's effect on `upa_out` -/
def areaNext (ds usMain : Array Nat) (uparea : Array Int) (amin : Int) (upaOut : Array Int)
    (idx : Nat) : Array Int :=
  let d := ds[idx]!
  if d = idx then upaOut
  else
    let upa0 := upaOut[d]!
    let upa := uparea[idx]!
    if upa0 - upa > amin ∧ upa > amin then
      let conf := decide (uparea[d]! - upa > amin)
      let trib := usMain[d]! != idx
      let u1 := if !conf || trib then upaOut.setIfInBounds idx upa else upaOut
      if trib then
        let idx1 := usMain[d]!
        let u2 := u1.setIfInBounds d (u1[d]! - upa)
        u2.setIfInBounds idx1 u2[d]!
      else u1
    else upaOut.setIfInBounds idx upa0

def areaSeeds (ds : Array Nat) (seq : List Nat) (usMain : Array Nat) (uparea : Array Int)
    (amin : Int) : Seeds :=
  (pushFold (areaDec ds usMain uparea amin) (areaNext ds usMain uparea amin) seq
    (uparea, (Array.replicate ds.size 0, []))).2

def subbasinsArea (ds : Array Nat) (seq : List Nat) (usMain : Array Nat) (uparea : Array Int)
    (amin : Int) : Array Int × List Nat :=
  let st := areaSeeds ds seq usMain uparea amin
  (fillnodataUpstream ds seq st.1 0, st.2)

/-! ### `streams.stream_order` (classic), `_tributaries` -/

def streamOrderClassic (ds : Array Nat) (seq : List Nat) (usMain : Array Nat)
    (mask : Option (Array Bool)) : Array Int :=
  let nup := upstreamCount ds mask
  seq.foldl (fun so idx0 =>
    if !(maskAt mask idx0) then so
    else
      let d := ds[idx0]!
      if d = idx0 then so.setIfInBounds idx0 1
      else if nup[d]! > 1 ∧ usMain[d]! ≠ idx0 then so.setIfInBounds idx0 (so[d]! + 1)
      else so.setIfInBounds idx0 so[d]!) (Array.replicate ds.size 0)

def tributaries (ds : Array Nat) (seq : List Nat) (strord : Array Int) : List Nat :=
  seq.filter fun i => decide (strord[i]! > 0) && decide (strord[i]! > strord[ds[i]!]!)

/-! ### `subbasins_pfafstetter` -/

/-- `idxs[np.argsort(-key[idxs])]` modelled as a *stable* descending sort (insertion sort).
NumPy's default sort is not stable; the op reports whether a tie could matter (`tie`). -/
def insertDesc (key : Nat → Int) (x : Nat) : List Nat → List Nat
  | [] => [x]
  | y :: r => if key y ≥ key x then y :: insertDesc key x r else x :: y :: r

def sortDesc (key : Nat → Int) (l : List Nat) : List Nat :=
  l.foldl (fun acc x => insertDesc key x acc) []

def hasDupKey (key : Nat → Int) : List Nat → Bool
  | [] => false
  | x :: r => r.any (fun y => key y == key x) || hasDupKey key r

/-- `while True: idx = idxs_us_main[idx]; if idx == mv or <stop>: break; pfaf_branch[idx] = v`.
The stop test `h u x` sees the candidate cell `u` and its current value `x = pfaf_branch[u]`.
`none` = fuel exhausted (cannot happen when `idxs_us_main` is loop-free; the ops report it as an error). -/
def stemFill (usMain : Array Nat) (n : Nat) (h : Nat → Int → Bool) (v : Int) :
    Nat → Nat → Array Int → Option (Array Int)
  | 0, _, _ => none
  | f+1, idx, br =>
    let u := usMain[idx]!
    if u ≥ n || h u br[u]! then some br else stemFill usMain n h v f u (br.setIfInBounds u v)

/-- state of the worklist loop: `pfaf_branch`, `idxs`, `labs` -/
abbrev PfSt := Array Int × List Nat × List (Int × Nat)

/-- the `for i, idx in enumerate(idxs_trib0s)` loop; extra components = `pfaf_int_ds` and the side
condition `ok` of theorem `pfaf_partition`: whenever an inter-basin outlet `idx1` is created it is a
cell of the raster whose current code is 0 or the code of the inter-basin below (`pfaf_int_ds`) —
i.e. the tributaries really are visited from down- to upstream along the main stem. -/
def pfInner (ds usMain : Array Nat) (so : Array Int) (depth : Nat) (pfaf0 : Int) (d0 : Nat) :
    List Nat → Nat → PfSt × Int × Bool → Option (PfSt × Int × Bool)
  | [], _, st => some st
  | idx :: rest, i, ((br, idxs, labs), intDs, ok) =>
    let n := ds.size
    let idxs := idxs ++ [idx]
    let idx1 := usMain[ds[idx]!]!
    let p : Int := (10 : Int) ^ (depth - d0)
    let sub := pfaf0 + (2 * (i : Int) + 1) * p
    match stemFill usMain n (fun u _ => so[u]! == 0) sub (n + 2) idx (br.setIfInBounds idx sub) with
    | none => none
    | some br =>
      let labs := if d0 < depth then labs ++ [(sub, d0 + 1)] else labs
      if idxs.contains idx1 then
        pfInner ds usMain so depth pfaf0 d0 rest (i + 1) ((br, idxs, labs), intDs, ok)
      else
        let ok := ok && decide (idx1 < n) && (br[idx1]! == 0 || br[idx1]! == intDs)
        let pint := pfaf0 + ((i : Int) + 1) * 2 * p
        match stemFill usMain n (fun _ x => x != intDs) pint (n + 2) idx1 (br.setIfInBounds idx1 pint) with
        | none => none
        | some br =>
          let labs := if d0 < depth then labs ++ [(pint, d0 + 1)] else labs
          pfInner ds usMain so depth pfaf0 d0 rest (i + 1) ((br, idxs ++ [idx1], labs), pint, ok)

/-- `while len(labs) > 0` with fuel; `none` = fuel exhausted. Flags: (tie, ok). -/
def pfLoop (ds usMain : Array Nat) (so uparea : Array Int) (trib : List Nat) (depth : Nat) :
    Nat → PfSt × Bool × Bool → Option (PfSt × Bool × Bool)
  | _, ((br, idxs, []), fl) => some ((br, idxs, []), fl)
  | 0, _ => none
  | f+1, ((br, idxs, (pfaf0, d0) :: labs), tie, ok) =>
    let idxs0 := trib.filter fun idx => br[idx]! == 0 && br[ds[idx]!]! == pfaf0
    if idxs0.isEmpty then pfLoop ds usMain so uparea trib depth f ((br, idxs, labs), tie, ok)
    else
      let s1 := sortDesc (fun i => uparea[i]!) idxs0
      let t0 := s1.take 4
      let key2 := fun i => uparea[ds[i]!]!
      let s2 := sortDesc key2 t0
      let boundary := match s1.drop 3 with
        | a :: b :: _ => uparea[a]! == uparea[b]!
        | _ => false
      let tie := tie || boundary || hasDupKey key2 t0
      match pfInner ds usMain so depth pfaf0 d0 s2 0 ((br, idxs, labs), pfaf0, ok) with
      | none => none
      | some (st, _, ok) => pfLoop ds usMain so uparea trib depth f (st, tie, ok)

/-- `pfaf0 = 1; for d0 in range(1, depth): pfaf0 += 10**d0` -/
def pfBase (depth : Nat) : Int :=
  (List.range depth).foldl (fun (s : Int) d0 => if d0 = 0 then s else s + (10 : Int) ^ d0) 1

/-- the `for i, idx in enumerate(idxs_pit)` loop -/
def pfPits (usMain : Array Nat) (n : Nat) (so : Array Int) (depth : Nat) :
    List Nat → Nat → PfSt → Option PfSt
  | [], _, st => some st
  | idx :: rest, i, (br, idxs, labs) =>
    let pfaf1 := pfBase depth + ((i : Int) + 1) * (10 : Int) ^ depth
    match stemFill usMain n (fun u _ => so[u]! == 0) pfaf1 (n + 2) idx (br.setIfInBounds idx pfaf1) with
    | none => none
    | some br => pfPits usMain n so depth rest (i + 1) (br, idxs ++ [idx], labs ++ [(pfaf1, 1)])

/-- `strord = np.where(strord <= depth + 1, strord, 0)` -/
def pfStrord (ds : Array Nat) (seq : List Nat) (usMain : Array Nat) (mask : Option (Array Bool))
    (depth : Nat) : Array Int :=
  amap (fun s => if s ≤ (depth : Int) + 1 then s else 0) (streamOrderClassic ds seq usMain mask)

/-- `pfaf_branch`, `idxs`, tie flag, side-condition flag after the two loops -/
def pfBranch (pits : List Nat) (ds : Array Nat) (seq : List Nat) (usMain : Array Nat)
    (uparea : Array Int) (mask : Option (Array Bool)) (depth : Nat) :
    Option (Array Int × List Nat × Bool × Bool) :=
  let n := ds.size
  let so := pfStrord ds seq usMain mask depth
  let trib := tributaries ds seq so
  match pfPits usMain n so depth pits 0 (Array.replicate n 0, [], []) with
  | none => none
  | some st0 =>
    match pfLoop ds usMain so uparea trib depth (2 * n + pits.length + 2)
        (st0, false, pits.all (fun p => decide (p < n))) with
    | none => none
    | some ((br, idxs, _), tie, ok) => some (br, idxs, tie, ok)

/-- returns (codes, outlets, tie flag, side-condition flag) -/
def subbasinsPfafstetter (pits : List Nat) (ds : Array Nat) (seq : List Nat) (usMain : Array Nat)
    (uparea : Array Int) (mask : Option (Array Bool)) (depth : Nat) :
    Option (Array Int × List Nat × Bool × Bool) :=
  (pfBranch pits ds seq usMain uparea mask depth).map fun (br, idxs, tie, ok) =>
    (amap (fun v => v % (10 : Int) ^ depth) (fillnodataUpstream ds seq br 0), idxs, tie, ok)

/-- the wrapper's `mask = uparea >= upa_min` (absent when `upa_min is None`) -/
def pfMask (uparea : Array Int) (upaMin : Option Int) : Option (Array Bool) :=
  upaMin.map fun m => amap (fun u => decide (u ≥ m)) uparea

/-! ### declarative side: certificates evaluated on the implementation's output -/

/-- walk downstream to the first cell flagged in `out`: `some (some o)` found `o`, `some none` a pit
came first, `none` fuel exhausted (cell on a loop) -/
def firstOutletWalk (ds : Array Nat) (out : Array Bool) : Nat → Nat → Option (Option Nat)
  | 0, _ => none
  | f+1, i =>
    if out[i]! then some (some i)
    else if ds[i]! = i then some none
    else firstOutletWalk ds out f ds[i]!

def outletFlags (n : Nat) (outlets : List Nat) : Array Bool :=
  outlets.foldl (fun a o => a.setIfInBounds o true) (Array.replicate n false)

/-- `labels[i]` is the label carried by the first returned outlet on the downstream path of `i`
(0 if there is none), for every cell of the network; every outlet carries a non-zero label -/
def subOK (ds : Array Nat) (outlets : List Nat) (labels : Array Int) : Bool :=
  let out := outletFlags ds.size outlets
  outlets.all (fun o => o < ds.size && labels[o]! != 0) &&
  (List.range ds.size).all fun i =>
    !(isValid ds i) ||
      (match firstOutletWalk ds out (ds.size + 1) i with
       | none => false
       | some none => labels[i]! == 0
       | some (some o) => labels[i]! == labels[o]!)

/-- the `k`-th returned outlet carries the label `k+1` (stream-order and area methods) -/
def idsOK (outlets : List Nat) (labels : Array Int) : Bool :=
  (List.range outlets.length).all fun k => labels[outlets[k]!]! == (k : Int) + 1

/-- declarative outlet set of the stream-order method, in increasing cell order -/
def soOutletSpec (ds : Array Nat) (strord : Array Int) (mask : Option (Array Bool)) (minSto : Int) :
    List Nat :=
  let m := soMinSto strord minSto
  (List.range ds.size).filter fun i =>
    isValid ds i && maskAt mask i && decide (strord[i]! ≥ m) &&
      (ds[i]! == i || strord[ds[i]!]! != strord[i]!)

/-- every returned outlet of the area method is a pit or has `uparea > area_min`; every pit of the
network is returned -/
def areaOutletsOK (ds : Array Nat) (uparea : Array Int) (amin : Int) (outlets : List Nat) : Bool :=
  outlets.all (fun o => ds[o]! == o || decide (uparea[o]! > amin)) &&
  (List.range ds.size).all fun i => !(isPit ds i) || outlets.contains i

/-- total cell area carrying the label `l` -/
def labelArea (area labels : Array Int) (l : Int) : Int :=
  (List.range labels.size).foldl (fun s i => if labels[i]! == l then s + area[i]! else s) 0

/-- every sub-basin whose outlet is not a pit has total cell area `> area_min` -/
def areaSizeOK (ds : Array Nat) (area : Array Int) (amin : Int) (outlets : List Nat)
    (labels : Array Int) : Bool :=
  outlets.all fun o => ds[o]! == o || decide (labelArea area labels labels[o]! > amin)

/-- digit `k` (0 = deepest level) and the prefix above it -/
def dig (k : Nat) (l : Int) : Int := (l / (10 : Int) ^ k) % 10
def pre (k : Nat) (l : Int) : Int := l / (10 : Int) ^ (k + 1)

/-- every code is 0 or has exactly `depth` digits, each in 1..9 -/
def digitsOK (depth : Nat) (labels : Array Int) : Bool :=
  labels.toList.all fun l =>
    l == 0 || (decide (0 < l) && decide (l < (10 : Int) ^ depth) &&
      (List.range depth).all fun k => decide (1 ≤ dig k l))

/-- link rule at level `k`: where a cell and its downstream cell lie in the same basin of the
level above and their digits differ, the downstream digit is odd (an inter-basin on the main stem)
and smaller than the upstream digit -/
def linkOKAt (ds : Array Nat) (labels : Array Int) (k : Nat) (i : Nat) : Bool :=
  let li := labels[i]!
  let lj := labels[ds[i]!]!
  li == 0 || lj == 0 || pre k li != pre k lj || dig k lj == dig k li ||
    (dig k lj % 2 == 1 && decide (dig k lj < dig k li))

def linkOK (ds : Array Nat) (depth : Nat) (labels : Array Int) : Bool :=
  (List.range depth).all fun k => (List.range ds.size).all fun i =>
    !(isValid ds i) || linkOKAt ds labels k i

/-- a deeper level refines the shallower one -/
def refineOK (shallow deep : Array Int) : Bool :=
  shallow.size == deep.size && (List.range deep.size).all fun i => deep[i]! / 10 == shallow[i]!

/-- distance to the pit of every cell of a downstream-first order, recomputed along `seq` -/
def seqRanks (ds : Array Nat) (seq : List Nat) : Array Nat :=
  seq.foldl (fun r i => if ds[i]! = i then r.setIfInBounds i 0 else r.setIfInBounds i (r[ds[i]!]! + 1))
    (Array.replicate ds.size 0)

def adjSorted (r : Array Nat) : List Nat → Bool
  | [] => true
  | [_] => true
  | a :: b :: rest => decide (r[a]! ≤ r[b]!) && adjSorted r (b :: rest)

/-- hypothesis of theorem `area_size` supplied by the implementation, executable: the cell order is
sorted by the distance to the pit (true for both `order_cells` methods: rank sort and breadth-first walk) -/
def rankOrderOK (ds : Array Nat) (seq : List Nat) : Bool :=
  let r := seqRanks ds seq
  seq.all (fun i => ds[i]! == i || r[i]! == r[ds[i]!]! + 1) && adjSorted r seq

/-- `Σ_{x ∈ l, p x} f x` (conditional sum over a list of cells) -/
def C18.csum (p : Nat → Bool) (f : Nat → Int) : List Nat → Int
  | [] => 0
  | x :: l => (if p x = true then f x else 0) + C18.csum p f l

/-- hypothesis of theorem `area_size`, executable: `uparea` has the size of the network and is, on the
cells of `seq`, the accumulation of the non-negative cell areas `area` over the inflowing cells in `seq` -/
def accumOK (ds : Array Nat) (seq : List Nat) (area uparea : Array Int) : Bool :=
  uparea.size == ds.size && seq.all fun d => decide (0 ≤ area[d]!) &&
    (uparea[d]! == area[d]! + C18.csum (fun c => decide (ds[c]! = d ∧ c ≠ d)) (fun c => uparea[c]!) seq)

/-- hypothesis supplied by the implementation: `idxs_us_main[i]` is missing or a cell draining to `i` -/
def usMainOK (ds usMain : Array Nat) : Bool :=
  usMain.size == ds.size && (List.range ds.size).all fun i =>
    let u := usMain[i]!
    u == ds.size || (u < ds.size && u != i && ds[u]! == i)

/-- the documented preconditions of `subbasins_pfafstetter`, executable (hypotheses of theorem `pfaf_ok`): the
cell order is downstream-first and holds every cell of the network, `idxs_us_main` picks an inflowing cell for
every cell that has one, the upstream area is strictly larger at the downstream cell, the pits are distinct
pits of the network -/
def pfPreOK (pits : List Nat) (ds : Array Nat) (seq : List Nat) (usMain : Array Nat)
    (uparea : Array Int) : Bool :=
  isTopo ds seq && usMainOK ds usMain &&
  (List.range ds.size).all (fun i => !(decide (ds[i]! < ds.size)) || seq.contains i) &&
  seq.all (fun i => ds[i]! == i ||
    (decide (usMain[ds[i]!]! < ds.size) && decide (uparea[i]! < uparea[ds[i]!]!))) &&
  decide pits.Nodup && pits.all (fun p => seq.contains p && ds[p]! == p)

end Pf
