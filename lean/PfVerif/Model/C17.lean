/-! # C17 — executable model of the coordinate / distance / area kernels of `pyflwdir/gis_utils.py`

Core Lean only (no Mathlib).  Numbers are exact rationals (`Rat`); `affine.Affine` is modelled as the
six-coefficient rational affine map with the arithmetic of `affine/__init__.py` (`__matmul__`,
`__invert__`, `translation`, `scale`) transcribed formula for formula.

Transcendental pieces are parameters: `degree_metres_x/y` are functions `Rat → Rat`, `cellarea` is written
over an abstract sine-of-degrees `sinD : Rat → Rat` and the constant `pi180` (= π/180); the model decides
*where* (which latitude, which row) they are evaluated.  `math.hypot` is not evaluated: `distance` is
modelled by its two legs (and their squared length); `IsHypot` is the ideal value of `math.hypot`. -/
namespace Pf.C17

/-- `abs` on rationals (`np.abs`, `abs`) -/
def absQ (x : Rat) : Rat := if x < 0 then -x else x
/-- `abs` on integers -/
def absI (x : Int) : Int := if x < 0 then -x else x

/-! ### `affine.Affine` -/

/-- `Affine(a, b, c, d, e, f)`: `x = a*col + b*row + c`, `y = d*col + e*row + f` -/
structure Aff where
  a : Rat
  b : Rat
  c : Rat
  d : Rat
  e : Rat
  f : Rat
  deriving DecidableEq, Repr, Inhabited

namespace Aff

/-- `Affine.translation(xoff, yoff)` -/
def translation (xoff yoff : Rat) : Aff := ⟨1, 0, xoff, 0, 1, yoff⟩

/-- `Affine.scale(sx, sy)` -/
def scale (sx sy : Rat) : Aff := ⟨sx, 0, 0, 0, sy, 0⟩

/-- `Affine.__matmul__(self, other: Affine)` -/
def matmul (s o : Aff) : Aff :=
  ⟨s.a * o.a + s.b * o.d, s.a * o.b + s.b * o.e, s.a * o.c + s.b * o.f + s.c,
   s.d * o.a + s.e * o.d, s.d * o.b + s.e * o.e, s.d * o.c + s.e * o.f + s.f⟩

/-- `Affine.__matmul__(self, (vx, vy))` -/
def app (s : Aff) (vx vy : Rat) : Rat × Rat :=
  (vx * s.a + vy * s.b + s.c, vx * s.d + vy * s.e + s.f)

/-- `Affine.determinant` -/
def det (s : Aff) : Rat := s.a * s.e - s.b * s.d

/-- `Affine.__invert__`; `none` = `TransformNotInvertibleError` (`is_degenerate`) -/
def inv (s : Aff) : Option Aff :=
  if s.det = 0 then none else
    let idet := 1 / s.det
    let ra := s.e * idet
    let rb := -s.b * idet
    let rd := -s.d * idet
    let re := s.a * idet
    some ⟨ra, rb, -s.c * ra - s.f * rb, rd, re, -s.c * rd - s.f * re⟩

/-- the transforms the property quantifies over: no rotation/shear, non-zero resolutions of either sign -/
def AxisAligned (s : Aff) : Prop := s.b = 0 ∧ s.d = 0 ∧ s.a ≠ 0 ∧ s.e ≠ 0

instance (s : Aff) : Decidable s.AxisAligned := by unfold AxisAligned; exact inferInstance

/-- north-up raster: x grows with the column, y decreases with the row -/
def NorthUp (s : Aff) : Prop := s.b = 0 ∧ s.d = 0 ∧ 0 < s.a ∧ s.e < 0

instance (s : Aff) : Decidable s.NorthUp := by unfold NorthUp; exact inferInstance

end Aff

/-- `gis_utils.transform_from_origin(west, north, xsize, ysize)` -/
def transformFromOrigin (west north xsize ysize : Rat) : Aff :=
  (Aff.translation west north).matmul (Aff.scale xsize (-ysize))

/-- `gis_utils.transform_from_bounds(west, south, east, north, width, height)` -/
def transformFromBounds (west south east north : Rat) (width height : Nat) : Aff :=
  (Aff.translation west north).matmul
    (Aff.scale ((east - west) / (width : Rat)) ((south - north) / (height : Rat)))

/-! ### exceptions -/

inductive Exc where
  | indexError
  | valueError
  | notInvertible
  deriving DecidableEq, Repr

deriving instance DecidableEq for Except

def Exc.code : Exc → Int
  | .indexError => 1
  | .valueError => 2
  | .notInvertible => 3

/-! ### `xy`, `rowcol` -/

/-- the `offset` keyword of `xy` as `(coff, roff)`;
codes: 0 center, 1 ul, 2 ur, 3 ll, 4 lr, anything else → `ValueError("Invalid offset")` -/
def offsetOf : Nat → Option (Rat × Rat)
  | 0 => some (1/2, 1/2)
  | 1 => some (0, 0)
  | 2 => some (1, 0)
  | 3 => some (0, 1)
  | 4 => some (1, 1)
  | _ => none

def centre : Rat × Rat := (1/2, 1/2)

/-- `xy(transform, rows, cols, offset)` for one pixel:
`transform * transform.translation(coff, roff) * (cols, rows)` -/
def xyM (t : Aff) (off : Rat × Rat) (row col : Int) : Rat × Rat :=
  (t.matmul (Aff.translation off.1 off.2)).app (col : Rat) (row : Rat)

/-- the `op` argument of `rowcol` -/
inductive RoundOp where
  | floor
  | ceil
  | round
  deriving DecidableEq, Repr

/-- `np.round`: round half to even -/
def roundHalfEven (x : Rat) : Int :=
  let fl := x.floor
  let r := x - (fl : Rat)
  if r < 1/2 then fl else if 1/2 < r then fl + 1 else if fl % 2 = 0 then fl else fl + 1

def RoundOp.ap : RoundOp → Rat → Int
  | .floor, x => x.floor
  | .ceil, x => x.ceil
  | .round, x => roundHalfEven x

def pow10 (p : Int) : Rat := if 0 ≤ p then (10 : Rat) ^ p.toNat else 1 / (10 : Rat) ^ (-p).toNat

/-- `eps` of `rowcol`: `0.0` if `precision is None` else `10.0**-precision * (1.0 - 2.0*op(0.1))` -/
def epsOf (op : RoundOp) : Option Int → Rat
  | none => 0
  | some p => pow10 (-p) * (1 - 2 * ((op.ap (1/10) : Int) : Rat))

/-- body of `rowcol` once `~transform` is known: returns `(row, col)` -/
def rowcolInv (inv : Aff) (op : RoundOp) (eps : Rat) (x y : Rat) : Int × Int :=
  let p := inv.app (x + eps) (y - eps)
  (op.ap p.2, op.ap p.1)

/-- `rowcol(transform, x, y, op, precision)` for one point; `none` = transform not invertible -/
def rowcolM (t : Aff) (op : RoundOp) (prec : Option Int) (x y : Rat) : Option (Int × Int) :=
  match t.inv with
  | none => none
  | some inv => some (rowcolInv inv op (epsOf op prec) x y)

/-! ### `idxs_to_coords`, `coords_to_idxs` (what `FlwdirRaster.xy` / `.index` call) -/

/-- `idxs_to_coords(idxs, transform, shape, offset)`: all indices are validated first, then
`rows = idxs // ncol`, `cols = idxs % ncol`, `xy(...)` -/
def idxsToCoords (t : Aff) (nrow ncol : Nat) (off : Rat × Rat) (idxs : List Int) :
    Except Exc (List (Rat × Rat)) :=
  let size : Int := (nrow : Int) * (ncol : Int)
  if idxs.any (fun i => decide (i < 0) || decide (size ≤ i)) then .error .indexError
  else .ok (idxs.map fun i => xyM t off (i / (ncol : Int)) (i % (ncol : Int)))

/-- `idxs_to_coords` with the `offset` keyword still unresolved: the index check comes first
(`IndexError`), the offset is only looked at inside `xy` (`ValueError("Invalid offset")`) -/
def idxsToCoordsOff (t : Aff) (nrow ncol : Nat) (offCode : Nat) (idxs : List Int) :
    Except Exc (List (Rat × Rat)) :=
  let size : Int := (nrow : Int) * (ncol : Int)
  if idxs.any (fun i => decide (i < 0) || decide (size ≤ i)) then .error .indexError
  else match offsetOf offCode with
    | none => .error .valueError
    | some off => idxsToCoords t nrow ncol off idxs

def inRaster (nrow ncol : Nat) (rc : Int × Int) : Bool :=
  decide (0 ≤ rc.1) && decide (rc.1 < (nrow : Int)) && decide (0 ≤ rc.2) && decide (rc.2 < (ncol : Int))

/-- `coords_to_idxs(xs, ys, transform, shape, op, precision)` -/
def coordsToIdxs (t : Aff) (nrow ncol : Nat) (op : RoundOp) (prec : Option Int)
    (pts : List (Rat × Rat)) : Except Exc (List Int) :=
  match t.inv with
  | none => .error .notInvertible
  | some inv =>
    let rcs := pts.map fun p => rowcolInv inv op (epsOf op prec) p.1 p.2
    if rcs.all (inRaster nrow ncol) then .ok (rcs.map fun rc => rc.1 * (ncol : Int) + rc.2)
    else .error .indexError

/-! ### `array_bounds`, `affine_to_coords` -/

/-- `array_bounds(height, width, transform)` = `(west, south, east, north)` as the code names them -/
def arrayBounds (height width : Nat) (t : Aff) : Rat × Rat × Rat × Rat :=
  let es := t.app (width : Rat) (height : Rat)
  (t.c, es.2, es.1, t.f)

/-- `FlwdirRaster.extent`: `[xmin, xmax, ymin, ymax]` from `bounds = [xmin, ymin, xmax, ymax]` -/
def extentOf (b : Rat × Rat × Rat × Rat) : Rat × Rat × Rat × Rat := (b.1, b.2.2.1, b.2.1, b.2.2.2)

/-- `affine_to_coords(affine, shape)` = `(x_coords, y_coords)` -/
def affineToCoords (t : Aff) (height width : Nat) : List Rat × List Rat :=
  ((List.range width).map fun (j : Nat) => (t.app ((j : Rat) + 1/2) (0 + 1/2)).1,
   (List.range height).map fun (i : Nat) => (t.app (0 + 1/2) ((i : Rat) + 1/2)).2)

/-! ### areas -/

/-- `cellarea(lat, xres, yres)` with `R2 = _R**2`, `pi180·x = np.radians(x)`, `sinD x = np.sin(np.radians(x))` -/
def cellareaM (R2 pi180 : Rat) (sinD : Rat → Rat) (lat xres yres : Rat) : Rat :=
  let l1 := lat - absQ yres / 2
  let l2 := lat + absQ yres / 2
  let dx := pi180 * absQ xres
  R2 * dx * (sinD l2 - sinD l1)

/-- `area_grid(transform, shape, latlon, unit)`: one value per row (every row of the result is constant:
`np.full` / `[:, None] * ones`); `factor = AREA_FACTORS[unit]`, `isCell = (unit == "cell")`,
`factor = none` = unknown unit → `ValueError`.  Geographic branch: `_, lat = affine_to_coords(...)`,
`cellarea(lat, transform[0], transform[4]) / factor`. -/
def areaGrid (cell : Rat → Rat → Rat → Rat) (t : Aff) (nrow ncol : Nat) (latlon : Bool)
    (isCell : Bool) (factor : Option Rat) : Except Exc (List Rat) :=
  match factor with
  | none => .error .valueError
  | some fac =>
    if isCell then .ok (List.replicate nrow 1)
    else if latlon then
      let lat := (affineToCoords t nrow ncol).2
      .ok (lat.map fun l => cell l t.a t.e / fac)
    else .ok (List.replicate nrow (absQ (t.a * t.e) / fac))

/-- sum over all cells of an `area_grid` result (each row value occurs `ncol` times) -/
def areaTotal (ncol : Nat) (rows : List Rat) : Rat := (rows.map fun v => (ncol : Rat) * v).sum

/-! ### `distance` -/

/-- the two arguments handed to `math.hypot` by `distance(idx0, idx1, ncol, latlon, transform)`:
`(dy*dr, dx*dc)`.  `dmy`, `dmx` = `degree_metres_y`, `degree_metres_x` (degrees latitude → metres per degree). -/
def distLegs (dmy dmx : Rat → Rat) (t : Aff) (ncol : Nat) (latlon : Bool) (idx0 idx1 : Nat) : Rat × Rat :=
  let xres := t.a
  let yres := t.e
  let north := t.f
  let r0 : Int := ((idx0 / ncol : Nat) : Int)
  let r1 : Int := ((idx1 / ncol : Nat) : Int)
  let dr := absI (r1 - r0)
  let dc := absI (((idx1 % ncol : Nat) : Int) - ((idx0 % ncol : Nat) : Int))
  if latlon then
    let lat := north + (((r0 + r1 : Int) : Rat) / 2 + 1/2) * yres
    let dy := if dr = 0 then 0 else dmy lat * yres
    let dx := if dc = 0 then 0 else dmx lat * xres
    (dy * (dr : Rat), dx * (dc : Rat))
  else
    (yres * (dr : Rat), xres * (dc : Rat))

/-- squared length -/
def dist2 (legs : Rat × Rat) : Rat := legs.1 * legs.1 + legs.2 * legs.2

/-- `d` is the exact value of `math.hypot(p, q)` -/
def IsHypot (d p q : Rat) : Prop := 0 ≤ d ∧ d * d = p * p + q * q

instance (d p q : Rat) : Decidable (IsHypot d p q) := by unfold IsHypot; exact inferInstance

/-! ### declarative specifications (independent of the kernels above; used as oracles by the driver) -/

/-- centre of pixel `(row, col)` of an axis-aligned raster, written down directly -/
def specCentre (t : Aff) (row col : Int) : Rat × Rat :=
  (t.c + ((col : Rat) + 1/2) * t.a, t.f + ((row : Rat) + 1/2) * t.e)

/-- `(row, col)` is the pixel whose half-open cell contains `(x, y)` (axis-aligned raster):
the point lies between the pixel's own edge (inclusive) and the next pixel's edge (exclusive), in the
direction of increasing index -/
def specContains (t : Aff) (row col : Int) (x y : Rat) : Bool :=
  let inAxis (o res p : Rat) (k : Int) : Bool :=
    if 0 < res then decide (o + (k : Rat) * res ≤ p) && decide (p < o + ((k : Rat) + 1) * res)
    else decide (o + ((k : Rat) + 1) * res < p) && decide (p ≤ o + (k : Rat) * res)
  inAxis t.c t.a x col && inAxis t.f t.e y row

/-- squared Euclidean distance between the centres of two cells -/
def specCentreDist2 (t : Aff) (ncol : Nat) (idx0 idx1 : Nat) : Rat :=
  let p0 := specCentre t ((idx0 / ncol : Nat) : Int) ((idx0 % ncol : Nat) : Int)
  let p1 := specCentre t ((idx1 / ncol : Nat) : Int) ((idx1 % ncol : Nat) : Int)
  (p1.1 - p0.1) * (p1.1 - p0.1) + (p1.2 - p0.2) * (p1.2 - p0.2)

/-- mean latitude of the centres of two cells -/
def specMeanLat (t : Aff) (ncol : Nat) (idx0 idx1 : Nat) : Rat :=
  ((specCentre t ((idx0 / ncol : Nat) : Int) 0).2 + (specCentre t ((idx1 / ncol : Nat) : Int) 0).2) / 2

/-- geographic legs at the mean latitude of the two centres: metres per degree times the
coordinate difference of the centres -/
def specGeoLegs (dmy dmx : Rat → Rat) (t : Aff) (ncol : Nat) (idx0 idx1 : Nat) : Rat × Rat :=
  let p0 := specCentre t ((idx0 / ncol : Nat) : Int) ((idx0 % ncol : Nat) : Int)
  let p1 := specCentre t ((idx1 / ncol : Nat) : Int) ((idx1 % ncol : Nat) : Int)
  let lat := specMeanLat t ncol idx0 idx1
  (absQ (dmy lat * (p1.2 - p0.2)), absQ (dmx lat * (p1.1 - p0.1)))

/-- spherical area of the cells of row `r`: between the latitudes of the row's two edges, `|xres|` degrees wide -/
def specRowArea (R2 pi180 : Rat) (sinD : Rat → Rat) (t : Aff) (r : Nat) : Rat :=
  let e0 := t.f + (r : Rat) * t.e
  let e1 := t.f + ((r : Rat) + 1) * t.e
  let hi := if e0 < e1 then e1 else e0
  let lo := if e0 < e1 then e0 else e1
  R2 * (pi180 * absQ t.a) * (sinD hi - sinD lo)

end Pf.C17
