import PfVerif.Model.Core
/-! Models of `basins.basins` and `regions.region_outlets` (C05). -/
namespace Pf

/-- `basins[idxs_pit] = ids` (NumPy fancy assignment: for duplicate indices the last one wins) -/
def seedLabels (n : Nat) (outlets : List Nat) (ids : List Int) : Array Int :=
  (outlets.zip ids).foldl (fun a p => a.setIfInBounds p.1 p.2) (Array.replicate n 0)

/-- `basins.basins(idxs_ds, idxs_pit, seq, ids)` -/
def basinsModel (ds : Array Nat) (seq outlets : List Nat) (ids : List Int) : Array Int :=
  fillnodataUpstream ds seq (seedLabels ds.size outlets ids) 0

/-- default ids `1..k` -/
def defaultIds (k : Nat) : List Int := (List.range k).map fun (i : Nat) => Int.ofNat i + 1

/-- `regions.region_outlets` before the final argsort: (label, cell) in up- to downstream order -/
def regionOutletsRaw (ds : Array Nat) (seq : List Nat) (regions : Array Int) : List (Int × Nat) :=
  (seq.reverse.filter fun idx =>
    decide (regions[idx]! > 0) && (ds[idx]! == idx || regions[ds[idx]!]! != regions[idx]!)).map
    fun idx => (regions[idx]!, idx)

/-- declarative spec of the basin label of one cell: walk downstream (fuel-bounded) -/
def basinSpec (ds : Array Nat) (outlets : List Nat) (ids : List Int) (i : Nat) : Option Int :=
  walkValid ds (seedLabels ds.size outlets ids) 0 (ds.size + 1) i

end Pf
