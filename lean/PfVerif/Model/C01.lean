import PfVerif.Model.Core
/-! # C01 — decoding D8 / LDD / NEXTXY rasters

* `Pf.Fd.Spec` : the *specification*: code tables typed in from the property statement
  (D8 1=E, 2=SE, 4=S, 8=SW, 16=W, 32=NW, 64=N, 128=NE, pits 0/255, nodata 247; LDD keypad
  7 8 9 / 4 5 6 / 1 2 3, pit 5, nodata 255; NEXTXY one-based x,y of the target, pits -9 and -10,
  nodata -9999) and the declarative per-cell reading `dsOf`.
* `Pf.Fd` : executable models of `core_d8.drdc`, `core_ldd.drdc`, the three `from_array` kernels
  (loop for loop), `isvalid` ×3, `_infer_ftype` and `pyflwdir.from_array` (mask line, constructor checks).

Core Lean only; this file must not import `PfVerif.Generated` (the driver has to build whatever
/repo says; the obligations Generated = Spec live in `Props/C01.lean`).

Conventions: a raster of shape `nrow × ncol` is a flat row-major array; cell `i` is at row `i / ncol`,
column `i % ncol`; rows grow southwards, columns eastwards. The decoded network is `ds : Array Nat`
of size `n = nrow * ncol` with `ds[i] = n` for cells outside the graph. -/
namespace Pf.Fd

/-! ## Specification -/
namespace Spec

/-- what the code(s) stored at one cell designate -/
inductive Code
  | nodata                 -- the cell is not part of the graph
  | pit                    -- the cell drains to itself
  | to (r c : Int)         -- the cell drains to the cell at (zero-based) row `r`, column `c`
  deriving DecidableEq, Repr

/-- D8 compass: code ↦ (drow, dcol); rows grow southwards, columns eastwards -/
def d8Dirs : List (Nat × (Int × Int)) :=
  [(1, (0, 1)),      -- E
   (2, (1, 1)),      -- SE
   (4, (1, 0)),      -- S
   (8, (1, -1)),     -- SW
   (16, (0, -1)),    -- W
   (32, (-1, -1)),   -- NW
   (64, (-1, 0)),    -- N
   (128, (-1, 1))]   -- NE
def d8Pits : List Nat := [0, 255]
def d8Nodata : Nat := 247

/-- LDD: numeric keypad `7 8 9 / 4 5 6 / 1 2 3`, 5 = pit -/
def lddDirs : List (Nat × (Int × Int)) :=
  [(7, (-1, -1)), (8, (-1, 0)), (9, (-1, 1)),
   (4, (0, -1)),                (6, (0, 1)),
   (1, (1, -1)),  (2, (1, 0)),  (3, (1, 1))]
def lddPits : List Nat := [5]
def lddNodata : Nat := 255

def xyPits : List Int := [-9, -10]
def xyNodata : Int := -9999

/-- legal alphabet of a table format -/
def alphabet (dirs : List (Nat × (Int × Int))) (pits : List Nat) (mv : Nat) : List Nat :=
  dirs.map (·.1) ++ pits ++ [mv]
def d8Alphabet : List Nat := alphabet d8Dirs d8Pits d8Nodata
def lddAlphabet : List Nat := alphabet lddDirs lddPits lddNodata

/-- reading of cell `i` of a table-coded raster (D8, LDD). A value outside the legal alphabet is
not given a meaning by the property; it is read as `nodata` here and every theorem assumes legality. -/
def readTab (dirs : List (Nat × (Int × Int))) (pits : List Nat) (mv : Nat) (ncol : Nat)
    (codes : Array Nat) (i : Nat) : Code :=
  let v := codes[i]!
  if v = mv then .nodata
  else if v ∈ pits then .pit
  else match dirs.lookup v with
    | some (dr, dc) => .to ((i / ncol : Nat) + dr) ((i % ncol : Nat) + dc)
    | none => .nodata

def readD8 := readTab d8Dirs d8Pits d8Nodata
def readLdd := readTab lddDirs lddPits lddNodata

/-- reading of cell `i` of a NEXTXY raster: one-based column `x`, row `y` of the target -/
def readXY (xs ys : Array Int) (i : Nat) : Code :=
  let x := xs[i]!
  if x = xyNodata then .nodata
  else if x ∈ xyPits then .pit
  else .to (ys[i]! - 1) (x - 1)

/-- cells hidden by the user mask are nodata -/
def maskRead (mask : Nat → Bool) (read : Nat → Code) (i : Nat) : Code :=
  if mask i then read i else .nodata

def inRaster (nrow ncol : Nat) (r c : Int) : Bool :=
  decide (0 ≤ r) && decide (r < nrow) && decide (0 ≤ c) && decide (c < ncol)

/-- row-major linear index of the cell at row `r`, column `c` -/
def cellIdx (ncol : Nat) (r c : Int) : Nat := r.toNat * ncol + c.toNat

/-- **the decoded graph, declaratively**: nodata cells are outside the graph (`n`), a cell drains to
the cell its code designates if that cell is on the raster and is not nodata, and to itself otherwise. -/
def dsOf (nrow ncol : Nat) (read : Nat → Code) (i : Nat) : Nat :=
  match read i with
  | .nodata => nrow * ncol
  | .pit => i
  | .to r c =>
    if inRaster nrow ncol r c && read (cellIdx ncol r c) != .nodata then cellIdx ncol r c else i

def graph (nrow ncol : Nat) (read : Nat → Code) : Array Nat :=
  ((List.range (nrow * ncol)).map (dsOf nrow ncol read)).toArray

/-- the self-draining cells of a network, in increasing order -/
def pitsOf (ds : Array Nat) : List Nat := (List.range ds.size).filter fun i => ds[i]! == i

/-- number of cells that are part of the graph -/
def nvalidOf (n : Nat) (read : Nat → Code) : Nat :=
  ((List.range n).filter fun i => read i != .nodata).length

/-- value-set predicates of the three formats -/
def validTab (alpha : List Nat) (codes : Array Nat) : Bool := codes.toList.all fun v => alpha.contains v
/-- NEXTXY: a nodata / pit code in `x` is repeated in `y`; every other `x` is non-negative -/
def validXY (xs ys : Array Int) : Bool :=
  (List.range xs.size).all fun i =>
    if xs[i]! = xyNodata ∨ xs[i]! ∈ xyPits then ys[i]! == xs[i]! else decide (xs[i]! ≥ 0)

end Spec

/-! ## Model of the code -/

/-- `np.int8(np.uint8 v)` -/
def s8 (v : Nat) : Int := if v % 256 < 128 then (v % 256 : Nat) else ((v % 256 : Nat) : Int) - 256
/-- wrap an integer into int8 (`np.int8` arithmetic / the `int8` return type of `drdc`) -/
def wrap8 (x : Int) : Int := (x + 128) % 256 - 128

def isPow2 (v : Nat) : Bool := 2 ^ Nat.log2 v == v
/-- `np.int8(x)` (truncation toward zero) of a non-integer real `x` with `lo < x < lo + 1` -/
def truncOpen (lo : Int) : Int := if lo + 1 ≤ 0 then lo + 1 else lo

/-- `core_d8.drdc` on a uint8 value (the float `np.log2` is modelled exactly: `np.int8` truncates) -/
def d8Drdc (dd : Nat) : Int × Int :=
  if dd ≤ 8 then
    if dd ≥ 2 then
      -- dr = 1, dc = int8(2 - log2(dd))
      (1, if isPow2 dd then 2 - (Nat.log2 dd : Int) else truncOpen (2 - (Nat.log2 dd : Int) - 1))
    else (0, dd)
  else if dd ≤ 128 then
    if dd = 16 then (0, -1)
    else (-1, if isPow2 dd then (Nat.log2 dd : Int) - 6 else truncOpen ((Nat.log2 dd : Int) - 6))
  else (0, 0)

/-- `core_ldd.drdc` on a uint8 value -/
def lddDrdc (dd : Nat) : Int × Int :=
  if dd ≥ 4 then
    if dd ≥ 7 then (-1, wrap8 (s8 dd - 8))
    else (0, wrap8 (s8 dd - 5))
  else (1, wrap8 (s8 dd - 2))

/-- module constants (`_mv`, `_pv`, `_all`) as the model reads them; `Props/C01.lean` proves them equal
to the regenerated tables -/
def d8Mv : Nat := 247
def d8Pv : List Nat := [0, 255]
def d8All : List Nat := [32, 64, 128, 16, 0, 1, 8, 4, 2, 247, 255]
def lddMv : Nat := 255
def lddPv : List Nat := [5]
def lddAll : List Nat := [7, 8, 9, 4, 5, 6, 1, 2, 3, 255]
def xyMv : Int := -9999
def xyPv0 : Int := -9
def xyPv1 : Int := -10
/-- `core_nextxy.ispit` -/
def xyIsPit (dd : Int) : Bool := dd == xyPv0 || dd == xyPv1

/-- result of a `from_array` kernel: `(idxs_ds, pits_lst, n)` -/
structure Dec where
  ds : Array Nat
  pits : Array Nat
  n : Nat
  deriving Repr, DecidableEq

/-- the tests of one loop iteration for a cell that is not nodata: `tgt idx0 = (pit, r_ds, c_ds)`;
returns (`pit or outside or [idx_ds == idx0 or] flat[idx_ds] == _mv`, `idx_ds`).
`selfTest` is true for NEXTXY only (the `idx_ds == idx0` disjunct). -/
def pitBranch (nrow ncol : Nat) (selfTest : Bool) (nd : Nat → Bool) (tgt : Nat → Bool × Int × Int)
    (idx0 : Nat) : Bool × Nat :=
  let pit := (tgt idx0).1
  let r_ds := (tgt idx0).2.1
  let c_ds := (tgt idx0).2.2
  let outside := decide (r_ds ≥ nrow) || decide (c_ds ≥ ncol) || decide (r_ds < 0) || decide (c_ds < 0)
  let idx_ds := c_ds + r_ds * ncol
  (pit || outside || (selfTest && idx_ds.toNat == idx0) || nd idx_ds.toNat, idx_ds.toNat)

/-- body of `for idx0 in range(flwdir.size)` -/
def decStep (nrow ncol : Nat) (selfTest : Bool) (nd : Nat → Bool) (tgt : Nat → Bool × Int × Int)
    (st : Dec) (idx0 : Nat) : Dec :=
  if nd idx0 then st            -- continue
  else
    let b := pitBranch nrow ncol selfTest nd tgt idx0
    if b.1 then { ds := st.ds.setIfInBounds idx0 idx0, pits := st.pits.push idx0, n := st.n + 1 }
    else { ds := st.ds.setIfInBounds idx0 b.2, pits := st.pits, n := st.n + 1 }

def decInit (N : Nat) : Dec := { ds := Array.replicate N N, pits := #[], n := 0 }

/-- the common shape of the three `from_array` kernels -/
def decode (nrow ncol : Nat) (selfTest : Bool) (nd : Nat → Bool) (tgt : Nat → Bool × Int × Int) : Dec :=
  (List.range (nrow * ncol)).foldl (decStep nrow ncol selfTest nd tgt) (decInit (nrow * ncol))

/-- `dr, dc = drdc(flat[idx0]); r_ds = idx0 // ncol + dr; c_ds = idx0 % ncol + dc; pit = dr == 0 and dc == 0` -/
def tabTgt (drdc : Nat → Int × Int) (ncol : Nat) (codes : Array Nat) (idx0 : Nat) : Bool × Int × Int :=
  let d := drdc codes[idx0]!
  (d.1 == 0 && d.2 == 0, ((idx0 / ncol : Nat) : Int) + d.1, ((idx0 % ncol : Nat) : Int) + d.2)

/-- `core_d8.from_array` -/
def fromArrayD8 (nrow ncol : Nat) (codes : Array Nat) : Dec :=
  decode nrow ncol false (fun j => codes[j]! == d8Mv) (tabTgt d8Drdc ncol codes)

/-- `core_ldd.from_array` -/
def fromArrayLdd (nrow ncol : Nat) (codes : Array Nat) : Dec :=
  decode nrow ncol false (fun j => codes[j]! == lddMv) (tabTgt lddDrdc ncol codes)

/-- `c1, r1 = nextx[idx0], nexty[idx0]; pit = ispit(c1) or ispit(r1); r_ds, c_ds = r1 - 1, c1 - 1` -/
def xyTgt (xs ys : Array Int) (idx0 : Nat) : Bool × Int × Int :=
  (xyIsPit xs[idx0]! || xyIsPit ys[idx0]!, ys[idx0]! - 1, xs[idx0]! - 1)

/-- `core_nextxy._from_array` -/
def fromArrayXY (nrow ncol : Nat) (xs ys : Array Int) : Dec :=
  decode nrow ncol true (fun j => xs[j]! == xyMv) (xyTgt xs ys)

/-! ### `isvalid`, `_infer_ftype` -/

/-- `core_d8.check_values`: `for dd in flwdir.ravel(): if np.all(_all != dd): check = False; break` -/
def checkValues (all : List Nat) : List Nat → Bool
  | [] => true
  | dd :: rest => if all.all (· != dd) then false else checkValues all rest

inductive Ftype
  | d8 | ldd | nextxy
  deriving DecidableEq, Repr

/-- the inputs `from_array` is modelled on -/
inductive Data
  | u8 (nrow ncol : Nat) (codes : Array Nat)       -- 2-D `uint8` ndarray
  | xy (nrow ncol : Nat) (xs ys : Array Int)       -- `(2, nrow, ncol)` `int32` ndarray or a pair of 2-D `int32` arrays
  | other                                           -- any other dtype / ndim / container
  deriving Repr

/-- `core_nextxy.isvalid` on a well-formed pair: `mask = isnodata(nextx) | ispit(nextx)`,
`all(nextx[~mask] >= 0) and all(nextx[mask] == nexty[mask])` -/
def isvalidXY (xs ys : Array Int) : Bool :=
  let mask := fun i => xs[i]! == xyMv || xyIsPit xs[i]!
  ((List.range xs.size).filter (fun i => !mask i)).all (fun i => decide (xs[i]! ≥ 0)) &&
  ((List.range xs.size).filter mask).all (fun i => xs[i]! == ys[i]!)

/-- `FTYPES[ftype].isvalid(data)` -/
def isvalid : Ftype → Data → Bool
  | .d8, .u8 _ _ codes => checkValues d8All codes.toList
  | .ldd, .u8 _ _ codes => checkValues lddAll codes.toList
  | .nextxy, .xy _ _ xs ys => isvalidXY xs ys
  | _, _ => false

def ftypes : List Ftype := [.d8, .ldd, .nextxy]

/-- `_infer_ftype`: the first format of `FTYPES` (insertion order d8, ldd, nextxy) whose `isvalid` holds -/
def inferFtype (data : Data) : Option Ftype := ftypes.find? fun t => isvalid t data

/-! ### declarative counterparts used as oracle by the driver (`spec.*`) -/
namespace Spec

/-- declarative reading of a container under a format: shape and per-cell reading -/
def read : Ftype → Data → Option (Nat × Nat × (Nat → Code))
  | .d8, .u8 nrow ncol codes => some (nrow, ncol, readD8 ncol codes)
  | .ldd, .u8 nrow ncol codes => some (nrow, ncol, readLdd ncol codes)
  | .nextxy, .xy nrow ncol xs ys => some (nrow, ncol, readXY xs ys)
  | _, _ => none

/-- declarative validity: right container and the value set is within the format's alphabet -/
def valid : Ftype → Data → Bool
  | .d8, .u8 _ _ codes => validTab d8Alphabet codes
  | .ldd, .u8 _ _ codes => validTab lddAlphabet codes
  | .nextxy, .xy _ _ xs ys => validXY xs ys
  | _, _ => false

/-- the first of d8, ldd, nextxy whose value set the raster satisfies -/
def infer (data : Data) : Option Ftype :=
  if valid .d8 data then some .d8
  else if valid .ldd data then some .ldd
  else if valid .nextxy data then some .nextxy
  else none

end Spec

/-! ### `pyflwdir.from_array` -/

/-- `np.where(mask != 0, data, _mv)` on a flat array -/
def applyMask {α : Type} [Inhabited α] (mv : α) (mask : Array Bool) (vals : Array α) : Array α :=
  ((List.range vals.size).map fun i => if mask[i]! then vals[i]! else mv).toArray

structure Parsed where
  ftype : Ftype
  dec : Dec
  deriving Repr

/-- `FlwdirRaster.mask` (`idxs_ds != mv`) -/
def Dec.mask (d : Dec) : Array Bool := d.ds.map fun x => x != d.ds.size

/-- `if ftype == "infer": ftype = _infer_ftype(data); check_ftype = False`; `ft = none` is `"infer"` -/
def selectFtype (ft : Option Ftype) (check : Bool) (data : Data) : Except String (Ftype × Bool) :=
  match ft with
  | none => match inferFtype data with
    | none => .error "ValueError"          -- "The flow direction type could not be inferred."
    | some t => .ok (t, false)
  | some t => .ok (t, check)

/-- the mask lines: shape test and `data = np.where(mask != 0, data, fd._mv)`. The mask is given with its
shape; for NEXTXY it may have the raster shape or the shape `(2, nrow, ncol)` of the data. -/
def maskData (ftype : Ftype) (data : Data) (mask : Option (List Nat × Array Bool)) : Except String Data :=
  match mask with
  | none => .ok data
  | some (shape, m) =>
    match data with
    | .u8 nrow ncol codes =>
      if shape = [nrow, ncol] then
        .ok (.u8 nrow ncol (applyMask (match ftype with | .ldd => lddMv | _ => d8Mv) m codes))
      else .error "ValueError"
    | .xy nrow ncol xs ys =>
      if shape = [nrow, ncol] then .ok (.xy nrow ncol (applyMask xyMv m xs) (applyMask xyMv m ys))
      else if shape = [2, nrow, ncol] then
        .ok (.xy nrow ncol (applyMask xyMv (m.extract 0 (nrow * ncol)) xs)
                (applyMask xyMv (m.extract (nrow * ncol) (2 * (nrow * ncol))) ys))
      else .error "ValueError"             -- '"mask" shape does not match with data shape'
    | .other => .error "unmodelled"

/-- `fd.from_array(data)` -/
def decodeData : Ftype → Data → Except String Dec
  | .d8, .u8 nrow ncol codes => .ok (fromArrayD8 nrow ncol codes)
  | .ldd, .u8 nrow ncol codes => .ok (fromArrayLdd nrow ncol codes)
  | .nextxy, .xy nrow ncol xs ys => .ok (fromArrayXY nrow ncol xs ys)
  | _, _ => .error "unmodelled"             -- ftype does not fit the container

/-- `Flwdir.__init__`: `size <= 1` and `idxs_pit.size == 0` raise `ValueError` -/
def finishParse (ftype : Ftype) (d : Dec) : Except String Parsed :=
  if d.ds.size ≤ 1 then .error "ValueError"
  else if d.pits.size = 0 then .error "ValueError"
  else .ok { ftype := ftype, dec := d }

/-- `pyflwdir.from_array(data, ftype, check_ftype, mask)`. Every exception the code raises on the modelled
inputs is a `ValueError` (`.error "ValueError"`); `.error "unmodelled"` marks argument combinations
outside the model. -/
def fromArrayApi (ft : Option Ftype) (check : Bool) (data : Data)
    (mask : Option (List Nat × Array Bool)) : Except String Parsed :=
  match selectFtype ft check data with
  | .error e => .error e
  | .ok (ftype, check) =>
    if check && !isvalid ftype data then .error "ValueError" else
    match maskData ftype data mask with
    | .error e => .error e
    | .ok data' =>
      match decodeData ftype data' with
      | .error e => .error e
      | .ok d => finishParse ftype d

end Pf.Fd
