import PfVerif.Proofs.C14_riv
import PfVerif.Proofs.C14_rivB
import PfVerif.Proofs.C14_rivC
import PfVerif.Proofs.C14_rivD
import PfVerif.Proofs.C14_rivE
import PfVerif.Proofs.C14_rivF
import PfVerif.Proofs.C14_rivG
/-! # C14, extension `riv` — estuary classification, Manning river depth, DEM slope

Theorems about the models of `lean/PfVerif/Model/C14_riv.lean` (`rivers.classify_estuary`, the
Manning branch of `Flwdir.river_depth`, `dem.slope`). Every theorem quantifies over all networks /
rasters, all cell orders satisfying `Topo` and all fields; no size bounds. The correspondence with
the code is checked by `harness/props/c14_riv.py`. -/
namespace Pf.C14x
open Pf

/-! ## `rivers.classify_estuary` -/

/-- **outlets**: the array the sweep starts from holds 1 exactly at the listed pits whose elevation is
at most `max_elevtn`, 0 elsewhere. -/
theorem estuary_init (n : Nat) (pits : List Nat) (elevtn : Array Int) (maxElev : Int) (j : Nat) :
    (estInit n pits elevtn maxElev).size = n ∧
    (estInit n pits elevtn maxElev)[j]! = if j ∈ pits ∧ elevtn[j]! ≤ maxElev ∧ j < n then 1 else 0 :=
  ⟨estInit_size n pits elevtn maxElev, estInit_get n pits elevtn maxElev j⟩

/-- the link test, spelled out: the downstream cell lies at distance 0 and the river does not widen
going downstream (`dw ≤ 0`), or the link has positive length and the width convergence `dw/dx`
exceeds `min_convergence = mcNum/mcDen` (cross-multiplied; `dw/dx` is evaluated only for `dx > 0`). -/
theorem estuary_link_test (P : EstParams) (ds : Array Nat) (i : Nat) :
    estCond P ds i = true ↔
      (P.rivdst[ds[i]!]! = 0 ∧ P.rivwth[ds[i]!]! - P.rivwth[i]! ≤ 0) ∨
      (P.rivdst[i]! - P.rivdst[ds[i]!]! > 0 ∧
        (P.rivwth[ds[i]!]! - P.rivwth[i]!) * P.mcDen > P.mcNum * (P.rivdst[i]! - P.rivdst[ds[i]!]!)) := by
  simp [estCond]

/-- **recursive characterisation (all networks, all orders, all link tests).** After the sweep
* a cell is classified (`≠ 0`) iff it was an outlet, or it is a non-pit cell of the sequence whose
  downstream cell is classified and whose link passes the test;
* it is marked `2` iff it is classified and some inflowing link of the sequence fails the test;
* every value is 0, 1 or 2 (so a classified cell all of whose inflowing links pass - in particular a
  classified headwater - is 1). -/
theorem estuary_rec (ds : Array Nat) (cond : Nat → Bool) (init : Array Int) (seq : List Nat)
    (htopo : Topo ds seq) (hb : ∀ i ∈ seq, i < init.size) (h01 : ∀ j : Nat, init[j]! = 0 ∨ init[j]! = 1) :
    let R := estSweep ds cond seq init
    (∀ j : Nat, R[j]! ≠ 0 ↔ init[j]! ≠ 0 ∨ (j ∈ seq ∧ ds[j]! ≠ j ∧ R[ds[j]!]! ≠ 0 ∧ cond j = true)) ∧
    (∀ j : Nat, R[j]! = 2 ↔ R[j]! ≠ 0 ∧ ∃ c ∈ seq, ds[c]! = j ∧ c ≠ j ∧ cond c = false) ∧
    (∀ j : Nat, R[j]! = 0 ∨ R[j]! = 1 ∨ R[j]! = 2) := by
  obtain ⟨_, h1, h2, h3⟩ := estInv_sweep ds cond init seq htopo hb h01
  exact ⟨h1, h2, h3⟩

/-- `Est i`: walking downstream from `i` an outlet of an estuary is reached and every link passed on
the way satisfies the link test. -/
inductive Est (ds : Array Nat) (cond : Nat → Bool) (init : Array Int) : Nat → Prop
  | outlet (i : Nat) : init[i]! ≠ 0 → Est ds cond init i
  | link (i : Nat) : ds[i]! ≠ i → cond i = true → Est ds cond init ds[i]! → Est ds cond init i

/-- **flow-path form.** A cell of the sequence is classified iff its flow path reaches an estuary
outlet through links that all pass the test. -/
theorem estuary_path (ds : Array Nat) (cond : Nat → Bool) (init : Array Int) (seq : List Nat)
    (htopo : Topo ds seq) (hb : ∀ i ∈ seq, i < init.size) (h01 : ∀ j : Nat, init[j]! = 0 ∨ init[j]! = 1) :
    ∀ i ∈ seq, ((estSweep ds cond seq init)[i]! ≠ 0 ↔ Est ds cond init i) := by
  obtain ⟨hnz, _, _⟩ := estuary_rec ds cond init seq htopo hb h01
  have hfwd : ∀ i ∈ seq, (estSweep ds cond seq init)[i]! ≠ 0 → Est ds cond init i := by
    refine htopo.induction _ (fun j hj hd => ?_)
    intro h
    rcases (hnz j).1 h with h0 | ⟨_, hp, hd0, hc⟩
    · exact Est.outlet j h0
    · exact Est.link j hp hc ((hd hp).2 hd0)
  have hbwd : ∀ i, Est ds cond init i → i ∈ seq → (estSweep ds cond seq init)[i]! ≠ 0 := by
    intro i he
    induction he with
    | outlet i h0 => intro _; exact (hnz i).2 (Or.inl h0)
    | link i hp hc _ ih =>
      intro hi
      exact (hnz i).2 (Or.inr ⟨hi, hp, ih (Topo.ds_mem htopo i hi), hc⟩)
  exact fun i hi => ⟨hfwd i hi, fun h => hbwd i h hi⟩

/-- cells outside the sequence keep their initial value. -/
theorem estuary_outside (ds : Array Nat) (cond : Nat → Bool) (init : Array Int) (seq : List Nat)
    (htopo : Topo ds seq) (hb : ∀ i ∈ seq, i < init.size) (h01 : ∀ j : Nat, init[j]! = 0 ∨ init[j]! = 1) :
    ∀ j, j ∉ seq → (estSweep ds cond seq init)[j]! = init[j]! := by
  obtain ⟨hnz, htwo, hrng⟩ := estuary_rec ds cond init seq htopo hb h01
  intro j hj
  have h2 : (estSweep ds cond seq init)[j]! ≠ 2 := by
    intro h
    obtain ⟨_, c, hc, hd, _, _⟩ := (htwo j).1 h
    exact hj (hd ▸ Topo.ds_mem htopo c hc)
  have hz : (estSweep ds cond seq init)[j]! ≠ 0 ↔ init[j]! ≠ 0 := by
    rw [hnz j]
    constructor
    · rintro (h | ⟨h, _⟩)
      · exact h
      · exact absurd h hj
    · exact Or.inl
  rcases hrng j with h | h | h
  · rcases h01 j with h' | h'
    · rw [h, h']
    · exact absurd h (hz.2 (by rw [h']; decide))
  · rcases h01 j with h' | h'
    · exact absurd h' (hz.1 (by rw [h]; decide))
    · rw [h, h']
  · exact absurd h h2

/-- **`classify_estuary` (the kernel as called).** For every cell of the sequence the class is
`0` if the cell is not part of an estuary, `2` if it is and some inflowing link fails the test (the
estuary ends there on that branch), `1` otherwise; "part of an estuary" is the flow-path relation
`Est` whose outlets are the listed pits with `elevtn ≤ max_elevtn`. -/
theorem classify_estuary_def (ds : Array Nat) (seq pits : List Nat) (P : EstParams) (elevtn : Array Int)
    (maxElev : Int) (htopo : Topo ds seq) (hb : ∀ i ∈ seq, i < ds.size) :
    ∀ i ∈ seq, ∀ (_ : Decidable (Est ds (estCond P ds) (estInit ds.size pits elevtn maxElev) i))
      (_ : Decidable (∃ c ∈ seq, ds[c]! = i ∧ c ≠ i ∧ estCond P ds c = false)),
      (classifyEstuary ds seq pits P elevtn maxElev)[i]! =
        if Est ds (estCond P ds) (estInit ds.size pits elevtn maxElev) i then
          (if ∃ c ∈ seq, ds[c]! = i ∧ c ≠ i ∧ estCond P ds c = false then 2 else 1)
        else 0 := by
  intro i hi _ _
  have hb' : ∀ i ∈ seq, i < (estInit ds.size pits elevtn maxElev).size := by
    intro i hi; rw [estInit_size]; exact hb i hi
  have h01 : ∀ j : Nat, (estInit ds.size pits elevtn maxElev)[j]! = 0 ∨
      (estInit ds.size pits elevtn maxElev)[j]! = 1 := by
    intro j; rw [estInit_get]; split <;> simp
  obtain ⟨_, htwo, hrng⟩ := estuary_rec ds (estCond P ds) _ seq htopo hb' h01
  have hpath := estuary_path ds (estCond P ds) _ seq htopo hb' h01 i hi
  unfold classifyEstuary
  by_cases he : Est ds (estCond P ds) (estInit ds.size pits elevtn maxElev) i
  · have hne := hpath.2 he
    rw [if_pos he]
    by_cases hx : ∃ c ∈ seq, ds[c]! = i ∧ c ≠ i ∧ estCond P ds c = false
    · rw [if_pos hx]; exact (htwo i).2 ⟨hne, hx⟩
    · rw [if_neg hx]
      rcases hrng i with h | h | h
      · exact absurd h hne
      · exact h
      · exact absurd ((htwo i).1 h).2 hx
  · rw [if_neg he]
    exact Classical.byContradiction fun h => he (hpath.1 h)

/-- the walk oracle evaluated by the driver is sound for the flow-path relation … -/
theorem estWalk_sound (ds : Array Nat) (cond : Nat → Bool) (init : Array Int) :
    ∀ fuel i, estWalk ds cond (fun k => init[k]! != 0) fuel i = true → Est ds cond init i := by
  intro fuel
  induction fuel with
  | zero => intro i h; simp [estWalk] at h
  | succ f ih =>
    intro i h
    simp only [estWalk, Bool.or_eq_true, Bool.and_eq_true, bne_iff_ne] at h
    rcases h with h | ⟨⟨hp, hc⟩, hw⟩
    · exact Est.outlet i h
    · exact Est.link i hp hc (ih _ hw)

/-- … and complete: some amount of fuel finds the outlet. -/
theorem estWalk_complete (ds : Array Nat) (cond : Nat → Bool) (init : Array Int) (i : Nat)
    (h : Est ds cond init i) : ∃ fuel, estWalk ds cond (fun k => init[k]! != 0) fuel i = true := by
  induction h with
  | outlet i h0 => exact ⟨1, by simp [estWalk, h0]⟩
  | link i hp hc _ ih =>
    obtain ⟨f, hf⟩ := ih
    exact ⟨f + 1, by simp [estWalk, hp, hc, hf]⟩

/-- **model = oracle (generic form).** For every network, every downstream-first order that covers the
network, every link test and every 0/1 start array: the down-to-upstream sweep returns, at every cell
of the order, the declarative class `estSpec` the driver evaluates - `0` unless the walk down the flow
path (fuel `ds.size + 1`, proved sufficient) reaches an outlet through passing links only, `2` if some
inflowing link found by exhaustive search fails the test, `1` otherwise. -/
theorem estSweep_eq_spec (ds : Array Nat) (cond : Nat → Bool) (init : Array Int) (seq : List Nat)
    (isOutlet : Nat → Bool) (htopo : Topo ds seq) (hb : ∀ i ∈ seq, i < init.size)
    (hbd : ∀ i ∈ seq, i < ds.size) (h01 : ∀ j : Nat, init[j]! = 0 ∨ init[j]! = 1)
    (hout : ∀ k, isOutlet k = true ↔ init[k]! ≠ 0) (hcov : ∀ c, isValid ds c = true → c ∈ seq) :
    ∀ i ∈ seq, (estSweep ds cond seq init)[i]! = estSpec ds cond isOutlet i :=
  estSweep_eq_estSpec ds cond init seq isOutlet htopo hb hbd h01 hout hcov

/-- **`estModel_eq_spec`: `classify_estuary` = its declarative reading, on the whole array.** With
`idxs_pit` the pits in index order (what `Flwdir.idxs_pit` holds; the driver reports `pits_ok`) and a
downstream-first order that consists of exactly the cells of the network, the model of the kernel
equals, cell for cell, the array the driver computes as `spec`: `estSpec` (outlets = pits with
`elevtn ≤ max_elevtn`) on the cells of the network and `0` outside. No bound on the size; the fuel of
the oracle's walk is proved sufficient (`Topo.reach_size_c14`). -/
theorem estModel_eq_spec (ds : Array Nat) (seq : List Nat) (P : EstParams) (elevtn : Array Int)
    (maxElev : Int) (htopo : Topo ds seq) (hb : ∀ i ∈ seq, i < ds.size)
    (hcov : ∀ c, isValid ds c = true → c ∈ seq) (i : Nat) (hi : i < ds.size) :
    (classifyEstuary ds seq (pitIndices ds) P elevtn maxElev)[i]! =
      if isValid ds i then estSpec ds (estCond P ds) (fun k => isPit ds k && decide (elevtn[k]! ≤ maxElev)) i
      else 0 := by
  have hb' : ∀ i ∈ seq, i < (estInit ds.size (pitIndices ds) elevtn maxElev).size := by
    intro i hi; rw [estInit_size]; exact hb i hi
  have h01 : ∀ j : Nat, (estInit ds.size (pitIndices ds) elevtn maxElev)[j]! = 0 ∨
      (estInit ds.size (pitIndices ds) elevtn maxElev)[j]! = 1 := by
    intro j; rw [estInit_get]; split <;> simp
  unfold classifyEstuary
  by_cases hv : isValid ds i = true
  · rw [if_pos hv]
    exact estSweep_eq_estSpec ds (estCond P ds) _ seq _ htopo hb' hb h01
      (estInit_outlet ds elevtn maxElev) hcov i (hcov i hv)
  · rw [if_neg hv]
    have hns : i ∉ seq := fun h => hv (Topo.valid_c14x htopo hb i h)
    rw [estuary_outside ds (estCond P ds) _ seq htopo hb' h01 i hns]
    have hno : ¬ (isPit ds i && decide (elevtn[i]! ≤ maxElev)) = true := by
      intro h
      simp only [isPit, Bool.and_eq_true, decide_eq_true_eq, beq_iff_eq] at h
      apply hv
      simp only [isValid, Bool.and_eq_true, decide_eq_true_eq, bne_iff_ne]
      exact ⟨hi, by rw [h.1.2]; omega⟩
    exact Classical.byContradiction fun h => hno ((estInit_outlet ds elevtn maxElev i).2 h)

/-! ## Manning branch of `Flwdir.river_depth` -/

/-- **local slope.** `dz`, `dx` are the differences with the downstream cell (with the cell itself
outside the network and hence 0 at pits); the local slope is `S·dz/dx` when the link is at least 1 m
long and nodata otherwise (so in particular at pits and outside the network). -/
theorem river_local_slope (ds : Array Nat) (P : RdParams) (i : Nat) (hi : i < ds.size) :
    rdDz ds P i = P.zs[i]! - (if ds[i]! ≠ ds.size then P.zs[ds[i]!]! else P.zs[i]!) ∧
    rdDx ds P i = P.rivdst[i]! - (if ds[i]! ≠ ds.size then P.rivdst[ds[i]!]! else P.rivdst[i]!) ∧
    (rivslpLocal ds P)[i]! = if rdDx ds P i ≥ P.K then P.S * rdDz ds P i / rdDx ds P i else P.nd := by
  refine ⟨?_, ?_, rivslpLocal_get ds P i hi⟩
  · simp [rdDz, downstream_get ds P.zs i hi]
  · simp [rdDx, downstream_get ds P.rivdst i hi]

/-- the integer the model stores is the slope over the scale `S` whenever the division is exact
(`riverExact`, reported by the driver for every case). -/
theorem river_local_exact (ds : Array Nat) (P : RdParams) (i : Nat) (hi : i < ds.size)
    (hx : rdDx ds P i ≥ P.K) (hdiv : (P.S * rdDz ds P i) % rdDx ds P i = 0) :
    (rivslpLocal ds P)[i]! * rdDx ds P i = P.S * rdDz ds P i := by
  rw [rivslpLocal_get ds P i hi, if_pos hx]
  exact Int.ediv_mul_cancel (Int.dvd_of_emod_eq_zero hdiv)

/-- a pit has no local slope (`dx = 0 < 1 m`), nor has a cell outside the network. -/
theorem river_pit_no_slope (ds : Array Nat) (P : RdParams) (i : Nat) (hi : i < ds.size)
    (hp : ds[i]! = i ∨ ds[i]! = ds.size) (hK : 0 < P.K) : (rivslpLocal ds P)[i]! = P.nd := by
  obtain ⟨_, hdx, hl⟩ := river_local_slope ds P i hi
  have : rdDx ds P i = 0 := by
    rw [hdx]
    rcases hp with h | h
    · rw [h]; split <;> omega
    · simp [h]
  rw [hl, this]; simp; omega

/-- the slope value cell `j` holds after `fillnodata` (`none` = still nodata) -/
def slopeOpt (ds : Array Nat) (seq : List Nat) (P : RdParams) (j : Nat) : Option Int :=
  fillOpt ds seq (rivslpLocal ds P) P.nd 0 j

/-- **which slope a cell uses (recursive form).** A cell with a local slope keeps it; a cell without
gets the maximum of the slopes of its direct upstream cells (after these were filled the same way),
ignoring those that stay empty; the slope finally used is the maximum of that value (or of nodata
= −9999 if the cell stays empty) and `min_rivslp`. -/
theorem river_slope_rec (ds : Array Nat) (seq : List Nat) (P : RdParams) (htopo : Topo ds seq)
    (hb : ∀ i ∈ seq, i < ds.size) (j : Nat) (hj : j < ds.size) :
    slopeOpt ds seq P j =
      (if (rivslpLocal ds P)[j]! ≠ P.nd then some (rivslpLocal ds P)[j]!
       else mergeBranches 0 ((kids ds seq j).map fun c => slopeOpt ds seq P c)) ∧
    (rivslpFinal ds seq P)[j]! = maxSlope P ((slopeOpt ds seq P j).getD P.nd) := by
  have hb' : ∀ i ∈ seq, i < (rivslpLocal ds P).size := by
    intro i hi; rw [rivslpLocal_size]; exact hb i hi
  have hj' : j < (rivslpLocal ds P).size := by rw [rivslpLocal_size]; exact hj
  obtain ⟨h1, h2⟩ := fillDown_rec ds seq (rivslpLocal ds P) P.nd 0 htopo hb' j hj'
  refine ⟨h1, ?_⟩
  rw [rivslpFinal_get ds seq P j hj]
  unfold rivslpFilled slopeOpt fillOpt
  rw [h2]

/-- a cell with a local slope uses its own: `max(min_rivslp, dz/dx)`. -/
theorem river_slope_own (ds : Array Nat) (seq : List Nat) (P : RdParams) (htopo : Topo ds seq)
    (hb : ∀ i ∈ seq, i < ds.size) (j : Nat) (hj : j < ds.size) (hown : (rivslpLocal ds P)[j]! ≠ P.nd) :
    (rivslpFinal ds seq P)[j]! = maxSlope P (rivslpLocal ds P)[j]! := by
  obtain ⟨h1, h2⟩ := river_slope_rec ds seq P htopo hb j hj
  rw [h2, h1, if_pos hown]; rfl

/-- **which slope a cell uses (frontier form).** `Feeds k j`: `j` is reached from `k` through cells
without a local slope only. The value of a cell is at least the local slope of every nearest cell
upstream that has one, and it is its own local slope or the local slope of one of them: a cell
without a local slope uses exactly the largest local slope among the nearest upstream cells that
have one. -/
theorem river_slope_frontier (ds : Array Nat) (seq : List Nat) (P : RdParams) (htopo : Topo ds seq)
    (hb : ∀ i ∈ seq, i < ds.size) :
    (∀ k ∈ seq, (rivslpLocal ds P)[k]! ≠ P.nd → ∀ j, Feeds ds (rivslpLocal ds P) P.nd k j →
      ∃ r, slopeOpt ds seq P j = some r ∧ (rivslpLocal ds P)[k]! ≤ r) ∧
    (∀ j ∈ seq, ∀ r, slopeOpt ds seq P j = some r →
      ((rivslpLocal ds P)[j]! ≠ P.nd ∧ r = (rivslpLocal ds P)[j]!) ∨
      ∃ k ∈ seq, (rivslpLocal ds P)[k]! ≠ P.nd ∧ Feeds ds (rivslpLocal ds P) P.nd k j ∧
        r = (rivslpLocal ds P)[k]!) := by
  have hb' : ∀ i ∈ seq, i < (rivslpLocal ds P).size := by
    intro i hi; rw [rivslpLocal_size]; exact hb i hi
  exact fillDown_frontier_sel 0 (fun a b => b ≤ a) (fun a => Int.le_refl a)
    (fun a b c h1 h2 => Int.le_trans h2 h1)
    (fun x a => by have : mergeHow 0 x a = max x a := by simp [mergeHow]
                   rw [this]; omega)
    (fun x a => by have : mergeHow 0 x a = max x a := by simp [mergeHow]
                   rw [this]; omega) ds seq (rivslpLocal ds P) P.nd htopo hb'

/-- `max(min_rivslp, v/S)`: the result is one of the two, and at least both (as fractions with
positive denominators). -/
theorem maxSlope_spec (P : RdParams) (v : Int) (_hS : 0 < P.S) (_hD : 0 < P.minDen) :
    (maxSlope P v = (v, P.S) ∨ maxSlope P v = (P.minNum, P.minDen)) ∧
    P.minNum * (maxSlope P v).2 ≤ (maxSlope P v).1 * P.minDen ∧
    v * (maxSlope P v).2 ≤ (maxSlope P v).1 * P.S := by
  by_cases h : P.minNum * P.S ≤ v * P.minDen
  · have e : maxSlope P v = (v, P.S) := by simp [maxSlope, h]
    rw [e]
    exact ⟨Or.inl rfl, h, Int.le_refl _⟩
  · have e : maxSlope P v = (P.minNum, P.minDen) := by simp [maxSlope, h]
    rw [e]
    refine ⟨Or.inr rfl, Int.le_refl _, ?_⟩
    show v * P.minDen ≤ P.minNum * P.S
    omega

/-- the slope used is never below `min_rivslp`. -/
theorem river_slope_ge_min (ds : Array Nat) (seq : List Nat) (P : RdParams) (j : Nat) (hj : j < ds.size)
    (hS : 0 < P.S) (hD : 0 < P.minDen) :
    P.minNum * ((rivslpFinal ds seq P)[j]!).2 ≤ ((rivslpFinal ds seq P)[j]!).1 * P.minDen := by
  rw [rivslpFinal_get ds seq P j hj]
  exact (maxSlope_spec P _ hS hD).2.1

/-- a cell that stays without a slope (no local slope at or upstream of it through empty cells) uses
`min_rivslp` (provided `min_rivslp > −9999`). -/
theorem river_slope_none (ds : Array Nat) (seq : List Nat) (P : RdParams) (htopo : Topo ds seq)
    (hb : ∀ i ∈ seq, i < ds.size) (j : Nat) (hj : j < ds.size) (hS : 0 < P.S)
    (hmin : -9999 * P.minDen < P.minNum) (hnone : slopeOpt ds seq P j = none) :
    (rivslpFinal ds seq P)[j]! = (P.minNum, P.minDen) := by
  obtain ⟨_, h2⟩ := river_slope_rec ds seq P htopo hb j hj
  rw [h2, hnone]
  have h : ¬ (P.minNum * P.S ≤ P.nd * P.minDen) := by
    intro hle
    have h1 : P.nd * P.minDen = (-9999 * P.minDen) * P.S := by
      unfold RdParams.nd
      rw [Int.mul_assoc, Int.mul_comm P.S, ← Int.mul_assoc]
    rw [h1] at hle
    have := Int.mul_lt_mul_of_pos_right hmin hS
    omega
  simp [maxSlope, h]

/-- **depth.** Outside the network the result is the nodata token; elsewhere it is the maximum of
`min_rivdph` and the power law evaluated at the cell with the slope that cell uses. -/
theorem river_depth_def (ds : Array Nat) (seq : List Nat) (P : RdParams) (pw : Nat → Int × Int → Int)
    (minDph ndOut : Int) (i : Nat) (hi : i < ds.size) :
    (riverDepth ds seq P pw minDph ndOut)[i]! =
      if ds[i]! = ds.size then ndOut else max minDph (pw i (rivslpFinal ds seq P)[i]!) :=
  riverDepth_get ds seq P pw minDph ndOut i hi

/-- inside the network the depth is at least `min_rivdph`. -/
theorem river_depth_ge_min (ds : Array Nat) (seq : List Nat) (P : RdParams) (pw : Nat → Int × Int → Int)
    (minDph ndOut : Int) (i : Nat) (hi : i < ds.size) (hv : ds[i]! ≠ ds.size) :
    minDph ≤ (riverDepth ds seq P pw minDph ndOut)[i]! := by
  rw [riverDepth_get ds seq P pw minDph ndOut i hi, if_neg hv]; omega

/-- **monotone in the power-law value.** At a fixed cell (hence fixed slope) a larger value of the
power law never gives a smaller depth: the only operations after the power law are the maximum with
`min_rivdph` and the nodata mask. -/
theorem river_depth_mono_pw (ds : Array Nat) (seq : List Nat) (P : RdParams) (pw pw' : Nat → Int × Int → Int)
    (minDph ndOut : Int) (i : Nat) (hi : i < ds.size)
    (h : pw i (rivslpFinal ds seq P)[i]! ≤ pw' i (rivslpFinal ds seq P)[i]!) :
    (riverDepth ds seq P pw minDph ndOut)[i]! ≤ (riverDepth ds seq P pw' minDph ndOut)[i]! := by
  rw [riverDepth_get ds seq P pw minDph ndOut i hi, riverDepth_get ds seq P pw' minDph ndOut i hi]
  split
  · exact Int.le_refl _
  · exact int_max_mono _ _ _ h

/-- **depth is non-decreasing in the bankfull discharge** (fixed network, water levels, distances,
width, roughness). Rational model of `((manning·Q)/(√slope·w))^(3/5)`: `pow`, `sq` (root of the slope
fraction) and `tok` (value ↦ ordered token) are parameters of which only monotonicity (`pow`, `tok`) is
used; the roughness is non-negative and `√slope·w ≥ 0` at the cell. Holds for every network, every
order and every field - the slope a cell uses does not depend on the discharge. -/
theorem river_depth_mono_discharge (ds : Array Nat) (seq : List Nat) (P : RdParams) (pow : Rat → Rat)
    (sq : Int × Int → Rat) (tok : Rat → Int) (hpow : ∀ a b, a ≤ b → pow a ≤ pow b)
    (htok : ∀ a b, a ≤ b → tok a ≤ tok b) (manning q q' w : Array Rat) (minDph ndOut : Int) (i : Nat)
    (hi : i < ds.size) (hn : 0 ≤ manning[i]!) (hd : 0 ≤ sq (rivslpFinal ds seq P)[i]! * w[i]!)
    (hq : q[i]! ≤ q'[i]!) :
    (riverDepth ds seq P (manningPw pow sq tok manning q w) minDph ndOut)[i]! ≤
      (riverDepth ds seq P (manningPw pow sq tok manning q' w) minDph ndOut)[i]! :=
  river_depth_mono_pw ds seq P _ _ minDph ndOut i hi
    (htok _ _ (hpow _ _ (manningArg_mono_q _ _ _ _ _ hn hd hq)))

/-- the same for the roughness coefficient (discharge non-negative). -/
theorem river_depth_mono_manning (ds : Array Nat) (seq : List Nat) (P : RdParams) (pow : Rat → Rat)
    (sq : Int × Int → Rat) (tok : Rat → Int) (hpow : ∀ a b, a ≤ b → pow a ≤ pow b)
    (htok : ∀ a b, a ≤ b → tok a ≤ tok b) (manning manning' q w : Array Rat) (minDph ndOut : Int) (i : Nat)
    (hi : i < ds.size) (hq : 0 ≤ q[i]!) (hd : 0 ≤ sq (rivslpFinal ds seq P)[i]! * w[i]!)
    (hn : manning[i]! ≤ manning'[i]!) :
    (riverDepth ds seq P (manningPw pow sq tok manning q w) minDph ndOut)[i]! ≤
      (riverDepth ds seq P (manningPw pow sq tok manning' q w) minDph ndOut)[i]! :=
  river_depth_mono_pw ds seq P _ _ minDph ndOut i hi
    (htok _ _ (hpow _ _ (manningArg_mono_n _ _ _ _ _ hq hd hn)))

/-- **depth is non-increasing in the river width** (fixed discharge and slope; `manning·Q ≥ 0`,
`√slope > 0`, widths positive). -/
theorem river_depth_anti_width (ds : Array Nat) (seq : List Nat) (P : RdParams) (pow : Rat → Rat)
    (sq : Int × Int → Rat) (tok : Rat → Int) (hpow : ∀ a b, a ≤ b → pow a ≤ pow b)
    (htok : ∀ a b, a ≤ b → tok a ≤ tok b) (manning q w w' : Array Rat) (minDph ndOut : Int) (i : Nat)
    (hi : i < ds.size) (hnq : 0 ≤ manning[i]! * q[i]!) (hs : 0 < sq (rivslpFinal ds seq P)[i]!)
    (hw : 0 < w[i]!) (hww : w[i]! ≤ w'[i]!) :
    (riverDepth ds seq P (manningPw pow sq tok manning q w') minDph ndOut)[i]! ≤
      (riverDepth ds seq P (manningPw pow sq tok manning q w) minDph ndOut)[i]! :=
  river_depth_mono_pw ds seq P _ _ minDph ndOut i hi
    (htok _ _ (hpow _ _ (manningArg_anti_den _ _ _ _ _ _ hnq (Rat.mul_pos hs hw)
      (Rat.mul_le_mul_of_nonneg_left hww (Rat.le_of_lt hs)))))

/-! ### monotonicity in the slope computed through `zs` / `rivdst` (fourth stage)

What holds. The depth is antitone in the slope the cell uses (for an antitone power-law parameter; for
the Manning form this is `manningArg_anti_den`), and that slope is monotone in the *local slope field*
as long as the set of cells without a local slope is the same (it is fixed by `rivdst`: links shorter
than 1 m): filling with `max` and the maximum with `min_rivslp` are monotone. Hence for fixed `rivdst`
the depth at EVERY cell is antitone in the water-surface drops `dz = zs − downstream(zs)` of all links.
It is NOT monotone in `zs` cell by cell (raising `zs[i]` steepens the link below `i` and flattens the
links into `i`), nor in `rivdst` when a link crosses the 1 m threshold (the nodata pattern changes);
both are excluded by the hypotheses below, not by the proof method. -/

/-- **slope used is monotone in the local slope field** (same cells without a local slope, `local ≤
local'` cell by cell; `rivdst` may differ as long as that pattern is the same): `slope ≤ slope'` at every
index, as fractions with positive denominators (cross-multiplied). -/
theorem river_slope_mono_local (ds : Array Nat) (seq : List Nat) (P P' : RdParams) (htopo : Topo ds seq)
    (hb : ∀ i ∈ seq, i < ds.size) (hS : 0 < P.S) (hD : 0 < P.minDen)
    (eS : P'.S = P.S) (eN : P'.minNum = P.minNum) (eD : P'.minDen = P.minDen)
    (hpat : ∀ j, j < ds.size → ((rivslpLocal ds P)[j]! = P.nd ↔ (rivslpLocal ds P')[j]! = P.nd))
    (hle : ∀ j, j < ds.size → (rivslpLocal ds P)[j]! ≠ P.nd → (rivslpLocal ds P)[j]! ≤ (rivslpLocal ds P')[j]!)
    (j : Nat) (hj : j < ds.size) :
    ((rivslpFinal ds seq P)[j]!).1 * ((rivslpFinal ds seq P')[j]!).2 ≤
      ((rivslpFinal ds seq P')[j]!).1 * ((rivslpFinal ds seq P)[j]!).2 ∧
    0 < ((rivslpFinal ds seq P)[j]!).2 ∧ 0 < ((rivslpFinal ds seq P')[j]!).2 := by
  refine ⟨rivslpFinal_mono_local ds seq P P' htopo hb hS hD eS eN eD hpat hle j hj, ?_, ?_⟩
  · rw [rivslpFinal_get ds seq P j hj]; exact maxSlope_den_pos P hS hD _
  · rw [rivslpFinal_get ds seq P' j hj]; exact maxSlope_den_pos P' (eS ▸ hS) (eD ▸ hD) _

/-- **slope used is monotone in the water-surface drop.** Same network, order, `rivdst`, scale, 1 m
threshold and `min_rivslp`; water levels `zs`, `zs'` with `dz ≤ dz'` on every link of at least 1 m
(divisions exact - `riverExact`, the driver's `exact` - and no drop equal to the nodata slope −9999):
every cell of the array uses a slope that is at most the one it uses with `zs'`. -/
theorem river_slope_mono_zs (ds : Array Nat) (seq : List Nat) (P P' : RdParams) (htopo : Topo ds seq)
    (hb : ∀ i ∈ seq, i < ds.size) (hS : 0 < P.S) (hK : 0 < P.K) (hD : 0 < P.minDen)
    (eS : P'.S = P.S) (eK : P'.K = P.K) (eN : P'.minNum = P.minNum) (eD : P'.minDen = P.minDen)
    (eR : P'.rivdst = P.rivdst)
    (hex : riverExact ds P = true) (hex' : riverExact ds P' = true)
    (hne : ∀ i, i < ds.size → rdDx ds P i ≥ P.K → rdDz ds P i ≠ -9999 * rdDx ds P i)
    (hne' : ∀ i, i < ds.size → rdDx ds P i ≥ P.K → rdDz ds P' i ≠ -9999 * rdDx ds P i)
    (hle : ∀ i, i < ds.size → rdDx ds P i ≥ P.K → rdDz ds P i ≤ rdDz ds P' i)
    (j : Nat) (hj : j < ds.size) :
    ((rivslpFinal ds seq P)[j]!).1 * ((rivslpFinal ds seq P')[j]!).2 ≤
      ((rivslpFinal ds seq P')[j]!).1 * ((rivslpFinal ds seq P)[j]!).2 ∧
    0 < ((rivslpFinal ds seq P)[j]!).2 ∧ 0 < ((rivslpFinal ds seq P')[j]!).2 := by
  refine ⟨rivslpFinal_mono_zs ds seq P P' htopo hb hS hK hD eS eK eN eD eR hex hex' hne hne' hle j hj, ?_, ?_⟩
  · rw [rivslpFinal_get ds seq P j hj]; exact maxSlope_den_pos P hS hD _
  · rw [rivslpFinal_get ds seq P' j hj]; exact maxSlope_den_pos P' (eS ▸ hS) (eD ▸ hD) _

/-- **depth is antitone in the slope used** (any power-law parameter that does not increase with the
slope fraction): a cell that uses a larger slope is not deeper. -/
theorem river_depth_anti_slope (ds : Array Nat) (seq : List Nat) (P P' : RdParams) (pw : Nat → Int × Int → Int)
    (hpw : ∀ i (s s' : Int × Int), 0 < s.2 → 0 < s'.2 → s.1 * s'.2 ≤ s'.1 * s.2 → pw i s' ≤ pw i s)
    (minDph ndOut : Int) (i : Nat) (hi : i < ds.size)
    (h : ((rivslpFinal ds seq P)[i]!).1 * ((rivslpFinal ds seq P')[i]!).2 ≤
          ((rivslpFinal ds seq P')[i]!).1 * ((rivslpFinal ds seq P)[i]!).2 ∧
         0 < ((rivslpFinal ds seq P)[i]!).2 ∧ 0 < ((rivslpFinal ds seq P')[i]!).2) :
    (riverDepth ds seq P' pw minDph ndOut)[i]! ≤ (riverDepth ds seq P pw minDph ndOut)[i]! := by
  rw [riverDepth_get ds seq P' pw minDph ndOut i hi, riverDepth_get ds seq P pw minDph ndOut i hi]
  split
  · exact Int.le_refl _
  · exact int_max_mono _ _ _ (hpw i _ _ h.2.1 h.2.2 h.1)

/-- **Manning depth is non-increasing in the water-surface drop** (fixed network, distances, discharge,
roughness and width). Rational model of `((manning·Q)/(√slope·w))^(3/5)` as in
`river_depth_mono_discharge`: `pow`, `tok` monotone parameters, `sq` (root of the slope fraction)
monotone in the fraction order; `manning·Q ≥ 0`, `w > 0` and `√slope > 0` at the cell. With `dz ≤ dz'` on
every link of at least 1 m (hypotheses of `river_slope_mono_zs`) the depth with `zs'` is at most the
depth with `zs`, at every cell - also at cells that take their slope from upstream through `fillnodata`. -/
theorem river_depth_anti_zs (ds : Array Nat) (seq : List Nat) (P P' : RdParams) (pow : Rat → Rat)
    (sq : Int × Int → Rat) (tok : Rat → Int) (hpow : ∀ a b, a ≤ b → pow a ≤ pow b)
    (htok : ∀ a b, a ≤ b → tok a ≤ tok b)
    (hsq : ∀ s s' : Int × Int, 0 < s.2 → 0 < s'.2 → s.1 * s'.2 ≤ s'.1 * s.2 → sq s ≤ sq s')
    (manning q w : Array Rat) (minDph ndOut : Int)
    (htopo : Topo ds seq) (hb : ∀ i ∈ seq, i < ds.size) (hS : 0 < P.S) (hK : 0 < P.K) (hD : 0 < P.minDen)
    (eS : P'.S = P.S) (eK : P'.K = P.K) (eN : P'.minNum = P.minNum) (eD : P'.minDen = P.minDen)
    (eR : P'.rivdst = P.rivdst)
    (hex : riverExact ds P = true) (hex' : riverExact ds P' = true)
    (hne : ∀ i, i < ds.size → rdDx ds P i ≥ P.K → rdDz ds P i ≠ -9999 * rdDx ds P i)
    (hne' : ∀ i, i < ds.size → rdDx ds P i ≥ P.K → rdDz ds P' i ≠ -9999 * rdDx ds P i)
    (hle : ∀ i, i < ds.size → rdDx ds P i ≥ P.K → rdDz ds P i ≤ rdDz ds P' i)
    (i : Nat) (hi : i < ds.size) (hnq : 0 ≤ manning[i]! * q[i]!)
    (hs : 0 < sq (rivslpFinal ds seq P)[i]!) (hw : 0 < w[i]!) :
    (riverDepth ds seq P' (manningPw pow sq tok manning q w) minDph ndOut)[i]! ≤
      (riverDepth ds seq P (manningPw pow sq tok manning q w) minDph ndOut)[i]! := by
  obtain ⟨h1, h2, h3⟩ := river_slope_mono_zs ds seq P P' htopo hb hS hK hD eS eK eN eD eR hex hex' hne hne' hle i hi
  rw [riverDepth_get ds seq P' _ minDph ndOut i hi, riverDepth_get ds seq P _ minDph ndOut i hi]
  split
  · exact Int.le_refl _
  · refine int_max_mono _ _ _ (htok _ _ (hpow _ _ ?_))
    exact manningArg_anti_den _ _ _ _ _ _ hnq (Rat.mul_pos hs hw)
      (Rat.mul_le_mul_of_nonneg_right (hsq _ _ h2 h3 h1) (Rat.le_of_lt hw))

/-- the quotient `num/den` of the slope fraction - the `sq` of the examples, and any monotone function of
it such as the real square root - is monotone in the fraction order (hypothesis `hsq` above) -/
theorem slope_quotient_mono (s s' : Int × Int) (h2 : 0 < s.2) (h2' : 0 < s'.2)
    (h : s.1 * s'.2 ≤ s'.1 * s.2) : (s.1 : Rat) / (s.2 : Rat) ≤ (s'.1 : Rat) / (s'.2 : Rat) :=
  fracVal_mono s.1 s.2 s'.1 s'.2 h2 h2' h

/-- **`river_slope_eq_spec`: the slope every cell uses = the declarative oracle, whole array.** The
model works on scaled integers `S·dz/dx` and fills cells without a local slope by the up-to-downstream
`fillnodata` sweep in the order `seq`; the oracle `rivslpSpec` the driver evaluates is independent of
`S`, of `seq` and of the sweep: fractions `dz/dx`, for a cell without its own fraction the largest
fraction among the cells that reach it through slope-less cells only (found by walking downstream from
every cell with fuel `ds.size + 1` - proved sufficient), then the maximum with `min_rivslp`. For every
network, every downstream-first order consisting of the cells of the network, all fields such that the
scaled divisions are exact (`riverExact`, reported by the driver), `S, K, minDen > 0`, `min_rivslp >
−9999`: both are the same fraction with positive denominators at every index of the array. -/
theorem river_slope_eq_spec (ds : Array Nat) (seq : List Nat) (P : RdParams) (htopo : Topo ds seq)
    (hb : ∀ i ∈ seq, i < ds.size) (hcov : ∀ c, isValid ds c = true → c ∈ seq)
    (hS : 0 < P.S) (hK : 0 < P.K) (hD : 0 < P.minDen) (hmin : -9999 * P.minDen < P.minNum)
    (hex : riverExact ds P = true) (j : Nat) (hj : j < ds.size) :
    ((rivslpFinal ds seq P)[j]!).1 * (rivslpSpec ds P j).2 = (rivslpSpec ds P j).1 * ((rivslpFinal ds seq P)[j]!).2 ∧
    0 < ((rivslpFinal ds seq P)[j]!).2 ∧ 0 < (rivslpSpec ds P j).2 :=
  rivslpFinal_eq_spec_all ds seq P htopo hb hcov hS hK hD hmin hex j hj

/-- **depth = depth through the oracle's slope.** For every power-law parameter that depends on the
slope only as a fraction, the Manning depth of the model is `max(min_rivdph, pw(slope given by the
flow-path definition))` inside the network and nodata outside. -/
theorem river_depth_eq_spec (ds : Array Nat) (seq : List Nat) (P : RdParams) (pw : Nat → Int × Int → Int)
    (hpw : ∀ i (s s' : Int × Int), 0 < s.2 → 0 < s'.2 → s.1 * s'.2 = s'.1 * s.2 → pw i s = pw i s')
    (minDph ndOut : Int) (htopo : Topo ds seq)
    (hb : ∀ i ∈ seq, i < ds.size) (hcov : ∀ c, isValid ds c = true → c ∈ seq)
    (hS : 0 < P.S) (hK : 0 < P.K) (hD : 0 < P.minDen) (hmin : -9999 * P.minDen < P.minNum)
    (hex : riverExact ds P = true) (i : Nat) (hi : i < ds.size) :
    (riverDepth ds seq P pw minDph ndOut)[i]! =
      if ds[i]! = ds.size then ndOut else max minDph (pw i (rivslpSpec ds P i)) := by
  obtain ⟨h1, h2, h3⟩ := river_slope_eq_spec ds seq P htopo hb hcov hS hK hD hmin hex i hi
  rw [riverDepth_get ds seq P pw minDph ndOut i hi, hpw i _ _ h2 h3 h1]

/-- the driver's table parameter depends on the slope only as a fraction, so the depth the driver
reports as `model.depth` is the depth through the oracle's slope (hypothesis `hpw` of
`river_depth_eq_spec` discharged for `pwTable`). -/
theorem river_depth_table_eq_spec (ds : Array Nat) (seq : List Nat) (P : RdParams) (cn cd tab : Array Int)
    (minDph ndOut : Int) (htopo : Topo ds seq)
    (hb : ∀ i ∈ seq, i < ds.size) (hcov : ∀ c, isValid ds c = true → c ∈ seq)
    (hS : 0 < P.S) (hK : 0 < P.K) (hD : 0 < P.minDen) (hmin : -9999 * P.minDen < P.minNum)
    (hex : riverExact ds P = true) (i : Nat) (hi : i < ds.size) :
    (riverDepth ds seq P (pwTable ds.size cn cd tab) minDph ndOut)[i]! =
      if ds[i]! = ds.size then ndOut else max minDph (pwTable ds.size cn cd tab i (rivslpSpec ds P i)) :=
  river_depth_eq_spec ds seq P _ (fun i s s' h1 h2 h3 => pwTable_frac ds.size cn cd tab i s s' h1 h2 h3)
    minDph ndOut htopo hb hcov hS hK hD hmin hex i hi

/-- the three model = oracle theorems of this extension with the hypothesis "the order holds every cell
of the network" in its executable form (`coversNet_c14`, the driver's output `cover`). -/
theorem estModel_eq_spec_cover (ds : Array Nat) (seq : List Nat) (P : EstParams) (elevtn : Array Int)
    (maxElev : Int) (htopo : Topo ds seq) (hb : ∀ i ∈ seq, i < ds.size)
    (hcov : coversNet_c14 ds seq = true) (i : Nat) (hi : i < ds.size) :
    (classifyEstuary ds seq (pitIndices ds) P elevtn maxElev)[i]! =
      if isValid ds i then estSpec ds (estCond P ds) (fun k => isPit ds k && decide (elevtn[k]! ≤ maxElev)) i
      else 0 :=
  estModel_eq_spec ds seq P elevtn maxElev htopo hb (coversNet_sound_c14 ds seq hcov) i hi

theorem river_depth_table_eq_spec_cover (ds : Array Nat) (seq : List Nat) (P : RdParams) (cn cd tab : Array Int)
    (minDph ndOut : Int) (htopo : Topo ds seq) (hb : ∀ i ∈ seq, i < ds.size)
    (hcov : coversNet_c14 ds seq = true)
    (hyp : decide (0 < P.S ∧ 0 < P.K ∧ 0 < P.minDen ∧ -9999 * P.minDen < P.minNum) = true)
    (hex : riverExact ds P = true) (i : Nat) (hi : i < ds.size) :
    (riverDepth ds seq P (pwTable ds.size cn cd tab) minDph ndOut)[i]! =
      if ds[i]! = ds.size then ndOut else max minDph (pwTable ds.size cn cd tab i (rivslpSpec ds P i)) := by
  obtain ⟨hS, hK, hD, hmin⟩ := of_decide_eq_true hyp
  exact river_depth_table_eq_spec ds seq P cn cd tab minDph ndOut htopo hb (coversNet_sound_c14 ds seq hcov)
    hS hK hD hmin hex i hi

/-! ## `dem.slope` -/

/-- **cell rule.** A cell holding a value gets `hyp row gx gy` with the two finite-difference
numerators of its 3×3 window; a nodata cell gets nodata. -/
theorem slope_cell_def {α : Type} [Inhabited α] (hyp : Nat → Int → Int → α) (ndOut : α) (nrow ncol : Nat)
    (elev : Array Int) (nd : Int) (i : Nat) (hi : i < nrow * ncol) :
    (slopeModel hyp ndOut nrow ncol elev nd)[i]! =
      if elev[i]! ≠ nd then hyp (i / ncol) (slopeGx nrow ncol elev nd i) (slopeGy nrow ncol elev nd i)
      else ndOut :=
  slopeModel_get hyp ndOut nrow ncol elev nd i hi

/-- **nodata cells give nodata.** -/
theorem slope_nodata {α : Type} [Inhabited α] (hyp : Nat → Int → Int → α) (ndOut : α) (nrow ncol : Nat)
    (elev : Array Int) (nd : Int) (i : Nat) (hi : i < nrow * ncol) (h : elev[i]! = nd) :
    (slopeModel hyp ndOut nrow ncol elev nd)[i]! = ndOut := by
  rw [slopeModel_get hyp ndOut nrow ncol elev nd i hi]; simp [h]

/-- **edge / nodata handling = replicate the centre.** The window entry `(dr, dc)` of cell `(r, c)` is
the neighbour's elevation when the neighbour lies inside the raster and holds a value, and the centre
value otherwise (outside the raster, or nodata). -/
theorem slope_window_def (nrow ncol : Nat) (elev : Array Int) (nd : Int) (r c : Nat) (dr dc : Int) :
    let inside := 0 ≤ (r : Int) + dr ∧ (r : Int) + dr < nrow ∧ 0 ≤ (c : Int) + dc ∧ (c : Int) + dc < ncol
    let k := ((r : Int) + dr).toNat * ncol + ((c : Int) + dc).toNat
    (¬ inside → winAt nrow ncol elev nd r c dr dc = elev[r * ncol + c]!) ∧
    (inside → elev[k]! = nd → winAt nrow ncol elev nd r c dr dc = elev[r * ncol + c]!) ∧
    (inside → elev[k]! ≠ nd → winAt nrow ncol elev nd r c dr dc = elev[k]!) := by
  refine ⟨winAt_outside nrow ncol elev nd r c dr dc, ?_, ?_⟩
  · intro h hv; rw [winAt_inside _ _ _ _ _ _ _ _ h]; simp [hv]
  · intro h hv; rw [winAt_inside _ _ _ _ _ _ _ _ h]; simp [hv]

/-- **interior cells: the Horn / Sobel finite differences.** For a cell whose eight neighbours lie
inside the raster and hold values, `gx` is the west column minus the east column and `gy` the north
row minus the south row, each with weights 1-2-1. -/
theorem slope_interior (nrow ncol : Nat) (elev : Array Int) (nd : Int) (r c : Nat)
    (hr : 1 ≤ r ∧ r + 1 < nrow) (hc : 1 ≤ c ∧ c + 1 < ncol)
    (hv : ∀ a b, r - 1 ≤ a → a ≤ r + 1 → c - 1 ≤ b → b ≤ c + 1 → elev[a * ncol + b]! ≠ nd) :
    let e := fun (a b : Nat) => elev[a * ncol + b]!
    gradX (winAt nrow ncol elev nd r c) =
      (e (r-1) (c-1) + 2 * e r (c-1) + e (r+1) (c-1)) - (e (r-1) (c+1) + 2 * e r (c+1) + e (r+1) (c+1)) ∧
    gradY (winAt nrow ncol elev nd r c) =
      (e (r-1) (c-1) + 2 * e (r-1) c + e (r-1) (c+1)) - (e (r+1) (c-1) + 2 * e (r+1) c + e (r+1) (c+1)) := by
  have hw : ∀ (dr dc : Int) (a b : Nat), (r : Int) + dr = a → (c : Int) + dc = b →
      r - 1 ≤ a → a ≤ r + 1 → c - 1 ≤ b → b ≤ c + 1 →
      winAt nrow ncol elev nd r c dr dc = elev[a * ncol + b]! := by
    intro dr dc a b ha hb h1 h2 h3 h4
    have hin : 0 ≤ (r : Int) + dr ∧ (r : Int) + dr < nrow ∧ 0 ≤ (c : Int) + dc ∧ (c : Int) + dc < ncol := by
      omega
    rw [winAt_inside _ _ _ _ _ _ _ _ hin, ha, hb]
    simp only [Int.toNat_natCast]
    rw [if_pos (hv a b h1 h2 h3 h4)]
  intro e
  simp only [gradX, gradY]
  rw [hw (-1) (-1) (r-1) (c-1) (by omega) (by omega) (by omega) (by omega) (by omega) (by omega),
      hw 0 (-1) r (c-1) (by omega) (by omega) (by omega) (by omega) (by omega) (by omega),
      hw 1 (-1) (r+1) (c-1) (by omega) (by omega) (by omega) (by omega) (by omega) (by omega),
      hw (-1) 1 (r-1) (c+1) (by omega) (by omega) (by omega) (by omega) (by omega) (by omega),
      hw 0 1 r (c+1) (by omega) (by omega) (by omega) (by omega) (by omega) (by omega),
      hw 1 1 (r+1) (c+1) (by omega) (by omega) (by omega) (by omega) (by omega) (by omega),
      hw (-1) 0 (r-1) c (by omega) (by omega) (by omega) (by omega) (by omega) (by omega),
      hw 1 0 (r+1) c (by omega) (by omega) (by omega) (by omega) (by omega) (by omega)]
  exact ⟨rfl, rfl⟩

/-- **corner cell.** North-west corner of a raster with at least two rows and columns whose three
neighbours inside the raster hold values: the five window entries outside the raster are the centre
value, so `gx = 3·e₀₀ − 2·e₀₁ − e₁₁`, `gy = 3·e₀₀ − 2·e₁₀ − e₁₁` (one-sided differences). -/
theorem slope_nw_corner (nrow ncol : Nat) (elev : Array Int) (nd : Int) (hr : 2 ≤ nrow) (hc : 2 ≤ ncol)
    (h01 : elev[1]! ≠ nd) (h10 : elev[ncol]! ≠ nd) (h11 : elev[ncol + 1]! ≠ nd) :
    slopeGx nrow ncol elev nd 0 = 3 * elev[0]! - 2 * elev[1]! - elev[ncol + 1]! ∧
    slopeGy nrow ncol elev nd 0 = 3 * elev[0]! - 2 * elev[ncol]! - elev[ncol + 1]! := by
  have hd : 0 / ncol = 0 := Nat.zero_div ncol
  have hm : 0 % ncol = 0 := Nat.zero_mod ncol
  have ho : ∀ (dr dc : Int), dr = -1 ∨ dc = -1 → winAt nrow ncol elev nd 0 0 dr dc = elev[0]! := by
    intro dr dc h
    rw [winAt_outside nrow ncol elev nd 0 0 dr dc (by omega)]; simp
  have h00 : winAt nrow ncol elev nd 0 0 0 0 = elev[0]! := by
    rw [winAt_inside nrow ncol elev nd 0 0 0 0 (by omega)]; simp
  have e01 : winAt nrow ncol elev nd 0 0 0 1 = elev[1]! := by
    rw [winAt_inside nrow ncol elev nd 0 0 0 1 (by omega)]; simp [h01]
  have e10 : winAt nrow ncol elev nd 0 0 1 0 = elev[ncol]! := by
    rw [winAt_inside nrow ncol elev nd 0 0 1 0 (by omega)]; simp [h10]
  have e11 : winAt nrow ncol elev nd 0 0 1 1 = elev[ncol + 1]! := by
    rw [winAt_inside nrow ncol elev nd 0 0 1 1 (by omega)]; simp [h11]
  simp only [slopeGx, slopeGy, gradX, gradY, hd, hm]
  rw [ho (-1) (-1) (Or.inl rfl), ho (-1) 0 (Or.inl rfl), ho (-1) 1 (Or.inl rfl), ho 0 (-1) (Or.inr rfl),
    ho 1 (-1) (Or.inr rfl), e01, e10, e11]
  constructor <;> omega

/-- **degenerate rasters (every cell is a border cell).** One row: `gy = 0`, `gx = 2·(W − E)`; one
column: `gx = 0`, `gy = 2·(N − S)`, where W, E, N, S are the window entries (neighbour if inside and
valid, else the centre). -/
theorem slope_single_row (ncol : Nat) (elev : Array Int) (nd : Int) (i : Nat) (hi : i < ncol) :
    slopeGy 1 ncol elev nd i = 0 ∧
    slopeGx 1 ncol elev nd i = 2 * (winAt 1 ncol elev nd 0 i 0 (-1) - winAt 1 ncol elev nd 0 i 0 1) :=
  slope_one_row ncol elev nd i hi

theorem slope_single_col (nrow : Nat) (elev : Array Int) (nd : Int) (i : Nat) :
    slopeGx nrow 1 elev nd i = 0 ∧
    slopeGy nrow 1 elev nd i = 2 * (winAt nrow 1 elev nd i 0 (-1) 0 - winAt nrow 1 elev nd i 0 1 0) :=
  slope_one_col nrow elev nd i

/-- **flat windows have slope 0** (numerators): if the nine window entries are equal, both
finite differences vanish. -/
theorem slope_flat_window (nrow ncol : Nat) (elev : Array Int) (nd : Int) (i : Nat) (v : Int)
    (h : ∀ dr dc, winAt nrow ncol elev nd (i / ncol) (i % ncol) dr dc = v) :
    slopeGx nrow ncol elev nd i = 0 ∧ slopeGy nrow ncol elev nd i = 0 :=
  ⟨gradX_const _ v h, gradY_const _ v h⟩

/-- **flat surfaces have slope 0 everywhere**, whatever the pattern of nodata cells and wherever the
cell lies (edges, corners): if all cells holding a value hold the same value, every cell holding a
value gets `hyp row 0 0`. -/
theorem slope_flat {α : Type} [Inhabited α] (hyp : Nat → Int → Int → α) (ndOut : α) (nrow ncol : Nat)
    (elev : Array Int) (nd v : Int) (hflat : ∀ k, k < nrow * ncol → elev[k]! ≠ nd → elev[k]! = v)
    (i : Nat) (hi : i < nrow * ncol) (hval : elev[i]! ≠ nd) :
    (slopeModel hyp ndOut nrow ncol elev nd)[i]! = hyp (i / ncol) 0 0 := by
  obtain ⟨_, _, hrc⟩ := cell_rc hi
  have hctr : elev[i / ncol * ncol + i % ncol]! = v := by rw [hrc]; exact hflat i hi hval
  have hw : ∀ dr dc, winAt nrow ncol elev nd (i / ncol) (i % ncol) dr dc = v := by
    intro dr dc
    rcases winAt_cases nrow ncol elev nd (i / ncol) (i % ncol) dr dc with h | ⟨k, hk, hkv, h⟩
    · rw [h, hctr]
    · rw [h]; exact hflat k hk hkv
  obtain ⟨hx, hy⟩ := slope_flat_window nrow ncol elev nd i v hw
  rw [slopeModel_get hyp ndOut nrow ncol elev nd i hi, if_pos hval, hx, hy]

/-- **invariance under adding a constant.** If `elev'` is `elev` with `t` added to every cell holding
a value (nodata cells unchanged, no shifted value colliding with the nodata value), the two rasters
have the same slope at every cell. -/
theorem slope_add_const {α : Type} [Inhabited α] (hyp : Nat → Int → Int → α) (ndOut : α) (nrow ncol : Nat)
    (elev elev' : Array Int) (nd t : Int)
    (h' : ∀ k, k < nrow * ncol → elev'[k]! = if elev[k]! = nd then nd else elev[k]! + t)
    (hclash : ∀ k, k < nrow * ncol → elev[k]! ≠ nd → elev[k]! + t ≠ nd)
    (i : Nat) (hi : i < nrow * ncol) :
    (slopeModel hyp ndOut nrow ncol elev' nd)[i]! = (slopeModel hyp ndOut nrow ncol elev nd)[i]! := by
  rw [slopeModel_get hyp ndOut nrow ncol elev' nd i hi, slopeModel_get hyp ndOut nrow ncol elev nd i hi]
  by_cases hv : elev[i]! = nd
  · have : elev'[i]! = nd := by rw [h' i hi, if_pos hv]
    simp [hv, this]
  · have hv' : elev'[i]! ≠ nd := by rw [h' i hi, if_neg hv]; exact hclash i hi hv
    obtain ⟨hr, hc, hrc⟩ := cell_rc hi
    have hctr : elev[i / ncol * ncol + i % ncol]! ≠ nd := by rw [hrc]; exact hv
    have hw : ∀ dr dc, winAt nrow ncol elev' nd (i / ncol) (i % ncol) dr dc =
        winAt nrow ncol elev nd (i / ncol) (i % ncol) dr dc + t :=
      fun dr dc => winAt_shift nrow ncol elev elev' nd t _ _ dr dc hr hc h' hclash hctr
    have hx : slopeGx nrow ncol elev' nd i = slopeGx nrow ncol elev nd i := gradX_shift _ _ t hw
    have hy : slopeGy nrow ncol elev' nd i = slopeGy nrow ncol elev nd i := gradY_shift _ _ t hw
    rw [if_pos hv', if_pos hv, hx, hy]

/-- **the driver's oracle is the model.** Reading the nine cells from the raster padded with one ring
of nodata, replacing nodata by the centre and applying the masks `[1 0 −1; 2 0 −2; 1 0 −1]` /
`[1 2 1; 0 0 0; −1 −2 −1]` gives the same two numerators, for every cell of every raster. -/
theorem slope_spec_eq (nrow ncol : Nat) (elev : Array Int) (nd : Int) (i : Nat) (hi : i < nrow * ncol) :
    slopeSpecGx nrow ncol elev nd i = slopeGx nrow ncol elev nd i ∧
    slopeSpecGy nrow ncol elev nd i = slopeGy nrow ncol elev nd i :=
  slopeSpec_eq nrow ncol elev nd i hi

/-- **model = oracle, whole array (every interior, border and corner cell, every pattern of nodata
neighbours, every raster shape incl. 1×N and N×1).** `dem.slope`'s model is, as an array, the
padded-raster stencil oracle `slopeSpecModel` (ring of nodata around the raster, nodata replaced by the
centre, masks `[1 0 −1; 2 0 −2; 1 0 −1]` / `[1 2 1; 0 0 0; −1 −2 −1]`, nodata where the centre is
nodata), for every `hypot` parameter. -/
theorem slope_model_eq_spec {α : Type} (hyp : Nat → Int → Int → α) (ndOut : α) (nrow ncol : Nat)
    (elev : Array Int) (nd : Int) :
    slopeModel hyp ndOut nrow ncol elev nd = slopeSpecModel hyp ndOut nrow ncol elev nd :=
  slopeModel_eq_specModel hyp ndOut nrow ncol elev nd

/-- **exact `hypot` (projected grids).** When the driver reports `exact = 1` the returned numerator
satisfies `num² = (gx·xn·yd)² + (gy·yn·xd)²`, i.e. `(num/(xd·yd))² = (gx·xn/xd)² + (gy·yn/yd)²`:
the slope is exactly the Euclidean norm of `(dzdx, dzdy)`. -/
theorem hypExact_sound (xn xd yn yd : Int) (row : Nat) (gx gy : Int)
    (h : (hypExact xn xd yn yd row gx gy).2.2 = 1) :
    (hypExact xn xd yn yd row gx gy).1 * (hypExact xn xd yn yd row gx gy).1 =
      (gx * xn * yd) * (gx * xn * yd) + (gy * yn * xd) * (gy * yn * xd) ∧
    (hypExact xn xd yn yd row gx gy).2.1 = xd * yd := by
  have msn : ∀ a : Int, 0 ≤ a * a := fun a => by have := @Int.natAbs_mul_self a; omega
  have hnn : 0 ≤ (gx * xn * yd) * (gx * xn * yd) + (gy * yn * xd) * (gy * yn * xd) :=
    Int.add_nonneg (msn _) (msn _)
  constructor
  · simp only [hypExact] at h ⊢
    split at h
    · rename_i hs
      have := congrArg Int.ofNat hs
      simp only [Int.ofNat_eq_natCast, Int.natCast_mul, Int.toNat_of_nonneg hnn] at this
      exact this
    · exact absurd h (by decide)
  · rfl

/-- flat ⇒ exactly zero on a projected grid. -/
theorem hypExact_zero (xn xd yn yd : Int) (row : Nat) :
    hypExact xn xd yn yd row 0 0 = (0, xd * yd, 1) := by
  simp [hypExact, isqrtNewton, isqrtN]

/-! ## non-vacuity: concrete instances -/

/-- estuary: chain 3→2→1→0 plus a side branch 4→1; the link 2→1 fails (cell 1 becomes 2), 4→1 passes -/
def dsE : Array Nat := #[0, 0, 1, 2, 1, 6]
def seqE : List Nat := [0, 1, 2, 3, 4]
def PE : EstParams := { rivdst := #[0, 4, 8, 12, 8, 0], rivwth := #[80, 60, 60, 50, 40, 0], mcNum := 1, mcDen := 4 }

theorem topoE : Topo dsE seqE := by
  have h0 : Topo dsE ([] ++ [0]) := Topo.snoc Topo.nil (by simp) (Or.inl (by decide))
  have h1 : Topo dsE ([0] ++ [1]) := Topo.snoc h0 (by simp) (Or.inr (by decide))
  have h2 : Topo dsE ([0, 1] ++ [2]) := Topo.snoc h1 (by simp) (Or.inr (by decide))
  have h3 : Topo dsE ([0, 1, 2] ++ [3]) := Topo.snoc h2 (by simp) (Or.inr (by decide))
  exact Topo.snoc h3 (by simp) (Or.inr (by decide))

example : classifyEstuary dsE seqE [0] PE #[0, 5, 5, 5, 5, 0] 0 = #[1, 2, 0, 0, 1, 0] := by decide +kernel
example : classifyEstuary dsE seqE [0] PE #[1, 5, 5, 5, 5, 0] 0 = #[0, 0, 0, 0, 0, 0] := by decide +kernel
example : Est dsE (estCond PE dsE) (estInit 6 [0] #[0, 5, 5, 5, 5, 0] 0) 4 :=
  Est.link 4 (by decide) (by decide) (Est.link 1 (by decide) (by decide) (Est.outlet 0 (by decide)))
example : (List.range 6).map (estSpec dsE (estCond PE dsE) (fun i => i == 0)) = [1, 2, 0, 0, 1, 0] := by
  decide +kernel
/-- tie `dw/dx = min_convergence` fails the (strict) test; `dx = 0` never divides -/
example : estCond { rivdst := #[0, 4], rivwth := #[9, 8], mcNum := 1, mcDen := 4 } #[0, 0] 1 = false := by decide
example : estCond { rivdst := #[4, 4], rivwth := #[9, 8], mcNum := 1, mcDen := 4 } #[0, 0] 1 = false := by decide
example : estCond { rivdst := #[0, 0], rivwth := #[8, 9], mcNum := 1, mcDen := 4 } #[0, 0] 1 = true := by decide

/-- river depth: 4→3→2→1→0, quarter metres; links 1→0 (dx = 2 < K) and pits have no local slope -/
def dsR : Array Nat := #[0, 0, 1, 2, 2, 6]
def seqR : List Nat := [0, 1, 2, 3, 4]
def PR : RdParams := { zs := #[0, 1, 3, 5, 11, 0], rivdst := #[0, 2, 6, 10, 14, 0], K := 4, S := 8,
                        minNum := 1, minDen := 1024 }

theorem topoR : Topo dsR seqR := by
  have h0 : Topo dsR ([] ++ [0]) := Topo.snoc Topo.nil (by simp) (Or.inl (by decide))
  have h1 : Topo dsR ([0] ++ [1]) := Topo.snoc h0 (by simp) (Or.inr (by decide))
  have h2 : Topo dsR ([0, 1] ++ [2]) := Topo.snoc h1 (by simp) (Or.inr (by decide))
  have h3 : Topo dsR ([0, 1, 2] ++ [3]) := Topo.snoc h2 (by simp) (Or.inr (by decide))
  exact Topo.snoc h3 (by simp) (Or.inr (by decide))

example : rivslpLocal dsR PR = #[-79992, -79992, 4, 4, 8, -79992] := by decide +kernel
example : riverExact dsR PR = true := by decide +kernel
/-- cells 0 and 1 (no local slope) take cell 2's slope 4/8; cell 2 keeps its own although 4 → 2 is steeper -/
example : rivslpFinal dsR seqR PR = #[(4, 8), (4, 8), (4, 8), (4, 8), (8, 8), (1, 1024)] := by decide +kernel
example : (List.range 6).map (rivslpSpec dsR PR) = [(2, 4), (2, 4), (2, 4), (2, 4), (8, 8), (1, 1024)] := by
  decide +kernel
example : (riverDepth dsR seqR PR (fun i s => 10 * i + s.1) 3 (-1)).toList = [4, 14, 24, 34, 48, -1] := by decide +kernel

/-- slope: the plane z = 3c + 4r on a 3×4 raster: (gx, gy) = (−24, −32) at the two interior cells
(slope 320/64 = 5: Pythagorean), one-sided differences at the edges; a nodata cell is replaced by the
centre -/
def elevP : Array Int := #[0, 3, 6, 9, 4, 7, 10, 13, 8, 11, 14, 17]
example : (List.range 12).map (slopeGx 3 4 elevP (-9999)) = [-13, -18, -18, -5, -12, -24, -24, -12, -5, -18, -18, -13] := by
  decide +kernel
example : (List.range 12).map (slopeGy 3 4 elevP (-9999)) = [-15, -16, -16, -9, -24, -32, -32, -24, -9, -16, -16, -15] := by
  decide +kernel
example : (slopeModel (hypExact 1 8 1 8) (-9999, 1, 2) 3 4 elevP (-9999))[5]! = (320, 64, 1) := by
  decide +kernel
example : (List.range 12).map (slopeSpecGx 3 4 elevP (-9999)) = (List.range 12).map (slopeGx 3 4 elevP (-9999)) := by
  decide +kernel
example : slopeGx 3 4 (elevP.setIfInBounds 6 (-9999)) (-9999) 5 = -18 := by decide +kernel
example : (slopeModel (hypExact 1 8 1 8) (-9999, 1, 2) 3 4 (elevP.setIfInBounds 6 (-9999)) (-9999))[6]! = (-9999, 1, 2) := by
  decide +kernel
example : (slopeModel (hypExact 1 8 1 8) (-9999, 1, 2) 2 2 #[7, 7, -9999, 7] (-9999))[3]! = (0, 64, 1) := by
  decide +kernel

/-- model = oracle on the estuary network (whole array, through the theorem's own right-hand side) -/
example : (List.range 6).map (fun i => if isValid dsE i then
      estSpec dsE (estCond PE dsE) (fun k => isPit dsE k && decide (#[0, 5, 5, 5, 5, 0][k]! ≤ (0 : Int))) i else 0) =
    (classifyEstuary dsE seqE (pitIndices dsE) PE #[0, 5, 5, 5, 5, 0] 0).toList := by decide +kernel
example : ∀ c, c < 6 → isValid dsE c = true → c ∈ seqE := by decide
example : pitIndices dsE = [0] := by decide

/-- monotone in the discharge: strict on a concrete instance (cell 2: Q 8 → 50), hypotheses met -/
def sqR (s : Int × Int) : Rat := (s.1 : Rat) / (s.2 : Rat)
def manR : Array Rat := #[1, 1, 1, 1, 1, 1]
def wR : Array Rat := #[2, 2, 2, 2, 2, 2]
example : (riverDepth dsR seqR PR (manningPw id sqR Rat.floor manR #[8, 8, 8, 8, 8, 8] wR) 3 (-1)).toList =
    [8, 8, 8, 8, 4, -1] := by decide +kernel
example : (riverDepth dsR seqR PR (manningPw id sqR Rat.floor manR #[8, 8, 50, 8, 8, 8] wR) 3 (-1)).toList =
    [8, 8, 50, 8, 4, -1] := by decide +kernel
example : (riverDepth dsR seqR PR (manningPw id sqR Rat.floor manR #[8, 8, 8, 8, 8, 8] #[2, 2, 8, 2, 2, 2]) 3 (-1)).toList =
    [8, 8, 3, 8, 4, -1] := by decide +kernel
example : (0 : Rat) ≤ sqR (rivslpFinal dsR seqR PR)[2]! * wR[2]! := by decide +kernel

/-- whole-array slope oracle on the plane with a nodata cell -/
example : slopeSpecModel (fun _ gx gy => (gx, gy)) (0, 0) 3 4 (elevP.setIfInBounds 6 (-9999)) (-9999) =
    slopeModel (fun _ gx gy => (gx, gy)) (0, 0) 3 4 (elevP.setIfInBounds 6 (-9999)) (-9999) := by decide +kernel

/-- slope model = oracle as fractions on the river network (model (4,8) vs oracle (2,4)); hypotheses met -/
example : ((List.range 6).all fun j =>
    decide (((rivslpFinal dsR seqR PR)[j]!).1 * (rivslpSpec dsR PR j).2 =
      (rivslpSpec dsR PR j).1 * ((rivslpFinal dsR seqR PR)[j]!).2)) = true := by decide +kernel
example : ∀ c, c < 6 → isValid dsR c = true → c ∈ seqR := by decide
example : -9999 * PR.minDen < PR.minNum ∧ 0 < PR.S ∧ 0 < PR.K ∧ 0 < PR.minDen := by decide

/-- corner / single-row instances -/
example : slopeGx 3 4 elevP (-9999) 0 = 3 * 0 - 2 * 3 - 7 := by decide +kernel
example : (List.range 4).map (slopeGx 1 4 #[5, 1, 9, 2] (-9999)) = [8, -8, -2, 14] ∧
    (List.range 4).map (slopeGy 1 4 #[5, 1, 9, 2] (-9999)) = [0, 0, 0, 0] := by decide +kernel
example : pwTable 2 #[1, 1] #[2, 4] #[10, 11, 20, 21] 1 (4, 8) = 11 ∧ pwTable 2 #[1, 1] #[2, 4] #[10, 11, 20, 21] 1 (2, 4) = 11 := by
  decide +kernel

/-- roughness 1 → 3 at cell 2 (strictly deeper); single column: `gx = 0`, `gy = 2·(N − S)` -/
example : (riverDepth dsR seqR PR (manningPw id sqR Rat.floor #[1, 1, 3, 1, 1, 1] #[8, 8, 8, 8, 8, 8] wR) 3 (-1)).toList =
    [8, 8, 24, 8, 4, -1] := by decide +kernel
example : (List.range 4).map (slopeGy 4 1 #[5, 1, 9, 2] (-9999)) = [8, -8, -2, 14] ∧
    (List.range 4).map (slopeGx 4 1 #[5, 1, 9, 2] (-9999)) = [0, 0, 0, 0] := by decide +kernel

example : coversNet_c14 dsE seqE = true ∧ coversNet_c14 dsR seqR = true := by decide +kernel

/-- monotone in the water-surface drop: `zs'` steepens the links 2→1, 3→2, 4→2 (drops 2,2,8 → 3,4,10; all
divisions exact); every cell uses a larger slope - also cells 0 and 1, which take theirs from cell 2
through `fillnodata` - and the Manning depth does not increase (strictly smaller at cells 0-3) -/
def PR' : RdParams := { PR with zs := #[0, 1, 4, 8, 14, 0] }
example : rivslpFinal dsR seqR PR' = #[(6, 8), (6, 8), (6, 8), (8, 8), (10, 8), (1, 1024)] := by decide +kernel
example : ∀ j, j < 6 → ((rivslpFinal dsR seqR PR)[j]!).1 * ((rivslpFinal dsR seqR PR')[j]!).2 ≤
      ((rivslpFinal dsR seqR PR')[j]!).1 * ((rivslpFinal dsR seqR PR)[j]!).2 ∧
    0 < ((rivslpFinal dsR seqR PR)[j]!).2 ∧ 0 < ((rivslpFinal dsR seqR PR')[j]!).2 := fun j hj =>
  river_slope_mono_zs dsR seqR PR PR' topoR (by decide) (by decide) (by decide) (by decide) rfl rfl rfl rfl rfl
    (by decide +kernel) (by decide +kernel) (by decide +kernel) (by decide +kernel) (by decide +kernel) j hj
example : (riverDepth dsR seqR PR (manningPw id sqR Rat.floor manR #[8, 8, 8, 8, 8, 8] wR) 3 (-1)).toList =
      [8, 8, 8, 8, 4, -1] ∧
    (riverDepth dsR seqR PR' (manningPw id sqR Rat.floor manR #[8, 8, 8, 8, 8, 8] wR) 3 (-1)).toList =
      [5, 5, 5, 4, 3, -1] := by decide +kernel
example : (0 : Rat) < sqR (rivslpFinal dsR seqR PR)[2]! ∧ (0 : Rat) ≤ manR[2]! * (8 : Rat) ∧ (0 : Rat) < wR[2]! := by
  decide +kernel

/-- the theorem applied in full (all hypotheses discharged on the concrete instance): `pow = id`,
`sq = num/den`, `tok = floor` -/
example : (riverDepth dsR seqR PR' (manningPw id sqR Rat.floor manR #[8, 8, 8, 8, 8, 8] wR) 3 (-1))[2]! ≤
    (riverDepth dsR seqR PR (manningPw id sqR Rat.floor manR #[8, 8, 8, 8, 8, 8] wR) 3 (-1))[2]! :=
  river_depth_anti_zs dsR seqR PR PR' id sqR Rat.floor (fun _ _ h => h)
    (fun a _ h => Rat.le_floor_iff.2 (Rat.le_trans (Rat.floor_le a) h))
    (fun s s' h2 h2' h => slope_quotient_mono s s' h2 h2' h) manR #[8, 8, 8, 8, 8, 8] wR 3 (-1)
    topoR (by decide) (by decide) (by decide) (by decide) rfl rfl rfl rfl rfl
    (by decide +kernel) (by decide +kernel) (by decide +kernel) (by decide +kernel) (by decide +kernel)
    2 (by decide) (by decide +kernel) (by decide +kernel) (by decide +kernel)

end Pf.C14x
