import PfVerif.Proofs.C04
import PfVerif.Generated.Tables
/-! # C04 — accumulation equals the sum over the upstream catchment (mass is conserved)

All theorems quantify over every network `ds`, every downstream-first order `seq` (`Topo`, what C03
establishes for the library's orders and what the harness re-checks with `isTopo` on the order the
implementation actually used), every `Int` field (dyadic float fields are scaled to integers), every
nodata value. No bound on sizes or path lengths.

Vocabulary (`Proofs/C04.lean`):
* `Up ds j k`  — `∃ m, iterA ds m k = j`: the flow path of `k` passes through `j` (unbounded `∃`);
* `UpNd ds data nodata j k` — as `Up`, and unless `j = k` no cell on the path from `k` to `j`
  (ends included) holds the nodata value: "cells holding nodata neither receive nor pass on";
* `sumOver n P f` — `Σ_{k < n, P k} f k`.

The code (after `fix: 6e3031f`) tests the INPUT field for nodata, so no hypothesis on partial sums is
needed any more: the excluded point F04 (`data = [-9998,-1,5]`, `nodata = -9999`) is a non-vacuity
example below. -/
namespace Pf.C04
open Pf

/-! ## upstream accumulation -/

/-- **accuflux, general form (with nodata cells)**: every cell of the network ends with the sum of the
field over all cells of the network whose flow path reaches it without meeting a nodata cell (itself
included). -/
theorem accuflux_nodata (ds : Array Nat) (seq : List Nat) (data : Array Int) (nodata : Int)
    (htopo : Topo ds seq) (hb : ∀ i ∈ seq, i < ds.size) (hd : data.size = ds.size)
    (j : Nat) (hj : j ∈ seq) :
    (accuflux ds seq data nodata)[j]! =
      sumOver ds.size (fun k => k ∈ seq ∧ UpNd ds data nodata j k) (fun k => data[k]!) := by
  unfold accuflux
  rw [sweepUp_add_sum ds _ seq htopo ds.size hb data (hd ▸ hb) j hj]
  exact sumOver_congr (fun k _ => and_congr_right fun _ => UpG_linkOk_iff ds data nodata j k)
    (fun _ _ _ => rfl)

/-- **a cell holding nodata receives nothing**: it keeps the nodata value. -/
theorem accuflux_keeps_nodata (ds : Array Nat) (seq : List Nat) (data : Array Int) (nodata : Int)
    (htopo : Topo ds seq) (hb : ∀ i ∈ seq, i < ds.size) (hd : data.size = ds.size)
    (j : Nat) (hnd : data[j]! = nodata) :
    (accuflux ds seq data nodata)[j]! = nodata := by
  unfold accuflux
  rw [sweepUp_add_inv ds _ seq htopo ds.size hb data (hd ▸ hb) j, sumOver_false, hnd]
  · omega
  · rintro k _ ⟨_, hne, hup⟩
    obtain ⟨m, hm, h⟩ := (UpG_linkOk_iff ds data nodata j k).mp hup
    rcases h with h | h
    · subst h; exact hne hm
    · exact h m (Nat.le_refl m) (hm ▸ hnd)

/-- **accuflux = sum over the upstream catchment** (field without nodata cells): the sum of the
field over the cell itself and all cells whose flow path passes through it. -/
theorem accuflux_sum (ds : Array Nat) (seq : List Nat) (data : Array Int) (nodata : Int)
    (htopo : Topo ds seq) (hb : ∀ i ∈ seq, i < ds.size) (hd : data.size = ds.size)
    (hnd : ∀ k ∈ seq, data[k]! ≠ nodata) (j : Nat) (hj : j ∈ seq) :
    (accuflux ds seq data nodata)[j]! =
      sumOver ds.size (fun k => k ∈ seq ∧ Up ds j k) (fun k => data[k]!) := by
  unfold accuflux
  rw [sweepUp_add_sum ds _ seq htopo ds.size hb data (hd ▸ hb) j hj]
  exact sumOver_congr
    (fun k _ => and_congr_right fun hk => UpG_iff_Up htopo (linkOk_of_no_nodata htopo hnd) hk)
    (fun _ _ _ => rfl)

/-- the same in the property's words, for an order that consists of exactly the valid cells (loop-free
network): the sum over the cell itself and all valid cells whose flow path passes through it -/
theorem accuflux_sum_valid (ds : Array Nat) (seq : List Nat) (data : Array Int) (nodata : Int)
    (htopo : Topo ds seq) (hcov : coversValid ds seq = true) (hd : data.size = ds.size)
    (hnd : ∀ k, isValid ds k = true → data[k]! ≠ nodata) (j : Nat) (hj : isValid ds j = true) :
    (accuflux ds seq data nodata)[j]! =
      sumOver ds.size (fun k => isValid ds k = true ∧ Up ds j k) (fun k => data[k]!) := by
  obtain ⟨hv, hb⟩ := coversValid_spec hcov
  have hjn : j < ds.size := by
    simp only [isValid, Bool.and_eq_true, decide_eq_true_eq] at hj; exact hj.1
  rw [accuflux_sum ds seq data nodata htopo hb hd (fun k hk => hnd k ((hv k (hb k hk)).mpr hk)) j
    ((hv j hjn).mp hj)]
  exact sumOver_congr (fun k hk => and_congr_left fun _ => (hv k hk).symm) (fun _ _ _ => rfl)

/-- **cells outside the network** neither receive nor pass on anything: they keep their input value
(and by `accuflux_nodata` they occur in no sum, the sums range over `seq`). -/
theorem accuflux_untouched (ds : Array Nat) (seq : List Nat) (data : Array Int) (nodata : Int)
    (htopo : Topo ds seq) (hb : ∀ i ∈ seq, i < ds.size) (hd : data.size = ds.size)
    (j : Nat) (hj : j ∉ seq) : (accuflux ds seq data nodata)[j]! = data[j]! :=
  sweepUp_add_untouched ds _ seq htopo data (hd ▸ hb) j hj

/-- **the model equals the executable brute-force oracle** (the one the driver evaluates and the harness
compares with the implementation's output): on a loop-free network whose order covers exactly the
valid cells, `accuflux[j]` is the sum of the field over all valid cells from which the Boolean walk
reaches `j`. -/
theorem accuflux_eq_spec (ds : Array Nat) (seq : List Nat) (data : Array Int) (nodata : Int)
    (htopo : Topo ds seq) (hcov : coversValid ds seq = true) (hd : data.size = ds.size)
    (fuel : Nat) (hf : seq.length ≤ fuel) (j : Nat) (hj : j ∈ seq) :
    (accuflux ds seq data nodata)[j]! = catchSumB ds (linkOk ds data nodata) data fuel j := by
  obtain ⟨hv, hb⟩ := coversValid_spec hcov
  unfold accuflux catchSumB
  rw [sweepUp_add_sum ds _ seq htopo ds.size hb data (hd ▸ hb) j hj]
  refine sumOver_bool fun k hk => ?_
  rw [Bool.and_eq_true, hv k hk]
  exact and_congr_right fun hks => reachesG_iff ds _ seq htopo hf hks

/-- **mass conservation, general form**: the totals at the cells that pass nothing on (pits, and cells
whose link is cut by nodata) add up to the total of the field over the network. -/
theorem mass_conserved_nodata (ds : Array Nat) (seq : List Nat) (data : Array Int) (nodata : Int)
    (htopo : Topo ds seq) (hb : ∀ i ∈ seq, i < ds.size) (hd : data.size = ds.size) :
    sumOver ds.size (fun p => p ∈ seq ∧ ¬ (ds[p]! ≠ p ∧ linkOk ds data nodata p = true))
        (fun p => (accuflux ds seq data nodata)[p]!) =
      sumOver ds.size (fun k => k ∈ seq) (fun k => data[k]!) :=
  sweepUp_add_mass ds _ seq htopo ds.size hb data (hd ▸ hb)

/-- **mass conservation**: without nodata cells the totals at the pits add up to the total of the
field over all cells of the network. -/
theorem mass_conserved (ds : Array Nat) (seq : List Nat) (data : Array Int) (nodata : Int)
    (htopo : Topo ds seq) (hb : ∀ i ∈ seq, i < ds.size) (hd : data.size = ds.size)
    (hnd : ∀ k ∈ seq, data[k]! ≠ nodata) :
    sumOver ds.size (fun p => p ∈ seq ∧ ds[p]! = p) (fun p => (accuflux ds seq data nodata)[p]!) =
      sumOver ds.size (fun k => k ∈ seq) (fun k => data[k]!) := by
  rw [← mass_conserved_nodata ds seq data nodata htopo hb hd]
  refine sumOver_congr (fun p _ => and_congr_right fun hp => ?_) (fun _ _ _ => rfl)
  have := linkOk_of_no_nodata htopo hnd p hp
  constructor
  · intro h h2; exact h2.1 h
  · intro h; exact Classical.byContradiction fun hne => h ⟨hne, this⟩

/-- mass conservation in the property's words: totals at the pits = total over all valid cells -/
theorem mass_conserved_valid (ds : Array Nat) (seq : List Nat) (data : Array Int) (nodata : Int)
    (htopo : Topo ds seq) (hcov : coversValid ds seq = true) (hd : data.size = ds.size)
    (hnd : ∀ k, isValid ds k = true → data[k]! ≠ nodata) :
    sumOver ds.size (fun p => isPit ds p = true) (fun p => (accuflux ds seq data nodata)[p]!) =
      sumOver ds.size (fun k => isValid ds k = true) (fun k => data[k]!) := by
  obtain ⟨hv, hb⟩ := coversValid_spec hcov
  have h := mass_conserved ds seq data nodata htopo hb hd (fun k hk => hnd k ((hv k (hb k hk)).mpr hk))
  have hL : sumOver ds.size (fun p => isPit ds p = true) (fun p => (accuflux ds seq data nodata)[p]!) =
      sumOver ds.size (fun p => p ∈ seq ∧ ds[p]! = p) (fun p => (accuflux ds seq data nodata)[p]!) := by
    refine sumOver_congr (fun p hp => ?_) (fun _ _ _ => rfl)
    rw [← hv p hp]
    simp only [isPit, isValid, Bool.and_eq_true, decide_eq_true_eq, beq_iff_eq, bne_iff_ne, ne_eq, hp, true_and]
    constructor
    · intro h; exact ⟨by omega, h⟩
    · intro h; exact h.2
  rw [hL, h]
  exact sumOver_congr (fun k hk => (hv k hk).symm) (fun _ _ _ => rfl)

/-- **monotone downstream, general form**: across every link on which neither cell holds nodata the
accumulation does not decrease, for a field that is non-negative wherever it is not nodata. -/
theorem accu_mono_nodata (ds : Array Nat) (seq : List Nat) (data : Array Int) (nodata : Int)
    (htopo : Topo ds seq) (hb : ∀ i ∈ seq, i < ds.size) (hd : data.size = ds.size)
    (h0 : ∀ k ∈ seq, data[k]! ≠ nodata → 0 ≤ data[k]!)
    (i : Nat) (hi : i ∈ seq) (h1 : data[i]! ≠ nodata) (h2 : data[ds[i]!]! ≠ nodata) :
    (accuflux ds seq data nodata)[i]! ≤ (accuflux ds seq data nodata)[ds[i]!]! := by
  have hok : linkOk ds data nodata i = true := by simp [linkOk, h1, h2]
  refine sweepUp_add_mono ds _ seq htopo data (hd ▸ hb) i hi hok fun k hk hup => h0 k hk ?_
  obtain ⟨m, hm, h⟩ := (UpG_linkOk_iff ds data nodata _ k).mp hup
  rcases h with h | h
  · subst h; exact (show k = ds[i]! from hm) ▸ h2
  · exact h 0 (Nat.zero_le m)

/-- **monotone downstream**: for a non-negative field without nodata cells, `accu i ≤ accu (ds i)`. -/
theorem accu_mono (ds : Array Nat) (seq : List Nat) (data : Array Int) (nodata : Int)
    (htopo : Topo ds seq) (hb : ∀ i ∈ seq, i < ds.size) (hd : data.size = ds.size)
    (hnd : ∀ k ∈ seq, data[k]! ≠ nodata) (h0 : ∀ k ∈ seq, 0 ≤ data[k]!) (i : Nat) (hi : i ∈ seq) :
    (accuflux ds seq data nodata)[i]! ≤ (accuflux ds seq data nodata)[ds[i]!]! :=
  accu_mono_nodata ds seq data nodata htopo hb hd (fun k hk _ => h0 k hk) i hi (hnd i hi)
    (hnd _ (Topo.ds_mem htopo i hi))

/-! ## downstream accumulation -/

/-- **accuflux_ds = sum along the flow path**: if the walk from `i` crosses `m` links that pass flow
(non-pit cell, neither end holds nodata) and then stops (pit, or nodata at either end of the next
link), the result is the sum of the field over the `m+1` cells walked. Without nodata this is the sum
along the flow path from the cell to its pit. -/
theorem accuflux_ds_sum (ds : Array Nat) (seq : List Nat) (data : Array Int) (nodata : Int)
    (htopo : Topo ds seq) (hb : ∀ i ∈ seq, i < ds.size) (hd : data.size = ds.size)
    (m i : Nat) (hi : i ∈ seq)
    (hwalk : ∀ t, t < m → ds[iterA ds t i]! ≠ iterA ds t i ∧ linkOk ds data nodata (iterA ds t i) = true)
    (hend : ¬ (ds[iterA ds m i]! ≠ iterA ds m i ∧ linkOk ds data nodata (iterA ds m i) = true)) :
    (accufluxDs ds seq data nodata)[i]! = sumRange (m+1) (fun t => data[iterA ds t i]!) :=
  sweepDown_add_path ds _ seq htopo data (hd ▸ hb) m i hi hwalk hend

/-- the same, without nodata cells: `m` = number of steps to the pit -/
theorem accuflux_ds_sum_to_pit (ds : Array Nat) (seq : List Nat) (data : Array Int) (nodata : Int)
    (htopo : Topo ds seq) (hb : ∀ i ∈ seq, i < ds.size) (hd : data.size = ds.size)
    (hnd : ∀ k ∈ seq, data[k]! ≠ nodata) (m i : Nat) (hi : i ∈ seq)
    (hwalk : ∀ t, t < m → ds[iterA ds t i]! ≠ iterA ds t i)
    (hpit : ds[iterA ds m i]! = iterA ds m i) :
    (accufluxDs ds seq data nodata)[i]! = sumRange (m+1) (fun t => data[iterA ds t i]!) :=
  accuflux_ds_sum ds seq data nodata htopo hb hd m i hi
    (fun t ht => ⟨hwalk t ht, linkOk_of_no_nodata htopo hnd _ (iterA_mem htopo hi t)⟩)
    (fun h => h.1 hpit)

/-- unconditional form: every cell of the network has such a path to its pit, and `accuflux_ds` is the
sum of the field along it -/
theorem accuflux_ds_sum_exists (ds : Array Nat) (seq : List Nat) (data : Array Int) (nodata : Int)
    (htopo : Topo ds seq) (hb : ∀ i ∈ seq, i < ds.size) (hd : data.size = ds.size)
    (hnd : ∀ k ∈ seq, data[k]! ≠ nodata) (i : Nat) (hi : i ∈ seq) :
    ∃ m, ds[iterA ds m i]! = iterA ds m i ∧ (∀ t, t < m → ds[iterA ds t i]! ≠ iterA ds t i) ∧
      (accufluxDs ds seq data nodata)[i]! = sumRange (m+1) (fun t => data[iterA ds t i]!) := by
  obtain ⟨m, hm, hlt⟩ := reaches_pit htopo i hi
  exact ⟨m, hm, hlt, accuflux_ds_sum_to_pit ds seq data nodata htopo hb hd hnd m i hi hlt hm⟩

/-- the model agrees with the executable walk (the driver's oracle) wherever the walk terminates -/
theorem accuflux_ds_eq_spec (ds : Array Nat) (seq : List Nat) (data : Array Int) (nodata : Int)
    (htopo : Topo ds seq) (hb : ∀ i ∈ seq, i < ds.size) (hd : data.size = ds.size)
    (fuel i : Nat) (v : Int) (hi : i ∈ seq)
    (h : pathSumG ds (linkOk ds data nodata) data fuel i = some v) :
    (accufluxDs ds seq data nodata)[i]! = v :=
  sweepDown_add_eq_pathSum ds _ seq htopo data (hd ▸ hb) fuel i v hi h

/-- cells outside the network keep their input value -/
theorem accuflux_ds_untouched (ds : Array Nat) (seq : List Nat) (data : Array Int) (nodata : Int)
    (htopo : Topo ds seq) (hb : ∀ i ∈ seq, i < ds.size) (hd : data.size = ds.size)
    (j : Nat) (hj : j ∉ seq) : (accufluxDs ds seq data nodata)[j]! = data[j]! :=
  (sweepDown_rec ds _ data seq htopo (hd ▸ hb)).2 j hj

/-! ## upstream area -/

/-- **upstream area reports cells outside the network as nodata** -/
theorem uparea_nodata (ds : Array Nat) (seq : List Nat) (area : Array Int) (nodata : Int)
    (hd : area.size = ds.size) (i : Nat) (hi : i < ds.size) (hinv : isValid ds i = false) :
    (upstreamArea ds seq area nodata)[i]! = nodata := by
  unfold upstreamArea
  rw [get!_maskInvalid _ _ _ _ (by rw [size_accuflux, hd]; exact hi)]
  have : ds[i]! = ds.size := by simpa [isValid, hi] using hinv
  rw [if_pos this]

/-- **upstream area = sum of the cell areas over the upstream catchment** (any area vector without the
nodata value: projected grids pass a constant, geographic grids one value per row, `unit='cell'` ones) -/
theorem uparea_sum (ds : Array Nat) (seq : List Nat) (area : Array Int) (nodata : Int)
    (htopo : Topo ds seq) (hb : ∀ i ∈ seq, i < ds.size) (hd : area.size = ds.size)
    (hval : ∀ k ∈ seq, isValid ds k = true) (hnd : ∀ k ∈ seq, area[k]! ≠ nodata) (j : Nat) (hj : j ∈ seq) :
    (upstreamArea ds seq area nodata)[j]! =
      sumOver ds.size (fun k => k ∈ seq ∧ Up ds j k) (fun k => area[k]!) := by
  unfold upstreamArea
  rw [get!_maskInvalid _ _ _ _ (by rw [size_accuflux, hd]; exact hb j hj)]
  have : ds[j]! ≠ ds.size := by
    have := hval j hj
    simp only [isValid, Bool.and_eq_true, decide_eq_true_eq, bne_iff_ne, ne_eq] at this
    exact this.2
  rw [if_neg this]
  exact accuflux_sum ds seq area nodata htopo hb hd hnd j hj

/-- **any unit** (linearity): if the cell areas in unit 2 are `c` times those in unit 1 (e.g. m2 vs
km2: `c = 10^6`), so is the upstream area of every cell of the network. -/
theorem uparea_unit (ds : Array Nat) (seq : List Nat) (a1 a2 : Array Int) (nd1 nd2 c : Int)
    (htopo : Topo ds seq) (hb : ∀ i ∈ seq, i < ds.size) (hd1 : a1.size = ds.size) (hd2 : a2.size = ds.size)
    (hval : ∀ k ∈ seq, isValid ds k = true)
    (hn1 : ∀ k ∈ seq, a1[k]! ≠ nd1) (hn2 : ∀ k ∈ seq, a2[k]! ≠ nd2)
    (hc : ∀ k ∈ seq, a2[k]! = c * a1[k]!) (j : Nat) (hj : j ∈ seq) :
    (upstreamArea ds seq a2 nd2)[j]! = c * (upstreamArea ds seq a1 nd1)[j]! := by
  rw [uparea_sum ds seq a2 nd2 htopo hb hd2 hval hn2 j hj,
    uparea_sum ds seq a1 nd1 htopo hb hd1 hval hn1 j hj, ← sumOver_mul]
  exact sumOver_congr (fun _ _ => Iff.rfl) (fun k _ h => hc k h.1)

/-- `unit='cell'`: the upstream area is the number of cells of the upstream catchment -/
theorem uparea_cell_count (ds : Array Nat) (seq : List Nat) (area : Array Int) (nodata : Int)
    (htopo : Topo ds seq) (hb : ∀ i ∈ seq, i < ds.size) (hd : area.size = ds.size)
    (hval : ∀ k ∈ seq, isValid ds k = true) (hone : ∀ k ∈ seq, area[k]! = 1) (hnd : nodata ≠ 1)
    (j : Nat) (hj : j ∈ seq) :
    (upstreamArea ds seq area nodata)[j]! =
      sumOver ds.size (fun k => k ∈ seq ∧ Up ds j k) (fun _ => 1) := by
  rw [uparea_sum ds seq area nodata htopo hb hd hval (fun k hk => by rw [hone k hk]; exact Ne.symm hnd) j hj]
  exact sumOver_congr (fun _ _ => Iff.rfl) (fun k _ h => hone k h.1)

/-- **`streams.upstream_area` kernel**: cells of the network get the sum of the row areas over their
upstream catchment; all other cells get the nodata value. -/
theorem uparea_kernel (ds : Array Nat) (seq : List Nat) (ncol : Nat) (rowArea : Array Int) (nodata : Int)
    (htopo : Topo ds seq) (hb : ∀ i ∈ seq, i < ds.size) (j : Nat) (hjn : j < ds.size) :
    (upstreamAreaKernel ds seq ncol rowArea nodata)[j]! =
      if j ∈ seq then sumOver ds.size (fun k => k ∈ seq ∧ Up ds j k) (fun k => rowArea[k / ncol]!)
      else nodata := by
  unfold upstreamAreaKernel
  have hsz : (seq.foldl (fun a idx => a.setIfInBounds idx rowArea[idx / ncol]!)
      (Array.replicate ds.size nodata)).size = ds.size := by
    have : ∀ (l : List Nat) (a : Array Int),
        (l.foldl (fun a idx => a.setIfInBounds idx rowArea[idx / ncol]!) a).size = a.size := by
      intro l; induction l with
      | nil => intro a; rfl
      | cons x l ih => intro a; rw [List.foldl_cons, ih]; simp
    rw [this]; simp
  have hb' : ∀ i ∈ seq, i < (seq.foldl (fun a idx => a.setIfInBounds idx rowArea[idx / ncol]!)
      (Array.replicate ds.size nodata)).size := fun i hi => by rw [hsz]; exact hb i hi
  have hinit : ∀ k, k < ds.size → (seq.foldl (fun a idx => a.setIfInBounds idx rowArea[idx / ncol]!)
      (Array.replicate ds.size nodata))[k]! = if k ∈ seq then rowArea[k / ncol]! else nodata := by
    intro k hk
    rw [get!_foldl_set (fun idx => rowArea[idx / ncol]!)]
    by_cases hks : k ∈ seq
    · simp [hks, hk]
    · simp [hks, hk]
  by_cases hj : j ∈ seq
  · rw [if_pos hj, sweepUp_add_sum ds _ seq htopo ds.size hb _ hb' j hj]
    refine sumOver_congr (fun k _ => and_congr_right fun hk => ?_) (fun k hk h => ?_)
    · exact UpG_iff_Up htopo (fun _ _ => rfl) hk
    · rw [hinit k hk, if_pos h.1]
  · rw [if_neg hj, sweepUp_add_untouched ds _ seq htopo _ hb' j hj, hinit j hjn, if_neg hj]

/-- the catchment sum over `seq` is what the driver's brute-force oracle computes (guard-free walk) -/
theorem catchment_sum_eq_spec (ds : Array Nat) (seq : List Nat) (f : Array Int)
    (htopo : Topo ds seq) (hcov : coversValid ds seq = true) (fuel : Nat) (hf : seq.length ≤ fuel) (j : Nat) :
    sumOver ds.size (fun k => k ∈ seq ∧ Up ds j k) (fun k => f[k]!) =
      catchSumB ds (fun _ => true) f fuel j := by
  obtain ⟨hv, _⟩ := coversValid_spec hcov
  unfold catchSumB
  refine sumOver_bool fun k hk => ?_
  rw [Bool.and_eq_true, hv k hk]
  exact and_congr_right fun hks =>
    (UpG_iff_Up htopo (ok := fun _ => true) (fun _ _ => rfl) hks).symm.trans
      (reachesG_iff ds _ seq htopo hf hks)

/-- **upstream area equals the driver's oracle**: brute-force catchment sum on valid cells, nodata elsewhere -/
theorem uparea_eq_spec (ds : Array Nat) (seq : List Nat) (area : Array Int) (nodata : Int)
    (htopo : Topo ds seq) (hcov : coversValid ds seq = true) (hd : area.size = ds.size)
    (hnd : ∀ k ∈ seq, area[k]! ≠ nodata) (fuel : Nat) (hf : seq.length ≤ fuel) (j : Nat) (hj : j < ds.size) :
    (upstreamArea ds seq area nodata)[j]! =
      if isValid ds j then catchSumB ds (fun _ => true) area fuel j else nodata := by
  obtain ⟨hv, hb⟩ := coversValid_spec hcov
  by_cases hvj : isValid ds j = true
  · rw [if_pos hvj, uparea_sum ds seq area nodata htopo hb hd (fun k hk => (hv k (hb k hk)).mpr hk) hnd j
      ((hv j hj).mp hvj)]
    exact catchment_sum_eq_spec ds seq area htopo hcov fuel hf j
  · rw [if_neg hvj]
    exact uparea_nodata ds seq area nodata hd j hj (by simpa using hvj)

/-- `area_grid`: the cell area depends on the row only (projected grids: a constant row vector) -/
theorem areaGrid_get (nrow ncol : Nat) (rowArea : Array Int) (i : Nat) (hi : i < nrow * ncol) :
    (areaGrid nrow ncol rowArea)[i]! = rowArea[i / ncol]! := by
  simp [areaGrid, getElem!_def, hi]

/-- tie 1: the unit table of the code (`gis_utils.AREA_FACTORS`, regenerated from /repo on every run) is
the SI one: m2 = 1, ha = 10^4 m2, km2 = 10^6 m2, and `cell` counts cells -/
theorem area_factors_table :
    Pf.Generated.areaFactors = [("m2", 1), ("ha", 10000), ("km2", 1000000), ("cell", 1)] ∧
    Pf.Generated.areaFactorsIntegral = true := by decide

/-! ## non-vacuity: concrete networks meet the hypotheses and the conclusions are non-trivial -/

-- cells 2 → 1 → 0 (pit), 3 → 1 (confluence at 1, path length 3), cell 4 outside the network (ds = n)
example : Topo #[0, 0, 1, 1, 5] [0, 1, 2, 3] := by
  have h0 : Topo #[0, 0, 1, 1, 5] [] := Topo.nil
  have h1 : Topo #[0, 0, 1, 1, 5] ([] ++ [0]) := Topo.snoc h0 (by simp) (Or.inl (by decide))
  have h2 : Topo #[0, 0, 1, 1, 5] ([0] ++ [1]) := Topo.snoc h1 (by simp) (Or.inr (by decide))
  have h3 : Topo #[0, 0, 1, 1, 5] ([0, 1] ++ [2]) := Topo.snoc h2 (by simp) (Or.inr (by decide))
  exact Topo.snoc h3 (by simp) (Or.inr (by decide))
example : coversValid #[0, 0, 1, 1, 5] [0, 1, 2, 3] = true := by decide
-- no nodata: catchment sums; the pit total 10 = 1+2+3+4; the outside cell keeps 100
example : accuflux #[0, 0, 1, 1, 5] [0, 1, 2, 3] #[1, 2, 3, 4, 100] (-9999) = #[10, 9, 3, 4, 100] := by decide
example : (List.range 5).map (catchSumB #[0, 0, 1, 1, 5] (linkOk #[0, 0, 1, 1, 5] #[1, 2, 3, 4, 100] (-9999))
    #[1, 2, 3, 4, 100] 5) = [10, 9, 3, 4, 0] := by decide
-- nodata at cell 2: it keeps nodata and passes nothing on; nodata at the confluence 1 cuts 2 and 3 off
example : accuflux #[0, 0, 1, 1, 5] [0, 1, 2, 3] #[1, 2, -9999, 4, 100] (-9999) = #[7, 6, -9999, 4, 100] := by decide
example : accuflux #[0, 0, 1, 1, 5] [0, 1, 2, 3] #[1, -9999, 3, 4, 100] (-9999) = #[1, -9999, 3, 4, 100] := by decide
-- F04 (fixed): a partial sum equal to the nodata value is passed on; mass -9994 = -9998-1+5 arrives at the pit
example : accuflux #[1, 2, 2] [2, 1, 0] #[-9998, -1, 5] (-9999) = #[-9998, -9999, -9994] := by decide
-- downstream accumulation: sums along the path to the pit
example : accufluxDs #[0, 0, 1, 1, 5] [0, 1, 2, 3] #[1, 2, 3, 4, 100] (-9999) = #[1, 3, 6, 7, 100] := by decide
example : accufluxDs #[0, 0, 1, 1, 5] [0, 1, 2, 3] #[1, -9999, 3, 4, 100] (-9999) = #[1, -9999, 3, 4, 100] := by decide
example : pathSumG #[0, 0, 1, 1, 5] (linkOk #[0, 0, 1, 1, 5] #[1, 2, 3, 4, 100] (-9999)) #[1, 2, 3, 4, 100] 6 2 = some 6 := by decide
-- upstream area: cell counts, nodata outside; km2 vs m2 on a 1000 m grid
example : upstreamArea #[0, 0, 1, 1, 5] [0, 1, 2, 3] #[1, 1, 1, 1, 1] (-9999) = #[4, 3, 1, 1, -9999] := by decide
example : upstreamArea #[0, 0, 1, 1, 5] [0, 1, 2, 3] (Array.replicate 5 1000000) (-9999) =
    #[4000000, 3000000, 1000000, 1000000, -9999] := by decide
example : upstreamAreaKernel #[0, 0, 1, 1, 5] [0, 1, 2, 3] 2 #[10, 20, 30] (-1) = #[60, 50, 20, 20, -1] := by decide

end Pf.C04
