import PfVerif.Proofs.C14Up
import PfVerif.Proofs.C14Sum
import PfVerif.Proofs.C14Riv
import PfVerif.Proofs.C14Fuel
import PfVerif.Proofs.C14Down
import PfVerif.Proofs.C14Win
import PfVerif.Proofs.C14Mono
import PfVerif.Proofs.C03Topo
/-! # C14 — along-network operators equal their flow-path definitions

Every theorem quantifies over all networks `ds`, all downstream-first orders `seq` (`Topo`, the
hypothesis C03 establishes and the harness re-checks with `isTopo` on the order actually used), all
fields, masks, windows `n`, merge rules and parameters; no size bounds.
Numbers are exact (`Int`; averages/medians as numerator/denominator pairs). -/
namespace Pf.C14
open Pf

/-! ## downstream, upstream sum -/

/-- **downstream**: each cell of the network gets the value of its downstream cell (a pit its own);
cells outside the network keep their value. -/
theorem downstream_def (ds : Array Nat) (data : Array Int) (i : Nat) (hi : i < ds.size) :
    (downstreamModel ds data)[i]! = if ds[i]! ≠ ds.size then data[ds[i]!]! else data[i]! :=
  downstream_get ds data i hi

/-- **upstream sum** (general form with missing values): at every cell that holds a value and whose
downstream cell (if any) holds a value, the result is the sum over the direct upstream cells that
hold a value. -/
theorem upstream_sum_def (ds : Array Nat) (data : Array Int) (nd : Int) (j : Nat) (hj : j < ds.size)
    (hfix : upstreamSumFixed ds data nd j = true) :
    (upstreamSumModel ds data nd)[j]! = upstreamSumSpec ds data nd j := by
  unfold upstreamSumModel
  rw [upstreamSum_inv ds data nd j hj hfix ds.size]
  rfl

/-- nodata-free fields: the result is the sum over all direct upstream cells, at every cell -/
theorem upstream_sum_nodata_free (ds : Array Nat) (data : Array Int) (nd : Int)
    (hfree : ∀ i : Nat, data[i]! ≠ nd) (j : Nat) (hj : j < ds.size) :
    (upstreamSumModel ds data nd)[j]! = ((inflows ds j).map fun i => data[i]!).sum := by
  rw [upstream_sum_def ds data nd j hj (by simp [upstreamSumFixed, hfree])]
  unfold upstreamSumSpec
  congr 2
  rw [List.filter_eq_self]
  intro i _; simp [hfree]

/-- **upstream sum on its full domain** (fields with missing values included) — exactly what the
loop computes: `0`/`nodata` (nodata iff the cell is *flagged*: it has a downstream cell and one of
the two is empty) plus the values of the inflow cells holding a value, provided the cell itself holds
one; for a flagged cell only the inflow cells with a LARGER index count, because the overwrite with
nodata happens at step `j` of the index-ordered loop (the order dependence observed on the code). -/
theorem upstream_sum_exact (ds : Array Nat) (data : Array Int) (nd : Int) (j : Nat) (hj : j < ds.size) :
    (upstreamSumModel ds data nd)[j]! = upstreamSumExact ds data nd j := by
  obtain ⟨h1, h2⟩ := upstreamSum_inv_full ds data nd j hj ds.size
  have he : upstreamSumExact ds data nd j =
      (if upsumFlagged ds data nd j then nd else 0) + partialUp2 ds data nd j ds.size := rfl
  rw [he]
  unfold upstreamSumModel
  by_cases hf : upsumFlagged ds data nd j = true
  · rw [h1 hf hj, if_pos hf]
  · have hf' : upsumFlagged ds data nd j = false := by simpa using hf
    rw [h2 hf', if_neg hf]; omega

/-- where the result is well defined: a cell that is not flagged gets the sum of its inflow cells
that hold a value (0 if it is empty itself); a flagged cell none of whose later-indexed inflow cells
holds a value gets nodata. Every other cell gets `nodata + (part of the inflow values)`. -/
theorem upstream_sum_welldefined (ds : Array Nat) (data : Array Int) (nd : Int) (j : Nat) (hj : j < ds.size) :
    (upsumFlagged ds data nd j = false →
      (upstreamSumModel ds data nd)[j]! =
        if data[j]! = nd then 0 else upstreamSumSpec ds data nd j) ∧
    (upsumFlagged ds data nd j = true →
      (∀ i ∈ inflows ds j, j < i → data[i]! = nd ∨ data[j]! = nd) →
      (upstreamSumModel ds data nd)[j]! = nd) := by
  rw [upstream_sum_exact ds data nd j hj]
  unfold upstreamSumExact upstreamSumSpec
  constructor
  · intro hf
    by_cases hd : data[j]! = nd
    · have he : ((inflows ds j).filter fun _ => false) = [] := List.filter_eq_nil_iff.2 (by simp)
      simp [hf, hd, he]
    · have hb : (data[j]! != nd) = true := by simpa using hd
      simp [hf, hd, hb]
  · intro hf hall
    have : ((inflows ds j).filter fun i => data[i]! != nd && data[j]! != nd &&
        (!upsumFlagged ds data nd j || decide (j < i))) = [] := by
      rw [List.filter_eq_nil_iff]
      intro i hi
      by_cases hji : j < i
      · rcases hall i hi hji with h | h <;> simp [h]
      · simp [hf, hji]
    rw [this]; simp [hf]

/-! ## nodata filling -/

/-- **fill 'up'**: every empty cell of the network gets the value of the nearest valid cell
downstream (`FirstValid`, a functional relation along the flow path), `nodata` if there is none. -/
theorem fill_up_def (ds : Array Nat) (seq : List Nat) (data : Array Int) (nd : Int)
    (htopo : Topo ds seq) (hb : ∀ i ∈ seq, i < data.size) :
    ∀ i ∈ seq, FirstValid ds data nd i (fillnodataUpstream ds seq data nd)[i]! :=
  fill_first_valid ds data nd seq htopo hb

theorem fill_up_eq_spec (ds : Array Nat) (seq : List Nat) (data : Array Int) (nd : Int)
    (htopo : Topo ds seq) (hb : ∀ i ∈ seq, i < data.size) (fuel : Nat) :
    ∀ i ∈ seq, ∀ v, walkValid ds data nd fuel i = some v → (fillnodataUpstream ds seq data nd)[i]! = v :=
  fill_eq_walk ds data nd seq htopo hb fuel

/-- **full strength of `fill_up_eq_spec`: the oracle never runs out of fuel.** With the fuel the driver
uses (`ds.size + 1`) the walk oracle returns a value at every cell of a downstream-first order whose
cells are in range, and that value is the model's (no hypothesis on the walk). -/
theorem fill_up_eq_spec_total (ds : Array Nat) (seq : List Nat) (data : Array Int) (nd : Int)
    (htopo : Topo ds seq) (hb : ∀ i ∈ seq, i < data.size) (hbd : ∀ i ∈ seq, i < ds.size) :
    ∀ i ∈ seq, walkValid ds data nd (ds.size + 1) i = some (fillnodataUpstream ds seq data nd)[i]! := by
  intro i hi
  obtain ⟨v, hv⟩ := walkValid_total_c14 ds data nd _ i (htopo.reach_size_c14 hbd i hi)
  rw [hv, fill_up_eq_spec ds seq data nd htopo hb _ i hi v hv]

theorem fill_up_outside (ds : Array Nat) (seq : List Nat) (data : Array Int) (nd : Int)
    (htopo : Topo ds seq) (hb : ∀ i ∈ seq, i < data.size) :
    ∀ i, i ∉ seq → (fillnodataUpstream ds seq data nd)[i]! = data[i]! :=
  fill_untouched ds data nd seq htopo hb

/-- **fill 'down'** (recursive flow-path definition, all merge rules). `fillOpt j` is the value cell
`j` holds after the sweep (`none` = still empty; the code's `filled` flag, so that an infilled value
that happens to equal `nodata` is still a value). A cell holding a value keeps it; an empty cell gets
the merge (min/max/sum, ignoring empty branches) of the values of its direct upstream cells, i.e. of
the nearest valid values on each upstream branch; the returned array shows `nodata` for empty cells. -/
theorem fill_down_def (ds : Array Nat) (seq : List Nat) (data : Array Int) (nd : Int) (how : Nat)
    (htopo : Topo ds seq) (hb : ∀ i ∈ seq, i < data.size) (j : Nat) (hj : j < data.size) :
    fillOpt ds seq data nd how j =
      (if data[j]! ≠ nd then some data[j]!
       else mergeBranches how ((kids ds seq j).map fun c => fillOpt ds seq data nd how c)) ∧
    (fillDownModel ds seq data nd how)[j]! = (fillOpt ds seq data nd how j).getD nd :=
  fillDown_rec ds seq data nd how htopo hb j hj

/-- **fill 'down': model = order-free oracle, as arrays (all three merge rules).** The oracle
`fillDownSpec` the driver evaluates does not use the cell order: every cell holding a value walks
downstream (fuel `ds.size + 1`) and is merged - in index order - into each empty cell it meets before
the next cell holding a value. For every network, every downstream-first order that consists of the
cells of the network (the driver reports the executable check `coversNet_c14` as `cover`), every field
of the size of the network and `how ∈ {0 = max, 1 = min, 2 = sum}` the sweep model returns the same
array. (For min/max the filled value is characterised by the frontier form and antisymmetry; for sum
both are the sum over the feeding cells, each once - no walk returns to its start.) -/
theorem fill_down_eq_spec (ds : Array Nat) (seq : List Nat) (data : Array Int) (nd : Int) (how : Nat)
    (hhow : how ≤ 2) (htopo : Topo ds seq) (hb : ∀ i ∈ seq, i < ds.size) (hsz : data.size = ds.size)
    (hcov : coversNet_c14 ds seq = true) :
    fillDownModel ds seq data nd how = fillDownSpec ds data nd how :=
  fillDown_eq_spec_c14 ds seq data nd how hhow htopo hb hsz (coversNet_sound_c14 ds seq hcov)

/-- `min`: the merge of the branch values is a lower bound of the non-empty branches, is attained
by one of them, and is empty exactly when every branch is empty — whatever the arrival order. -/
theorem merge_min_spec (vals : List (Option Int)) :
    (∀ v, some v ∈ vals → ∃ r, mergeBranches 1 vals = some r ∧ r ≤ v) ∧
    (mergeBranches 1 vals = none ↔ ∀ x ∈ vals, x = none) ∧
    (∀ r, mergeBranches 1 vals = some r → some r ∈ vals) :=
  mergeBranches_sel 1 (fun a b => a ≤ b) (fun a => Int.le_refl a) (fun a b c => Int.le_trans)
    (fun x a => by have : mergeHow 1 x a = min x a := by simp [mergeHow]
                   rw [this]; omega)
    (fun x a => by have : mergeHow 1 x a = min x a := by simp [mergeHow]
                   rw [this]; omega) vals

/-- `max`: dual statement -/
theorem merge_max_spec (vals : List (Option Int)) :
    (∀ v, some v ∈ vals → ∃ r, mergeBranches 0 vals = some r ∧ v ≤ r) ∧
    (mergeBranches 0 vals = none ↔ ∀ x ∈ vals, x = none) ∧
    (∀ r, mergeBranches 0 vals = some r → some r ∈ vals) :=
  mergeBranches_sel 0 (fun a b => b ≤ a) (fun a => Int.le_refl a) (fun a b c h1 h2 => Int.le_trans h2 h1)
    (fun x a => by have : mergeHow 0 x a = max x a := by simp [mergeHow]
                   rw [this]; omega)
    (fun x a => by have : mergeHow 0 x a = max x a := by simp [mergeHow]
                   rw [this]; omega) vals

/-- `sum` (full strength, no hypothesis on the values): the merge is the sum of the non-empty
branches, empty iff there is none. (Before fix 49571fc the code tested `data_out == nodata` instead
of a `filled` flag and this failed when a partial sum equalled nodata.) -/
theorem merge_sum_spec (vals : List (Option Int)) :
    mergeBranches 2 vals = if ∀ x ∈ vals, x = none then none else some (somes vals).sum :=
  mergeFold_sum vals none

/-- **fill 'down', min — nearest valid values upstream (frontier form).** `Feeds k j`: `j` is reached
from `k` through empty cells only. The value of a cell is ≤ the value of every nearest valid cell
upstream of it, and it is its own value or the value of one of them; so an empty cell is filled with
exactly their minimum and stays empty iff there is none. -/
theorem fill_down_min_frontier (ds : Array Nat) (seq : List Nat) (data : Array Int) (nd : Int)
    (htopo : Topo ds seq) (hb : ∀ i ∈ seq, i < data.size) :
    (∀ k ∈ seq, data[k]! ≠ nd → ∀ j, Feeds ds data nd k j →
      ∃ r, fillOpt ds seq data nd 1 j = some r ∧ r ≤ data[k]!) ∧
    (∀ j ∈ seq, ∀ r, fillOpt ds seq data nd 1 j = some r →
      (data[j]! ≠ nd ∧ r = data[j]!) ∨
      ∃ k ∈ seq, data[k]! ≠ nd ∧ Feeds ds data nd k j ∧ r = data[k]!) :=
  fillDown_frontier_sel 1 (fun a b => a ≤ b) (fun a => Int.le_refl a) (fun a b c => Int.le_trans)
    (fun x a => by have : mergeHow 1 x a = min x a := by simp [mergeHow]
                   rw [this]; omega)
    (fun x a => by have : mergeHow 1 x a = min x a := by simp [mergeHow]
                   rw [this]; omega) ds seq data nd htopo hb

/-- **fill 'down', max — frontier form** (dual) -/
theorem fill_down_max_frontier (ds : Array Nat) (seq : List Nat) (data : Array Int) (nd : Int)
    (htopo : Topo ds seq) (hb : ∀ i ∈ seq, i < data.size) :
    (∀ k ∈ seq, data[k]! ≠ nd → ∀ j, Feeds ds data nd k j →
      ∃ r, fillOpt ds seq data nd 0 j = some r ∧ data[k]! ≤ r) ∧
    (∀ j ∈ seq, ∀ r, fillOpt ds seq data nd 0 j = some r →
      (data[j]! ≠ nd ∧ r = data[j]!) ∨
      ∃ k ∈ seq, data[k]! ≠ nd ∧ Feeds ds data nd k j ∧ r = data[k]!) :=
  fillDown_frontier_sel 0 (fun a b => b ≤ a) (fun a => Int.le_refl a) (fun a b c h1 h2 => Int.le_trans h2 h1)
    (fun x a => by have : mergeHow 0 x a = max x a := by simp [mergeHow]
                   rw [this]; omega)
    (fun x a => by have : mergeHow 0 x a = max x a := by simp [mergeHow]
                   rw [this]; omega) ds seq data nd htopo hb

/-- a cell ends up holding a value iff it held one or some cell holding a value feeds it (all merge
rules) -/
theorem fill_down_filled_iff (ds : Array Nat) (seq : List Nat) (data : Array Int) (nd : Int) (how : Nat)
    (htopo : Topo ds seq) (hb : ∀ i ∈ seq, i < data.size) (j : Nat) (hj : j ∈ seq) :
    fillOpt ds seq data nd how j ≠ none ↔
      data[j]! ≠ nd ∨ ∃ k ∈ seq, data[k]! ≠ nd ∧ Feeds ds data nd k j :=
  fillOpt_isSome_iff ds seq data nd how htopo hb j hj

/-- **fill 'down', sum — nearest valid values upstream (frontier form).** The value of an empty cell
`j` is the sum of the field over the cells `k` that hold a value and feed `j` (reach it through empty
cells only), every such cell counted exactly once (`sumOver n P f = Σ_{k < n, P k} f k`); the cell
stays empty iff there is no such cell. Proved by identifying the sum fill with C04's guarded
accumulation sweep (field "value or 0", link open iff the downstream cell is empty). -/
theorem fill_down_sum_frontier (ds : Array Nat) (seq : List Nat) (data : Array Int) (nd : Int)
    (htopo : Topo ds seq) (hb : ∀ i ∈ seq, i < data.size) (j : Nat) (hj : j ∈ seq) (hd : data[j]! = nd) :
    ((¬ ∃ k ∈ seq, data[k]! ≠ nd ∧ Feeds ds data nd k j) → fillOpt ds seq data nd 2 j = none) ∧
    ((∃ k ∈ seq, data[k]! ≠ nd ∧ Feeds ds data nd k j) →
      fillOpt ds seq data nd 2 j =
        some (sumOver data.size (fun k => k ∈ seq ∧ data[k]! ≠ nd ∧ Feeds ds data nd k j) (fun k => data[k]!))) :=
  fillDown_sum_frontier ds seq data nd htopo hb j hj hd

/-! ## the window of `moving_average` / `moving_median` -/

/-- **window**: `n` cells down and `n` cells up the main stem around `i`; the downstream part are
the iterates of `ds` as long as the step is allowed (not at a pit, not into a missing cell, not into
a higher stream order), the upstream part the iterates of the main-upstream map until a headwater. -/
theorem window_def (ds usMain : Array Nat) (strord : Option (Array Int)) (n i : Nat) :
    let down := downList ds strord (strord0 strord i) n i
    let up := upList ds usMain n i
    window ds usMain strord n i = up.reverse ++ [i] ++ down ∧
    (∀ m, m < down.length → down[m]! = iterA ds (m+1) i ∧
        downOK ds strord (strord0 strord i) (iterA ds m i) = true) ∧
    down.length ≤ n ∧
    (down.length < n → downOK ds strord (strord0 strord i) (iterA ds down.length i) = false) ∧
    (∀ m, m < up.length → up[m]! = iterA usMain (m+1) i ∧ usMain[iterA usMain m i]! ≠ ds.size) ∧
    up.length ≤ n ∧
    (up.length < n → usMain[iterA usMain up.length i]! = ds.size) := by
  intro down up
  exact ⟨window_eq ds usMain strord n i,
    downList_get ds strord _ n i, (downList_len ds strord _ n i).1, (downList_len ds strord _ n i).2,
    upList_get ds usMain n i, (upList_len ds usMain n i).1, (upList_len ds usMain n i).2⟩

/-- the window equals the iterate-based oracle the driver evaluates (`windowSpec`) -/
theorem window_eq_oracle (ds usMain : Array Nat) (strord : Option (Array Int)) (n i : Nat) :
    window ds usMain strord n i = windowSpec ds usMain strord n i :=
  window_eq_spec ds usMain strord n i

/-- **moving average**: a cell holding a value gets (Σ w·v)/(Σ w) over the window cells holding a
value (`nodata` when Σ w = 0); an empty cell stays empty. -/
theorem moving_average_def (ds usMain : Array Nat) (strord : Option (Array Int)) (data : Array Int)
    (weights : Option (Array Int)) (n : Nat) (nd : Int) (i : Nat) (hi : i < data.size) :
    let cells := (windowSpec ds usMain strord n i).filter fun k => data[k]! != nd
    let v := (cells.map fun k => weightAt weights k * data[k]!).sum
    let w := (cells.map fun k => weightAt weights k).sum
    (movingAverageModel ds usMain strord data weights n nd)[i]! =
      if data[i]! = nd then (nd, 1) else if w ≠ 0 then (v, w) else (nd, 1) := by
  intro cells v w
  simp only [movingAverageModel, hi, getElem!_pos, Array.size_map, Array.size_range, Array.getElem_map,
    Array.getElem_range, movingAverageCell, averageAcc_eq, window_eq_spec]
  rfl

/-- **moving median**: a cell holding a value gets the median of the window values (twice the
median as numerator, 2 as denominator); an empty cell stays empty. -/
theorem moving_median_def (ds usMain : Array Nat) (strord : Option (Array Int)) (data : Array Int)
    (n : Nat) (nd : Int) (i : Nat) (hi : i < data.size) :
    (movingMedianModel ds usMain strord data n nd)[i]! =
      if data[i]! = nd then (nd, 1)
      else (median2 (windowVals data nd (windowSpec ds usMain strord n i)), 2) := by
  simp only [movingMedianModel, hi, getElem!_pos, Array.size_map, Array.size_range, Array.getElem_map,
    Array.getElem_range, movingMedianCell, window_eq_spec]

/-- the median is taken in THE non-decreasing rearrangement `s` of the values: the middle element,
or the mean of the two middle elements -/
theorem median2_def (vals s : List Int) (hperm : s.Perm vals) (hs : s.Pairwise (fun a b => a ≤ b)) :
    median2 vals = if s.length % 2 = 1 then 2 * s[s.length / 2]!
                   else s[s.length / 2 - 1]! + s[s.length / 2]! := by
  unfold median2
  rw [mergeSort_unique vals s hperm hs]

/-! ## stream distance, HAND, floodplains -/

/-- the step length used for `unit='m'` on a projected grid is the exact Euclidean length
`hypot(yres·Δrow, xres·Δcol)` whenever the driver reports the step as exact (always for D8 links on
3×4 cells): it is the non-negative number whose square is the squared length -/
theorem cellDist_exact (ncol : Nat) (xres yres : Int) (i j : Nat)
    (h : cellDistExact ncol xres yres i j = true) :
    0 ≤ cellDist ncol xres yres i j ∧
    cellDist ncol xres yres i j * cellDist ncol xres yres i j = Int.ofNat (cellDist2 ncol xres yres i j) := by
  simp only [cellDistExact, beq_iff_eq] at h
  refine ⟨Int.natCast_nonneg _, ?_⟩
  simp only [cellDist]
  have := congrArg (fun n : Nat => (n : Int)) h
  simpa using this

/-- **the flag `exact` of the stream-distance op is derived for D8 links on 3 × 4 cells**: if the two cells
are at most one row and one column apart and the cell size is 3 by 4 (either sign), the squared step length
is one of 0, 9, 16, 25 and the step is exact - no per-case evaluation needed on such rasters. -/
theorem cellDist_exact_d8 (ncol : Nat) (xres yres : Int) (i j : Nat)
    (hr : (Int.ofNat (j / ncol) - Int.ofNat (i / ncol)).natAbs ≤ 1)
    (hc : (Int.ofNat (j % ncol) - Int.ofNat (i % ncol)).natAbs ≤ 1)
    (hx : xres = 3 ∨ xres = -3) (hy : yres = 4 ∨ yres = -4) :
    cellDistExact ncol xres yres i j = true := by
  unfold cellDistExact cellDist2
  generalize (Int.ofNat (j / ncol) - Int.ofNat (i / ncol)).natAbs = a at hr
  generalize (Int.ofNat (j % ncol) - Int.ofNat (i % ncol)).natAbs = b at hc
  have ha : a = 0 ∨ a = 1 := by omega
  have hb : b = 0 ∨ b = 1 := by omega
  rcases ha with rfl | rfl <;> rcases hb with rfl | rfl <;> rcases hx with rfl | rfl <;>
    rcases hy with rfl | rfl <;> decide

theorem stream_distance_rec (ds : Array Nat) (seq : List Nat) (mask : Option (Array Bool))
    (step : Nat → Nat → Int) (htopo : Topo ds seq) (hb : ∀ i ∈ seq, i < ds.size) (i : Nat) (hi : i ∈ seq) :
    (streamDistanceModel ds seq mask step)[i]! =
      if stopAt_c14 ds mask i then 0 else (streamDistanceModel ds seq mask step)[ds[i]!]! + step i ds[i]! := by
  have h := (sweepDown_rec ds (gDist ds mask step) (initSeq ds.size seq (-9999) 0) seq htopo
    (fun i hi => by rw [initSeq_size]; exact hb i hi)).1 i hi
  unfold streamDistanceModel
  rw [h, initSeq_mem _ _ _ _ i hi (hb i hi)]
  simp only [gDist]
  by_cases hs : stopAt_c14 ds mask i = true
  · simp [hs]
  · have hp : ds[i]! ≠ i := by
      intro hp; simp [stopAt_c14, hp] at hs
    simp [hs, hp]

/-- **stream distance**: the path length from each cell of the network to the next masked cell or
pit (`PathLen`, a functional relation along the flow path). -/
theorem stream_distance_def (ds : Array Nat) (seq : List Nat) (mask : Option (Array Bool))
    (step : Nat → Nat → Int) (htopo : Topo ds seq) (hb : ∀ i ∈ seq, i < ds.size) :
    ∀ i ∈ seq, PathLen ds (stopAt_c14 ds mask) step i (streamDistanceModel ds seq mask step)[i]! := by
  refine htopo.induction _ (fun i hi hd => ?_)
  rw [stream_distance_rec ds seq mask step htopo hb i hi]
  by_cases hs : stopAt_c14 ds mask i = true
  · simp only [hs, if_true]; exact PathLen.stop i hs
  · have hs' : stopAt_c14 ds mask i = false := by simpa using hs
    have hp : ds[i]! ≠ i := by
      intro hp; simp [stopAt_c14, hp] at hs
    simp only [hs', Bool.false_eq_true, if_false]
    exact PathLen.next i _ hs' (hd hp).2

theorem stream_distance_eq_spec (ds : Array Nat) (seq : List Nat) (mask : Option (Array Bool))
    (step : Nat → Nat → Int) (htopo : Topo ds seq) (hb : ∀ i ∈ seq, i < ds.size) (fuel : Nat) :
    ∀ i ∈ seq, ∀ v, walkDist ds mask step fuel i = some v → (streamDistanceModel ds seq mask step)[i]! = v :=
  fun i hi v hv => (stream_distance_def ds seq mask step htopo hb i hi).unique (walkDist_sound ds mask step fuel i v hv)

/-- **full strength of `stream_distance_eq_spec`**: with the driver's fuel the walk oracle returns a
value at every cell of the order and it is the model's. -/
theorem stream_distance_eq_spec_total (ds : Array Nat) (seq : List Nat) (mask : Option (Array Bool))
    (step : Nat → Nat → Int) (htopo : Topo ds seq) (hb : ∀ i ∈ seq, i < ds.size) :
    ∀ i ∈ seq, walkDist ds mask step (ds.size + 1) i = some (streamDistanceModel ds seq mask step)[i]! := by
  intro i hi
  obtain ⟨v, hv⟩ := walkDist_total_c14 ds mask step _ i (htopo.reach_size_c14 hb i hi)
  rw [hv, stream_distance_eq_spec ds seq mask step htopo hb _ i hi v hv]

theorem stream_distance_outside (ds : Array Nat) (seq : List Nat) (mask : Option (Array Bool))
    (step : Nat → Nat → Int) (htopo : Topo ds seq) (hb : ∀ i ∈ seq, i < ds.size) (i : Nat)
    (hi : i ∉ seq) (hn : i < ds.size) : (streamDistanceModel ds seq mask step)[i]! = -9999 := by
  have h := (sweepDown_rec ds (gDist ds mask step) (initSeq ds.size seq (-9999) 0) seq htopo
    (fun i hi => by rw [initSeq_size]; exact hb i hi)).2 i hi
  unfold streamDistanceModel
  rw [h, initSeq_not_mem _ _ _ _ i hi hn]

theorem hand_rec (ds : Array Nat) (seq : List Nat) (drain : Array Bool) (elev : Array Int)
    (htopo : Topo ds seq) (hb : ∀ i ∈ seq, i < ds.size) (i : Nat) (hi : i ∈ seq) :
    (handModel ds seq drain elev)[i]! =
      if drain[i]! = true ∨ ds[i]! = i then 0
      else (handModel ds seq drain elev)[ds[i]!]! + (elev[i]! - elev[ds[i]!]!) := by
  have h := (sweepDown_rec ds (gHand ds drain elev) (initSeq ds.size seq (-9999) 0) seq htopo
    (fun i hi => by rw [initSeq_size]; exact hb i hi)).1 i hi
  unfold handModel
  rw [h, initSeq_mem _ _ _ _ i hi (hb i hi)]
  simp only [gHand]
  by_cases hd : drain[i]! = true
  · simp [hd]
  · by_cases hp : ds[i]! = i
    · simp [hd, hp]
    · simp [hd, hp]

/-- **HAND**: the elevation difference between a cell and the first drainage cell on its downstream
path (the pit, if no drainage cell is met); in particular 0 on drainage cells. -/
theorem hand_def (ds : Array Nat) (seq : List Nat) (drain : Array Bool) (elev : Array Int)
    (htopo : Topo ds seq) (hb : ∀ i ∈ seq, i < ds.size) (i k : Nat) (hi : i ∈ seq)
    (hk : FirstHit ds (fun c => drain[c]!) i k) :
    (handModel ds seq drain elev)[i]! = elev[i]! - elev[k]! := by
  induction hk with
  | here i hs =>
    rw [hand_rec ds seq drain elev htopo hb i hi]
    have : drain[i]! = true ∨ ds[i]! = i := by simpa using hs
    simp [this]
  | next i k hn _ ih =>
    rw [hand_rec ds seq drain elev htopo hb i hi]
    have hn' : ¬ (drain[i]! = true ∨ ds[i]! = i) := by simpa using hn
    rw [if_neg hn', ih (Topo.ds_mem htopo i hi)]
    omega

theorem hand_exists (ds : Array Nat) (seq : List Nat) (drain : Array Bool) (htopo : Topo ds seq) :
    ∀ i ∈ seq, ∃ k, FirstHit ds (fun c => drain[c]!) i k :=
  FirstHit.exists_of_topo htopo _

theorem hand_eq_spec (ds : Array Nat) (seq : List Nat) (drain : Array Bool) (elev : Array Int)
    (htopo : Topo ds seq) (hb : ∀ i ∈ seq, i < ds.size) (i : Nat) (hi : i ∈ seq) (v : Int)
    (hv : handSpec ds drain elev i = some v) : (handModel ds seq drain elev)[i]! = v := by
  simp only [handSpec, Option.map_eq_some_iff] at hv
  obtain ⟨k, hk, rfl⟩ := hv
  exact hand_def ds seq drain elev htopo hb i k hi (walkFirst_sound ds _ _ i k hk)

/-- **full strength of `hand_eq_spec`**: the oracle `handSpec` (walk to the first drainage cell with
fuel `ds.size + 1`) is defined at every cell of the order and equals the model. -/
theorem hand_eq_spec_total (ds : Array Nat) (seq : List Nat) (drain : Array Bool) (elev : Array Int)
    (htopo : Topo ds seq) (hb : ∀ i ∈ seq, i < ds.size) (i : Nat) (hi : i ∈ seq) :
    handSpec ds drain elev i = some (handModel ds seq drain elev)[i]! := by
  obtain ⟨k, hk⟩ := walkFirst_total_c14 ds (fun c => drain[c]!) _ i (htopo.reach_size_c14 hb i hi)
  have hv : handSpec ds drain elev i = some (elev[i]! - elev[k]!) := by simp [handSpec, hk]
  rw [hv, hand_eq_spec ds seq drain elev htopo hb i hi _ hv]

/-! ### floodplains -/

theorem flood_rec (ds : Array Nat) (seq : List Nat) (P : FpParams)
    (htopo : Topo ds seq) (hb : ∀ i ∈ seq, i < ds.size) (i : Nat) (hi : i ∈ seq) :
    (floodState ds seq P)[i]! =
      if isStream P i = true then (1, P.elev[i]!, P.hnum[i]!)
      else if ds[i]! ≠ i ∧ (floodState ds seq P)[ds[i]!]!.1 = 1 ∧
          (P.elev[i]! - (floodState ds seq P)[ds[i]!]!.2.1) * P.hden ≤ (floodState ds seq P)[ds[i]!]!.2.2
        then (1, (floodState ds seq P)[ds[i]!]!.2.1, (floodState ds seq P)[ds[i]!]!.2.2)
        else (0, -9999, -9999) := by
  have h := (sweepDown_rec ds (gFlood P) (initSeq ds.size seq (-1, -9999, -9999) (0, -9999, -9999)) seq htopo
    (fun i hi => by rw [initSeq_size]; exact hb i hi)).1 i hi
  unfold floodState
  rw [h, initSeq_mem _ _ _ _ i hi (hb i hi)]
  simp only [gFlood]
  by_cases hs : isStream P i = true
  · simp [hs]
  · by_cases hp : ds[i]! = i
    · simp [hs, hp]
    · simp [hs, hp]

/-- invariant: the flag is 0 or 1, and a flagged cell carries elevation and threshold of the first
stream cell on its downstream path -/
theorem flood_inv (ds : Array Nat) (seq : List Nat) (P : FpParams)
    (htopo : Topo ds seq) (hb : ∀ i ∈ seq, i < ds.size) :
    ∀ i ∈ seq, ((floodState ds seq P)[i]!.1 = 1 ∨ (floodState ds seq P)[i]!.1 = 0) ∧
      ((floodState ds seq P)[i]!.1 = 1 → ∃ s, FirstHit ds (isStream P) i s ∧ isStream P s = true ∧
        (floodState ds seq P)[i]!.2 = (P.elev[s]!, P.hnum[s]!)) := by
  refine htopo.induction _ (fun i hi hd => ?_)
  rw [flood_rec ds seq P htopo hb i hi]
  by_cases hs : isStream P i = true
  · rw [if_pos hs]
    exact ⟨Or.inl rfl, fun _ => ⟨i, FirstHit.here i (by simp [hs]), hs, rfl⟩⟩
  · rw [if_neg hs]
    split
    · rename_i hc
      obtain ⟨hp, h1, _⟩ := hc
      obtain ⟨s, hs1, hs2, hs3⟩ := (hd hp).2.2 h1
      refine ⟨Or.inl rfl, fun _ => ⟨s, FirstHit.next i s (by simp [hs, hp]) hs1, hs2, ?_⟩⟩
      rw [← hs3]
    · exact ⟨Or.inr rfl, fun h => by simp at h⟩

theorem floodplains_get (ds : Array Nat) (seq : List Nat) (P : FpParams) (i : Nat) (hi : i < ds.size) :
    (floodplainsModel ds seq P)[i]! = (floodState ds seq P)[i]!.1 := by
  have hsz : (floodState ds seq P).size = ds.size := by
    unfold floodState; rw [size_sweepDown, initSeq_size]
  simp [floodplainsModel, hsz, hi]

/-- **floodplain flag**: set exactly for stream cells and for cells whose downstream cell is flagged
and whose height above the first stream cell downstream does not exceed that stream cell's threshold
(`hnum s / hden` = its upstream area raised to `b`); the flag is 0 otherwise. -/
theorem floodplain_def (ds : Array Nat) (seq : List Nat) (P : FpParams)
    (htopo : Topo ds seq) (hb : ∀ i ∈ seq, i < ds.size) (i : Nat) (hi : i ∈ seq) :
    ((floodplainsModel ds seq P)[i]! = 1 ∨ (floodplainsModel ds seq P)[i]! = 0) ∧
    ((floodplainsModel ds seq P)[i]! = 1 ↔
      isStream P i = true ∨
      (ds[i]! ≠ i ∧ (floodplainsModel ds seq P)[ds[i]!]! = 1 ∧
        ∃ s, FirstHit ds (isStream P) ds[i]! s ∧ (P.elev[i]! - P.elev[s]!) * P.hden ≤ P.hnum[s]!)) := by
  have hdm : ds[i]! ∈ seq := Topo.ds_mem htopo i hi
  rw [floodplains_get ds seq P i (hb i hi), floodplains_get ds seq P _ (hb _ hdm)]
  refine ⟨(flood_inv ds seq P htopo hb i hi).1, ?_⟩
  have hinv := (flood_inv ds seq P htopo hb _ hdm).2
  rw [flood_rec ds seq P htopo hb i hi]
  by_cases hs : isStream P i = true
  · simp [hs]
  · simp only [hs, Bool.false_eq_true, if_false, false_or]
    constructor
    · intro h
      split at h
      · rename_i hc
        obtain ⟨hp, h1, h2⟩ := hc
        obtain ⟨s, hs1, _, hs3⟩ := hinv h1
        refine ⟨hp, h1, s, hs1, ?_⟩
        rw [hs3] at h2; exact h2
      · simp at h
    · rintro ⟨hp, h1, s, hs1, hle⟩
      obtain ⟨s', hs1', _, hs3⟩ := hinv h1
      have : s' = s := hs1'.unique hs1
      subst this
      have hc : ds[i]! ≠ i ∧ (floodState ds seq P)[ds[i]!]!.1 = 1 ∧
          (P.elev[i]! - (floodState ds seq P)[ds[i]!]!.2.1) * P.hden ≤ (floodState ds seq P)[ds[i]!]!.2.2 := by
        refine ⟨hp, h1, ?_⟩
        rw [hs3]; exact hle
      rw [if_pos hc]

theorem floodplain_outside (ds : Array Nat) (seq : List Nat) (P : FpParams)
    (htopo : Topo ds seq) (hb : ∀ i ∈ seq, i < ds.size) (i : Nat) (hi : i ∉ seq) (hn : i < ds.size) :
    (floodplainsModel ds seq P)[i]! = -1 := by
  rw [floodplains_get ds seq P i hn]
  have h := (sweepDown_rec ds (gFlood P) (initSeq ds.size seq (-1, -9999, -9999) (0, -9999, -9999)) seq htopo
    (fun i hi => by rw [initSeq_size]; exact hb i hi)).2 i hi
  unfold floodState
  rw [h, initSeq_not_mem _ _ _ _ i hi hn]

/-- the unrolled oracle of the driver (`floodSpec`: walk to the first stream cell `s`, then test
every cell passed on the way against `s`'s threshold) agrees with the model -/
theorem flood_eq_spec (ds : Array Nat) (seq : List Nat) (P : FpParams)
    (htopo : Topo ds seq) (hb : ∀ i ∈ seq, i < ds.size) (i : Nat) (hi : i ∈ seq)
    (hne : floodSpec ds P i ≠ -2) : (floodplainsModel ds seq P)[i]! = floodSpec ds P i := by
  have key : ∀ (fuel i s : Nat), i ∈ seq → walkFirst ds (isStream P) fuel i = some s →
      ((floodplainsModel ds seq P)[i]! = 1 ↔ (isStream P s = true ∧ floodWalk ds P s fuel i = true)) := by
    intro fuel
    induction fuel with
    | zero => intro i s _ h; simp [walkFirst] at h
    | succ f ih =>
      intro i s hi h
      have hdef := (floodplain_def ds seq P htopo hb i hi).2
      simp only [walkFirst] at h
      by_cases hs : (isStream P i || ds[i]! == i) = true
      · simp only [hs, if_true, Option.some.injEq] at h
        subst h
        rw [hdef]
        simp only [floodWalk, if_true, and_true]
        constructor
        · rintro (h | ⟨hp, _⟩)
          · exact h
          · by_cases hst : isStream P i = true
            · exact hst
            · simp [hst, hp] at hs
        · exact Or.inl
      · have hs' : (isStream P i || ds[i]! == i) = false := by simpa using hs
        simp only [hs', Bool.false_eq_true, if_false] at h
        have hst : isStream P i = false := by
          cases h' : isStream P i <;> simp [h'] at hs' ⊢
        have hp : ds[i]! ≠ i := by intro hp; simp [hp] at hs'
        have hfh : FirstHit ds (isStream P) ds[i]! s := walkFirst_sound ds _ f _ s h
        have ihd := ih ds[i]! s (Topo.ds_mem htopo i hi) h
        rw [hdef]
        by_cases hsi : i = s
        · subst hsi
          -- impossible: `s` was found downstream of a non-stream, non-pit cell and is that cell
          constructor
          · rintro (h1 | ⟨_, h1, s', hs1, _⟩)
            · rw [hst] at h1; cases h1
            · have := (ihd.1 h1).1; rw [hst] at this; cases this
          · rintro ⟨h1, _⟩; rw [hst] at h1; cases h1
        · simp only [floodWalk, hsi, if_false, Bool.and_eq_true, decide_eq_true_eq, hst,
            Bool.false_eq_true, false_or]
          constructor
          · rintro ⟨_, h1, s', hs1, hle⟩
            have : s' = s := hs1.unique hfh
            subst this
            obtain ⟨a, b⟩ := ihd.1 h1
            exact ⟨a, hle, b⟩
          · rintro ⟨a, hle, b⟩
            exact ⟨hp, ihd.2 ⟨a, b⟩, s, hfh, hle⟩
  unfold floodSpec at hne ⊢
  cases hw : walkFirst ds (isStream P) (ds.size + 1) i with
  | none => simp [hw] at hne
  | some s =>
    simp only []
    have hk := key (ds.size + 1) i s hi hw
    have h01 := (floodplain_def ds seq P htopo hb i hi).1
    by_cases hc : (isStream P s && floodWalk ds P s (ds.size + 1) i) = true
    · rw [if_pos hc]
      exact hk.2 (by simpa using hc)
    · rw [if_neg hc]
      rcases h01 with h | h
      · exact absurd (by simpa using hk.1 h) hc
      · exact h

/-- the floodplain oracle never reports "fuel exhausted" (`-2`) on a cell of the order … -/
theorem floodSpec_defined (ds : Array Nat) (seq : List Nat) (P : FpParams)
    (htopo : Topo ds seq) (hb : ∀ i ∈ seq, i < ds.size) (i : Nat) (hi : i ∈ seq) :
    floodSpec ds P i ≠ -2 := by
  obtain ⟨s, hs⟩ := walkFirst_total_c14 ds (isStream P) _ i (htopo.reach_size_c14 hb i hi)
  unfold floodSpec
  rw [hs]
  simp only []
  split <;> decide

/-- … **full strength of `flood_eq_spec`**: model = unrolled walk oracle at every cell of every
downstream-first order, no side condition on the oracle. -/
theorem flood_eq_spec_total (ds : Array Nat) (seq : List Nat) (P : FpParams)
    (htopo : Topo ds seq) (hb : ∀ i ∈ seq, i < ds.size) (i : Nat) (hi : i ∈ seq) :
    (floodplainsModel ds seq P)[i]! = floodSpec ds P i :=
  flood_eq_spec ds seq P htopo hb i hi (floodSpec_defined ds seq P htopo hb i hi)

/-! ## smooth_rivlen (not part of the property text; an along-network operator modelled here)

`smoothRivlenModel … = (rivlen_out, flag)`; exact rationals. `inRivWindow ds usMain n idx0 k`: `k` is
`idx0` or one of the ≤ n cells up the main stem / downstream of it (`n = max_window // 2`). -/

/-- cells without a value are never written -/
theorem smooth_rivlen_nodata (ds usMain : Array Nat) (rivlen : Array Rat) (minLen : Rat) (maxWindow : Nat)
    (nd : Rat) (j : Nat) (h : rivlen[j]! = nd) :
    (smoothRivlenModel ds usMain rivlen minLen maxWindow nd).1[j]! = nd := by
  unfold smoothRivlenModel
  rw [smoothFold_frame ds usMain nd minLen (maxWindow / 2) j _ (rivlen, true) (Or.inl h)]
  exact h

/-- a cell that lies in the window of no cell is unchanged -/
theorem smooth_rivlen_frame (ds usMain : Array Nat) (rivlen : Array Rat) (minLen : Rat) (maxWindow : Nat)
    (nd : Rat) (j : Nat) (h : ∀ idx0, idx0 < rivlen.size → ¬ inRivWindow ds usMain (maxWindow / 2) idx0 j) :
    (smoothRivlenModel ds usMain rivlen minLen maxWindow nd).1[j]! = rivlen[j]! := by
  unfold smoothRivlenModel
  exact smoothFold_frame ds usMain nd minLen (maxWindow / 2) j _ (rivlen, true)
    (Or.inr (fun i hi => h i (List.mem_range.1 hi)))

/-- a cell whose length is already ≥ `min_rivlen` and that lies in no OTHER cell's window is unchanged -/
theorem smooth_rivlen_long_cell (ds usMain : Array Nat) (rivlen : Array Rat) (minLen : Rat) (maxWindow : Nat)
    (nd : Rat) (j : Nat) (hge : ¬ (rivlen[j]! < minLen))
    (h : ∀ idx0, idx0 < rivlen.size → idx0 ≠ j → ¬ inRivWindow ds usMain (maxWindow / 2) idx0 j) :
    (smoothRivlenModel ds usMain rivlen minLen maxWindow nd).1[j]! = rivlen[j]! := by
  unfold smoothRivlenModel
  exact smoothFold_frame_ge ds usMain nd minLen (maxWindow / 2) j _ (rivlen, true) hge
    (fun i hi => h i (List.mem_range.1 hi))

/-- `max_window < 4`: the loop `for i in range(1, n)` is empty and nothing is smoothed -/
theorem smooth_rivlen_small_window (ds usMain : Array Nat) (rivlen : Array Rat) (minLen : Rat)
    (maxWindow : Nat) (nd : Rat) (hw : maxWindow < 4) :
    smoothRivlenModel ds usMain rivlen minLen maxWindow nd = (rivlen, true) := by
  unfold smoothRivlenModel
  have hn : maxWindow / 2 ≤ 1 := by omega
  generalize List.range rivlen.size = l
  induction l with
  | nil => rfl
  | cons x l ih => rw [List.foldl_cons, smoothStep_small ds usMain nd minLen _ hn]; exact ih

/-- **the total length is conserved** (exactly, in rationals): provided the windows `core._window(idx0,
max_window//2)` are duplicate-free and in range (true on a loop-free network with a consistent
main-upstream map; both are decidable and reported by the driver per case),
`Σ_j rivlen_out[j] = Σ_j rivlen[j]`. -/
theorem smooth_rivlen_total (ds usMain : Array Nat) (rivlen : Array Rat) (minLen : Rat) (maxWindow : Nat)
    (nd : Rat)
    (hnd : ∀ idx0 < rivlen.size, (window ds usMain none (maxWindow / 2) idx0).Nodup)
    (hb : ∀ idx0 < rivlen.size, ∀ k ∈ window ds usMain none (maxWindow / 2) idx0, k < rivlen.size) :
    totalLen (smoothRivlenModel ds usMain rivlen minLen maxWindow nd).1 = totalLen rivlen := by
  unfold smoothRivlenModel
  exact smoothFold_total ds usMain nd minLen (maxWindow / 2) _ (rivlen, true)
    (fun i hi => ⟨fun i' => rivSlice_nodup ds usMain _ i' i (hnd i (List.mem_range.1 hi)),
      fun k hk => hb i (List.mem_range.1 hi) k ((inRivWindow_iff ds usMain _ i k).1 hk)⟩)

/-! ## fourth stage: the window hypotheses derived from `Topo` + well-formedness

`usMainOK_c14 ds usMain` (executable, the driver's `usmain_ok`): every entry of `idxs_us_main` is the
missing value or an inflow cell of its index. -/

/-- **the cells of `core._window` are pairwise distinct and in range.** For every network, every
downstream-first order whose cells are in range, every well-formed main-stem array, every cell `i` of
the order, every half-width `n` and every stream-order restriction: the window of `i` has no repeated
cell and every cell of it is an index of the network. (Downstream part: each step lowers the distance to
the pit by one; upstream part: each step up the main stem raises it by one; so all distances differ.) -/
theorem window_nodup (ds usMain : Array Nat) (seq : List Nat) (strord : Option (Array Int)) (n i : Nat)
    (htopo : Topo ds seq) (hb : ∀ i ∈ seq, i < ds.size) (hus : usMainOK_c14 ds usMain = true)
    (hi : i ∈ seq) :
    (window ds usMain strord n i).Nodup ∧ ∀ k ∈ window ds usMain strord n i, k < ds.size :=
  window_nodup_inrange_c14 ds usMain seq strord n i htopo hb hus hi

/-- the same for the iterate-based oracle `windowSpec` over which `moving_average_def` /
`moving_median_def` state the result: every cell of the order is averaged over pairwise distinct cells
of the network, each counted once. (Those two theorems carry no per-case window hypothesis.) -/
theorem window_oracle_nodup (ds usMain : Array Nat) (seq : List Nat) (strord : Option (Array Int)) (n i : Nat)
    (htopo : Topo ds seq) (hb : ∀ i ∈ seq, i < ds.size) (hus : usMainOK_c14 ds usMain = true)
    (hi : i ∈ seq) :
    (windowSpec ds usMain strord n i).Nodup ∧ ∀ k ∈ windowSpec ds usMain strord n i, k < ds.size := by
  rw [← window_eq_oracle]
  exact window_nodup ds usMain seq strord n i htopo hb hus hi

/-- an index of the network that the order does not hold, when the order holds every cell of the
network: the cell lies outside the network and its window is the cell alone -/
theorem window_outside (ds usMain : Array Nat) (seq : List Nat) (strord : Option (Array Int)) (n i : Nat)
    (htopo : Topo ds seq) (hus : usMainOK_c14 ds usMain = true)
    (hcov : ∀ c, isValid ds c = true → c ∈ seq) (hi : i < ds.size) (hns : i ∉ seq) :
    window ds usMain strord n i = [i] :=
  window_outside_c14 ds usMain seq strord n i htopo hus hcov hi hns

/-- **the model of `core.main_upstream` returns a well-formed main-stem array on every input** (any
network, any upstream-area field, any threshold): the hypothesis `usMainOK_c14` of the window theorems
holds by construction for the main-stem array the library computes. -/
theorem main_upstream_ok (ds : Array Nat) (uparea : Array Int) (upaMin : Int) :
    usMainOK_c14 ds (mainUpstream ds uparea upaMin) = true :=
  mainUpstream_ok_c14 ds uparea upaMin

/-- **conservation of the total length, window hypothesis discharged** (`smooth_rivlen_total` took
duplicate-free in-range windows as a per-case hypothesis). For every network, every downstream-first
order in range that holds every cell of the network, every well-formed main-stem array and every length
field of the size of the network: `Σ_j rivlen_out[j] = Σ_j rivlen[j]` exactly. -/
theorem smooth_rivlen_total_topo (ds usMain : Array Nat) (seq : List Nat) (rivlen : Array Rat) (minLen : Rat)
    (maxWindow : Nat) (nd : Rat) (htopo : Topo ds seq) (hb : ∀ i ∈ seq, i < ds.size)
    (hus : usMainOK_c14 ds usMain = true) (hcov : ∀ c, isValid ds c = true → c ∈ seq)
    (hsz : rivlen.size = ds.size) :
    totalLen (smoothRivlenModel ds usMain rivlen minLen maxWindow nd).1 = totalLen rivlen := by
  refine smooth_rivlen_total ds usMain rivlen minLen maxWindow nd (fun idx0 h0 => ?_) (fun idx0 h0 k hk => ?_)
  · by_cases hs : idx0 ∈ seq
    · exact (window_nodup ds usMain seq none _ idx0 htopo hb hus hs).1
    · rw [window_outside ds usMain seq none _ idx0 htopo hus hcov (hsz ▸ h0) hs]; simp
  · by_cases hs : idx0 ∈ seq
    · rw [hsz]; exact (window_nodup ds usMain seq none _ idx0 htopo hb hus hs).2 k hk
    · rw [window_outside ds usMain seq none _ idx0 htopo hus hcov (hsz ▸ h0) hs] at hk
      simp only [List.mem_singleton] at hk
      rw [hk]; exact h0

/-- variant without the covering hypothesis: it suffices that the cells the order does not hold carry
no length (whatever their windows look like - e.g. cells on a loop outside the order). -/
theorem smooth_rivlen_total_seq (ds usMain : Array Nat) (seq : List Nat) (rivlen : Array Rat) (minLen : Rat)
    (maxWindow : Nat) (nd : Rat) (htopo : Topo ds seq) (hb : ∀ i ∈ seq, i < ds.size)
    (hus : usMainOK_c14 ds usMain = true) (hsz : rivlen.size = ds.size)
    (hout : ∀ idx0, idx0 < ds.size → idx0 ∉ seq → rivlen[idx0]! = nd) :
    totalLen (smoothRivlenModel ds usMain rivlen minLen maxWindow nd).1 = totalLen rivlen := by
  unfold smoothRivlenModel
  refine smoothFold_total_nd_c14 ds usMain nd minLen (maxWindow / 2) _ (rivlen, true) (fun i hi => ?_)
  have hi' : i < ds.size := hsz ▸ List.mem_range.1 hi
  by_cases hs : i ∈ seq
  · obtain ⟨h1, h2⟩ := window_nodup ds usMain seq none (maxWindow / 2) i htopo hb hus hs
    exact Or.inr ⟨fun i' => rivSlice_nodup ds usMain _ i' i h1,
      fun k hk => by
        show k < rivlen.size
        rw [hsz]; exact h2 k ((inRivWindow_iff ds usMain _ i k).1 hk)⟩
  · exact Or.inl (hout i hi' hs)

/-- **the same with every hypothesis in the executable form the driver reports per case** (`topo` =
`isTopo`, `cover` = `coversNet_c14`, `usmain_ok` = `usMainOK_c14`; `isTopo` is sound by C03): whenever
the three flags are 1 and the field has the size of the network, the total length is conserved. -/
theorem smooth_rivlen_total_checked (ds usMain : Array Nat) (seq : List Nat) (rivlen : Array Rat) (minLen : Rat)
    (maxWindow : Nat) (nd : Rat) (htopo : isTopo ds seq = true) (hcov : coversNet_c14 ds seq = true)
    (hus : usMainOK_c14 ds usMain = true) (hsz : rivlen.size = ds.size) :
    totalLen (smoothRivlenModel ds usMain rivlen minLen maxWindow nd).1 = totalLen rivlen :=
  smooth_rivlen_total_topo ds usMain seq rivlen minLen maxWindow nd (isTopo_sound' ds seq htopo).1
    (isTopo_sound' ds seq htopo).2 hus (coversNet_sound_c14 ds seq hcov) hsz

/-- the flag `nodup` of the driver op (`smooth_rivlen_total`'s old per-case hypothesis) is implied by the
three structural flags: windows of ALL indices of the network are duplicate-free and in range -/
theorem window_nodup_checked (ds usMain : Array Nat) (seq : List Nat) (strord : Option (Array Int)) (n : Nat)
    (htopo : isTopo ds seq = true) (hcov : coversNet_c14 ds seq = true)
    (hus : usMainOK_c14 ds usMain = true) (i : Nat) (hi : i < ds.size) :
    (window ds usMain strord n i).Nodup ∧ ∀ k ∈ window ds usMain strord n i, k < ds.size := by
  obtain ⟨ht, hb⟩ := isTopo_sound' ds seq htopo
  by_cases hs : i ∈ seq
  · exact window_nodup ds usMain seq strord n i ht hb hus hs
  · rw [window_outside ds usMain seq strord n i ht hus (coversNet_sound_c14 ds seq hcov) hi hs]
    exact ⟨by simp, fun k hk => by simp only [List.mem_singleton] at hk; rw [hk]; exact hi⟩

/-! ## fill 'down' is monotone in the field -/

/-- **monotonicity of fill 'down' (all merge rules).** Two fields with the same empty cells and
`data ≤ data'` at every cell holding a value are filled to arrays with `out ≤ out'` at every index
(cells that stay empty show the nodata value in both). Used for the river slope in `C14_riv`. -/
theorem fill_down_mono (ds : Array Nat) (seq : List Nat) (data data' : Array Int) (nd : Int) (how : Nat)
    (htopo : Topo ds seq) (hb : ∀ i ∈ seq, i < data.size) (hsz : data'.size = data.size)
    (hpat : ∀ j, j < data.size → (data[j]! = nd ↔ data'[j]! = nd))
    (hle : ∀ j, j < data.size → data[j]! ≠ nd → data[j]! ≤ data'[j]!) (j : Nat) (hj : j < data.size) :
    (fillDownModel ds seq data nd how)[j]! ≤ (fillDownModel ds seq data' nd how)[j]! :=
  fillDownModel_mono_c14 ds seq data data' nd how htopo hb hsz hpat hle j hj

/-! ## non-vacuity: one concrete network meets every hypothesis and the conclusions are non-trivial

network: 4 → 2 → 1 → 0 (pit), 3 → 1 (confluence at 1), cell 5 missing; main stem 0 ← 1 ← 2 ← 4 -/
def dsX : Array Nat := #[0, 0, 1, 1, 2, 6]
def seqX : List Nat := [0, 1, 2, 3, 4]
def usX : Array Nat := #[1, 2, 4, 6, 6, 6]

theorem topoX : Topo dsX seqX := by
  have h0 : Topo dsX [] := Topo.nil
  have h1 : Topo dsX ([] ++ [0]) := Topo.snoc h0 (by simp) (Or.inl (by decide))
  have h2 : Topo dsX ([0] ++ [1]) := Topo.snoc h1 (by simp) (Or.inr (by decide))
  have h3 : Topo dsX ([0, 1] ++ [2]) := Topo.snoc h2 (by simp) (Or.inr (by decide))
  have h4 : Topo dsX ([0, 1, 2] ++ [3]) := Topo.snoc h3 (by simp) (Or.inr (by decide))
  exact Topo.snoc h4 (by simp) (Or.inr (by decide))
theorem boundX : ∀ i ∈ seqX, i < 6 := by decide

-- downstream / upstream sum
example : downstreamModel dsX #[10, 20, 30, 40, 50, 60] = #[10, 10, 20, 20, 30, 60] := by decide +kernel
example : upstreamSumModel dsX #[1, 2, 3, 4, 5, 6] (-9999) = #[2, 7, 5, 0, 0, 0] := by decide
example : (upstreamSumModel dsX #[1, 2, 3, 4, 5, 6] (-9999))[1]! = 3 + 4 := by
  rw [upstream_sum_def dsX _ _ 1 (by decide) (by decide)]; decide
-- with missing values the statement is restricted to the `fixed` cells: cell 1 holds 2, its downstream
-- cell 0 is empty, and the model (as the code) returns nodata + 3 + 4 there
example : upstreamSumModel dsX #[-9999, 2, 3, 4, 5, 6] (-9999) = #[0, -9992, 5, 0, 0, 0] := by decide
example : upstreamSumExact dsX #[-9999, 2, 3, 4, 5, 6] (-9999) 1 = -9999 + 3 + 4 := by decide
-- the order dependence: 0 → 1 → 3 (pit, empty), 2 → 1. Cell 1 is flagged; inflow 0 (index < 1) is
-- added before the overwrite and lost, inflow 2 (index > 1) is added to nodata afterwards
example : upstreamSumModel #[1, 3, 1, 3] #[5, 1, 2, -9999] (-9999) = #[0, -9997, 0, 0] := by decide
example : upstreamSumExact #[1, 3, 1, 3] #[5, 1, 2, -9999] (-9999) 1 = -9999 + 2 := by decide
-- nodata filling
example : fillnodataUpstream dsX seqX #[-1, 7, -1, -1, -1, -1] (-1) = #[-1, 7, 7, 7, 7, -1] := by decide
example : FirstValid dsX #[-1, 7, -1, -1, -1, -1] (-1) 4 7 := by
  have h := fill_up_def dsX seqX #[-1, 7, -1, -1, -1, -1] (-1) topoX boundX 4 (by decide)
  have e : (fillnodataUpstream dsX seqX #[-1, 7, -1, -1, -1, -1] (-1))[4]! = 7 := by decide
  rwa [e] at h
example : fillDownModel dsX seqX #[-1, -1, -1, 4, 9, -1] (-1) 1 = #[4, 4, 9, 4, 9, -1] := by decide +kernel
example : fillDownModel dsX seqX #[-1, -1, -1, 4, 9, -1] (-1) 0 = #[9, 9, 9, 4, 9, -1] := by decide +kernel
example : fillDownModel dsX seqX #[-1, -1, -1, 4, 9, -1] (-1) 2 = #[13, 13, 9, 4, 9, -1] := by decide +kernel
example : kids dsX seqX 1 = [3, 2] := by decide
example : mergeBranches 2 [some 4, none, some 9] = some 13 := by
  rw [merge_sum_spec]; decide
-- regression for fix 49571fc (the former excluded point): star 1,2,3 → 0, data [nd,5,-3,2], nd = -1.
-- The partial sum 2 + (-3) equals nodata but is a value: the result is 4 (was 5).
example : mergeBranches 2 [some 2, some (-3), some 5] = some 4 := by decide
example : fillDownModel #[0, 0, 0, 0] [0, 1, 2, 3] #[-1, 5, -3, 2] (-1) 2 = #[4, 5, -3, 2] := by decide +kernel
-- a filled value equal to nodata stays a value: 2 + (-3) = -1 = nd at cell 0, and is passed on as such
example : fillOpt #[0, 0, 0] [0, 1, 2] #[-1, 2, -3] (-1) 2 0 = some (-1) := by decide +kernel
-- cell 3 (value 4) feeds cell 0 through the empty cells 1, 0; the min at cell 0 is ≤ its value
example : Feeds dsX #[-1, -1, -1, 4, 9, -1] (-1) 3 0 :=
  Feeds.next 1 (Feeds.step (by decide) (by decide)) (by decide) (by decide)
-- the hypothesis of the second half of `fill_down_sum_frontier` at cell 0 (cell 3 feeds it)
example : ∃ k ∈ seqX, #[-1, -1, -1, 4, 9, -1][k]! ≠ (-1 : Int) ∧ Feeds dsX #[-1, -1, -1, 4, 9, -1] (-1) k 0 :=
  ⟨3, by decide, by decide, Feeds.next 1 (Feeds.step (by decide) (by decide)) (by decide) (by decide)⟩
example : fillOpt dsX seqX #[-1, -1, -1, 4, 9, -1] (-1) 2 0 = some (4 + 9) := by decide +kernel
example : ∃ r, fillOpt dsX seqX #[-1, -1, -1, 4, 9, -1] (-1) 1 0 = some r ∧ r ≤ 4 :=
  (fill_down_min_frontier dsX seqX #[-1, -1, -1, 4, 9, -1] (-1) topoX boundX).1 3 (by decide) (by decide) 0
    (Feeds.next 1 (Feeds.step (by decide) (by decide)) (by decide) (by decide))
-- window: unrestricted, and stopped by a higher stream order at cell 1
example : window dsX usX none 2 2 = [4, 2, 1, 0] := by decide
example : window dsX usX (some #[2, 2, 1, 1, 1, 0]) 2 2 = [4, 2] := by decide
example : windowSpec dsX usX (some #[2, 2, 1, 1, 1, 0]) 2 2 = [4, 2] := by decide
example : (movingAverageModel dsX usX none #[3, -1, 5, 7, 8, 0] none 1 (-1))[2]! = (13, 2) := by
  rw [moving_average_def _ _ _ _ _ _ _ 2 (by decide)]; decide
example : (movingAverageModel dsX usX none #[3, 6, 5, 7, 8, 0] (some #[1, 0, 2, 1, 3, 1]) 1 (-1))[2]! = (34, 5) := by
  rw [moving_average_def _ _ _ _ _ _ _ 2 (by decide)]; decide
example : windowVals #[3, 6, 5, 7, 8, 0] (-1) (windowSpec dsX usX none 1 2) = [8, 5, 6] := by decide
example : median2 [8, 5, 6] = 2 * 6 := by
  rw [median2_def [8, 5, 6] [5, 6, 8] (by decide) (by decide)]; decide
example : median2 [8, 5, 6, 3] = 5 + 6 := by
  rw [median2_def [8, 5, 6, 3] [3, 5, 6, 8] (by decide) (by decide)]; decide
-- stream distance to the masked cell 1 / to the pit; HAND above drain cell 1
example : streamDistanceModel dsX seqX (some #[false, true, false, false, false, false]) (fun _ _ => 1)
    = #[0, 0, 1, 1, 2, -9999] := by decide
example : streamDistanceModel dsX seqX none (cellDist 2 3 (-4)) = #[0, 3, 8, 7, 12, -9999] := by decide
example : PathLen dsX (stopAt_c14 dsX none) (fun _ _ => 1) 4 3 := by
  have h := stream_distance_def dsX seqX none (fun _ _ => 1) topoX boundX 4 (by decide)
  have e : (streamDistanceModel dsX seqX none (fun _ _ => 1))[4]! = 3 := by decide
  rwa [e] at h
example : handModel dsX seqX #[false, true, false, false, false, false] #[0, 3, 5, 9, 6, 0]
    = #[0, 0, 2, 6, 3, -9999] := by decide
example : FirstHit dsX (fun c => #[false, true, false, false, false, false][c]!) 4 1 :=
  walkFirst_sound dsX _ 7 4 1 (by decide)
-- floodplains: streams = cells 0,1 (uparea ≥ 4); thresholds 5 and 2; cell 2 is 2 above cell 1
-- (flagged), cell 3 is 6 above (not), cell 4 is 3 above cell 1 (not, although its downstream cell is)
def PX : FpParams := { elev := #[0, 3, 5, 9, 6, 0], uparea := #[5, 4, 2, 1, 1, 0], upaMin := 4,
                       hnum := #[10, 4, 0, 0, 0, 0], hden := 2 }
example : floodplainsModel dsX seqX PX = #[1, 1, 1, 0, 0, -1] := by decide +kernel
example : (floodplainsModel dsX seqX PX)[2]! = 1 :=
  (floodplain_def dsX seqX PX topoX boundX 2 (by decide)).2.2
    (Or.inr ⟨by decide, by decide +kernel, 1, walkFirst_sound dsX _ 7 1 1 (by decide), by decide⟩)

-- smooth_rivlen on the example network: rivlen [6,1,5,-,2,-], min_rivlen 3, max_window 6 evaluates
-- (`#eval`) to [4, 10/3, 10/3, -, 10/3, -]: cell 1 is averaged with 0 and 2 (→ 4), then cell 4 with
-- 2 and 1 (→ 10/3); the total 14 is conserved, the empty cells 3 and 5 are untouched
example : totalLen (smoothRivlenModel dsX usX #[6, 1, 5, -9999, 2, -9999] 3 6 (-9999)).1 =
    totalLen #[6, 1, 5, -9999, 2, -9999] :=
  smooth_rivlen_total dsX usX _ 3 6 (-9999) (by decide) (by decide)
example : (smoothRivlenModel dsX usX #[6, 1, 5, -9999, 2, -9999] 3 6 (-9999)).1[3]! = -9999 :=
  smooth_rivlen_nodata dsX usX _ 3 6 (-9999) 3 (by decide +kernel)
example : smoothRivlenModel dsX usX #[6, 1, 5, -9999, 2, -9999] 3 3 (-9999) = (#[6, 1, 5, -9999, 2, -9999], true) :=
  smooth_rivlen_small_window dsX usX _ 3 3 (-9999) (by decide)

-- full-strength oracle equalities (`…_eq_spec_total`): the walks are defined on the whole order
example : (seqX.map fun i => walkValid dsX #[-1, 7, -1, -1, -1, -1] (-1) (dsX.size + 1) i) =
    seqX.map fun i => some (fillnodataUpstream dsX seqX #[-1, 7, -1, -1, -1, -1] (-1))[i]! := by decide +kernel
example : (seqX.map fun i => walkDist dsX none (cellDist 2 3 (-4)) (dsX.size + 1) i) =
    [some 0, some 3, some 8, some 7, some 12] := by decide +kernel
example : (seqX.map fun i => handSpec dsX #[false, true, false, false, false, false] #[0, 3, 5, 9, 6, 0] i) =
    seqX.map fun i => some (handModel dsX seqX #[false, true, false, false, false, false] #[0, 3, 5, 9, 6, 0])[i]! := by
  decide +kernel
example : (seqX.map fun i => floodSpec dsX PX i) = [1, 1, 1, 0, 0] := by decide +kernel
example : pitWithin_c14 dsX 3 4 = false ∧ pitWithin_c14 dsX 4 4 = true := by decide

-- model = oracle for fill 'down' (whole arrays, three merge rules); hypotheses met
example : coversNet_c14 dsX seqX = true := by decide +kernel
example : fillDownSpec dsX #[-1, -1, -1, 4, 9, -1] (-1) 2 = #[13, 13, 9, 4, 9, -1] ∧
    fillDownSpec dsX #[-1, -1, -1, 4, 9, -1] (-1) 1 = #[4, 4, 9, 4, 9, -1] ∧
    fillDownSpec dsX #[-1, -1, -1, 4, 9, -1] (-1) 0 = #[9, 9, 9, 4, 9, -1] := by decide +kernel
example : feeders_c14 dsX #[-1, -1, -1, 4, 9, -1] (-1) 0 (List.range 6) = [3, 4] := by decide +kernel

-- fourth stage: the window hypotheses are derived. `usX` is well formed (and is what the model of
-- `main_upstream` returns for the upstream cell counts); the windows are duplicate-free and in range
example : usMainOK_c14 dsX usX = true := by decide
example : mainUpstream dsX #[5, 4, 2, 1, 1, 0] 0 = usX := by decide +kernel
example : isTopo dsX seqX = true := by decide +kernel
example : (window dsX usX none 2 1).Nodup ∧ ∀ k ∈ window dsX usX none 2 1, k < dsX.size :=
  window_nodup dsX usX seqX none 2 1 topoX boundX (by decide) (by decide)
example : window dsX usX none 2 1 = [4, 2, 1, 0] ∧ window dsX usX none 2 5 = [5] := by decide
example : window dsX usX none 3 5 = [5] :=
  window_outside dsX usX seqX none 3 5 topoX (by decide) (coversNet_sound_c14 _ _ (by decide +kernel))
    (by decide) (by decide)
-- conservation without any window hypothesis (compare the example for `smooth_rivlen_total` above)
example : totalLen (smoothRivlenModel dsX usX #[6, 1, 5, -9999, 2, -9999] 3 6 (-9999)).1 =
    totalLen #[6, 1, 5, -9999, 2, -9999] :=
  smooth_rivlen_total_checked dsX usX seqX _ 3 6 (-9999) (by decide +kernel) (by decide +kernel) (by decide)
    (by decide)
-- an order that misses the branch cell 3 (no cover): the cell holds no length, conservation still follows
example : totalLen (smoothRivlenModel dsX usX #[6, 1, 5, -9999, 2, -9999] 3 6 (-9999)).1 =
    totalLen #[6, 1, 5, -9999, 2, -9999] :=
  smooth_rivlen_total_seq dsX usX [0, 1, 2, 4] _ 3 6 (-9999)
    (by
      have h1 : Topo dsX ([] ++ [0]) := Topo.snoc Topo.nil (by simp) (Or.inl (by decide))
      have h2 : Topo dsX ([0] ++ [1]) := Topo.snoc h1 (by simp) (Or.inr (by decide))
      have h3 : Topo dsX ([0, 1] ++ [2]) := Topo.snoc h2 (by simp) (Or.inr (by decide))
      exact Topo.snoc h3 (by simp) (Or.inr (by decide)))
    (by decide) (by decide) (by decide) (by decide +kernel)
-- without a downstream-first order the statement is false: on the 2-cycle 0 <-> 1 (main stem 0 <-> 1) the
-- window of 0 repeats cells
example : usMainOK_c14 #[1, 0] #[1, 0] = true ∧ window #[1, 0] #[1, 0] none 2 0 = [0, 1, 0, 1, 0] := by decide
-- fill 'down' is monotone: raising the two values raises every filled cell (max rule)
example : fillDownModel dsX seqX #[-1, -1, -1, 4, 9, -1] (-1) 0 = #[9, 9, 9, 4, 9, -1] ∧
    fillDownModel dsX seqX #[-1, -1, -1, 12, 10, -1] (-1) 0 = #[12, 12, 10, 12, 10, -1] := by decide +kernel
example : (fillDownModel dsX seqX #[-1, -1, -1, 4, 9, -1] (-1) 0)[1]! ≤
    (fillDownModel dsX seqX #[-1, -1, -1, 12, 10, -1] (-1) 0)[1]! :=
  fill_down_mono dsX seqX #[-1, -1, -1, 4, 9, -1] #[-1, -1, -1, 12, 10, -1] (-1) 0 topoX boundX (by decide)
    (by decide) (by decide) 1 (by decide)

-- D8 steps on 3 x 4 cells are exact: cell 3 -> cell 0 of a 2-column raster is the diagonal of length 5
example : cellDistExact 2 3 (-4) 3 0 = true ∧ cellDist 2 3 (-4) 3 0 = 5 :=
  ⟨cellDist_exact_d8 2 3 (-4) 3 0 (by decide) (by decide) (Or.inl rfl) (Or.inr rfl), by decide⟩

end Pf.C14
