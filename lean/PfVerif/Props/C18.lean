import PfVerif.Proofs.C18
import PfVerif.Proofs.C18Pfaf
import PfVerif.Proofs.C18Digits
import PfVerif.Proofs.C18Part
import PfVerif.Proofs.C18Topo
import PfVerif.Proofs.C18AreaSize
import PfVerif.Proofs.C18Ok
import PfVerif.Proofs.C18PfLoop
import PfVerif.Proofs.C18PfLinkLoop
import PfVerif.Proofs.C18PfRefine
/-! # C18 — sub-basin maps are upstream-closed partitions consistent with their outlets

All theorems quantify over every network `ds`, every downstream-first cell order `seq` (`Topo`,
what C03 establishes and the harness re-checks with `isTopo` on the order actually used), every
order / area field, every threshold and mask; no bound on sizes.

`LabelOK ds isOut labOf i v` (Proofs/C18.lean) is the statement of the property for one cell:
`v = 0` and no outlet lies on the downstream path of `i`, or `v` is the label of the FIRST outlet on
that path. Outlet labels are non-zero, so "unlabelled ⇔ no returned outlet downstream" is the
corollary `…_unlabelled_iff`. -/
namespace Pf.C18
open Pf

/-! ## stream-order sub-basins -/

/-- **outlets**: a cell is returned as an outlet iff it is a cell of the network, is not masked
out, has order `≥ min_sto` and the order changes at the downstream cell (or it is a pit) —
"sub-basins start where the order rises downstream". -/
theorem streamorder_outlets_iff (ds : Array Nat) (seq : List Nat) (strord : Array Int)
    (mask : Option (Array Bool)) (minSto : Int) (o : Nat) :
    o ∈ (subbasinsStreamorder ds seq strord mask minSto).2 ↔
      o ∈ seq ∧ maskAt mask o = true ∧ strord[o]! ≥ soMinSto strord minSto ∧
        (strord[o]! ≠ strord[ds[o]!]! ∨ ds[o]! = o) := by
  unfold subbasinsStreamorder soSeeds
  simp only
  rw [pushFold_filter]
  simp [soIsOutlet, List.mem_filter, and_assoc]

theorem soSeeds_inv (ds : Array Nat) (seq : List Nat) (strord : Array Int)
    (mask : Option (Array Bool)) (m : Int) (htopo : Topo ds seq) (hb : ∀ i ∈ seq, i < ds.size) :
    SeedInv ds.size (soSeeds ds seq strord mask m) := by
  unfold soSeeds
  apply pushFold_inv
  · exact nodup_reverse' htopo.nodup
  · intro x hx; exact ⟨hb x (List.mem_reverse.1 hx), by simp⟩
  · exact SeedInv.init _

/-- **partition**: the `k`-th returned outlet carries the label `k+1`; every cell of the network
carries the label of the first returned outlet on its downstream path, 0 if there is none; cells
outside the network are 0. -/
theorem streamorder_partition (ds : Array Nat) (seq : List Nat) (strord : Array Int)
    (mask : Option (Array Bool)) (minSto : Int) (htopo : Topo ds seq) (hb : ∀ i ∈ seq, i < ds.size) :
    let r := subbasinsStreamorder ds seq strord mask minSto
    (∀ (k o : Nat), r.2[k]? = some o → r.1[o]! = (k : Int) + 1) ∧
    (∀ i ∈ seq, LabelOK ds (· ∈ r.2) (fun o => r.1[o]!) i r.1[i]!) ∧
    (∀ i, i ∉ seq → r.1[i]! = 0) := by
  intro r
  have hsub : ∀ o ∈ r.2, o ∈ seq := fun o ho =>
    ((streamorder_outlets_iff ds seq strord mask minSto o).1 ho).1
  exact fill_seeds_partition ds seq _ htopo hb (soSeeds_inv ds seq strord mask _ htopo hb) hsub

/-- **unlabelled ⇔ no returned outlet downstream** -/
theorem streamorder_unlabelled_iff (ds : Array Nat) (seq : List Nat) (strord : Array Int)
    (mask : Option (Array Bool)) (minSto : Int) (htopo : Topo ds seq) (hb : ∀ i ∈ seq, i < ds.size)
    (i : Nat) (hi : i ∈ seq) :
    let r := subbasinsStreamorder ds seq strord mask minSto
    r.1[i]! = 0 ↔ ∀ m, iterA ds m i ∉ r.2 := by
  intro r
  obtain ⟨h1, h2, _⟩ := streamorder_partition ds seq strord mask minSto htopo hb
  refine (h2 i hi).zero_iff (fun o ho => ?_)
  obtain ⟨k, hk, hko⟩ := List.getElem_of_mem ho
  have : r.2[k]? = some o := by rw [List.getElem?_eq_getElem hk, hko]
  show r.1[o]! ≠ 0
  rw [h1 k o this]; omega

/-- **upstream closed**: a cell of the network that is not a returned outlet carries the label of
its downstream cell. -/
theorem streamorder_upstream_closed (ds : Array Nat) (seq : List Nat) (strord : Array Int)
    (mask : Option (Array Bool)) (minSto : Int) (htopo : Topo ds seq) (hb : ∀ i ∈ seq, i < ds.size)
    (j : Nat) (hj : j ∈ seq) :
    let r := subbasinsStreamorder ds seq strord mask minSto
    j ∉ r.2 → r.1[j]! = r.1[ds[j]!]! := by
  intro r hout
  obtain ⟨_, h2, _⟩ := streamorder_partition ds seq strord mask minSto htopo hb
  exact ((h2 j hj).step_down hout).unique (h2 _ (htopo.ds_mem j hj))

/-- **order rises downstream**: for an order field that never decreases downstream (Strahler), a
returned outlet that is not a pit has a strictly higher order at its downstream cell. -/
theorem streamorder_rises (ds : Array Nat) (seq : List Nat) (strord : Array Int)
    (mask : Option (Array Bool)) (minSto : Int) (o : Nat)
    (ho : o ∈ (subbasinsStreamorder ds seq strord mask minSto).2) (hnp : ds[o]! ≠ o)
    (hmono : strord[o]! ≤ strord[ds[o]!]!) : strord[o]! < strord[ds[o]!]! := by
  have h := ((streamorder_outlets_iff ds seq strord mask minSto o).1 ho).2.2.2
  rcases h with h | h
  · omega
  · exact absurd h hnp

/-- the declarative outlet set the harness compares the implementation with (`soOutletSpec`, no
cell order involved) is the model's outlet set whenever `seq` holds exactly the cells of the network -/
theorem streamorder_spec_agrees (ds : Array Nat) (seq : List Nat) (strord : Array Int)
    (mask : Option (Array Bool)) (minSto : Int) (hseq : ∀ o, o ∈ seq ↔ isValid ds o = true) (o : Nat) :
    o ∈ (subbasinsStreamorder ds seq strord mask minSto).2 ↔ o ∈ soOutletSpec ds strord mask minSto := by
  rw [streamorder_outlets_iff, hseq]
  unfold soOutletSpec
  simp only [List.mem_filter, List.mem_range, Bool.and_eq_true, decide_eq_true_eq, Bool.or_eq_true,
    beq_iff_eq, bne_iff_ne, ne_eq]
  constructor
  · rintro ⟨hv, hm, hs, hc⟩
    have hlt : o < ds.size := by
      simp only [isValid, Bool.and_eq_true, decide_eq_true_eq] at hv; exact hv.1
    refine ⟨hlt, ⟨⟨hv, hm⟩, hs⟩, ?_⟩
    rcases hc with hc | hc
    · exact Or.inr (fun h => hc h.symm)
    · exact Or.inl hc
  · rintro ⟨_, ⟨⟨hv, hm⟩, hs⟩, hc⟩
    refine ⟨hv, hm, hs, ?_⟩
    rcases hc with hc | hc
    · exact Or.inr hc
    · exact Or.inl (fun h => hc h.symm)

/-! ## minimum-area sub-basins -/

theorem areaDec_imp (ds usMain : Array Nat) (uparea : Array Int) (amin : Int) (s : Array Int)
    (x : Nat) (h : areaDec ds usMain uparea amin s x = true) :
    ds[x]! = x ∨ uparea[x]! > amin := by
  unfold areaDec at h
  simp only at h
  by_cases hp : ds[x]! = x
  · exact Or.inl hp
  · rw [if_neg hp] at h
    split at h
    · rename_i hc; exact Or.inr hc.2
    · cases h

/-- **outlets are pits or exceed the threshold**: every returned outlet is a cell of the network
and is a pit or has upstream area `> area_min`. -/
theorem area_outlet_gt (ds : Array Nat) (seq : List Nat) (usMain : Array Nat) (uparea : Array Int)
    (amin : Int) (o : Nat) (ho : o ∈ (subbasinsArea ds seq usMain uparea amin).2) :
    o ∈ seq ∧ (ds[o]! = o ∨ uparea[o]! > amin) := by
  unfold subbasinsArea areaSeeds at ho
  simp only at ho
  rcases pushFold_mem _ _ (fun x => ds[x]! = x ∨ uparea[x]! > amin)
    (areaDec_imp ds usMain uparea amin) seq _ o ho with h | h
  · simp at h
  · exact h

theorem areaDec_main (ds usMain : Array Nat) (uparea : Array Int) (amin : Int) (s : Array Int)
    (x : Nat) (h : areaDec ds usMain uparea amin s x = true) :
    ds[x]! = x ∨ usMain[ds[x]!]! ≠ x ∨ uparea[ds[x]!]! - uparea[x]! ≤ amin := by
  unfold areaDec at h
  simp only at h
  by_cases hp : ds[x]! = x
  · exact Or.inl hp
  · rw [if_neg hp] at h
    split at h
    · simp only [Bool.or_eq_true, Bool.not_eq_true', decide_eq_false_iff_not, bne_iff_ne, ne_eq] at h
      rcases h with h | h
      · exact Or.inr (Or.inr (by omega))
      · exact Or.inr (Or.inl h)
    · cases h

/-- **a main-stem cut leaves no large tributary behind**: an outlet that is the main upstream cell
of its downstream cell `d` is only created when everything else draining to `d` (the cell itself
and its tributaries) is at most `area_min` (`not conf`). One of the ingredients of the size clause. -/
theorem area_main_cut_small_rest (ds : Array Nat) (seq : List Nat) (usMain : Array Nat)
    (uparea : Array Int) (amin : Int) (o : Nat) (ho : o ∈ (subbasinsArea ds seq usMain uparea amin).2)
    (hnp : ds[o]! ≠ o) (hmain : usMain[ds[o]!]! = o) : uparea[ds[o]!]! - uparea[o]! ≤ amin := by
  unfold subbasinsArea areaSeeds at ho
  simp only at ho
  rcases pushFold_mem _ _
      (fun x => ds[x]! = x ∨ usMain[ds[x]!]! ≠ x ∨ uparea[ds[x]!]! - uparea[x]! ≤ amin)
      (areaDec_main ds usMain uparea amin) seq _ o ho with h | h
  · simp at h
  · rcases h.2 with h1 | h1 | h1
    · exact absurd h1 hnp
    · exact absurd hmain h1
    · exact h1

/-- **every pit is an outlet** (so every cell of the network is labelled) -/
theorem area_pits_outlets (ds : Array Nat) (seq : List Nat) (usMain : Array Nat) (uparea : Array Int)
    (amin : Int) (p : Nat) (hp : p ∈ seq) (hpit : ds[p]! = p) :
    p ∈ (subbasinsArea ds seq usMain uparea amin).2 := by
  unfold subbasinsArea areaSeeds
  simp only
  apply pushFold_mem_of_dec _ _ seq _ p hp
  intro s
  simp [areaDec, hpit]

theorem areaSeeds_inv (ds : Array Nat) (seq : List Nat) (usMain : Array Nat) (uparea : Array Int)
    (amin : Int) (htopo : Topo ds seq) (hb : ∀ i ∈ seq, i < ds.size) :
    SeedInv ds.size (areaSeeds ds seq usMain uparea amin) := by
  unfold areaSeeds
  apply pushFold_inv
  · exact htopo.nodup
  · intro x hx; exact ⟨hb x hx, by simp⟩
  · exact SeedInv.init _

/-- **partition** (as for the stream-order method) -/
theorem area_partition (ds : Array Nat) (seq : List Nat) (usMain : Array Nat) (uparea : Array Int)
    (amin : Int) (htopo : Topo ds seq) (hb : ∀ i ∈ seq, i < ds.size) :
    let r := subbasinsArea ds seq usMain uparea amin
    (∀ (k o : Nat), r.2[k]? = some o → r.1[o]! = (k : Int) + 1) ∧
    (∀ i ∈ seq, LabelOK ds (· ∈ r.2) (fun o => r.1[o]!) i r.1[i]!) ∧
    (∀ i, i ∉ seq → r.1[i]! = 0) := by
  intro r
  have hsub : ∀ o ∈ r.2, o ∈ seq := fun o ho => (area_outlet_gt ds seq usMain uparea amin o ho).1
  exact fill_seeds_partition ds seq _ htopo hb (areaSeeds_inv ds seq usMain uparea amin htopo hb) hsub

/-- **every cell of the network is labelled** by the area method (its pit is an outlet) … -/
theorem area_unlabelled_iff (ds : Array Nat) (seq : List Nat) (usMain : Array Nat) (uparea : Array Int)
    (amin : Int) (htopo : Topo ds seq) (hb : ∀ i ∈ seq, i < ds.size) (i : Nat) (hi : i ∈ seq) :
    let r := subbasinsArea ds seq usMain uparea amin
    r.1[i]! = 0 ↔ ∀ m, iterA ds m i ∉ r.2 := by
  intro r
  obtain ⟨h1, h2, _⟩ := area_partition ds seq usMain uparea amin htopo hb
  refine (h2 i hi).zero_iff (fun o ho => ?_)
  obtain ⟨k, hk, hko⟩ := List.getElem_of_mem ho
  have : r.2[k]? = some o := by rw [List.getElem?_eq_getElem hk, hko]
  show r.1[o]! ≠ 0
  rw [h1 k o this]; omega

/-- **upstream closed** (area method) -/
theorem area_upstream_closed (ds : Array Nat) (seq : List Nat) (usMain : Array Nat) (uparea : Array Int)
    (amin : Int) (htopo : Topo ds seq) (hb : ∀ i ∈ seq, i < ds.size) (j : Nat) (hj : j ∈ seq) :
    let r := subbasinsArea ds seq usMain uparea amin
    j ∉ r.2 → r.1[j]! = r.1[ds[j]!]! := by
  intro r hout
  obtain ⟨_, h2, _⟩ := area_partition ds seq usMain uparea amin htopo hb
  exact ((h2 j hj).step_down hout).unique (h2 _ (htopo.ds_mem j hj))

/-- **size clause at algorithm level** ("area-based sub-basins that do not end at a pit are larger
than the threshold"): for every network, every downstream-first order `seq` that is sorted by the
distance to the pit (`rk`; both `order_cells` methods produce such an order, and the loop needs it:
with an arbitrary downstream-first order the clause is false), every main-upstream map `usMain` (any
choice of one inflowing cell per cell, or none), and every upstream-area field that is the
accumulation of non-negative cell areas over the cells of `seq`
(`uparea[d] = area[d] + Σ_{c ∈ seq, ds c = d, c ≠ d} uparea[c]`, `csum` = conditional sum over a list),
the total cell area carrying the label of a returned outlet that is not a pit exceeds `area_min`.
Proof: loop invariant of `areaSeeds` (Proofs/C18AreaInv.lean, C18AreaStep.lean: `upa_out` of a cell
whose inflowing cells are being processed is bounded above by the area its sub-basin would have if
the loop stopped now and below by what is left of its own catchment; the big cells of a sub-basin
form a chain), then `Σ area over the label = uparea[o] - Σ uparea of the outlets directly upstream`
(Proofs/C18AreaSize.lean). -/
theorem area_size (ds : Array Nat) (seq : List Nat) (usMain : Array Nat) (uparea area : Array Int)
    (amin : Int) (rk : Nat → Nat)
    (htopo : Topo ds seq) (hb : ∀ i ∈ seq, i < ds.size) (hus : usMainOK ds usMain = true)
    (hsz : uparea.size = ds.size)
    (hrk : ∀ i ∈ seq, ds[i]! ≠ i → rk i = rk ds[i]! + 1)
    (hsorted : seq.Pairwise (fun x y => rk x ≤ rk y))
    (ha0 : ∀ i ∈ seq, 0 ≤ area[i]!)
    (hacc : ∀ d ∈ seq, uparea[d]! = area[d]! +
      csum (fun c => decide (ds[c]! = d ∧ c ≠ d)) (fun c => uparea[c]!) seq) :
    let r := subbasinsArea ds seq usMain uparea amin
    ∀ o ∈ r.2, ds[o]! ≠ o → labelArea area r.1 r.1[o]! > amin := by
  intro r
  obtain ⟨h1, _, h3⟩ := area_partition ds seq usMain uparea amin htopo hb
  have hlab : ∀ o ∈ r.2, ∃ k : Nat, r.2[k]? = some o ∧ r.1[o]! = (k : Int) + 1 := by
    intro o ho
    obtain ⟨k, hk, hko⟩ := List.getElem_of_mem ho
    have : r.2[k]? = some o := by rw [List.getElem?_eq_getElem hk, hko]
    exact ⟨k, this, h1 k o this⟩
  have hsize : r.1.size = ds.size := by
    show (fillnodataUpstream ds seq (areaSeeds ds seq usMain uparea amin).1 0).size = ds.size
    simp [fillnodataUpstream, (areaSeeds_inv ds seq usMain uparea amin htopo hb).size]
  exact area_size_of_labels ds usMain uparea area amin seq rk htopo hb hus hsz hrk hsorted ha0 hacc
    r.1 hsize h3
    (fun x hx hxo => area_upstream_closed ds seq usMain uparea amin htopo hb x hx hxo)
    (fun o ho o' ho' heq => by
      obtain ⟨k, hk, hl⟩ := hlab o ho
      obtain ⟨k', hk', hl'⟩ := hlab o' ho'
      rw [hl, hl'] at heq
      have : k = k' := by omega
      subst this
      rw [hk] at hk'
      exact Option.some.inj hk')
    (fun o ho => by
      obtain ⟨k, _, hl⟩ := hlab o ho
      rw [hl]; omega)

/-- size clause under the executable hypotheses the op `c18_area` reports (`topo`, `rank_sorted`, `usok`) -/
theorem area_size_of_check (ds : Array Nat) (seq : List Nat) (usMain : Array Nat) (uparea area : Array Int)
    (amin : Int) (htopo : isTopo ds seq = true) (hord : rankOrderOK ds seq = true)
    (hus : usMainOK ds usMain = true) (hsz : uparea.size = ds.size)
    (ha0 : ∀ i ∈ seq, 0 ≤ area[i]!)
    (hacc : ∀ d ∈ seq, uparea[d]! = area[d]! +
      csum (fun c => decide (ds[c]! = d ∧ c ≠ d)) (fun c => uparea[c]!) seq) :
    let r := subbasinsArea ds seq usMain uparea amin
    ∀ o ∈ r.2, ds[o]! ≠ o → labelArea area r.1 r.1[o]! > amin :=
  area_size ds seq usMain uparea area amin (fun i => (seqRanks ds seq)[i]!)
    (isTopo_sound ds seq htopo).1 (isTopo_sound ds seq htopo).2 hus hsz
    (rankOrderOK_sound ds seq hord).1 (rankOrderOK_sound ds seq hord).2 ha0 hacc

/-- size clause with every hypothesis executable (`topo`, `rank_sorted`, `usok`, `acc_ok` of the op
`c18_area`; the last one is evaluated on networks of at most 64 cells) -/
theorem area_size_of_checks (ds : Array Nat) (seq : List Nat) (usMain : Array Nat) (uparea area : Array Int)
    (amin : Int) (htopo : isTopo ds seq = true) (hord : rankOrderOK ds seq = true)
    (hus : usMainOK ds usMain = true) (hacc : accumOK ds seq area uparea = true) :
    let r := subbasinsArea ds seq usMain uparea amin
    ∀ o ∈ r.2, ds[o]! ≠ o → labelArea area r.1 r.1[o]! > amin := by
  unfold accumOK at hacc
  simp only [Bool.and_eq_true, beq_iff_eq, List.all_eq_true, decide_eq_true_eq] at hacc
  exact area_size_of_check ds seq usMain uparea area amin htopo hord hus hacc.1
    (fun i hi => (hacc.2 i hi).1) (fun d hd => (hacc.2 d hd).2)

/-- **size certificate** (direct reading of the executable check; still evaluated on the
implementation's output in every run) -/
theorem area_size_cert (ds : Array Nat) (area : Array Int) (amin : Int) (outlets : List Nat)
    (labels : Array Int) (h : areaSizeOK ds area amin outlets labels = true) :
    ∀ o ∈ outlets, ds[o]! = o ∨ labelArea area labels labels[o]! > amin := by
  intro o ho
  unfold areaSizeOK at h
  have := (List.all_eq_true.1 h) o ho
  simpa using this

/-! ## the order hypothesis is what the harness checks -/

/-- **order check**: the executable test `isTopo` (reported as `topo` by every op, on the cell order
the implementation actually used) implies both hypotheses of the partition theorems. -/
theorem order_check_sound (ds : Array Nat) (seq : List Nat) (h : isTopo ds seq = true) :
    Topo ds seq ∧ ∀ i ∈ seq, i < ds.size := isTopo_sound ds seq h

/-- stream-order partition under the checked hypothesis -/
theorem streamorder_partition_of_check (ds : Array Nat) (seq : List Nat) (strord : Array Int)
    (mask : Option (Array Bool)) (minSto : Int) (h : isTopo ds seq = true) :
    let r := subbasinsStreamorder ds seq strord mask minSto
    (∀ (k o : Nat), r.2[k]? = some o → r.1[o]! = (k : Int) + 1) ∧
    (∀ i ∈ seq, LabelOK ds (· ∈ r.2) (fun o => r.1[o]!) i r.1[i]!) ∧
    (∀ i, i ∉ seq → r.1[i]! = 0) :=
  streamorder_partition ds seq strord mask minSto (isTopo_sound ds seq h).1 (isTopo_sound ds seq h).2

/-- minimum-area partition under the checked hypothesis -/
theorem area_partition_of_check (ds : Array Nat) (seq : List Nat) (usMain : Array Nat)
    (uparea : Array Int) (amin : Int) (h : isTopo ds seq = true) :
    let r := subbasinsArea ds seq usMain uparea amin
    (∀ (k o : Nat), r.2[k]? = some o → r.1[o]! = (k : Int) + 1) ∧
    (∀ i ∈ seq, LabelOK ds (· ∈ r.2) (fun o => r.1[o]!) i r.1[i]!) ∧
    (∀ i, i ∉ seq → r.1[i]! = 0) :=
  area_partition ds seq usMain uparea amin (isTopo_sound ds seq h).1 (isTopo_sound ds seq h).2

/-! ## certificate for any of the three methods (evaluated on the implementation's output) -/

/-- **soundness of `subOK`**: if the executable check accepts `(outlets, labels)` then every outlet
carries a non-zero label and every cell of the network carries the label of the first returned
outlet on its (unbounded) downstream path, 0 iff there is none. -/
theorem subOK_sound (ds : Array Nat) (outlets : List Nat) (labels : Array Int)
    (h : subOK ds outlets labels = true) :
    (∀ o ∈ outlets, labels[o]! ≠ 0) ∧
    (∀ i, isValid ds i = true → LabelOK ds (· ∈ outlets) (fun o => labels[o]!) i labels[i]!) ∧
    (∀ i, isValid ds i = true → (labels[i]! = 0 ↔ ∀ m, iterA ds m i ∉ outlets)) := by
  unfold subOK at h
  simp only [Bool.and_eq_true, List.all_eq_true, decide_eq_true_eq, bne_iff_ne, ne_eq,
    List.mem_range, Bool.or_eq_true, Bool.not_eq_true'] at h
  obtain ⟨hout, hcell⟩ := h
  have hflag : ∀ j, (outletFlags ds.size outlets)[j]! = true ↔ j ∈ outlets := by
    intro j
    rw [outletFlags_iff]
    exact ⟨fun h => h.1, fun h => ⟨h, (hout j h).1⟩⟩
  have hlab : ∀ i, isValid ds i = true → LabelOK ds (· ∈ outlets) (fun o => labels[o]!) i labels[i]! := by
    intro i hv
    have hi : i < ds.size := by
      simp only [isValid, Bool.and_eq_true, decide_eq_true_eq] at hv; exact hv.1
    rcases hcell i hi with hc | hc
    · rw [hv] at hc; cases hc
    · obtain ⟨w, hw⟩ : ∃ w, w = firstOutletWalk ds (outletFlags ds.size outlets) (ds.size + 1) i := ⟨_, rfl⟩
      rw [← hw] at hc
      cases w with
      | none => cases hc
      | some r =>
        have hs := firstOutletWalk_sound ds _ _ i r hw.symm
        cases r with
        | none =>
          simp only [beq_iff_eq] at hc
          refine Or.inl ⟨hc, fun m hm => ?_⟩
          have := hs m
          rw [(hflag _).2 hm] at this; cases this
        | some o =>
          simp only [beq_iff_eq] at hc
          obtain ⟨m, hm, ho, hn⟩ := hs
          refine Or.inr ⟨m, by rw [hm]; exact (hflag o).1 ho, by rw [hm]; exact hc, fun t ht hc' => ?_⟩
          have := hn t ht
          rw [(hflag _).2 hc'] at this; cases this
  refine ⟨fun o ho => (hout o ho).2, hlab, fun i hv => ?_⟩
  exact (hlab i hv).zero_iff (fun o ho => (hout o ho).2)

/-- **upstream closure from the certificate**: in an accepted map a network cell that is not a
returned outlet carries the label of its downstream cell. -/
theorem subOK_upstream_closed (ds : Array Nat) (outlets : List Nat) (labels : Array Int)
    (h : subOK ds outlets labels = true) (j : Nat) (hj : isValid ds j = true)
    (hd : isValid ds ds[j]! = true) (hout : j ∉ outlets) : labels[j]! = labels[ds[j]!]! := by
  obtain ⟨_, h2, _⟩ := subOK_sound ds outlets labels h
  exact ((h2 j hj).step_down hout).unique (h2 _ hd)

/-- `idsOK`: the `k`-th returned outlet carries the label `k+1` -/
theorem idsOK_sound (outlets : List Nat) (labels : Array Int) (h : idsOK outlets labels = true) :
    ∀ k, k < outlets.length → labels[outlets[k]!]! = (k : Int) + 1 := by
  intro k hk
  unfold idsOK at h
  have := (List.all_eq_true.1 h) k (List.mem_range.2 hk)
  simpa using this

/-! ## Pfafstetter -/

/-- **fill clause for the Pfafstetter map** (proved relative to the branch seeds `pfaf_branch` the
worklist loop leaves behind): every cell of the network carries, modulo `10^depth`, the seed of the
first seeded cell on its downstream path, 0 if there is none.
Not proved at algorithm level: that the first *returned outlet* downstream carries the same code
(i.e. `subOK` of the model's output for every input) — this is the `_partial`; it is evaluated by
`subOK` (sound by `subOK_sound`) on every implementation and model output. -/
theorem pfaf_fill_partial (pits : List Nat) (ds : Array Nat) (seq : List Nat) (usMain : Array Nat)
    (uparea : Array Int) (mask : Option (Array Bool)) (depth : Nat)
    (htopo : Topo ds seq) (hb : ∀ i ∈ seq, i < ds.size)
    (br : Array Int) (idxs : List Nat) (tie ok : Bool)
    (h : pfBranch pits ds seq usMain uparea mask depth = some (br, idxs, tie, ok)) :
    ∃ lab, subbasinsPfafstetter pits ds seq usMain uparea mask depth = some (lab, idxs, tie, ok) ∧
      ∀ i ∈ seq, LabelOK ds (fun o => br[o]! ≠ 0) (fun o => br[o]! % (10 : Int) ^ depth) i lab[i]! := by
  have hsz : br.size = ds.size := pfBranch_size _ _ _ _ _ _ _ _ _ _ _ h
  refine ⟨amap (fun v => v % (10 : Int) ^ depth) (fillnodataUpstream ds seq br 0),
    by simp [subbasinsPfafstetter, h], fun i hi => ?_⟩
  have hb' : ∀ i ∈ seq, i < br.size := fun i hi => by rw [hsz]; exact hb i hi
  have hfv := firstValid_labelOK (fill_first_valid ds br 0 seq htopo hb' i hi)
  have hget : (amap (fun v => v % (10 : Int) ^ depth) (fillnodataUpstream ds seq br 0))[i]! =
      (fillnodataUpstream ds seq br 0)[i]! % (10 : Int) ^ depth := by
    have : i < (fillnodataUpstream ds seq br 0).size := by
      simp [fillnodataUpstream]; exact hb' i hi
    exact amap_get! _ i this
  rw [hget]
  rcases hfv with ⟨hv, hn⟩ | ⟨m, hm, hv, hn⟩
  · refine Or.inl ⟨?_, hn⟩
    show (sweepDown ds (gFillNd 0) seq br)[i]! % (10 : Int) ^ depth = 0
    rw [hv]; simp
  · refine Or.inr ⟨m, hm, ?_, hn⟩
    show (sweepDown ds (gFillNd 0) seq br)[i]! % (10 : Int) ^ depth = _
    rw [hv]

/-- **first-returned-outlet partition of the Pfafstetter map** (algorithm level, every input for which
the model run meets its side condition `ok = true`, the 4th component: every inter-basin outlet
`idx1` was, when it was created, a raster cell whose code was 0 or the code of the inter-basin
below it — i.e. the (at most four) tributaries of a stem were visited from down- to upstream).
Then every returned outlet carries a non-zero code and every cell of the network carries the code of
the FIRST returned outlet on its downstream path, 0 iff there is none.
Loop invariant (`PfafInv`): a coded cell that is not a returned outlet is the main upstream cell of its
downstream cell, is a stream cell, and carries its downstream cell's code.
The side condition is discharged for every input that satisfies the documented preconditions by `pfaf_ok` below
(stage 4); the unconditional forms are `pfaf_partition_total` and `pfaf_closure`. The flag is still evaluated on every
run of the model by the harness. -/
theorem pfaf_partition (pits : List Nat) (ds : Array Nat) (seq : List Nat) (usMain : Array Nat)
    (uparea : Array Int) (mask : Option (Array Bool)) (depth : Nat) (hd : 1 ≤ depth)
    (htopo : Topo ds seq) (hb : ∀ i ∈ seq, i < ds.size) (hus : usMainOK ds usMain = true)
    (lab : Array Int) (idxs : List Nat) (tie : Bool)
    (h : subbasinsPfafstetter pits ds seq usMain uparea mask depth = some (lab, idxs, tie, true)) :
    (∀ o ∈ idxs, lab[o]! ≠ 0) ∧
    (∀ i ∈ seq, LabelOK ds (· ∈ idxs) (fun o => lab[o]!) i lab[i]!) ∧
    (∀ i ∈ seq, lab[i]! = 0 ↔ ∀ m, iterA ds m i ∉ idxs) := by
  cases hbr : pfBranch pits ds seq usMain uparea mask depth with
  | none => simp [subbasinsPfafstetter, hbr] at h
  | some x =>
    obtain ⟨br, idxs', tie', ok'⟩ := x
    simp only [subbasinsPfafstetter, hbr, Option.map_some, Option.some.injEq, Prod.mk.injEq] at h
    obtain ⟨h1, h2, h3, h4⟩ := h
    subst h1 h2 h3 h4
    have hinv := pfBranch_inv pits ds seq usMain uparea mask depth hus hb br idxs' tie' hbr
    have hgood := pfBranch_good pits ds seq usMain uparea mask depth hd br idxs' tie' true hbr
    have hb' : ∀ i ∈ seq, i < br.size := fun i hi => by rw [hinv.size]; exact hb i hi
    have hfsz : (fillnodataUpstream ds seq br 0).size = ds.size := by
      simp [fillnodataUpstream, hinv.size]
    have hget : ∀ j, j < ds.size →
        (amap (fun v => v % (10 : Int) ^ depth) (fillnodataUpstream ds seq br 0))[j]! =
          (fillnodataUpstream ds seq br 0)[j]! % (10 : Int) ^ depth :=
      fun j hj => amap_get! _ j (by rw [hfsz]; exact hj)
    have hout : ∀ o ∈ idxs',
        (amap (fun v => v % (10 : Int) ^ depth) (fillnodataUpstream ds seq br 0))[o]! ≠ 0 := by
      intro o ho
      obtain ⟨hlt, hne⟩ := hinv.out o ho
      have hfill : (fillnodataUpstream ds seq br 0)[o]! = br[o]! := by
        by_cases hos : o ∈ seq
        · exact (fill_first_valid ds br 0 seq htopo hb' o hos).unique (FirstValid.here o hne)
        · exact fill_untouched ds br 0 seq htopo hb' o hos
      rw [hget o hlt, hfill]
      rcases hgood o with h0 | hg
      · exact absurd h0 hne
      · have := (hg.emod_dig hd).1; omega
    have hlab : ∀ i ∈ seq, LabelOK ds (· ∈ idxs')
        (fun o => (amap (fun v => v % (10 : Int) ^ depth) (fillnodataUpstream ds seq br 0))[o]!) i
        (amap (fun v => v % (10 : Int) ^ depth) (fillnodataUpstream ds seq br 0))[i]! := by
      intro i hi
      rw [hget i (hb i hi)]
      exact (hinv.partition htopo hb (fun v => v % (10 : Int) ^ depth) (by simp) i hi).congr
        (fun _ => Iff.rfl) (fun o ho => (hget o (hinv.out o ho).1).symm)
    exact ⟨hout, hlab, fun i hi => (hlab i hi).zero_iff hout⟩

/- `pfaf_ok` (the side condition holds for every input that satisfies the documented preconditions) was the open item
of stage 3; it is proved below (section "the side condition is always met"), together with the link rule on every link
(`pfaf_link`) and the refinement across depths (`pfaf_refine`), from one joint invariant of `pfPits`/`pfLoop`/`pfInner`.
`pfaf_ok_step_partial` is kept: it is the reduction of the run-time check to "the confluence cell carries `pfaf_int_ds`". -/
/-- **the side condition, one step** (partial result towards `pfaf_ok`): in a state that satisfies the
partition invariant, the check `idx1 < n ∧ (pfaf_branch[idx1] = 0 ∨ pfaf_branch[idx1] = pfaf_int_ds)` made
when the inter-basin outlet `idx1 = idxs_us_main[d]` above the confluence cell `d` is created succeeds
whenever `idx1` is a cell, is not yet a returned outlet, and `d` carries `pfaf_int_ds`. -/
theorem pfaf_ok_step_partial {ds usMain : Array Nat} {so br : Array Int} {idxs : List Nat}
    (hinv : PfafInv ds usMain so br idxs) (hus : usMainOK ds usMain = true)
    {d : Nat} {intDs : Int} (hd : d < ds.size) (h1 : usMain[d]! < ds.size) (hni : usMain[d]! ∉ idxs)
    (hconf : br[d]! = intDs) :
    (decide (usMain[d]! < ds.size) && (br[usMain[d]!]! == 0 || br[usMain[d]!]! == intDs)) = true :=
  ib_check_of_conf hinv (usMainOK_spec hus) hd h1 hni hconf

/-- **upstream closed** (Pfafstetter, under the same side condition): a cell of the network that is
not a returned outlet carries the code of its downstream cell. -/
theorem pfaf_upstream_closed (pits : List Nat) (ds : Array Nat) (seq : List Nat) (usMain : Array Nat)
    (uparea : Array Int) (mask : Option (Array Bool)) (depth : Nat) (hd : 1 ≤ depth)
    (htopo : Topo ds seq) (hb : ∀ i ∈ seq, i < ds.size) (hus : usMainOK ds usMain = true)
    (lab : Array Int) (idxs : List Nat) (tie : Bool)
    (h : subbasinsPfafstetter pits ds seq usMain uparea mask depth = some (lab, idxs, tie, true))
    (j : Nat) (hj : j ∈ seq) (hout : j ∉ idxs) : lab[j]! = lab[ds[j]!]! := by
  obtain ⟨_, h2, _⟩ := pfaf_partition pits ds seq usMain uparea mask depth hd htopo hb hus lab idxs tie h
  exact ((h2 j hj).step_down hout).unique (h2 _ (htopo.ds_mem j hj))

/-- **link rule, reduced to the links that leave a returned outlet** (algorithm level, same side
condition): on every other link of the network the two codes are equal, so the rule
"at the first level where the codes differ the downstream digit is odd and smaller" holds trivially.
The links `o → ds o` of returned outlets `o` are covered by `pfaf_link` below (stage 4), which holds on every link
under the documented preconditions; `linkOK` (`pfaf_link_cert`) is still evaluated per run on the implementation's output. -/
theorem pfaf_link_nonoutlet (pits : List Nat) (ds : Array Nat) (seq : List Nat) (usMain : Array Nat)
    (uparea : Array Int) (mask : Option (Array Bool)) (depth : Nat) (hd : 1 ≤ depth)
    (htopo : Topo ds seq) (hb : ∀ i ∈ seq, i < ds.size) (hus : usMainOK ds usMain = true)
    (lab : Array Int) (idxs : List Nat) (tie : Bool)
    (h : subbasinsPfafstetter pits ds seq usMain uparea mask depth = some (lab, idxs, tie, true))
    (j : Nat) (hj : j ∈ seq) (hout : j ∉ idxs) (k : Nat) : linkOKAt ds lab k j = true := by
  have := pfaf_upstream_closed pits ds seq usMain uparea mask depth hd htopo hb hus lab idxs tie h j hj hout
  unfold linkOKAt
  simp [this]

/-! ### the side condition is always met (stage 4): `pfaf_ok` and the unconditional theorems -/

/-- **the side condition holds for every input that satisfies the documented preconditions** (algorithm
level, no size bound): `depth ≥ 1`, a downstream-first cell order that holds every cell of the network,
a main-upstream map that is a map to inflowing cells (`usMainOK`) and is defined wherever there is an inflow,
an upstream-area field that is strictly larger at the downstream cell (accumulation of positive cell areas;
no tie-freeness is needed), distinct pits. Any mask. Then the model's flag `ok` is `true`: whenever an
inter-basin outlet is created it is a raster cell whose code is 0 or the code of the inter-basin below.
Proof (Proofs/C18PfStem, C18PfG, C18PfFresh, C18PfInner, C18PfLoop): one joint invariant of `pfPits` / `pfLoop` / `pfInner`:
(1) `PfFresh`/`PfFreshIn`: every pending entry `(c, d)` of `labs` owns the block `[c, c + 10^(depth-d+1))`, blocks are
pairwise disjoint and hold no code other than their root, the unused part of the popped block holds no code at all;
(2) `PfG`: the partition invariant `PfafInv`, distinct returned outlets carry distinct codes, every coded cell has a
coded downstream cell; hence (`PfG.chain`, `PfG.chain_above`) the cells of one code form one contiguous chain of
main-upstream links above the code's outlet, ordered by upstream area, and an inter-basin fill relabels exactly the
cells of `pfaf_int_ds` above the confluence and no returned outlet (`PfG.step_int`);
(3) `PfRem`: every remaining tributary is an unassigned non-main inflow (`tributaries_nonmain`, from the recurrence of
the classic stream order) whose confluence cell carries `pfaf_int_ds` or whose inter-basin outlet was returned already,
kept by the inter-basin fill because the confluences are sorted by upstream area (`sortDesc_sorted`). -/
theorem pfaf_ok (pits : List Nat) (ds : Array Nat) (seq : List Nat) (usMain : Array Nat)
    (uparea : Array Int) (mask : Option (Array Bool)) (depth : Nat) (hd : 1 ≤ depth)
    (htopo : Topo ds seq) (hb : ∀ i ∈ seq, i < ds.size)
    (hall : ∀ i, i < ds.size → ds[i]! < ds.size → i ∈ seq)
    (hus : usMainOK ds usMain = true)
    (htot : ∀ i ∈ seq, ds[i]! ≠ i → usMain[ds[i]!]! < ds.size)
    (hmono : ∀ i ∈ seq, ds[i]! ≠ i → uparea[i]! < uparea[ds[i]!]!)
    (hpn : pits.Nodup) (hpits : ∀ p ∈ pits, p ∈ seq ∧ ds[p]! = p)
    (lab : Array Int) (idxs : List Nat) (tie ok : Bool)
    (h : subbasinsPfafstetter pits ds seq usMain uparea mask depth = some (lab, idxs, tie, ok)) :
    ok = true := by
  cases hbr : pfBranch pits ds seq usMain uparea mask depth with
  | none => simp [subbasinsPfafstetter, hbr] at h
  | some x =>
    obtain ⟨br, idxs', tie', ok'⟩ := x
    simp only [subbasinsPfafstetter, hbr, Option.map_some, Option.some.injEq, Prod.mk.injEq] at h
    obtain ⟨_, _, _, h4⟩ := h
    subst h4
    exact (pfBranch_joint pits ds seq usMain uparea mask depth hd
      ⟨htopo, hb, hall, usMainOK_spec hus, htot, hmono⟩ hpn hpits br idxs' tie' ok' hbr).1

/-- **first-returned-outlet partition of the Pfafstetter map, unconditional** (`pfaf_partition` without the flag
hypothesis, discharged by `pfaf_ok`): under the documented preconditions every returned outlet carries a non-zero
code, every cell of the network carries the code of the FIRST returned outlet on its downstream path, and a cell is
unlabelled iff no returned outlet lies on that path. -/
theorem pfaf_partition_total (pits : List Nat) (ds : Array Nat) (seq : List Nat) (usMain : Array Nat)
    (uparea : Array Int) (mask : Option (Array Bool)) (depth : Nat) (hd : 1 ≤ depth)
    (htopo : Topo ds seq) (hb : ∀ i ∈ seq, i < ds.size)
    (hall : ∀ i, i < ds.size → ds[i]! < ds.size → i ∈ seq)
    (hus : usMainOK ds usMain = true)
    (htot : ∀ i ∈ seq, ds[i]! ≠ i → usMain[ds[i]!]! < ds.size)
    (hmono : ∀ i ∈ seq, ds[i]! ≠ i → uparea[i]! < uparea[ds[i]!]!)
    (hpn : pits.Nodup) (hpits : ∀ p ∈ pits, p ∈ seq ∧ ds[p]! = p)
    (lab : Array Int) (idxs : List Nat) (tie ok : Bool)
    (h : subbasinsPfafstetter pits ds seq usMain uparea mask depth = some (lab, idxs, tie, ok)) :
    (∀ o ∈ idxs, lab[o]! ≠ 0) ∧
    (∀ i ∈ seq, LabelOK ds (· ∈ idxs) (fun o => lab[o]!) i lab[i]!) ∧
    (∀ i ∈ seq, lab[i]! = 0 ↔ ∀ m, iterA ds m i ∉ idxs) := by
  have hok := pfaf_ok pits ds seq usMain uparea mask depth hd htopo hb hall hus htot hmono hpn hpits
    lab idxs tie ok h
  subst hok
  exact pfaf_partition pits ds seq usMain uparea mask depth hd htopo hb hus lab idxs tie h

/-- **upstream closure of the Pfafstetter map, unconditional**: under the documented preconditions a cell of the
network that is not a returned outlet carries the code of its downstream cell. -/
theorem pfaf_closure (pits : List Nat) (ds : Array Nat) (seq : List Nat) (usMain : Array Nat)
    (uparea : Array Int) (mask : Option (Array Bool)) (depth : Nat) (hd : 1 ≤ depth)
    (htopo : Topo ds seq) (hb : ∀ i ∈ seq, i < ds.size)
    (hall : ∀ i, i < ds.size → ds[i]! < ds.size → i ∈ seq)
    (hus : usMainOK ds usMain = true)
    (htot : ∀ i ∈ seq, ds[i]! ≠ i → usMain[ds[i]!]! < ds.size)
    (hmono : ∀ i ∈ seq, ds[i]! ≠ i → uparea[i]! < uparea[ds[i]!]!)
    (hpn : pits.Nodup) (hpits : ∀ p ∈ pits, p ∈ seq ∧ ds[p]! = p)
    (lab : Array Int) (idxs : List Nat) (tie ok : Bool)
    (h : subbasinsPfafstetter pits ds seq usMain uparea mask depth = some (lab, idxs, tie, ok))
    (j : Nat) (hj : j ∈ seq) (hout : j ∉ idxs) : lab[j]! = lab[ds[j]!]! := by
  obtain ⟨_, h2, _⟩ := pfaf_partition_total pits ds seq usMain uparea mask depth hd htopo hb hall hus htot
    hmono hpn hpits lab idxs tie ok h
  exact ((h2 j hj).step_down hout).unique (h2 _ (htopo.ds_mem j hj))

/-- **link rule of the Pfafstetter map, every link, unconditional** (algorithm level, no size bound; replaces the
per-run certificate `linkOK` for the model output): under the documented preconditions, for every level `k < depth` and
every cell `j` of the network: if `j` and its downstream cell are labelled, lie in the same basin of the level above
(`pre k` equal) and their digits at level `k` differ, then the downstream digit is odd (an inter-basin on the main stem)
and smaller than the digit of `j` — including the links `o → ds o` that leave a returned outlet.
Proof (Proofs/C18PfArith, C18PfLinkInv, C18PfLinkInner, C18PfLinkLoop): the joint invariant of `pfaf_ok` extended by
(a) `PfQ`: the worklist is processed level by level (sorted by level, at most two levels pending) and the digits
`0 .. depth-d` of a pending code of level `d` are all 1; (b) `PfH`/`PfHIn`: every returned outlet `o` that is not a pit was
created at some level `e < depth` with `LinkE e code(o) code(ds o)` (the codes agree above `e`, the digit of `ds o` at `e` is
odd and smaller: the confluence cell carries `pfaf0 + 2k·10^e`, the tributary `pfaf0 + (2i+1)·10^e`, the inter-basin above
`pfaf0 + (2i+2)·10^e`, `k ≤ i ≤ 3`); no pending entry is shallower than `e`, so a later inter-basin fill relabels `ds o` only
below level `e` (`quot_refine`), except at level `e` itself, which is excluded for outlets created by an earlier `pfInner`
because their downstream code lies outside the popped block, and for outlets of the running `pfInner` because the fill stays
strictly above the current confluence (upstream areas). `LinkE.final` turns `LinkE e` into the rule for the codes reduced
modulo `10^depth` at every level `k` (`k > e`: digits equal; `k = e`: the rule; `k < e`: prefixes differ). -/
theorem pfaf_link (pits : List Nat) (ds : Array Nat) (seq : List Nat) (usMain : Array Nat)
    (uparea : Array Int) (mask : Option (Array Bool)) (depth : Nat) (hd : 1 ≤ depth)
    (htopo : Topo ds seq) (hb : ∀ i ∈ seq, i < ds.size)
    (hall : ∀ i, i < ds.size → ds[i]! < ds.size → i ∈ seq)
    (hus : usMainOK ds usMain = true)
    (htot : ∀ i ∈ seq, ds[i]! ≠ i → usMain[ds[i]!]! < ds.size)
    (hmono : ∀ i ∈ seq, ds[i]! ≠ i → uparea[i]! < uparea[ds[i]!]!)
    (hpn : pits.Nodup) (hpits : ∀ p ∈ pits, p ∈ seq ∧ ds[p]! = p)
    (lab : Array Int) (idxs : List Nat) (tie ok : Bool)
    (h : subbasinsPfafstetter pits ds seq usMain uparea mask depth = some (lab, idxs, tie, ok))
    (k : Nat) (hk : k < depth) (j : Nat) (hj : j ∈ seq) : linkOKAt ds lab k j = true := by
  have hok := pfaf_ok pits ds seq usMain uparea mask depth hd htopo hb hall hus htot hmono hpn hpits
    lab idxs tie ok h
  subst hok
  by_cases hout : j ∈ idxs
  · by_cases hp : ds[j]! = j
    · unfold linkOKAt; simp [hp]
    · cases hbr : pfBranch pits ds seq usMain uparea mask depth with
      | none => simp [subbasinsPfafstetter, hbr] at h
      | some x =>
        obtain ⟨br, idxs', tie', ok'⟩ := x
        simp only [subbasinsPfafstetter, hbr, Option.map_some, Option.some.injEq, Prod.mk.injEq] at h
        obtain ⟨h1, h2, _, _⟩ := h
        subst h1 h2
        obtain ⟨_, g, hh⟩ := pfBranch_link pits ds seq usMain uparea mask depth hd
          ⟨htopo, hb, hall, usMainOK_spec hus, htot, hmono⟩ hpn hpits br idxs' tie' ok' hbr
        obtain ⟨e, he, hl, _⟩ := hh j hout hp
        obtain ⟨jlt, jne⟩ := g.inv.out j hout
        have hdne := g.dn j jlt jne
        have hlj := pfaf_lab_seed ds seq br depth htopo hb g.inv.size j hj jne
        have hld := pfaf_lab_seed ds seq br depth htopo hb g.inv.size _ (htopo.ds_mem j hj) hdne
        unfold linkOKAt
        simp only [hlj, hld]
        simp only [Bool.or_eq_true, Bool.and_eq_true, beq_iff_eq, bne_iff_ne, ne_eq, decide_eq_true_eq]
        rcases hl.final he k hk with h3 | h3 | h3
        · exact Or.inl (Or.inl (Or.inr h3))
        · exact Or.inl (Or.inr h3)
        · exact Or.inr h3
  · exact pfaf_link_nonoutlet pits ds seq usMain uparea mask depth hd htopo hb hus lab idxs tie h j hj hout k

/-- the executable link certificate accepts the model's output for every input that satisfies the documented
preconditions (the order holds every cell of the network) -/
theorem pfaf_linkOK (pits : List Nat) (ds : Array Nat) (seq : List Nat) (usMain : Array Nat)
    (uparea : Array Int) (mask : Option (Array Bool)) (depth : Nat) (hd : 1 ≤ depth)
    (htopo : Topo ds seq) (hb : ∀ i ∈ seq, i < ds.size)
    (hall : ∀ i, i < ds.size → ds[i]! < ds.size → i ∈ seq)
    (hval : ∀ i, isValid ds i = true → i ∈ seq)
    (hus : usMainOK ds usMain = true)
    (htot : ∀ i ∈ seq, ds[i]! ≠ i → usMain[ds[i]!]! < ds.size)
    (hmono : ∀ i ∈ seq, ds[i]! ≠ i → uparea[i]! < uparea[ds[i]!]!)
    (hpn : pits.Nodup) (hpits : ∀ p ∈ pits, p ∈ seq ∧ ds[p]! = p)
    (lab : Array Int) (idxs : List Nat) (tie ok : Bool)
    (h : subbasinsPfafstetter pits ds seq usMain uparea mask depth = some (lab, idxs, tie, ok)) :
    linkOK ds depth lab = true := by
  unfold linkOK
  simp only [List.all_eq_true, List.mem_range, Bool.or_eq_true, Bool.not_eq_true']
  intro k hk i _
  by_cases hv : isValid ds i = true
  · exact Or.inr (pfaf_link pits ds seq usMain uparea mask depth hd htopo hb hall hus htot hmono hpn hpits
      lab idxs tie ok h k hk i (hval i hv))
  · left; simpa using hv

/-- **refinement across depths, unconditional** (algorithm level, no size bound): under the documented preconditions the
map for `depth + 1`, integer-divided by 10, is the map for `depth` — in every cell of the raster.
Proof (Proofs/C18PfSo, C18PfRefInv, C18PfSim, C18PfSimLoop, C18PfRefine): a simulation between the two runs of the model.
(a) While levels `≤ depth` are processed, the run for `depth + 1` is in lock-step with the run for `depth`: same
outlets, codes `phi c = 10·c + 1`, same worklist plus entries of level `depth + 1` at its end (`pfPits_sim`, `pfInner_sim`,
`pfLoop_sim`). The two reduced stream orders differ only on cells of order `depth + 2`; the stem fills never meet such a
cell (`stemFill_sim_sub`: the main upstream cell keeps the order), and no tributary of order `depth + 2` hangs on a cell
that carries a code of level `≤ depth` (`trib_filter_eq`, from the invariant `PfOrd`: the cells of a pending code of
level `d` have order `≤ d`). (b) What the deeper run does afterwards (level `depth + 1` only) changes the last digit of a
coded cell, and gives a newly coded cell a code that agrees with its downstream cell above the last digit (`PfEvo`: one
`pfInner` moves codes inside the popped block only; `pfLoop_ref`). (c) `fill_refine`: hence the filled seeds of the
deeper run, divided by 10, are the filled seeds of the shallower run; reduction modulo `10^(depth+1)` / `10^depth`
commutes with the division (`quot_mod`). -/
theorem pfaf_refine (pits : List Nat) (ds : Array Nat) (seq : List Nat) (usMain : Array Nat)
    (uparea : Array Int) (mask : Option (Array Bool)) (depth : Nat) (hd : 1 ≤ depth)
    (htopo : Topo ds seq) (hb : ∀ i ∈ seq, i < ds.size)
    (hall : ∀ i, i < ds.size → ds[i]! < ds.size → i ∈ seq)
    (hus : usMainOK ds usMain = true)
    (htot : ∀ i ∈ seq, ds[i]! ≠ i → usMain[ds[i]!]! < ds.size)
    (hmono : ∀ i ∈ seq, ds[i]! ≠ i → uparea[i]! < uparea[ds[i]!]!)
    (hpn : pits.Nodup) (hpits : ∀ p ∈ pits, p ∈ seq ∧ ds[p]! = p)
    (lab lab' : Array Int) (idxs idxs' : List Nat) (tie ok tie' ok' : Bool)
    (h : subbasinsPfafstetter pits ds seq usMain uparea mask depth = some (lab, idxs, tie, ok))
    (h' : subbasinsPfafstetter pits ds seq usMain uparea mask (depth + 1) = some (lab', idxs', tie', ok')) :
    lab.size = lab'.size ∧ ∀ i : Nat, lab'[i]! / 10 = lab[i]! := by
  have c : PfCtx ds usMain seq uparea := ⟨htopo, hb, hall, usMainOK_spec hus, htot, hmono⟩
  cases hbr : pfBranch pits ds seq usMain uparea mask depth with
  | none => simp [subbasinsPfafstetter, hbr] at h
  | some x =>
    obtain ⟨brA, idxsA, tieA, okA⟩ := x
    cases hbr' : pfBranch pits ds seq usMain uparea mask (depth + 1) with
    | none => simp [subbasinsPfafstetter, hbr'] at h'
    | some x' =>
      obtain ⟨brB, idxsB, tieB, okB⟩ := x'
      simp only [subbasinsPfafstetter, hbr, hbr', Option.map_some, Option.some.injEq, Prod.mk.injEq] at h h'
      obtain ⟨h1, _, _, _⟩ := h
      obtain ⟨h1', _, _, _⟩ := h'
      subst h1 h1'
      obtain ⟨k1, k2, gB, hszA⟩ := pfBranch_refine pits ds seq usMain uparea mask depth hd c hpn hpits
        brA brB idxsA idxsB tieA okA tieB okB hbr hbr'
      obtain ⟨_, gA⟩ := pfBranch_joint pits ds seq usMain uparea mask depth hd c hpn hpits brA idxsA tieA okA hbr
      have hszB := gB.inv.size
      have hbA : ∀ i ∈ seq, i < brA.size := fun i hi => by rw [hszA]; exact hb i hi
      have hbB : ∀ i ∈ seq, i < brB.size := fun i hi => by rw [hszB]; exact hb i hi
      have hfA : (fillnodataUpstream ds seq brA 0).size = ds.size := by simp [fillnodataUpstream, hszA]
      have hfB : (fillnodataUpstream ds seq brB 0).size = ds.size := by simp [fillnodataUpstream, hszB]
      have hfill : ∀ i : Nat, (fillnodataUpstream ds seq brB 0)[i]! / 10 = (fillnodataUpstream ds seq brA 0)[i]! := by
        intro i
        by_cases hi : i ∈ seq
        · exact fill_refine ds seq brA brB htopo hbA hbB k1 k2 (fun s hs => gB.dn s (gB.lt hs) hs) i hi
        · have e1 : (fillnodataUpstream ds seq brA 0)[i]! = brA[i]! := fill_untouched ds brA 0 seq htopo hbA i hi
          have e2 : (fillnodataUpstream ds seq brB 0)[i]! = brB[i]! := fill_untouched ds brB 0 seq htopo hbB i hi
          rw [e1, e2]
          have hA0 : brA[i]! = 0 := Classical.byContradiction fun hne => hi (gA.coded_mem c hne)
          have hB0 : brB[i]! = 0 := Classical.byContradiction fun hne => hi (gB.coded_mem c hne)
          rw [hA0, hB0]; rfl
      refine ⟨by simp [amap, hfA, hfB], fun i => ?_⟩
      by_cases hi : i < ds.size
      · rw [amap_get! _ i (by rw [hfB]; exact hi), amap_get! _ i (by rw [hfA]; exact hi), ← hfill i]
        have := quot_mod (A := (fillnodataUpstream ds seq brB 0)[i]!) (D := depth + 1) (k := 1) (by omega)
        simp only [Int.pow_one, Nat.add_sub_cancel] at this
        exact this
      · have hA : ¬ i < (amap (fun v => v % (10 : Int) ^ depth) (fillnodataUpstream ds seq brA 0)).size := by
          simp [amap, hfA]; omega
        have hB : ¬ i < (amap (fun v => v % (10 : Int) ^ (depth + 1)) (fillnodataUpstream ds seq brB 0)).size := by
          simp [amap, hfB]; omega
        simp [hA, hB]

/-- the executable form of the preconditions (reported by the op `c18_pfaf` as `pre_ok` on the arrays the
implementation was run with) implies the hypotheses of `pfaf_ok` -/
theorem pfPreOK_sound (pits : List Nat) (ds : Array Nat) (seq : List Nat) (usMain : Array Nat)
    (uparea : Array Int) (h : pfPreOK pits ds seq usMain uparea = true) :
    Topo ds seq ∧ (∀ i ∈ seq, i < ds.size) ∧ (∀ i, i < ds.size → ds[i]! < ds.size → i ∈ seq) ∧
    usMainOK ds usMain = true ∧ (∀ i ∈ seq, ds[i]! ≠ i → usMain[ds[i]!]! < ds.size) ∧
    (∀ i ∈ seq, ds[i]! ≠ i → uparea[i]! < uparea[ds[i]!]!) ∧ pits.Nodup ∧
    (∀ p ∈ pits, p ∈ seq ∧ ds[p]! = p) := by
  unfold pfPreOK at h
  simp only [Bool.and_eq_true, List.all_eq_true, List.mem_range, Bool.or_eq_true, Bool.not_eq_true',
    decide_eq_false_iff_not, List.contains_iff_mem, beq_iff_eq, decide_eq_true_eq] at h
  obtain ⟨⟨⟨⟨⟨h1, h2⟩, h3⟩, h4⟩, h5⟩, h6⟩ := h
  obtain ⟨t1, t2⟩ := isTopo_sound ds seq h1
  refine ⟨t1, t2, fun i hi hd => ?_, h2, fun i hi hp => ?_, fun i hi hp => ?_, h5, h6⟩
  · rcases h3 i hi with h | h
    · exact absurd hd h
    · exact h
  · rcases h4 i hi with h | h
    · exact absurd h hp
    · exact h.1
  · rcases h4 i hi with h | h
    · exact absurd h hp
    · exact h.2

/-- `ok = true` under the executable preconditions -/
theorem pfaf_ok_of_check (pits : List Nat) (ds : Array Nat) (seq : List Nat) (usMain : Array Nat)
    (uparea : Array Int) (mask : Option (Array Bool)) (depth : Nat) (hd : 1 ≤ depth)
    (hpre : pfPreOK pits ds seq usMain uparea = true)
    (lab : Array Int) (idxs : List Nat) (tie ok : Bool)
    (h : subbasinsPfafstetter pits ds seq usMain uparea mask depth = some (lab, idxs, tie, ok)) :
    ok = true := by
  obtain ⟨h1, h2, h3, h4, h5, h6, h7, h8⟩ := pfPreOK_sound pits ds seq usMain uparea hpre
  exact pfaf_ok pits ds seq usMain uparea mask depth hd h1 h2 h3 h4 h5 h6 h7 h8 lab idxs tie ok h

/-- the executable refinement certificate accepts the two model outputs -/
theorem pfaf_refineOK (pits : List Nat) (ds : Array Nat) (seq : List Nat) (usMain : Array Nat)
    (uparea : Array Int) (mask : Option (Array Bool)) (depth : Nat) (hd : 1 ≤ depth)
    (hpre : pfPreOK pits ds seq usMain uparea = true)
    (lab lab' : Array Int) (idxs idxs' : List Nat) (tie ok tie' ok' : Bool)
    (h : subbasinsPfafstetter pits ds seq usMain uparea mask depth = some (lab, idxs, tie, ok))
    (h' : subbasinsPfafstetter pits ds seq usMain uparea mask (depth + 1) = some (lab', idxs', tie', ok')) :
    refineOK lab lab' = true := by
  obtain ⟨h1, h2, h3, h4, h5, h6, h7, h8⟩ := pfPreOK_sound pits ds seq usMain uparea hpre
  obtain ⟨hs, hv⟩ := pfaf_refine pits ds seq usMain uparea mask depth hd h1 h2 h3 h4 h5 h6 h7 h8
    lab lab' idxs idxs' tie ok tie' ok' h h'
  unfold refineOK
  simp only [Bool.and_eq_true, beq_iff_eq, List.all_eq_true, List.mem_range]
  exact ⟨hs, fun i _ => hv i⟩

/-- **digits 1–9 per level** (algorithm level, every input): with `depth ≥ 1`, every cell of the
network carries 0 or a code with exactly `depth` digits, each in 1..9 (`dig k` = digit of level `k`,
0 = deepest). Invariant of the worklist loop: every code written to `pfaf_branch` is `11…1` plus
increments `δ·10^e`, `δ ∈ 1..8`, at a level `e` whose digit was still 1. -/
theorem pfaf_digits (pits : List Nat) (ds : Array Nat) (seq : List Nat) (usMain : Array Nat)
    (uparea : Array Int) (mask : Option (Array Bool)) (depth : Nat) (hd : 1 ≤ depth)
    (htopo : Topo ds seq) (hb : ∀ i ∈ seq, i < ds.size)
    (lab : Array Int) (idxs : List Nat) (tie ok : Bool)
    (h : subbasinsPfafstetter pits ds seq usMain uparea mask depth = some (lab, idxs, tie, ok)) :
    ∀ i ∈ seq, lab[i]! = 0 ∨
      (0 < lab[i]! ∧ lab[i]! < (10 : Int) ^ depth ∧
        ∀ k, k < depth → 1 ≤ dig k lab[i]! ∧ dig k lab[i]! ≤ 9) := by
  intro i hi
  cases hbr : pfBranch pits ds seq usMain uparea mask depth with
  | none => simp [subbasinsPfafstetter, hbr] at h
  | some x =>
    obtain ⟨br, idxs', tie', ok'⟩ := x
    obtain ⟨lab', hl', hlab⟩ := pfaf_fill_partial pits ds seq usMain uparea mask depth htopo hb br idxs' tie' ok' hbr
    rw [h] at hl'
    simp only [Option.some.injEq, Prod.mk.injEq] at hl'
    obtain ⟨hl1, _, _⟩ := hl'
    subst hl1
    have hgood := pfBranch_good pits ds seq usMain uparea mask depth hd br idxs' tie' ok' hbr
    rcases hlab i hi with ⟨hv, _⟩ | ⟨m, hm, hv, _⟩
    · exact Or.inl hv
    · right
      rw [hv]
      rcases hgood (iterA ds m i) with h0 | hg
      · exact absurd h0 hm
      · exact hg.emod_dig hd

/-- **digits certificate**: an accepted code map has, in every labelled cell, exactly `depth`
digits, each in 1..9. -/
theorem pfaf_digits_cert (depth : Nat) (labels : Array Int) (h : digitsOK depth labels = true) :
    ∀ i, i < labels.size → labels[i]! = 0 ∨
      (0 < labels[i]! ∧ labels[i]! < (10 : Int) ^ depth ∧
        ∀ k, k < depth → 1 ≤ dig k labels[i]! ∧ dig k labels[i]! ≤ 9) :=
  digitsOK_sound depth labels h

/-- **monotone digits certificate**: if the link rule is accepted then along every downstream path
that stays inside one basin of the level above (same code prefix, all cells labelled) the digit of
level `k` never increases going downstream, and wherever it differs from the start cell's digit
it is odd — i.e. flow passes from a sub-basin (even digit) or an upstream inter-basin into
inter-basins (odd digits) with smaller digits: odd digits increase upstream along the main stem. -/
theorem pfaf_link_cert (ds : Array Nat) (depth : Nat) (labels : Array Int)
    (h : linkOK ds depth labels = true) (k : Nat) (hk : k < depth) (m i : Nat)
    (hpath : ∀ t, t ≤ m → isValid ds (iterA ds t i) = true ∧ labels[iterA ds t i]! ≠ 0 ∧
      pre k labels[iterA ds t i]! = pre k labels[i]!) :
    dig k labels[iterA ds m i]! ≤ dig k labels[i]! ∧
    (dig k labels[iterA ds m i]! ≠ dig k labels[i]! → dig k labels[iterA ds m i]! % 2 = 1) :=
  pfLink_path ds labels k (linkOK_sound ds depth labels h k hk) m i hpath

/-- **refinement certificate**: integer division by 10 of the deeper map gives the shallower one -/
theorem pfaf_refine_cert (shallow deep : Array Int) (h : refineOK shallow deep = true) :
    shallow.size = deep.size ∧ ∀ i, i < deep.size → deep[i]! / 10 = shallow[i]! := by
  unfold refineOK at h
  simp only [Bool.and_eq_true, beq_iff_eq, List.all_eq_true, List.mem_range] at h
  exact h

/-! ### non-vacuity: concrete networks meet the hypotheses and the conclusions are non-trivial -/
-- binary tree 0 ← 1 ← {2, 3}, 2 ← {4, 5}, 3 ← 6 ; Strahler order 2 on 0,1,2
def exDs : Array Nat := #[0, 0, 1, 1, 2, 2, 3]
def exSeq : List Nat := [0, 1, 2, 3, 4, 5, 6]

theorem exTopo : Topo exDs exSeq := by
  have h0 : Topo exDs [] := Topo.nil
  have h1 : Topo exDs ([] ++ [0]) := Topo.snoc h0 (by simp) (Or.inl (by decide))
  have h2 : Topo exDs ([0] ++ [1]) := Topo.snoc h1 (by simp) (Or.inr (by decide))
  have h3 : Topo exDs ([0, 1] ++ [2]) := Topo.snoc h2 (by simp) (Or.inr (by decide))
  have h4 : Topo exDs ([0, 1, 2] ++ [3]) := Topo.snoc h3 (by simp) (Or.inr (by decide))
  have h5 : Topo exDs ([0, 1, 2, 3] ++ [4]) := Topo.snoc h4 (by simp) (Or.inr (by decide))
  have h6 : Topo exDs ([0, 1, 2, 3, 4] ++ [5]) := Topo.snoc h5 (by simp) (Or.inr (by decide))
  exact Topo.snoc h6 (by simp) (Or.inr (by decide))

example : isTopo exDs exSeq = true := by decide
example : subbasinsStreamorder exDs exSeq #[2, 2, 2, 1, 1, 1, 1] none 1 =
    (#[4, 4, 4, 3, 2, 1, 3], [5, 4, 3, 0]) := by decide
example : subOK exDs [5, 4, 3, 0] #[4, 4, 4, 3, 2, 1, 3] = true ∧
    idsOK [5, 4, 3, 0] #[4, 4, 4, 3, 2, 1, 3] = true := by decide
-- upstream areas 7,6,3,2,1,1,1 (cell counts), threshold 1: cells 2 and 3 start sub-basins
example : subbasinsArea exDs exSeq #[1, 2, 4, 6, 7, 7, 7] #[7, 6, 3, 2, 1, 1, 1] 1 =
    (#[1, 1, 1, 2, 1, 1, 2], [0, 3]) := by decide
example : areaSizeOK exDs #[1, 1, 1, 1, 1, 1, 1] 1 [0, 3] #[1, 1, 1, 2, 1, 1, 2] = true := by decide
-- `area_size` applies to this run (all hypotheses hold) and speaks about the non-pit outlet 3
example : isTopo exDs exSeq = true ∧ rankOrderOK exDs exSeq = true ∧
    usMainOK exDs #[1, 2, 4, 6, 7, 7, 7] = true ∧
    (∀ d ∈ exSeq, #[7, 6, 3, 2, 1, 1, 1][d]! = #[1, 1, 1, 1, 1, 1, 1][d]! +
      csum (fun c => decide (exDs[c]! = d ∧ c ≠ d)) (fun c => #[7, 6, 3, 2, 1, 1, 1][c]!) exSeq) ∧
    (3 ∈ (subbasinsArea exDs exSeq #[1, 2, 4, 6, 7, 7, 7] #[7, 6, 3, 2, 1, 1, 1] 1).2 ∧ exDs[3]! ≠ 3) := by
  decide
example : labelArea #[1, 1, 1, 1, 1, 1, 1]
    (subbasinsArea exDs exSeq #[1, 2, 4, 6, 7, 7, 7] #[7, 6, 3, 2, 1, 1, 1] 1).1
    (subbasinsArea exDs exSeq #[1, 2, 4, 6, 7, 7, 7] #[7, 6, 3, 2, 1, 1, 1] 1).1[3]! > 1 :=
  area_size_of_check exDs exSeq #[1, 2, 4, 6, 7, 7, 7] #[7, 6, 3, 2, 1, 1, 1] #[1, 1, 1, 1, 1, 1, 1] 1
    (by decide) (by decide) (by decide) (by decide) (by decide) (by decide) 3 (by decide) (by decide)
-- the rank-order hypothesis of `area_size` cannot be dropped: on this 12-cell network the order below is
-- downstream-first but visits cell 9 (two steps above cell 3) before cell 5 (one step above cell 3); the
-- model then cuts 4, 9 and 5 out of the sub-basin of the non-pit outlet 3, which keeps area 3 = area_min
-- (uparea = accumulation of `area`, all other hypotheses of `area_size` hold)
example :
    let ds : Array Nat := #[0, 0, 0, 0, 3, 3, 3, 0, 0, 6, 5, 9]
    let seq := [0, 2, 1, 3, 6, 4, 8, 7, 9, 5, 11, 10]
    let usMain : Array Nat := #[7, 12, 12, 6, 12, 10, 9, 12, 12, 11, 12, 12]
    let uparea : Array Int := #[33, 3, 4, 18, 4, 5, 7, 3, 2, 6, 4, 3]
    let area : Array Int := #[3, 3, 4, 2, 4, 1, 1, 3, 2, 3, 4, 3]
    isTopo ds seq = true ∧ usMainOK ds usMain = true ∧ rankOrderOK ds seq = false ∧
    (∀ d ∈ seq, uparea[d]! = area[d]! + csum (fun c => decide (ds[c]! = d ∧ c ≠ d)) (fun c => uparea[c]!) seq) ∧
    (subbasinsArea ds seq usMain uparea 3).2 = [0, 2, 3, 4, 9, 5] ∧
    areaSizeOK ds area 3 (subbasinsArea ds seq usMain uparea 3).2 (subbasinsArea ds seq usMain uparea 3).1 = false := by
  decide +kernel
example : accumOK exDs exSeq #[1, 1, 1, 1, 1, 1, 1] #[7, 6, 3, 2, 1, 1, 1] = true ∧
    accumOK exDs exSeq #[1, 1, 1, 1, 1, 1, 1] #[7, 6, 3, 2, 1, 2, 1] = false := by decide
-- a downstream-first order that is NOT sorted by the distance to the pit is rejected by the order check
example : isTopo exDs [0, 1, 2, 4, 5, 3, 6] = true ∧ rankOrderOK exDs [0, 1, 2, 4, 5, 3, 6] = false := by decide
-- Pfafstetter, depth 1 and 2
example : subbasinsPfafstetter [0] exDs exSeq #[1, 2, 4, 6, 7, 7, 7] #[7, 6, 3, 2, 1, 1, 1] none 1 =
    some (#[1, 1, 3, 2, 5, 4, 2], [0, 3, 2, 5, 4], false, true) := by decide
example : subOK exDs [0, 3, 2, 5, 4] #[1, 1, 3, 2, 5, 4, 2] = true ∧
    digitsOK 1 #[1, 1, 3, 2, 5, 4, 2] = true ∧ linkOK exDs 1 #[1, 1, 3, 2, 5, 4, 2] = true := by decide
example : refineOK #[1, 1, 3, 2, 5, 4, 2] #[11, 11, 31, 21, 51, 41, 21] = true := by decide

-- a nested network (tributary 4 of the main stem 0-1-2-8-9 has its own tributary 7): depth 2
-- subdivides basin 2 into 21, 22, 23; a minimum-area mask (upa_min = 2) removes the small streams
def exDs2 : Array Nat := #[0, 0, 1, 2, 1, 4, 5, 5, 2, 8]
def exSeq2 : List Nat := [0, 1, 2, 4, 3, 8, 5, 9, 6, 7]
def exUpa2 : Array Int := #[10, 9, 4, 1, 4, 3, 1, 1, 2, 1]
def exMain2 : Array Nat := #[1, 2, 8, 10, 5, 6, 10, 10, 9, 10]
example : isTopo exDs2 exSeq2 = true ∧ mainUpstream exDs2 exUpa2 0 = exMain2 := by decide
example : subbasinsPfafstetter [0] exDs2 exSeq2 exMain2 exUpa2 none 1 =
    some (#[1, 1, 3, 4, 2, 2, 2, 2, 5, 5], [0, 4, 2, 3, 8], false, true) := by decide +kernel
example : subbasinsPfafstetter [0] exDs2 exSeq2 exMain2 exUpa2 none 2 =
    some (#[11, 11, 31, 41, 21, 21, 23, 22, 51, 51], [0, 4, 2, 3, 8, 7, 6], false, true) := by decide +kernel
example : subbasinsPfafstetter [0] exDs2 exSeq2 exMain2 exUpa2 (pfMask exUpa2 (some 2)) 2 =
    some (#[11, 11, 31, 31, 21, 21, 21, 21, 31, 31], [0, 4, 2], false, true) := by decide +kernel
example : subOK exDs2 [0, 4, 2, 3, 8, 7, 6] #[11, 11, 31, 41, 21, 21, 23, 22, 51, 51] = true ∧
    digitsOK 2 #[11, 11, 31, 41, 21, 21, 23, 22, 51, 51] = true ∧
    linkOK exDs2 2 #[11, 11, 31, 41, 21, 21, 23, 22, 51, 51] = true ∧
    refineOK #[1, 1, 3, 4, 2, 2, 2, 2, 5, 5] #[11, 11, 31, 41, 21, 21, 23, 22, 51, 51] = true := by decide
-- `pfaf_ok_step_partial` on the state after the pit stem (code 11 on 0-1-2-8-9) and the first tributary
-- (code 12 on 4-5-6) have been labelled: the inter-basin outlet above the confluence cell 1 is cell 2
example : (decide (exMain2[1]! < exDs2.size) &&
      ((#[11, 11, 11, 0, 12, 12, 12, 0, 11, 11] : Array Int)[exMain2[1]!]! == 0 ||
       (#[11, 11, 11, 0, 12, 12, 12, 0, 11, 11] : Array Int)[exMain2[1]!]! == 11)) = true :=
  pfaf_ok_step_partial (so := Array.replicate 10 1) (idxs := [0, 4])
    ⟨by decide, by decide, by decide⟩ (by decide) (by decide) (by decide) (by decide) (by decide)
-- `pfaf_ok` / `pfaf_partition_total` / `pfaf_closure` on the nested network: the preconditions hold (executable form),
-- so the flag of the depth-2 run is `true` by the theorem (it is also `true` by evaluation, see above) and the
-- unconditional partition / closure statements apply to its output (7 outlets, 7 distinct codes)
example : pfPreOK [0] exDs2 exSeq2 exMain2 exUpa2 = true := by decide +kernel
example : ∀ lab idxs tie ok, subbasinsPfafstetter [0] exDs2 exSeq2 exMain2 exUpa2 none 2 = some (lab, idxs, tie, ok) →
    ok = true :=
  fun lab idxs tie ok h => pfaf_ok_of_check _ _ _ _ _ _ 2 (by decide) (by decide +kernel) lab idxs tie ok h
example : (∀ o ∈ [0, 4, 2, 3, 8, 7, 6], (#[11, 11, 31, 41, 21, 21, 23, 22, 51, 51] : Array Int)[o]! ≠ 0) ∧
    (#[11, 11, 31, 41, 21, 21, 23, 22, 51, 51] : Array Int)[9]! =
      (#[11, 11, 31, 41, 21, 21, 23, 22, 51, 51] : Array Int)[exDs2[9]!]! := by
  obtain ⟨h1, h2, h3, h4, h5, h6, h7, h8⟩ := pfPreOK_sound [0] exDs2 exSeq2 exMain2 exUpa2 (by decide +kernel)
  have hrun : subbasinsPfafstetter [0] exDs2 exSeq2 exMain2 exUpa2 none 2 =
      some (#[11, 11, 31, 41, 21, 21, 23, 22, 51, 51], [0, 4, 2, 3, 8, 7, 6], false, true) := by decide +kernel
  exact ⟨(pfaf_partition_total _ _ _ _ _ _ 2 (by decide) h1 h2 h3 h4 h5 h6 h7 h8 _ _ _ _ hrun).1,
    pfaf_closure _ _ _ _ _ _ 2 (by decide) h1 h2 h3 h4 h5 h6 h7 h8 _ _ _ _ hrun 9 (by decide) (by decide)⟩
-- `pfaf_link` on a link that leaves a returned outlet: cell 7 (code 22, a sub-basin of basin 2) drains to cell 5 (code 21):
-- same prefix at level 0, digits 2 and 1 differ, the downstream digit 1 is odd and smaller
example : linkOKAt exDs2 #[11, 11, 31, 41, 21, 21, 23, 22, 51, 51] 0 7 = true ∧
    pre 0 (#[11, 11, 31, 41, 21, 21, 23, 22, 51, 51] : Array Int)[7]! =
      pre 0 (#[11, 11, 31, 41, 21, 21, 23, 22, 51, 51] : Array Int)[exDs2[7]!]! ∧
    dig 0 (#[11, 11, 31, 41, 21, 21, 23, 22, 51, 51] : Array Int)[7]! ≠
      dig 0 (#[11, 11, 31, 41, 21, 21, 23, 22, 51, 51] : Array Int)[exDs2[7]!]! := by
  obtain ⟨h1, h2, h3, h4, h5, h6, h7, h8⟩ := pfPreOK_sound [0] exDs2 exSeq2 exMain2 exUpa2 (by decide +kernel)
  have hrun : subbasinsPfafstetter [0] exDs2 exSeq2 exMain2 exUpa2 none 2 =
      some (#[11, 11, 31, 41, 21, 21, 23, 22, 51, 51], [0, 4, 2, 3, 8, 7, 6], false, true) := by decide +kernel
  exact ⟨pfaf_link _ _ _ _ _ _ 2 (by decide) h1 h2 h3 h4 h5 h6 h7 h8 _ _ _ _ hrun 0 (by decide) 7 (by decide),
    by decide, by decide⟩
-- `pfaf_refine` on the nested network, depths 1 and 2 (the statement is non-trivial: depth 2 splits basin 2 into 21, 22, 23)
example : refineOK #[1, 1, 3, 4, 2, 2, 2, 2, 5, 5] #[11, 11, 31, 41, 21, 21, 23, 22, 51, 51] = true :=
  pfaf_refineOK [0] exDs2 exSeq2 exMain2 exUpa2 none 1 (by decide) (by decide +kernel) _ _
    [0, 4, 2, 3, 8] [0, 4, 2, 3, 8, 7, 6] false true false true (by decide +kernel) (by decide +kernel)
-- the strict monotonicity of the upstream area cannot be dropped from `pfaf_ok`: with the area of cell 8 raised
-- above that of its downstream cell 2 the confluences of the stem 0-1-2-8-9 are no longer met from down- to
-- upstream and the preconditions are rejected
example : pfPreOK [0] exDs2 exSeq2 exMain2 #[10, 9, 4, 1, 4, 3, 1, 1, 5, 1] = false := by decide +kernel
-- … and on this 5-cell star (cells 1, 2 drain to the pit 3; cells 0, 4 drain to 2) with the area of cell 2 raised above
-- that of the pit, every other precondition holding, the flag is cleared: the main stem 3-2-0 is cut twice
example : subbasinsPfafstetter [3] #[2, 3, 3, 3, 2] [3, 2, 1, 4, 0] #[5, 5, 0, 2, 5] #[1, 1, 8, 5, 1] none 1 =
    some (#[5, 4, 5, 1, 2], [3, 4, 0, 1, 2], false, false) := by decide +kernel
-- the certificates reject wrong maps: a swapped pair of inter-basin digits, a digit 0
example : linkOK exDs2 1 #[3, 3, 1, 4, 2, 2, 2, 2, 5, 5] = false := by decide
example : digitsOK 2 #[11, 10, 31, 41, 21, 21, 23, 22, 51, 51] = false := by decide
example : subOK exDs2 [0, 4, 2, 3, 8] #[1, 1, 3, 4, 2, 2, 1, 2, 5, 5] = false := by decide

end Pf.C18
