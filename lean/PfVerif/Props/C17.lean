import PfVerif.Proofs.C17
import PfVerif.Proofs.C17Real
import PfVerif.Generated.Tables
/-! # C17 — cell indices, coordinates, distances and areas are mutually consistent

Theorems about the executable model `PfVerif/Model/C17.lean` of `gis_utils.xy / rowcol / idxs_to_coords /
coords_to_idxs / array_bounds / affine_to_coords / distance / area_grid / cellarea` (what
`FlwdirRaster.xy / index / bounds / area` call).  Every theorem quantifies over all transforms of the
stated class (rational coefficients, either sign, equal or unequal resolutions, any origin), all raster
shapes, all cells / points / pairs of cells: no size bound anywhere.  Numbers are exact rationals; the
transcendental functions (`degree_metres_x/y`, sine) are arbitrary functions `Rat → Rat`, so every
statement holds in particular for the floating-point functions the code uses. -/
namespace Pf.C17

/-! ## 1. coordinates of a cell are its centre; mapping back gives the same cell -/

/-- **centre**: on a raster without rotation the coordinates returned for pixel `(r, c)` are
`(xoff + (c+½)·xres, yoff + (r+½)·yres)`. -/
theorem xy_centre (t : Aff) (hb : t.b = 0) (hd : t.d = 0) (r c : Int) :
    xyM t centre r c = specCentre t r c := xy_centre' t hb hd r c

example : xyM ⟨2, 0, 10, 0, -3, 5⟩ centre 1 2 = (15, 1/2) := by decide +kernel

/-- **centre, any affine transform**: the returned point is the midpoint of the pixel's upper-left and
lower-right corners (offsets `ul`, `lr` of the same function). -/
theorem xy_centre_midpoint (t : Aff) (r c : Int) :
    (xyM t centre r c).1 = ((xyM t (0, 0) r c).1 + (xyM t (1, 1) r c).1) / 2 ∧
    (xyM t centre r c).2 = ((xyM t (0, 0) r c).2 + (xyM t (1, 1) r c).2) / 2 := by
  simp only [xy_app, centre, Aff.app]
  constructor <;> grind

example : xyM ⟨2, 1, 10, -1, -3, 5⟩ centre 1 2 = (33/2, -2) ∧ xyM ⟨2, 1, 10, -1, -3, 5⟩ (0, 0) 1 2 = (15, 0) ∧
    xyM ⟨2, 1, 10, -1, -3, 5⟩ (1, 1) 1 2 = (18, -4) := by decide +kernel

/-- **round trip, every invertible affine transform** (in particular every axis-aligned one, whatever the
signs of the resolutions): `rowcol(xy(r, c)) = (r, c)` for every integer pixel, inside the raster or not. -/
theorem rowcol_xy_affine (t : Aff) (hdet : t.det ≠ 0) (r c : Int) :
    rowcolM t .floor none (xyM t centre r c).1 (xyM t centre r c).2 = some (r, c) :=
  rowcol_xy_affine' t hdet r c

-- a rotated/sheared transform
example : rowcolM ⟨2, 1, 10, -1, -3, 5⟩ .floor none (33/2) (-2) = some (1, 2) := by decide +kernel

/-- **round trip** for the class the property names: axis-aligned, non-zero resolutions of either sign. -/
theorem rowcol_xy (t : Aff) (h : t.AxisAligned) (r c : Int) :
    rowcolM t .floor none (xyM t centre r c).1 (xyM t centre r c).2 = some (r, c) := by
  apply rowcol_xy_affine
  obtain ⟨hb, hd, ha, he⟩ := h
  unfold Aff.det; rw [hb, hd]; grind

-- south-up raster with negative x-resolution and unequal cell sizes, a pixel outside the raster
example : rowcolM ⟨-3, 0, 7, 0, 1/4, -2⟩ .floor none (xyM ⟨-3, 0, 7, 0, 1/4, -2⟩ centre (-5) 9).1
    (xyM ⟨-3, 0, 7, 0, 1/4, -2⟩ centre (-5) 9).2 = some (-5, 9) := by decide +kernel
example : (⟨-3, 0, 7, 0, 1/4, -2⟩ : Aff).AxisAligned := by decide +kernel

/-- **which cell**: `rowcol` returns `(r, c)` exactly when the point lies in the half-open cell `(r, c)`
(own edge inclusive, next pixel's edge exclusive, in the direction of increasing index). -/
theorem rowcol_contains (t : Aff) (h : t.AxisAligned) (x y : Rat) (r c : Int) :
    rowcolM t .floor none x y = some (r, c) ↔ specContains t r c x y = true := by
  obtain ⟨inv, hinv, hc⟩ := rowcolInv_contains t h
  simp only [rowcolM, hinv, Option.some.injEq]
  exact hc x y r c

-- a point on the shared edge of two cells of a north-up raster belongs to the lower/right one
example : rowcolM ⟨2, 0, 10, 0, -3, 5⟩ .floor none 14 2 = some (1, 2) ∧
    specContains ⟨2, 0, 10, 0, -3, 5⟩ 1 2 14 2 = true ∧ specContains ⟨2, 0, 10, 0, -3, 5⟩ 0 1 14 2 = false := by
  decide +kernel

/-- **round trip of the vectorised API** (`FlwdirRaster.xy` then `FlwdirRaster.index`): every list of
in-range linear indices is mapped to coordinates without error and back to the same list. -/
theorem index_xy_roundtrip (t : Aff) (hdet : t.det ≠ 0) (nrow ncol : Nat) (idxs : List Int)
    (hin : ∀ i ∈ idxs, 0 ≤ i ∧ i < (nrow : Int) * (ncol : Int)) :
    ∃ pts, idxsToCoords t nrow ncol centre idxs = .ok pts ∧
      coordsToIdxs t nrow ncol .floor none pts = .ok idxs := by
  obtain ⟨inv, hinv, hrc⟩ := rowcolInv_xy t hdet
  have hany : (idxs.any fun i => decide (i < 0) || decide ((nrow : Int) * (ncol : Int) ≤ i)) = false := by
    rw [List.any_eq_false]
    intro i hi
    have := hin i hi
    simp only [Bool.or_eq_true, decide_eq_true_eq]; omega
  refine ⟨_, by simp only [idxsToCoords, hany]; rfl, ?_⟩
  simp only [coordsToIdxs, hinv, epsOf, List.map_map]
  have hfun : ((fun p : Rat × Rat => rowcolInv inv .floor 0 p.1 p.2) ∘
      fun i : Int => xyM t centre (i / (ncol : Int)) (i % (ncol : Int))) =
      fun i : Int => (i / (ncol : Int), i % (ncol : Int)) := by
    funext i; simp only [Function.comp, hrc]
  rw [hfun]
  have hall : (idxs.map fun i : Int => (i / (ncol : Int), i % (ncol : Int))).all (inRaster nrow ncol) = true := by
    rw [List.all_eq_true]
    intro rc hrc'
    obtain ⟨i, hi, rfl⟩ := List.mem_map.mp hrc'
    exact (cell_in_raster nrow ncol i (hin i hi).1 (hin i hi).2).1
  rw [if_pos hall]
  congr 1
  conv => rhs; rw [← List.map_id idxs]
  apply List.map_congr_left
  intro i hi
  simp only [Function.comp, id]
  exact (cell_in_raster nrow ncol i (hin i hi).1 (hin i hi).2).2

example : idxsToCoords ⟨1/2, 0, -3, 0, -1/4, 60⟩ 3 4 centre [0, 5, 11] =
      .ok [(-11/4, 479/8), (-9/4, 477/8), (-5/4, 475/8)] ∧
    coordsToIdxs ⟨1/2, 0, -3, 0, -1/4, 60⟩ 3 4 .floor none [(-11/4, 479/8), (-9/4, 477/8), (-5/4, 475/8)] =
      .ok [0, 5, 11] := by decide +kernel

/-- the index returned for a point is in range and is the cell that contains the point -/
theorem index_containing_cell (t : Aff) (h : t.AxisAligned) (nrow ncol : Nat) (p : Rat × Rat) (i : Int)
    (hok : coordsToIdxs t nrow ncol .floor none [p] = .ok [i]) :
    0 ≤ i ∧ i < (nrow : Int) * (ncol : Int) ∧
      specContains t (i / (ncol : Int)) (i % (ncol : Int)) p.1 p.2 = true := by
  obtain ⟨inv, hinv, hc⟩ := rowcolInv_contains t h
  simp only [coordsToIdxs, hinv, List.map_cons, List.map_nil, List.all_cons, List.all_nil,
    Bool.and_true] at hok
  split at hok
  · rename_i hin
    obtain ⟨r, c, hrc⟩ : ∃ r c, rowcolInv inv .floor (epsOf .floor none) p.1 p.2 = (r, c) := ⟨_, _, rfl⟩
    rw [hrc] at hok hin
    simp only [Except.ok.injEq, List.cons.injEq, and_true] at hok
    simp only [inRaster, Bool.and_eq_true, decide_eq_true_eq] at hin
    obtain ⟨⟨⟨r0, r1⟩, c0⟩, c1⟩ := hin
    have hcon := (hc p.1 p.2 r c).mp hrc
    have hq : i / (ncol : Int) = r := by
      rw [← hok, Int.add_comm, Int.add_mul_ediv_right _ _ (by omega), Int.ediv_eq_zero_of_lt c0 c1]; omega
    have hm : i % (ncol : Int) = c := by
      rw [← hok, Int.add_comm, Int.add_mul_emod_self_right, Int.emod_eq_of_lt c0 c1]
    rw [hq, hm]
    refine ⟨?_, ?_, hcon⟩
    · rw [← hok]; exact Int.add_nonneg (Int.mul_nonneg r0 (by omega)) c0
    · rw [← hok]
      have : (r + 1) * (ncol : Int) ≤ (nrow : Int) * (ncol : Int) :=
        Int.mul_le_mul_of_nonneg_right (by omega) (by omega)
      rw [Int.add_mul] at this; omega
  · cases hok

example : coordsToIdxs ⟨1/2, 0, -3, 0, -1/4, 60⟩ 3 4 .floor none [(-2, 239/4)] = .ok [6] := by decide +kernel

/-! ## 2. outside the raster ⇒ `IndexError` -/

/-- a point is inside the raster: some raster cell contains it -/
def InsideRaster (t : Aff) (nrow ncol : Nat) (p : Rat × Rat) : Prop :=
  ∃ r c : Int, inRaster nrow ncol (r, c) = true ∧ specContains t r c p.1 p.2 = true

/-- **outside raises (coordinates)**: `coords_to_idxs` raises `IndexError` iff some point lies in no
raster cell; (with `index_xy_roundtrip`/`index_containing_cell`: otherwise it returns the containing cells). -/
theorem index_raises_iff (t : Aff) (h : t.AxisAligned) (nrow ncol : Nat) (pts : List (Rat × Rat)) :
    coordsToIdxs t nrow ncol .floor none pts = .error .indexError ↔
      ∃ p ∈ pts, ¬ InsideRaster t nrow ncol p := by
  obtain ⟨inv, hinv, hc⟩ := rowcolInv_contains t h
  simp only [coordsToIdxs, hinv]
  split
  · rename_i hall
    rw [List.all_eq_true] at hall
    constructor
    · intro h'; cases h'
    · rintro ⟨p, hp, hout⟩
      exfalso; apply hout
      refine ⟨(rowcolInv inv .floor (epsOf .floor none) p.1 p.2).1, (rowcolInv inv .floor (epsOf .floor none) p.1 p.2).2, ?_, ?_⟩
      · exact hall _ (List.mem_map.mpr ⟨p, hp, rfl⟩)
      · exact (hc p.1 p.2 _ _).mp rfl
  · rename_i hall
    simp only [true_iff]
    rw [List.all_eq_true] at hall
    simp only [List.mem_map, forall_exists_index, and_imp, forall_apply_eq_imp_iff₂] at hall
    have : ∃ p ∈ pts, ¬ inRaster nrow ncol (rowcolInv inv .floor (epsOf .floor none) p.1 p.2) = true := by
      apply Classical.byContradiction
      intro hno
      apply hall
      intro p hp
      apply Classical.byContradiction
      intro hh
      exact hno ⟨p, hp, hh⟩
    obtain ⟨p, hp, hnot⟩ := this
    refine ⟨p, hp, ?_⟩
    rintro ⟨r, c, hin, hcon⟩
    have := (hc p.1 p.2 r c).mpr hcon
    rw [this] at hnot
    exact hnot hin

example : coordsToIdxs ⟨1/2, 0, -3, 0, -1/4, 60⟩ 3 4 .floor none [(-2, 239/4), (-1, 60 + 1/8)] =
    .error .indexError := by decide +kernel

/-- **outside raises (linear indices)**: `idxs_to_coords` raises `IndexError` iff some index is negative
or `≥ nrow·ncol`. -/
theorem idxs_raises_iff (t : Aff) (nrow ncol : Nat) (off : Rat × Rat) (idxs : List Int) :
    idxsToCoords t nrow ncol off idxs = .error .indexError ↔
      ∃ i ∈ idxs, i < 0 ∨ (nrow : Int) * (ncol : Int) ≤ i := by
  unfold idxsToCoords
  simp only []
  split
  · rename_i h
    simp only [List.any_eq_true, Bool.or_eq_true, decide_eq_true_eq] at h
    simp only [true_iff]; exact h
  · rename_i h
    simp only [List.any_eq_true, Bool.or_eq_true, decide_eq_true_eq] at h
    constructor
    · intro h'; cases h'
    · intro h'; exact absurd h' h

example : idxsToCoords ⟨1/2, 0, -3, 0, -1/4, 60⟩ 3 4 centre [0, 12] = .error .indexError ∧
    idxsToCoords ⟨1/2, 0, -3, 0, -1/4, 60⟩ 3 4 centre [-1] = .error .indexError := by decide +kernel

/-- **inside = within the reported bounds** (north-up): a point is in some raster cell iff
`west ≤ x < east` and `south < y ≤ north` for the `array_bounds` of the raster. -/
theorem inside_iff_bounds (t : Aff) (h : t.NorthUp) (nrow ncol : Nat) (p : Rat × Rat) :
    InsideRaster t nrow ncol p ↔
      (arrayBounds nrow ncol t).1 ≤ p.1 ∧ p.1 < (arrayBounds nrow ncol t).2.2.1 ∧
      (arrayBounds nrow ncol t).2.1 < p.2 ∧ p.2 ≤ (arrayBounds nrow ncol t).2.2.2 := by
  obtain ⟨hb, hd, ha, he⟩ := h
  have hne : ¬ (0 < t.e) := by grind
  have hx := axis_pos t.c t.a p.1 ha ncol
  have hy := axis_neg t.f t.e p.2 he nrow
  simp only [InsideRaster, inRaster, specContains, ha, hne, if_true, if_false, Bool.and_eq_true,
    decide_eq_true_eq, arrayBounds, Aff.app, hb, hd]
  constructor
  · rintro ⟨r, c, ⟨⟨⟨r0, r1⟩, c0⟩, c1⟩, ⟨x1, x2⟩, ⟨y1, y2⟩⟩
    have X := hx.mp ⟨c, c0, c1, x1, x2⟩
    have Y := hy.mp ⟨r, r0, r1, y1, y2⟩
    refine ⟨?_, ?_, ?_, ?_⟩ <;> grind
  · rintro ⟨x1, x2, y1, y2⟩
    obtain ⟨c, c0, c1, cx1, cx2⟩ := hx.mpr ⟨x1, by grind⟩
    obtain ⟨r, r0, r1, ry1, ry2⟩ := hy.mpr ⟨by grind, y2⟩
    exact ⟨r, c, ⟨⟨⟨r0, r1⟩, c0⟩, c1⟩, ⟨cx1, cx2⟩, ⟨ry1, ry2⟩⟩

/-- north-up corollary: any point outside the reported bounds makes `index` raise `IndexError` -/
theorem outside_bounds_raises (t : Aff) (h : t.NorthUp) (nrow ncol : Nat) (pts : List (Rat × Rat))
    (p : Rat × Rat) (hp : p ∈ pts)
    (hout : p.1 < (arrayBounds nrow ncol t).1 ∨ (arrayBounds nrow ncol t).2.2.1 ≤ p.1 ∨
            p.2 ≤ (arrayBounds nrow ncol t).2.1 ∨ (arrayBounds nrow ncol t).2.2.2 < p.2) :
    coordsToIdxs t nrow ncol .floor none pts = .error .indexError := by
  have hax : t.AxisAligned := by
    obtain ⟨hb, hd, ha, he⟩ := h
    exact ⟨hb, hd, by grind, by grind⟩
  rw [index_raises_iff t hax]
  refine ⟨p, hp, ?_⟩
  rw [inside_iff_bounds t h]
  grind

example : arrayBounds 3 4 ⟨1/2, 0, -3, 0, -1/4, 60⟩ = (-3, 237/4, -1, 60) := by decide +kernel
example : (⟨1/2, 0, -3, 0, -1/4, 60⟩ : Aff).NorthUp := by decide +kernel

/-! ## 3. cell centres lie strictly inside the reported bounds -/

/-- **centres in bounds** (north-up): `west < x < east` and `south < y < north` for every cell centre. -/
theorem centres_in_bounds (t : Aff) (h : t.NorthUp) (nrow ncol : Nat) (r c : Nat)
    (hr : r < nrow) (hc : c < ncol) :
    let b := arrayBounds nrow ncol t
    let p := xyM t centre r c
    b.1 < p.1 ∧ p.1 < b.2.2.1 ∧ b.2.1 < p.2 ∧ p.2 < b.2.2.2 := by
  obtain ⟨hb, hd, ha, he⟩ := h
  have hr' : (r : Rat) + 1 ≤ (nrow : Rat) := by
    have : ((r + 1 : Nat) : Rat) ≤ (nrow : Rat) := by exact_mod_cast hr
    simpa using this
  have hc' : (c : Rat) + 1 ≤ (ncol : Rat) := by
    have : ((c + 1 : Nat) : Rat) ≤ (ncol : Rat) := by exact_mod_cast hc
    simpa using this
  have hr0 : (0 : Rat) ≤ (r : Rat) := by exact_mod_cast Nat.zero_le r
  have hc0 : (0 : Rat) ≤ (c : Rat) := by exact_mod_cast Nat.zero_le c
  have cr : (((r : Nat) : Int) : Rat) = (r : Rat) := Rat.intCast_natCast r
  have cc : (((c : Nat) : Int) : Rat) = (c : Rat) := Rat.intCast_natCast c
  simp only [arrayBounds, xy_app, centre, Aff.app, hb, hd, cr, cc]
  have h1 : 0 < ((c : Rat) + 1/2) * t.a := Rat.mul_pos (by grind) ha
  have h2 : ((c : Rat) + 1/2) * t.a < (ncol : Rat) * t.a := Rat.mul_lt_mul_of_pos_right (by grind) ha
  have hne : 0 < -t.e := by grind
  have h3 : 0 < ((r : Rat) + 1/2) * (-t.e) := Rat.mul_pos (by grind) hne
  have h4 : ((r : Rat) + 1/2) * (-t.e) < (nrow : Rat) * (-t.e) := Rat.mul_lt_mul_of_pos_right (by grind) hne
  refine ⟨?_, ?_, ?_, ?_⟩ <;> grind

example : xyM ⟨1/2, 0, -3, 0, -1/4, 60⟩ centre 2 3 = (-5/4, 475/8) := by decide +kernel

/-- `transform_from_origin(west, north, xsize, ysize)` has exactly the coefficients
`(xsize, 0, west, 0, -ysize, north)`; so it is north-up for positive sizes. -/
theorem transform_from_origin_coeffs (west north xsize ysize : Rat) :
    transformFromOrigin west north xsize ysize = ⟨xsize, 0, west, 0, -ysize, north⟩ := by
  simp only [transformFromOrigin, Aff.matmul, Aff.translation, Aff.scale, Aff.mk.injEq]
  refine ⟨?_, ?_, ?_, ?_, ?_, ?_⟩ <;> grind

example : transformFromOrigin (-3) 60 (1/2) (1/4) = ⟨1/2, 0, -3, 0, -1/4, 60⟩ := by decide +kernel

/-! ## 4. distances -/

/-- **symmetric** in its two arguments, projected and geographic, any pair of cells -/
theorem distance_symm (dmy dmx : Rat → Rat) (t : Aff) (ncol : Nat) (latlon : Bool) (i j : Nat) :
    distLegs dmy dmx t ncol latlon i j = distLegs dmy dmx t ncol latlon j i := by
  unfold distLegs
  simp only []
  rw [absI_sub_comm ((j / ncol : Nat) : Int), absI_sub_comm ((j % ncol : Nat) : Int),
    Int.add_comm ((i / ncol : Nat) : Int)]

example : distLegs (fun l => 100 + l) (fun l => 50 - l) ⟨2, 0, 0, 0, -3, 60⟩ 4 true 1 6 = (-471, -14) ∧
    distLegs (fun l => 100 + l) (fun l => 50 - l) ⟨2, 0, 0, 0, -3, 60⟩ 4 true 6 1 = (-471, -14) := by
  decide +kernel

/-- **east–west step** on a projected grid: the length is `|xres|` (not `|yres|`) -/
theorem distance_ew (dmy dmx : Rat → Rat) (t : Aff) (ncol : Nat) (i j : Nat)
    (hrow : i / ncol = j / ncol) (hcol : absI (((j % ncol : Nat) : Int) - ((i % ncol : Nat) : Int)) = 1)
    (d : Rat) (hd : IsHypot d (distLegs dmy dmx t ncol false i j).1 (distLegs dmy dmx t ncol false i j).2) :
    d = absQ t.a := by
  obtain ⟨h0, h1⟩ := hd
  simp only [distLegs, hrow, hcol, Int.sub_self] at h1
  have : absI 0 = 0 := rfl
  rw [this] at h1
  apply hypot_abs h0
  rw [h1]; simp only [Rat.intCast_zero, Rat.intCast_one]; grind

/-- **north–south step** on a projected grid: the length is `|yres|` -/
theorem distance_ns (dmy dmx : Rat → Rat) (t : Aff) (ncol : Nat) (i j : Nat)
    (hcol : i % ncol = j % ncol) (hrow : absI (((j / ncol : Nat) : Int) - ((i / ncol : Nat) : Int)) = 1)
    (d : Rat) (hd : IsHypot d (distLegs dmy dmx t ncol false i j).1 (distLegs dmy dmx t ncol false i j).2) :
    d = absQ t.e := by
  obtain ⟨h0, h1⟩ := hd
  simp only [distLegs, hrow, hcol, Int.sub_self] at h1
  have : absI 0 = 0 := rfl
  rw [this] at h1
  apply hypot_abs h0
  rw [h1]; simp only [Rat.intCast_zero, Rat.intCast_one]; grind

/-- **diagonal step** on a projected grid: the length is the hypotenuse of `|xres|` and `|yres|` -/
theorem distance_diag (dmy dmx : Rat → Rat) (t : Aff) (ncol : Nat) (i j : Nat)
    (hrow : absI (((j / ncol : Nat) : Int) - ((i / ncol : Nat) : Int)) = 1)
    (hcol : absI (((j % ncol : Nat) : Int) - ((i % ncol : Nat) : Int)) = 1)
    (d : Rat) (hd : IsHypot d (distLegs dmy dmx t ncol false i j).1 (distLegs dmy dmx t ncol false i j).2) :
    IsHypot d (absQ t.a) (absQ t.e) := by
  obtain ⟨h0, h1⟩ := hd
  simp only [distLegs, hrow, hcol] at h1
  refine ⟨h0, ?_⟩
  rw [h1, absQ_sq, absQ_sq]; simp only [Rat.intCast_one]; grind

-- cells 3×4 (Pythagorean): E–W 3, N–S 4, diagonal 5, on a 5-column raster; 7 → 8 (E), 7 → 2 (N), 7 → 13 (SE)
example : distLegs id id ⟨3, 0, 0, 0, -4, 0⟩ 5 false 7 8 = (0, 3) ∧ IsHypot 3 0 3 ∧
    distLegs id id ⟨3, 0, 0, 0, -4, 0⟩ 5 false 7 2 = (-4, 0) ∧ IsHypot 4 (-4) 0 ∧
    distLegs id id ⟨3, 0, 0, 0, -4, 0⟩ 5 false 7 13 = (-4, 3) ∧ IsHypot 5 (-4) 3 := by decide +kernel

/-- **distance = Euclidean distance of the two centres** (projected, any two cells, not only neighbours):
the squared length equals the squared distance between the cell-centre coordinates of section 1. -/
theorem distance_centres (dmy dmx : Rat → Rat) (t : Aff) (ncol : Nat) (i j : Nat) :
    dist2 (distLegs dmy dmx t ncol false i j) = specCentreDist2 t ncol i j := by
  simp only [dist2, distLegs, specCentreDist2, specCentre]
  have h1 := absI_sq (((j / ncol : Nat) : Int) - ((i / ncol : Nat) : Int))
  have h2 := absI_sq (((j % ncol : Nat) : Int) - ((i % ncol : Nat) : Int))
  rw [Rat.intCast_sub] at h1 h2
  grind

example : dist2 (distLegs id id ⟨3, 0, 1, 0, -4, 2⟩ 5 false 0 13) = 145 ∧
    specCentreDist2 ⟨3, 0, 1, 0, -4, 2⟩ 5 0 13 = 145 := by decide +kernel

/-- **geographic**: the squared length equals that of the two metric legs
`|degree_metres_y(φ)·Δy|`, `|degree_metres_x(φ)·Δx|` where `Δx, Δy` are the coordinate differences of the
two cell centres and `φ` is the mean latitude of the two centres - for any two cells and any
`degree_metres_x/y`. -/
theorem distance_geo (dmy dmx : Rat → Rat) (t : Aff) (ncol : Nat) (i j : Nat) :
    dist2 (distLegs dmy dmx t ncol true i j) = dist2 (specGeoLegs dmy dmx t ncol i j) := by
  simp only [dist2, specGeoLegs, absQ_sq]
  have hlat : t.f + (((((i / ncol : Nat) : Int) + ((j / ncol : Nat) : Int) : Int) : Rat) / 2 + 1/2) * t.e
      = specMeanLat t ncol i j := by
    simp only [specMeanLat, specCentre, Rat.intCast_add]; grind
  simp only [distLegs, if_true, hlat, specCentre]
  rw [leg_sq, leg_sq, Rat.intCast_sub, Rat.intCast_sub]
  grind

/-- the ideal `math.hypot` values of model and specification therefore coincide -/
theorem distance_geo_hypot (dmy dmx : Rat → Rat) (t : Aff) (ncol : Nat) (i j : Nat) (d : Rat) :
    IsHypot d (distLegs dmy dmx t ncol true i j).1 (distLegs dmy dmx t ncol true i j).2 ↔
    IsHypot d (specGeoLegs dmy dmx t ncol i j).1 (specGeoLegs dmy dmx t ncol i j).2 := by
  have h := distance_geo dmy dmx t ncol i j
  simp only [dist2] at h
  simp only [IsHypot, h]

-- rows 0 and 1 of a 3-degree north-up raster from 60N: centres at 58.5 and 55.5, mean latitude 57
example : specMeanLat ⟨2, 0, 0, 0, -3, 60⟩ 4 1 6 = 57 ∧
    specGeoLegs (fun l => 100 + l) (fun l => 50 - l) ⟨2, 0, 0, 0, -3, 60⟩ 4 1 6 = (471, 14) ∧
    distLegs (fun l => 100 + l) (fun l => 50 - l) ⟨2, 0, 0, 0, -3, 60⟩ 4 true 1 6 = (-471, -14) := by
  decide +kernel

/-! ## 5. areas -/

/-- **projected cell area** is `|xres·yres|` (divided by the unit factor) in every cell -/
theorem area_proj (cell : Rat → Rat → Rat → Rat) (t : Aff) (nrow ncol : Nat) (fac : Rat) :
    areaGrid cell t nrow ncol false false (some fac) = .ok (List.replicate nrow (absQ (t.a * t.e) / fac)) := rfl

/-- ... and `|xres·yres|` is the area of the rectangle spanned by the cell's corner coordinates -/
theorem area_proj_rectangle (t : Aff) (hb : t.b = 0) (hd : t.d = 0) (r c : Int) :
    absQ (t.a * t.e) = absQ ((xyM t (1, 0) r c).1 - (xyM t (0, 0) r c).1) *
                       absQ ((xyM t (0, 1) r c).2 - (xyM t (0, 0) r c).2) := by
  rw [absQ_mul]
  simp only [xy_app, Aff.app, hb, hd]
  have h1 : ((c:Rat) + 1) * t.a + ((r:Rat) + 0) * 0 + t.c - (((c:Rat) + 0) * t.a + ((r:Rat) + 0) * 0 + t.c) = t.a := by
    grind
  have h2 : ((c:Rat) + 0) * 0 + ((r:Rat) + 1) * t.e + t.f - (((c:Rat) + 0) * 0 + ((r:Rat) + 0) * t.e + t.f) = t.e := by
    grind
  rw [h1, h2]

/-- unit `cell`: every cell has area 1 -/
theorem area_cell (cell : Rat → Rat → Rat → Rat) (t : Aff) (nrow ncol : Nat) (latlon : Bool) (fac : Rat) :
    areaGrid cell t nrow ncol latlon true (some fac) = .ok (List.replicate nrow 1) := rfl

example : areaGrid (fun _ _ _ => 0) ⟨2, 0, 0, 0, -3, 60⟩ 2 4 false false (some 10000) = .ok [3/5000, 3/5000] := by
  decide +kernel

/-- the unit table and the earth radius of the code (regenerated from `/repo` on every run) are the
documented ones: 1 ha = 10⁴ m², 1 km² = 10⁶ m², R = 6371 km -/
theorem area_constants_ok :
    Pf.Generated.areaFactors = [("m2", 1), ("ha", 10000), ("km2", 1000000), ("cell", 1)] ∧
    Pf.Generated.earthRadius = 6371000 := by decide

/-- **geographic cell area at the row's latitude**: row `r` of `area_grid(latlon=True)` is the spherical
area between the latitudes of the row's two edges, `|xres|` degrees wide - for every shape (also a single
row or column), either orientation. -/
theorem area_geo_rows (R2 pi180 fac : Rat) (sinD : Rat → Rat) (t : Aff) (hd : t.d = 0) (nrow ncol : Nat) :
    areaGrid (cellareaM R2 pi180 sinD) t nrow ncol true false (some fac) =
      .ok ((List.range nrow).map fun r => specRowArea R2 pi180 sinD t r / fac) := by
  simp only [areaGrid, affineToCoords, List.map_map, Bool.false_eq_true, if_false, if_true]
  congr 1
  apply List.map_congr_left
  intro r _
  simp only [Function.comp, cellareaM, specRowArea, Aff.app, hd, absQ]
  by_cases he : t.e < 0
  · have h1 : ¬ (t.f + (r:Rat) * t.e < t.f + ((r:Rat) + 1) * t.e) := by grind
    simp only [he, h1, if_true, if_false]
    have e1 : (0 + 1/2) * 0 + ((r:Rat) + 1/2) * t.e + t.f + -t.e / 2 = t.f + (r:Rat) * t.e := by grind
    have e2 : (0 + 1/2) * 0 + ((r:Rat) + 1/2) * t.e + t.f - -t.e / 2 = t.f + ((r:Rat) + 1) * t.e := by grind
    rw [e1, e2]
  · by_cases he0 : t.e = 0
    · simp only [he0]; grind
    · have h1 : (t.f + (r:Rat) * t.e < t.f + ((r:Rat) + 1) * t.e) := by grind
      simp only [he, h1, if_true, if_false]
      have e1 : (0 + 1/2) * 0 + ((r:Rat) + 1/2) * t.e + t.f + t.e / 2 = t.f + ((r:Rat) + 1) * t.e := by grind
      have e2 : (0 + 1/2) * 0 + ((r:Rat) + 1/2) * t.e + t.f - t.e / 2 = t.f + (r:Rat) * t.e := by grind
      rw [e1, e2]

/-- ... which is `cellarea` evaluated at the latitude of the row's cell centres (section 1) -/
theorem area_geo_at_centre (R2 pi180 fac : Rat) (sinD : Rat → Rat) (t : Aff) (nrow ncol : Nat) :
    areaGrid (cellareaM R2 pi180 sinD) t nrow ncol true false (some fac) =
      .ok ((List.range nrow).map fun (r : Nat) =>
        cellareaM R2 pi180 sinD (xyM t centre (r : Int) (0 : Int)).2 t.a t.e / fac) := by
  simp only [areaGrid, affineToCoords, List.map_map, Bool.false_eq_true, if_false, if_true]
  congr 1
  apply List.map_congr_left
  intro r _
  simp only [Function.comp, xy_app, centre, Aff.app, Rat.intCast_natCast]
  have : ((0 : Int) : Rat) = 0 := rfl
  rw [this]

example : areaGrid (cellareaM 7 (1/10) (fun l => l * l)) ⟨2, 0, 0, 0, -3, 60⟩ 2 4 true false (some 1) =
    .ok [2457/5, 2331/5] := by decide +kernel

/-- **sum over the raster telescopes**: the areas of all cells add up to
`R²·(π/180)·(ncol·|xres|)·(sin(top) − sin(bottom))` for every sine table. -/
theorem sphere_sum (R2 pi180 fac : Rat) (sinD : Rat → Rat) (t : Aff) (hd : t.d = 0) (nrow ncol : Nat)
    (rows : List Rat)
    (h : areaGrid (cellareaM R2 pi180 sinD) t nrow ncol true false (some fac) = .ok rows) :
    areaTotal ncol rows =
      (ncol : Rat) * (R2 * (pi180 * absQ t.a)) *
        (sinD (if t.e < 0 then t.f else t.f + (nrow : Rat) * t.e) -
         sinD (if t.e < 0 then t.f + (nrow : Rat) * t.e else t.f)) / fac := by
  rw [area_geo_rows R2 pi180 fac sinD t hd nrow ncol] at h
  injection h with h
  rw [← h]
  exact sphere_rows_sum R2 pi180 fac sinD t nrow ncol

/-- **global grid = the sphere**: if the columns span 360 degrees and the rows span from +90 to -90 (either
orientation), then for every sine table with `sin 90° = 1`, `sin(-90°) = -1` and `pi = 180·(π/180)` the
areas of all cells add up to `4·pi·R²`. -/
theorem sphere_sum_global (R2 pi180 pi : Rat) (sinD : Rat → Rat) (t : Aff) (hd : t.d = 0) (nrow ncol : Nat)
    (rows : List Rat)
    (h : areaGrid (cellareaM R2 pi180 sinD) t nrow ncol true false (some 1) = .ok rows)
    (hcols : (ncol : Rat) * absQ t.a = 360)
    (hrows : (t.e < 0 ∧ t.f = 90 ∧ t.f + (nrow : Rat) * t.e = -90) ∨
             (0 < t.e ∧ t.f = -90 ∧ t.f + (nrow : Rat) * t.e = 90))
    (hs1 : sinD 90 = 1) (hs2 : sinD (-90) = -1) (hpi : pi = 180 * pi180) :
    areaTotal ncol rows = 4 * pi * R2 := by
  rw [sphere_sum R2 pi180 1 sinD t hd nrow ncol rows h]
  rcases hrows with ⟨he, h1, h2⟩ | ⟨he, h1, h2⟩
  · rw [if_pos he, if_pos he, h2, h1, hs1, hs2]; grind
  · have : ¬ t.e < 0 := by grind
    rw [if_neg this, if_neg this, h2, h1, hs1, hs2]; grind

-- a 4 x 8 global grid of 45-degree cells with the (rational) sine table sin(l) := l/90 on the edges
example : areaGrid (cellareaM 1 (1/60) (fun l => l / 90)) ⟨45, 0, -180, 0, -45, 90⟩ 4 8 true false (some 1) =
      .ok [3/8, 3/8, 3/8, 3/8] ∧ areaTotal 8 [3/8, 3/8, 3/8, 3/8] = 4 * 3 * 1 := by decide +kernel

/-! ## 6. over ℝ: the real sine, π and `Real.sqrt` (Mathlib)

Sections 1-5 treat sine, π, `degree_metres_x/y` and `math.hypot` as parameters of a rational model.  Here
the same formulas are instantiated with Mathlib's `Real.sin`, `Real.pi`, `Real.cos`, `Real.sqrt`
(definitions in `Proofs/C17Real.lean`: `radians x = x·π/180`, `cellareaR` = `gis_utils.cellarea` verbatim,
`rowLat yoff yres r = yoff + (r+½)·yres` = the row latitude of section 1, `hypotR p q = √(p²+q²)`,
`dmyR/dmxR` = `degree_metres_y/x` verbatim). -/

/-- **the rational model of `cellarea` and the real `cellarea` are one formula**: `cellareaM` is
`cellareaG` restricted to rationals (for any sine table `sinD` and any extension `s` of it), and
`cellareaR` is `cellareaG` with `R²`, `π/180` and `sin ∘ radians`. -/
theorem cellarea_model_real (R2 pi180 : ℚ) (sinD : ℚ → ℚ) (s : ℝ → ℝ) (hs : ∀ q : ℚ, s q = sinD q)
    (lat xres yres : ℚ) (R lat' xres' yres' : ℝ) :
    ((cellareaM R2 pi180 sinD lat xres yres : ℚ) : ℝ) = cellareaG R2 pi180 s lat xres yres ∧
    cellareaR R lat' xres' yres' =
      cellareaG (R ^ 2) (Real.pi / 180) (fun d => Real.sin (radians d)) lat' xres' yres' :=
  ⟨cellareaM_cast R2 pi180 sinD s hs lat xres yres, cellareaR_eq R lat' xres' yres'⟩

/-- the rows of the model's `area_grid(latlon=True)` are `cellareaG` at `rowLat yoff yres r` with the
transform's resolutions - the summand of `sphere_sum_real` -/
theorem area_rows_real (R2 pi180 fac : ℚ) (sinD : ℚ → ℚ) (s : ℝ → ℝ) (hs : ∀ q : ℚ, s q = sinD q)
    (t : Aff) (hd : t.d = 0) (nrow ncol : Nat) (rows : List ℚ)
    (h : areaGrid (cellareaM R2 pi180 sinD) t nrow ncol true false (some fac) = .ok rows)
    (r : Nat) (hr : r < nrow) :
    ∃ v, rows[r]? = some v ∧
      (v : ℝ) = cellareaG R2 pi180 s (rowLat t.f t.e r) t.a t.e / fac := by
  rw [area_geo_at_centre] at h
  injection h with h
  subst h
  refine ⟨cellareaM R2 pi180 sinD (xyM t centre (r : Int) (0 : Int)).2 t.a t.e / fac,
    by simp [List.getElem?_map, List.getElem?_range hr], ?_⟩
  have hlat : (xyM t centre (r : Int) (0 : Int)).2 = t.f + ((r : ℚ) + 1 / 2) * t.e := by
    simp only [xy_app, centre, Aff.app, hd]
    push_cast; ring
  rw [hlat, Rat.cast_div, cellareaM_cast R2 pi180 sinD s hs]
  simp only [rowLat]
  push_cast; rfl

/-- **the sphere, over ℝ**: for every `nrow, ncol, xres, yres` with `ncol·|xres| = 360` and
`nrow·|yres| = 180`, rows running from latitude 90 to -90 (north-up, `yres < 0`, `yoff = 90`) or from -90 to
90 (south-up), the sum over all cells of `cellarea` - with the real sine and `radians` exactly as in
`gis_utils.cellarea`, evaluated at each row's centre latitude - is `4·π·R²`. -/
theorem sphere_sum_real_global (R xres yres yoff : ℝ) (nrow ncol : ℕ)
    (hcols : (ncol : ℝ) * |xres| = 360) (hrows : (nrow : ℝ) * |yres| = 180)
    (htop : (yres < 0 ∧ yoff = 90) ∨ (0 < yres ∧ yoff = -90)) :
    ∑ r ∈ Finset.range nrow, ∑ _c ∈ Finset.range ncol, cellareaR R (rowLat yoff yres r) xres yres =
      4 * Real.pi * R ^ 2 :=
  sphere_sum_real R xres yres yoff nrow ncol hcols hrows htop

/-- any geographic raster: the cell areas telescope to `R²·radians(ncol·|xres|)·(sin top − sin bottom)` -/
theorem sphere_sum_real_telescope (R xres yres yoff : ℝ) (nrow ncol : ℕ) :
    ∑ r ∈ Finset.range nrow, ∑ _c ∈ Finset.range ncol, cellareaR R (rowLat yoff yres r) xres yres =
      R ^ 2 * radians ((ncol : ℝ) * |xres|) *
        (if yres < 0 then Real.sin (radians yoff) - Real.sin (radians (yoff + nrow * yres))
         else Real.sin (radians (yoff + nrow * yres)) - Real.sin (radians yoff)) :=
  sphere_sum_real_general R xres yres yoff nrow ncol

-- non-vacuity: a 1-degree global grid (180 x 360) meets the hypotheses
example : ((360 : ℕ) : ℝ) * |(1 : ℝ)| = 360 ∧ ((180 : ℕ) : ℝ) * |(-1 : ℝ)| = 180 ∧ ((-1 : ℝ) < 0 ∧ (90 : ℝ) = 90) := by
  norm_num
example (R : ℝ) : ∑ r ∈ Finset.range 180, ∑ _c ∈ Finset.range 360, cellareaR R (rowLat 90 (-1) r) 1 (-1) =
    4 * Real.pi * R ^ 2 :=
  sphere_sum_real_global R 1 (-1) 90 180 360 (by norm_num) (by norm_num) (Or.inl ⟨by norm_num, rfl⟩)

/-- **`IsHypot` is `Real.sqrt`**: a rational `d` satisfies the model's `IsHypot d p q` iff it is
`√(p² + q²)`; over ℝ the predicate has exactly one solution, `hypotR p q`. -/
theorem hypot_is_sqrt (d p q : ℚ) (d' p' q' : ℝ) :
    (IsHypot d p q ↔ (d : ℝ) = Real.sqrt ((p : ℝ) ^ 2 + (q : ℝ) ^ 2)) ∧
    (IsHypotR d' p' q' ↔ d' = Real.sqrt (p' ^ 2 + q' ^ 2)) :=
  ⟨isHypot_cast d p q, isHypotR_iff d' p' q'⟩

/-- **distance over ℝ = Euclidean distance of the two centres** (projected, any two cells): the real value
`√(leg₁² + leg₂²)` of the model's legs is `√((x₁−x₀)² + (y₁−y₀)²)` for the centre coordinates of section 1 -/
theorem distance_centres_real (dmy dmx : ℚ → ℚ) (t : Aff) (ncol : Nat) (i j : Nat) :
    distR (distLegs dmy dmx t ncol false i j) = Real.sqrt ((specCentreDist2 t ncol i j : ℚ) : ℝ) := by
  have h := distance_centres dmy dmx t ncol i j
  simp only [dist2] at h
  rw [← h]
  simp only [distR, hypotR]; push_cast; ring_nf

/-- **diagonal step over ℝ**: the projected distance between diagonal neighbours is `√(xres² + yres²)` -/
theorem distance_diag_real (dmy dmx : ℚ → ℚ) (t : Aff) (ncol : Nat) (i j : Nat)
    (hrow : absI (((j / ncol : Nat) : Int) - ((i / ncol : Nat) : Int)) = 1)
    (hcol : absI (((j % ncol : Nat) : Int) - ((i % ncol : Nat) : Int)) = 1) :
    distR (distLegs dmy dmx t ncol false i j) = Real.sqrt ((t.a : ℝ) ^ 2 + (t.e : ℝ) ^ 2) := by
  simp only [distR, distLegs, hrow, hcol, Bool.false_eq_true, if_false, hypotR]
  push_cast; ring_nf

/-- **east–west / north–south steps over ℝ**: `|xres|`, `|yres|` -/
theorem distance_ew_real (dmy dmx : ℚ → ℚ) (t : Aff) (ncol : Nat) (i j : Nat)
    (hrow : i / ncol = j / ncol) (hcol : absI (((j % ncol : Nat) : Int) - ((i % ncol : Nat) : Int)) = 1) :
    distR (distLegs dmy dmx t ncol false i j) = |(t.a : ℝ)| := by
  have h0 : absI 0 = 0 := rfl
  simp only [distR, distLegs, hrow, hcol, Int.sub_self, h0, Bool.false_eq_true, if_false]
  push_cast
  rw [mul_zero, hypotR_zero_left, mul_one]

theorem distance_ns_real (dmy dmx : ℚ → ℚ) (t : Aff) (ncol : Nat) (i j : Nat)
    (hcol : i % ncol = j % ncol) (hrow : absI (((j / ncol : Nat) : Int) - ((i / ncol : Nat) : Int)) = 1) :
    distR (distLegs dmy dmx t ncol false i j) = |(t.e : ℝ)| := by
  have h0 : absI 0 = 0 := rfl
  simp only [distR, distLegs, hrow, hcol, Int.sub_self, h0, Bool.false_eq_true, if_false]
  push_cast
  rw [mul_zero, hypotR_zero_right, mul_one]

/-- **geographic distance over ℝ**: the real length of the model's legs is the hypotenuse of the metric
legs at the mean latitude of the two centres -/
theorem distance_geo_real (dmy dmx : ℚ → ℚ) (t : Aff) (ncol : Nat) (i j : Nat) :
    distR (distLegs dmy dmx t ncol true i j) = distR (specGeoLegs dmy dmx t ncol i j) := by
  have h := distance_geo dmy dmx t ncol i j
  simp only [dist2] at h
  simp only [distR]
  apply hypotR_congr
  exact_mod_cast h

-- 3 x 4 cells: the real diagonal is √25 = 5
example : distR (distLegs id id ⟨3, 0, 0, 0, -4, 0⟩ 5 false 7 13) = 5 := by
  rw [distance_diag_real _ _ _ _ _ _ (by decide +kernel) (by decide +kernel)]
  rw [show (((⟨3, 0, 0, 0, -4, 0⟩ : Aff).a : ℚ) : ℝ) ^ 2 + (((⟨3, 0, 0, 0, -4, 0⟩ : Aff).e : ℚ) : ℝ) ^ 2 = 5 ^ 2 by
    norm_num]
  exact Real.sqrt_sq (by norm_num)

/-- **`degree_metres_y/x` as real functions**: both are even in the latitude (the two hemispheres are
treated alike), a degree of latitude has positive length everywhere, a degree of longitude has
non-negative length for `|lat| ≤ 90` and length 0 at the poles. -/
theorem degree_metres_real (lat : ℝ) :
    dmyR (-lat) = dmyR lat ∧ dmxR (-lat) = dmxR lat ∧ 0 < dmyR lat ∧ (|lat| ≤ 90 → 0 ≤ dmxR lat) ∧
    dmxR 90 = 0 ∧ dmxR (-90) = 0 :=
  ⟨dmyR_even lat, dmxR_even lat, dmyR_pos lat, dmxR_nonneg lat, dmxR_pole.1, dmxR_pole.2⟩

/-- hence the metric legs of `distance_geo` need no absolute value around the degree lengths: an
east–west step at latitude `φ` (`|φ| ≤ 90`) is `degree_metres_x(φ)·|Δx|` long, a north–south step
`degree_metres_y(φ)·|Δy|`, and both are the same at `-φ`. -/
theorem geo_step_lengths_real (lat dx dy : ℝ) (h : |lat| ≤ 90) :
    hypotR (dmyR lat * 0) (dmxR lat * dx) = dmxR lat * |dx| ∧
    hypotR (dmyR lat * dy) (dmxR lat * 0) = dmyR lat * |dy| ∧
    hypotR (dmyR (-lat) * dy) (dmxR (-lat) * dx) = hypotR (dmyR lat * dy) (dmxR lat * dx) := by
  refine ⟨geo_step_ew lat dx h, geo_step_ns lat dy, ?_⟩
  rw [dmyR_even, dmxR_even]

end Pf.C17
