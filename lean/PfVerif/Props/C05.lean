import PfVerif.Model.C05
/-! # C05 — basin delineation partitions cells by the outlet they drain to

All theorems quantify over every network `ds`, every downstream-first order `seq` (`Topo`), every
outlet list and id vector; no bound on sizes. `Topo ds seq` is what C03 establishes for the
library's cell order and what the harness re-checks (`isTopo`) on the order actually used. -/
namespace Pf.C05
open Pf

theorem seedLabels_size (n : Nat) (outlets : List Nat) (ids : List Int) :
    (seedLabels n outlets ids).size = n := by
  unfold seedLabels
  generalize (outlets.zip ids) = l
  suffices h : ∀ (a : Array Int), (l.foldl (fun a p => a.setIfInBounds p.1 p.2) a).size = a.size by
    simpa using h (Array.replicate n 0)
  induction l with
  | nil => intro a; rfl
  | cons p l ih => intro a; simp [List.foldl_cons, ih]

/-- **first outlet**: every cell of the network gets the id of the first listed outlet met walking
downstream (0 if a pit is reached first). -/
theorem basins_first_outlet (ds : Array Nat) (seq outlets : List Nat) (ids : List Int)
    (htopo : Topo ds seq) (hb : ∀ i ∈ seq, i < ds.size) :
    ∀ i ∈ seq, FirstValid ds (seedLabels ds.size outlets ids) 0 i (basinsModel ds seq outlets ids)[i]! :=
  fill_first_valid ds _ 0 seq htopo (fun i hi => by rw [seedLabels_size]; exact hb i hi)

/-- the model agrees with the executable declarative walk (the oracle the harness applies to the
implementation's output) wherever the walk terminates -/
theorem basins_eq_spec (ds : Array Nat) (seq outlets : List Nat) (ids : List Int)
    (htopo : Topo ds seq) (hb : ∀ i ∈ seq, i < ds.size) :
    ∀ i ∈ seq, ∀ v, basinSpec ds outlets ids i = some v → (basinsModel ds seq outlets ids)[i]! = v :=
  fill_eq_walk ds _ 0 seq htopo (fun i hi => by rw [seedLabels_size]; exact hb i hi) _

/-- **zero outside**: a cell that is not in the network keeps its seed (0 unless it was listed as
an outlet itself). -/
theorem basins_outside (ds : Array Nat) (seq outlets : List Nat) (ids : List Int)
    (htopo : Topo ds seq) (hb : ∀ i ∈ seq, i < ds.size) :
    ∀ i, i ∉ seq → (basinsModel ds seq outlets ids)[i]! = (seedLabels ds.size outlets ids)[i]! :=
  fill_untouched ds _ 0 seq htopo (fun i hi => by rw [seedLabels_size]; exact hb i hi)

/-- **local recurrence** of the basin map (the fact all closure properties follow from) -/
theorem basins_rec (ds : Array Nat) (seq outlets : List Nat) (ids : List Int)
    (htopo : Topo ds seq) (hb : ∀ i ∈ seq, i < ds.size) (i : Nat) (hi : i ∈ seq) :
    let lab := seedLabels ds.size outlets ids
    let M := basinsModel ds seq outlets ids
    M[i]! = if lab[i]! ≠ 0 then lab[i]! else if ds[i]! = i then 0 else M[ds[i]!]! := by
  intro lab M
  have h := (sweepDown_rec ds (gFillNd 0) lab seq htopo
    (fun i hi => by rw [seedLabels_size]; exact hb i hi)).1 i hi
  show (sweepDown ds (gFillNd 0) seq lab)[i]! = _
  rw [h]
  by_cases h1 : lab[i]! = 0 <;> by_cases h2 : ds[i]! = i <;> simp [gFillNd, h1, h2]
  show (if (sweepDown ds (gFillNd 0) seq lab)[ds[i]!]! = 0 then 0 else _) = (sweepDown ds (gFillNd 0) seq lab)[ds[i]!]!
  split
  · rename_i h3; exact h3.symm
  · rfl

/-- **upstream closed**: if a labelled cell `i` receives flow from `j` then `j` is labelled too, with
`i`'s label unless `j` is itself a listed outlet. -/
theorem upstream_closed (ds : Array Nat) (seq outlets : List Nat) (ids : List Int)
    (htopo : Topo ds seq) (hb : ∀ i ∈ seq, i < ds.size) (i j : Nat) (hj : j ∈ seq)
    (hji : ds[j]! = i) (hne : j ≠ i) (hlab : (basinsModel ds seq outlets ids)[i]! ≠ 0) :
    (basinsModel ds seq outlets ids)[j]! ≠ 0 ∧
    ((seedLabels ds.size outlets ids)[j]! = 0 →
      (basinsModel ds seq outlets ids)[j]! = (basinsModel ds seq outlets ids)[i]!) := by
  have h := basins_rec ds seq outlets ids htopo hb j hj
  simp only at h
  have hp : ds[j]! ≠ j := by rw [hji]; exact fun h => hne h.symm
  by_cases h1 : (seedLabels ds.size outlets ids)[j]! = 0
  · rw [if_neg (by simp [h1]), if_neg hp, hji] at h
    exact ⟨by rw [h]; exact hlab, fun _ => h⟩
  · simp only [ne_eq, h1, not_false_eq_true, if_true] at h
    exact ⟨by rw [h]; exact h1, fun h0 => absurd h0 h1⟩

/-- **unique pit**: if the walk from `i` reaches a labelled pit `p` after `k` steps through
unlabelled non-pit cells, `i` gets `p`'s id — with the default call (outlets = all pits) this is
"the id of the unique pit at which the flow path ends". -/
theorem basins_pit_label (ds : Array Nat) (seq outlets : List Nat) (ids : List Int)
    (htopo : Topo ds seq) (hb : ∀ i ∈ seq, i < ds.size) :
    ∀ (k i : Nat), i ∈ seq →
      (∀ m, m < k → (seedLabels ds.size outlets ids)[iterA ds m i]! = 0 ∧ ds[iterA ds m i]! ≠ iterA ds m i) →
      (seedLabels ds.size outlets ids)[iterA ds k i]! ≠ 0 →
      (basinsModel ds seq outlets ids)[i]! = (seedLabels ds.size outlets ids)[iterA ds k i]! := by
  intro k
  induction k with
  | zero =>
    intro i hi _ hl
    have h := basins_rec ds seq outlets ids htopo hb i hi
    simp only [iterA] at hl
    simp only [ne_eq, hl, not_false_eq_true, if_true] at h
    simpa [iterA] using h
  | succ k ih =>
    intro i hi hpre hl
    have h0 := hpre 0 (Nat.succ_pos k)
    simp only [iterA] at h0
    have hd : ds[i]! ∈ seq := Topo.ds_mem htopo i hi
    have h := basins_rec ds seq outlets ids htopo hb i hi
    simp only [h0.1, ne_eq, not_true_eq_false, if_false, h0.2] at h
    rw [h]
    have := ih ds[i]! hd (fun m hm => by simpa [iterA] using hpre (m+1) (Nat.succ_lt_succ hm))
      (by simpa [iterA] using hl)
    simpa [iterA] using this

/-- `region_outlets` (before sorting) reports exactly the cells of the network that carry a
positive label and whose downstream cell is itself or carries another label. -/
theorem region_outlets_char (ds : Array Nat) (seq : List Nat) (regions : Array Int) (l : Int) (idx : Nat) :
    (l, idx) ∈ regionOutletsRaw ds seq regions ↔
      idx ∈ seq ∧ regions[idx]! = l ∧ l > 0 ∧ (ds[idx]! = idx ∨ regions[ds[idx]!]! ≠ l) := by
  unfold regionOutletsRaw
  simp only [List.mem_map, List.mem_filter, List.mem_reverse, Bool.and_eq_true, decide_eq_true_eq,
    Bool.or_eq_true, beq_iff_eq, bne_iff_ne, ne_eq, Prod.mk.injEq]
  constructor
  · rintro ⟨a, ⟨ha, hpos, hout⟩, hl, rfl⟩
    subst hl
    exact ⟨ha, rfl, hpos, hout⟩
  · rintro ⟨ha, hl, hpos, hout⟩
    subst hl
    exact ⟨idx, ⟨ha, hpos, hout⟩, rfl, rfl⟩

/-- **one outlet per basin**: on a basin map produced from outlets with pairwise distinct non-zero
ids, a cell is reported by the outlet query iff it is a listed outlet (so every basin has exactly
one reported outlet, namely the cell whose downstream cell lies outside the basin or is itself). -/
theorem outlet_query_exact (ds : Array Nat) (seq outlets : List Nat) (ids : List Int)
    (htopo : Topo ds seq) (hb : ∀ i ∈ seq, i < ds.size)
    -- ids are positive and a listed outlet never carries the id of the next outlet downstream
    (hpos : ∀ i ∈ seq, (seedLabels ds.size outlets ids)[i]! ≥ 0)
    (hdist : ∀ i ∈ seq, (seedLabels ds.size outlets ids)[i]! ≠ 0 → ds[i]! ≠ i →
      (basinsModel ds seq outlets ids)[ds[i]!]! ≠ (seedLabels ds.size outlets ids)[i]!)
    (l : Int) (idx : Nat) :
    (l, idx) ∈ regionOutletsRaw ds seq (basinsModel ds seq outlets ids) ↔
      idx ∈ seq ∧ (seedLabels ds.size outlets ids)[idx]! = l ∧ l ≠ 0 := by
  rw [region_outlets_char]
  constructor
  · rintro ⟨hs, hM, hl, hout⟩
    have h := basins_rec ds seq outlets ids htopo hb idx hs
    simp only at h
    by_cases h1 : (seedLabels ds.size outlets ids)[idx]! = 0
    · simp only [h1, ne_eq, not_true_eq_false, if_false] at h
      by_cases h2 : ds[idx]! = idx
      · simp only [h2, if_true] at h; omega
      · simp only [h2, if_false] at h
        rcases hout with ho | ho
        · exact absurd ho h2
        · exact absurd (h ▸ hM) ho
    · simp only [ne_eq, h1, not_false_eq_true, if_true] at h
      exact ⟨hs, by rw [← h, hM], by omega⟩
  · rintro ⟨hs, hl, hne⟩
    have h := basins_rec ds seq outlets ids htopo hb idx hs
    simp only at h
    have h1 : (seedLabels ds.size outlets ids)[idx]! ≠ 0 := by rw [hl]; exact hne
    simp only [ne_eq, h1, not_false_eq_true, if_true] at h
    refine ⟨hs, by rw [h, hl], ?_, ?_⟩
    · have := hpos idx hs; omega
    · by_cases h2 : ds[idx]! = idx
      · exact Or.inl h2
      · exact Or.inr (by rw [← hl]; exact hdist idx hs h1 h2)

/-! ### non-vacuity: a concrete network meets the hypotheses and the conclusions are non-trivial -/
-- chain 2 → 1 → 0 (pit), branch 3 → 1; outlets: pit 0 (id 7) and interior cell 1 (id 9)
example : Topo #[0, 0, 1, 1] [0, 1, 2, 3] := by
  have h0 : Topo #[0, 0, 1, 1] [] := Topo.nil
  have h1 : Topo #[0, 0, 1, 1] ([] ++ [0]) := Topo.snoc h0 (by simp) (Or.inl (by decide))
  have h2 : Topo #[0, 0, 1, 1] ([0] ++ [1]) := Topo.snoc h1 (by simp) (Or.inr (by decide))
  have h3 : Topo #[0, 0, 1, 1] ([0, 1] ++ [2]) := Topo.snoc h2 (by simp) (Or.inr (by decide))
  exact Topo.snoc h3 (by simp) (Or.inr (by decide))
example : basinsModel #[0, 0, 1, 1] [0, 1, 2, 3] [0, 1] [7, 9] = #[7, 9, 9, 9] := by decide
example : regionOutletsRaw #[0, 0, 1, 1] [0, 1, 2, 3] #[7, 9, 9, 9] = [(9, 1), (7, 0)] := by decide

end Pf.C05
