import PfVerif.Proofs.C14_gvf
import PfVerif.Proofs.C14_gvfB
import PfVerif.Proofs.C03Topo
/-! # C14 (and C13), extension `gvf` — `rivers.rivdph_gvf`, the `method='gvf'` branch of `Flwdir.river_depth`

Theorems about the model of `lean/PfVerif/Model/C14_gvf.lean`. The ODE solver is an oracle: the model consumes
a list of recorded answers `(h1, success)` in call order. Every theorem of the first part quantifies over all
networks `ds`, all cell orders `seq` (assuming `Topo ds seq` only where the statement needs it), all initial
depths, **all oracle sequences** (of any length, also too short ones), all `n_iter`, and all loop bodies
(`Kernel`: eligibility test, acceptance test, stored value, bed-level update, solver arguments), hence in
particular for the binary64 instance `gvfKernel` of the second part. No size bounds anywhere.
The correspondence with the code is checked by `harness/props/c14_gvf.py`. -/
namespace Pf.C14g
open Pf

variable {α γ : Type} [Inhabited α]

/-! ## frame -/

/-- **size**: `rivdph_out` keeps the size of `rivdph`. -/
theorem gvf_size (K : Kernel α γ) (ds : Array Nat) (seq : List Nat) (nIter : Nat) (rivdph : Array α)
    (orc : List (Ans α)) : (gvf K ds seq nIter rivdph orc).out.size = rivdph.size :=
  run_inv K ds seq (fun s => s.out.size = rivdph.size)
    (fun zb s i _ h => by rw [step_out_size]; exact h) nIter (start K rivdph orc) rfl

/-- **frame**: a cell that is not in `seq`, or is a pit, or has `qbankfull <= 0` or `rivwth <= 0`
(`K.elig = false`) keeps its initial depth - whatever the oracle answers. -/
theorem gvf_frame (K : Kernel α γ) (ds : Array Nat) (seq : List Nat) (nIter : Nat) (rivdph : Array α)
    (orc : List (Ans α)) (j : Nat) (hj : j ∉ seq ∨ ds[j]! = j ∨ K.elig j = false) :
    (gvf K ds seq nIter rivdph orc).out[j]! = rivdph[j]! := by
  refine run_inv K ds seq (fun s => s.out[j]! = rivdph[j]!) ?_ nIter (start K rivdph orc) rfl
  intro zb s i hi h
  by_cases hij : i = j
  · subst hij
    have hne : eligible K ds i = false := by
      rcases hj with hj | hj | hj
      · exact absurd hi hj
      · simp [eligible, hj]
      · simp [eligible, hj]
    simpa [step, hne] using h
  · rw [step_out_ne _ _ _ _ _ _ hij]; exact h

/-- `n_iter = 0` returns the input (and calls nothing). -/
theorem gvf_zero_iter (K : Kernel α γ) (ds : Array Nat) (seq : List Nat) (rivdph : Array α)
    (orc : List (Ans α)) :
    (gvf K ds seq 0 rivdph orc).out = rivdph ∧ (gvf K ds seq 0 rivdph orc).ev = [] ∧
      (gvf K ds seq 0 rivdph orc).orc = orc := ⟨rfl, rfl, rfl⟩

/-! ## which cells call the solver, in which order, with which answer -/

/-- **the calls**: in every iteration exactly the callers of `seq` - the cells of `seq` that are no pits and
have `qbankfull > 0`, `rivwth > 0` - call the solver, in the order of `seq`: the `k`-th call of an iteration is
for the `k`-th eligible cell of `seq`. -/
theorem gvf_calls (K : Kernel α γ) (ds : Array Nat) (seq : List Nat) (nIter : Nat) (rivdph : Array α)
    (orc : List (Ans α)) :
    (gvf K ds seq nIter rivdph orc).ev.map (·.cell) = repeatList nIter (callers K ds seq) := by
  obtain ⟨new, h1, h2, _, _⟩ := run_spec K ds seq nIter (start K rivdph orc)
  have : (gvf K ds seq nIter rivdph orc).ev = new := h1.trans (List.nil_append new)
  rw [this, h2]

/-- **number of solver calls** = `n_iter × #{eligible cells of seq}` - for every oracle, also an exhausted one. -/
theorem gvf_calls_count (K : Kernel α γ) (ds : Array Nat) (seq : List Nat) (nIter : Nat) (rivdph : Array α)
    (orc : List (Ans α)) :
    (gvf K ds seq nIter rivdph orc).ev.length = nIter * (callers K ds seq).length := by
  have := congrArg List.length (gvf_calls K ds seq nIter rivdph orc)
  simpa [repeatList_length] using this

/-- every call is made by a caller of `seq`. -/
theorem gvf_call_cells (K : Kernel α γ) (ds : Array Nat) (seq : List Nat) (nIter : Nat) (rivdph : Array α)
    (orc : List (Ans α)) : ∀ e ∈ (gvf K ds seq nIter rivdph orc).ev,
      e.cell ∈ seq ∧ ds[e.cell]! ≠ e.cell ∧ K.elig e.cell = true := by
  intro e he
  have hm : e.cell ∈ (gvf K ds seq nIter rivdph orc).ev.map (·.cell) := List.mem_map.2 ⟨e, he, rfl⟩
  rw [gvf_calls] at hm
  have := mem_repeatList _ _ _ hm
  simp only [callers, List.mem_filter] at this
  obtain ⟨h1, h2⟩ := this
  simp only [eligible, Bool.and_eq_true, bne_iff_ne, ne_eq] at h2
  exact ⟨h1, h2.2, h2.1⟩

/-- **oracle consumed in step**: the `k`-th call overall consumes the `k`-th recorded answer (`none` where the
oracle has none), and what is left of the oracle afterwards is everything beyond the first
`n_iter × #eligible` answers. -/
theorem gvf_oracle_in_step (K : Kernel α γ) (ds : Array Nat) (seq : List Nat) (nIter : Nat) (rivdph : Array α)
    (orc : List (Ans α)) :
    (gvf K ds seq nIter rivdph orc).ev.map (·.ans) = takePad (nIter * (callers K ds seq).length) orc ∧
    (gvf K ds seq nIter rivdph orc).orc = orc.drop (nIter * (callers K ds seq).length) := by
  obtain ⟨new, h1, _, h3, h4⟩ := run_spec K ds seq nIter (start K rivdph orc)
  have : (gvf K ds seq nIter rivdph orc).ev = new := h1.trans (List.nil_append new)
  exact ⟨by rw [this, h3]; rfl, h4⟩

/-- pointwise reading of `gvf_oracle_in_step`. -/
theorem gvf_kth_answer (K : Kernel α γ) (ds : Array Nat) (seq : List Nat) (nIter : Nat) (rivdph : Array α)
    (orc : List (Ans α)) (k : Nat) (hk : k < nIter * (callers K ds seq).length) :
    ((gvf K ds seq nIter rivdph orc).ev.map (·.ans))[k]? = some orc[k]? := by
  rw [(gvf_oracle_in_step K ds seq nIter rivdph orc).1, takePad_getElem?]
  simp [hk]

/-- number of calls that found the oracle exhausted. -/
theorem gvf_missing (K : Kernel α γ) (ds : Array Nat) (seq : List Nat) (nIter : Nat) (rivdph : Array α)
    (orc : List (Ans α)) :
    missing (gvf K ds seq nIter rivdph orc).ev = nIter * (callers K ds seq).length - orc.length := by
  have h := (gvf_oracle_in_step K ds seq nIter rivdph orc).1
  have := takePad_none_count (nIter * (callers K ds seq).length) orc
  rw [← h, List.filter_map, List.length_map] at this
  rw [← this]
  rfl

/-- **totality**: given (at least) `n_iter × #eligible` answers the model never runs out of answers; given
exactly that many it consumes all of them. -/
theorem gvf_total (K : Kernel α γ) (ds : Array Nat) (seq : List Nat) (nIter : Nat) (rivdph : Array α)
    (orc : List (Ans α)) (h : nIter * (callers K ds seq).length ≤ orc.length) :
    missing (gvf K ds seq nIter rivdph orc).ev = 0 ∧
    (∀ e ∈ (gvf K ds seq nIter rivdph orc).ev, ∃ a ∈ orc, e.ans = some a) ∧
    (orc.length = nIter * (callers K ds seq).length → (gvf K ds seq nIter rivdph orc).orc = []) := by
  refine ⟨by rw [gvf_missing]; omega, ?_, ?_⟩
  · intro e he
    have hm : e.ans ∈ (gvf K ds seq nIter rivdph orc).ev.map (·.ans) := List.mem_map.2 ⟨e, he, rfl⟩
    rw [(gvf_oracle_in_step K ds seq nIter rivdph orc).1] at hm
    obtain ⟨k, hk, hget⟩ := List.getElem_of_mem hm
    have hk' : k < nIter * (callers K ds seq).length := by simpa [takePad_length] using hk
    have h2 := takePad_getElem? (nIter * (callers K ds seq).length) orc k
    rw [List.getElem?_eq_getElem hk, hget, if_pos hk'] at h2
    have hlt : k < orc.length := by omega
    rw [List.getElem?_eq_getElem hlt] at h2
    exact ⟨orc[k], List.getElem_mem hlt, by simpa using h2⟩
  · intro hlen
    rw [(gvf_oracle_in_step K ds seq nIter rivdph orc).2, ← hlen]
    simp

/-! ## what is stored -/

/-- the accepted flag of every call is the acceptance test applied to the call's own `h0` and answer; a call
without an answer is not accepted. -/
theorem gvf_acc (K : Kernel α γ) (ds : Array Nat) (seq : List Nat) (nIter : Nat) (rivdph : Array α)
    (orc : List (Ans α)) : ∀ e ∈ (gvf K ds seq nIter rivdph orc).ev,
      e.acc = (match e.ans with | some a => K.accept e.cell e.h0 a | none => false) := by
  refine run_inv K ds seq
    (fun s => ∀ e ∈ s.ev, e.acc = (match e.ans with | some a => K.accept e.cell e.h0 a | none => false))
    ?_ nIter (start K rivdph orc) (by simp [start])
  intro zb s i _ h
  unfold step
  split
  · obtain ⟨e, hev, hcell, hh0, _, hans, _, hacc, _⟩ := call_spec K ds zb s i
    rw [hev]
    intro e' he'
    simp only [List.mem_append, List.mem_singleton] at he'
    rcases he' with he' | rfl
    · exact h e' he'
    · rw [hacc, hans, hcell, hh0]
      cases s.orc.head? <;> rfl
  · exact h

/-- **last accepted call wins**: at the end every cell (inside the arrays) holds `max(min_rivdph, h1)`
(`K.store h1`) for the answer `h1` of its LAST accepted call, and its initial depth if none of its calls was
accepted. -/
theorem gvf_value (K : Kernel α γ) (ds : Array Nat) (seq : List Nat) (nIter : Nat) (rivdph : Array α)
    (orc : List (Ans α)) (j : Nat) (hj : j < rivdph.size) :
    (gvf K ds seq nIter rivdph orc).out[j]! = valueAfter K rivdph (gvf K ds seq nIter rivdph orc).ev j := by
  have := run_inv K ds seq (ValueInv K rivdph) (fun zb s i _ h => step_valueInv K ds rivdph zb s i h) nIter
    (start K rivdph orc) ⟨rfl, fun j _ => by simp [start, valueAfter_nil]⟩
  exact this.2 j hj

/-- every cell either keeps its initial depth or holds `K.store h1` for one of the oracle's answers. -/
theorem gvf_changed_holds_store (K : Kernel α γ) (ds : Array Nat) (seq : List Nat) (nIter : Nat)
    (rivdph : Array α) (orc : List (Ans α)) (j : Nat) :
    (gvf K ds seq nIter rivdph orc).out[j]! = rivdph[j]! ∨
      ∃ a ∈ orc, (gvf K ds seq nIter rivdph orc).out[j]! = K.store a.h1 := by
  by_cases hj : j < rivdph.size
  · rw [gvf_value K ds seq nIter rivdph orc j hj]
    unfold valueAfter
    cases hl : lastAcc (gvf K ds seq nIter rivdph orc).ev j with
    | none => exact Or.inl rfl
    | some e =>
      simp only []
      cases ha : e.ans with
      | none => exact Or.inl rfl
      | some a =>
        refine Or.inr ⟨a, ?_, rfl⟩
        have he : e ∈ (gvf K ds seq nIter rivdph orc).ev := by
          have := List.mem_of_find?_eq_some hl
          simpa using this
        have hm : e.ans ∈ (gvf K ds seq nIter rivdph orc).ev.map (·.ans) := List.mem_map.2 ⟨e, he, rfl⟩
        rw [(gvf_oracle_in_step K ds seq nIter rivdph orc).1, ha] at hm
        exact takePad_mem _ _ _ hm
  · left
    have h1 : ¬ j < (gvf K ds seq nIter rivdph orc).out.size := by rw [gvf_size]; exact hj
    simp [getElem!_def, Array.getElem?_eq_none (Nat.le_of_not_lt h1), Array.getElem?_eq_none (Nat.le_of_not_lt hj)]

/-- **every answer rejected ⇒ result = input** (the Manning depth). -/
theorem gvf_all_rejected (K : Kernel α γ) (ds : Array Nat) (seq : List Nat) (nIter : Nat) (rivdph : Array α)
    (orc : List (Ans α)) (hrej : ∀ a ∈ orc, ∀ i h0, K.accept i h0 a = false) :
    (gvf K ds seq nIter rivdph orc).out = rivdph := by
  have := run_inv K ds seq (fun s => s.out = rivdph ∧ ∀ a ∈ s.orc, a ∈ orc) ?_ nIter (start K rivdph orc)
    ⟨rfl, fun a h => h⟩
  · exact this.1
  intro zb s i _ ⟨h1, h2⟩
  unfold step
  split
  · obtain ⟨e, _, _, _, _, _, horc, _, hout⟩ := call_spec K ds zb s i
    refine ⟨?_, fun a ha => h2 a (by rw [horc] at ha; exact List.mem_of_mem_tail ha)⟩
    rw [hout]
    cases hh : s.orc.head? with
    | none => exact h1
    | some a =>
      have : a ∈ s.orc := List.mem_of_mem_head? hh
      simp [hrej a (h2 a this), h1]
  · exact ⟨h1, h2⟩

/-! ## `h0` is the depth stored at the downstream cell at that moment -/

/-- **at that moment**: the call a caller `c` makes after the cells `pre` of the sweep receives as `h0` the
depth stored at its downstream cell after exactly those cells, consumes the first answer that is left and
receives the solver arguments computed from this iteration's bed levels. -/
theorem sweep_call_moment (K : Kernel α γ) (ds : Array Nat) (zb : Array α) (pre : List Nat) (c : Nat)
    (s : St α γ) (hc : eligible K ds c = true) :
    ∃ e : Ev α γ, (sweep K ds zb (pre ++ [c]) s).ev = (sweep K ds zb pre s).ev ++ [e] ∧ e.cell = c ∧
      e.h0 = (sweep K ds zb pre s).out[ds[c]!]! ∧ e.ext = K.ext zb c ∧
      e.ans = (sweep K ds zb pre s).orc.head? := by
  rw [sweep_snoc]
  have : step K ds zb (sweep K ds zb pre s) c = call K ds zb (sweep K ds zb pre s) c := by simp [step, hc]
  rw [this]
  obtain ⟨e, h1, h2, h3, h4, h5, _⟩ := call_spec K ds zb (sweep K ds zb pre s) c
  exact ⟨e, h1, h2, h3, h4, h5⟩

/-- the bed levels an iteration works with are `zs - rivdph_out` of the depths it starts from. -/
theorem run_zb (K : Kernel α γ) (ds : Array Nat) (seq : List Nat) (rivdph : Array α) (orc : List (Ans α)) :
    ∀ n, (run K ds seq n (start K rivdph orc)).1 = K.mkZb (run K ds seq n (start K rivdph orc)).2.out := by
  intro n
  cases n with
  | zero => rfl
  | succ n => rfl

/-- **downstream-first ⇒ already-updated value of the same iteration.** Under `Topo ds seq`, in iteration
`t + 1` exactly the callers of `seq` call, in order, and every call receives as `h0` the depth its downstream
cell holds at the END of that same iteration (the downstream cell was handled before and is not touched
again), together with the solver arguments computed from `zb = zs - (depths after iteration t)`. -/
theorem gvf_h0_topo (K : Kernel α γ) (ds : Array Nat) (seq : List Nat) (htopo : Topo ds seq) (rivdph : Array α)
    (orc : List (Ans α)) (t : Nat) :
    ∃ new, (gvf K ds seq (t + 1) rivdph orc).ev = (gvf K ds seq t rivdph orc).ev ++ new ∧
      new.map (·.cell) = callers K ds seq ∧
      ∀ e ∈ new, e.h0 = (gvf K ds seq (t + 1) rivdph orc).out[ds[e.cell]!]! ∧
        e.ext = K.ext (K.mkZb (gvf K ds seq t rivdph orc).out) e.cell := by
  obtain ⟨new, h1, h2, _, _, h5⟩ := sweep_spec K ds (run K ds seq t (start K rivdph orc)).1 seq
    (run K ds seq t (start K rivdph orc)).2
  obtain ⟨new', g1, g2⟩ := sweep_h0_topo K ds (run K ds seq t (start K rivdph orc)).1 htopo
    (run K ds seq t (start K rivdph orc)).2
  have hnn : new = new' := List.append_cancel_left (h1.symm.trans g1)
  subst hnn
  refine ⟨new, h1, h2, fun e he => ⟨(g2 e he).2.2, ?_⟩⟩
  rw [h5 e he, run_zb]
  rfl

/-! ## closed recursive form: one iteration is an instance of the shared `sweepDown` -/

/-- the depths after `n` iterations in the position-indexed form: iteration `t` is the shared down-to-upstream
sweep `sweepDown` whose loop body gives cell `i` the `(t·m + position of i among the callers)`-th answer -/
def recForm (K : Kernel α γ) (ds : Array Nat) (seq : List Nat) (orc : List (Ans α)) (n : Nat)
    (rivdph : Array α) : Array α :=
  (List.range n).foldl
    (fun out t => sweepDown ds (gStep K ds seq (orc.drop (t * (callers K ds seq).length))) seq out) rivdph

/-- **the model equals the position-indexed `sweepDown` form** (the driver's `spec.rec`). -/
theorem gvf_eq_rec (K : Kernel α γ) (ds : Array Nat) (seq : List Nat) (htopo : Topo ds seq) (rivdph : Array α)
    (orc : List (Ans α)) : ∀ nIter, (gvf K ds seq nIter rivdph orc).out = recForm K ds seq orc nIter rivdph := by
  intro nIter
  induction nIter with
  | zero => rfl
  | succ n ih =>
    have horc := (gvf_oracle_in_step K ds seq n rivdph orc).2
    unfold recForm
    rw [List.range_succ, List.foldl_append]
    simp only [List.foldl_cons, List.foldl_nil]
    show (sweep K ds _ seq (run K ds seq n (start K rivdph orc)).2).out = _
    rw [sweep_eq_sweepDown K ds _ htopo]
    have e1 : (run K ds seq n (start K rivdph orc)).2.orc = orc.drop (n * (callers K ds seq).length) := horc
    have e2 : (run K ds seq n (start K rivdph orc)).2.out = recForm K ds seq orc n rivdph := ih
    rw [e1, e2]
    rfl

/-- the same with the executable order check (what the driver reports as `topo`). -/
theorem gvf_eq_rec_checked (K : Kernel α γ) (ds : Array Nat) (seq : List Nat) (h : isTopo ds seq = true)
    (rivdph : Array α) (orc : List (Ans α)) (nIter : Nat) :
    (gvf K ds seq nIter rivdph orc).out = recForm K ds seq orc nIter rivdph :=
  gvf_eq_rec K ds seq (isTopo_sound' ds seq h).1 rivdph orc nIter

/-- **recurrence of one iteration** (no state threading left): with `R` the depths after iteration `t + 1`,
`R₀` those after iteration `t` and `a` the answer with index `t·m + (position of i among the callers)`:
a caller `i` holds `store a.h1` if `accept i R[ds i] a` - the test sees the downstream cell's value of the SAME
iteration - and `R₀[i]` otherwise; every other cell holds `R₀[i]`. -/
theorem gvf_rec (K : Kernel α γ) (ds : Array Nat) (seq : List Nat) (htopo : Topo ds seq) (rivdph : Array α)
    (orc : List (Ans α)) (hb : ∀ i ∈ seq, i < rivdph.size) (t : Nat) :
    let R := (gvf K ds seq (t + 1) rivdph orc).out
    let R₀ := (gvf K ds seq t rivdph orc).out
    (∀ i ∈ seq, eligible K ds i = true →
      R[i]! = (match (orc.drop (t * (callers K ds seq).length))[posOf K ds seq i]? with
               | some a => if K.accept i R[ds[i]!]! a then K.store a.h1 else R₀[i]!
               | none => R₀[i]!)) ∧
    (∀ i, i ∉ seq ∨ eligible K ds i = false → R[i]! = R₀[i]!) := by
  intro R R₀
  have hR : R = sweepDown ds (gStep K ds seq (orc.drop (t * (callers K ds seq).length))) seq R₀ := by
    show (gvf K ds seq (t + 1) rivdph orc).out = _
    rw [gvf_eq_rec K ds seq htopo rivdph orc (t + 1)]
    unfold recForm
    rw [List.range_succ, List.foldl_append]
    simp only [List.foldl_cons, List.foldl_nil]
    show sweepDown ds _ seq (recForm K ds seq orc t rivdph) = _
    rw [← gvf_eq_rec K ds seq htopo rivdph orc t]
  have hb' : ∀ i ∈ seq, i < R₀.size := fun i hi => by
    show i < (gvf K ds seq t rivdph orc).out.size
    rw [gvf_size]; exact hb i hi
  obtain ⟨h1, h2⟩ := sweepDown_rec ds (gStep K ds seq (orc.drop (t * (callers K ds seq).length))) R₀ seq htopo hb'
  rw [← hR] at h1 h2
  refine ⟨fun i hi hel => ?_, fun i hi => ?_⟩
  · rw [h1 i hi]
    have hp : ds[i]! ≠ i := eligible_not_pit K ds i hel
    simp only [gStep, hel, if_true, hp, if_false]
    cases (orc.drop (t * (callers K ds seq).length))[posOf K ds seq i]? <;> rfl
  · rcases hi with hi | hi
    · exact h2 i hi
    · by_cases hm : i ∈ seq
      · rw [h1 i hm]; simp [gStep, hi]
      · exact h2 i hm

/-! ## the binary64 instance -/

/-- eligibility spelled out: the cell is skipped iff `qbankfull <= 0` or `rivwth <= 0` (IEEE comparisons: a NaN
discharge or width does not skip). -/
theorem gvfKernel_elig (P : GvfParams) (ds : Array Nat) (i : Nat) :
    (gvfKernel P ds).elig i = true ↔ fLe P.qbankfull[i]! fZero = false ∧ fLe P.rivwth[i]! fZero = false := by
  simp [gvfKernel]

/-- the acceptance test spelled out: accepted iff the solver reports success, `h1 < 0` is false and
`abs((h1 - h0) / dx) > 1` is false (IEEE semantics: a NaN quotient, e.g. `0/0` for `dx = 0`, is not `> 1`). -/
theorem gvfAccept_iff (P : GvfParams) (ds : Array Nat) (i h0 : Nat) (a : Ans Nat) :
    gvfAccept P ds i h0 a = true ↔
      a.ok = true ∧ fLt a.h1 fZero = false ∧
      fGt (fAbs (fDiv (fSub a.h1 h0) (gvfDx P ds i))) fOne = false := by
  simp [gvfAccept]
  constructor
  · intro ⟨⟨h1, h2⟩, h3⟩; exact ⟨h3, h2, h1⟩
  · intro ⟨h1, h2, h3⟩; exact ⟨⟨h3, h2⟩, h1⟩

/-- an answer with `success = False` is rejected, and so is a negative `h1`. -/
theorem gvfAccept_rejects (P : GvfParams) (ds : Array Nat) (i h0 : Nat) (a : Ans Nat)
    (h : a.ok = false ∨ fLt a.h1 fZero = true) : gvfAccept P ds i h0 a = false := by
  rcases h with h | h <;> simp [gvfAccept, h]

/-- Python's `max(m, h)` is at least `m` in the IEEE order, unless `m` is NaN. -/
theorem pyMax_ge (m h : Nat) (hm : fIsNaN m = false) : fLe m (pyMax m h) = true := by
  unfold pyMax
  split
  · rename_i hgt
    simp only [fGt, fLt, Bool.and_eq_true, Bool.not_eq_true', decide_eq_true_eq] at hgt
    simp only [fLe, Bool.and_eq_true, Bool.not_eq_true', decide_eq_true_eq]
    exact ⟨⟨hgt.1.1, hgt.1.2⟩, Int.le_of_lt hgt.2⟩
  · simp [fLe, hm]

/-- `max(m, h)` is `h` or `m`: the stored depth is a copy, no arithmetic is involved. -/
theorem pyMax_cases (m h : Nat) : pyMax m h = h ∨ pyMax m h = m := by
  unfold pyMax; split <;> simp

/-- **changed cells are ≥ `min_rivdph`**: every cell of the result either keeps its initial (Manning) depth or
holds `max(min_rivdph, h1)` for an oracle answer `h1`, which is `>= min_rivdph`. -/
theorem rivdphGvf_ge_min (P : GvfParams) (ds : Array Nat) (seq : List Nat) (nIter : Nat) (rivdph : Array Nat)
    (orc : List (Ans Nat)) (hmin : fIsNaN P.minDph = false) (j : Nat) :
    (rivdphGvf P ds seq nIter rivdph orc).out[j]! = rivdph[j]! ∨
      (fLe P.minDph (rivdphGvf P ds seq nIter rivdph orc).out[j]! = true ∧
        ∃ a ∈ orc, (rivdphGvf P ds seq nIter rivdph orc).out[j]! = pyMax P.minDph a.h1) := by
  rcases gvf_changed_holds_store (gvfKernel P ds) ds seq nIter rivdph orc j with h | ⟨a, ha, h⟩
  · exact Or.inl h
  · refine Or.inr ⟨?_, a, ha, h⟩
    show fLe P.minDph (gvf (gvfKernel P ds) ds seq nIter rivdph orc).out[j]! = true
    rw [h]
    exact pyMax_ge _ _ hmin

/-- **all solver calls failed (or returned negative depths) ⇒ the Manning depths are returned unchanged.** -/
theorem rivdphGvf_all_failed (P : GvfParams) (ds : Array Nat) (seq : List Nat) (nIter : Nat) (rivdph : Array Nat)
    (orc : List (Ans Nat)) (h : ∀ a ∈ orc, a.ok = false ∨ fLt a.h1 fZero = true) :
    (rivdphGvf P ds seq nIter rivdph orc).out = rivdph :=
  gvf_all_rejected (gvfKernel P ds) ds seq nIter rivdph orc
    (fun a ha i h0 => gvfAccept_rejects P ds i h0 a (h a ha))

/-- frame of the instance: cells outside `seq`, pits and cells with `qbankfull <= 0` or `rivwth <= 0` keep
their depth bit for bit, and the array keeps its size. -/
theorem rivdphGvf_frame (P : GvfParams) (ds : Array Nat) (seq : List Nat) (nIter : Nat) (rivdph : Array Nat)
    (orc : List (Ans Nat)) :
    (rivdphGvf P ds seq nIter rivdph orc).out.size = rivdph.size ∧
    ∀ j, (j ∉ seq ∨ ds[j]! = j ∨ fLe P.qbankfull[j]! fZero = true ∨ fLe P.rivwth[j]! fZero = true) →
      (rivdphGvf P ds seq nIter rivdph orc).out[j]! = rivdph[j]! := by
  refine ⟨gvf_size _ ds seq nIter rivdph orc, fun j hj => gvf_frame _ ds seq nIter rivdph orc j ?_⟩
  rcases hj with hj | hj | hj | hj
  · exact Or.inl hj
  · exact Or.inr (Or.inl hj)
  · exact Or.inr (Or.inr (by simp [gvfKernel, hj]))
  · exact Or.inr (Or.inr (by simp [gvfKernel, hj]))

/-! ## non-vacuity: a concrete network, real binary64 values, a scripted oracle

Cells `1 → 0`, `2 → 1`, `3 → 1`; pits `0` and `4`; cell `3` has `qbankfull = 0`. Depths `[1.5, 1.25, 1.0, 2.0, 1.0]`,
`zs = [0, 0.5, 1, 1.25, 3]`, `rivdst = [0, 100, 250, 175, 0]`, `min_rivslp = 1e-5`, `min_rivdph = 1`, `n_iter = 2`.
The callers are `[1, 2]`; the oracle answers `1.5` (accepted), `-1.0` (negative: rejected), `0.25` (accepted, stored
as `max(1, 0.25) = 1.0`: the LAST accepted call of cell 1 wins over the `1.5` of the first iteration), `2.0` with
`success = False` (rejected). The fourth call receives `h0 = 1.0`, the value cell 1 got in the same iteration;
the slopes `0.0075, 0.005, 0.005, 0.00666…` are computed by the model's own binary64 arithmetic from the bed levels
of each iteration. The implementation returns exactly these bit patterns on this input (harness regression
`lean-example`). -/

def exDs : Array Nat := #[0, 0, 1, 1, 4]
def exSeq : List Nat := [0, 4, 1, 2, 3]
def exP : GvfParams where
  zs := #[0, 4602678819172646912, 4607182418800017408, 4608308318706860032, 4613937818241073152]
  rivdst := #[0, 4636737291354636288, 4643000109586448384, 4640361281679785984, 0]
  qbankfull := #[4635329916471083008, 4633641066610819072, 4626322717216342016, 0, 4617315517961601024]
  rivwth := #[4629137466983448576, 4627730092099895296, 4621819117588971520, 4621819117588971520, 4617315517961601024]
  manning := #[4584304132692975288, 4584304132692975288, 4584304132692975288, 4584304132692975288, 4584304132692975288]
  minSlp := 4532020583610935537
  minDph := 4607182418800017408
def exDph : Array Nat :=
  #[4609434218613702656, 4608308318706860032, 4607182418800017408, 4611686018427387904, 4607182418800017408]
def exOrc : List (Ans Nat) :=
  [⟨4609434218613702656, true⟩, ⟨13830554455654793216, true⟩, ⟨4598175219545276416, true⟩, ⟨4611686018427387904, false⟩]

example : isTopo exDs exSeq = true := by decide +kernel
example : callers (gvfKernel exP exDs) exDs exSeq = [1, 2] := by decide +kernel
example : (rivdphGvf exP exDs exSeq 2 exDph exOrc).out =
    #[4609434218613702656, 4607182418800017408, 4607182418800017408, 4611686018427387904, 4607182418800017408] := by
  decide +kernel
example : (rivdphGvf exP exDs exSeq 2 exDph exOrc).ev.map (·.cell) = [1, 2, 1, 2] := by decide +kernel
example : (rivdphGvf exP exDs exSeq 2 exDph exOrc).ev.map (·.acc) = [true, false, true, false] := by decide +kernel
example : (rivdphGvf exP exDs exSeq 2 exDph exOrc).ev.map (·.h0) =
    [4609434218613702656, 4609434218613702656, 4609434218613702656, 4607182418800017408] := by decide +kernel
example : (rivdphGvf exP exDs exSeq 2 exDph exOrc).ev.map (·.ext.slp) =
    [4575296933438234296, 4572414629676717179, 4572414629676717179, 4574336165517728591] := by decide +kernel
example : (rivdphGvf exP exDs exSeq 2 exDph exOrc).ev.map (·.ext.dx) =
    [4636737291354636288, 4639481672377565184, 4636737291354636288, 4639481672377565184] := by decide +kernel
/-- after ONE iteration cell 1 holds 1.5: the result of `n_iter = 2` above is not what one iteration gives -/
example : (rivdphGvf exP exDs exSeq 1 exDph exOrc).out[1]! = 4609434218613702656 := by decide +kernel
/-- an oracle that is one answer short: the fourth call finds none and is counted as missing -/
example : missing (rivdphGvf exP exDs exSeq 2 exDph (exOrc.take 3)).ev = 1 ∧
    (rivdphGvf exP exDs exSeq 2 exDph (exOrc.take 3)).ev.length = 4 := by decide +kernel
/-- the position-indexed `sweepDown` form on the same input -/
example : recForm (gvfKernel exP exDs) exDs exSeq exOrc 2 exDph =
    #[4609434218613702656, 4607182418800017408, 4607182418800017408, 4611686018427387904, 4607182418800017408] := by
  decide +kernel
/-- the binary64 layer on a few values: `1.0 - 0.25 = 0.75`, `1.0 / 3.0 = 0.333…` (rounded), `0.0 / 0.0 = NaN`,
`-1.0 < 0.0`, `NaN <= 0.0` is false, `max(1.0, 0.25) = 1.0`, `max(1.0, NaN) = 1.0` -/
example : fSub 4607182418800017408 4598175219545276416 = 4604930618986332160 ∧
    fDiv 4607182418800017408 4613937818241073152 = 4599676419421066581 ∧
    fDiv 0 0 = canonNaN ∧ fLt 13830554455654793216 0 = true ∧ fLe canonNaN 0 = false ∧
    pyMax 4607182418800017408 4598175219545276416 = 4607182418800017408 ∧
    pyMax 4607182418800017408 canonNaN = 4607182418800017408 := by decide +kernel

end Pf.C14g
