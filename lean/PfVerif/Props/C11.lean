import PfVerif.Proofs.C11Trace
import PfVerif.Proofs.C11Total
import PfVerif.Proofs.C11Main
import PfVerif.Proofs.C11Coords
/-! # C11 — path tracing and snapping follow the network and stop exactly where specified

All theorems quantify over every next-cell array `nxt` (downstream indices `idxs_ds`, or the
main-upstream indices), every start cell, mask, `max_length`, step-length function and fuel; no bound
on sizes. `traceFrom` (`Model/Core.lean`) is the model of the `while` loop of `core._trace`; `fuel`
replaces `while True` and the result `none` means "did not end within `fuel` iterations".

Vocabulary (declarative, `Model/C11.lean`): `iterA nxt k s` = k-th cell of the walk from `s`;
`cumLen nxt step s m` = sum of the first `m` step lengths; `stopAt … s m` = the `m`-th cell is flagged
in the mask, or is a pit / has no next cell, or the next step would make the travelled length exceed
`max_length`; `pathTo nxt s m = [iter 0 s, …, iter m s]`. -/
namespace Pf.C11
open Pf

/-! ## 1. the trace -/

/-- **trace = specification** (all inputs): the loop returns exactly what the declarative search for
the least stopping index returns, and runs out of fuel exactly when there is none below `fuel`. -/
theorem trace_eq_spec (nxt : Array Nat) (mask : Option (Array Bool)) (maxLen : Option Int)
    (step : Nat → Nat → Int) (fuel s : Nat) :
    traceFrom nxt mask maxLen step fuel s = specTrace nxt mask maxLen step fuel s := by
  unfold traceFrom specTrace
  cases h : leastFrom (stopAt nxt mask maxLen step s) fuel 0 with
  | some m =>
    obtain ⟨_, hm, hstop, hleast⟩ := leastFrom_some _ _ _ _ h
    have := trace_complete_gen nxt mask maxLen step s m hstop (fun k hk => hleast k (Nat.zero_le _) hk)
      fuel 0 (Nat.zero_le _) (by omega)
    simpa [pathTo, cumLen, iterA] using this
  | none =>
    have hn := leastFrom_none _ _ _ h
    have := trace_none_gen nxt mask maxLen step s fuel 0 [s] (fun k hk1 hk2 => hn k hk1 hk2)
    simpa [cumLen, iterA] using this


-- non-vacuity: chain 4 → 3 → 2 → 1 → 0 (pit), cell units scaled by 4; max_length 2.5 cells stops the
-- walk after two steps; the loop 0 → 1 → 2 → 0 stops only through max_length, and not at all without
example : traceFrom #[0,0,1,2,3] none (some 10) (stepConst 4) 6 4 = some ([4,3,2], 8) := by decide
example : specTrace #[0,0,1,2,3] none (some 10) (stepConst 4) 6 4 = some ([4,3,2], 8) := by decide
example : traceFrom #[1,2,0] none (some 20) (stepConst 4) 7 0 = some ([0,1,2,0,1,2], 20) := by decide
example : traceFrom #[1,2,0] none none (stepConst 4) 50 0 = none ∧
    specTrace #[1,2,0] none none (stepConst 4) 50 0 = none := by decide

/-- **characterisation** (`trace_prefix` + `trace_stop` + `dist_sum` in one statement): the loop
returns `(p, d)` iff for the least stopping index `m` (which is then `< fuel`)
`p = [iter 0 s, …, iter m s]` and `d = Σ_{k<m} step (iter k s) (iter (k+1) s)`. -/
theorem trace_char (nxt : Array Nat) (mask : Option (Array Bool)) (maxLen : Option Int)
    (step : Nat → Nat → Int) (fuel s : Nat) (p : List Nat) (d : Int) :
    traceFrom nxt mask maxLen step fuel s = some (p, d) ↔
      ∃ m, m < fuel ∧ stopAt nxt mask maxLen step s m = true ∧
        (∀ k, k < m → stopAt nxt mask maxLen step s k = false) ∧
        p = pathTo nxt s m ∧ d = cumLen nxt step s m := by
  rw [trace_eq_spec]
  unfold specTrace
  constructor
  · intro h
    cases hl : leastFrom (stopAt nxt mask maxLen step s) fuel 0 with
    | none => rw [hl] at h; cases h
    | some m =>
      rw [hl] at h
      simp only [Option.map_some, Option.some.injEq, Prod.mk.injEq] at h
      obtain ⟨_, hm, hstop, hleast⟩ := leastFrom_some _ _ _ _ hl
      exact ⟨m, by omega, hstop, fun k hk => hleast k (Nat.zero_le _) hk, h.1.symm, h.2.symm⟩
  · rintro ⟨m, hm, hstop, hleast, rfl, rfl⟩
    cases hl : leastFrom (stopAt nxt mask maxLen step s) fuel 0 with
    | none =>
      have := leastFrom_none _ _ _ hl m (Nat.zero_le _) (by omega)
      rw [hstop] at this; cases this
    | some m' =>
      obtain ⟨_, _, hstop', hleast'⟩ := leastFrom_some _ _ _ _ hl
      have : m' = m := by
        by_cases h1 : m' < m
        · have := hleast m' h1; rw [hstop'] at this; cases this
        · by_cases h2 : m < m'
          · have := hleast' m (Nat.zero_le _) h2; rw [hstop] at this; cases this
          · omega
      subst this; rfl


-- non-vacuity: the least stopping index of the example above is 2 (index 1 is not a stop)
example : stopAt #[0,0,1,2,3] none (some 10) (stepConst 4) 4 2 = true ∧
    stopAt #[0,0,1,2,3] none (some 10) (stepConst 4) 4 1 = false ∧
    pathTo #[0,0,1,2,3] 4 2 = [4,3,2] ∧ cumLen #[0,0,1,2,3] (stepConst 4) 4 2 = 8 := by decide

/-- **trace_prefix**: a returned path is the sequence `start, nxt(start), nxt(nxt(start)), …`:
its `k`-th entry is the `k`-fold next cell of the start, it starts at the start cell and every
entry is the next cell of its predecessor. -/
theorem trace_prefix (nxt : Array Nat) (mask : Option (Array Bool)) (maxLen : Option Int)
    (step : Nat → Nat → Int) (fuel s : Nat) (p : List Nat) (d : Int)
    (h : traceFrom nxt mask maxLen step fuel s = some (p, d)) :
    p ≠ [] ∧ p.length ≤ fuel ∧ p[0]? = some s ∧
    (∀ k, k < p.length → p[k]? = some (iterA nxt k s)) ∧
    (∀ k a b, p[k]? = some a → p[k+1]? = some b → b = nxt[a]!) := by
  obtain ⟨m, hm, _, _, rfl, _⟩ := (trace_char ..).1 h
  have hlen : (pathTo nxt s m).length = m + 1 := by simp [pathTo]
  have hget : ∀ k, k < m + 1 → (pathTo nxt s m)[k]? = some (iterA nxt k s) := by
    intro k hk; simp [pathTo, hk]
  refine ⟨(by intro h0; rw [h0] at hlen; cases hlen), by omega, by simpa [iterA] using hget 0 (by omega),
    fun k hk => hget k (by omega), fun k a b ha hb => ?_⟩
  have hk1 : k + 1 < m + 1 := by
    have := (List.getElem?_eq_some_iff.1 hb).1; omega
  rw [hget k (by omega)] at ha
  rw [hget (k+1) hk1] at hb
  simp only [Option.some.injEq] at ha hb
  rw [← hb, ← ha, iterA_succ'_c11]

/-- **trace_stop**: the walk ends at the *first* cell that is flagged in the mask, or is a pit / has
no next cell, or from which the next step would make the travelled length exceed `max_length`:
the last cell of the path satisfies one of the three conditions, no earlier cell satisfies any. -/
theorem trace_stop (nxt : Array Nat) (mask : Option (Array Bool)) (maxLen : Option Int)
    (step : Nat → Nat → Int) (fuel s : Nat) (p : List Nat) (d : Int)
    (h : traceFrom nxt mask maxLen step fuel s = some (p, d)) :
    let m := p.length - 1
    let c := iterA nxt m s
    (maskHit mask c = true ∨ nxt[c]! = c ∨ nxt[c]! = nxt.size ∨
      (∃ ml, maxLen = some ml ∧ cumLen nxt step s m + step c nxt[c]! > ml)) ∧
    ∀ k, k < m →
      maskHit mask (iterA nxt k s) = false ∧ nxt[iterA nxt k s]! ≠ iterA nxt k s ∧
      nxt[iterA nxt k s]! ≠ nxt.size ∧ (∀ ml, maxLen = some ml → cumLen nxt step s (k+1) ≤ ml) := by
  obtain ⟨m, hm, hstop, hleast, rfl, _⟩ := (trace_char ..).1 h
  have hlen : (pathTo nxt s m).length - 1 = m := by simp [pathTo]
  simp only [hlen]
  constructor
  · simp only [stopAt, Bool.or_eq_true, beq_iff_eq] at hstop
    rcases hstop with ((h1 | h1) | h1) | h1
    · exact Or.inl h1
    · exact Or.inr (Or.inl h1)
    · exact Or.inr (Or.inr (Or.inl h1))
    · refine Or.inr (Or.inr (Or.inr ?_))
      cases maxLen with
      | none => simp [overLen] at h1
      | some ml => exact ⟨ml, rfl, by simpa [overLen] using h1⟩
  · intro k hk
    obtain ⟨h1, h2, h3⟩ := stopAt_false (hleast k hk)
    refine ⟨h1, fun h => h2 (Or.inl h), fun h => h2 (Or.inr h), fun ml hml => ?_⟩
    subst hml
    simp only [overLen, decide_eq_false_iff_not, Int.not_lt] at h3
    simpa [cumLen, iterA_succ'_c11] using h3


-- non-vacuity: each stop reason occurs. max_length exactly on a step boundary (2 cells) still takes
-- the step, a quarter cell less does not; a flagged cell ends the walk (also the start cell itself)
example : traceFrom #[0,0,1,2,3] none (some 8) (stepConst 4) 6 4 = some ([4,3,2], 8) := by decide
example : traceFrom #[0,0,1,2,3] none (some 7) (stepConst 4) 6 4 = some ([4,3], 4) := by decide
example : traceFrom #[0,0,1,2,3] (some #[false,true,false,false,false]) none (stepConst 4) 6 4 =
    some ([4,3,2,1], 12) := by decide
example : traceFrom #[0,0,1,2,3] (some #[false,false,false,false,true]) none (stepConst 4) 6 4 =
    some ([4], 0) := by decide
example : traceFrom #[0,0,1,2,3] none none (stepConst 4) 6 4 = some ([4,3,2,1,0], 16) := by decide

/-- **dist_sum**: the reported length is the sum of the step lengths along the returned path. -/
theorem dist_sum (nxt : Array Nat) (mask : Option (Array Bool)) (maxLen : Option Int)
    (step : Nat → Nat → Int) (fuel s : Nat) (p : List Nat) (d : Int)
    (h : traceFrom nxt mask maxLen step fuel s = some (p, d)) :
    d = cumLen nxt step s (p.length - 1) := by
  obtain ⟨m, _, _, _, rfl, rfl⟩ := (trace_char ..).1 h
  simp [pathTo]

/-- **dist_cells**: in cell units (every step has length `one`) the length is `one` per step,
i.e. `one * (number of cells on the path - 1)`. -/
theorem dist_cells (nxt : Array Nat) (mask : Option (Array Bool)) (maxLen : Option Int)
    (one : Int) (fuel s : Nat) (p : List Nat) (d : Int)
    (h : traceFrom nxt mask maxLen (stepConst one) fuel s = some (p, d)) :
    d = one * ((p.length - 1 : Nat) : Int) := by
  rw [dist_sum _ _ _ _ _ _ _ _ h, cumLen_const]

/-- **never beyond `max_length`**: with a non-negative `max_length` the reported length does not
exceed it (and by `trace_stop` one more step would, unless the walk ended for another reason). -/
theorem dist_le_max (nxt : Array Nat) (mask : Option (Array Bool)) (ml : Int)
    (step : Nat → Nat → Int) (fuel s : Nat) (p : List Nat) (d : Int) (hml : 0 ≤ ml)
    (h : traceFrom nxt mask (some ml) step fuel s = some (p, d)) : d ≤ ml := by
  have hs := (trace_stop _ _ _ _ _ _ _ _ h).2
  rw [dist_sum _ _ _ _ _ _ _ _ h]
  cases hm : p.length - 1 with
  | zero => simpa [cumLen] using hml
  | succ m => exact (hs m (by omega)).2.2.2 ml rfl

/-- **snap_last**: snapping returns the last cell of the path for the same arguments — the
`m`-fold next cell of the start for the least stopping index `m` — and the same length. -/
theorem snap_last (nxt : Array Nat) (mask : Option (Array Bool)) (maxLen : Option Int)
    (step : Nat → Nat → Int) (fuel s : Nat) :
    snapOne nxt mask maxLen step fuel s = specSnap nxt mask maxLen step fuel s ∧
    ∀ p d, traceFrom nxt mask maxLen step fuel s = some (p, d) →
      snapOne nxt mask maxLen step fuel s = some (iterA nxt (p.length - 1) s, d) ∧
      p.getLast? = some (iterA nxt (p.length - 1) s) := by
  have hlast : ∀ m, (pathTo nxt s m).getLast? = some (iterA nxt m s) := by
    intro m; simp [pathTo, List.range_succ]
  constructor
  · unfold snapOne specSnap
    rw [trace_eq_spec]; unfold specTrace
    cases leastFrom (stopAt nxt mask maxLen step s) fuel 0 with
    | none => rfl
    | some m => simp [hlast]
  · intro p d h
    obtain ⟨m, _, _, _, rfl, rfl⟩ := (trace_char ..).1 h
    have hlen : (pathTo nxt s m).length - 1 = m := by simp [pathTo]
    refine ⟨by simp [snapOne, h, hlast, hlen], ?_⟩
    rw [hlen]; exact hlast m


example : snapOne #[0,0,1,2,3] none (some 10) (stepConst 4) 6 4 = some (2, 8) := by decide
example : snapOne #[0,0,1,2,3] (some #[false,true,false,false,false]) none (stepConst 4) 6 4 = some (1, 12) := by decide

/-- **every start cell independently**: `core.path` / `core.snap` return, per start cell, the
specified trace / its last cell. -/
theorem path_all_starts (nxt : Array Nat) (mask : Option (Array Bool)) (maxLen : Option Int)
    (step : Nat → Nat → Int) (fuel : Nat) (starts : List Nat) :
    pathModel nxt mask maxLen step fuel starts = starts.map (specTrace nxt mask maxLen step fuel) ∧
    snapModel nxt mask maxLen step fuel starts = starts.map (specSnap nxt mask maxLen step fuel) := by
  constructor
  · unfold pathModel
    exact List.map_congr_left (fun s _ => trace_eq_spec ..)
  · unfold snapModel
    exact List.map_congr_left (fun s _ => (snap_last ..).1)

/-! ## 2. termination (`trace_total`) -/

/-- the loop ends within `fuel` iterations iff some cell among the first `fuel` cells of the walk
satisfies a stop condition -/
theorem trace_total_iff (nxt : Array Nat) (mask : Option (Array Bool)) (maxLen : Option Int)
    (step : Nat → Nat → Int) (fuel s : Nat) :
    (traceFrom nxt mask maxLen step fuel s).isSome = true ↔
      ∃ k, k < fuel ∧ stopAt nxt mask maxLen step s k = true := by
  rw [trace_eq_spec]; unfold specTrace
  constructor
  · intro h
    cases hl : leastFrom (stopAt nxt mask maxLen step s) fuel 0 with
    | none => rw [hl] at h; cases h
    | some m =>
      obtain ⟨_, hm, hstop, _⟩ := leastFrom_some _ _ _ _ hl
      exact ⟨m, by omega, hstop⟩
  · rintro ⟨k, hk, hstop⟩
    have := leastFrom_isSome _ fuel 0 k (Nat.zero_le _) (by omega) hstop
    simpa using this

/-- loop-free networks, downstream direction: from a cell of a downstream-first order `seq`
(every cell that reaches a pit has one, C03) the trace ends within `seq.length` iterations,
whatever the mask and `max_length`. -/
theorem trace_total_topo (ds : Array Nat) (seq : List Nat) (htopo : Topo ds seq)
    (mask : Option (Array Bool)) (maxLen : Option Int) (step : Nat → Nat → Int) (fuel s : Nat)
    (hs : s ∈ seq) (hfuel : seq.length ≤ fuel) :
    (traceFrom ds mask maxLen step fuel s).isSome = true := by
  obtain ⟨k, hk, hp⟩ := htopo.reaches_pit s hs
  exact (trace_total_iff ..).2 ⟨k, by omega, stopAt_of_end (Or.inl hp)⟩


-- non-vacuity of the hypothesis: a concrete downstream-first order
example : Topo #[0, 0, 1, 1] [0, 1, 2, 3] := by
  have h0 : Topo #[0, 0, 1, 1] [] := Topo.nil
  have h1 : Topo #[0, 0, 1, 1] ([] ++ [0]) := Topo.snoc h0 (by simp) (Or.inl (by decide))
  have h2 : Topo #[0, 0, 1, 1] ([0] ++ [1]) := Topo.snoc h1 (by simp) (Or.inr (by decide))
  have h3 : Topo #[0, 0, 1, 1] ([0, 1] ++ [2]) := Topo.snoc h2 (by simp) (Or.inr (by decide))
  exact Topo.snoc h3 (by simp) (Or.inr (by decide))

/-- a flagged cell on the walk ends the trace (also on networks with loops) -/
theorem trace_total_mask (nxt : Array Nat) (mask : Option (Array Bool)) (maxLen : Option Int)
    (step : Nat → Nat → Int) (fuel s k : Nat) (hk : k < fuel) (hm : maskHit mask (iterA nxt k s) = true) :
    (traceFrom nxt mask maxLen step fuel s).isSome = true :=
  (trace_total_iff ..).2 ⟨k, hk, stopAt_of_mask hm⟩

/-- networks with loops: if every step has length at least one (scaled) unit and `max_length` is
finite, the trace ends within `max_length + 1` iterations. -/
theorem trace_total_maxlen (nxt : Array Nat) (mask : Option (Array Bool)) (ml : Int)
    (step : Nat → Nat → Int) (hstep : ∀ i j, 1 ≤ step i j) (fuel s : Nat) (hfuel : ml.toNat < fuel) :
    (traceFrom nxt mask (some ml) step fuel s).isSome = true := by
  refine (trace_total_iff ..).2 ⟨ml.toNat, hfuel, stopAt_of_over ?_⟩
  have h1 := cumLen_ge nxt step s hstep ml.toNat
  have h2 := hstep (iterA nxt ml.toNat s) nxt[iterA nxt ml.toNat s]!
  omega

/-- networks with loops, general form: if every step is at least `δ > 0` long and `max_length` is
finite, the trace ends within `⌊max_length / δ⌋ + 1` iterations (immediately for a negative one). -/
theorem trace_total_maxlen_pos (nxt : Array Nat) (mask : Option (Array Bool)) (ml δ : Int)
    (step : Nat → Nat → Int) (hδ : 0 < δ) (hstep : ∀ i j, δ ≤ step i j) (fuel s : Nat)
    (hfuel : (ml / δ).toNat < fuel) :
    (traceFrom nxt mask (some ml) step fuel s).isSome = true := by
  refine (trace_total_iff ..).2 ⟨(ml / δ).toNat, hfuel, stopAt_of_over ?_⟩
  have h1 := cumLen_ge_mul nxt step s δ hstep (ml / δ).toNat
  have h2 := hstep (iterA nxt (ml / δ).toNat s) nxt[iterA nxt (ml / δ).toNat s]!
  by_cases hml : 0 ≤ ml
  · have hq : 0 ≤ ml / δ := Int.ediv_nonneg hml (by omega)
    have hc : (((ml / δ).toNat : Nat) : Int) = ml / δ := Int.toNat_of_nonneg hq
    rw [hc] at h1
    have h3 := Int.lt_ediv_add_one_mul_self ml hδ
    rw [Int.add_mul, Int.one_mul, Int.mul_comm] at h3
    omega
  · have hq : ml / δ < 0 := Int.ediv_neg_of_neg_of_pos (by omega) hδ
    have hc : (ml / δ).toNat = 0 := by omega
    rw [hc] at h1 h2 ⊢
    simp only [cumLen] at *
    omega

-- non-vacuity: on the loop 0 → 1 → 2 → 0 with steps of 4 and max_length 20 the bound 20/4 + 1 = 6 is attained
example : (traceFrom #[1,2,0] none (some 20) (stepConst 4) 6 0).isSome = true ∧
    traceFrom #[1,2,0] none (some 20) (stepConst 4) 5 0 = none := by decide

/-- general form: a measure that strictly decreases along the walk (on the cells satisfying an
invariant `P`) bounds the number of iterations. -/
theorem trace_total_measure (nxt : Array Nat) (P : Nat → Prop) (μ : Nat → Nat)
    (hμ : ∀ c, P c → nxt[c]! ≠ c → nxt[c]! ≠ nxt.size → P nxt[c]! ∧ μ nxt[c]! < μ c)
    (mask : Option (Array Bool)) (maxLen : Option Int) (step : Nat → Nat → Int) (fuel s : Nat)
    (hs : P s) (hfuel : μ s < fuel) :
    (traceFrom nxt mask maxLen step fuel s).isSome = true := by
  obtain ⟨k, hk, hend⟩ := exists_end_of_measure nxt P μ hμ (μ s) s hs (Nat.le_refl _)
  exact (trace_total_iff ..).2 ⟨k, by omega, stopAt_of_end hend⟩

/-! ## 3. main upstream cell (`main_argmax`) -/

/-- `us` is a valid main-upstream array: per cell `j`, either the missing value and no inflowing
cell has an area above `upaMin`, or an inflowing cell with area above `upaMin` that is largest
among all inflowing cells of `j`. -/
def MainArgmax (ds : Array Nat) (uparea : Array Int) (upaMin : Int) (us : Array Nat) : Prop :=
  ∀ j, j < ds.size →
    (us[j]! = ds.size ∧ ∀ i, i < ds.size → ds[i]! = j → i ≠ j → uparea[i]! ≤ upaMin) ∨
    (us[j]! < ds.size ∧ ds[us[j]!]! = j ∧ us[j]! ≠ j ∧ upaMin < uparea[us[j]!]! ∧
      ∀ i, i < ds.size → ds[i]! = j → i ≠ j → uparea[i]! ≤ uparea[us[j]!]!)

/-- **main_argmax**: `main_upstream` returns, for every cell, the inflowing cell with the largest
upstream area (the lowest index among equals), and the missing value iff no inflowing cell has an
area above the threshold. -/
theorem mainUpstream_argmax (ds : Array Nat) (uparea : Array Int) (upaMin : Int) :
    (mainUpstream ds uparea upaMin).size = ds.size ∧
    MainArgmax ds uparea upaMin (mainUpstream ds uparea upaMin) ∧
    ∀ j, j < ds.size → ∀ i, i < (mainUpstream ds uparea upaMin)[j]! → ds[i]! = j → i ≠ j →
      (mainUpstream ds uparea upaMin)[j]! < ds.size → uparea[i]! < uparea[(mainUpstream ds uparea upaMin)[j]!]! := by
  have h := mainInv_fold ds uparea upaMin ds.size (Nat.le_refl _)
  rw [mainUpstream_eq_c11]
  obtain ⟨st, hst⟩ : ∃ st, st = (List.range ds.size).foldl (mainStep_c11 ds uparea)
      (Array.replicate ds.size ds.size, Array.replicate ds.size upaMin) := ⟨_, rfl⟩
  rw [← hst] at h ⊢
  obtain ⟨hs1, hs2, hinv⟩ := h
  refine ⟨hs1, fun j hj => ?_, fun j hj i hi hd hne hlt => ?_⟩
  · rcases hinv j hj with ⟨a, b, c⟩ | ⟨a, b, c, d, e, f, g⟩
    · exact Or.inl ⟨a, c⟩
    · exact Or.inr ⟨a, b, c, by omega, fun i hi hd hne => by have := f i hi hd hne; omega⟩
  · rcases hinv j hj with ⟨a, b, c⟩ | ⟨a, b, c, d, e, f, g⟩
    · omega
    · have := g i hi hd hne; omega


-- non-vacuity: cells 1, 2 (area 2 each) flow into 0, cells 3, 4 (area 1 each) into 1; ties go to the
-- lowest index; 5 = missing value
example : mainUpstream #[0,0,0,1,1] #[5,2,2,1,1] 0 = #[1,3,5,5,5] := by decide

/-- soundness of the certificate the harness evaluates on the implementation's `idxs_us_main` -/
theorem isMainArgmax_sound (ds : Array Nat) (uparea : Array Int) (upaMin : Int) (us : Array Nat)
    (h : isMainArgmax ds uparea upaMin us = true) : MainArgmax ds uparea upaMin us := by
  simp only [isMainArgmax, Bool.and_eq_true, List.all_eq_true, List.mem_range, beq_iff_eq] at h
  intro j hj
  have hjj := h.2 j hj
  by_cases hn : us[j]! = ds.size
  · rw [if_pos hn] at hjj
    simp only [List.all_eq_true, List.mem_range] at hjj
    refine Or.inl ⟨hn, fun i hi hd hne => ?_⟩
    have := hjj i hi
    simp only [inflow, Bool.or_eq_true, Bool.not_eq_true', Bool.and_eq_false_iff, decide_eq_false_iff_not,
      beq_eq_false_iff_ne, bne_eq_false_iff_eq, decide_eq_true_eq] at this
    rcases this with ((h1 | h1) | h1) | h1
    · omega
    · exact absurd hd h1
    · exact absurd h1 hne
    · exact h1
  · rw [if_neg hn] at hjj
    simp only [Bool.and_eq_true, List.all_eq_true, List.mem_range, decide_eq_true_eq, inflow,
      beq_iff_eq, bne_iff_ne] at hjj
    obtain ⟨⟨⟨⟨h1, h2⟩, h3⟩, h4⟩, h5⟩ := hjj
    refine Or.inr ⟨h1, h2, h3, h4, fun i hi hd hne => ?_⟩
    have := h5 i hi
    simp only [Bool.or_eq_true, Bool.not_eq_true', Bool.and_eq_false_iff, decide_eq_false_iff_not,
      beq_eq_false_iff_ne, bne_eq_false_iff_eq, decide_eq_true_eq] at this
    rcases this with ((g1 | g1) | g1) | g1
    · omega
    · exact absurd hd g1
    · exact absurd g1 hne
    · exact g1


-- the certificate accepts the other tie-break as well, and rejects a non-maximal choice
example : isMainArgmax #[0,0,0,1,1] #[5,2,2,1,1] 0 #[2,4,5,5,5] = true := by decide
example : isMainArgmax #[0,0,0,1,1] #[5,2,3,1,1] 0 #[1,4,5,5,5] = false := by decide

/-- **upstream paths follow the main upstream cell**: along a path traced on any valid
main-upstream array (the model's, or an implementation output accepted by the certificate) every
cell is an inflowing cell of its predecessor with the largest upstream area among all inflowing
cells, and all cells are inside the network. -/
theorem path_up_follows_main (ds : Array Nat) (uparea : Array Int) (upaMin : Int) (us : Array Nat)
    (hsz : us.size = ds.size) (hus : MainArgmax ds uparea upaMin us)
    (mask : Option (Array Bool)) (maxLen : Option Int) (step : Nat → Nat → Int) (fuel s : Nat)
    (hs : s < ds.size) (p : List Nat) (d : Int)
    (h : traceFrom us mask maxLen step fuel s = some (p, d)) :
    ∀ k a b, p[k]? = some a → p[k+1]? = some b →
      a < ds.size ∧ b < ds.size ∧ ds[b]! = a ∧ b ≠ a ∧
      ∀ i, i < ds.size → ds[i]! = a → i ≠ a → uparea[i]! ≤ uparea[b]! := by
  obtain ⟨hne, _, _, hget, hstep⟩ := trace_prefix _ _ _ _ _ _ _ _ h
  have hstop := (trace_stop _ _ _ _ _ _ _ _ h).2
  -- every cell of the path is in range
  have hrange : ∀ k, k < p.length → iterA us k s < ds.size := by
    intro k
    induction k with
    | zero => intro _; simpa [iterA] using hs
    | succ k ih =>
      intro hk
      have hk' := ih (by omega)
      obtain ⟨_, h2, h3, _⟩ := hstop k (by omega)
      rw [iterA_succ'_c11]
      rcases hus _ hk' with ⟨a, _⟩ | ⟨a, _⟩
      · rw [hsz] at h3; exact absurd a h3
      · exact a
  intro k a b ha hb
  have hk1 : k + 1 < p.length := (List.getElem?_eq_some_iff.1 hb).1
  have hb' := hstep k a b ha hb
  rw [hget k (by omega)] at ha
  simp only [Option.some.injEq] at ha
  have hka := hrange k (by omega)
  obtain ⟨_, h2, h3, _⟩ := hstop k (by omega)
  rw [ha] at hka h2 h3
  rcases hus a hka with ⟨g, _⟩ | ⟨g1, g2, g3, _, g5⟩
  · rw [hsz] at h3; exact absurd g h3
  · subst hb'; exact ⟨hka, g1, g2, g3, g5⟩


example : traceFrom (mainUpstream #[0,0,0,1,1] #[5,2,2,1,1] 0) none none (stepConst 1) 6 0 =
    some ([0,1,3], 2) := by decide

/-- **termination in the upstream direction** (rank form): if some rank strictly increases against
the flow (`rk (ds i) < rk i` for every non-pit cell) and is bounded by `B`, a trace on the
main-upstream array of the model ends within `B + 1` iterations from every cell of the network. -/
theorem trace_total_up (ds : Array Nat) (uparea : Array Int) (upaMin : Int) (rk : Nat → Nat) (B : Nat)
    (hrk : ∀ i, i < ds.size → ds[i]! ≠ i → ds[i]! < ds.size → rk ds[i]! < rk i)
    (hB : ∀ i, i < ds.size → rk i ≤ B)
    (mask : Option (Array Bool)) (maxLen : Option Int) (step : Nat → Nat → Int) (fuel s : Nat)
    (hs : s < ds.size) (hfuel : B < fuel) :
    (traceFrom (mainUpstream ds uparea upaMin) mask maxLen step fuel s).isSome = true := by
  obtain ⟨hsz, hmain, _⟩ := mainUpstream_argmax ds uparea upaMin
  refine trace_total_measure _ (fun c => c < ds.size) (fun c => B - rk c) ?_ mask maxLen step fuel s hs
    (by have := hB s hs; omega)
  intro c hc h1 h2
  rcases hmain c hc with ⟨a, _⟩ | ⟨a, b, c', _, _⟩
  · rw [hsz] at h2; exact absurd a h2
  · refine ⟨a, ?_⟩
    have h3 := hrk _ a (by rw [b]; exact Ne.symm c') (by rw [b]; exact hc)
    rw [b] at h3
    have := hB _ a
    omega

/-- loop-free networks, upstream direction: if a downstream-first order `seq` contains every valid
cell, the upstream trace ends within `seq.length + 1` iterations. -/
theorem trace_total_up_topo (ds : Array Nat) (seq : List Nat) (htopo : Topo ds seq)
    (hall : ∀ i, i < ds.size → ds[i]! < ds.size → i ∈ seq)
    (uparea : Array Int) (upaMin : Int)
    (mask : Option (Array Bool)) (maxLen : Option Int) (step : Nat → Nat → Int) (fuel s : Nat)
    (hs : s < ds.size) (hfuel : seq.length < fuel) :
    (traceFrom (mainUpstream ds uparea upaMin) mask maxLen step fuel s).isSome = true := by
  refine trace_total_up ds uparea upaMin (fun i => seq.idxOf i) seq.length ?_ (fun i _ => List.idxOf_le_length)
    mask maxLen step fuel s hs hfuel
  intro i hi hne hlt
  exact htopo.idxOf_lt i (hall i hi hlt) hne

/-! ## 4. step lengths -/

/-- **projected grids**: when the model's integer square root is exact (the harness' Pythagorean
cell sizes), the step length is the non-negative number whose square is
`(yres·|Δrow|)² + (xres·|Δcol|)²` — the Euclidean distance between the two cell centres. -/
theorem distProj_exact (ncol : Nat) (xres yres : Int) (i j : Nat)
    (h : distProjExact ncol xres yres i j = true) :
    0 ≤ distProj ncol xres yres i j ∧
    distProj ncol xres yres i j * distProj ncol xres yres i j =
      (yres * (absDiff_c11 (i / ncol) (j / ncol) : Nat)) * (yres * (absDiff_c11 (i / ncol) (j / ncol) : Nat)) +
      (xres * (absDiff_c11 (i % ncol) (j % ncol) : Nat)) * (xres * (absDiff_c11 (i % ncol) (j % ncol) : Nat)) := by
  simp only [distProjExact, beq_iff_eq] at h
  refine ⟨by simp [distProj], ?_⟩
  unfold distProj
  have hnn : 0 ≤ (yres * (absDiff_c11 (i / ncol) (j / ncol) : Nat)) * (yres * (absDiff_c11 (i / ncol) (j / ncol) : Nat)) +
      (xres * (absDiff_c11 (i % ncol) (j % ncol) : Nat)) * (xres * (absDiff_c11 (i % ncol) (j % ncol) : Nat)) :=
    Int.add_nonneg (int_mul_self_nonneg _) (int_mul_self_nonneg _)
  have hsq : ((distProjSq ncol xres yres i j : Nat) : Int) = _ := Int.toNat_of_nonneg hnn
  rw [← hsq]; exact_mod_cast h


-- non-vacuity: 3 x 4 cells (scaled by 4): east-west 12, north-south 16, diagonal 20; a path on a
-- 3-column raster 8 → 7 → 4 → 0 has length 12 + 16 + 20 = 48, max_length exactly 48 is reached
example : distProj 3 12 (-16) 0 1 = 12 ∧ distProj 3 12 (-16) 0 3 = 16 ∧ distProj 3 12 (-16) 0 4 = 20 ∧
    distProjExact 3 12 (-16) 0 4 = true := by decide +kernel
example : traceFrom #[0,0,1,2,0,4,7,4,7] none (some 48) (distProj 3 12 (-16)) 9 8 =
    some ([8,7,4,0], 48) := by decide +kernel
example : traceFrom #[0,0,1,2,0,4,7,4,7] none (some 47) (distProj 3 12 (-16)) 9 8 =
    some ([8,7,4], 28) := by decide +kernel

/-! ## 5. starting points given as coordinates (`xy_start`) -/

/-- **index of a point = the cell containing it** (unrotated transform, both signs of the cell
sizes): `coords_to_idxs` returns `r * ncol + c` iff the point lies in column interval `c` and row
interval `r` of the raster, and raises (`none`) iff it lies in no cell of the raster. -/
theorem cellOf_iff (nrow ncol : Nat) (x0 y0 xres yres x y : Int) (hx : xres ≠ 0) (hy : yres ≠ 0) (i : Nat) :
    cellOf nrow ncol x0 y0 xres yres x y = some i ↔
      ∃ r c, r < nrow ∧ c < ncol ∧ i = r * ncol + c ∧ InCell x0 xres c x ∧ InCell y0 yres r y := by
  unfold cellOf
  constructor
  · intro h
    dsimp only at h
    split at h
    · rename_i hc
      obtain ⟨h1, h2, h3, h4⟩ := hc
      simp only [Option.some.injEq] at h
      refine ⟨(floorDiv (y - y0) yres).toNat, (floorDiv (x - x0) xres).toNat, by omega, by omega, h.symm,
        inCell_floorDiv x0 xres x hx h3, inCell_floorDiv y0 yres y hy h1⟩
    · cases h
  · rintro ⟨r, c, hr, hc, rfl, hcx, hry⟩
    have e1 := floorDiv_of_inCell x0 xres x c hx hcx
    have e2 := floorDiv_of_inCell y0 yres y r hy hry
    dsimp only
    rw [e1, e2, if_pos (by omega)]
    simp


-- non-vacuity: 3 x 4 raster, origin (10, 20), cells 2 wide and 3 high (north-up); the upper and left
-- edges belong to the cell, points right of the raster raise
example : cellOf 3 4 10 20 2 (-3) 15 15 = some 6 ∧ cellOf 3 4 10 20 2 (-3) 15 14 = some 10 ∧
    cellOf 3 4 10 20 2 (-3) 18 14 = none := by decide
example : InCell 10 2 2 15 ∧ InCell 20 (-3) 1 15 := by decide

/-- **xy_start**: a path / snap requested for a point behaves as the one requested for the cell
containing the point. -/
theorem xy_start (nrow ncol : Nat) (x0 y0 xres yres x y : Int) (hx : xres ≠ 0) (hy : yres ≠ 0)
    (r c : Nat) (hr : r < nrow) (hc : c < ncol) (hcx : InCell x0 xres c x) (hry : InCell y0 yres r y)
    (nxt : Array Nat) (mask : Option (Array Bool)) (maxLen : Option Int) (step : Nat → Nat → Int) (fuel : Nat) :
    traceXY nrow ncol x0 y0 xres yres x y nxt mask maxLen step fuel =
      some (traceFrom nxt mask maxLen step fuel (r * ncol + c)) := by
  unfold traceXY
  rw [(cellOf_iff nrow ncol x0 y0 xres yres x y hx hy (r * ncol + c)).2 ⟨r, c, hr, hc, rfl, hcx, hry⟩]
  rfl

end Pf.C11
