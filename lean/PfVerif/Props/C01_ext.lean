import PfVerif.Proofs.C01_ext
import PfVerif.Proofs.C01_extNup
import PfVerif.Props.C01
/-! # C01 extension — the per-cell helpers of the flow-direction formats, the degree queries and the
composed `from_array` theorem

Models: `Model/C01_ext.lean` (`core_d8|core_ldd._downstream_idx`, `core_d8|core_ldd._upstream_idx`, `ispit` /
`isnodata` of the three formats, `core.headwater_indices`, `core.confluence_indices`). Specification tables:
the hand-typed compass / keypad tables `Spec.d8Dirs`, `Spec.lddDirs`, pit and nodata codes of
`Model/C01.lean` — nothing is retyped.

Every theorem holds for **every** shape `nrow × ncol` (`1 × N`, `N × 1` included; a cell `i < nrow * ncol`
exists only when both are positive), every raster over `uint8` codes unless a legality hypothesis is written
out, and every cell. The missing value `core._mv` is `nrow * ncol` (`ds.size` for networks).

`_downstream_idx` is **not** the rule of `from_array`: a link that leaves the raster gives the missing value
(there: a pit), the target's nodata is not looked at (there: a pit); `downstream_vs_decode` states the exact
relation. At a *nodata code* the helper is outside the property (nodata cells are not part of the graph);
what the code does there is recorded by `d8_downstream_nodata` (the cell itself) and `ldd_downstream_nodata`
(`drdc(255) = (-1, -9)`: the cell nine columns to the left in the row above, or the missing value). -/
namespace Pf.C01x
open Pf Pf.Fd Pf.Fd.Spec Pf.Fd.Ext

/-! ## 1. regenerated tables (tie 1) -/

/-- the model's `drdc` functions are what /repo contains on **all** 256 `uint8` values (the obligation of
`Props/C01.lean` covers the legal alphabet; `_downstream_idx` is modelled on every code) -/
theorem drdc_all_codes_ok :
    (∀ v, v < 256 → Generated.d8Drdc[v]! = d8Drdc v) ∧ (∀ v, v < 256 → Generated.lddDrdc[v]! = lddDrdc v) := by
  decide +kernel

/-- the `_us` tables of /repo are the model's -/
theorem us_tables_ok : Generated.d8Us = d8Us ∧ Generated.lddUs = lddUs := by decide

/-- the `_us` tables agree with the hand-typed direction tables: the entry at offset `(dr, dc)` is the code
whose compass / keypad delta is `(-dr, -dc)`, every direction code occurs (at the opposite of its delta), no
direction code is a pit or nodata code -/
theorem d8_us_ok : usOK d8Dirs d8Pits d8Nodata d8Us = true := by decide +kernel
theorem ldd_us_ok : usOK lddDirs lddPits lddNodata lddUs = true := by decide +kernel

/-! ## 2. `_downstream_idx` -/

/-- **D8 `_downstream_idx`, compass form**: a cell with direction code `v ↦ (dr, dc)` of the compass table
(1=E, 2=SE, 4=S, 8=SW, 16=W, 32=NW, 64=N, 128=NE) gets the cell at `(row + dr, col + dc)` — proved to have
that row and column — iff this position is on the raster, and the missing value otherwise. -/
theorem d8_downstream_idx (nrow ncol : Nat) (codes : Array Nat) (i : Nat) (hi : i < nrow * ncol)
    (dr dc : Int) (hv : (codes[i]!, (dr, dc)) ∈ d8Dirs) :
    let k := downstreamIdxD8 nrow ncol codes i
    let r : Int := (i / ncol : Nat) + dr
    let c : Int := (i % ncol : Nat) + dc
    (inRaster nrow ncol r c = true →
      k = cellIdx ncol r c ∧ k < nrow * ncol ∧ ((k / ncol : Nat) : Int) = r ∧ ((k % ncol : Nat) : Int) = c) ∧
    (inRaster nrow ncol r c = false → k = nrow * ncol) :=
  (tab_downstream_cases C01.d8_drdc_ok d8_us_ok nrow ncol codes i hi).2 (dr, dc) hv

/-- **LDD `_downstream_idx`, keypad form** (`7 8 9 / 4 5 6 / 1 2 3`) -/
theorem ldd_downstream_idx (nrow ncol : Nat) (codes : Array Nat) (i : Nat) (hi : i < nrow * ncol)
    (dr dc : Int) (hv : (codes[i]!, (dr, dc)) ∈ lddDirs) :
    let k := downstreamIdxLdd nrow ncol codes i
    let r : Int := (i / ncol : Nat) + dr
    let c : Int := (i % ncol : Nat) + dc
    (inRaster nrow ncol r c = true →
      k = cellIdx ncol r c ∧ k < nrow * ncol ∧ ((k / ncol : Nat) : Int) = r ∧ ((k % ncol : Nat) : Int) = c) ∧
    (inRaster nrow ncol r c = false → k = nrow * ncol) :=
  (tab_downstream_cases C01.ldd_drdc_ok ldd_us_ok nrow ncol codes i hi).2 (dr, dc) hv

/-- a pit code (D8: 0 and 255, LDD: 5) gives the cell itself -/
theorem downstream_idx_pit (nrow ncol : Nat) (codes : Array Nat) (i : Nat) (hi : i < nrow * ncol) :
    (codes[i]! ∈ d8Pits → downstreamIdxD8 nrow ncol codes i = i) ∧
    (codes[i]! ∈ lddPits → downstreamIdxLdd nrow ncol codes i = i) :=
  ⟨(tab_downstream_cases C01.d8_drdc_ok d8_us_ok nrow ncol codes i hi).1,
   (tab_downstream_cases C01.ldd_drdc_ok ldd_us_ok nrow ncol codes i hi).1⟩

/-- **`_downstream_idx` = the declarative reading** `Spec.downOf` on every legal code other than nodata, both
formats (the statement the driver's `spec.down` is compared under) -/
theorem downstream_eq_spec (nrow ncol : Nat) (codes : Array Nat) (i : Nat) (hi : i < nrow * ncol) :
    (codes[i]! ∈ d8Alphabet → codes[i]! ≠ d8Nodata →
      downstreamIdxD8 nrow ncol codes i = downOf nrow ncol (readD8 ncol codes) i) ∧
    (codes[i]! ∈ lddAlphabet → codes[i]! ≠ lddNodata →
      downstreamIdxLdd nrow ncol codes i = downOf nrow ncol (readLdd ncol codes) i) :=
  ⟨tab_downstream_eq C01.d8_drdc_ok nrow ncol codes i hi, tab_downstream_eq C01.ldd_drdc_ok nrow ncol codes i hi⟩

/-- what the code does at a D8 nodata code (outside the property): `drdc(247) = (0, 0)`, the cell itself -/
theorem d8_downstream_nodata (nrow ncol : Nat) (codes : Array Nat) (i : Nat) (hi : i < nrow * ncol)
    (h : codes[i]! = d8Nodata) : downstreamIdxD8 nrow ncol codes i = i :=
  downstreamIdx_zero nrow ncol codes i hi (by rw [h]; decide +kernel)

/-- what the code does at an LDD nodata code (outside the property): `drdc(255) = (-1, -9)`, so the result is
the cell nine columns to the left in the row above when that is on the raster, and the missing value
otherwise — *not* the cell itself -/
theorem ldd_downstream_nodata (nrow ncol : Nat) (codes : Array Nat) (i : Nat) (h : codes[i]! = lddNodata) :
    downstreamIdxLdd nrow ncol codes i =
      if inRaster nrow ncol (((i / ncol : Nat) : Int) + -1) (((i % ncol : Nat) : Int) + -9)
      then cellIdx ncol (((i / ncol : Nat) : Int) + -1) (((i % ncol : Nat) : Int) + -9) else nrow * ncol := by
  have hd : lddDrdc codes[i]! = (-1, -9) := by rw [h]; decide +kernel
  unfold downstreamIdxLdd
  rw [downstreamIdx_eq, hd]

/-- **`_downstream_idx` next to the decoded graph of `core_d8.from_array`** (legal rasters), case by case:
* nodata cell: outside the decoded graph;
* pit code: both give the cell itself;
* direction code whose designated neighbour is on the raster and not nodata: `_downstream_idx` **equals** the
  decoded `idxs_ds` (and is that neighbour);
* neighbour on the raster but nodata: decoded as a pit, `_downstream_idx` still returns the neighbour;
* neighbour off the raster: decoded as a pit, `_downstream_idx` returns the missing value. -/
theorem d8_downstream_vs_decode (nrow ncol : Nat) (codes : Array Nat)
    (hlegal : ∀ i, i < nrow * ncol → codes[i]! ∈ d8Alphabet) (i : Nat) (hi : i < nrow * ncol) :
    let dec := (fromArrayD8 nrow ncol codes).ds[i]!
    let k := downstreamIdxD8 nrow ncol codes i
    (codes[i]! = d8Nodata → dec = nrow * ncol) ∧
    (codes[i]! ∈ d8Pits → dec = i ∧ k = i) ∧
    (∀ d, (codes[i]!, d) ∈ d8Dirs →
      let r : Int := ((i / ncol : Nat) : Int) + d.1
      let c : Int := ((i % ncol : Nat) : Int) + d.2
      (inRaster nrow ncol r c = true → codes[cellIdx ncol r c]! ≠ d8Nodata → dec = cellIdx ncol r c ∧ k = cellIdx ncol r c) ∧
      (inRaster nrow ncol r c = true → codes[cellIdx ncol r c]! = d8Nodata → dec = i ∧ k = cellIdx ncol r c) ∧
      (inRaster nrow ncol r c = false → dec = i ∧ k = nrow * ncol)) :=
  tab_down_vs_decode C01.d8_drdc_ok d8_us_ok nrow ncol codes hlegal i hi

/-- the same for `core_ldd` -/
theorem ldd_downstream_vs_decode (nrow ncol : Nat) (codes : Array Nat)
    (hlegal : ∀ i, i < nrow * ncol → codes[i]! ∈ lddAlphabet) (i : Nat) (hi : i < nrow * ncol) :
    let dec := (fromArrayLdd nrow ncol codes).ds[i]!
    let k := downstreamIdxLdd nrow ncol codes i
    (codes[i]! = lddNodata → dec = nrow * ncol) ∧
    (codes[i]! ∈ lddPits → dec = i ∧ k = i) ∧
    (∀ d, (codes[i]!, d) ∈ lddDirs →
      let r : Int := ((i / ncol : Nat) : Int) + d.1
      let c : Int := ((i % ncol : Nat) : Int) + d.2
      (inRaster nrow ncol r c = true → codes[cellIdx ncol r c]! ≠ lddNodata → dec = cellIdx ncol r c ∧ k = cellIdx ncol r c) ∧
      (inRaster nrow ncol r c = true → codes[cellIdx ncol r c]! = lddNodata → dec = i ∧ k = cellIdx ncol r c) ∧
      (inRaster nrow ncol r c = false → dec = i ∧ k = nrow * ncol)) :=
  tab_down_vs_decode C01.ldd_drdc_ok ldd_us_ok nrow ncol codes hlegal i hi

/-- **the headline relation**: for a non-nodata, non-pit cell (direction code) whose designated neighbour is on
the raster and not nodata, `_downstream_idx` is the decoded `idxs_ds` of `from_array` -/
theorem downstream_eq_decoded (nrow ncol : Nat) (codes : Array Nat) (i : Nat) (hi : i < nrow * ncol) :
    ((∀ j, j < nrow * ncol → codes[j]! ∈ d8Alphabet) → ∀ d, (codes[i]!, d) ∈ d8Dirs →
      inRaster nrow ncol (((i / ncol : Nat) : Int) + d.1) (((i % ncol : Nat) : Int) + d.2) = true →
      codes[cellIdx ncol (((i / ncol : Nat) : Int) + d.1) (((i % ncol : Nat) : Int) + d.2)]! ≠ d8Nodata →
      downstreamIdxD8 nrow ncol codes i = (fromArrayD8 nrow ncol codes).ds[i]!) ∧
    ((∀ j, j < nrow * ncol → codes[j]! ∈ lddAlphabet) → ∀ d, (codes[i]!, d) ∈ lddDirs →
      inRaster nrow ncol (((i / ncol : Nat) : Int) + d.1) (((i % ncol : Nat) : Int) + d.2) = true →
      codes[cellIdx ncol (((i / ncol : Nat) : Int) + d.1) (((i % ncol : Nat) : Int) + d.2)]! ≠ lddNodata →
      downstreamIdxLdd nrow ncol codes i = (fromArrayLdd nrow ncol codes).ds[i]!) := by
  constructor
  · intro hl d hd hin hne
    obtain ⟨e1, e2⟩ := ((d8_downstream_vs_decode nrow ncol codes hl i hi).2.2 d hd).1 hin hne
    rw [e1]; exact e2
  · intro hl d hd hin hne
    obtain ⟨e1, e2⟩ := ((ldd_downstream_vs_decode nrow ncol codes hl i hi).2.2 d hd).1 hin hne
    rw [e1]; exact e2

/-- `Spec.downOf` next to `Spec.dsOf` for **any** reading (D8, LDD, NEXTXY, masked): they agree exactly on pits
and on links whose target is on the raster and not nodata -/
theorem downOf_vs_graph (nrow ncol : Nat) (read : Nat → Code) (i : Nat) :
    (read i = .nodata → dsOf nrow ncol read i = nrow * ncol ∧ downOf nrow ncol read i = i) ∧
    (read i = .pit → dsOf nrow ncol read i = i ∧ downOf nrow ncol read i = i) ∧
    (∀ r c, read i = .to r c →
      (inRaster nrow ncol r c = true → read (cellIdx ncol r c) ≠ .nodata →
        dsOf nrow ncol read i = cellIdx ncol r c ∧ downOf nrow ncol read i = cellIdx ncol r c) ∧
      (inRaster nrow ncol r c = true → read (cellIdx ncol r c) = .nodata →
        dsOf nrow ncol read i = i ∧ downOf nrow ncol read i = cellIdx ncol r c) ∧
      (inRaster nrow ncol r c = false → dsOf nrow ncol read i = i ∧ downOf nrow ncol read i = nrow * ncol)) :=
  downOf_vs_dsOf nrow ncol read i

/-! ## 3. `_upstream_idx` -/

/-- **loop order**: the list `_upstream_idx` returns is the list of accepted candidates of the eight offsets
`(-1,-1), (-1,0), (-1,1), (0,-1), (0,1), (1,-1), (1,0), (1,1)` in this (increasing `(dr, dc)`) order; a candidate
is accepted iff it is on the raster and its code equals the `_us` entry of the offset -/
theorem upstream_loop_order (us : List Nat) (nrow ncol : Nat) (codes : Array Nat) (i : Nat) :
    upstreamIdx us nrow ncol codes i = offs8.filterMap (fun o => usCand us nrow ncol codes i o.1 o.2) ∧
    ∀ dr dc j, usCand us nrow ncol codes i dr dc = some j ↔
      ¬ (dr = 0 ∧ dc = 0) ∧ inRaster nrow ncol (((i / ncol : Nat) : Int) + dr) (((i % ncol : Nat) : Int) + dc) = true ∧
      j = cellIdx ncol (((i / ncol : Nat) : Int) + dr) (((i % ncol : Nat) : Int) + dc) ∧
      codes[j]! = us[((dr + 1) * 3 + (dc + 1)).toNat]! :=
  ⟨upstreamIdx_eq_filterMap us nrow ncol codes i, fun _ _ _ => usCand_some⟩

/-- **order and duplicates**: the returned indices are strictly increasing — the loop order `(dr, dc)` is the
order of the linear indices — hence duplicate free; at most eight. For every `_us` table, raster and cell. -/
theorem upstream_sorted_nodup (us : List Nat) (nrow ncol : Nat) (codes : Array Nat) (i : Nat) :
    (upstreamIdx us nrow ncol codes i).Pairwise (· < ·) ∧ (upstreamIdx us nrow ncol codes i).Nodup ∧
    (upstreamIdx us nrow ncol codes i).length ≤ 8 := by
  have h := upstreamIdx_sorted us nrow ncol codes i
  refine ⟨h, h.imp (fun hab => Nat.ne_of_lt hab), ?_⟩
  rw [upstreamIdx_eq_filterMap]
  exact List.length_filterMap_le _ _

/-- **D8 `_upstream_idx`, full characterisation** (every raster over `uint8`, no legality hypothesis):
`j` is returned for cell `i` iff `j` is a cell of the raster, `j ≠ i`, `j` is an 8-neighbour of `i`, the code of
`j` is a direction code of the compass table (not a pit code, not nodata, not an illegal value) and
`_downstream_idx(j) = i` -/
theorem d8_upstream_iff (nrow ncol : Nat) (codes : Array Nat) (i : Nat) (hi : i < nrow * ncol) (j : Nat) :
    j ∈ upstreamIdxD8 nrow ncol codes i ↔
      j < nrow * ncol ∧ j ≠ i ∧ nbr8 ncol i j ∧ (∃ d, (codes[j]!, d) ∈ d8Dirs) ∧
      downstreamIdxD8 nrow ncol codes j = i :=
  tab_upstream_iff C01.d8_drdc_ok d8_us_ok nrow ncol codes i hi j

/-- **LDD `_upstream_idx`, full characterisation** -/
theorem ldd_upstream_iff (nrow ncol : Nat) (codes : Array Nat) (i : Nat) (hi : i < nrow * ncol) (j : Nat) :
    j ∈ upstreamIdxLdd nrow ncol codes i ↔
      j < nrow * ncol ∧ j ≠ i ∧ nbr8 ncol i j ∧ (∃ d, (codes[j]!, d) ∈ lddDirs) ∧
      downstreamIdxLdd nrow ncol codes j = i :=
  tab_upstream_iff C01.ldd_drdc_ok ldd_us_ok nrow ncol codes i hi j

/-- on a legal D8 raster the code condition is implied: `j` is returned iff `j ≠ i` is a cell with
`_downstream_idx(j) = i` (pit and nodata codes give `j` itself). Not true for LDD, where a nodata cell has
`_downstream_idx` = the cell at `(-1, -9)` (`ldd_downstream_nodata`). -/
theorem d8_upstream_iff_legal (nrow ncol : Nat) (codes : Array Nat)
    (hlegal : ∀ j, j < nrow * ncol → codes[j]! ∈ d8Alphabet) (i : Nat) (hi : i < nrow * ncol) (j : Nat) :
    j ∈ upstreamIdxD8 nrow ncol codes i ↔ j < nrow * ncol ∧ j ≠ i ∧ downstreamIdxD8 nrow ncol codes j = i := by
  rw [d8_upstream_iff nrow ncol codes i hi j]
  constructor
  · rintro ⟨h1, h2, _, _, h5⟩; exact ⟨h1, h2, h5⟩
  · rintro ⟨h1, h2, h5⟩
    have hd : ∃ d, (codes[j]!, d) ∈ d8Dirs := by
      have hl := hlegal j h1
      simp only [d8Alphabet, alphabet, List.mem_append, List.mem_map, List.mem_singleton] at hl
      rcases hl with (⟨p, hp, e⟩ | hp) | hn
      · exact ⟨p.2, by rw [← e]; exact hp⟩
      · exact absurd ((downstream_idx_pit nrow ncol codes j h1).1 hp ▸ h5) (fun e => h2 e)
      · exact absurd ((d8_downstream_nodata nrow ncol codes j h1 hn) ▸ h5) (fun e => h2 e)
    have hm : j ∈ upstreamIdxD8 nrow ncol codes i := by
      rw [upstreamIdxD8, tab_mem_upstream d8_us_ok nrow ncol codes i hi j]
      obtain ⟨d, hd'⟩ := hd
      obtain ⟨n1, _, _⟩ := usOK_mem d8_us_ok hd'
      refine ⟨h1, h2, ?_⟩
      rw [← tab_downstream_eq C01.d8_drdc_ok nrow ncol codes j h1 (mem_alphabet_of_dir hd') n1]; exact h5
    exact (d8_upstream_iff nrow ncol codes i hi j).1 hm

/-- **`_upstream_idx` = the declarative upstream list** `Spec.upOf` (all cells `j ≠ i` of the raster that
designate `i` under the hand-typed tables, in increasing order) — equality of lists, every raster over
`uint8`, both formats (the statement the driver's `spec.up` is compared under) -/
theorem upstream_eq_spec (nrow ncol : Nat) (codes : Array Nat) (i : Nat) (hi : i < nrow * ncol) :
    upstreamIdxD8 nrow ncol codes i = upOf nrow ncol (readD8 ncol codes) i ∧
    upstreamIdxLdd nrow ncol codes i = upOf nrow ncol (readLdd ncol codes) i :=
  ⟨tab_upstream_eq d8_us_ok nrow ncol codes i hi, tab_upstream_eq ldd_us_ok nrow ncol codes i hi⟩

/-! ## 4. `ispit`, `isnodata` -/

/-- `ispit` / `isnodata` of the three formats are membership in the pit / nodata code sets of the property
statement (D8 pits 0 and 255, nodata 247; LDD pit 5, nodata 255; NEXTXY pits -9 and -10, nodata -9999) -/
theorem ispit_isnodata_iff :
    (∀ v, d8IsPit v = true ↔ v ∈ d8Pits) ∧ (∀ v, d8IsNodata v = true ↔ v = d8Nodata) ∧
    (∀ v, lddIsPit v = true ↔ v ∈ lddPits) ∧ (∀ v, lddIsNodata v = true ↔ v = lddNodata) ∧
    (∀ x, xyIsPit x = true ↔ x ∈ xyPits) ∧ (∀ x, xyIsNodata x = true ↔ x = xyNodata) := by
  refine ⟨?_, ?_, ?_, ?_, ?_, ?_⟩
  · intro v; simp [d8IsPit, d8Pv, d8Pits]
  · intro v; simp [d8IsNodata, d8Mv, d8Nodata]
  · intro v; simp [lddIsPit, lddPv, lddPits]
  · intro v; simp [lddIsNodata, lddMv, lddNodata]
  · intro x; simp [xyIsPit, xyPv0, xyPv1, xyPits]
  · intro x; simp [xyIsNodata, xyMv, xyNodata]

/-- the predicates classify the cells as the declarative reading does: on a legal code, `isnodata` ⇔ the cell
reads as nodata and `ispit` ⇔ it reads as a pit (NEXTXY: no legality needed, the `x` layer decides) -/
theorem ispit_isnodata_reading (ncol : Nat) (codes : Array Nat) (xs ys : Array Int) (i : Nat) :
    (codes[i]! ∈ d8Alphabet →
      (readD8 ncol codes i = .nodata ↔ d8IsNodata codes[i]! = true) ∧
      (readD8 ncol codes i = .pit ↔ d8IsPit codes[i]! = true)) ∧
    (codes[i]! ∈ lddAlphabet →
      (readLdd ncol codes i = .nodata ↔ lddIsNodata codes[i]! = true) ∧
      (readLdd ncol codes i = .pit ↔ lddIsPit codes[i]! = true)) ∧
    (readXY xs ys i = .nodata ↔ xyIsNodata xs[i]! = true) ∧
    (readXY xs ys i = .pit ↔ xyIsPit xs[i]! = true) := by
  refine ⟨?_, ?_, ?_, ?_⟩
  · intro h
    simp only [d8Alphabet, alphabet, d8Dirs, d8Pits, d8Nodata, List.map, List.cons_append, List.nil_append,
      List.mem_cons, List.mem_nil_iff, or_false] at h
    rcases h with h | h | h | h | h | h | h | h | h | h | h <;>
      simp [readD8, readTab, h, d8Nodata, d8Pits, d8Dirs, List.lookup, d8IsNodata, d8IsPit, d8Mv, d8Pv]
  · intro h
    simp only [lddAlphabet, alphabet, lddDirs, lddPits, lddNodata, List.map, List.cons_append, List.nil_append,
      List.mem_cons, List.mem_nil_iff, or_false] at h
    rcases h with h | h | h | h | h | h | h | h | h | h <;>
      simp [readLdd, readTab, h, lddNodata, lddPits, lddDirs, List.lookup, lddIsNodata, lddIsPit, lddMv, lddPv]
  · simp only [readXY, xyIsNodata, xyMv, xyNodata, beq_iff_eq]
    by_cases h1 : xs[i]! = -9999
    · simp [h1]
    · by_cases h2 : xs[i]! ∈ xyPits <;> simp [h1, h2]
  · simp only [readXY, xyIsPit, xyPv0, xyPv1, xyNodata, xyPits, Bool.or_eq_true, beq_iff_eq, List.mem_cons,
      List.mem_nil_iff, or_false]
    by_cases h1 : xs[i]! = -9999
    · simp [h1]
    · by_cases h2 : xs[i]! = -9 ∨ xs[i]! = -10 <;> simp [h1, h2]

/-! ## 5. `core.headwater_indices`, `core.confluence_indices` -/

/-- `core.upstream_count` on **every** cell of **every** index array (no well-formedness): the number of
inflowing cells `j ≠ v`, `ds[j] = v` that the mask admits if `v` is a cell of the network or something flows
into it, and `-9` otherwise. (`upstream_count(mask=)` tests the mask at the *inflowing* cell only.) -/
theorem upstream_count_every_cell (ds : Array Nat) (mask : Option (Array Bool)) (v : Nat) (hv : v < ds.size) :
    (upstreamCount ds mask)[v]! =
      if ds[v]! ≠ ds.size ∨ 0 < inflowCount ds mask v then (inflowCount ds mask v : Int) else -9 :=
  upstreamCount_get ds mask v hv

/-- **`headwater_indices`** (with and without `mask`), every index array: `i` is returned iff `i` is a cell of
the network (`ds[i] ≠ mv`) and no admitted cell `j ≠ i` drains into it; `i` itself need not be admitted by the
mask. Returned in increasing order, and the list is the declarative `Spec.headwaters`. -/
theorem headwater_iff (ds : Array Nat) (mask : Option (Array Bool)) :
    (∀ i, i ∈ headwaterIndices ds mask ↔
      i < ds.size ∧ ds[i]! ≠ ds.size ∧ ∀ j, j < ds.size → j ≠ i → ds[j]! = i → maskAt mask j = false) ∧
    (headwaterIndices ds mask).Pairwise (· < ·) ∧
    headwaterIndices ds mask = headwaters ds mask := by
  have hmem : ∀ i, i ∈ headwaterIndices ds mask ↔ i < ds.size ∧ ds[i]! ≠ ds.size ∧ inflowCount ds mask i = 0 :=
    mem_headwaterIndices ds mask
  refine ⟨?_, ?_, ?_⟩
  · intro i
    rw [hmem i]
    unfold inflowCount
    rw [count_zero_iff]
    constructor
    · rintro ⟨h1, h2, h3⟩
      refine ⟨h1, h2, fun j hj hji hd => ?_⟩
      have := h3 j hj
      simpa [hji, hd] using this
    · rintro ⟨h1, h2, h3⟩
      refine ⟨h1, h2, fun j hj => ?_⟩
      by_cases hji : j = i
      · simp [hji]
      · by_cases hd : ds[j]! = i
        · simp [hd, h3 j hj hji hd]
        · simp [hd]
  · unfold headwaterIndices
    exact range_filter_sorted _ _
  · apply sorted_ext
    · unfold headwaterIndices; exact range_filter_sorted _ _
    · exact range_filter_sorted _ _
    · intro i
      rw [hmem i]
      simp [headwaters]

/-- **`confluence_indices`** (with and without `mask`), every index array: `i` is returned iff `i` is an index
with two or more admitted inflowing cells, i.e. there are `j < k`, both `≠ i`, both admitted by the mask, with
`ds[j] = ds[k] = i`. Returned in increasing order. -/
theorem confluence_iff (ds : Array Nat) (mask : Option (Array Bool)) :
    (∀ i, i ∈ confluenceIndices ds mask ↔
      i < ds.size ∧ ∃ j k, j < k ∧ k < ds.size ∧ j ≠ i ∧ k ≠ i ∧ ds[j]! = i ∧ ds[k]! = i ∧
        maskAt mask j = true ∧ maskAt mask k = true) ∧
    (∀ i, i ∈ confluenceIndices ds mask ↔ i < ds.size ∧ 2 ≤ inflowCount ds mask i) ∧
    (confluenceIndices ds mask).Pairwise (· < ·) := by
  refine ⟨?_, mem_confluenceIndices ds mask, ?_⟩
  · intro i
    rw [mem_confluenceIndices ds mask i]
    unfold inflowCount
    rw [two_le_count_iff]
    constructor
    · rintro ⟨h1, j, k, hjk, hk, hpj, hpk⟩
      simp only [Bool.and_eq_true, bne_iff_ne, ne_eq, beq_iff_eq] at hpj hpk
      exact ⟨h1, j, k, hjk, hk, hpj.1.1, hpk.1.1, hpj.1.2, hpk.1.2, hpj.2, hpk.2⟩
    · rintro ⟨h1, j, k, hjk, hk, a1, a2, a3, a4, a5, a6⟩
      refine ⟨h1, j, k, hjk, hk, ?_, ?_⟩
      · simp only [Bool.and_eq_true, bne_iff_ne, ne_eq, beq_iff_eq]; exact ⟨⟨a1, a3⟩, a5⟩
      · simp only [Bool.and_eq_true, bne_iff_ne, ne_eq, beq_iff_eq]; exact ⟨⟨a2, a4⟩, a6⟩
  · unfold confluenceIndices
    exact range_filter_sorted _ _

/-- in a well-formed network (`Pf.WF`: no cell drains into a missing cell — what every decoded raster is,
`C01.decode_wf`) the confluences are cells of the network and the list is the declarative `Spec.confluences`.
Without well-formedness a *missing* cell with two inflowing cells is returned too (`confluence_iff` is the
statement that holds unconditionally). -/
theorem confluence_wf (ds : Array Nat) (hwf : WF ds) (mask : Option (Array Bool)) :
    (∀ i, i ∈ confluenceIndices ds mask ↔ i < ds.size ∧ ds[i]! ≠ ds.size ∧ 2 ≤ inflowCount ds mask i) ∧
    confluenceIndices ds mask = confluences ds mask := by
  have hmem : ∀ i, i ∈ confluenceIndices ds mask ↔ i < ds.size ∧ ds[i]! ≠ ds.size ∧ 2 ≤ inflowCount ds mask i := by
    intro i
    rw [mem_confluenceIndices ds mask i]
    constructor
    · rintro ⟨h1, h2⟩; exact ⟨h1, inflow_valid ds hwf mask i h1 (by omega), h2⟩
    · rintro ⟨h1, _, h2⟩; exact ⟨h1, h2⟩
  refine ⟨hmem, ?_⟩
  apply sorted_ext
  · unfold confluenceIndices; exact range_filter_sorted _ _
  · exact range_filter_sorted _ _
  · intro i
    rw [hmem i]
    simp [confluences]

/-! ## 6. `pyflwdir.from_array`: the returned graph is the declarative graph of the masked reading -/

/-- **from_array_graph** — the composition `harness/levels/C01.json` lists as "immediate but not stated", as one
theorem for the three formats: whenever `pyflwdir.from_array(data, ftype, check_ftype, mask)` returns an object,
the container has the shape and reading of the selected format and the object's `idxs_ds` **is the declarative
graph of the masked reading** (hidden cells are nodata, so cells draining into them become pits), its pit list
is exactly the list of self-draining cells of that graph in increasing order, `n` counts the cells that are
neither nodata nor hidden, the raster has at least two cells and the graph at least one pit.

Hypotheses: the arrays have one entry per cell; a data-shaped 3-D mask on NEXTXY data hides the same cells in
both layers; and *only when a format is given with `check_ftype=False`* the raster must be legal for it (with
`check_ftype=True` or `ftype="infer"` legality is established by the call itself, `C01.from_array_ftype`). -/
theorem from_array_graph (ft : Option Ftype) (check : Bool) (data : Data)
    (mask : Option (List Nat × Array Bool)) (p : Parsed)
    (h : fromArrayApi ft check data mask = .ok p)
    (hshape : data.WellShaped) (hlayers : MaskLayersAgree data mask)
    (hvalid : ft ≠ none → check = false → Spec.valid p.ftype data = true) :
    ∃ nrow ncol read, Spec.read p.ftype data = some (nrow, ncol, read) ∧
      p.dec.ds = graph nrow ncol (maskRead (maskFun mask) read) ∧
      p.dec.pits.toList = pitsOf (graph nrow ncol (maskRead (maskFun mask) read)) ∧
      p.dec.n = nvalidOf (nrow * ncol) (maskRead (maskFun mask) read) ∧
      2 ≤ nrow * ncol ∧ pitsOf (graph nrow ncol (maskRead (maskFun mask) read)) ≠ [] := by
  -- legality of the raster for the selected format
  have hv : Spec.valid p.ftype data = true := by
    rcases (C01.from_array_ftype ft check data mask).1 p h with ⟨h1, h2⟩ | ⟨_, _, h3⟩
    · cases hc : check with
      | true => rw [← (C01.valid_infer_eq_spec p.ftype data).1]; exact h2 hc
      | false => exact hvalid (by rw [h1]; simp) hc
    · rw [← (C01.valid_infer_eq_spec p.ftype data).1]; exact h3
  obtain ⟨data', hm, hd, h2, h3⟩ := C01.from_array_result ft check data mask p h
  obtain ⟨t, dec⟩ := p
  simp only at hv hm hd h2 h3 ⊢
  cases data with
  | other => cases mask with
    | none => cases t <;> simp [maskData] at hm <;> subst hm <;> simp [decodeData] at hd
    | some sm => simp [maskData] at hm
  | u8 nrow ncol codes =>
    simp only [Data.WellShaped] at hshape
    cases t with
    | nextxy =>
      cases mask with
      | none => simp [maskData] at hm; subst hm; simp [decodeData] at hd
      | some sm =>
        simp only [maskData] at hm
        split at hm
        · injection hm with hm; subst hm; simp [decodeData] at hd
        · cases hm
    | d8 =>
      have hlegal := legal_of_valid hshape (by simpa [Spec.valid] using hv)
      refine ⟨nrow, ncol, readD8 ncol codes, rfl, ?_⟩
      cases mask with
      | none =>
        simp only [maskData] at hm
        injection hm with hm; subst hm
        simp only [decodeData] at hd
        injection hd with hd; subst hd
        simp only [maskFun, maskRead_true]
        exact graph_result (C01.d8_decode nrow ncol codes hlegal) h2 h3
      | some sm =>
        obtain ⟨sh, m⟩ := sm
        simp only [maskData] at hm
        split at hm
        · injection hm with hm; subst hm
          simp only [decodeData] at hd
          injection hd with hd; subst hd
          exact graph_result (C01.d8_mask_excludes nrow ncol codes m hshape hlegal) h2 h3
        · cases hm
    | ldd =>
      have hlegal := legal_of_valid hshape (by simpa [Spec.valid] using hv)
      refine ⟨nrow, ncol, readLdd ncol codes, rfl, ?_⟩
      cases mask with
      | none =>
        simp only [maskData] at hm
        injection hm with hm; subst hm
        simp only [decodeData] at hd
        injection hd with hd; subst hd
        simp only [maskFun, maskRead_true]
        exact graph_result (C01.ldd_decode nrow ncol codes hlegal) h2 h3
      | some sm =>
        obtain ⟨sh, m⟩ := sm
        simp only [maskData] at hm
        split at hm
        · injection hm with hm; subst hm
          simp only [decodeData] at hd
          injection hd with hd; subst hd
          exact graph_result (C01.ldd_mask_excludes nrow ncol codes m hshape hlegal) h2 h3
        · cases hm
  | xy nrow ncol xs ys =>
    simp only [Data.WellShaped] at hshape
    obtain ⟨hx, hy⟩ := hshape
    cases t with
    | d8 =>
      cases mask with
      | none => simp [maskData] at hm; subst hm; simp [decodeData] at hd
      | some sm =>
        simp only [maskData] at hm
        split at hm
        · injection hm with hm; subst hm; simp [decodeData] at hd
        · split at hm
          · injection hm with hm; subst hm; simp [decodeData] at hd
          · cases hm
    | ldd =>
      cases mask with
      | none => simp [maskData] at hm; subst hm; simp [decodeData] at hd
      | some sm =>
        simp only [maskData] at hm
        split at hm
        · injection hm with hm; subst hm; simp [decodeData] at hd
        · split at hm
          · injection hm with hm; subst hm; simp [decodeData] at hd
          · cases hm
    | nextxy =>
      refine ⟨nrow, ncol, readXY xs ys, rfl, ?_⟩
      cases mask with
      | none =>
        simp only [maskData] at hm
        injection hm with hm; subst hm
        simp only [decodeData] at hd
        injection hd with hd; subst hd
        simp only [maskFun, maskRead_true]
        exact graph_result (C01.nextxy_decode nrow ncol xs ys) h2 h3
      | some sm =>
        obtain ⟨sh, m⟩ := sm
        simp only [maskData] at hm
        split at hm
        · injection hm with hm; subst hm
          simp only [decodeData] at hd
          injection hd with hd; subst hd
          exact graph_result (C01.nextxy_mask_excludes nrow ncol xs ys m hx hy) h2 h3
        · split at hm
          · rename_i hsh3
            injection hm with hm; subst hm
            simp only [decodeData] at hd
            injection hd with hd; subst hd
            simp only [MaskLayersAgree] at hlayers
            have hl := hlayers hsh3
            -- both layers are masked by the same cells: the masked reading
            have hread : ∀ j, j < nrow * ncol →
                readXY (applyMask xyMv (m.extract 0 (nrow * ncol)) xs)
                  (applyMask xyMv (m.extract (nrow * ncol) (2 * (nrow * ncol))) ys) j =
                maskRead (fun i => m[i]!) (readXY xs ys) j := by
              intro j hj
              have e1 : (m.extract 0 (nrow * ncol))[j]! = m[j]! := by
                rw [extract_get! m 0 (nrow * ncol) j (by omega), Nat.zero_add]
              have e2 : (m.extract (nrow * ncol) (2 * (nrow * ncol)))[j]! = m[j]! := by
                rw [extract_get! m (nrow * ncol) (2 * (nrow * ncol)) j (by omega), hl j hj]
              unfold readXY maskRead
              rw [applyMask_get _ _ _ _ (by omega), applyMask_get _ _ _ _ (by omega), e1, e2]
              by_cases hmj : m[j]! = true
              · simp only [hmj, if_true]
              · simp [hmj, xyMv, xyNodata]
            obtain ⟨g1, g2, g3⟩ := C01.nextxy_decode nrow ncol (applyMask xyMv (m.extract 0 (nrow * ncol)) xs)
              (applyMask xyMv (m.extract (nrow * ncol) (2 * (nrow * ncol))) ys)
            have hg := graph_congr hread
            simp only [maskFun]
            exact graph_result ⟨by rw [← hg]; exact g1, by rw [← hg]; exact g2,
              by rw [← nvalidOf_congr hread]; exact g3⟩ h2 h3
          · cases hm

/-! ## non-vacuity -/

-- 3x3 D8 raster, every neighbour points at the centre (pit 0), the SE corner is nodata:
--   2 4 8 / 1 0 16 / 128 64 247
example : (List.range 9).map (downstreamIdxD8 3 3 #[2, 4, 8, 1, 0, 16, 128, 64, 247]) = [4, 4, 4, 4, 4, 4, 4, 4, 8] := by
  decide +kernel
example : upstreamIdxD8 3 3 #[2, 4, 8, 1, 0, 16, 128, 64, 247] 4 = [0, 1, 2, 3, 5, 6, 7] := by decide +kernel
example : upOf 3 3 (readD8 3 #[2, 4, 8, 1, 0, 16, 128, 64, 247]) 4 = [0, 1, 2, 3, 5, 6, 7] := by decide +kernel
-- 2x3 D8 raster E SE nodata / NE pit(255) N: cell 5 (N) points at the nodata cell 2: `from_array` makes it a
-- pit, `_downstream_idx` still returns 2; cell 0 (E, 1x3 below) leaves the raster: missing value 3
example : (List.range 6).map (downstreamIdxD8 2 3 #[1, 2, 247, 128, 255, 64]) = [1, 5, 2, 1, 4, 2] ∧
    (fromArrayD8 2 3 #[1, 2, 247, 128, 255, 64]).ds = #[1, 5, 6, 1, 4, 5] := by decide +kernel
example : (List.range 3).map (downstreamIdxD8 1 3 #[1, 1, 1]) = [1, 2, 3] := by decide +kernel
example : upstreamIdxD8 2 3 #[1, 2, 247, 128, 255, 64] 1 = [0, 3] := by decide +kernel
-- LDD 2x3: 3 (SE) 2 (S) 1 (SW) / 6 (E) 5 (pit) 4 (W): all drain to cell 4; N x 1 and 1 x N shapes
example : (List.range 6).map (downstreamIdxLdd 2 3 #[3, 2, 1, 6, 5, 4]) = [4, 4, 4, 4, 4, 4] ∧
    upstreamIdxLdd 2 3 #[3, 2, 1, 6, 5, 4] 4 = [0, 1, 2, 3, 5] := by decide +kernel
example : (List.range 3).map (downstreamIdxLdd 3 1 #[2, 2, 2]) = [1, 2, 3] ∧ upstreamIdxLdd 3 1 #[2, 2, 2] 1 = [0] := by
  decide +kernel
-- LDD nodata code on a 2x10 raster: cell 19 = (1, 9) gets cell 0 = (0, 0); cell 3 gets the missing value
example : downstreamIdxLdd 2 10 (Array.replicate 20 255) 19 = 0 ∧ downstreamIdxLdd 2 10 (Array.replicate 20 255) 3 = 20 := by
  decide +kernel
-- illegal D8 code 3 acts like S (4) in `_downstream_idx` but is in no `_us` table
example : downstreamIdxD8 2 1 #[3, 0] 0 = 1 ∧ upstreamIdxD8 2 1 #[3, 0] 1 = [] ∧ upstreamIdxD8 2 1 #[4, 0] 1 = [0] := by
  decide +kernel
-- degree queries on 0<-1<-2, 0<-3, 3<-4, 3<-5, cell 6 missing; mask hides cells 1 and 4
example : headwaterIndices #[0, 0, 1, 0, 3, 3, 7] none = [2, 4, 5] ∧ confluenceIndices #[0, 0, 1, 0, 3, 3, 7] none = [0, 3] ∧
    headwaterIndices #[0, 0, 1, 0, 3, 3, 7] (some #[true, false, true, true, false, true, true]) = [2, 4, 5] ∧
    confluenceIndices #[0, 0, 1, 0, 3, 3, 7] (some #[true, false, true, true, false, true, true]) = [] ∧
    headwaterIndices #[0, 0, 1, 0, 3, 3, 7] (some #[true, true, false, true, true, true, true]) = [1, 2, 4, 5] := by
  decide +kernel
-- a network that is not well formed: cells 0 and 1 drain into the missing cell 2, which is then reported
example : confluenceIndices #[2, 2, 3] none = [2] ∧ confluences #[2, 2, 3] none = [] := by decide +kernel
-- from_array_graph is not vacuous: LDD raster, inferred type, user mask hiding the middle cell
example : (fromArrayApi none true (.u8 1 3 #[6, 6, 5]) (some ([1, 3], #[true, false, true]))).toOption.map
    (fun p => (p.ftype, p.dec.ds)) = some (.ldd, #[0, 3, 2]) ∧
    graph 1 3 (maskRead (maskFun (some ([1, 3], #[true, false, true]))) (readLdd 3 #[6, 6, 5])) = #[0, 3, 2] := by
  decide +kernel

end Pf.C01x
