import PfVerif.Proofs.C17_ext
import PfVerif.Proofs.C17_extEdge
import PfVerif.Generated.Tables
/-! # C17 extension — the remaining geo-reference helpers of `gis_utils.py`

Theorems about `Model/C17_ext.lean` (`reggrid_dx / reggrid_dy / reggrid_area`, `get_edge` with any 3x3
structuring element, sums over `area_grid`) and about the helpers of `Model/C17.lean` that had a model but no
theorem (`affine_to_coords`, `transform_from_bounds` / `array_bounds` round trips, units of `area_grid`).
All statements quantify over every rational transform of the stated class (resolutions of either sign: north-up,
south-up, flipped x), every shape, every coordinate vector; `degree_metres_x/y` and the sine are arbitrary
functions `Rat → Rat`. -/
namespace Pf.C17x
open Pf.C17

/-! ## 1. resolution of a coordinate vector -/

/-- **NaN exactly for vectors of length 0 or 1**: `|mean(diff(v))|` is undefined iff `v` has fewer than two
entries (the single-row / single-column case; `area_grid` no longer goes through it, fix 3a06d62). -/
theorem res_nan_iff (v : List Rat) : resOf v = none ↔ v.length ≤ 1 := by
  simp only [resOf, meanL, Option.map_eq_none_iff, List.isEmpty_iff]
  rw [← diffL_eq_nil_iff]
  constructor
  · intro h; split at h
    · assumption
    · cases h
  · intro h; rw [if_pos h]

/-- **the resolution telescopes**: for any vector with at least two entries (regular or not, ascending or
descending) it is `|last - first| / (n - 1)`. -/
theorem res_telescope (a : Rat) (l : List Rat) (h : l ≠ []) :
    resOf (a :: l) = some (absQ (((a :: l).getLast (by simp) - a) / (l.length : Rat))) := by
  have hne : diffL (a :: l) ≠ [] := by
    intro h'; rw [diffL_eq_nil_iff] at h'
    cases l with
    | nil => exact h rfl
    | cons b r => simp at h'
  simp only [resOf, meanL, List.isEmpty_iff, hne, if_false, Option.map_some, diffL_sum, diffL_length,
    List.length_cons, Nat.add_sub_cancel]

example : resOf [10, 9, 7, 4] = some 2 ∧ resOf [5] = none ∧ resOf [] = none ∧ resOf [3, 7] = some 4 := by
  decide +kernel

/-- **coordinate vectors of a raster**: the resolution of the x (y) vector of `affine_to_coords` is `|xres|`
(`|yres|`) as soon as the raster has two columns (rows) - for every affine transform, either sign. -/
theorem res_axes (t : Aff) (nrow ncol : Nat) :
    (2 ≤ ncol → resOf (affineToCoords t nrow ncol).1 = some (absQ t.a)) ∧
    (2 ≤ nrow → resOf (affineToCoords t nrow ncol).2 = some (absQ t.e)) := by
  constructor
  · intro h
    obtain ⟨n, rfl⟩ : ∃ n, ncol = n + 2 := ⟨ncol - 2, by omega⟩
    apply resOf_const_step
    intro i; simp only [Aff.app]; push_cast; grind
  · intro h
    obtain ⟨n, rfl⟩ : ∃ n, nrow = n + 2 := ⟨nrow - 2, by omega⟩
    apply resOf_const_step
    intro i; simp only [Aff.app]; push_cast; grind

example : resOf (affineToCoords ⟨-1/2, 0, 3, 0, 1/4, -60⟩ 3 4).1 = some (1/2) ∧
    resOf (affineToCoords ⟨-1/2, 0, 3, 0, 1/4, -60⟩ 3 4).2 = some (1/4) ∧
    resOf (affineToCoords ⟨-1/2, 0, 3, 0, 1/4, -60⟩ 1 4).2 = none := by decide +kernel

/-! ## 2. `affine_to_coords` -/

/-- **consistent with `xy`** (every affine transform): the x vector is the x coordinate of the centres of row 0,
the y vector the y coordinate of the centres of column 0. -/
theorem affine_to_coords_xy (t : Aff) (height width : Nat) :
    affineToCoords t height width =
      ((List.range width).map fun (j : Nat) => (xyM t centre 0 (j : Int)).1,
       (List.range height).map fun (i : Nat) => (xyM t centre (i : Int) 0).2) := by
  simp only [affineToCoords, xy_app, centre, Aff.app, Rat.intCast_natCast]
  have : ((0 : Int) : Rat) = 0 := rfl
  rw [this]

/-- **cell centres** (no rotation): the centre of cell `(i, j)` is `(x_coords[j], y_coords[i])`, and these are
`xoff + (j+½)·xres`, `yoff + (i+½)·yres`. -/
theorem affine_to_coords_centres (t : Aff) (hb : t.b = 0) (hd : t.d = 0) (height width i j : Nat)
    (hi : i < height) (hj : j < width) :
    (affineToCoords t height width).1[j]? = some (xyM t centre (i : Int) (j : Int)).1 ∧
    (affineToCoords t height width).2[i]? = some (xyM t centre (i : Int) (j : Int)).2 ∧
    xyM t centre (i : Int) (j : Int) = specCentre t (i : Int) (j : Int) := by
  refine ⟨?_, ?_, xy_centre' t hb hd _ _⟩
  · simp only [affineToCoords, List.getElem?_map, List.getElem?_range hj, Option.map_some, xy_app, centre,
      Aff.app, hb, Rat.intCast_natCast]
    congr 1; grind
  · simp only [affineToCoords, List.getElem?_map, List.getElem?_range hi, Option.map_some, xy_app, centre,
      Aff.app, hd, Rat.intCast_natCast]
    congr 1; grind

example : affineToCoords ⟨-1/2, 0, 3, 0, 1/4, -60⟩ 2 3 = ([11/4, 9/4, 7/4], [-479/8, -477/8]) ∧
    xyM ⟨-1/2, 0, 3, 0, 1/4, -60⟩ centre 1 2 = (7/4, -477/8) := by decide +kernel

/-! ## 3. `reggrid_dx`, `reggrid_dy`, `reggrid_area` -/

/-- **`reggrid_dx` on the coordinate vectors of a raster** with at least two columns: every cell of row `r` gets
`degree_metres_x(latitude of the row's centres) · |xres|`. -/
theorem reggrid_dx_axes (dmx : Rat → Rat) (t : Aff) (hd : t.d = 0) (nrow ncol : Nat) (hc : 2 ≤ ncol) :
    reggridDx dmx (affineToCoords t nrow ncol).2 (affineToCoords t nrow ncol).1 =
      some ((List.range nrow).map fun (r : Nat) =>
        List.replicate ncol (dmx (specCentre t (r : Int) 0).2 * absQ t.a)) := by
  have h := (res_axes t nrow ncol).1 hc
  simp only [reggridDx, h]
  simp only [affineToCoords, List.map_map, List.length_map, List.length_range, Option.some.injEq]
  apply List.map_congr_left
  intro r _
  simp only [Function.comp, specCentre, Aff.app, hd, Rat.intCast_natCast]
  congr 1
  have e : (0 + 1 / 2 : Rat) * 0 + ((r : Rat) + 1 / 2) * t.e + t.f = t.f + ((r : Rat) + 1 / 2) * t.e := by grind
  rw [e]; grind

/-- **`reggrid_dy`** with at least two rows: `degree_metres_y(latitude of the row's centres) · |yres|`. -/
theorem reggrid_dy_axes (dmy : Rat → Rat) (t : Aff) (hd : t.d = 0) (nrow ncol : Nat) (hr : 2 ≤ nrow) :
    reggridDy dmy (affineToCoords t nrow ncol).2 (affineToCoords t nrow ncol).1 =
      some ((List.range nrow).map fun (r : Nat) =>
        List.replicate ncol (dmy (specCentre t (r : Int) 0).2 * absQ t.e)) := by
  have h := (res_axes t nrow ncol).2 hr
  simp only [reggridDy, h]
  simp only [affineToCoords, List.map_map, List.length_map, List.length_range, Option.some.injEq]
  apply List.map_congr_left
  intro r _
  simp only [Function.comp, specCentre, Aff.app, hd, Rat.intCast_natCast]
  congr 1
  have e : (0 + 1 / 2 : Rat) * 0 + ((r : Rat) + 1 / 2) * t.e + t.f = t.f + ((r : Rat) + 1 / 2) * t.e := by grind
  rw [e]; grind

example : reggridDx (fun l => 100 - l) [59, 57] [1, 3, 5] = some [[82, 82, 82], [86, 86, 86]] ∧
    reggridDy (fun l => 100 + l) [59, 57] [1, 3, 5] = some [[318, 318, 318], [314, 314, 314]] := by
  decide +kernel

/-- **`reggrid_area` = `area_grid(latlon=True)`** on the coordinate vectors of a raster with at least two rows and
two columns (every affine transform, either orientation): the same per-row values, repeated over the columns. -/
theorem reggrid_area_eq_area_grid (R2 pi180 : Rat) (sinD : Rat → Rat) (t : Aff) (nrow ncol : Nat)
    (hr : 2 ≤ nrow) (hc : 2 ≤ ncol) :
    ∃ rows, areaGrid (cellareaM R2 pi180 sinD) t nrow ncol true false (some 1) = .ok rows ∧
      reggridArea (cellareaM R2 pi180 sinD) (affineToCoords t nrow ncol).2 (affineToCoords t nrow ncol).1 =
        some (expandRows ncol rows) := by
  refine ⟨_, rfl, ?_⟩
  have h1 := (res_axes t nrow ncol).1 hc
  have h2 := (res_axes t nrow ncol).2 hr
  simp only [reggridArea, h1, h2, expandRows, List.map_map, Option.some.injEq]
  have hl : (affineToCoords t nrow ncol).1.length = ncol := by simp [affineToCoords]
  rw [hl]
  apply List.map_congr_left
  intro l _
  simp only [Function.comp, cellareaM, absQ_absQ]
  congr 1; grind

/-- hence: the spherical area between the latitudes of the row's two edges, `|xres|` degrees wide -/
theorem reggrid_area_rows (R2 pi180 : Rat) (sinD : Rat → Rat) (t : Aff) (hd : t.d = 0) (nrow ncol : Nat)
    (hr : 2 ≤ nrow) (hc : 2 ≤ ncol) :
    reggridArea (cellareaM R2 pi180 sinD) (affineToCoords t nrow ncol).2 (affineToCoords t nrow ncol).1 =
      some (expandRows ncol ((List.range nrow).map fun r => specRowArea R2 pi180 sinD t r)) := by
  obtain ⟨rows, h1, h2⟩ := reggrid_area_eq_area_grid R2 pi180 sinD t nrow ncol hr hc
  rw [area_geo_rows_one R2 pi180 sinD t hd nrow ncol] at h1
  injection h1 with h1
  rw [h2, ← h1]

/-- **single row / single column**: all three functions return NaN in every cell exactly when the coordinate
vector they take the resolution from has fewer than two entries (behaviour of the code as it is). -/
theorem reggrid_nan_iff (dm : Rat → Rat) (cell : Rat → Rat → Rat → Rat) (lats lons : List Rat) :
    (reggridDx dm lats lons = none ↔ lons.length ≤ 1) ∧
    (reggridDy dm lats lons = none ↔ lats.length ≤ 1) ∧
    (reggridArea cell lats lons = none ↔ lons.length ≤ 1 ∨ lats.length ≤ 1) := by
  refine ⟨?_, ?_, ?_⟩
  · rw [← res_nan_iff]; unfold reggridDx; split <;> simp_all
  · rw [← res_nan_iff]; unfold reggridDy; split <;> simp_all
  · rw [← res_nan_iff, ← res_nan_iff]; unfold reggridArea
    cases resOf lons <;> cases resOf lats <;> simp

example : reggridArea (cellareaM 7 (1/10) (fun l => l * l)) [117/2, 111/2] [1, 3, 5, 7] =
      some [[2457/5, 2457/5, 2457/5, 2457/5], [2331/5, 2331/5, 2331/5, 2331/5]] ∧
    areaGrid (cellareaM 7 (1/10) (fun l => l * l)) ⟨2, 0, 0, 0, -3, 60⟩ 2 4 true false (some 1) =
      .ok [2457/5, 2331/5] ∧
    affineToCoords ⟨2, 0, 0, 0, -3, 60⟩ 2 4 = ([1, 3, 5, 7], [117/2, 111/2]) ∧
    reggridArea (cellareaM 7 (1/10) (fun l => l * l)) [117/2] [1, 3, 5, 7] = none := by decide +kernel

/-! ## 4. `transform_from_bounds`, `array_bounds`, `transform_from_origin` -/

/-- **`array_bounds ∘ transform_from_bounds = id`** for every non-empty shape and every bounds (also
`east < west`, `north < south`: flipped axes). -/
theorem bounds_of_from_bounds (west south east north : Rat) (width height : Nat)
    (hw : 0 < width) (hh : 0 < height) :
    arrayBounds height width (transformFromBounds west south east north width height) =
      (west, south, east, north) := by
  have hw' : (width : Rat) ≠ 0 := by
    have : (0 : Rat) < (width : Rat) := by exact_mod_cast hw
    grind
  have hh' : (height : Rat) ≠ 0 := by
    have : (0 : Rat) < (height : Rat) := by exact_mod_cast hh
    grind
  simp only [arrayBounds, transformFromBounds, Aff.matmul, Aff.translation, Aff.scale, Aff.app, Prod.mk.injEq]
  refine ⟨by grind, ?_, ?_, by grind⟩
  · have := Rat.div_mul_cancel (a := south - north) hh'
    grind
  · have := Rat.div_mul_cancel (a := east - west) hw'
    grind

/-- **`transform_from_bounds ∘ array_bounds = id`** on the transforms without rotation, for every non-empty
shape and resolutions of either sign (zero included). -/
theorem from_bounds_of_bounds (t : Aff) (hb : t.b = 0) (hd : t.d = 0) (width height : Nat)
    (hw : 0 < width) (hh : 0 < height) :
    let b := arrayBounds height width t
    transformFromBounds b.1 b.2.1 b.2.2.1 b.2.2.2 width height = t := by
  have hw' : (width : Rat) ≠ 0 := by
    have : (0 : Rat) < (width : Rat) := by exact_mod_cast hw
    grind
  have hh' : (height : Rat) ≠ 0 := by
    have : (0 : Rat) < (height : Rat) := by exact_mod_cast hh
    grind
  obtain ⟨a, b, c, d, e, f⟩ := t
  simp only at hb hd
  subst hb hd
  simp only [arrayBounds, transformFromBounds, Aff.matmul, Aff.translation, Aff.scale, Aff.app, Aff.mk.injEq]
  have h1 : ((width : Rat) * a + (height : Rat) * 0 + c - c) / (width : Rat) = a := by
    have : (width : Rat) * a + (height : Rat) * 0 + c - c = a * (width : Rat) := by grind
    rw [this, Rat.mul_div_cancel hw']
  have h2 : ((width : Rat) * 0 + (height : Rat) * e + f - f) / (height : Rat) = e := by
    have : (width : Rat) * 0 + (height : Rat) * e + f - f = e * (height : Rat) := by grind
    rw [this, Rat.mul_div_cancel hh']
  rw [h1, h2]
  refine ⟨?_, ?_, ?_, ?_, ?_, ?_⟩ <;> grind

example : arrayBounds 3 4 (transformFromBounds (-3) (237/4) (-1) 60 4 3) = (-3, 237/4, -1, 60) ∧
    transformFromBounds (-3) (237/4) (-1) 60 4 3 = ⟨1/2, 0, -3, 0, -1/4, 60⟩ ∧
    transformFromBounds 5 1 2 (-1) 6 4 = ⟨-1/2, 0, 5, 0, 1/2, -1⟩ := by decide +kernel

/-- **bounds of `transform_from_origin`**: `(west, north − height·ysize, west + width·xsize, north)`. -/
theorem bounds_of_from_origin (west north xsize ysize : Rat) (width height : Nat) :
    arrayBounds height width (transformFromOrigin west north xsize ysize) =
      (west, north - (height : Rat) * ysize, west + (width : Rat) * xsize, north) := by
  simp only [arrayBounds, transformFromOrigin, Aff.matmul, Aff.translation, Aff.scale, Aff.app, Prod.mk.injEq]
  refine ⟨?_, ?_, ?_, ?_⟩ <;> grind

/-- `FlwdirRaster.extent` is `bounds` reordered to `[xmin, xmax, ymin, ymax]` -/
theorem extent_of_from_bounds (west south east north : Rat) (width height : Nat)
    (hw : 0 < width) (hh : 0 < height) :
    extentOf (arrayBounds height width (transformFromBounds west south east north width height)) =
      (west, east, south, north) := by
  rw [bounds_of_from_bounds west south east north width height hw hh]; rfl

/-! ## 5. `area_grid`: units and the sum over the grid -/

/-- **units**: for every unit other than `cell` the grid is the `m2` grid divided by the unit's factor -/
theorem area_unit_scaling (cell : Rat → Rat → Rat → Rat) (t : Aff) (nrow ncol : Nat) (latlon : Bool) (fac : Rat) :
    ∃ rows, areaGrid cell t nrow ncol latlon false (some 1) = .ok rows ∧
      areaGrid cell t nrow ncol latlon false (some fac) = .ok (rows.map (· / fac)) := by
  cases latlon
  · refine ⟨_, rfl, ?_⟩
    simp only [areaGrid, Bool.false_eq_true, if_false, List.map_replicate, div_one']
  · refine ⟨_, rfl, ?_⟩
    simp only [areaGrid, Bool.false_eq_true, if_false, if_true, List.map_map, div_one']
    rfl

/-- the units the code knows (table regenerated from `/repo`): exactly `m2`, `ha`, `km2`, `cell`; an unknown
unit is a `ValueError` whatever the other arguments -/
theorem area_units (cell : Rat → Rat → Rat → Rat) (t : Aff) (nrow ncol : Nat) (latlon isCell : Bool) :
    Pf.Generated.areaFactors.map (·.1) = ["m2", "ha", "km2", "cell"] ∧
    Pf.Generated.areaFactors.lookup "acre" = none ∧
    areaGrid cell t nrow ncol latlon isCell none = .error .valueError := ⟨by decide, by decide, rfl⟩

/-- the 2-D grid sums to `areaTotal` of its rows -/
theorem gridSum_expand (ncol : Nat) (rows : List Rat) : gridSum (expandRows ncol rows) = areaTotal ncol rows := by
  simp only [gridSum, expandRows, areaTotal, List.map_map]
  congr 1
  apply List.map_congr_left
  intro v _
  simp only [Function.comp, sum_replicate]

/-- **projected grid: the cell areas add up to the area of the bounding box** `|east − west|·|north − south|`
(divided by the unit factor), for every shape and resolutions of either sign. -/
theorem area_proj_sum_bbox (cell : Rat → Rat → Rat → Rat) (t : Aff) (hb : t.b = 0) (hd : t.d = 0)
    (nrow ncol : Nat) (fac : Rat) (rows : List Rat)
    (h : areaGrid cell t nrow ncol false false (some fac) = .ok rows) :
    let b := arrayBounds nrow ncol t
    gridSum (expandRows ncol rows) = absQ (b.2.2.1 - b.1) * absQ (b.2.2.2 - b.2.1) / fac := by
  simp only [areaGrid, Bool.false_eq_true, if_false] at h
  injection h with h
  subst h
  rw [gridSum_expand]
  simp only [areaTotal, List.map_replicate, sum_replicate, arrayBounds, Aff.app, hb, hd]
  have e1 : (ncol : Rat) * t.a + (nrow : Rat) * 0 + t.c - t.c = (ncol : Rat) * t.a := by grind
  have e2 : t.f - ((ncol : Rat) * 0 + (nrow : Rat) * t.e + t.f) = -((nrow : Rat) * t.e) := by grind
  have hn : absQ (nrow : Rat) = (nrow : Rat) := absQ_natCast nrow
  have hc : absQ (ncol : Rat) = (ncol : Rat) := absQ_natCast ncol
  rw [e1, e2, absQ_neg, absQ_mul, absQ_mul, absQ_mul, hn, hc]
  rw [Rat.div_def, Rat.div_def]
  grind

example : areaGrid (fun _ _ _ => 0) ⟨2, 0, 1, 0, -3, 5⟩ 2 4 false false (some 10) = .ok [3/5, 3/5] ∧
    gridSum (expandRows 4 [3/5, 3/5]) = 24/5 ∧ arrayBounds 2 4 ⟨2, 0, 1, 0, -3, 5⟩ = (1, -1, 9, 5) := by
  decide +kernel

/-- **geographic grid**: the 2-D result sums to the telescoped spherical area of the bounding box (`sphere_sum`) -/
theorem area_geo_sum_bbox (R2 pi180 fac : Rat) (sinD : Rat → Rat) (t : Aff) (hb : t.b = 0) (hd : t.d = 0)
    (nrow ncol : Nat) (rows : List Rat)
    (h : areaGrid (cellareaM R2 pi180 sinD) t nrow ncol true false (some fac) = .ok rows) :
    let b := arrayBounds nrow ncol t
    gridSum (expandRows ncol rows) =
      R2 * (pi180 * absQ (b.2.2.1 - b.1)) *
        (sinD (if t.e < 0 then b.2.2.2 else b.2.1) - sinD (if t.e < 0 then b.2.1 else b.2.2.2)) / fac := by
  rw [gridSum_expand, sphere_sum' R2 pi180 fac sinD t hd nrow ncol rows h]
  simp only [arrayBounds, Aff.app, hb, hd]
  have e1 : (ncol : Rat) * t.a + (nrow : Rat) * 0 + t.c - t.c = (ncol : Rat) * t.a := by grind
  have e2 : (ncol : Rat) * 0 + (nrow : Rat) * t.e + t.f = t.f + (nrow : Rat) * t.e := by grind
  rw [e1, e2, absQ_mul, absQ_natCast]
  rw [Rat.div_def, Rat.div_def]
  grind

/-! ## 6. `get_edge(a, structure)` -/

/-- **edge cells**: for every raster, every validity mask and every 3x3 structuring element (8-connectivity
`ones((3,3))`, 4-connectivity cross, anything else), `get_edge` marks exactly the valid cells that lie on the
border of the raster or have an invalid cell among the window positions selected by the structuring element. -/
theorem get_edge_spec (nrow ncol : Nat) (a st : Array Bool) (r c : Nat) (hr : r < nrow) (hc : c < ncol) :
    (getEdgeS nrow ncol a st)[r * ncol + c]? = some true ↔ IsEdgeS nrow ncol a st r c :=
  getEdgeS_spec nrow ncol a st r c hr hc

/-- an edge cell is valid; the result has one entry per cell -/
theorem get_edge_subset (nrow ncol : Nat) (a st : Array Bool) :
    (getEdgeS nrow ncol a st).length = nrow * ncol ∧
    ∀ r c, r < nrow → c < ncol → (getEdgeS nrow ncol a st)[r * ncol + c]? = some true → at2 ncol a r c = true :=
  ⟨by simp [getEdgeS], fun r c hr hc h => ((getEdgeS_spec nrow ncol a st r c hr hc).1 h).1⟩

-- 4 x 4 raster, one invalid cell at (0,1): with the full structure the interior cells (1,1) and (1,2) both see it
-- (edge), (2,1) and (2,2) are cleared; with the cross only (1,1) sees it, (1,2) is cleared as well
example : getEdgeS 4 4 #[true, false, true, true, true, true, true, true, true, true, true, true, true, true, true, true]
      #[true, true, true, true, true, true, true, true, true] =
      [true, false, true, true, true, true, true, true, true, false, false, true, true, true, true, true] ∧
    getEdgeS 4 4 #[true, false, true, true, true, true, true, true, true, true, true, true, true, true, true, true]
      #[false, true, false, true, true, true, false, true, false] =
      [true, false, true, true, true, true, false, true, true, false, false, true, true, true, true, true] := by
  decide +kernel

end Pf.C17x
