import PfVerif.Model.Core
/-! # C07 — compiled (JIT) execution agrees with interpreted execution

No theorem can speak about Numba's compiler. The only formal content is that the reference both
runtimes are compared with is a *function*: equal inputs give equal outputs, so two executions that
each agree with the model agree with each other. The substance of C07 is the differential check in
`harness/props/c07.py` (translation validation). -/
namespace Pf.C07

/-- two runtimes that both agree with a (deterministic) model on an input agree with each other -/
theorem agree_via_model {α β : Type} (model interp jit : α → β) (x : α)
    (h1 : interp x = model x) (h2 : jit x = model x) : interp x = jit x := by
  rw [h1, h2]

example : agree_via_model (fun n : Nat => n + 1) (fun n => 1 + n) (fun n => n.succ) 3 (by decide) (by decide) = rfl := rfl

end Pf.C07
