import PfVerif.Proofs.C20Alg
import PfVerif.Proofs.C20Term
import PfVerif.Proofs.C20Dissolve
/-! # C20 — nearest-source spreading returns true least-cost distances and sources

`SpWalk G s c k` : there is a walk by 8-neighbour steps from the observation cell `s` (observation
value ≠ nodata, allowed by the mask) to `c`, entering allowed cells only, whose accumulated cost —
geometric step length at the row of the cell stepped from × friction of the cell stepped from — is `k`.
All theorems quantify over every raster size, observation raster, mask, friction field and per-row
cell geometry (square or not, projected or geographic: the per-row cell sizes are arbitrary
rationals); no size bound.

Two groups:
 * `spread_*` : about the model of the algorithm itself (`Pf.spread2d`, heap loop with fuel `10 n + 1`).
   `spread_terminates` shows that the fuel always suffices (Dijkstra argument: settled cells are never
   updated again, `|heap| + 8 · #unsettled` decreases); the other theorems are stated for the result
   `st` of the run and are partial-correctness statements that do not depend on the pop order;
   `spread_total_correct` puts both together.
 * `spreadCert_*` : certificate theorems about ANY output `(src, dst, out)` that passes the decidable
   local check `spreadCert` — this is what the harness evaluates on the implementation's output in
   every case. -/
namespace Pf.C20
open Pf SpGrid

/-- non-negative friction and diagonal give non-negative step costs -/
theorem wgt_nonneg (G : SpGrid) (hf : ∀ i, 0 ≤ G.fric i) (hg : ∀ r : Nat, 0 ≤ G.dgs[r]!) :
    ∀ a d, 0 ≤ G.wgt a d := by
  intro a d
  unfold SpGrid.wgt
  apply Rat.mul_nonneg _ (hf a)
  unfold SpGrid.stepLen
  split
  · exact Rat.abs_nonneg
  · split
    · exact Rat.abs_nonneg
    · exact hg _

/-- a decidable sufficient condition for non-negative step costs (closed inputs: `by decide +kernel`) -/
def nonnegCheck (G : SpGrid) : Bool :=
  (match G.frc with
   | none => true
   | some f => f.all fun x => decide (0 ≤ x)) && G.dgs.all fun x => decide (0 ≤ x)

theorem wgt_nonneg_of_check (G : SpGrid) (h : nonnegCheck G = true) : ∀ a d, 0 ≤ G.wgt a d := by
  unfold nonnegCheck at h
  rw [Bool.and_eq_true] at h
  apply wgt_nonneg G
  · intro i
    unfold SpGrid.fric
    cases hf : G.frc with
    | none => simp only []; grind
    | some f => rw [hf] at h; exact get!_nonneg_of_all f h.1 i
  · exact get!_nonneg_of_all _ h.2

/-! ## the algorithm (model of `gis_utils.spread2d`) -/

/-- **termination**: with non-negative step costs the heap loop ends within its fuel, for every input -/
theorem spread_terminates (G : SpGrid) (hobs : G.obs.size = G.n) (hw : ∀ a d, 0 ≤ G.wgt a d) :
    ∃ st, spread2d G = some st :=
  spread2d_total G hobs hw

/-- **least cost, lower bound**: every cell that a walk from an observation reaches is marked reached,
and its distance is at most the cost of that walk — for every walk. -/
theorem spread_least (G : SpGrid) (hobs : G.obs.size = G.n) (hw : ∀ a d, 0 ≤ G.wgt a d)
    (st : SpState) (hrun : spread2d G = some st) (s c : Nat) (k : Rat) (hwalk : SpWalk G s c k) :
    st.src[c]! ≠ -1 ∧ st.dst[c]! ≤ k := by
  obtain ⟨hb0, hp0⟩ := spInit_inv G hobs
  obtain ⟨hb, hp, hheap⟩ := spLoop_inv hw _ _ _ hb0 hp0 hrun
  -- with an empty heap every reached cell is relaxed: feasibility
  have hfeas : ∀ a, a < G.n → G.allowed a = true → st.src[a]! ≠ -1 → ∀ d ∈ nbrOffsets, ∀ b,
      G.nbrOf a d = some b → G.allowed b = true → st.src[b]! ≠ -1 ∧ st.dst[b]! ≤ st.dst[a]! + G.wgt a d := by
    intro a ha haa has d hd b hn hab
    rcases hp a ha (fun x => x) haa has with hq | hq
    · rw [hheap] at hq; simp at hq
    · exact hq d hd trivial b hn hab
  induction hwalk with
  | src hs =>
    obtain ⟨h1, h2, _⟩ := hb.srcs _ ((G.isSource_iff _).1 hs).1 hs
    exact ⟨by rw [h1]; omega, by rw [h2]; grind⟩
  | @step a b k d hwa hd hn hab ih =>
    obtain ⟨_, ha, haa⟩ := hwa.facts
    obtain ⟨h1, h2⟩ := hfeas a ha haa ih.1 d hd b hn hab
    exact ⟨h1, by have := ih.2; grind⟩

/-- **least cost, attained; origin and value**: for every reached allowed cell the reported origin `s`
is an observation cell, the reported distance is the cost of a walk from `s` to the cell, and the
output value is the observation at `s`. With `spread_least`: `dst c` is the minimum over all walks
and `src c` is an observation attaining it. -/
theorem spread_attained (G : SpGrid) (hobs : G.obs.size = G.n) (hw : ∀ a d, 0 ≤ G.wgt a d)
    (st : SpState) (hrun : spread2d G = some st) (c : Nat) (hc : c < G.n) (hca : G.allowed c = true)
    (hcs : st.src[c]! ≠ -1) :
    ∃ s : Nat, st.src[c]! = (s : Int) ∧ G.isSource s = true ∧ SpWalk G s c st.dst[c]! ∧ st.out[c]! = G.obs[s]! := by
  obtain ⟨hb0, hp0⟩ := spInit_inv G hobs
  obtain ⟨hb, _, _⟩ := spLoop_inv hw _ _ _ hb0 hp0 hrun
  obtain ⟨s, h1, h2, h3⟩ := hb.walk c hc hca hcs
  exact ⟨s, h1, h2.facts.1, h2, h3⟩

/-- **total correctness of spreading**: the run ends, and in its result the distance of every cell
reachable from an observation is the minimum of the accumulated cost over all walks (a lower bound for
every walk, attained by a walk from the reported origin), the origin is an observation cell attaining
it and the value is that observation's value. -/
theorem spread_total_correct (G : SpGrid) (hobs : G.obs.size = G.n) (hw : ∀ a d, 0 ≤ G.wgt a d) :
    ∃ st, spread2d G = some st ∧
      (∀ s c k, SpWalk G s c k → st.src[c]! ≠ -1 ∧ st.dst[c]! ≤ k) ∧
      (∀ c, c < G.n → G.allowed c = true → st.src[c]! ≠ -1 →
        ∃ s : Nat, st.src[c]! = (s : Int) ∧ G.isSource s = true ∧ SpWalk G s c st.dst[c]! ∧
          st.out[c]! = G.obs[s]!) := by
  obtain ⟨st, hrun⟩ := spread_terminates G hobs hw
  exact ⟨st, hrun, fun s c k h => spread_least G hobs hw st hrun s c k h,
    fun c hc hca hcs => spread_attained G hobs hw st hrun c hc hca hcs⟩

/-- **reached = reachable**: an allowed cell is marked reached iff some walk from an observation ends there -/
theorem spread_reached_iff (G : SpGrid) (hobs : G.obs.size = G.n) (hw : ∀ a d, 0 ≤ G.wgt a d)
    (st : SpState) (hrun : spread2d G = some st) (c : Nat) (hc : c < G.n) (hca : G.allowed c = true) :
    st.src[c]! ≠ -1 ↔ ∃ s k, SpWalk G s c k := by
  constructor
  · intro h
    obtain ⟨s, _, _, hwk, _⟩ := spread_attained G hobs hw st hrun c hc hca h
    exact ⟨s, _, hwk⟩
  · rintro ⟨s, k, hwk⟩
    exact (spread_least G hobs hw st hrun s c k hwk).1

/-- **observation cells keep their value with distance 0** (and are their own origin) -/
theorem spread_sources (G : SpGrid) (hobs : G.obs.size = G.n) (hw : ∀ a d, 0 ≤ G.wgt a d)
    (st : SpState) (hrun : spread2d G = some st) (i : Nat) (hi : G.isSource i = true) :
    st.src[i]! = (i : Int) ∧ st.dst[i]! = 0 ∧ st.out[i]! = G.obs[i]! := by
  obtain ⟨hb0, hp0⟩ := spInit_inv G hobs
  obtain ⟨hb, _, _⟩ := spLoop_inv hw _ _ _ hb0 hp0 hrun
  exact hb.srcs i ((G.isSource_iff i).1 hi).1 hi

/-- **unreachable or disallowed cells are left unchanged**: value = input value, distance = initial 0,
origin = none (−1), except that an observation inside a disallowed cell reports itself -/
theorem spread_unchanged (G : SpGrid) (hobs : G.obs.size = G.n) (hw : ∀ a d, 0 ≤ G.wgt a d)
    (st : SpState) (hrun : spread2d G = some st) (c : Nat) (hc : c < G.n)
    (h : G.allowed c = false ∨ ¬ ∃ s k, SpWalk G s c k) :
    st.out[c]! = G.obs[c]! ∧ st.dst[c]! = 0 ∧
      st.src[c]! = (if G.allowed c = false ∧ G.obs[c]! ≠ G.nodata then (c : Int) else -1) := by
  obtain ⟨hb0, hp0⟩ := spInit_inv G hobs
  obtain ⟨hb, _, _⟩ := spLoop_inv hw _ _ _ hb0 hp0 hrun
  by_cases hca : G.allowed c = false
  · obtain ⟨h1, h2, h3⟩ := hb.dis c hc hca
    refine ⟨h3, h2, ?_⟩
    rw [h1]; simp [hca]
  · have hca' : G.allowed c = true := by simpa using hca
    have hnw : ¬ ∃ s k, SpWalk G s c k := by
      rcases h with h | h
      · exact absurd h hca
      · exact h
    have hs : st.src[c]! = -1 := by
      apply Classical.byContradiction
      intro hne
      exact hnw ((spread_reached_iff G hobs hw st hrun c hc hca').1 hne)
    obtain ⟨h2, h3⟩ := hb.unr c hc hs
    refine ⟨h3, h2, ?_⟩
    rw [hs]; simp [hca']

/-! ### non-vacuity: 2 × 3 raster, cells 3 wide and 4 high (diagonal 5), an obstacle at cell 2, friction
field `[1, 2, 1, 1/2, 1, 1]`, observations 5 at cell 0 and 7 at cell 5 -/
def exGrid : SpGrid :=
  { nrow := 2, ncol := 3, obs := #[5, 0, 0, 0, 0, 7]
    msk := some #[true, true, false, true, true, true]
    nodata := 0, frc := some #[1, 2, 1, 1 / 2, 1, 1], dxs := #[3, 3], dys := #[4, 4], dgs := #[5, 5] }

-- the hypotheses of the `spread_*` theorems hold and the run terminates with a non-trivial result:
-- cell 4 is nearer to observation 7 (cost 3) than to observation 5 (cost 5), cell 2 is untouched
example : exGrid.obs.size = exGrid.n := by decide
example : ∀ a d, 0 ≤ exGrid.wgt a d := wgt_nonneg_of_check exGrid (by decide +kernel)
example : (spread2d exGrid).map (fun st => (st.src, st.dst, st.out)) =
    some (#[0, 0, -1, 0, 5, 5], #[0, 3, 0, 4, 3, 0], #[5, 5, 0, 5, 7, 7]) := by decide +kernel
-- a walk: observation cell 0 → cell 1 (east, cost 3·1) → cell 4 (south, cost 4·2)
example : SpWalk exGrid 0 4 (0 + exGrid.wgt 0 (0, 1) + exGrid.wgt 1 (1, 0)) :=
  SpWalk.step (1, 0) (SpWalk.step (0, 1) (SpWalk.src 0 (by decide)) (by decide) (by decide) (by decide))
    (by decide) (by decide) (by decide)

/-! ## the certificate (what the harness evaluates on the implementation's output) -/

/-- **certificate soundness, lower bound** — `_cert`: for ANY output accepted by the local check -/
theorem spreadCert_least_cert (G : SpGrid) (o : SpOut) (hc : spreadCert G o = true)
    (s c : Nat) (k : Rat) (hwalk : SpWalk G s c k) : o.src[c]! ≠ -1 ∧ o.dst[c]! ≤ k :=
  cert_lower (spreadCert_imp G o hc) hwalk

/-- **certificate soundness, attained / origin / value** — `_cert`; needs positive step costs
(`certPositive`, also decidable and evaluated by the driver) so that tight-predecessor chains end -/
theorem spreadCert_attained_cert (G : SpGrid) (o : SpOut) (hc : spreadCert G o = true)
    (hp : certPositive G = true) (c : Nat) (hcn : c < G.n) (hca : G.allowed c = true) (hcs : o.src[c]! ≠ -1) :
    ∃ s : Nat, o.src[c]! = (s : Int) ∧ G.isSource s = true ∧ SpWalk G s c o.dst[c]! ∧ o.out[c]! = G.obs[s]! := by
  obtain ⟨s, h1, h2, h3⟩ := cert_attained (spreadCert_imp G o hc) (certPositive_imp G hp) c hcn hca hcs
  exact ⟨s, h1, h2.facts.1, h2, h3⟩

/-- **certificate soundness, unchanged cells and observations** — `_cert` -/
theorem spreadCert_unchanged_cert (G : SpGrid) (o : SpOut) (hc : spreadCert G o = true)
    (hp : certPositive G = true) (c : Nat) (hcn : c < G.n) :
    (G.isSource c = true → o.src[c]! = (c : Int) ∧ o.dst[c]! = 0 ∧ o.out[c]! = G.obs[c]!) ∧
    ((G.allowed c = false ∨ ¬ ∃ s k, SpWalk G s c k) → o.out[c]! = G.obs[c]! ∧ o.dst[c]! = 0) := by
  have hP := spreadCert_imp G o hc
  refine ⟨hP.srcs c hcn, ?_⟩
  intro h
  by_cases hca : G.allowed c = false
  · obtain ⟨_, h2, h3⟩ := hP.dis c hcn hca
    exact ⟨h3, h2⟩
  · have hca' : G.allowed c = true := by simpa using hca
    have hs : o.src[c]! = -1 := by
      apply Classical.byContradiction
      intro hne
      obtain ⟨s, _, _, hwk, _⟩ := spreadCert_attained_cert G o hc hp c hcn hca' hne
      rcases h with h | h
      · exact hca h
      · exact h ⟨s, _, hwk⟩
    obtain ⟨h2, h3⟩ := hP.unr c hcn hca' hs
    exact ⟨h3, h2⟩

/-- **the distance is unique** (why `dst` is compared exactly while `src`/`out` are only required to pass the
certificate): the algorithm's result and ANY certified output mark the same allowed cells as reached and
report the same distance there. In particular two certified outputs can differ only in which of several
equally near observations they name. -/
theorem spread_dst_eq_cert (G : SpGrid) (hobs : G.obs.size = G.n) (hw : ∀ a d, 0 ≤ G.wgt a d)
    (st : SpState) (hrun : spread2d G = some st) (o : SpOut) (hc : spreadCert G o = true)
    (hp : certPositive G = true) (c : Nat) (hcn : c < G.n) (hca : G.allowed c = true) :
    (st.src[c]! ≠ -1 ↔ o.src[c]! ≠ -1) ∧ (st.src[c]! ≠ -1 → st.dst[c]! = o.dst[c]!) := by
  have h1 : st.src[c]! ≠ -1 → o.src[c]! ≠ -1 ∧ o.dst[c]! ≤ st.dst[c]! := by
    intro h
    obtain ⟨s, _, _, hwk, _⟩ := spread_attained G hobs hw st hrun c hcn hca h
    exact spreadCert_least_cert G o hc s c _ hwk
  have h2 : o.src[c]! ≠ -1 → st.src[c]! ≠ -1 ∧ st.dst[c]! ≤ o.dst[c]! := by
    intro h
    obtain ⟨s, _, _, hwk, _⟩ := spreadCert_attained_cert G o hc hp c hcn hca h
    exact spread_least G hobs hw st hrun s c _ hwk
  refine ⟨⟨fun h => (h1 h).1, fun h => (h2 h).1⟩, fun h => ?_⟩
  have a := (h1 h).2
  have b := (h2 (h1 h).1).2
  grind

-- non-vacuity: the certificate accepts the (non-trivial) output above and rejects a wrong distance / origin
example : certPositive exGrid = true := by decide +kernel
example : spreadCert exGrid ⟨#[0, 0, -1, 0, 5, 5], #[0, 3, 0, 4, 3, 0], #[5, 5, 0, 5, 7, 7]⟩ = true := by
  decide +kernel
example : spreadCert exGrid ⟨#[0, 0, -1, 0, 0, 5], #[0, 3, 0, 4, 5, 0], #[5, 5, 0, 5, 5, 7]⟩ = false := by
  decide +kernel
example : spreadCert exGrid ⟨#[0, 0, -1, 0, 0, 5], #[0, 3, 0, 4, 3, 0], #[5, 5, 0, 5, 5, 7]⟩ = false := by
  decide +kernel

/-! ## geographic grids: row latitudes use the signed y-resolution (regression of F20) -/

/-- consecutive rows differ by `transform[4]` (southwards on a north-up raster) and row 0 is half a cell
below `north` -/
theorem rowLat_step (north t4 : Rat) (r : Nat) :
    rowLat north t4 0 = north + t4 / 2 ∧ rowLat north t4 (r + 1) = rowLat north t4 r + t4 := by
  unfold rowLat
  constructor
  · have : ((0 : Nat) : Rat) = 0 := rfl
    rw [this]; grind
  · have : ((r + 1 : Nat) : Rat) = (r : Rat) + 1 := by simp [Rat.natCast_add]
    rw [this]; grind

-- north-up raster, north = 60, 5 degree cells: 57.5, 52.5 (not 62.5, 67.5); southern hemisphere, south-up
example : (List.range 3).map (rowLat 60 (-5)) = [115 / 2, 105 / 2, 95 / 2] := by decide +kernel
example : (List.range 2).map (rowLat (-10) 5) = [-15 / 2, -5 / 2] := by decide +kernel

/-! ## `regions.region_dissolve` -/

/-- the grid `region_dissolve` spreads on: dissolved regions and background are "no observation" (0),
every cell of a surviving region is an observation carrying its label -/
def dissolveGrid (G0 : SpGrid) (regions : Array Int) (labels : List Int) : SpGrid :=
  { G0 with obs := dissolveSeeds regions labels, nodata := 0 }

/-- **only dissolved regions are relabelled**: every cell whose label is not listed keeps its label
(background included); the result has the shape of the input -/
theorem dissolve_only (G0 : SpGrid) (regions : Array Int) (labels : List Int) (idxs : Option (List Nat))
    (res : Array Int) (h : regionDissolve G0 regions labels idxs = some res) :
    res.size = regions.size ∧ ∀ c, c < regions.size → regions[c]! ∉ labels → res[c]! = regions[c]! := by
  unfold regionDissolve at h
  simp only [] at h
  split at h
  · simp at h
  · have hres := (Option.some.inj h).symm
    rw [hres]
    exact ⟨relabel_size .., fun c hc hn => relabel_keep _ _ _ c hc hn⟩

/-- `region_dissolve` always produces a result (spreading terminates) -/
theorem dissolve_terminates (G0 : SpGrid) (regions : Array Int) (labels : List Int) (idxs : Option (List Nat))
    (hsz : regions.size = G0.n) (hw : ∀ a d, 0 ≤ G0.wgt a d) :
    ∃ res, regionDissolve G0 regions labels idxs = some res := by
  have hobs : (dissolveGrid G0 regions labels).obs.size = (dissolveGrid G0 regions labels).n := by
    show (dissolveSeeds regions labels).size = G0.n
    rw [dissolveSeeds_size, hsz]
  obtain ⟨st, hst⟩ := spread_terminates (dissolveGrid G0 regions labels) hobs hw
  have hst' : spread2d { G0 with obs := dissolveSeeds regions labels, nodata := 0 } = some st := hst
  unfold regionDissolve
  simp only [hst']
  exact ⟨_, rfl⟩

/-- the value spreading delivers at a reached location is the label of a surviving region from which
a walk of cost `dst[loc]` arrives -/
theorem dissolve_value (G0 : SpGrid) (regions : Array Int) (labels : List Int)
    (hsz : regions.size = G0.n) (hw : ∀ a d, 0 ≤ G0.wgt a d) (st : SpState)
    (hrun : spread2d (dissolveGrid G0 regions labels) = some st) (loc : Nat) (hloc : loc < regions.size)
    (hla : G0.allowed loc = true) (hreach : ∃ s κ, SpWalk (dissolveGrid G0 regions labels) s loc κ) :
    ∃ s : Nat, s < regions.size ∧ SpWalk (dissolveGrid G0 regions labels) s loc st.dst[loc]! ∧
      st.out[loc]! = regions[s]! ∧ regions[s]! ∉ labels ∧ regions[s]! ≠ 0 := by
  have hobs : (dissolveGrid G0 regions labels).obs.size = (dissolveGrid G0 regions labels).n := by
    show (dissolveSeeds regions labels).size = G0.n
    rw [dissolveSeeds_size, hsz]
  have hw' : ∀ a d, 0 ≤ (dissolveGrid G0 regions labels).wgt a d := hw
  have hn : loc < (dissolveGrid G0 regions labels).n := by show loc < G0.n; rw [← hsz]; exact hloc
  have hs := (spread_reached_iff _ hobs hw' st hrun loc hn hla).2 hreach
  obtain ⟨s, _, hsrc, hwk, hout⟩ := spread_attained _ hobs hw' st hrun loc hn hla hs
  obtain ⟨hsn, hso, _⟩ := ((dissolveGrid G0 regions labels).isSource_iff s).1 hsrc
  have hsn' : s < regions.size := by rw [hsz]; exact hsn
  have hso' : (dissolveSeeds regions labels)[s]! ≠ 0 := hso
  obtain ⟨g1, g2, g3⟩ := dissolveSeeds_ne_zero regions labels s hsn' hso'
  refine ⟨s, hsn', hwk, ?_, g1, g2⟩
  rw [hout]; exact g3

/-- **dissolving by label**: every cell of the `k`-th dissolved region gets the label of one surviving
region (not background, not itself dissolved), and that region is nearest: a walk of cost `κ` leads
from one of its cells `s` to a cell of the dissolved region, and no walk from any surviving cell to
any cell of the dissolved region is cheaper. (Hypotheses: labels pairwise distinct — the code raises
`ValueError` otherwise; the region is non-empty, allowed and reachable from a surviving region.) -/
theorem dissolve_nearest_labels (G0 : SpGrid) (regions : Array Int) (labels : List Int) (res : Array Int)
    (hsz : regions.size = G0.n) (hw : ∀ a d, 0 ≤ G0.wgt a d) (hnd : labels.Nodup)
    (h : regionDissolve G0 regions labels none = some res) (k : Nat) (hk : k < labels.length)
    (hne : ∃ c, c < regions.size ∧ regions[c]! = labels[k])
    (hreach : ∀ c, c < regions.size → regions[c]! = labels[k] →
      G0.allowed c = true ∧ ∃ s κ, SpWalk (dissolveGrid G0 regions labels) s c κ) :
    ∃ (loc s : Nat) (κ : Rat), loc < regions.size ∧ regions[loc]! = labels[k] ∧ s < regions.size ∧
      SpWalk (dissolveGrid G0 regions labels) s loc κ ∧ regions[s]! ∉ labels ∧ regions[s]! ≠ 0 ∧
      (∀ c, c < regions.size → regions[c]! = labels[k] → res[c]! = regions[s]!) ∧
      (∀ c s' κ', c < regions.size → regions[c]! = labels[k] →
        SpWalk (dissolveGrid G0 regions labels) s' c κ' → κ ≤ κ') := by
  unfold regionDissolve at h
  simp only [] at h
  split at h
  · simp at h
  · rename_i st hrun
    have hres : res = relabel regions labels ((labels.map fun lab => minPosition st.dst regions lab).map
        fun i => st.out[i]!) := by simpa using h.symm
    have hrun' : spread2d (dissolveGrid G0 regions labels) = some st := hrun
    obtain ⟨p1, p2, p3⟩ := minPosition_spec st.dst regions labels[k] hne
    obtain ⟨hla, hrc⟩ := hreach _ p1 p2
    obtain ⟨s, hs1, hs2, hs3, hs4, hs5⟩ := dissolve_value G0 regions labels hsz hw st hrun' _ p1 hla hrc
    refine ⟨_, s, _, p1, p2, hs1, hs2, hs4, hs5, ?_, ?_⟩
    · intro c hc hl
      rw [hres, relabel_hit regions labels _ hnd (by simp) c hc k hk hl, ← hs3]
      simp [hk]
    · intro c s' κ' hc hl hwk
      have hobs : (dissolveGrid G0 regions labels).obs.size = (dissolveGrid G0 regions labels).n := by
        show (dissolveSeeds regions labels).size = G0.n
        rw [dissolveSeeds_size, hsz]
      have := (spread_least _ hobs hw st hrun' s' c κ' hwk).2
      have := p3 c hc hl
      grind

/-- **dissolving by location**: with one location `idxs[k]` per dissolved region (`labels[k]` = the
label at that location), every cell of the region gets the label of the surviving region nearest to
that location. -/
theorem dissolve_nearest_idxs (G0 : SpGrid) (regions : Array Int) (labels : List Int) (idxs : List Nat)
    (res : Array Int) (hsz : regions.size = G0.n) (hw : ∀ a d, 0 ≤ G0.wgt a d) (hnd : labels.Nodup)
    (hlen : idxs.length = labels.length)
    (h : regionDissolve G0 regions labels (some idxs) = some res) (k : Nat) (hk : k < labels.length)
    (hloc : idxs[k]! < regions.size) (hla : G0.allowed idxs[k]! = true)
    (hreach : ∃ s κ, SpWalk (dissolveGrid G0 regions labels) s idxs[k]! κ) :
    ∃ (s : Nat) (κ : Rat), s < regions.size ∧
      SpWalk (dissolveGrid G0 regions labels) s idxs[k]! κ ∧ regions[s]! ∉ labels ∧ regions[s]! ≠ 0 ∧
      (∀ c, c < regions.size → regions[c]! = labels[k] → res[c]! = regions[s]!) ∧
      (∀ s' κ', SpWalk (dissolveGrid G0 regions labels) s' idxs[k]! κ' → κ ≤ κ') := by
  unfold regionDissolve at h
  simp only [] at h
  split at h
  · simp at h
  · rename_i st hrun
    have hres : res = relabel regions labels (idxs.map fun i => st.out[i]!) := by simpa using h.symm
    have hrun' : spread2d (dissolveGrid G0 regions labels) = some st := hrun
    obtain ⟨s, hs1, hs2, hs3, hs4, hs5⟩ := dissolve_value G0 regions labels hsz hw st hrun' _ hloc hla hreach
    refine ⟨s, _, hs1, hs2, hs4, hs5, ?_, ?_⟩
    · intro c hc hl
      have hk' : k < idxs.length := by omega
      rw [hres, relabel_hit regions labels _ hnd (by simp [hlen]) c hc k hk hl, ← hs3]
      simp [hk']
    · intro s' κ' hwk
      have hobs : (dissolveGrid G0 regions labels).obs.size = (dissolveGrid G0 regions labels).n := by
        show (dissolveSeeds regions labels).size = G0.n
        rw [dissolveSeeds_size, hsz]
      exact (spread_least _ hobs hw st hrun' s' _ κ' hwk).2

/-! ### non-vacuity: regions `[[1,1,3],[2,2,7]]`, dissolve 1 and 2: region 1 goes to 3 (cost 3 from cell 2
to cell 1), region 2 goes to 7 (cost 3 from cell 5 to cell 4) -/
def exGeo : SpGrid :=
  { nrow := 2, ncol := 3, obs := #[], msk := none
    nodata := 0, frc := none, dxs := #[3, 3], dys := #[4, 4], dgs := #[5, 5] }
example : regionDissolve exGeo #[1, 1, 3, 2, 2, 7] [1, 2] none = some #[3, 3, 3, 7, 7, 7] := by decide +kernel
example : regionDissolve exGeo #[1, 1, 3, 2, 2, 7] [1, 2] (some [0, 3]) = some #[3, 3, 3, 7, 7, 7] := by
  decide +kernel
example : ([1, 2] : List Int).Nodup := by decide
example : ∀ a d, 0 ≤ exGeo.wgt a d := wgt_nonneg_of_check exGeo (by decide +kernel)
example : SpWalk (dissolveGrid exGeo #[1, 1, 3, 2, 2, 7] [1, 2]) 2 1 (0 + exGeo.wgt 2 (0, -1)) :=
  SpWalk.step (0, -1) (SpWalk.src 2 (by decide +kernel)) (by decide) (by decide) (by decide)

end Pf.C20
