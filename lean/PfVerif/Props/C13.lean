import PfVerif.Props.C03
import PfVerif.Props.C06
import PfVerif.Props.C10
import PfVerif.Props.C11
import PfVerif.Props.C20
/-! # C13 — operations terminate, stay in bounds and never modify their inputs

The Lean half of C13 is the family of *totality* theorems: every `while True` / worklist loop of the
library is modelled as a structural recursion on a fuel argument that returns `none` when the fuel
runs out; the theorems below say that a fuel polynomial (in fact linear) in the number of cells
always suffices on the documented domain, for every input - i.e. the modelled loop terminates within
that many iterations. They are restated here (with the fuel bound made explicit) from the property
files in which they are proved. Purity is by construction: the models are pure functions, so
"inputs are never modified" is a statement about the code that only the harness can check
(byte-wise snapshots of every argument before/after each call, guard on the object's network).

Not covered by a theorem (exploration only, see `harness/props/c13.py`): `fill_depressions` with
`max_depth >= 0`, the Pfafstetter worklist, IHU's iterative stages, `_adjust_elevation`. -/
namespace Pf.C13
open Pf

/-- `core.rank` (explicit stack, nested `while True`) ends within fuel `n+1` per start cell on every
well-formed network, cycles included -/
theorem rank_total (ds : Array Nat) (hwf : WF ds) : (rank ds).isSome = true := by
  obtain ⟨r, c, h, _⟩ := C03.rank_cert ds hwf
  simp [h]

/-- `core.loop_indices` (runs `rank`) always returns -/
theorem loop_indices_total (ds : Array Nat) (hwf : WF ds) : (loopIndices ds).isSome = true := by
  obtain ⟨r, c, h, _⟩ := C03.rank_cert ds hwf
  simp [loopIndices, h]

/-- `core._trace` downstream on a loop-free network: at most `n` iterations, whatever mask, maximum
length and step lengths -/
theorem trace_down_total (ds : Array Nat) (seq : List Nat) (htopo : Topo ds seq)
    (mask : Option (Array Bool)) (maxLen : Option Int) (step : Nat → Nat → Int) (s : Nat) (hs : s ∈ seq) :
    (traceFrom ds mask maxLen step seq.length s).isSome = true :=
  C11.trace_total_topo ds seq htopo mask maxLen step seq.length s hs (Nat.le_refl _)

/-- `core._trace` upstream along the main-upstream cells of a loop-free network -/
theorem trace_up_total (ds : Array Nat) (seq : List Nat) (htopo : Topo ds seq)
    (hall : ∀ i, i < ds.size → ds[i]! < ds.size → i ∈ seq) (uparea : Array Int) (upaMin : Int)
    (mask : Option (Array Bool)) (maxLen : Option Int) (step : Nat → Nat → Int) (s : Nat) (hs : s < ds.size) :
    (traceFrom (mainUpstream ds uparea upaMin) mask maxLen step (seq.length + 1) s).isSome = true :=
  C11.trace_total_up_topo ds seq htopo hall uparea upaMin mask maxLen step (seq.length + 1) s hs (Nat.lt_succ_self _)

/-- on networks WITH loops a trace still ends if a positive minimum step length and a finite
`max_length` are given: at most `max_length / δ + 1` iterations -/
theorem trace_loops_total (nxt : Array Nat) (mask : Option (Array Bool)) (ml δ : Int)
    (step : Nat → Nat → Int) (hδ : 0 < δ) (hstep : ∀ i j, δ ≤ step i j) (s : Nat) :
    (traceFrom nxt mask (some ml) step ((ml / δ).toNat + 1) s).isSome = true :=
  C11.trace_total_maxlen_pos nxt mask ml δ step hδ hstep _ s (Nat.lt_succ_self _)

/-- the sub-grid segment walks (length / average / median / slope, direction "down") end within
`n+1` iterations on a loop-free network -/
theorem segment_walks_total (ds : Array Nat) (seq : List Nat) (isOut : Array Bool) (mask : Option (Array Bool))
    (htopo : Topo ds seq) (hb : ∀ i ∈ seq, i < ds.size) (s : Nat) (hs : s ∈ seq) :
    (∃ cells, C10.exclWalk ds isOut mask (ds.size + 1) s = some cells) ∧
    (∃ e, C10.lenWalk ds isOut mask (ds.size + 1) s = some e) :=
  C10.segment_down_total ds seq isOut mask htopo hb s hs

/-- priority-flood `fill_depressions` (unlimited depth): whenever it starts (a seed exists) the heap
loop runs empty within its fuel `n+1` pops -/
theorem fill_total {G : C06.Grid} {conn : Nat} {elev : Array Int} {nod : Array Bool} {f : Array Int}
    {d8 : Array Nat} {pits : Option (List Nat)} {minMode fin : Bool}
    (hN : nod.size = G.n) (hE : elev.size = G.n)
    (h : C06.fillModel G conn elev nod pits minMode = some (f, d8, fin)) : fin = true :=
  C06.fillModel_terminates hN hE h

/-- Dijkstra `spread2d`: ends within fuel `10 n + 1` heap pops for non-negative step costs -/
theorem spread_total (G : SpGrid) (hobs : G.obs.size = G.n) (hw : ∀ a d, 0 ≤ G.wgt a d) :
    ∃ st, spread2d G = some st :=
  C20.spread_terminates G hobs hw

/-- `region_dissolve` always returns -/
theorem dissolve_total (G0 : SpGrid) (regions : Array Int) (labels : List Int) (idxs : Option (List Nat))
    (hsz : regions.size = G0.n) (hw : ∀ a d, 0 ≤ G0.wgt a d) :
    ∃ res, regionDissolve G0 regions labels idxs = some res :=
  C20.dissolve_terminates G0 regions labels idxs hsz hw

/-- the breadth-first `core.idxs_seq` visits every pit-draining cell exactly once (so its `while`
loop performs at most `n` iterations and never writes past the `n` slots of its output) -/
theorem idxs_seq_bounded (ds : Array Nat) (hwf : WF ds) :
    (orderWalk ds).Nodup ∧ ∀ i ∈ orderWalk ds, Valid ds i :=
  ⟨(C03.seq_walk_topo ds hwf).2.1, fun i hi => (((C03.seq_walk_topo ds hwf).2.2 i).1 hi).1⟩

/-! ### in-bounds access of the sweep kernels

Every down-to-upstream and up-to-downstream kernel (`fillnodata_upstream`, `accuflux`, `accuflux_ds`,
`stream_distance`, HAND, floodplains, basins, Strahler and classic order, unit catchments, …) touches,
for a cell `i` of the order, exactly the indices `i` and `ds[i]`. On a well-formed network with the
library's own order both are inside every per-cell array: -/

/-- the library's breadth-first order only contains cells whose own index and downstream index are in range -/
theorem sweep_indices_in_bounds_walk (ds : Array Nat) (hwf : WF ds) :
    ∀ i ∈ orderWalk ds, i < ds.size ∧ ds[i]! < ds.size := by
  intro i hi
  exact ((C03.seq_walk_topo ds hwf).2.2 i).1 hi |>.1

/-- for ANY downstream-first order whose members are cells of the network, the downstream index read
by a sweep step is again a member of the order (so a sweep never reads a cell it has not initialised) -/
theorem sweep_downstream_in_order (ds : Array Nat) (seq : List Nat) (htopo : Topo ds seq) :
    ∀ i ∈ seq, ds[i]! ∈ seq :=
  Topo.ds_mem htopo

/-- and every index of an order accepted by the executable check `isTopo` is in range -/
theorem sweep_indices_in_bounds_checked (ds : Array Nat) (seq : List Nat) (h : isTopo ds seq = true) :
    ∀ i ∈ seq, i < ds.size ∧ ds[i]! ∈ seq :=
  fun i hi => ⟨(C03.isTopo_sound ds seq h).2 i hi, Topo.ds_mem (C03.isTopo_sound ds seq h).1 i hi⟩

/-! non-vacuity -/
example : WF #[1, 2, 0, 3, 3, 6, 5, 7, 5, 10] := (C03.wfB_iff _).1 (by decide)
example : (rank #[1, 2, 0, 3, 3, 6, 5, 7, 5, 10]).isSome = true := by decide +kernel

end Pf.C13
