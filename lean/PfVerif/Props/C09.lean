import PfVerif.Proofs.C09Arith
import PfVerif.Proofs.C09Cert
import PfVerif.Proofs.C09Trace
import PfVerif.Proofs.C09Rep
import PfVerif.Proofs.C09Scale1
import PfVerif.Proofs.C09Adj
import PfVerif.Proofs.C09Loop
import PfVerif.Proofs.C09Topo
import PfVerif.Proofs.C03Topo
/-! # C09 — upscaling yields a valid coarse D8 network anchored on fine-grid outlet pixels

All theorems are about the executable model `PfVerif/Model/C09.lean` of `pyflwdir/upscale.py` and quantify over
every fine network `ds`, every fine shape and scale factor `g : Geo`, every upstream-area array and every
effective-area map; no bound on sizes. `g.OK ds` says the fine array has the fine shape's size and `s ≥ 1`;
`FineWF ds` says valid fine cells point to valid fine cells. -/
namespace Pf.C09
open Pf

/-! ## shapes and the coarse cell of a pixel -/

/-- **shape_ceil**: the coarse shape is `ceil(rows/s) × ceil(cols/s)`: the least numbers of coarse rows / columns
that cover the fine raster -/
theorem shape_ceil (g : Geo) (hs : 0 < g.cs) :
    g.subnrow ≤ g.nrow * g.cs ∧ g.nrow * g.cs < g.subnrow + g.cs ∧
    g.subncol ≤ g.ncol * g.cs ∧ g.ncol * g.cs < g.subncol + g.cs :=
  ⟨ceilDiv_le_mul _ _ hs, ceilDiv_mul_lt _ _ hs, ceilDiv_le_mul _ _ hs, ceilDiv_mul_lt _ _ hs⟩

/-- **the coarse cell of a pixel** lies inside the coarse raster and has row `⌊row/s⌋`, column `⌊col/s⌋` -/
theorem cell_of_pixel (g : Geo) (ds : Array Nat) (hg : g.OK ds) (p : Nat) (hp : p < ds.size) :
    g.cell p < g.ncell ∧ g.cell p / g.ncol = (p / g.subncol) / g.cs ∧
    g.cell p % g.ncol = (p % g.subncol) / g.cs :=
  ⟨g.cell_lt ds hg p hp, g.cell_row ds hg p hp, g.cell_col ds hg p hp⟩

/-- with scale factor 1 the coarse cell of a pixel is the pixel -/
theorem cell_scale_one (g : Geo) (h1 : g.cs = 1) (p : Nat) : g.cell p = p := by
  unfold Geo.cell Geo.ncol
  rw [h1, ceilDiv_one]; exact subidx2idx_one p g.subncol

/-! ## the representative / exit pixel -/

/-- **exit_in_cell** (`dmm_exitcell`): the exit pixel of a coarse cell is a valid fine cell of that coarse cell
which is a pit or lies on the cell edge, has positive and maximal upstream area among all such pixels of the cell,
and is the first such pixel in index order; a cell gets no exit pixel iff it has no such pixel with positive
upstream area -/
theorem exit_in_cell (ds : Array Nat) (upa : Array Int) (g : Geo) :
    let cand := fun p => cellEdge p g.subncol g.cs
    let rep := dmmExitcell ds upa g.subncol g.cs g.ncol g.ncell
    rep.size = g.ncell ∧ ∀ c, c < g.ncell →
      (rep[c]! = ds.size ∧ ∀ j, j < ds.size → IsCand ds cand j → g.cell j = c → upa[j]! ≤ 0) ∨
      (rep[c]! < ds.size ∧ IsCand ds cand rep[c]! ∧ g.cell rep[c]! = c ∧ 0 < upa[rep[c]!]! ∧
        (∀ j, j < ds.size → IsCand ds cand j → g.cell j = c → upa[j]! ≤ upa[rep[c]!]!) ∧
        (∀ j, j < rep[c]! → IsCand ds cand j → g.cell j = c → upa[j]! < upa[rep[c]!]!)) :=
  repCells_spec ds upa _ _ g.ncell

/-- **rep_in_cell** (`eam_repcell`): same with "inside the effective area" in place of "on the cell edge" -/
theorem rep_in_cell (ds : Array Nat) (upa : Array Int) (ea : Array Bool) (g : Geo) :
    let cand := fun p => ea[p]!
    let rep := eamRepcell ds upa ea g.subncol g.cs g.ncol g.ncell
    rep.size = g.ncell ∧ ∀ c, c < g.ncell →
      (rep[c]! = ds.size ∧ ∀ j, j < ds.size → IsCand ds cand j → g.cell j = c → upa[j]! ≤ 0) ∨
      (rep[c]! < ds.size ∧ IsCand ds cand rep[c]! ∧ g.cell rep[c]! = c ∧ 0 < upa[rep[c]!]! ∧
        (∀ j, j < ds.size → IsCand ds cand j → g.cell j = c → upa[j]! ≤ upa[rep[c]!]!) ∧
        (∀ j, j < rep[c]! → IsCand ds cand j → g.cell j = c → upa[j]! < upa[rep[c]!]!)) :=
  repCells_spec ds upa _ _ g.ncell

/-- what the later stages need from a representative-pixel array -/
def RepOK (ds : Array Nat) (g : Geo) (rep : Array Nat) : Prop :=
  rep.size = g.ncell ∧ ∀ c, c < g.ncell → rep[c]! ≠ ds.size → ValidPx ds rep[c]! ∧ g.cell rep[c]! = c

theorem repCells_ok (ds : Array Nat) (upa : Array Int) (cand : Nat → Bool) (g : Geo) :
    RepOK ds g (repCells ds upa cand g.cell g.ncell) := by
  obtain ⟨h1, h2⟩ := repCells_spec ds upa cand g.cell g.ncell
  refine ⟨h1, fun c hc hv => ?_⟩
  rcases h2 c hc with ⟨a, _⟩ | ⟨a, b, c', _⟩
  · exact absurd a hv
  · exact ⟨⟨a, b.1⟩, c'⟩

/-- **outlet_in_cell / outlet_leaves** (`ihu_outlets`): the outlet pixel of a coarse cell is a valid fine cell inside
that coarse cell, downstream of the representative pixel, and the pixel downstream of it lies in another
coarse cell unless the outlet pixel is a pit; cells without representative pixel get no outlet -/
theorem outlet_in_cell (ds rep out : Array Nat) (g : Geo) (hwf : FineWF ds) (hrep : RepOK ds g rep)
    (h : ihuOutlets ds rep g.subncol g.cs g.ncol = some out) :
    out.size = g.ncell ∧ ∀ c, c < g.ncell →
      (rep[c]! = ds.size → out[c]! = ds.size) ∧
      (rep[c]! ≠ ds.size → ValidPx ds out[c]! ∧ g.cell out[c]! = c ∧
        (g.cell ds[out[c]!]! ≠ c ∨ ds[out[c]!]! = out[c]!) ∧ ∃ k, out[c]! = iterA ds k rep[c]!) := by
  obtain ⟨hs, hf⟩ := collect_some _ _ _ h
  rw [hrep.1] at hs hf
  refine ⟨hs, fun c hc => ?_⟩
  have hfc := hf c hc
  simp only at hfc
  constructor
  · intro hmv
    rw [if_pos hmv] at hfc
    exact (Option.some.inj hfc).symm
  · intro hv
    rw [if_neg hv] at hfc
    obtain ⟨hvp, hcell⟩ := hrep.2 c hc hv
    have hinv := ihuOutTrace_inv ds g.cell c (fun p => ValidPx ds p ∧ g.cell p = c)
      (fun p hp _ hc' => ⟨hwf.next hp.1, hc'⟩) _ _ _ hfc ⟨hvp, hcell⟩
    exact ⟨hinv.1, hinv.2, ihuOutTrace_exit ds g.cell c _ _ _ hfc, ihuOutTrace_downstream ds g.cell c _ _ _ hfc⟩

/-! ## the three modelled pipelines: sizes, outlets in their own cell, distinct, valid iff outlet -/

/-- the outlet part of the property for the non-iterative methods -/
structure OutletsOwnCell (ds : Array Nat) (g : Geo) (cds out : Array Nat) : Prop where
  size_cds : cds.size = g.ncell
  size_out : out.size = g.ncell
  /-- every outlet pixel is a valid fine cell inside its own coarse cell -/
  own : ∀ c, c < g.ncell → out[c]! ≠ ds.size → ValidPx ds out[c]! ∧ g.cell out[c]! = c
  /-- hence outlet pixels are pairwise distinct -/
  distinct : ∀ c c', c < g.ncell → c' < g.ncell → out[c]! ≠ ds.size → out[c]! = out[c']! → c = c'

theorem OutletsOwnCell.of_own {ds : Array Nat} {g : Geo} {cds out : Array Nat} (h1 : cds.size = g.ncell)
    (h2 : out.size = g.ncell)
    (h3 : ∀ c, c < g.ncell → out[c]! ≠ ds.size → ValidPx ds out[c]! ∧ g.cell out[c]! = c) :
    OutletsOwnCell ds g cds out :=
  ⟨h1, h2, h3, fun c c' hc hc' hv he => by
    have a := (h3 c hc hv).2
    have b := (h3 c' hc' (he ▸ hv)).2
    rw [← a, he, b]⟩

/-- **outlet in own cell, dmm** -/
theorem dmm_outlets (ds : Array Nat) (upa : Array Int) (g : Geo) (cds out : Array Nat)
    (h : dmmModel ds upa g = some (cds, out)) : OutletsOwnCell ds g cds out := by
  unfold dmmModel at h
  simp only [Option.map_eq_some_iff, Prod.mk.injEq] at h
  obtain ⟨cds', hn, rfl, rfl⟩ := h
  have hrep := repCells_ok ds upa (fun p => cellEdge p g.subncol g.cs) g
  obtain ⟨hs, _⟩ := collect_some _ _ _ hn
  exact OutletsOwnCell.of_own (hs.trans hrep.1) hrep.1 hrep.2

/-- **outlet in own cell, eam** -/
theorem eam_outlets (ds : Array Nat) (upa : Array Int) (ea : Array Bool) (g : Geo) (cds out : Array Nat)
    (h : eamModel ds upa ea g = some (cds, out)) : OutletsOwnCell ds g cds out := by
  unfold eamModel at h
  simp only [Option.map_eq_some_iff, Prod.mk.injEq] at h
  obtain ⟨cds', hn, rfl, rfl⟩ := h
  have hrep := repCells_ok ds upa (fun p => ea[p]!) g
  obtain ⟨hs, _⟩ := collect_some _ _ _ hn
  exact OutletsOwnCell.of_own (hs.trans hrep.1) hrep.1 hrep.2

/-- **outlet in own cell, eam_plus** (`ihu` without iterations) -/
theorem eam_plus_outlets (ds : Array Nat) (upa : Array Int) (ea : Array Bool) (g : Geo) (cds out : Array Nat)
    (fix : List Nat) (hwf : FineWF ds) (h : eamPlusModel ds upa ea g = some (cds, out, fix)) :
    OutletsOwnCell ds g cds out := by
  unfold eamPlusModel at h
  simp only at h
  split at h
  · cases h
  · rename_i out' hout
    simp only [Option.map_eq_some_iff, Prod.mk.injEq] at h
    obtain ⟨r, hn, rfl, rfl, rfl⟩ := h
    have hrep := repCells_ok ds upa (fun p => ea[p]!) g
    obtain ⟨hso, ho⟩ := outlet_in_cell ds _ out' g hwf hrep hout
    unfold ihuNextidx at hn
    simp only [Option.map_eq_some_iff] at hn
    obtain ⟨a, ha, rfl⟩ := hn
    obtain ⟨hsa, _⟩ := collect_some _ _ _ ha
    refine OutletsOwnCell.of_own (by simp [hsa, hso]) hso (fun c hc hv => ?_)
    have := ho c hc
    by_cases hr : (eamRepcell ds upa ea g.subncol g.cs g.ncol g.ncell)[c]! = ds.size
    · exact absurd (this.1 hr) hv
    · exact ⟨(this.2 hr).1, (this.2 hr).2.1⟩

/-- **valid_iff_outlet, dmm**: a coarse cell is valid exactly where an exit pixel is reported, and valid cells
point inside the coarse raster -/
theorem dmm_valid_iff_outlet (ds : Array Nat) (upa : Array Int) (g : Geo) (cds out : Array Nat)
    (hg : g.OK ds) (hwf : FineWF ds) (h : dmmModel ds upa g = some (cds, out)) :
    ∀ c, c < g.ncell → (cds[c]! ≠ g.ncell ↔ out[c]! ≠ ds.size) ∧ cds[c]! ≤ g.ncell := by
  unfold dmmModel at h
  simp only [Option.map_eq_some_iff, Prod.mk.injEq] at h
  obtain ⟨cds', hn, rfl, rfl⟩ := h
  have hrep := repCells_ok ds upa (fun p => cellEdge p g.subncol g.cs) g
  obtain ⟨_, hf⟩ := collect_some _ _ _ hn
  intro c hc
  have hfc := hf c (by rw [show (dmmExitcell ds upa g.subncol g.cs g.ncol g.ncell).size = g.ncell from hrep.1]; exact hc)
  simp only at hfc
  by_cases hr : (dmmExitcell ds upa g.subncol g.cs g.ncol g.ncell)[c]! = ds.size
  · rw [if_pos hr] at hfc
    have e := (Option.some.inj hfc).symm
    rw [show (dmmExitcell ds upa g.subncol g.cs g.ncol g.ncell).size = g.ncell from hrep.1] at e
    exact ⟨by simp [e, hr], by omega⟩
  · rw [if_neg hr] at hfc
    have hlt := dmmTrace_inv ds g.cell _ c (ValidPx ds) (· < g.ncell)
      (fun p hp _ => ⟨hwf.next hp, g.cell_lt ds hg _ (hwf.next hp).1⟩) _ _ _ _ hfc (hrep.2 c hc hr).1 hc
    exact ⟨⟨fun _ => hr, fun _ => by omega⟩, by omega⟩

/-- **valid_iff_outlet, eam** -/
theorem eam_valid_iff_outlet (ds : Array Nat) (upa : Array Int) (ea : Array Bool) (g : Geo) (cds out : Array Nat)
    (hg : g.OK ds) (hwf : FineWF ds) (h : eamModel ds upa ea g = some (cds, out)) :
    ∀ c, c < g.ncell → (cds[c]! ≠ g.ncell ↔ out[c]! ≠ ds.size) ∧ cds[c]! ≤ g.ncell := by
  unfold eamModel at h
  simp only [Option.map_eq_some_iff, Prod.mk.injEq] at h
  obtain ⟨cds', hn, rfl, rfl⟩ := h
  have hrep := repCells_ok ds upa (fun p => ea[p]!) g
  obtain ⟨_, hf⟩ := collect_some _ _ _ hn
  intro c hc
  have hfc := hf c (by rw [show (eamRepcell ds upa ea g.subncol g.cs g.ncol g.ncell).size = g.ncell from hrep.1]; exact hc)
  simp only at hfc
  by_cases hr : (eamRepcell ds upa ea g.subncol g.cs g.ncol g.ncell)[c]! = ds.size
  · rw [if_pos hr] at hfc
    have e := (Option.some.inj hfc).symm
    rw [show (eamRepcell ds upa ea g.subncol g.cs g.ncol g.ncell).size = g.ncell from hrep.1] at e
    exact ⟨by simp [e, hr], by omega⟩
  · rw [if_neg hr] at hfc
    obtain ⟨q, hq, hcq⟩ := eamTrace_inv ds ea g.cell c (ValidPx ds) (fun p hp => hwf.next hp) _ _ _ hfc
      (hrep.2 c hc hr).1
    have hlt : cds'[c]! < g.ncell := hcq ▸ g.cell_lt ds hg q hq.1
    exact ⟨⟨fun _ => hr, fun _ => by omega⟩, by omega⟩

/-- **what `ihu_nextidx` guarantees for an unflagged cell** (and the easy half of valid ⇔ outlet for `eam_plus`):
a coarse cell without outlet pixel is invalid, every link points inside the raster or is missing, and a cell that
`ihu_nextidx` does not flag is linked, inside its 3×3 neighbourhood, to the coarse cell whose outlet pixel is the
first outlet pixel met downstream. The full equivalence is `eam_plus_valid_iff_outlet` below. -/
theorem eam_plus_unflagged (ds : Array Nat) (upa : Array Int) (ea : Array Bool) (g : Geo)
    (cds out : Array Nat) (fix : List Nat) (hg : g.OK ds) (hwf : FineWF ds)
    (h : eamPlusModel ds upa ea g = some (cds, out, fix)) :
    ∀ c, c < g.ncell →
      (out[c]! = ds.size → cds[c]! = g.ncell) ∧ cds[c]! ≤ g.ncell ∧
      (out[c]! ≠ ds.size → c ∉ fix →
        cds[c]! < g.ncell ∧ inD8 c cds[c]! g.ncol = true ∧ ValidPx ds out[cds[c]!]! ∧ g.cell out[cds[c]!]! = cds[c]!) := by
  have hown := eam_plus_outlets ds upa ea g cds out fix hwf h
  unfold eamPlusModel at h
  simp only at h
  split at h
  · cases h
  · rename_i out' hout
    simp only [Option.map_eq_some_iff, Prod.mk.injEq] at h
    obtain ⟨r, hn, rfl, rfl, rfl⟩ := h
    unfold ihuNextidx at hn
    simp only [Option.map_eq_some_iff] at hn
    obtain ⟨a, ha, rfl⟩ := hn
    obtain ⟨hsa, hf⟩ := collect_some _ _ _ ha
    have hso : out'.size = g.ncell := hown.size_out
    intro c hc
    have hca : c < a.size := by rw [hsa, hso]; exact hc
    have hfc := hf c (hso ▸ hc)
    simp only [] at hfc ⊢
    rw [get!_map_fst' a c hca]
    by_cases ho : out'[c]! = ds.size
    · rw [if_pos ho] at hfc
      have e : a[c]! = (out'.size, false) := (Option.some.inj hfc).symm
      refine ⟨fun _ => by rw [e, hso], by rw [e, hso]; exact Nat.le_refl _, fun hne => absurd ho hne⟩
    · rw [if_neg ho] at hfc
      simp only [Option.map_eq_some_iff] at hfc
      obtain ⟨r, hr, hra⟩ := hfc
      have hvo := (hown.own c hc ho).1
      have hP := ihuNextTrace_inv ds out' ea g.cell g.ncol c (ValidPx ds) (fun p hp => hwf.next hp) _ _ _ _ hr hvo
        (fun q hq => by cases hq)
      have hle : a[c]!.1 ≤ g.ncell := by
        rw [← hra]
        cases hr1 : r.1 with
        | none => simp [hso]
        | some q => exact Nat.le_of_lt (g.cell_lt ds hg q (hP q hr1).1)
      refine ⟨fun e => absurd e ho, hle, fun _ hnf => ?_⟩
      have hflag : r.2 = false := by
        have : a[c]!.2 = false := by
          apply Classical.byContradiction; intro hne
          apply hnf
          simp only [List.mem_filter, List.mem_range]
          exact ⟨hca, by simpa using hne⟩
        rw [← hra] at this; exact this
      obtain ⟨q, hq1, hq2, hq3⟩ := ihuNextTrace_d8 ds out' ea g.cell g.ncol c _ _ _ _ hr hflag
      have hcell : a[c]!.1 = g.cell q := by rw [← hra, hq1]; rfl
      rw [hcell]
      exact ⟨g.cell_lt ds hg q (hP q hq1).1, hq2, by rw [hq3]; exact hP q hq1, by rw [hq3]⟩

/-! ## 8-neighbour adjacency by construction (dmm, eam, first pass of eam_plus / ihu)

Hypotheses: the fine network links 8-neighbours (`FineD8`, true of every D8/LDD raster) and the effective-area map
contains the centre cross of every coarse cell (`EaCross`: the `ri <= 0.5 or ci <= 0.5` clause of `effective_area`,
re-checked by the driver on the map the implementation actually used). -/

theorem inD8_self (c ncol : Nat) : inD8 c c ncol = true := by
  rw [inD8_iff]; unfold StepAx; omega

/-- **eam: every coarse link joins 8-neighbours** — the trace stops at the first effective-area pixel of another
cell, and a D8 path cannot get past the centre cross of a neighbouring cell without stepping on it -/
theorem eam_links_d8 (ds : Array Nat) (upa : Array Int) (ea : Array Bool) (g : Geo) (cds out : Array Nat)
    (hg : g.OK ds) (hwf : FineWF ds) (hd8 : FineD8 ds g.subncol) (hea : EaCross g ea ds.size)
    (h : eamModel ds upa ea g = some (cds, out)) :
    ∀ c, c < g.ncell → cds[c]! ≠ g.ncell → inD8 c cds[c]! g.ncol = true := by
  unfold eamModel at h
  simp only [Option.map_eq_some_iff, Prod.mk.injEq] at h
  obtain ⟨cds', hn, rfl, rfl⟩ := h
  have hrep := repCells_ok ds upa (fun p => ea[p]!) g
  have hrs : (eamRepcell ds upa ea g.subncol g.cs g.ncol g.ncell).size = g.ncell := hrep.1
  obtain ⟨_, hf⟩ := collect_some _ _ _ hn
  intro c hc hv
  have hfc := hf c (by rw [hrs]; exact hc)
  simp only at hfc
  by_cases hr : (eamRepcell ds upa ea g.subncol g.cs g.ncol g.ncell)[c]! = ds.size
  · rw [if_pos hr, hrs] at hfc
    exact absurd (Option.some.inj hfc).symm hv
  · rw [if_neg hr] at hfc
    obtain ⟨hvp, hcell⟩ := hrep.2 c hc hr
    obtain ⟨hn2, hgd⟩ := near2_of_cell g ds hg c _ hvp.1 hcell
    obtain ⟨q, hq, hnq, hcq⟩ := eamTrace_near ds ea g c hg hwf hd8 hea _ _ _ hfc hvp hn2 hgd
    rw [hcq]; exact near2_inD8 g ds hg c q hq.1 hnq

/-- **eam_plus: valid ⇔ outlet (full) and every coarse link joins 8-neighbours.** A cell with an outlet pixel
always gets a downstream cell: if the next outlet pixel (or pit) downstream is outside the 3×3 neighbourhood, the
path has crossed an effective-area pixel before, and the first such pixel lies in the 3×3 neighbourhood. -/
theorem eam_plus_valid_iff_outlet (ds : Array Nat) (upa : Array Int) (ea : Array Bool) (g : Geo)
    (cds out : Array Nat) (fix : List Nat) (hg : g.OK ds) (hwf : FineWF ds) (hd8 : FineD8 ds g.subncol)
    (hea : EaCross g ea ds.size) (h : eamPlusModel ds upa ea g = some (cds, out, fix)) :
    ∀ c, c < g.ncell →
      (cds[c]! ≠ g.ncell ↔ out[c]! ≠ ds.size) ∧
      (out[c]! ≠ ds.size → cds[c]! < g.ncell ∧ inD8 c cds[c]! g.ncol = true) := by
  have hown := eam_plus_outlets ds upa ea g cds out fix hwf h
  have hpart := eam_plus_unflagged ds upa ea g cds out fix hg hwf h
  unfold eamPlusModel at h
  simp only at h
  split at h
  · cases h
  · rename_i out' hout
    simp only [Option.map_eq_some_iff, Prod.mk.injEq] at h
    obtain ⟨r, hn, rfl, rfl, rfl⟩ := h
    unfold ihuNextidx at hn
    simp only [Option.map_eq_some_iff] at hn
    obtain ⟨a, ha, rfl⟩ := hn
    obtain ⟨hsa, hf⟩ := collect_some _ _ _ ha
    have hso : out'.size = g.ncell := hown.size_out
    intro c hc
    have hca : c < a.size := by rw [hsa, hso]; exact hc
    have hfc := hf c (hso ▸ hc)
    have key : out'[c]! ≠ ds.size → (a.map (·.1))[c]! < g.ncell ∧ inD8 c (a.map (·.1))[c]! g.ncol = true := by
      intro ho
      rw [get!_map_fst' a c hca]
      rw [if_neg ho] at hfc
      simp only [Option.map_eq_some_iff] at hfc
      obtain ⟨r, hr, hra⟩ := hfc
      obtain ⟨hvo, hcell⟩ := hown.own c hc ho
      obtain ⟨q, hq1, hq2, hq3⟩ := ihuNextTrace_near ds out' ea g c hg hwf hd8 hea _ _ _ _ hr hvo
        (fun _ => near2_of_cell g ds hg c _ hvo.1 hcell) (fun q hq => by cases hq)
      have hcq : a[c]!.1 = g.cell q := by rw [← hra, hq1]; rfl
      rw [hcq]
      exact ⟨g.cell_lt ds hg q hq2.1, hq3⟩
    refine ⟨⟨fun hv => ?_, fun ho => Nat.ne_of_lt (key ho).1⟩, key⟩
    intro ho
    exact hv ((hpart c hc).1 ho)

/-- a pixel at most one step outside the offset window of `dmm_nextidx` (doubled coordinates) -/
def NearWin (subncol : Nat) (c : Int × Int × Nat) (q : Nat) : Prop :=
  (2 * Int.ofNat (q / subncol) - c.1).natAbs ≤ c.2.2 + 2 ∧ (2 * Int.ofNat (q % subncol) - c.2.1).natAbs ≤ c.2.2 + 2

/-- **dmm: every coarse link joins 8-neighbours** — the trace ends at the first pixel outside the offset window
(a cell-sized window centred on a corner of the coarse cell; the cell itself for `cellsize == 1`), which is at most
one pixel beyond the window and therefore in a neighbouring coarse cell -/
theorem dmm_links_d8 (ds : Array Nat) (upa : Array Int) (g : Geo) (cds out : Array Nat)
    (hg : g.OK ds) (hwf : FineWF ds) (hd8 : FineD8 ds g.subncol)
    (h : dmmModel ds upa g = some (cds, out)) :
    ∀ c, c < g.ncell → cds[c]! ≠ g.ncell → inD8 c cds[c]! g.ncol = true := by
  unfold dmmModel at h
  simp only [Option.map_eq_some_iff, Prod.mk.injEq] at h
  obtain ⟨cds', hn, rfl, rfl⟩ := h
  have hrep := repCells_ok ds upa (fun p => cellEdge p g.subncol g.cs) g
  have hrs : (dmmExitcell ds upa g.subncol g.cs g.ncol g.ncell).size = g.ncell := hrep.1
  obtain ⟨_, hf⟩ := collect_some _ _ _ hn
  intro c hc hv
  have hfc := hf c (by rw [hrs]; exact hc)
  simp only at hfc
  by_cases hr : (dmmExitcell ds upa g.subncol g.cs g.ncol g.ncell)[c]! = ds.size
  · rw [if_pos hr, hrs] at hfc
    exact absurd (Option.some.inj hfc).symm hv
  · rw [if_neg hr] at hfc
    obtain ⟨p0, hp0⟩ : ∃ p0, p0 = (dmmExitcell ds upa g.subncol g.cs g.ncol g.ncell)[c]! := ⟨_, rfl⟩
    obtain ⟨hvp, hcell⟩ : ValidPx ds p0 ∧ g.cell p0 = c := by rw [hp0]; exact hrep.2 c hc hr
    rw [← hp0] at hfc
    obtain ⟨ctr, hctr⟩ : ∃ ctr, ctr = dmmCentre g.subncol g.cs g.ncol c p0 := ⟨_, rfl⟩
    rw [← hctr] at hfc
    have hN : ∀ p, ValidPx ds p → dmmOutside g.subncol ctr.2.2 ctr.1 ctr.2.1 p = false →
        NearWin g.subncol ctr ds[p]! := by
      intro p hp ho
      obtain ⟨s1, s2⟩ := (inD8_iff _ _ _).mp (hd8 p hp.1 hp.2)
      simp only [dmmOutside, Bool.or_eq_false_iff, decide_eq_false_iff_not, Int.ofNat_eq_natCast] at ho
      unfold NearWin StepAx at *
      simp only [Int.ofNat_eq_natCast]
      omega
    obtain ⟨q, hq, hqn, hrq⟩ := dmmTrace_near ds g.cell _ c hwf (NearWin g.subncol ctr) hN _ _ _ _ hfc hvp
      hcell.symm (Or.inl hcell)
    rw [hrq]
    rcases hqn with hqc | hqn
    · rw [hqc]; exact inD8_self c g.ncol
    · rw [inD8_iff, g.cell_row ds hg q hq.1, g.cell_col ds hg q hq.1]
      have hsc : 0 < g.subncol := g.subncol_pos ds hg q hq.1
      have e1 : ctr.1 = if g.cs = 1 then 2 * Int.ofNat (c / g.ncol)
          else 2 * Int.ofNat ((c / g.ncol + (2 * ((p0 / g.subncol) % g.cs)) / g.cs) * g.cs) - 1 := by
        rw [hctr]; unfold dmmCentre; split <;> rfl
      have e2 : ctr.2.1 = if g.cs = 1 then 2 * Int.ofNat (c % g.ncol)
          else 2 * Int.ofNat ((c % g.ncol + (2 * ((p0 % g.subncol) % g.cs)) / g.cs) * g.cs) - 1 := by
        rw [hctr]; unfold dmmCentre; split <;> rfl
      have e3 : ctr.2.2 = if g.cs = 1 then 0 else g.cs := by
        rw [hctr]; unfold dmmCentre; split <;> rfl
      obtain ⟨n1, n2⟩ := hqn
      rw [e1, e3] at n1
      rw [e2, e3] at n2
      have a := win_axis g.cs (c / g.ncol) ((p0 / g.subncol) % g.cs) (q / g.subncol) hg.cs (Nat.mod_lt _ hg.cs) n1
      have b := win_axis g.cs (c % g.ncol) ((p0 % g.subncol) % g.cs) (q % g.subncol) hg.cs (Nat.mod_lt _ hg.cs) n2
      unfold StepAx; omega

/-! ## loop-freeness by construction (dmm, eam)

Hypothesis `UpaMono`: the upstream area strictly increases along the fine network (true of the default upstream
area and of every accumulation of positive cell areas; re-checked by the driver on the array actually used).
With an arbitrary user array in place of an upstream area the coarse network of these methods can contain loops. -/

/-- **eam: the coarse network is loop-free** — a link that is not a self-link leads to a cell whose representative
pixel has strictly larger upstream area (the trace ends on a candidate pixel of that cell, downstream of the
representative pixel it started from) -/
theorem eam_loopfree (ds : Array Nat) (upa : Array Int) (ea : Array Bool) (g : Geo) (cds out : Array Nat)
    (hg : g.OK ds) (hwf : FineWF ds) (hm : UpaMono ds upa) (h : eamModel ds upa ea g = some (cds, out)) :
    ∀ c, c < g.ncell → cds[c]! ≠ g.ncell →
      ∃ k, iterA cds k c < g.ncell ∧ cds[iterA cds k c]! = iterA cds k c := by
  have hvi := eam_valid_iff_outlet ds upa ea g cds out hg hwf h
  have hown := eam_outlets ds upa ea g cds out h
  unfold eamModel at h
  simp only [Option.map_eq_some_iff, Prod.mk.injEq] at h
  obtain ⟨cds', hn, rfl, rfl⟩ := h
  obtain ⟨hrs, hspec⟩ := repCells_spec ds upa (fun p => ea[p]!) g.cell g.ncell
  obtain ⟨hcs, hf⟩ := collect_some _ _ _ hn
  have hsz : cds'.size = g.ncell := hown.size_cds
  obtain ⟨rep, hrepdef⟩ : ∃ rep, rep = eamRepcell ds upa ea g.subncol g.cs g.ncol g.ncell := ⟨_, rfl⟩
  rw [← hrepdef] at hvi hown hf hn hcs
  have hspec' : ∀ c, c < g.ncell →
      (rep[c]! = ds.size ∧ ∀ j, j < ds.size → IsCand ds (fun p => ea[p]!) j → g.cell j = c → upa[j]! ≤ 0) ∨
      (rep[c]! < ds.size ∧ IsCand ds (fun p => ea[p]!) rep[c]! ∧ g.cell rep[c]! = c ∧ 0 < upa[rep[c]!]! ∧
        (∀ j, j < ds.size → IsCand ds (fun p => ea[p]!) j → g.cell j = c → upa[j]! ≤ upa[rep[c]!]!) ∧
        (∀ j, j < rep[c]! → IsCand ds (fun p => ea[p]!) j → g.cell j = c → upa[j]! < upa[rep[c]!]!)) := by
    rw [hrepdef]; exact hspec
  -- what one link looks like
  have link : ∀ c, c < g.ncell → cds'[c]! ≠ g.ncell →
      cds'[c]! < g.ncell ∧ cds'[cds'[c]!]! ≠ g.ncell ∧ (cds'[c]! ≠ c → upa[rep[c]!]! < upa[rep[cds'[c]!]!]!) := by
    intro c hc hv
    have hr : rep[c]! ≠ ds.size := (hvi c hc).1.mp hv
    have hfc := hf c (by rw [hown.size_out]; exact hc)
    simp only at hfc
    rw [if_neg hr] at hfc
    obtain ⟨hvp, hcell⟩ := hown.own c hc hr
    have hpos : 0 < upa[rep[c]!]! := by
      rcases hspec' c hc with ⟨a, _⟩ | ⟨_, _, _, d, _⟩
      · exact absurd a hr
      · exact d
    obtain ⟨q, hq, hrq, hcand, hlq⟩ := eamTrace_meas ds ea g.cell c upa hwf hm rep[c]! _ _ _ hfc hvp (Or.inl rfl)
    have hc1 : cds'[c]! < g.ncell := hrq ▸ g.cell_lt ds hg q hq.1
    have hqc : IsCand ds (fun p => ea[p]!) q := ⟨hq.2, hcand⟩
    have hqpos : 0 < upa[q]! := by
      rcases hlq with e | e
      · rw [e]; exact hpos
      · omega
    rcases hspec' cds'[c]! hc1 with ⟨_, b⟩ | ⟨a, _, _, _, e, _⟩
    · have := b q hq.1 hqc hrq.symm; omega
    · refine ⟨hc1, (hvi _ hc1).1.mpr (Nat.ne_of_lt a), fun hne => ?_⟩
      have hle := e q hq.1 hqc hrq.symm
      rcases hlq with e' | e'
      · exact absurd (by rw [hrq, e', hcell]) hne
      · omega
  have := loopfree_of_measure cds' (fun c => upa[rep[c]!]!)
    (fun c hc hv => by
      rw [hsz] at hc hv ⊢
      exact ⟨(link c hc hv).1, (link c hc hv).2.1⟩)
    (fun c hc hv hp => by
      rw [hsz] at hc hv
      exact (link c hc hv).2.2 hp)
  intro c hc hv
  obtain ⟨k, hk1, hk2⟩ := this c (hsz ▸ hc) (hsz ▸ hv)
  exact ⟨k, hsz ▸ hk1, hk2⟩

/-- **dmm: the coarse network is loop-free** — the trace from an exit pixel ends in the start cell (self-link) or
in a cell that it entered through an edge pixel, downstream of the exit pixel; that cell's own exit pixel has at
least the upstream area of this edge pixel -/
theorem dmm_loopfree (ds : Array Nat) (upa : Array Int) (g : Geo) (cds out : Array Nat)
    (hg : g.OK ds) (hwf : FineWF ds) (hd8 : FineD8 ds g.subncol) (hm : UpaMono ds upa)
    (h : dmmModel ds upa g = some (cds, out)) :
    ∀ c, c < g.ncell → cds[c]! ≠ g.ncell →
      ∃ k, iterA cds k c < g.ncell ∧ cds[iterA cds k c]! = iterA cds k c := by
  have hvi := dmm_valid_iff_outlet ds upa g cds out hg hwf h
  have hown := dmm_outlets ds upa g cds out h
  unfold dmmModel at h
  simp only [Option.map_eq_some_iff, Prod.mk.injEq] at h
  obtain ⟨cds', hn, rfl, rfl⟩ := h
  obtain ⟨hrs, hspec⟩ := repCells_spec ds upa (fun p => cellEdge p g.subncol g.cs) g.cell g.ncell
  obtain ⟨hcs, hf⟩ := collect_some _ _ _ hn
  have hsz : cds'.size = g.ncell := hown.size_cds
  obtain ⟨rep, hrepdef⟩ : ∃ rep, rep = dmmExitcell ds upa g.subncol g.cs g.ncol g.ncell := ⟨_, rfl⟩
  rw [← hrepdef] at hvi hown hf hn hcs
  have hspec' : ∀ c, c < g.ncell →
      (rep[c]! = ds.size ∧ ∀ j, j < ds.size → IsCand ds (fun p => cellEdge p g.subncol g.cs) j → g.cell j = c →
        upa[j]! ≤ 0) ∨
      (rep[c]! < ds.size ∧ IsCand ds (fun p => cellEdge p g.subncol g.cs) rep[c]! ∧ g.cell rep[c]! = c ∧
        0 < upa[rep[c]!]! ∧
        (∀ j, j < ds.size → IsCand ds (fun p => cellEdge p g.subncol g.cs) j → g.cell j = c →
          upa[j]! ≤ upa[rep[c]!]!) ∧
        (∀ j, j < rep[c]! → IsCand ds (fun p => cellEdge p g.subncol g.cs) j → g.cell j = c →
          upa[j]! < upa[rep[c]!]!)) := by
    rw [hrepdef]; exact hspec
  have link : ∀ c, c < g.ncell → cds'[c]! ≠ g.ncell →
      cds'[c]! < g.ncell ∧ cds'[cds'[c]!]! ≠ g.ncell ∧ (cds'[c]! ≠ c → upa[rep[c]!]! < upa[rep[cds'[c]!]!]!) := by
    intro c hc hv
    have hr : rep[c]! ≠ ds.size := (hvi c hc).1.mp hv
    have hfc := hf c (by rw [hown.size_out]; exact hc)
    simp only at hfc
    rw [if_neg hr] at hfc
    obtain ⟨hvp, hcell⟩ := hown.own c hc hr
    have hpos : 0 < upa[rep[c]!]! := by
      rcases hspec' c hc with ⟨a, _⟩ | ⟨_, _, _, d, _⟩
      · exact absurd a hr
      · exact d
    have hres := dmmTrace_meas ds g _ c upa hg hwf hd8 hm rep[c]! _ _ _ _ hfc hvp hcell.symm (Or.inl rfl)
      (Or.inl hcell)
    rcases hres with hself | ⟨e, he1, he2, he3, he4⟩
    · rw [hself]
      exact ⟨hc, hv, fun hne => absurd rfl hne⟩
    · have hc1 : cds'[c]! < g.ncell := he2 ▸ g.cell_lt ds hg e he1.1
      have hec : IsCand ds (fun p => cellEdge p g.subncol g.cs) e := ⟨he1.2, Or.inr he3⟩
      rcases hspec' cds'[c]! hc1 with ⟨_, b⟩ | ⟨a, _, _, _, e', _⟩
      · have := b e he1.1 hec he2; omega
      · refine ⟨hc1, (hvi _ hc1).1.mpr (Nat.ne_of_lt a), fun _ => ?_⟩
        have hle := e' e he1.1 hec he2
        omega
  have := loopfree_of_measure cds' (fun c => upa[rep[c]!]!)
    (fun c hc hv => by
      rw [hsz] at hc hv ⊢
      exact ⟨(link c hc hv).1, (link c hc hv).2.1⟩)
    (fun c hc hv hp => by
      rw [hsz] at hc hv
      exact (link c hc hv).2.2 hp)
  intro c hc hv
  obtain ⟨k, hk1, hk2⟩ := this c (hsz ▸ hc) (hsz ▸ hv)
  exact ⟨k, hsz ▸ hk1, hk2⟩

/-- **eam_plus (first pass of ihu): the coarse network is loop-free** — a link that is not a self-link leads to
a cell whose outlet pixel has strictly larger upstream area: the link is derived from the next outlet pixel
downstream, or from a pit / effective-area pixel downstream, which is a candidate of its cell's representative
pixel, and the outlet pixel of a cell lies downstream of its representative pixel -/
theorem eam_plus_loopfree (ds : Array Nat) (upa : Array Int) (ea : Array Bool) (g : Geo)
    (cds out : Array Nat) (fix : List Nat) (hg : g.OK ds) (hwf : FineWF ds) (hd8 : FineD8 ds g.subncol)
    (hea : EaCross g ea ds.size) (hm : UpaMono ds upa) (h : eamPlusModel ds upa ea g = some (cds, out, fix)) :
    ∀ c, c < g.ncell → cds[c]! ≠ g.ncell →
      ∃ k, iterA cds k c < g.ncell ∧ cds[iterA cds k c]! = iterA cds k c := by
  have hown := eam_plus_outlets ds upa ea g cds out fix hwf h
  have hvi := eam_plus_valid_iff_outlet ds upa ea g cds out fix hg hwf hd8 hea h
  unfold eamPlusModel at h
  simp only at h
  split at h
  · cases h
  · rename_i out' hout
    simp only [Option.map_eq_some_iff, Prod.mk.injEq] at h
    obtain ⟨r, hn, rfl, rfl, rfl⟩ := h
    obtain ⟨rep, hrepdef⟩ : ∃ rep, rep = eamRepcell ds upa ea g.subncol g.cs g.ncol g.ncell := ⟨_, rfl⟩
    rw [← hrepdef] at hout
    have hrep : RepOK ds g rep := by rw [hrepdef]; exact repCells_ok ds upa (fun p => ea[p]!) g
    have hspec : ∀ c, c < g.ncell →
        (rep[c]! = ds.size ∧ ∀ j, j < ds.size → IsCand ds (fun p => ea[p]!) j → g.cell j = c → upa[j]! ≤ 0) ∨
        (rep[c]! < ds.size ∧ IsCand ds (fun p => ea[p]!) rep[c]! ∧ g.cell rep[c]! = c ∧ 0 < upa[rep[c]!]! ∧
          (∀ j, j < ds.size → IsCand ds (fun p => ea[p]!) j → g.cell j = c → upa[j]! ≤ upa[rep[c]!]!) ∧
          (∀ j, j < rep[c]! → IsCand ds (fun p => ea[p]!) j → g.cell j = c → upa[j]! < upa[rep[c]!]!)) := by
      rw [hrepdef]; exact (repCells_spec ds upa (fun p => ea[p]!) g.cell g.ncell).2
    obtain ⟨hso, ho⟩ := outlet_in_cell ds rep out' g hwf hrep hout
    unfold ihuNextidx at hn
    simp only [Option.map_eq_some_iff] at hn
    obtain ⟨a, ha, rfl⟩ := hn
    obtain ⟨hsa, hf⟩ := collect_some _ _ _ ha
    have hsz : (a.map (·.1)).size = g.ncell := hown.size_cds
    -- the outlet pixel of a cell with a representative pixel has at least its (positive) upstream area
    have hout_upa : ∀ c, c < g.ncell → rep[c]! ≠ ds.size →
        out'[c]! ≠ ds.size ∧ upa[rep[c]!]! ≤ upa[out'[c]!]! ∧ 0 < upa[out'[c]!]! := by
      intro c hc hr
      obtain ⟨hv, _, _, k, hk⟩ := (ho c hc).2 hr
      have hle := (upa_iter_le ds upa hwf hm k rep[c]! (hrep.2 c hc hr).1).2
      rw [← hk] at hle
      have hpos : 0 < upa[rep[c]!]! := by
        rcases hspec c hc with ⟨x, _⟩ | ⟨_, _, _, d, _⟩
        · exact absurd x hr
        · exact d
      exact ⟨Nat.ne_of_lt hv.1, hle, by omega⟩
    have link : ∀ c, c < g.ncell → (a.map (·.1))[c]! ≠ g.ncell →
        (a.map (·.1))[c]! < g.ncell ∧ (a.map (·.1))[(a.map (·.1))[c]!]! ≠ g.ncell ∧
        ((a.map (·.1))[c]! ≠ c → upa[out'[c]!]! < upa[out'[(a.map (·.1))[c]!]!]!) := by
      intro c hc hv
      have ho' : out'[c]! ≠ ds.size := (hvi c hc).1.mp hv
      have hlt := ((hvi c hc).2 ho').1
      have hca : c < a.size := by rw [hsa, hso]; exact hc
      have hfc := hf c (hso ▸ hc)
      rw [if_neg ho'] at hfc
      simp only [Option.map_eq_some_iff] at hfc
      obtain ⟨r, hr, hra⟩ := hfc
      obtain ⟨hvo, hcell⟩ := hown.own c hc ho'
      have hrc : rep[c]! ≠ ds.size := fun e => ho' ((ho c hc).1 e)
      have hp0pos := (hout_upa c hc hrc).2.2
      rw [get!_map_fst' a c hca] at hlt ⊢
      cases hr1 : r.1 with
      | none =>
        have : a[c]!.1 = out'.size := by rw [← hra, hr1]
        rw [this, hso] at hlt; omega
      | some q =>
        have hcq : a[c]!.1 = g.cell q := by rw [← hra, hr1]; rfl
        obtain ⟨hq, hkind, hl⟩ := ihuNextTrace_meas ds out' ea g.cell g.ncol c upa hwf hm out'[c]! _ _ _ _ hr hvo
          (Or.inl rfl) (fun q hq => by cases hq) q hr1
        rw [hcq] at hlt ⊢
        have hne_of : g.cell q ≠ c → upa[out'[c]!]! < upa[q]! := by
          intro hne
          rcases hl with ⟨e, _⟩ | e
          · exact absurd (by rw [e, hcell]) hne
          · exact e
        have hqpos : 0 < upa[q]! := by
          rcases hl with ⟨e, _⟩ | e
          · rw [e]; exact hp0pos
          · omega
        -- the outlet pixel of the target cell has at least the upstream area of q
        have htarget : out'[g.cell q]! ≠ ds.size ∧ upa[q]! ≤ upa[out'[g.cell q]!]! := by
          by_cases hoq : out'[g.cell q]! = q
          · rw [hoq]; exact ⟨Nat.ne_of_lt hq.1, Int.le_refl _⟩
          · have hcand : IsCand ds (fun p => ea[p]!) q := by
              refine ⟨hq.2, ?_⟩
              rcases hkind with e | e | e
              · exact absurd e hoq
              · exact Or.inl e
              · exact Or.inr e
            rcases hspec (g.cell q) hlt with ⟨_, b⟩ | ⟨x, _, _, _, e, _⟩
            · have := b q hq.1 hcand rfl; omega
            · have h1 := e q hq.1 hcand rfl
              have h2 := hout_upa (g.cell q) hlt (Nat.ne_of_lt x)
              exact ⟨h2.1, by omega⟩
        refine ⟨hlt, (hvi _ hlt).1.mpr htarget.1, fun hne => ?_⟩
        have := hne_of hne
        omega
    have := loopfree_of_measure (a.map (·.1)) (fun c => upa[out'[c]!]!)
      (fun c hc hv => by
        rw [hsz] at hc hv ⊢
        exact ⟨(link c hc hv).1, (link c hc hv).2.1⟩)
      (fun c hc hv hp => by
        rw [hsz] at hc hv
        exact (link c hc hv).2.2 hp)
    intro c hc hv
    obtain ⟨k, hk1, hk2⟩ := this c (hsz ▸ hc) (hsz ▸ hv)
    exact ⟨k, hsz ▸ hk1, hk2⟩

/-! ## the certificate checker evaluated on the implementation's output (all four methods) -/

/-- the part of the property that concerns the returned coarse network and its outlet pixels -/
structure UpscaleValid (ds : Array Nat) (g : Geo) (cds out : Array Nat) : Prop where
  size_cds : cds.size = g.ncell
  size_out : out.size = g.ncell
  /-- every coarse link stays inside the raster and inside the 3×3 neighbourhood (exportable as D8/LDD) -/
  d8 : ∀ c, c < g.ncell → cds[c]! ≠ g.ncell →
    cds[c]! < g.ncell ∧ absDiff (cds[c]! % g.ncol) (c % g.ncol) ≤ 1 ∧ absDiff (cds[c]! / g.ncol) (c / g.ncol) ≤ 1
  /-- loop-free: following the coarse links from any valid coarse cell ends in a coarse pit -/
  loopfree : ∀ c, c < g.ncell → cds[c]! ≠ g.ncell →
    ∃ k, iterA cds k c < g.ncell ∧ cds[iterA cds k c]! = iterA cds k c
  /-- a coarse cell is valid exactly where an outlet pixel is reported -/
  valid_iff : ∀ c, c < g.ncell → (cds[c]! ≠ g.ncell ↔ out[c]! ≠ ds.size)
  /-- every outlet pixel is a valid fine cell -/
  outlet_valid : ∀ c, c < g.ncell → out[c]! ≠ ds.size → ValidPx ds out[c]!
  /-- outlet pixels are pairwise distinct -/
  distinct : ∀ c c', c < g.ncell → c' < g.ncell → out[c]! ≠ ds.size → out[c]! = out[c']! → c = c'
  /-- a coarse cell with an outlet pixel contains a valid fine cell -/
  cell_valid : ∀ c, c < g.ncell → out[c]! ≠ ds.size → ∃ p, ValidPx ds p ∧ g.cell p = c

/-- **upscaleOK_sound** (certificate theorem): whatever witnesses `w` (ranks, inverse map, one pixel per cell) are
supplied, if the decidable local check accepts a coarse network and outlet array then the global property holds:
8-neighbour links, loop-free, valid ⇔ outlet, outlets distinct valid fine cells, in coarse cells with valid pixels. -/
theorem upscaleOK_sound (ds : Array Nat) (g : Geo) (cds out : Array Nat) (w : UpCert)
    (h : upscaleOK ds g cds out w = true) : UpscaleValid ds g cds out := by
  simp only [upscaleOK, Bool.and_eq_true, beq_iff_eq] at h
  obtain ⟨⟨⟨⟨⟨hsz, hd8⟩, hrk⟩, hvi⟩, hout⟩, hcv⟩ := h
  obtain ⟨hso, hvi'⟩ := okValidIff_sound _ _ _ hvi
  have hso' : out.size = g.ncell := hso.trans hsz
  obtain ⟨ho1, ho2⟩ := okOutlets_sound _ _ _ hout
  refine ⟨hsz, hso', ?_, ?_, ?_, ?_, ?_, ?_⟩
  · intro c hc hv
    exact hsz ▸ okD8_sound cds g.ncol hd8 c (hsz ▸ hc) (hsz ▸ hv)
  · intro c hc hv
    have hc' : c < cds.size := hsz ▸ hc
    have hv' : cds[c]! ≠ cds.size := hsz ▸ hv
    have hnn := okRank_nonneg cds w.rk hrk c hc' hv'
    obtain ⟨m, hm⟩ := Int.eq_ofNat_of_zero_le hnn
    exact ⟨m, hsz ▸ okRank_reaches cds w.rk hrk m c hc' hv' hm⟩
  · intro c hc
    exact hsz ▸ hvi' c (hsz ▸ hc)
  · intro c hc hv
    exact ho1 c (hso' ▸ hc) hv
  · intro c c' hc hc' hv he
    exact ho2 c c' (hso' ▸ hc) (hso' ▸ hc') hv he
  · intro c hc hv
    obtain ⟨p, h1, h2, h3⟩ := okCellValid_sound _ _ _ _ hcv c (hso' ▸ hc) hv
    exact ⟨p, ⟨h1, h2⟩, h3⟩

/-- assembling `UpscaleValid` from the by-construction facts of a non-iterative method -/
theorem UpscaleValid.of_parts {ds : Array Nat} {g : Geo} {cds out : Array Nat} (hown : OutletsOwnCell ds g cds out)
    (hvi : ∀ c, c < g.ncell → (cds[c]! ≠ g.ncell ↔ out[c]! ≠ ds.size) ∧ cds[c]! ≤ g.ncell)
    (hd8 : ∀ c, c < g.ncell → cds[c]! ≠ g.ncell → inD8 c cds[c]! g.ncol = true)
    (hlf : ∀ c, c < g.ncell → cds[c]! ≠ g.ncell →
      ∃ k, iterA cds k c < g.ncell ∧ cds[iterA cds k c]! = iterA cds k c) : UpscaleValid ds g cds out where
  size_cds := hown.size_cds
  size_out := hown.size_out
  d8 := fun c hc hv => by
    have h := hd8 c hc hv
    simp only [inD8, Bool.and_eq_true, decide_eq_true_eq] at h
    have := (hvi c hc).2
    exact ⟨by omega, h.1, h.2⟩
  loopfree := hlf
  valid_iff := fun c hc => (hvi c hc).1
  outlet_valid := fun c hc hv => (hown.own c hc hv).1
  distinct := hown.distinct
  cell_valid := fun c hc hv => ⟨out[c]!, (hown.own c hc hv).1, (hown.own c hc hv).2⟩

/-- **eam satisfies the property by construction** (no per-run certificate needed): on a well-formed 8-neighbour
fine network with a strictly increasing upstream area, whenever the model of `eam` returns, the coarse network has
the right size, 8-neighbour links, no loops, a valid cell exactly where an outlet is reported, and distinct valid
outlet pixels each inside its own coarse cell -/
theorem eam_valid (ds : Array Nat) (upa : Array Int) (ea : Array Bool) (g : Geo) (cds out : Array Nat)
    (hg : g.OK ds) (hwf : FineWF ds) (hd8 : FineD8 ds g.subncol) (hea : EaCross g ea ds.size)
    (hm : UpaMono ds upa) (h : eamModel ds upa ea g = some (cds, out)) :
    UpscaleValid ds g cds out ∧ OutletsOwnCell ds g cds out :=
  ⟨UpscaleValid.of_parts (eam_outlets ds upa ea g cds out h) (eam_valid_iff_outlet ds upa ea g cds out hg hwf h)
    (eam_links_d8 ds upa ea g cds out hg hwf hd8 hea h) (eam_loopfree ds upa ea g cds out hg hwf hm h),
   eam_outlets ds upa ea g cds out h⟩

/-- **dmm satisfies the property by construction** -/
theorem dmm_valid (ds : Array Nat) (upa : Array Int) (g : Geo) (cds out : Array Nat)
    (hg : g.OK ds) (hwf : FineWF ds) (hd8 : FineD8 ds g.subncol) (hm : UpaMono ds upa)
    (h : dmmModel ds upa g = some (cds, out)) :
    UpscaleValid ds g cds out ∧ OutletsOwnCell ds g cds out :=
  ⟨UpscaleValid.of_parts (dmm_outlets ds upa g cds out h) (dmm_valid_iff_outlet ds upa g cds out hg hwf h)
    (dmm_links_d8 ds upa g cds out hg hwf hd8 h) (dmm_loopfree ds upa g cds out hg hwf hd8 hm h),
   dmm_outlets ds upa g cds out h⟩

/-- **eam_plus (= the first pass of ihu) satisfies the property by construction** -/
theorem eam_plus_valid (ds : Array Nat) (upa : Array Int) (ea : Array Bool) (g : Geo) (cds out : Array Nat)
    (fix : List Nat) (hg : g.OK ds) (hwf : FineWF ds) (hd8 : FineD8 ds g.subncol) (hea : EaCross g ea ds.size)
    (hm : UpaMono ds upa) (h : eamPlusModel ds upa ea g = some (cds, out, fix)) :
    UpscaleValid ds g cds out ∧ OutletsOwnCell ds g cds out := by
  have hvi := eam_plus_valid_iff_outlet ds upa ea g cds out fix hg hwf hd8 hea h
  have hun := eam_plus_unflagged ds upa ea g cds out fix hg hwf h
  have hown := eam_plus_outlets ds upa ea g cds out fix hwf h
  exact ⟨UpscaleValid.of_parts hown (fun c hc => ⟨(hvi c hc).1, (hun c hc).2.1⟩)
    (fun c hc hv => ((hvi c hc).2 ((hvi c hc).1.mp hv)).2)
    (eam_plus_loopfree ds upa ea g cds out fix hg hwf hd8 hea hm h), hown⟩

/-- **the hypotheses of the by-construction theorems are decidable** and are evaluated by the driver on the inputs
of every case (`hyp.*` outputs of the `upscale` op): accepted ⇒ the hypothesis holds -/
theorem hyp_checks_sound (ds : Array Nat) (upa : Array Int) (ea : Array Bool) (g : Geo) :
    (chkFineWF ds = true → FineWF ds) ∧ (chkFineD8 ds g.subncol = true → FineD8 ds g.subncol) ∧
    (chkEaCross g ea ds.size = true → EaCross g ea ds.size) ∧ (chkUpaMono ds upa = true → UpaMono ds upa) := by
  refine ⟨fun h p hp hv => ?_, fun h p hp hv => ?_, fun h p hp hc => ?_, fun h p hp hnp => ?_⟩
  · have := (allCells_iff _ _).mp h p hp
    simp only [Bool.or_eq_true, beq_iff_eq, Bool.and_eq_true, decide_eq_true_eq, bne_iff_ne, ne_eq] at this
    rcases this with h0 | h1
    · exact absurd h0 hv
    · exact h1
  · have := (allCells_iff _ _).mp h p hp
    simp only [Bool.or_eq_true, beq_iff_eq] at this
    rcases this with h0 | h1
    · exact absurd h0 hv
    · exact h1
  · have := (allCells_iff _ _).mp h p hp
    simp only [centreAxB, Bool.or_eq_true, Bool.not_eq_true', Bool.or_eq_false_iff, Bool.and_eq_false_iff,
      decide_eq_false_iff_not, Bool.and_eq_true, decide_eq_true_eq] at this
    rcases this with h0 | h1
    · unfold CentreAx at hc
      rcases hc with hc | hc
      · rcases h0.1 with a | a <;> omega
      · rcases h0.2 with a | a <;> omega
    · exact h1
  · have := (allCells_iff _ _).mp h p hp.1
    simp only [Bool.or_eq_true, beq_iff_eq, decide_eq_true_eq] at this
    rcases this with (h0 | h0) | h1
    · exact absurd h0 hp.2
    · exact absurd h0 hnp
    · exact h1

/-- **own-cell check** (required of dmm, eam, eam_plus outputs): accepted ⇒ every outlet pixel lies in its own cell -/
theorem ownCell_sound (ds : Array Nat) (g : Geo) (out : Array Nat) (h : okOwnCell ds out g.cell = true) :
    ∀ c, c < out.size → out[c]! ≠ ds.size → g.cell out[c]! = c :=
  okOwnCell_sound ds out g.cell h

/-! ## the connection check `upscale_error` -/

/-- `q` is one of the reported outlet pixels -/
def IsOutlet (ds out : Array Nat) (q : Nat) : Prop := q < ds.size ∧ q ∈ out.toList

/-- **upscale_error_spec** (trace theorem): the connection check marks a coarse cell
* `1` exactly when the first outlet pixel (or terminal pit) met strictly downstream of the cell's own outlet pixel
  is the outlet pixel of the coarse cell it points to,
* `0` exactly when that first pixel is a different one,
* `255` exactly when the cell has no downstream cell or no outlet pixel. -/
theorem upscale_error_spec (ds out cds flags : Array Nat) (h : upscaleError ds out cds = some flags) :
    flags.size = cds.size ∧ ∀ c, c < cds.size →
      (flags[c]! = 255 ↔ (cds[c]! = cds.size ∨ out[c]! = ds.size)) ∧
      (flags[c]! = 1 ↔ (cds[c]! ≠ cds.size ∧ out[c]! ≠ ds.size ∧
        NextStop ds (IsOutlet ds out) out[c]! out[cds[c]!]!)) ∧
      (flags[c]! = 0 ↔ (cds[c]! ≠ cds.size ∧ out[c]! ≠ ds.size ∧
        ∃ q, NextStop ds (IsOutlet ds out) out[c]! q ∧ q ≠ out[cds[c]!]!)) := by
  obtain ⟨hs, hf⟩ := collect_some _ _ _ h
  refine ⟨hs, fun c hc => ?_⟩
  have hfc := hf c hc
  have hcongr : ∀ x, (outletMask ds.size out)[x]! = true ↔ IsOutlet ds out x := fun x => outletMask_spec _ _ x
  split at hfc
  · rename_i hv
    simp only [Option.map_eq_some_iff] at hfc
    obtain ⟨q, hq, hfl⟩ := hfc
    obtain ⟨w1, w2⟩ := walk_flag ds _ _ _ q out[cds[c]!]! hq
    by_cases hqt : q = out[cds[c]!]!
    · have hfl' : flags[c]! = 1 := by rw [← hfl]; simp [hqt]
      refine ⟨by simp [hfl', hv.1, hv.2], ⟨fun _ => ⟨hv.1, hv.2, (w1.mp hqt).congr hcongr⟩, fun _ => hfl'⟩, ?_⟩
      constructor
      · intro e; omega
      · rintro ⟨_, _, q', h1, h2⟩
        exact absurd hqt (w2.mpr ⟨q', h1.congr (fun x => (hcongr x).symm), h2⟩)
    · have hfl' : flags[c]! = 0 := by rw [← hfl]; simp [hqt]
      refine ⟨by simp [hfl', hv.1, hv.2], ⟨fun e => by omega, ?_⟩, ?_⟩
      · rintro ⟨_, _, h1⟩
        exact absurd (w1.mpr (h1.congr (fun x => (hcongr x).symm))) hqt
      · constructor
        · intro _
          obtain ⟨q', h1, h2⟩ := w2.mp hqt
          exact ⟨hv.1, hv.2, q', h1.congr hcongr, h2⟩
        · intro _; exact hfl'
  · rename_i hv
    have hfl : flags[c]! = 255 := (Option.some.inj hfc).symm
    have hv' : cds[c]! = cds.size ∨ out[c]! = ds.size := by
      by_cases h1 : cds[c]! = cds.size
      · exact Or.inl h1
      · by_cases h2 : out[c]! = ds.size
        · exact Or.inr h2
        · exact absurd ⟨h1, h2⟩ hv
    refine ⟨⟨fun _ => hv', fun _ => hfl⟩, ⟨fun e => by omega, ?_⟩, ⟨fun e => by omega, ?_⟩⟩
    · rintro ⟨h1, h2, _⟩; rcases hv' with h | h <;> contradiction
    · rintro ⟨h1, h2, _⟩; rcases hv' with h | h <;> contradiction

/-- the list of erroneous cells returned next to the map is exactly the cells flagged `0`, in increasing order -/
theorem upscale_error_fix (flags : Array Nat) (c : Nat) :
    c ∈ upscaleErrorFix flags ↔ c < flags.size ∧ flags[c]! = 0 := by
  simp [upscaleErrorFix, List.mem_filter, List.mem_range]

/-- the declarative oracle applied by the harness to the implementation's flags has the same characterisation
(with membership in the outlet list decided directly) -/
theorem errSpec_spec (ds out cds : Array Nat) (c : Nat) (hfuel : errSpec ds out cds c ≠ 2) :
    (errSpec ds out cds c = 255 ↔ (cds[c]! = cds.size ∨ out[c]! = ds.size)) ∧
    (errSpec ds out cds c = 1 ↔ (cds[c]! ≠ cds.size ∧ out[c]! ≠ ds.size ∧
      NextStop ds (fun q => q ∈ out.toList) out[c]! out[cds[c]!]!)) := by
  unfold errSpec at hfuel ⊢
  have hcongr : ∀ x, (out.toList.contains x) = true ↔ x ∈ out.toList := fun x => by simp
  split
  · rename_i hv
    refine ⟨⟨fun _ => hv, fun _ => rfl⟩, ⟨fun e => by omega, ?_⟩⟩
    rintro ⟨h1, h2, _⟩; rcases hv with h | h <;> contradiction
  · rename_i hv
    have hv1 : cds[c]! ≠ cds.size := fun e => hv (Or.inl e)
    have hv2 : out[c]! ≠ ds.size := fun e => hv (Or.inr e)
    rw [if_neg hv] at hfuel
    split
    · rename_i q hq
      obtain ⟨w1, _⟩ := walk_flag ds _ _ _ q out[cds[c]!]! hq
      by_cases hqt : q = out[cds[c]!]!
      · rw [if_pos hqt]
        exact ⟨by simp [hv1, hv2], ⟨fun _ => ⟨hv1, hv2, (w1.mp hqt).congr hcongr⟩, fun _ => rfl⟩⟩
      · rw [if_neg hqt]
        refine ⟨by simp [hv1, hv2], ⟨fun e => by omega, ?_⟩⟩
        rintro ⟨_, _, h1⟩
        exact absurd (w1.mpr (h1.congr (fun x => (hcongr x).symm))) hqt
    · rename_i hq
      rw [hq] at hfuel; exact absurd rfl hfuel

/-! ## scale factor 1 reproduces the input network -/

/-- **scale_one, eam**: with scale factor 1 (where every pixel is in the effective area) and positive upstream
area, `eam` terminates and returns the input network with every valid pixel as its own outlet
(`identOut ds c = c` on valid pixels, missing elsewhere) -/
theorem scale_one_eam (ds : Array Nat) (upa : Array Int) (ea : Array Bool) (g : Geo) (hg : g.OK ds)
    (h1 : g.cs = 1) (hwf : FineWF ds)
    (hupa : ∀ p, p < ds.size → ds[p]! ≠ ds.size → 0 < upa[p]!)
    (hea : ∀ p, p < ds.size → ds[p]! ≠ ds.size → ea[p]! = true) :
    ∃ cds out, eamModel ds upa ea g = some (cds, out) ∧ cds.size = ds.size ∧ out.size = ds.size ∧
      ∀ c, c < ds.size → cds[c]! = ds[c]! ∧ out[c]! = identOut ds c := by
  have hrep := repCells_one ds upa (fun p => ea[p]!) g hg h1 hupa (fun p hp hv => Or.inr (hea p hp hv))
  have hrs : (eamRepcell ds upa ea g.subncol g.cs g.ncol g.ncell).size = ds.size :=
    (repCells_spec ds upa _ _ g.ncell).1.trans (g.ncell_one ds hg h1)
  obtain ⟨cds, h2, h3, h4⟩ := eamNextidx_one ds _ ea g h1 hwf hrs hrep hea
  exact ⟨cds, _, by unfold eamModel; simp only [h2, Option.map_some], h3, hrs, fun c hc => ⟨h4 c hc, hrep c hc⟩⟩

/-- **scale_one, dmm** (after fix 5cca295: for `cellsize == 1` the window of `dmm_nextidx` is the cell itself):
`dmm` returns the input network. `hno2` (no two-cycles) holds for every loop-free network. -/
theorem scale_one_dmm (ds : Array Nat) (upa : Array Int) (g : Geo) (hg : g.OK ds) (h1 : g.cs = 1)
    (hwf : FineWF ds) (hupa : ∀ p, p < ds.size → ds[p]! ≠ ds.size → 0 < upa[p]!)
    (hno2 : ∀ p, p < ds.size → ds[p]! ≠ ds.size → ds[p]! ≠ p → ds[ds[p]!]! ≠ p) :
    ∃ cds out, dmmModel ds upa g = some (cds, out) ∧ cds.size = ds.size ∧ out.size = ds.size ∧
      ∀ c, c < ds.size → cds[c]! = ds[c]! ∧ out[c]! = identOut ds c := by
  have hedge : ∀ p, cellEdge p g.subncol g.cs = true := fun p => by simp [cellEdge, h1, Nat.mod_one]
  have hrep := repCells_one ds upa (fun p => cellEdge p g.subncol g.cs) g hg h1 hupa
    (fun p _ _ => Or.inr (hedge p))
  have hrs : (dmmExitcell ds upa g.subncol g.cs g.ncol g.ncell).size = ds.size :=
    (repCells_spec ds upa _ _ g.ncell).1.trans (g.ncell_one ds hg h1)
  by_cases hne : ds.size = 0
  · obtain ⟨cds, h2, h3, _⟩ : ∃ cds, dmmNextidx ds (dmmExitcell ds upa g.subncol g.cs g.ncol g.ncell)
        g.subncol g.cs g.ncol = some cds ∧ cds.size = ds.size ∧ True := by
      unfold dmmNextidx
      rw [hrs, hne]
      exact ⟨#[], by simp [collect], by simp, trivial⟩
    exact ⟨cds, _, by unfold dmmModel; simp only [h2, Option.map_some], h3, hrs, fun c hc => by omega⟩
  · have hn : 0 < g.subncol := g.subncol_pos ds hg 0 (by omega)
    obtain ⟨cds, h2, h3, h4⟩ := dmmNextidx_one ds _ g hn h1 hwf hrs hrep hno2
    exact ⟨cds, _, by unfold dmmModel; simp only [h2, Option.map_some], h3, hrs, fun c hc => ⟨h4 c hc, hrep c hc⟩⟩

/-- **scale_one, eam_plus** (`ihu` first pass): on a fine network whose links stay in the 8-neighbourhood
(`in_d8` on pixel indices) `eam_plus` returns the input network and flags no cell -/
theorem scale_one_eam_plus (ds : Array Nat) (upa : Array Int) (ea : Array Bool) (g : Geo) (hg : g.OK ds)
    (h1 : g.cs = 1) (hwf : FineWF ds)
    (hupa : ∀ p, p < ds.size → ds[p]! ≠ ds.size → 0 < upa[p]!)
    (hea : ∀ p, p < ds.size → ds[p]! ≠ ds.size → ea[p]! = true)
    (hd8 : ∀ p, p < ds.size → ds[p]! ≠ ds.size → inD8 p ds[p]! g.subncol = true) :
    ∃ cds out, eamPlusModel ds upa ea g = some (cds, out, []) ∧ cds.size = ds.size ∧ out.size = ds.size ∧
      ∀ c, c < ds.size → cds[c]! = ds[c]! ∧ out[c]! = identOut ds c := by
  have hrep := repCells_one ds upa (fun p => ea[p]!) g hg h1 hupa (fun p hp hv => Or.inr (hea p hp hv))
  have hrs : (eamRepcell ds upa ea g.subncol g.cs g.ncol g.ncell).size = ds.size :=
    (repCells_spec ds upa _ _ g.ncell).1.trans (g.ncell_one ds hg h1)
  obtain ⟨out, ho1, ho2, ho3⟩ := ihuOutlets_one ds _ g h1 hrs hrep
  obtain ⟨cds, h2, h3, h4⟩ := ihuNextidx_one ds out ea g h1 hwf ho2 ho3 hd8
  exact ⟨cds, out, by unfold eamPlusModel; simp only [ho1, h2, Option.map_some], h3, ho2,
    fun c hc => ⟨h4 c hc, ho3 c hc⟩⟩

/-! ## termination (fuel): `nextidx_total` -/

/-- every valid fine cell reaches a pit within `ds.size` steps (true of every loop-free network; the rank of a
cell is such a `k`) -/
def ReachesPit (ds : Array Nat) : Prop := ∀ p, ValidPx ds p → ∃ k, k ≤ ds.size ∧ PitAt ds k p

/-- **ReachesPit from a downstream-first order**: if the valid cells of the fine network are exactly covered by a
downstream-first order `seq` (`Topo`, what C03 establishes for the library's cell order), every valid cell reaches a
pit within `ds.size` steps — so the totality theorems below hold for every loop-free network -/
theorem reachesPit_of_topo (ds : Array Nat) (seq : List Nat) (htopo : Topo ds seq) (hb : ∀ i ∈ seq, i < ds.size)
    (hcover : ∀ p, ValidPx ds p → p ∈ seq) : ReachesPit ds :=
  fun p hp => htopo.pitAt_le_size hb p (hcover p hp)

/-- executable form: the cell order the implementation used, accepted by `isTopo` (C03) and covering all valid
cells, yields `ReachesPit` -/
theorem reachesPit_of_isTopo (ds : Array Nat) (seq : List Nat) (h : isTopo ds seq = true)
    (hcover : ∀ p, ValidPx ds p → p ∈ seq) : ReachesPit ds :=
  reachesPit_of_topo ds seq (isTopo_sound' ds seq h).1 (isTopo_sound' ds seq h).2 hcover

/-- **nextidx_total, dmm**: on a loop-free fine network no trace of `dmm` runs out of fuel -/
theorem dmm_total (ds : Array Nat) (upa : Array Int) (g : Geo) (hr : ReachesPit ds) :
    (dmmModel ds upa g).isSome = true := by
  unfold dmmModel
  simp only [Option.isSome_map]
  have hrep := repCells_ok ds upa (fun p => cellEdge p g.subncol g.cs) g
  unfold dmmNextidx
  apply collect_isSome
  intro c hc
  simp only
  split
  · rfl
  · rename_i hv
    obtain ⟨k, hk, hp⟩ := hr _ (hrep.2 c (hrep.1 ▸ hc) hv).1
    exact dmmTrace_total ds _ _ c k _ _ hp _ (by omega)

/-- **nextidx_total, eam** -/
theorem eam_total (ds : Array Nat) (upa : Array Int) (ea : Array Bool) (g : Geo) (hr : ReachesPit ds) :
    (eamModel ds upa ea g).isSome = true := by
  unfold eamModel
  simp only [Option.isSome_map]
  have hrep := repCells_ok ds upa (fun p => ea[p]!) g
  unfold eamNextidx
  apply collect_isSome
  intro c hc
  simp only
  split
  · rfl
  · rename_i hv
    obtain ⟨k, hk, hp⟩ := hr _ (hrep.2 c (hrep.1 ▸ hc) hv).1
    exact eamTrace_total ds ea _ c k _ hp _ (by omega)

/-- **nextidx_total, eam_plus** -/
theorem eam_plus_total (ds : Array Nat) (upa : Array Int) (ea : Array Bool) (g : Geo) (hwf : FineWF ds)
    (hr : ReachesPit ds) : (eamPlusModel ds upa ea g).isSome = true := by
  have hrep := repCells_ok ds upa (fun p => ea[p]!) g
  have h1 : (ihuOutlets ds (eamRepcell ds upa ea g.subncol g.cs g.ncol g.ncell) g.subncol g.cs g.ncol).isSome = true := by
    unfold ihuOutlets
    apply collect_isSome
    intro c hc
    simp only
    split
    · rfl
    · rename_i hv
      obtain ⟨k, hk, hp⟩ := hr _ (hrep.2 c (hrep.1 ▸ hc) hv).1
      exact ihuOutTrace_total ds _ c k _ hp _ (by omega)
  obtain ⟨out, hout⟩ := Option.isSome_iff_exists.mp h1
  obtain ⟨hso, ho⟩ := outlet_in_cell ds _ out g hwf hrep hout
  unfold eamPlusModel
  simp only [hout, Option.isSome_map]
  unfold ihuNextidx
  simp only [Option.isSome_map]
  apply collect_isSome
  intro c hc
  split
  · rfl
  · rename_i hv
    have hvo : ValidPx ds out[c]! := by
      have := ho c (hso ▸ hc)
      by_cases hrc : (eamRepcell ds upa ea g.subncol g.cs g.ncol g.ncell)[c]! = ds.size
      · exact absurd (this.1 hrc) hv
      · exact (this.2 hrc).1
    obtain ⟨k, hk, hp⟩ := hr _ hvo
    simp only [Option.isSome_map]
    exact ihuNextTrace_total ds out ea _ g.ncol c k _ _ hp _ (by omega)

/-- the connection check terminates when the outlet pixels are valid cells of a loop-free network -/
theorem upscale_error_total (ds out cds : Array Nat) (hr : ReachesPit ds)
    (hout : ∀ c, c < cds.size → out[c]! ≠ ds.size → ValidPx ds out[c]!) :
    (upscaleError ds out cds).isSome = true := by
  unfold upscaleError
  apply collect_isSome
  intro c hc
  split
  · rename_i hv
    obtain ⟨k, hk, hp⟩ := hr _ (hout c hc hv.2)
    simp only [Option.isSome_map]
    exact errWalk_total ds _ k _ hp _ (by omega)
  · rfl

/-! ## non-vacuity: a concrete 5×5 raster, scale factor 2 (coarse 3×3, last row/column partial)

Pixels 4, 18, 19, 24 are nodata (coarse cell 8 has no valid pixel), pits at pixels 3 and 12; the three modelled
methods give three different coarse networks; `eam` has one erroneous link (cell 5), `dmm` another (cell 7). -/
def exDs : Array Nat := #[6, 6, 7, 3, 25, 6, 12, 12, 12, 3, 6, 16, 12, 12, 8, 16, 12, 16, 25, 25, 16, 22, 16, 17, 25]
def exUpa : Array Int :=
  #[1, 1, 1, 2, -9999, 1, 5, 2, 2, 1, 1, 1, 19, 1, 1, 1, 8, 2, -9999, -9999, 1, 1, 2, 1, -9999]
def exEa : Array Bool := Array.replicate 25 true
def exG : Geo := ⟨5, 5, 2⟩
def exOut : Array Nat := #[6, 3, 9, 16, 12, 14, 20, 22, 25]

-- hypotheses of the theorems are satisfiable
example : exG.OK exDs := ⟨by decide, by decide⟩
example : FineWF exDs := by unfold FineWF; decide +kernel
example : ReachesPit exDs := by
  have h : ∀ p, p < 25 → exDs[p]! ≠ 25 → ∃ k, k ≤ 25 ∧ exDs[iterA exDs k p]! = iterA exDs k p := by decide +kernel
  intro p hp
  exact h p hp.1 hp.2
example : ReachesPit exDs :=
  reachesPit_of_isTopo exDs [3, 12, 9, 6, 7, 8, 13, 16, 0, 1, 5, 10, 2, 14, 11, 15, 17, 20, 22, 23, 21]
    (by decide +kernel) (by
      have h : ∀ p, p < 25 → exDs[p]! ≠ 25 →
          p ∈ [3, 12, 9, 6, 7, 8, 13, 16, 0, 1, 5, 10, 2, 14, 11, 15, 17, 20, 22, 23, 21] := by decide +kernel
      exact fun p hp => h p hp.1 hp.2)
-- the hypotheses of the by-construction theorems (eam_valid, dmm_valid, eam_plus_valid) hold for this input
example : chkFineWF exDs = true ∧ chkFineD8 exDs exG.subncol = true ∧ chkEaCross exG exEa exDs.size = true ∧
    chkUpaMono exDs exUpa = true := by decide +kernel
-- and the centre-cross hypothesis is not vacuous: at scale 5 an all-false map is rejected, the real one has holes
example : chkEaCross ⟨5, 5, 5⟩ (Array.replicate 25 false) 25 = false := by decide +kernel
example : chkEaCross ⟨5, 5, 5⟩ #[false, false, true, false, false, false, true, true, true, false, true, true, true,
    true, true, false, true, true, true, false, false, false, true, false, false] 25 = true := by decide +kernel
-- shape_ceil / cell_of_pixel: 5×5 at scale 2 is 3×3; pixel 14 = (row 2, col 4) lies in coarse cell 5 = (1, 2)
example : exG.nrow = 3 ∧ exG.ncol = 3 ∧ exG.cell 14 = 5 ∧ exG.cell 24 = 8 := by decide
-- exit_in_cell / rep_in_cell: exit and representative pixels (cell 8 has none)
example : dmmExitcell exDs exUpa 5 2 3 9 = exOut := by decide +kernel
example : eamRepcell exDs exUpa exEa 5 2 3 9 = exOut := by decide +kernel
-- the three pipelines terminate with non-trivial, pairwise different coarse networks
example : dmmModel exDs exUpa exG = some (#[4, 1, 1, 4, 4, 4, 3, 4, 9], exOut) := by decide +kernel
example : eamModel exDs exUpa exEa exG = some (#[4, 1, 1, 4, 4, 1, 3, 3, 9], exOut) := by decide +kernel
example : eamPlusModel exDs exUpa exEa exG = some (#[4, 1, 1, 4, 4, 4, 3, 3, 9], exOut, []) := by decide +kernel
-- upscaleOK accepts the network returned by `ihu` on this input (with the witnesses the driver computes) …
example : upscaleOK exDs exG #[4, 1, 1, 4, 4, 4, 3, 3, 9] exOut
    (mkCert exDs exG #[4, 1, 1, 4, 4, 4, 3, 3, 9] exOut) = true := by decide +kernel
-- … and rejects a loop (4 → 3 → 4), a link outside the 8-neighbourhood (0 → 8) and a duplicated outlet pixel
example : upscaleOK exDs exG #[4, 1, 1, 4, 3, 4, 3, 3, 9] exOut
    (mkCert exDs exG #[4, 1, 1, 4, 3, 4, 3, 3, 9] exOut) = false := by decide +kernel
example : okD8 #[7, 1, 1, 4, 4, 4, 3, 3, 9] 3 = false := by decide +kernel
example : okOutlets exDs #[6, 3, 9, 16, 12, 14, 20, 20, 25]
    (mkCert exDs exG #[4, 1, 1, 4, 4, 4, 3, 3, 9] #[6, 3, 9, 16, 12, 14, 20, 20, 25]).inv = false := by decide +kernel
-- upscale_error_spec: all three flag values occur (eam's cell 5 points to cell 1 but its stream first meets the
-- outlet pixel 12 of cell 4; cell 8 is missing)
example : upscaleError exDs exOut #[4, 1, 1, 4, 4, 1, 3, 3, 9] = some #[1, 1, 1, 1, 1, 0, 1, 1, 255] := by
  decide +kernel
example : (List.range 9).map (errSpec exDs exOut #[4, 1, 1, 4, 4, 1, 3, 3, 9]) = [1, 1, 1, 1, 1, 0, 1, 1, 255] := by
  decide +kernel
-- scale_one: the hypotheses hold for this network at scale 1 and the three methods reproduce it
example : (∀ p, p < 25 → exDs[p]! ≠ 25 → (0 : Int) < exUpa[p]!) ∧
    (∀ p, p < 25 → exDs[p]! ≠ 25 → exDs[p]! ≠ p → exDs[exDs[p]!]! ≠ p) ∧
    (∀ p, p < 25 → exDs[p]! ≠ 25 → inD8 p exDs[p]! 5 = true) := by decide +kernel
example : (eamModel exDs exUpa exEa ⟨5, 5, 1⟩).map (·.1) = some exDs ∧
    (dmmModel exDs exUpa ⟨5, 5, 1⟩).map (·.1) = some exDs ∧
    (eamPlusModel exDs exUpa exEa ⟨5, 5, 1⟩).map (·.1) = some exDs := by decide +kernel

end Pf.C09
