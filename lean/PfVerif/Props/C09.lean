import PfVerif.Proofs.C09Arith
import PfVerif.Proofs.C09Cert
import PfVerif.Proofs.C09Trace
import PfVerif.Proofs.C09Rep
import PfVerif.Proofs.C09Scale1
/-! # C09 — upscaling yields a valid coarse D8 network anchored on fine-grid outlet pixels

All theorems are about the executable model `PfVerif/Model/C09.lean` of `pyflwdir/upscale.py` and quantify over
every fine network `ds`, every fine shape and scale factor `g : Geo`, every upstream-area array and every
effective-area map; no bound on sizes. `g.OK ds` says the fine array has the fine shape's size and `s ≥ 1`;
`FineWF ds` says valid fine cells point to valid fine cells. -/
namespace Pf.C09
open Pf

/-! ## shapes and the coarse cell of a pixel -/

/-- **shape_ceil**: the coarse shape is `ceil(rows/s) × ceil(cols/s)`: the least numbers of coarse rows / columns
that cover the fine raster -/
theorem shape_ceil (g : Geo) (hs : 0 < g.cs) :
    g.subnrow ≤ g.nrow * g.cs ∧ g.nrow * g.cs < g.subnrow + g.cs ∧
    g.subncol ≤ g.ncol * g.cs ∧ g.ncol * g.cs < g.subncol + g.cs :=
  ⟨ceilDiv_le_mul _ _ hs, ceilDiv_mul_lt _ _ hs, ceilDiv_le_mul _ _ hs, ceilDiv_mul_lt _ _ hs⟩

/-- **the coarse cell of a pixel** lies inside the coarse raster and has row `⌊row/s⌋`, column `⌊col/s⌋` -/
theorem cell_of_pixel (g : Geo) (ds : Array Nat) (hg : g.OK ds) (p : Nat) (hp : p < ds.size) :
    g.cell p < g.ncell ∧ g.cell p / g.ncol = (p / g.subncol) / g.cs ∧
    g.cell p % g.ncol = (p % g.subncol) / g.cs :=
  ⟨g.cell_lt ds hg p hp, g.cell_row ds hg p hp, g.cell_col ds hg p hp⟩

/-- with scale factor 1 the coarse cell of a pixel is the pixel -/
theorem cell_scale_one (g : Geo) (h1 : g.cs = 1) (p : Nat) : g.cell p = p := by
  unfold Geo.cell Geo.ncol
  rw [h1, ceilDiv_one]; exact subidx2idx_one p g.subncol

/-! ## the representative / exit pixel -/

/-- **exit_in_cell** (`dmm_exitcell`): the exit pixel of a coarse cell is a valid fine cell of that coarse cell
which is a pit or lies on the cell edge, has positive and maximal upstream area among all such pixels of the cell,
and is the first such pixel in index order; a cell gets no exit pixel iff it has no such pixel with positive
upstream area -/
theorem exit_in_cell (ds : Array Nat) (upa : Array Int) (g : Geo) :
    let cand := fun p => cellEdge p g.subncol g.cs
    let rep := dmmExitcell ds upa g.subncol g.cs g.ncol g.ncell
    rep.size = g.ncell ∧ ∀ c, c < g.ncell →
      (rep[c]! = ds.size ∧ ∀ j, j < ds.size → IsCand ds cand j → g.cell j = c → upa[j]! ≤ 0) ∨
      (rep[c]! < ds.size ∧ IsCand ds cand rep[c]! ∧ g.cell rep[c]! = c ∧ 0 < upa[rep[c]!]! ∧
        (∀ j, j < ds.size → IsCand ds cand j → g.cell j = c → upa[j]! ≤ upa[rep[c]!]!) ∧
        (∀ j, j < rep[c]! → IsCand ds cand j → g.cell j = c → upa[j]! < upa[rep[c]!]!)) :=
  repCells_spec ds upa _ _ g.ncell

/-- **rep_in_cell** (`eam_repcell`): same with "inside the effective area" in place of "on the cell edge" -/
theorem rep_in_cell (ds : Array Nat) (upa : Array Int) (ea : Array Bool) (g : Geo) :
    let cand := fun p => ea[p]!
    let rep := eamRepcell ds upa ea g.subncol g.cs g.ncol g.ncell
    rep.size = g.ncell ∧ ∀ c, c < g.ncell →
      (rep[c]! = ds.size ∧ ∀ j, j < ds.size → IsCand ds cand j → g.cell j = c → upa[j]! ≤ 0) ∨
      (rep[c]! < ds.size ∧ IsCand ds cand rep[c]! ∧ g.cell rep[c]! = c ∧ 0 < upa[rep[c]!]! ∧
        (∀ j, j < ds.size → IsCand ds cand j → g.cell j = c → upa[j]! ≤ upa[rep[c]!]!) ∧
        (∀ j, j < rep[c]! → IsCand ds cand j → g.cell j = c → upa[j]! < upa[rep[c]!]!)) :=
  repCells_spec ds upa _ _ g.ncell

/-- what the later stages need from a representative-pixel array -/
def RepOK (ds : Array Nat) (g : Geo) (rep : Array Nat) : Prop :=
  rep.size = g.ncell ∧ ∀ c, c < g.ncell → rep[c]! ≠ ds.size → ValidPx ds rep[c]! ∧ g.cell rep[c]! = c

theorem repCells_ok (ds : Array Nat) (upa : Array Int) (cand : Nat → Bool) (g : Geo) :
    RepOK ds g (repCells ds upa cand g.cell g.ncell) := by
  obtain ⟨h1, h2⟩ := repCells_spec ds upa cand g.cell g.ncell
  refine ⟨h1, fun c hc hv => ?_⟩
  rcases h2 c hc with ⟨a, _⟩ | ⟨a, b, c', _⟩
  · exact absurd a hv
  · exact ⟨⟨a, b.1⟩, c'⟩

/-- **outlet_in_cell / outlet_leaves** (`ihu_outlets`): the outlet pixel of a coarse cell is a valid fine cell inside
that coarse cell, downstream of the representative pixel, and the pixel downstream of it lies in another
coarse cell unless the outlet pixel is a pit; cells without representative pixel get no outlet -/
theorem outlet_in_cell (ds rep out : Array Nat) (g : Geo) (hwf : FineWF ds) (hrep : RepOK ds g rep)
    (h : ihuOutlets ds rep g.subncol g.cs g.ncol = some out) :
    out.size = g.ncell ∧ ∀ c, c < g.ncell →
      (rep[c]! = ds.size → out[c]! = ds.size) ∧
      (rep[c]! ≠ ds.size → ValidPx ds out[c]! ∧ g.cell out[c]! = c ∧
        (g.cell ds[out[c]!]! ≠ c ∨ ds[out[c]!]! = out[c]!) ∧ ∃ k, out[c]! = iterA ds k rep[c]!) := by
  obtain ⟨hs, hf⟩ := collect_some _ _ _ h
  rw [hrep.1] at hs hf
  refine ⟨hs, fun c hc => ?_⟩
  have hfc := hf c hc
  simp only at hfc
  constructor
  · intro hmv
    rw [if_pos hmv] at hfc
    exact (Option.some.inj hfc).symm
  · intro hv
    rw [if_neg hv] at hfc
    obtain ⟨hvp, hcell⟩ := hrep.2 c hc hv
    have hinv := ihuOutTrace_inv ds g.cell c (fun p => ValidPx ds p ∧ g.cell p = c)
      (fun p hp _ hc' => ⟨hwf.next hp.1, hc'⟩) _ _ _ hfc ⟨hvp, hcell⟩
    exact ⟨hinv.1, hinv.2, ihuOutTrace_exit ds g.cell c _ _ _ hfc, ihuOutTrace_downstream ds g.cell c _ _ _ hfc⟩

/-! ## the three modelled pipelines: sizes, outlets in their own cell, distinct, valid iff outlet -/

/-- the outlet part of the property for the non-iterative methods -/
structure OutletsOwnCell (ds : Array Nat) (g : Geo) (cds out : Array Nat) : Prop where
  size_cds : cds.size = g.ncell
  size_out : out.size = g.ncell
  /-- every outlet pixel is a valid fine cell inside its own coarse cell -/
  own : ∀ c, c < g.ncell → out[c]! ≠ ds.size → ValidPx ds out[c]! ∧ g.cell out[c]! = c
  /-- hence outlet pixels are pairwise distinct -/
  distinct : ∀ c c', c < g.ncell → c' < g.ncell → out[c]! ≠ ds.size → out[c]! = out[c']! → c = c'

theorem OutletsOwnCell.of_own {ds : Array Nat} {g : Geo} {cds out : Array Nat} (h1 : cds.size = g.ncell)
    (h2 : out.size = g.ncell)
    (h3 : ∀ c, c < g.ncell → out[c]! ≠ ds.size → ValidPx ds out[c]! ∧ g.cell out[c]! = c) :
    OutletsOwnCell ds g cds out :=
  ⟨h1, h2, h3, fun c c' hc hc' hv he => by
    have a := (h3 c hc hv).2
    have b := (h3 c' hc' (he ▸ hv)).2
    rw [← a, he, b]⟩

/-- **outlet in own cell, dmm** -/
theorem dmm_outlets (ds : Array Nat) (upa : Array Int) (g : Geo) (cds out : Array Nat)
    (h : dmmModel ds upa g = some (cds, out)) : OutletsOwnCell ds g cds out := by
  unfold dmmModel at h
  simp only [Option.map_eq_some_iff, Prod.mk.injEq] at h
  obtain ⟨cds', hn, rfl, rfl⟩ := h
  have hrep := repCells_ok ds upa (fun p => cellEdge p g.subncol g.cs) g
  obtain ⟨hs, _⟩ := collect_some _ _ _ hn
  exact OutletsOwnCell.of_own (hs.trans hrep.1) hrep.1 hrep.2

/-- **outlet in own cell, eam** -/
theorem eam_outlets (ds : Array Nat) (upa : Array Int) (ea : Array Bool) (g : Geo) (cds out : Array Nat)
    (h : eamModel ds upa ea g = some (cds, out)) : OutletsOwnCell ds g cds out := by
  unfold eamModel at h
  simp only [Option.map_eq_some_iff, Prod.mk.injEq] at h
  obtain ⟨cds', hn, rfl, rfl⟩ := h
  have hrep := repCells_ok ds upa (fun p => ea[p]!) g
  obtain ⟨hs, _⟩ := collect_some _ _ _ hn
  exact OutletsOwnCell.of_own (hs.trans hrep.1) hrep.1 hrep.2

/-- **outlet in own cell, eam_plus** (`ihu` without iterations) -/
theorem eam_plus_outlets (ds : Array Nat) (upa : Array Int) (ea : Array Bool) (g : Geo) (cds out : Array Nat)
    (fix : List Nat) (hwf : FineWF ds) (h : eamPlusModel ds upa ea g = some (cds, out, fix)) :
    OutletsOwnCell ds g cds out := by
  unfold eamPlusModel at h
  simp only at h
  split at h
  · cases h
  · rename_i out' hout
    simp only [Option.map_eq_some_iff, Prod.mk.injEq] at h
    obtain ⟨r, hn, rfl, rfl, rfl⟩ := h
    have hrep := repCells_ok ds upa (fun p => ea[p]!) g
    obtain ⟨hso, ho⟩ := outlet_in_cell ds _ out' g hwf hrep hout
    unfold ihuNextidx at hn
    simp only [Option.map_eq_some_iff] at hn
    obtain ⟨a, ha, rfl⟩ := hn
    obtain ⟨hsa, _⟩ := collect_some _ _ _ ha
    refine OutletsOwnCell.of_own (by simp [hsa, hso]) hso (fun c hc hv => ?_)
    have := ho c hc
    by_cases hr : (eamRepcell ds upa ea g.subncol g.cs g.ncol g.ncell)[c]! = ds.size
    · exact absurd (this.1 hr) hv
    · exact ⟨(this.2 hr).1, (this.2 hr).2.1⟩

/-- **valid_iff_outlet, dmm**: a coarse cell is valid exactly where an exit pixel is reported, and valid cells
point inside the coarse raster -/
theorem dmm_valid_iff_outlet (ds : Array Nat) (upa : Array Int) (g : Geo) (cds out : Array Nat)
    (hg : g.OK ds) (hwf : FineWF ds) (h : dmmModel ds upa g = some (cds, out)) :
    ∀ c, c < g.ncell → (cds[c]! ≠ g.ncell ↔ out[c]! ≠ ds.size) ∧ cds[c]! ≤ g.ncell := by
  unfold dmmModel at h
  simp only [Option.map_eq_some_iff, Prod.mk.injEq] at h
  obtain ⟨cds', hn, rfl, rfl⟩ := h
  have hrep := repCells_ok ds upa (fun p => cellEdge p g.subncol g.cs) g
  obtain ⟨_, hf⟩ := collect_some _ _ _ hn
  intro c hc
  have hfc := hf c (by rw [show (dmmExitcell ds upa g.subncol g.cs g.ncol g.ncell).size = g.ncell from hrep.1]; exact hc)
  simp only at hfc
  by_cases hr : (dmmExitcell ds upa g.subncol g.cs g.ncol g.ncell)[c]! = ds.size
  · rw [if_pos hr] at hfc
    have e := (Option.some.inj hfc).symm
    rw [show (dmmExitcell ds upa g.subncol g.cs g.ncol g.ncell).size = g.ncell from hrep.1] at e
    exact ⟨by simp [e, hr], by omega⟩
  · rw [if_neg hr] at hfc
    have hlt := dmmTrace_inv ds g.cell _ c (ValidPx ds) (· < g.ncell)
      (fun p hp _ => ⟨hwf.next hp, g.cell_lt ds hg _ (hwf.next hp).1⟩) _ _ _ _ hfc (hrep.2 c hc hr).1 hc
    exact ⟨⟨fun _ => hr, fun _ => by omega⟩, by omega⟩

/-- **valid_iff_outlet, eam** -/
theorem eam_valid_iff_outlet (ds : Array Nat) (upa : Array Int) (ea : Array Bool) (g : Geo) (cds out : Array Nat)
    (hg : g.OK ds) (hwf : FineWF ds) (h : eamModel ds upa ea g = some (cds, out)) :
    ∀ c, c < g.ncell → (cds[c]! ≠ g.ncell ↔ out[c]! ≠ ds.size) ∧ cds[c]! ≤ g.ncell := by
  unfold eamModel at h
  simp only [Option.map_eq_some_iff, Prod.mk.injEq] at h
  obtain ⟨cds', hn, rfl, rfl⟩ := h
  have hrep := repCells_ok ds upa (fun p => ea[p]!) g
  obtain ⟨_, hf⟩ := collect_some _ _ _ hn
  intro c hc
  have hfc := hf c (by rw [show (eamRepcell ds upa ea g.subncol g.cs g.ncol g.ncell).size = g.ncell from hrep.1]; exact hc)
  simp only at hfc
  by_cases hr : (eamRepcell ds upa ea g.subncol g.cs g.ncol g.ncell)[c]! = ds.size
  · rw [if_pos hr] at hfc
    have e := (Option.some.inj hfc).symm
    rw [show (eamRepcell ds upa ea g.subncol g.cs g.ncol g.ncell).size = g.ncell from hrep.1] at e
    exact ⟨by simp [e, hr], by omega⟩
  · rw [if_neg hr] at hfc
    obtain ⟨q, hq, hcq⟩ := eamTrace_inv ds ea g.cell c (ValidPx ds) (fun p hp => hwf.next hp) _ _ _ hfc
      (hrep.2 c hc hr).1
    have hlt : cds'[c]! < g.ncell := hcq ▸ g.cell_lt ds hg q hq.1
    exact ⟨⟨fun _ => hr, fun _ => by omega⟩, by omega⟩

/-- **valid_iff_outlet, eam_plus (partial)** and what an unflagged cell guarantees.
For `eam_plus` a coarse cell without outlet pixel is invalid and every link points inside the raster or is missing;
a cell that `ihu_nextidx` does not flag is linked, inside its 3×3 neighbourhood, to the coarse cell whose outlet
pixel is the first outlet pixel met downstream.
*Not proved here* (full statement): `out[c] ≠ mv → cds[c] ≠ mv` for flagged cells — it needs the geometric fact that a
flow path cannot reach a non-adjacent coarse cell without crossing an effective-area pixel (second-stage target);
the certificate `upscaleOK` checks it on every implementation output instead. -/
theorem eam_plus_valid_iff_outlet_partial (ds : Array Nat) (upa : Array Int) (ea : Array Bool) (g : Geo)
    (cds out : Array Nat) (fix : List Nat) (hg : g.OK ds) (hwf : FineWF ds)
    (h : eamPlusModel ds upa ea g = some (cds, out, fix)) :
    ∀ c, c < g.ncell →
      (out[c]! = ds.size → cds[c]! = g.ncell) ∧ cds[c]! ≤ g.ncell ∧
      (out[c]! ≠ ds.size → c ∉ fix →
        cds[c]! < g.ncell ∧ inD8 c cds[c]! g.ncol = true ∧ ValidPx ds out[cds[c]!]! ∧ g.cell out[cds[c]!]! = cds[c]!) := by
  have hown := eam_plus_outlets ds upa ea g cds out fix hwf h
  unfold eamPlusModel at h
  simp only at h
  split at h
  · cases h
  · rename_i out' hout
    simp only [Option.map_eq_some_iff, Prod.mk.injEq] at h
    obtain ⟨r, hn, rfl, rfl, rfl⟩ := h
    unfold ihuNextidx at hn
    simp only [Option.map_eq_some_iff] at hn
    obtain ⟨a, ha, rfl⟩ := hn
    obtain ⟨hsa, hf⟩ := collect_some _ _ _ ha
    have hso : out'.size = g.ncell := hown.size_out
    intro c hc
    have hca : c < a.size := by rw [hsa, hso]; exact hc
    have hfc := hf c (hso ▸ hc)
    simp only [] at hfc ⊢
    rw [get!_map_fst' a c hca]
    by_cases ho : out'[c]! = ds.size
    · rw [if_pos ho] at hfc
      have e : a[c]! = (out'.size, false) := (Option.some.inj hfc).symm
      refine ⟨fun _ => by rw [e, hso], by rw [e, hso]; exact Nat.le_refl _, fun hne => absurd ho hne⟩
    · rw [if_neg ho] at hfc
      simp only [Option.map_eq_some_iff] at hfc
      obtain ⟨r, hr, hra⟩ := hfc
      have hvo := (hown.own c hc ho).1
      have hP := ihuNextTrace_inv ds out' ea g.cell g.ncol c (ValidPx ds) (fun p hp => hwf.next hp) _ _ _ _ hr hvo
        (fun q hq => by cases hq)
      have hle : a[c]!.1 ≤ g.ncell := by
        rw [← hra]
        cases hr1 : r.1 with
        | none => simp [hso]
        | some q => exact Nat.le_of_lt (g.cell_lt ds hg q (hP q hr1).1)
      refine ⟨fun e => absurd e ho, hle, fun _ hnf => ?_⟩
      have hflag : r.2 = false := by
        have : a[c]!.2 = false := by
          apply Classical.byContradiction; intro hne
          apply hnf
          simp only [List.mem_filter, List.mem_range]
          exact ⟨hca, by simpa using hne⟩
        rw [← hra] at this; exact this
      obtain ⟨q, hq1, hq2, hq3⟩ := ihuNextTrace_d8 ds out' ea g.cell g.ncol c _ _ _ _ hr hflag
      have hcell : a[c]!.1 = g.cell q := by rw [← hra, hq1]; rfl
      rw [hcell]
      exact ⟨g.cell_lt ds hg q (hP q hq1).1, hq2, by rw [hq3]; exact hP q hq1, by rw [hq3]⟩

/-! ## the certificate checker evaluated on the implementation's output (all four methods) -/

/-- the part of the property that concerns the returned coarse network and its outlet pixels -/
structure UpscaleValid (ds : Array Nat) (g : Geo) (cds out : Array Nat) : Prop where
  size_cds : cds.size = g.ncell
  size_out : out.size = g.ncell
  /-- every coarse link stays inside the raster and inside the 3×3 neighbourhood (exportable as D8/LDD) -/
  d8 : ∀ c, c < g.ncell → cds[c]! ≠ g.ncell →
    cds[c]! < g.ncell ∧ absDiff (cds[c]! % g.ncol) (c % g.ncol) ≤ 1 ∧ absDiff (cds[c]! / g.ncol) (c / g.ncol) ≤ 1
  /-- loop-free: following the coarse links from any valid coarse cell ends in a coarse pit -/
  loopfree : ∀ c, c < g.ncell → cds[c]! ≠ g.ncell →
    ∃ k, iterA cds k c < g.ncell ∧ cds[iterA cds k c]! = iterA cds k c
  /-- a coarse cell is valid exactly where an outlet pixel is reported -/
  valid_iff : ∀ c, c < g.ncell → (cds[c]! ≠ g.ncell ↔ out[c]! ≠ ds.size)
  /-- every outlet pixel is a valid fine cell -/
  outlet_valid : ∀ c, c < g.ncell → out[c]! ≠ ds.size → ValidPx ds out[c]!
  /-- outlet pixels are pairwise distinct -/
  distinct : ∀ c c', c < g.ncell → c' < g.ncell → out[c]! ≠ ds.size → out[c]! = out[c']! → c = c'
  /-- a coarse cell with an outlet pixel contains a valid fine cell -/
  cell_valid : ∀ c, c < g.ncell → out[c]! ≠ ds.size → ∃ p, ValidPx ds p ∧ g.cell p = c

/-- **upscaleOK_sound** (certificate theorem): whatever witnesses `w` (ranks, inverse map, one pixel per cell) are
supplied, if the decidable local check accepts a coarse network and outlet array then the global property holds:
8-neighbour links, loop-free, valid ⇔ outlet, outlets distinct valid fine cells, in coarse cells with valid pixels. -/
theorem upscaleOK_sound (ds : Array Nat) (g : Geo) (cds out : Array Nat) (w : UpCert)
    (h : upscaleOK ds g cds out w = true) : UpscaleValid ds g cds out := by
  simp only [upscaleOK, Bool.and_eq_true, beq_iff_eq] at h
  obtain ⟨⟨⟨⟨⟨hsz, hd8⟩, hrk⟩, hvi⟩, hout⟩, hcv⟩ := h
  obtain ⟨hso, hvi'⟩ := okValidIff_sound _ _ _ hvi
  have hso' : out.size = g.ncell := hso.trans hsz
  obtain ⟨ho1, ho2⟩ := okOutlets_sound _ _ _ hout
  refine ⟨hsz, hso', ?_, ?_, ?_, ?_, ?_, ?_⟩
  · intro c hc hv
    exact hsz ▸ okD8_sound cds g.ncol hd8 c (hsz ▸ hc) (hsz ▸ hv)
  · intro c hc hv
    have hc' : c < cds.size := hsz ▸ hc
    have hv' : cds[c]! ≠ cds.size := hsz ▸ hv
    have hnn := okRank_nonneg cds w.rk hrk c hc' hv'
    obtain ⟨m, hm⟩ := Int.eq_ofNat_of_zero_le hnn
    exact ⟨m, hsz ▸ okRank_reaches cds w.rk hrk m c hc' hv' hm⟩
  · intro c hc
    exact hsz ▸ hvi' c (hsz ▸ hc)
  · intro c hc hv
    exact ho1 c (hso' ▸ hc) hv
  · intro c c' hc hc' hv he
    exact ho2 c c' (hso' ▸ hc) (hso' ▸ hc') hv he
  · intro c hc hv
    obtain ⟨p, h1, h2, h3⟩ := okCellValid_sound _ _ _ _ hcv c (hso' ▸ hc) hv
    exact ⟨p, ⟨h1, h2⟩, h3⟩

/-- **own-cell check** (required of dmm, eam, eam_plus outputs): accepted ⇒ every outlet pixel lies in its own cell -/
theorem ownCell_sound (ds : Array Nat) (g : Geo) (out : Array Nat) (h : okOwnCell ds out g.cell = true) :
    ∀ c, c < out.size → out[c]! ≠ ds.size → g.cell out[c]! = c :=
  okOwnCell_sound ds out g.cell h

/-! ## the connection check `upscale_error` -/

/-- `q` is one of the reported outlet pixels -/
def IsOutlet (ds out : Array Nat) (q : Nat) : Prop := q < ds.size ∧ q ∈ out.toList

/-- **upscale_error_spec** (trace theorem): the connection check marks a coarse cell
* `1` exactly when the first outlet pixel (or terminal pit) met strictly downstream of the cell's own outlet pixel
  is the outlet pixel of the coarse cell it points to,
* `0` exactly when that first pixel is a different one,
* `255` exactly when the cell has no downstream cell or no outlet pixel. -/
theorem upscale_error_spec (ds out cds flags : Array Nat) (h : upscaleError ds out cds = some flags) :
    flags.size = cds.size ∧ ∀ c, c < cds.size →
      (flags[c]! = 255 ↔ (cds[c]! = cds.size ∨ out[c]! = ds.size)) ∧
      (flags[c]! = 1 ↔ (cds[c]! ≠ cds.size ∧ out[c]! ≠ ds.size ∧
        NextStop ds (IsOutlet ds out) out[c]! out[cds[c]!]!)) ∧
      (flags[c]! = 0 ↔ (cds[c]! ≠ cds.size ∧ out[c]! ≠ ds.size ∧
        ∃ q, NextStop ds (IsOutlet ds out) out[c]! q ∧ q ≠ out[cds[c]!]!)) := by
  obtain ⟨hs, hf⟩ := collect_some _ _ _ h
  refine ⟨hs, fun c hc => ?_⟩
  have hfc := hf c hc
  have hcongr : ∀ x, (outletMask ds.size out)[x]! = true ↔ IsOutlet ds out x := fun x => outletMask_spec _ _ x
  split at hfc
  · rename_i hv
    simp only [Option.map_eq_some_iff] at hfc
    obtain ⟨q, hq, hfl⟩ := hfc
    obtain ⟨w1, w2⟩ := walk_flag ds _ _ _ q out[cds[c]!]! hq
    by_cases hqt : q = out[cds[c]!]!
    · have hfl' : flags[c]! = 1 := by rw [← hfl]; simp [hqt]
      refine ⟨by simp [hfl', hv.1, hv.2], ⟨fun _ => ⟨hv.1, hv.2, (w1.mp hqt).congr hcongr⟩, fun _ => hfl'⟩, ?_⟩
      constructor
      · intro e; omega
      · rintro ⟨_, _, q', h1, h2⟩
        exact absurd hqt (w2.mpr ⟨q', h1.congr (fun x => (hcongr x).symm), h2⟩)
    · have hfl' : flags[c]! = 0 := by rw [← hfl]; simp [hqt]
      refine ⟨by simp [hfl', hv.1, hv.2], ⟨fun e => by omega, ?_⟩, ?_⟩
      · rintro ⟨_, _, h1⟩
        exact absurd (w1.mpr (h1.congr (fun x => (hcongr x).symm))) hqt
      · constructor
        · intro _
          obtain ⟨q', h1, h2⟩ := w2.mp hqt
          exact ⟨hv.1, hv.2, q', h1.congr hcongr, h2⟩
        · intro _; exact hfl'
  · rename_i hv
    have hfl : flags[c]! = 255 := (Option.some.inj hfc).symm
    have hv' : cds[c]! = cds.size ∨ out[c]! = ds.size := by
      by_cases h1 : cds[c]! = cds.size
      · exact Or.inl h1
      · by_cases h2 : out[c]! = ds.size
        · exact Or.inr h2
        · exact absurd ⟨h1, h2⟩ hv
    refine ⟨⟨fun _ => hv', fun _ => hfl⟩, ⟨fun e => by omega, ?_⟩, ⟨fun e => by omega, ?_⟩⟩
    · rintro ⟨h1, h2, _⟩; rcases hv' with h | h <;> contradiction
    · rintro ⟨h1, h2, _⟩; rcases hv' with h | h <;> contradiction

/-- the list of erroneous cells returned next to the map is exactly the cells flagged `0`, in increasing order -/
theorem upscale_error_fix (flags : Array Nat) (c : Nat) :
    c ∈ upscaleErrorFix flags ↔ c < flags.size ∧ flags[c]! = 0 := by
  simp [upscaleErrorFix, List.mem_filter, List.mem_range]

/-- the declarative oracle applied by the harness to the implementation's flags has the same characterisation
(with membership in the outlet list decided directly) -/
theorem errSpec_spec (ds out cds : Array Nat) (c : Nat) (hfuel : errSpec ds out cds c ≠ 2) :
    (errSpec ds out cds c = 255 ↔ (cds[c]! = cds.size ∨ out[c]! = ds.size)) ∧
    (errSpec ds out cds c = 1 ↔ (cds[c]! ≠ cds.size ∧ out[c]! ≠ ds.size ∧
      NextStop ds (fun q => q ∈ out.toList) out[c]! out[cds[c]!]!)) := by
  unfold errSpec at hfuel ⊢
  have hcongr : ∀ x, (out.toList.contains x) = true ↔ x ∈ out.toList := fun x => by simp
  split
  · rename_i hv
    refine ⟨⟨fun _ => hv, fun _ => rfl⟩, ⟨fun e => by omega, ?_⟩⟩
    rintro ⟨h1, h2, _⟩; rcases hv with h | h <;> contradiction
  · rename_i hv
    have hv1 : cds[c]! ≠ cds.size := fun e => hv (Or.inl e)
    have hv2 : out[c]! ≠ ds.size := fun e => hv (Or.inr e)
    rw [if_neg hv] at hfuel
    split
    · rename_i q hq
      obtain ⟨w1, _⟩ := walk_flag ds _ _ _ q out[cds[c]!]! hq
      by_cases hqt : q = out[cds[c]!]!
      · rw [if_pos hqt]
        exact ⟨by simp [hv1, hv2], ⟨fun _ => ⟨hv1, hv2, (w1.mp hqt).congr hcongr⟩, fun _ => rfl⟩⟩
      · rw [if_neg hqt]
        refine ⟨by simp [hv1, hv2], ⟨fun e => by omega, ?_⟩⟩
        rintro ⟨_, _, h1⟩
        exact absurd (w1.mpr (h1.congr (fun x => (hcongr x).symm))) hqt
    · rename_i hq
      rw [hq] at hfuel; exact absurd rfl hfuel

/-! ## scale factor 1 reproduces the input network -/

/-- **scale_one, eam**: with scale factor 1 (where every pixel is in the effective area) and positive upstream
area, `eam` terminates and returns the input network with every valid pixel as its own outlet
(`identOut ds c = c` on valid pixels, missing elsewhere) -/
theorem scale_one_eam (ds : Array Nat) (upa : Array Int) (ea : Array Bool) (g : Geo) (hg : g.OK ds)
    (h1 : g.cs = 1) (hwf : FineWF ds)
    (hupa : ∀ p, p < ds.size → ds[p]! ≠ ds.size → 0 < upa[p]!)
    (hea : ∀ p, p < ds.size → ds[p]! ≠ ds.size → ea[p]! = true) :
    ∃ cds out, eamModel ds upa ea g = some (cds, out) ∧ cds.size = ds.size ∧ out.size = ds.size ∧
      ∀ c, c < ds.size → cds[c]! = ds[c]! ∧ out[c]! = identOut ds c := by
  have hrep := repCells_one ds upa (fun p => ea[p]!) g hg h1 hupa (fun p hp hv => Or.inr (hea p hp hv))
  have hrs : (eamRepcell ds upa ea g.subncol g.cs g.ncol g.ncell).size = ds.size :=
    (repCells_spec ds upa _ _ g.ncell).1.trans (g.ncell_one ds hg h1)
  obtain ⟨cds, h2, h3, h4⟩ := eamNextidx_one ds _ ea g h1 hwf hrs hrep hea
  exact ⟨cds, _, by unfold eamModel; simp only [h2, Option.map_some], h3, hrs, fun c hc => ⟨h4 c hc, hrep c hc⟩⟩

/-- **scale_one, dmm** (after fix 5cca295: for `cellsize == 1` the window of `dmm_nextidx` is the cell itself):
`dmm` returns the input network. `hno2` (no two-cycles) holds for every loop-free network. -/
theorem scale_one_dmm (ds : Array Nat) (upa : Array Int) (g : Geo) (hg : g.OK ds) (h1 : g.cs = 1)
    (hwf : FineWF ds) (hupa : ∀ p, p < ds.size → ds[p]! ≠ ds.size → 0 < upa[p]!)
    (hno2 : ∀ p, p < ds.size → ds[p]! ≠ ds.size → ds[p]! ≠ p → ds[ds[p]!]! ≠ p) :
    ∃ cds out, dmmModel ds upa g = some (cds, out) ∧ cds.size = ds.size ∧ out.size = ds.size ∧
      ∀ c, c < ds.size → cds[c]! = ds[c]! ∧ out[c]! = identOut ds c := by
  have hedge : ∀ p, cellEdge p g.subncol g.cs = true := fun p => by simp [cellEdge, h1, Nat.mod_one]
  have hrep := repCells_one ds upa (fun p => cellEdge p g.subncol g.cs) g hg h1 hupa
    (fun p _ _ => Or.inr (hedge p))
  have hrs : (dmmExitcell ds upa g.subncol g.cs g.ncol g.ncell).size = ds.size :=
    (repCells_spec ds upa _ _ g.ncell).1.trans (g.ncell_one ds hg h1)
  by_cases hne : ds.size = 0
  · obtain ⟨cds, h2, h3, _⟩ : ∃ cds, dmmNextidx ds (dmmExitcell ds upa g.subncol g.cs g.ncol g.ncell)
        g.subncol g.cs g.ncol = some cds ∧ cds.size = ds.size ∧ True := by
      unfold dmmNextidx
      rw [hrs, hne]
      exact ⟨#[], by simp [collect], by simp [hne], trivial⟩
    exact ⟨cds, _, by unfold dmmModel; simp only [h2, Option.map_some], h3, hrs, fun c hc => by omega⟩
  · have hn : 0 < g.subncol := g.subncol_pos ds hg 0 (by omega)
    obtain ⟨cds, h2, h3, h4⟩ := dmmNextidx_one ds _ g hn h1 hwf hrs hrep hno2
    exact ⟨cds, _, by unfold dmmModel; simp only [h2, Option.map_some], h3, hrs, fun c hc => ⟨h4 c hc, hrep c hc⟩⟩

/-- **scale_one, eam_plus** (`ihu` first pass): on a fine network whose links stay in the 8-neighbourhood
(`in_d8` on pixel indices) `eam_plus` returns the input network and flags no cell -/
theorem scale_one_eam_plus (ds : Array Nat) (upa : Array Int) (ea : Array Bool) (g : Geo) (hg : g.OK ds)
    (h1 : g.cs = 1) (hwf : FineWF ds)
    (hupa : ∀ p, p < ds.size → ds[p]! ≠ ds.size → 0 < upa[p]!)
    (hea : ∀ p, p < ds.size → ds[p]! ≠ ds.size → ea[p]! = true)
    (hd8 : ∀ p, p < ds.size → ds[p]! ≠ ds.size → inD8 p ds[p]! g.subncol = true) :
    ∃ cds out, eamPlusModel ds upa ea g = some (cds, out, []) ∧ cds.size = ds.size ∧ out.size = ds.size ∧
      ∀ c, c < ds.size → cds[c]! = ds[c]! ∧ out[c]! = identOut ds c := by
  have hrep := repCells_one ds upa (fun p => ea[p]!) g hg h1 hupa (fun p hp hv => Or.inr (hea p hp hv))
  have hrs : (eamRepcell ds upa ea g.subncol g.cs g.ncol g.ncell).size = ds.size :=
    (repCells_spec ds upa _ _ g.ncell).1.trans (g.ncell_one ds hg h1)
  obtain ⟨out, ho1, ho2, ho3⟩ := ihuOutlets_one ds _ g h1 hrs hrep
  obtain ⟨cds, h2, h3, h4⟩ := ihuNextidx_one ds out ea g h1 hwf ho2 ho3 hd8
  exact ⟨cds, out, by unfold eamPlusModel; simp only [ho1, h2, Option.map_some], h3, ho2,
    fun c hc => ⟨h4 c hc, ho3 c hc⟩⟩

/-! ## termination (fuel): `nextidx_total` -/

/-- every valid fine cell reaches a pit within `ds.size` steps (true of every loop-free network; the rank of a
cell is such a `k`) -/
def ReachesPit (ds : Array Nat) : Prop := ∀ p, ValidPx ds p → ∃ k, k ≤ ds.size ∧ PitAt ds k p

/-- **nextidx_total, dmm**: on a loop-free fine network no trace of `dmm` runs out of fuel -/
theorem dmm_total (ds : Array Nat) (upa : Array Int) (g : Geo) (hr : ReachesPit ds) :
    (dmmModel ds upa g).isSome = true := by
  unfold dmmModel
  simp only [Option.isSome_map]
  have hrep := repCells_ok ds upa (fun p => cellEdge p g.subncol g.cs) g
  unfold dmmNextidx
  apply collect_isSome
  intro c hc
  simp only
  split
  · rfl
  · rename_i hv
    obtain ⟨k, hk, hp⟩ := hr _ (hrep.2 c (hrep.1 ▸ hc) hv).1
    exact dmmTrace_total ds _ _ c k _ _ hp _ (by omega)

/-- **nextidx_total, eam** -/
theorem eam_total (ds : Array Nat) (upa : Array Int) (ea : Array Bool) (g : Geo) (hr : ReachesPit ds) :
    (eamModel ds upa ea g).isSome = true := by
  unfold eamModel
  simp only [Option.isSome_map]
  have hrep := repCells_ok ds upa (fun p => ea[p]!) g
  unfold eamNextidx
  apply collect_isSome
  intro c hc
  simp only
  split
  · rfl
  · rename_i hv
    obtain ⟨k, hk, hp⟩ := hr _ (hrep.2 c (hrep.1 ▸ hc) hv).1
    exact eamTrace_total ds ea _ c k _ hp _ (by omega)

/-- **nextidx_total, eam_plus** -/
theorem eam_plus_total (ds : Array Nat) (upa : Array Int) (ea : Array Bool) (g : Geo) (hwf : FineWF ds)
    (hr : ReachesPit ds) : (eamPlusModel ds upa ea g).isSome = true := by
  have hrep := repCells_ok ds upa (fun p => ea[p]!) g
  have h1 : (ihuOutlets ds (eamRepcell ds upa ea g.subncol g.cs g.ncol g.ncell) g.subncol g.cs g.ncol).isSome = true := by
    unfold ihuOutlets
    apply collect_isSome
    intro c hc
    simp only
    split
    · rfl
    · rename_i hv
      obtain ⟨k, hk, hp⟩ := hr _ (hrep.2 c (hrep.1 ▸ hc) hv).1
      exact ihuOutTrace_total ds _ c k _ hp _ (by omega)
  obtain ⟨out, hout⟩ := Option.isSome_iff_exists.mp h1
  obtain ⟨hso, ho⟩ := outlet_in_cell ds _ out g hwf hrep hout
  unfold eamPlusModel
  simp only [hout, Option.isSome_map]
  unfold ihuNextidx
  simp only [Option.isSome_map]
  apply collect_isSome
  intro c hc
  split
  · rfl
  · rename_i hv
    have hvo : ValidPx ds out[c]! := by
      have := ho c (hso ▸ hc)
      by_cases hrc : (eamRepcell ds upa ea g.subncol g.cs g.ncol g.ncell)[c]! = ds.size
      · exact absurd (this.1 hrc) hv
      · exact (this.2 hrc).1
    obtain ⟨k, hk, hp⟩ := hr _ hvo
    simp only [Option.isSome_map]
    exact ihuNextTrace_total ds out ea _ g.ncol c k _ _ hp _ (by omega)

/-- the connection check terminates when the outlet pixels are valid cells of a loop-free network -/
theorem upscale_error_total (ds out cds : Array Nat) (hr : ReachesPit ds)
    (hout : ∀ c, c < cds.size → out[c]! ≠ ds.size → ValidPx ds out[c]!) :
    (upscaleError ds out cds).isSome = true := by
  unfold upscaleError
  apply collect_isSome
  intro c hc
  split
  · rename_i hv
    obtain ⟨k, hk, hp⟩ := hr _ (hout c hc hv.2)
    simp only [Option.isSome_map]
    exact errWalk_total ds _ k _ hp _ (by omega)
  · rfl

/-! ## non-vacuity: a concrete 5×5 raster, scale factor 2 (coarse 3×3, last row/column partial)

Pixels 4, 18, 19, 24 are nodata (coarse cell 8 has no valid pixel), pits at pixels 3 and 12; the three modelled
methods give three different coarse networks; `eam` has one erroneous link (cell 5), `dmm` another (cell 7). -/
def exDs : Array Nat := #[6, 6, 7, 3, 25, 6, 12, 12, 12, 3, 6, 16, 12, 12, 8, 16, 12, 16, 25, 25, 16, 22, 16, 17, 25]
def exUpa : Array Int :=
  #[1, 1, 1, 2, -9999, 1, 5, 2, 2, 1, 1, 1, 19, 1, 1, 1, 8, 2, -9999, -9999, 1, 1, 2, 1, -9999]
def exEa : Array Bool := Array.replicate 25 true
def exG : Geo := ⟨5, 5, 2⟩
def exOut : Array Nat := #[6, 3, 9, 16, 12, 14, 20, 22, 25]

-- hypotheses of the theorems are satisfiable
example : exG.OK exDs := ⟨by decide, by decide⟩
example : FineWF exDs := by unfold FineWF; decide +kernel
example : ReachesPit exDs := by
  have h : ∀ p, p < 25 → exDs[p]! ≠ 25 → ∃ k, k ≤ 25 ∧ exDs[iterA exDs k p]! = iterA exDs k p := by decide +kernel
  intro p hp
  exact h p hp.1 hp.2
-- shape_ceil / cell_of_pixel: 5×5 at scale 2 is 3×3; pixel 14 = (row 2, col 4) lies in coarse cell 5 = (1, 2)
example : exG.nrow = 3 ∧ exG.ncol = 3 ∧ exG.cell 14 = 5 ∧ exG.cell 24 = 8 := by decide
-- exit_in_cell / rep_in_cell: exit and representative pixels (cell 8 has none)
example : dmmExitcell exDs exUpa 5 2 3 9 = exOut := by decide +kernel
example : eamRepcell exDs exUpa exEa 5 2 3 9 = exOut := by decide +kernel
-- the three pipelines terminate with non-trivial, pairwise different coarse networks
example : dmmModel exDs exUpa exG = some (#[4, 1, 1, 4, 4, 4, 3, 4, 9], exOut) := by decide +kernel
example : eamModel exDs exUpa exEa exG = some (#[4, 1, 1, 4, 4, 1, 3, 3, 9], exOut) := by decide +kernel
example : eamPlusModel exDs exUpa exEa exG = some (#[4, 1, 1, 4, 4, 4, 3, 3, 9], exOut, []) := by decide +kernel
-- upscaleOK accepts the network returned by `ihu` on this input (with the witnesses the driver computes) …
example : upscaleOK exDs exG #[4, 1, 1, 4, 4, 4, 3, 3, 9] exOut
    (mkCert exDs exG #[4, 1, 1, 4, 4, 4, 3, 3, 9] exOut) = true := by decide +kernel
-- … and rejects a loop (4 → 3 → 4), a link outside the 8-neighbourhood (0 → 8) and a duplicated outlet pixel
example : upscaleOK exDs exG #[4, 1, 1, 4, 3, 4, 3, 3, 9] exOut
    (mkCert exDs exG #[4, 1, 1, 4, 3, 4, 3, 3, 9] exOut) = false := by decide +kernel
example : okD8 #[7, 1, 1, 4, 4, 4, 3, 3, 9] 3 = false := by decide +kernel
example : okOutlets exDs #[6, 3, 9, 16, 12, 14, 20, 20, 25]
    (mkCert exDs exG #[4, 1, 1, 4, 4, 4, 3, 3, 9] #[6, 3, 9, 16, 12, 14, 20, 20, 25]).inv = false := by decide +kernel
-- upscale_error_spec: all three flag values occur (eam's cell 5 points to cell 1 but its stream first meets the
-- outlet pixel 12 of cell 4; cell 8 is missing)
example : upscaleError exDs exOut #[4, 1, 1, 4, 4, 1, 3, 3, 9] = some #[1, 1, 1, 1, 1, 0, 1, 1, 255] := by
  decide +kernel
example : (List.range 9).map (errSpec exDs exOut #[4, 1, 1, 4, 4, 1, 3, 3, 9]) = [1, 1, 1, 1, 1, 0, 1, 1, 255] := by
  decide +kernel
-- scale_one: the hypotheses hold for this network at scale 1 and the three methods reproduce it
example : (∀ p, p < 25 → exDs[p]! ≠ 25 → (0 : Int) < exUpa[p]!) ∧
    (∀ p, p < 25 → exDs[p]! ≠ 25 → exDs[p]! ≠ p → exDs[exDs[p]!]! ≠ p) ∧
    (∀ p, p < 25 → exDs[p]! ≠ 25 → inD8 p exDs[p]! 5 = true) := by decide +kernel
example : (eamModel exDs exUpa exEa ⟨5, 5, 1⟩).map (·.1) = some exDs ∧
    (dmmModel exDs exUpa ⟨5, 5, 1⟩).map (·.1) = some exDs ∧
    (eamPlusModel exDs exUpa exEa ⟨5, 5, 1⟩).map (·.1) = some exDs := by decide +kernel

end Pf.C09
