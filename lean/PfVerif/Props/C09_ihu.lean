import PfVerif.Proofs.C09_ihuInv
import PfVerif.Proofs.C09_ihuFuel
import PfVerif.Proofs.C09_ihuNew
import PfVerif.Proofs.C09_ihuSize
import PfVerif.Props.C09
/-! # C09 extension — the iterative stages of IHU

Theorems about the loop-for-loop models of `Model/C09_ihu.lean`: `ihu_relocate_outlets`, `ihu_optimize_rivlen`,
`ihu_minimize_error`, `next_outlet` (`pyflwdir/upscale.py`). The models are tied to the code by exact comparison of
every output array on generated networks (`harness/props/c09_ihu.py`); the `np.argsort` results of the implementation
are an oracle parameter (`Sorts`) of the models, so every theorem below holds for EVERY order of ties.

All theorems quantify over every fine network, every coarse state and every oracle; no bound on sizes.

Vocabulary: `e.cell p` = coarse cell of pixel `p` (`subidx_2_idx`, the missing pixel mapped to the missing cell);
`Exit e p` = `p` is a pit or its downstream pixel lies in another coarse cell;
`PitAt ds k p` = the flow path from `p` is at a pit after `k` steps. -/
namespace Pf.C09ihu
open Pf

/-! ## 1. `ihu_relocate_outlets`: what a relocated outlet pixel is -/

/-- an entry of the outlet array that is acceptable for coarse cell `c`: missing, or a pixel of cell `c` that is a pit
or drains into another coarse cell -/
def OutletOf (e : Env) (c p : Nat) : Prop := p = e.ds.size ∨ (e.cell p = c ∧ Exit e p)

/-- **relocation keeps outlet pixels at the exits of their own cells**: if before `ihu_relocate_outlets` every coarse
cell's outlet pixel is missing or is a pixel of that cell whose downstream pixel lies in another cell (or a pit), the
same holds afterwards, whatever the flagged cells, the coarse links and the order of ties are; the array keeps its size -/
theorem relocate_outlets_exit (e : Env) (fix : List Nat) (cds out : Array Nat) (sorts : Sorts) (r : RelSt)
    (h : relocateOutlets e fix cds out sorts = some r) (ho : ∀ c, c < out.size → OutletOf e c out[c]!) :
    r.out.size = out.size ∧ ∀ c, c < r.out.size → OutletOf e c r.out[c]! :=
  relocateOutlets_inv e (OutletOf e) fix cds out sorts r (fun _ hp _ => Or.inr ⟨rfl, hp⟩) h ho

/-- relocation never changes the size of the coarse network array -/
theorem relocate_links_size (e : Env) (fix : List Nat) (cds out : Array Nat) (sorts : Sorts) (r : RelSt)
    (h : relocateOutlets e fix cds out sorts = some r) : r.cds.size = cds.size :=
  relocateOutlets_size e fix cds out sorts r h

/-- the own-cell half alone needs only the own-cell half as hypothesis -/
theorem relocate_outlets_own_cell (e : Env) (fix : List Nat) (cds out : Array Nat) (sorts : Sorts) (r : RelSt)
    (h : relocateOutlets e fix cds out sorts = some r)
    (ho : ∀ c, c < out.size → out[c]! = e.ds.size ∨ e.cell out[c]! = c) :
    ∀ c, c < r.out.size → r.out[c]! = e.ds.size ∨ e.cell r.out[c]! = c :=
  (relocateOutlets_inv e (fun c p => p = e.ds.size ∨ e.cell p = c) fix cds out sorts r
    (fun _ _ _ => Or.inr rfl) h ho).2

/-- **outlets stay distinct, one per cell** (what the certificate `UpscaleOK` needs of the outlet array): after
relocation two different coarse cells never report the same outlet pixel -/
theorem relocate_outlets_distinct (e : Env) (fix : List Nat) (cds out : Array Nat) (sorts : Sorts) (r : RelSt)
    (h : relocateOutlets e fix cds out sorts = some r)
    (ho : ∀ c, c < out.size → out[c]! = e.ds.size ∨ e.cell out[c]! = c)
    (c c' : Nat) (hc : c < r.out.size) (hc' : c' < r.out.size) (hv : r.out[c]! ≠ e.ds.size)
    (heq : r.out[c]! = r.out[c']!) : c = c' := by
  have h1 := relocate_outlets_own_cell e fix cds out sorts r h ho
  rcases h1 c hc with h2 | h2
  · exact absurd h2 hv
  · rcases h1 c' hc' with h3 | h3
    · exact absurd (heq ▸ h3) hv
    · rw [← h2, ← h3, heq]

/-- the decidable checks the driver evaluates on the implementation's arrays mean what the theorems say -/
theorem chkOwnCell_iff (e : Env) (out : Array Nat) :
    chkOwnCell e out = true ↔ ∀ c, c < out.size → out[c]! = e.ds.size ∨ (out[c]! < e.ds.size ∧ e.cell out[c]! = c) := by
  simp [chkOwnCell, allCells_iff]

theorem chkOutletPix_iff (e : Env) (out : Array Nat) :
    chkOutletPix e out = true ↔
      ∀ c, c < out.size → out[c]! = e.ds.size ∨ (out[c]! < e.ds.size ∧ Exit e out[c]!) := by
  simp [chkOutletPix, allCells_iff, Exit]

theorem cell_lt_imp (e : Env) (p n : Nat) (hn : n ≤ e.ncell) (h : e.cell p < n) : p < e.ds.size := by
  unfold Env.cell at h
  split at h
  · assumption
  · omega

/-- **the checked form** (the `pre.*` / `spec.*` bits of the driver op `c09ihu_relocate`): on arrays of the coarse
size, `chkOwnCell` and `chkOutletPix` are preserved by relocation -/
theorem relocate_outlets_checked (e : Env) (fix : List Nat) (cds out : Array Nat) (sorts : Sorts) (r : RelSt)
    (h : relocateOutlets e fix cds out sorts = some r) (hs : chkSizes e cds out = true)
    (h1 : chkOwnCell e out = true) (h2 : chkOutletPix e out = true) :
    r.out.size = e.ncell ∧ chkOwnCell e r.out = true ∧ chkOutletPix e r.out = true := by
  have hsz : out.size = e.ncell := by
    simp [chkSizes] at hs; exact hs.2
  rw [chkOwnCell_iff] at h1
  rw [chkOutletPix_iff] at h2
  have key := relocateOutlets_inv e
    (fun c p => p = e.ds.size ∨ (p < e.ds.size ∧ e.cell p = c ∧ Exit e p)) fix cds out sorts r
    (fun p hp hlt => Or.inr ⟨cell_lt_imp e p out.size (by omega) hlt, rfl, hp⟩) h
    (fun c hc => by
      rcases h1 c hc with h | h
      · exact Or.inl h
      · rcases h2 c hc with h' | h'
        · exact Or.inl h'
        · exact Or.inr ⟨h.1, h.2, h'.2⟩)
  refine ⟨by rw [key.1, hsz], ?_, ?_⟩
  · rw [chkOwnCell_iff]
    intro c hc
    rcases key.2 c hc with h | h
    · exact Or.inl h
    · exact Or.inr ⟨h.1, h.2.1⟩
  · rw [chkOutletPix_iff]
    intro c hc
    rcases key.2 c hc with h | h
    · exact Or.inl h
    · exact Or.inr ⟨h.1, h.2.2⟩

/-! ## 2. `ihu_optimize_rivlen` and `ihu_minimize_error`: outlet pixels picked by `new_outlet`

Both stages change outlet pixels only through `new_outlet` (a pixel of `outlet_pix(idx0)`: inside the raster, in coarse
cell `idx0`, a pit or draining to a missing pixel / another coarse cell), through the "undo" of `ihu_optimize_rivlen`
(the previous outlet pixel) and — `ihu_minimize_error` with `pit_out_of_cell > 0` only — by moving the outlet of a cell to
the pit its stream ends in, which may lie OUTSIDE the cell. -/

/-- **`ihu_optimize_rivlen` keeps outlet pixels at the exits of their own cells** and keeps the sizes of both coarse arrays -/
theorem optimize_rivlen_outlets_exit (e : Env) (par : Par) (short : List Nat) (valid : Array Bool)
    (streams streams' : Array Int) (cds out cds' out' : Array Nat)
    (h : optimizeRivlen e par short valid (streams, cds, out) = some (streams', cds', out'))
    (hn : out.size ≤ e.ncell) (ho : ∀ c, c < out.size → OutletOf e c out[c]!) :
    cds'.size = cds.size ∧ out'.size = out.size ∧ ∀ c, c < out'.size → OutletOf e c out'[c]! :=
  optimizeRivlen_inv e par (OutletOf e) out.size cds.size short valid _ _ (fun _ hp _ => Or.inr ⟨rfl, hp⟩) hn h
    ⟨rfl, rfl, ho⟩

/-- … hence its outlets stay distinct, one per cell -/
theorem optimize_rivlen_outlets_distinct (e : Env) (par : Par) (short : List Nat) (valid : Array Bool)
    (streams streams' : Array Int) (cds out cds' out' : Array Nat)
    (h : optimizeRivlen e par short valid (streams, cds, out) = some (streams', cds', out'))
    (hn : out.size ≤ e.ncell) (ho : ∀ c, c < out.size → OutletOf e c out[c]!)
    (c c' : Nat) (hc : c < out'.size) (hc' : c' < out'.size) (hv : out'[c]! ≠ e.ds.size)
    (heq : out'[c]! = out'[c']!) : c = c' := by
  have h1 := (optimize_rivlen_outlets_exit e par short valid streams streams' cds out cds' out' h hn ho).2.2
  rcases h1 c hc with h2 | h2
  · exact absurd h2 hv
  · rcases h1 c' hc' with h3 | h3
    · exact absurd (heq ▸ h3) hv
    · rw [← h2.1, ← h3.1, heq]

/-- an entry of the outlet array after `ihu_minimize_error`: missing, an exit pixel of its own cell, or a pit -/
def OutletOrPit (e : Env) (c p : Nat) : Prop := OutletOf e c p ∨ e.ds[p]! = p

/-- **`ihu_minimize_error`**: every outlet pixel stays an exit pixel of its own cell or becomes a pit (possibly of
another cell), for every `pit_out_of_cell`; sizes are kept -/
theorem minimize_error_outlets (e : Env) (par : Par) (poc : Nat) (fix : List Nat) (streams streams' : Array Int)
    (cds out cds' out' : Array Nat) (sorts sorts' : Sorts)
    (h : minimizeError e par poc fix (streams, cds, out) sorts = some ((streams', cds', out'), sorts'))
    (hn : out.size ≤ e.ncell) (ho : ∀ c, c < out.size → OutletOrPit e c out[c]!) :
    cds'.size = cds.size ∧ out'.size = out.size ∧ ∀ c, c < out'.size → OutletOrPit e c out'[c]! :=
  minimizeError_inv e par (OutletOrPit e) out.size cds.size poc fix _ _ sorts sorts'
    (fun _ hp _ => Or.inl (Or.inr ⟨rfl, hp⟩)) hn (fun _ _ _ hpit => Or.inr hpit) h ⟨rfl, rfl, ho⟩

theorem chkOutletOrPit_iff (e : Env) (out : Array Nat) :
    chkOutletOrPit e out = true ↔ ∀ c, c < out.size → OutletOrPit e c out[c]! := by
  simp [chkOutletOrPit, allCells_iff, OutletOrPit, OutletOf, Exit, or_assoc]

/-- with `pit_out_of_cell = 0` (every round of `ihu` but the last) outlet pixels stay at the exits of their own cells -/
theorem minimize_error_outlets_exit (e : Env) (par : Par) (fix : List Nat) (streams streams' : Array Int)
    (cds out cds' out' : Array Nat) (sorts sorts' : Sorts)
    (h : minimizeError e par 0 fix (streams, cds, out) sorts = some ((streams', cds', out'), sorts'))
    (hn : out.size ≤ e.ncell) (ho : ∀ c, c < out.size → OutletOf e c out[c]!) :
    cds'.size = cds.size ∧ out'.size = out.size ∧ ∀ c, c < out'.size → OutletOf e c out'[c]! :=
  minimizeError_inv e par (OutletOf e) out.size cds.size 0 fix _ _ sorts sorts'
    (fun _ hp _ => Or.inr ⟨rfl, hp⟩) hn (fun h0 => absurd h0 (Nat.lt_irrefl 0)) h ⟨rfl, rfl, ho⟩

/-- the checks of the driver imply the hypothesis of the theorems above -/
theorem outletOf_of_checks (e : Env) (out : Array Nat) (h1 : chkOwnCell e out = true) (h2 : chkOutletPix e out = true) :
    ∀ c, c < out.size → OutletOf e c out[c]! := by
  rw [chkOwnCell_iff] at h1
  rw [chkOutletPix_iff] at h2
  intro c hc
  rcases h1 c hc with h | h
  · exact Or.inl h
  · rcases h2 c hc with h' | h'
    · exact Or.inl h'
    · exact Or.inr ⟨h.2, h'.2⟩

/-- … and on arrays of the coarse size the conclusion gives the checks back (the `spec.*` bits of `c09ihu_rivlen`,
and of `c09ihu_minerr` with `poc = 0`) -/
theorem checks_of_outletOf (e : Env) (out : Array Nat) (hn : out.size ≤ e.ncell)
    (h : ∀ c, c < out.size → OutletOf e c out[c]!) : chkOwnCell e out = true ∧ chkOutletPix e out = true := by
  rw [chkOwnCell_iff, chkOutletPix_iff]
  constructor
  · intro c hc
    rcases h c hc with h | h
    · exact Or.inl h
    · exact Or.inr ⟨cell_lt_imp e _ out.size hn (by rw [h.1]; exact hc), h.1⟩
  · intro c hc
    rcases h c hc with h | h
    · exact Or.inl h
    · exact Or.inr ⟨cell_lt_imp e _ out.size hn (by rw [h.1]; exact hc), h.2⟩

/-! ## 3. The whole of `ihu`: first pass + `niter` rounds of the three stages -/

/-- **outlet pixels of `ihu`**: on a well-formed fine network, whatever `niter`, `opt_rivlen`, `min_error`,
`pit_out_of_cell` and the order of ties are, whenever the model of `ihu` returns, both coarse arrays have
`ceil(rows/s) * ceil(cols/s)` entries and every reported outlet pixel lies inside its own coarse cell or is a pit;
with `pit_out_of_cell = 0` every outlet pixel lies inside its own coarse cell, hence the outlets are pairwise distinct -/
theorem ihu_outlets (ds : Array Nat) (upa : Array Int) (ea : Array Bool) (g : Geo) (o : IhuOpt) (sorts sorts' : Sorts)
    (cds out : Array Nat) (hwf : FineWF ds) (h : ihuModel ds upa ea g o sorts = some (cds, out, sorts')) :
    cds.size = g.ncell ∧ out.size = g.ncell ∧
      (∀ c, c < g.ncell → out[c]! = ds.size ∨ (out[c]! < ds.size ∧ g.cell out[c]! = c) ∨ ds[out[c]!]! = out[c]!) ∧
      (o.poc = 0 → (∀ c, c < g.ncell → out[c]! = ds.size ∨ (out[c]! < ds.size ∧ g.cell out[c]! = c)) ∧
        ∀ c c', c < g.ncell → c' < g.ncell → out[c]! ≠ ds.size → out[c]! = out[c']! → c = c') := by
  unfold ihuModel at h
  split at h
  · cases h
  · rename_i cds0 out0 fix0 hfirst
    have h0 := Pf.C09.eam_plus_outlets ds upa ea g cds0 out0 fix0 hwf hfirst
    -- the environment of the stages
    generalize he : (⟨ds, upa, g.subncol, g.cs, g.nrow, g.ncol⟩ : Env) = e at h
    have hds : e.ds = ds := by rw [← he]
    have hncell : e.ncell = g.ncell := by rw [← he]; rfl
    have hcell : ∀ p, p < ds.size → e.cell p = g.cell p := by
      intro p hp; rw [← he]; simp [Env.cell, hp, Geo.cell]
    have hcellge : ∀ p, ¬ p < ds.size → e.cell p = g.ncell := by
      intro p hp; rw [← he]; simp [Env.cell, hp, Env.ncell, Geo.ncell]
    -- first-pass outlets lie in their own cells
    have hstart : ∀ c, c < out0.size → out0[c]! = e.ds.size ∨ (out0[c]! < e.ds.size ∧ e.cell out0[c]! = c) := by
      intro c hc
      by_cases hv : out0[c]! = ds.size
      · exact Or.inl (hds ▸ hv)
      · have := h0.own c (h0.size_out ▸ hc) hv
        exact Or.inr ⟨hds ▸ this.1.1, (hcell _ this.1.1).trans this.2⟩
    have back : ∀ p c, c < g.ncell → (p < e.ds.size ∧ e.cell p = c) → (p < ds.size ∧ g.cell p = c) := by
      intro p c _ hp
      have hlt : p < ds.size := hds ▸ hp.1
      exact ⟨hlt, (hcell p hlt).symm.trans hp.2⟩
    refine ⟨?_, ?_, ?_, ?_⟩
    · have := ihuLoop_inv e _ o (fun _ _ => True) out0.size (fun _ _ _ => trivial)
        (by rw [hncell, h0.size_out]; exact Nat.le_refl _) (fun _ _ _ _ => trivial) _ _ _ _ _ _ _ _ h rfl
        (fun _ _ => trivial)
      rw [this.1, h0.size_cds]
    · have := ihuLoop_inv e _ o (fun _ _ => True) out0.size (fun _ _ _ => trivial)
        (by rw [hncell, h0.size_out]; exact Nat.le_refl _) (fun _ _ _ _ => trivial) _ _ _ _ _ _ _ _ h rfl
        (fun _ _ => trivial)
      rw [this.2.1, h0.size_out]
    · have := ihuLoop_inv e _ o
        (fun c p => p = e.ds.size ∨ (p < e.ds.size ∧ e.cell p = c) ∨ e.ds[p]! = p) out0.size
        (fun p _ hlt => Or.inr (Or.inl ⟨cell_lt_imp e p out0.size (by rw [hncell, h0.size_out]; exact Nat.le_refl _) hlt, rfl⟩))
        (by rw [hncell, h0.size_out]; exact Nat.le_refl _) (fun _ _ _ hp => Or.inr (Or.inr hp)) _ _ _ _ _ _ _ _ h rfl
        (fun c hc => by
          rcases hstart c hc with h | h
          · exact Or.inl h
          · exact Or.inr (Or.inl h))
      intro c hc
      have hc' : c < out.size := by rw [this.2.1, h0.size_out]; exact hc
      rcases this.2.2 c hc' with h | h | h
      · exact Or.inl (hds ▸ h)
      · exact Or.inr (Or.inl (back _ c hc h))
      · exact Or.inr (Or.inr (hds ▸ h))
    · intro hpoc
      have := ihuLoop_inv e _ o
        (fun c p => p = e.ds.size ∨ (p < e.ds.size ∧ e.cell p = c)) out0.size
        (fun p _ hlt => Or.inr ⟨cell_lt_imp e p out0.size (by rw [hncell, h0.size_out]; exact Nat.le_refl _) hlt, rfl⟩)
        (by rw [hncell, h0.size_out]; exact Nat.le_refl _) (fun hp => by omega) _ _ _ _ _ _ _ _ h rfl hstart
      have hown : ∀ c, c < g.ncell → out[c]! = ds.size ∨ (out[c]! < ds.size ∧ g.cell out[c]! = c) := by
        intro c hc
        have hc' : c < out.size := by rw [this.2.1, h0.size_out]; exact hc
        rcases this.2.2 c hc' with h | h
        · exact Or.inl (hds ▸ h)
        · exact Or.inr (back _ c hc h)
      refine ⟨hown, fun c c' hc hc' hv heq => ?_⟩
      rcases hown c hc with h2 | h2
      · exact absurd h2 hv
      · rcases hown c' hc' with h3 | h3
        · exact absurd (heq ▸ h3) hv
        · rw [← h2.2, ← h3.2, heq]

/-! ## 4. Fuel: every `while` of the stages that walks down the fine network stops at the latest at the pit

`PitAt e.ds k p` (the flow path from the start pixel is at a pit after `k` steps; `k ≤ ds.size` on every network covered
by a downstream-first order, `reachesPit_of_isTopo` of C09) makes every fuel above `k` equivalent and the result defined.
The models call the loops with fuel `ds.size + 1`. -/

/-- `next_outlet` -/
theorem next_outlet_fuel (e : Env) (out : Array Nat) (k p : Nat) (hp : PitAt e.ds k p) (fuel : Nat) (hf : k < fuel) :
    nextOutlet e out fuel p = nextOutlet e out (k + 1) p ∧ (nextOutlet e out (k + 1) p).isSome = true :=
  ⟨(nextOutlet_stable e out k p hp fuel (k + 1) hf (by omega)).1,
   (nextOutlet_stable e out k p hp (k + 1) (k + 1) (by omega) (by omega)).2⟩

/-- the downstream trace @1A of `ihu_relocate_outlets` -/
theorem reloc_trace_fuel (e : Env) (cds out : Array Nat) (k subidx : Nat) (hp : PitAt e.ds k subidx) (fuel : Nat)
    (hf : k < fuel) (idx0 idxds0 : Nat) (cells pixs : List Nat) :
    relocTrace e cds out fuel subidx idx0 idxds0 cells pixs = relocTrace e cds out (k + 1) subidx idx0 idxds0 cells pixs ∧
      (relocTrace e cds out (k + 1) subidx idx0 idxds0 cells pixs).isSome = true :=
  ⟨(relocTrace_stable e cds out k subidx hp fuel (k + 1) hf (by omega) _ _ _ _).1,
   (relocTrace_stable e cds out k subidx hp (k + 1) (k + 1) (by omega) (by omega) _ _ _ _).2⟩

/-- the connect loop @3B of `ihu_relocate_outlets` (its own guard `ii <= 10` only shortens it) -/
theorem reloc_connect_fuel (e : Env) (pixs : List Nat) (idx0 k subidx : Nat) (hp : PitAt e.ds k subidx) (fuel : Nat)
    (hf : k < fuel) (idx ii : Nat) (c : Conn) :
    connLoop e pixs idx0 fuel subidx idx ii c = connLoop e pixs idx0 (k + 1) subidx idx ii c ∧
      (connLoop e pixs idx0 (k + 1) subidx idx ii c).isSome = true :=
  ⟨(connLoop_stable e pixs idx0 k subidx hp fuel (k + 1) hf (by omega) _ _ _).1,
   (connLoop_stable e pixs idx0 k subidx hp (k + 1) (k + 1) (by omega) (by omega) _ _ _).2⟩

/-- the tributary loop @4D of `ihu_relocate_outlets`, including the nested `next_outlet` (called with fuel
`ds.size + 1`, hence `k ≤ ds.size`) -/
theorem reloc_tributary_fuel (e : Env) (idx0 sds0 k subidx : Nat) (hp : PitAt e.ds k subidx) (hk : k ≤ e.ds.size)
    (fuel : Nat) (hf : k < fuel) (idxds0 : Nat) (path : List Nat) (s : S4) :
    tribLoop e idx0 sds0 fuel subidx idxds0 path s = tribLoop e idx0 sds0 (k + 1) subidx idxds0 path s ∧
      (tribLoop e idx0 sds0 (k + 1) subidx idxds0 path s).isSome = true :=
  ⟨(tribLoop_stable e idx0 sds0 k subidx hp (by omega) fuel (k + 1) hf (by omega) _ _ _).1,
   (tribLoop_stable e idx0 sds0 k subidx hp (by omega) (k + 1) (k + 1) (by omega) (by omega) _ _ _).2⟩

/-- the first `while True` of `ihu_minimize_error` (cells with an outlet pixel downstream of the current one) -/
theorem minerr_path_fuel (e : Env) (streams : Array Int) (idx0 k subidx : Nat) (hp : PitAt e.ds k subidx) (fuel : Nat)
    (hf : k < fuel) (idxs : List Nat) :
    errPath e streams idx0 fuel subidx idxs = errPath e streams idx0 (k + 1) subidx idxs ∧
      (errPath e streams idx0 (k + 1) subidx idxs).isSome = true :=
  ⟨(errPath_stable e streams idx0 k subidx hp fuel (k + 1) hf (by omega) _).1,
   (errPath_stable e streams idx0 k subidx hp (k + 1) (k + 1) (by omega) (by omega) _).2⟩

/- The `while len(bottleneck) > nbottlenecks` of STEP 4. Statement envisaged by the third stage:
     `chkCdsRange s.cds → s.bott.Nodup → (∀ b ∈ s.bott, b ≤ s.cds.size) → cds.size + 2 ≤ fuel →
        step4 … fuel s = step4 … (cds.size + 2) s ∧ (step4 … (cds.size + 2) s).isSome`
   i.e. the loop runs at most once per distinct value a coarse link can take. As it stands this is not provable: `step4`
   also returns `none` when a tributary walk @4D runs out of fuel (needs a loop-free, well-formed fine network and valid
   outlet pixels), and the values written into coarse links are coarse cells of pixels (`≤ cds.size` only for the coarse
   grid of the fine grid). The FOURTH stage proves it with exactly these hypotheses added - theorem
   `reloc_bottleneck_fuel` in `Props/C09_ihuTotal.lean` (invariant "`bottleneck` has no duplicates and holds only values
   of coarse links" through @4A..@4D, pigeonhole `nodup_le_length`) - and from it `relocate_outlets_total`.
   The fuel-monotonicity lemma below is kept (it is used by `reloc_bottleneck_fuel`): a result obtained with some fuel is
   obtained with every larger fuel. -/
theorem reloc_bottleneck_fuel_partial (e : Env) (idx00 : Nat) (cells pixs : List Nat) (tr : Tribs) (f1 f2 : Nat)
    (s r : S4) (h : step4 e idx00 cells pixs tr f1 s = some r) (hle : f1 ≤ f2) :
    step4 e idx00 cells pixs tr f2 s = some r :=
  step4_mono e idx00 cells pixs tr f1 s r h f2 hle

/-! ## 5. Concrete inputs (non-vacuity) -/

/-- a 3×7 raster, scale 2 (coarse 2×4): first-pass state of `ihu`; coarse cell 3 is flagged -/
def exEnv : Env :=
  { ds := #[1, 9, 9, 9, 10, 4, 5, 8, 2, 9, 2, 3, 19, 5, 7, 8, 8, 11, 11, 18, 19],
    upa := #[1, 2, 11, 7, 4, 3, 1, 2, 5, 21, 5, 6, 1, 1, 1, 1, 1, 1, 4, 3, 1],
    subncol := 7, cs := 2, nrow := 2, ncol := 4 }
def exCds : Array Nat := #[1, 1, 1, 2, 0, 0, 2, 6]
def exOut : Array Nat := #[8, 9, 11, 6, 14, 16, 18, 20]
def exSorts : Sorts := ⟨[[0], [0, 1, 2]], 0⟩

/-- relocation moves the outlet pixel of coarse cell 2 from pixel 11 to pixel 4 and re-links coarse cell 6 -/
example : (relocateOutlets exEnv [3] exCds exOut exSorts).map (fun r => (r.cds, r.out, r.fixOut, r.sorts.bad)) =
    some (#[1, 1, 1, 2, 0, 0, 1, 6], #[8, 9, 4, 6, 14, 16, 18, 20], [], 0) := by decide +kernel

/-- the hypotheses of `relocate_outlets_checked` hold on it -/
example : chkSizes exEnv exCds exOut = true ∧ chkOwnCell exEnv exOut = true ∧ chkOutletPix exEnv exOut = true := by
  decide +kernel

/-- … and so does its conclusion, with a relocated outlet that is distinct from the old one -/
example : chkOwnCell exEnv #[8, 9, 4, 6, 14, 16, 18, 20] = true ∧
    chkOutletPix exEnv #[8, 9, 4, 6, 14, 16, 18, 20] = true := by decide +kernel

/-- fuel: pixel 1 reaches the pit 9 in one step, pixel 0 in two steps -/
example : PitAt exEnv.ds 1 1 ∧ PitAt exEnv.ds 2 0 ∧ ¬ PitAt exEnv.ds 1 0 := by
  unfold PitAt; decide +kernel

/-- the whole of `ihu` (niter = 5, all options on) on the 3×7 raster above, upstream areas in quarter units: the first
pass flags coarse cell 3, the first round relocates the outlet of coarse cell 2 and ends the iteration -/
example : (ihuModel exEnv.ds (exEnv.upa.map (· * 4)) (Array.replicate 21 true) ⟨3, 7, 2⟩ ⟨5, true, true, 2⟩
      ⟨[[0], [0, 1, 2], []], 0⟩).map (fun r => (r.1, r.2.1, r.2.2.bad, r.2.2.q.length)) =
    some (#[1, 1, 1, 2, 0, 0, 1, 6], #[8, 9, 4, 6, 14, 16, 18, 20], 0, 0) := by decide +kernel

/-- hypothesis `FineWF` of `ihu_outlets` on it (as the executable check `chkFineWF`, sound by `hyp_checks_sound` of C09) -/
example : chkFineWF exEnv.ds = true := by decide +kernel

/-- a 5×3 raster, scale 4 (coarse 2×1), large user upstream areas: `ihu_optimize_rivlen` replaces the outlet pixel 11 of
coarse cell 0 (one pixel away from the outlet of cell 1: "short") by the pit 1 and makes cell 0 a pit -/
def exREnv : Env :=
  { ds := #[3, 1, 4, 1, 0, 2, 15, 15, 5, 13, 15, 13, 15, 13, 11],
    upa := #[2600, 4200, 1800, 3800, 2400, 1600, 0, 0, 400, 80000000200, 0, 80000002000, 0, 160000002600, 80000001400],
    subncol := 3, cs := 4, nrow := 2, ncol := 1 }
def exRStreams : Array Int := #[-9, -9, -9, -9, -9, -9, -9, -9, -9, -9, -9, 0, -9, 1, -9]

example : (optimizeRivlen exREnv ⟨4, 4, 16⟩ [0, 1] #[true, true] (exRStreams, #[1, 1], #[11, 13])).map
    (fun r => (r.2.1, r.2.2)) = some (#[0, 1], #[1, 13]) := by decide +kernel

/-- hypotheses and conclusion of `optimize_rivlen_outlets_exit` on it (through the checks) -/
example : chkOwnCell exREnv #[11, 13] = true ∧ chkOutletPix exREnv #[11, 13] = true ∧
    chkOwnCell exREnv #[1, 13] = true ∧ chkOutletPix exREnv #[1, 13] = true := by decide +kernel

/-- a 1×7 raster, scale 2 (coarse 1×4): `ihu_minimize_error` with `pit_out_of_cell = 2` moves the outlet of coarse cell 3
from pixel 6 to the pit 5, which lies in coarse cell 2 — the outlet is a pit (`OutletOrPit`) but no longer in its own
cell, and `chkOwnCell` is lost; with `pit_out_of_cell = 0` nothing moves -/
def exMEnv : Env :=
  { ds := #[7, 7, 2, 4, 4, 5, 5], upa := #[-9999, -9999, 1, 1, 2, 2, 1], subncol := 7, cs := 2, nrow := 1, ncol := 4 }
def exMStreams : Array Int := #[-9, -9, 1, -9, 2, -9, 3]

example : (minimizeError exMEnv ⟨2, 4, 1⟩ 2 [3] (exMStreams, #[4, 1, 2, 2], #[7, 2, 4, 6]) ⟨[[0]], 0⟩).map
    (fun r => (r.1.2.1, r.1.2.2, r.2.bad)) = some (#[4, 1, 2, 3], #[7, 2, 4, 5], 0) := by decide +kernel

example : chkOwnCell exMEnv #[7, 2, 4, 6] = true ∧ chkOutletPix exMEnv #[7, 2, 4, 6] = true ∧
    chkOwnCell exMEnv #[7, 2, 4, 5] = false ∧ exMEnv.ds[5]! = 5 ∧ exMEnv.cell 5 = 2 := by decide +kernel

example : (minimizeError exMEnv ⟨2, 4, 1⟩ 0 [3] (exMStreams, #[4, 1, 2, 2], #[7, 2, 4, 6]) ⟨[[0]], 0⟩).map
    (fun r => r.1.2.2) = some #[7, 2, 4, 6] := by decide +kernel

/-! ## 6. Open finding F09c reproduced by the model

`from_array(9×7 D8 raster of known_findings.json F09c).upscale(2, 'ihu')`: the state handed to the first call of
`ihu_minimize_error` (`pit_out_of_cell = 0`) is loop-free; the model of `ihu_minimize_error` — like the code — re-points
coarse cell 12 to 8 and coarse cell 15 to 14, which closes the coarse loop 8→13→18→15→14→17→16→12→8. -/

def f09cEnv : Env :=
  { ds := #[7, 0, 1, 4, 5, 12, 13, 8, 14, 2, 17, 10, 11, 20, 21, 9, 15, 17, 63, 63, 20, 28, 15, 31, 30, 63, 63, 34, 29,
            35, 22, 39, 38, 33, 41, 36, 44, 30, 45, 39, 32, 47, 50, 37, 51, 39, 54, 46, 40, 43, 56, 52, 60, 59, 53, 48,
            57, 49, 50, 58, 61, 55, 55],
    upa := #[25, 24, 23, 1, 2, 3, 1, 26, 27, 22, 6, 5, 4, 2, 28, 21, 1, 7, -9999, -9999, 3, 29, 19, 1, 1, -9999, -9999,
             1, 30, 31, 18, 2, 43, 1, 2, 32, 33, 16, 44, 48, 42, 3, 1, 15, 34, 45, 5, 4, 41, 14, 11, 35, 36, 7, 6, 40,
             12, 13, 9, 8, 37, 38, 1],
    subncol := 7, cs := 2, nrow := 5, ncol := 4 }
def f09cStreams : Array Int :=
  #[-1, -1, 1, -9, -9, -9, -9, -9, 0, -9, -9, 2, -9, 3, -9, -1, -9, 5, -9, -9, 7, 4, -1, -9, -9, -9, -9, -9, -1, -1, -1,
    -9, -9, -9, -9, -9, 8, -1, 9, 10, -1, 11, -9, 12, -1, -9, -1, -1, 15, -9, -1, -9, 13, 14, -9, -9, -9, 16, 17, -9,
    -9, 18, 19]
def f09cCds : Array Nat := #[4, 0, 5, 7, 8, 5, 20, 7, 13, 10, 10, 14, 9, 18, 17, 10, 12, 16, 15, 15]
def f09cOut : Array Nat := #[8, 2, 11, 13, 21, 17, 63, 20, 36, 38, 39, 41, 43, 52, 53, 48, 57, 58, 61, 62]
def f09cRes : Array Nat := #[4, 0, 5, 7, 8, 5, 20, 7, 13, 10, 10, 14, 8, 18, 17, 14, 12, 16, 15, 15]

/-- every valid coarse cell of the input state reaches a pit (within 20 steps): the input is loop-free -/
example : (List.range 20).all (fun c => f09cCds[c]! == 20 ||
    f09cCds[iterA f09cCds 20 c]! == iterA f09cCds 20 c) = true := by decide +kernel

/-- the model's output (`minlen = 2/4`, `minupa = 1`, `pit_out_of_cell = 0`, erroneous cells 12 and 15) … -/
example : (minimizeError f09cEnv ⟨2, 4, 1⟩ 0 [12, 15] (f09cStreams, f09cCds, f09cOut) ⟨[[0, 1]], 0⟩).map
    (fun r => (r.1.2.1, r.1.2.2)) = some (f09cRes, f09cOut) := by decide +kernel

/-- … contains a loop: eight steps from coarse cell 8 lead back to coarse cell 8, which is not a pit -/
example : iterA f09cRes 8 8 = 8 ∧ f09cRes[8]! ≠ 8 ∧
    [8, 13, 18, 15, 14, 17, 16, 12].map (fun c => f09cRes[c]!) = [13, 18, 15, 14, 17, 16, 12, 8] := by decide +kernel

end Pf.C09ihu
