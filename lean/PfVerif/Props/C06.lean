import PfVerif.Proofs.C06Min
import PfVerif.Proofs.C06DepthEq
import PfVerif.Proofs.C06OnceDir
import PfVerif.Generated.Tables
/-! # C06 — depression filling yields the minimal spill surface draining all cells

Vocabulary (all in `Model/C06.lean`, `Proofs/C06.lean`): `G : Grid` a raster, cells are flat indices;
`nod` the nodata mask; `Valid`, `Adj G conn` (rows and columns differ by at most one; with
connectivity 4 a shared row or column), `Nbr` = `Adj` between valid cells, `IsSeed` the outlets,
`Path G conn nod seed c p` = `p` is a neighbour path from `c` to an outlet, `pathMax elev p` the
highest input elevation on it, `Connected` = some such path exists, `dsOf G d8` the decoded direction
raster, `Reached` = valid and (outlet or has a direction).

`FillCert G conn elev nod seed f d8 rk` is the decidable local certificate (DESIGN §5.6) on the
input `(elev, nod, conn, seed)`, an output `(f, d8)` and a rank witness `rk`. The theorems below hold
for every raster size, every elevation, every seed set and every output the certificate accepts; the
driver evaluates `fillCertOk` on the IMPLEMENTATION's output in every case (`spec.cert_impl`). The
algorithm-level statement "the model's output is always accepted" is `fill_model_cert` below. -/
namespace Pf.C06
open Pf

variable {G : Grid} {conn : Nat} {elev : Array Int} {nod seed : Array Bool}
  {f : Array Int} {d8 rk : Array Nat}

theorem fillCertOk_iff : fillCertOk G conn elev nod seed f d8 rk = true ↔
    FillCert G conn elev nod seed f d8 rk := by
  simp [fillCertOk]

/-- **minimax**: for every cell connected to an outlet, the filled elevation is exactly the lowest
level to which water must rise to reach an outlet: no neighbour path to an outlet has a smaller
maximum input elevation, and some path attains it. -/
theorem fillCert_sound (h : fillCertOk G conn elev nod seed f d8 rk = true) (c : Nat)
    (hc : Connected G conn nod seed c) :
    (∀ p, Path G conn nod seed c p → f[c]! ≤ pathMax elev p) ∧
    (∃ p, Path G conn nod seed c p ∧ pathMax elev p = f[c]!) := by
  have h := fillCertOk_iff.1 h
  obtain ⟨p, hp⟩ := hc
  exact ⟨fun q hq => cert_lower h hq, cert_attained h (connected_reached h hp)⟩

/-- the cells the output marks as reached (outlet or carrying a direction) are exactly the valid
cells connected to an outlet -/
theorem reached_iff_connected_cert (h : fillCertOk G conn elev nod seed f d8 rk = true) (c : Nat) :
    Reached G nod seed d8 c ↔ Connected G conn nod seed c := by
  have h := fillCertOk_iff.1 h
  constructor
  · intro hr
    obtain ⟨p, hp, _⟩ := cert_attained h hr
    exact ⟨p, hp⟩
  · rintro ⟨p, hp⟩
    exact connected_reached h hp

/-- **never below the input** (every cell of the raster) -/
theorem filled_ge_cert (h : fillCertOk G conn elev nod seed f d8 rk = true) (c : Nat) (hc : c < G.n) :
    elev[c]! ≤ f[c]! := by
  have h := fillCertOk_iff.1 h
  cases hn : nod[c]! with
  | true => rw [(cert_nod h hc hn).1]; exact Int.le_refl _
  | false =>
    by_cases hr : Reached G nod seed d8 c
    · by_cases h0 : d8[c]! = 0
      · rw [cert_L2 h (reached_pit_seed hr h0)]; exact Int.le_refl _
      · have := ((cert_reached h hr).2.2.1 h0).2.1
        omega
    · rw [cert_unreached h ⟨hc, hn⟩ hr]; exact Int.le_refl _

/-- `c` drains over the surface `e`: there is a neighbour path from `c` to an outlet along which `e`
never rises -/
inductive Drains (G : Grid) (conn : Nat) (nod seed : Array Bool) (e : Array Int) : Nat → Prop
  | base (s : Nat) : IsSeed G seed s → Drains G conn nod seed e s
  | step (c d : Nat) : Nbr G conn nod c d → e[d]! ≤ e[c]! → Drains G conn nod seed e d →
      Drains G conn nod seed e c

/-- **equal to the input wherever the input already drains** -/
theorem filled_fix_cert (h : fillCertOk G conn elev nod seed f d8 rk = true) (c : Nat)
    (hd : Drains G conn nod seed elev c) : f[c]! = elev[c]! := by
  have hc := fillCertOk_iff.1 h
  suffices hs : Reached G nod seed d8 c ∧ f[c]! = elev[c]! from hs.2
  induction hd with
  | base s hs => exact ⟨seed_reached hc hs, cert_L2 hc hs⟩
  | step c d hn hle _ ih =>
    have hr := reached_closed hc ih.1 hn.symm
    have h1 := cert_L1 hc hr hn
    have h2 := filled_ge_cert h c hn.2.1.1
    rw [ih.2] at h1
    exact ⟨hr, by omega⟩

/-- **nodata cells are untouched and coded as nodata (247) in the direction raster** -/
theorem nodata_untouched_cert (h : fillCertOk G conn elev nod seed f d8 rk = true) (c : Nat)
    (hc : c < G.n) (hn : nod[c]! = true) : f[c]! = elev[c]! ∧ d8[c]! = 247 :=
  let h' := cert_nod (fillCertOk_iff.1 h) hc hn
  ⟨h'.1, h'.2.1⟩

/-- valid cells are never coded as nodata; those not connected to any outlet keep their elevation
and carry the pit code 0 -/
theorem unconnected_untouched_cert (h : fillCertOk G conn elev nod seed f d8 rk = true) (c : Nat)
    (hv : Valid G nod c) (hnc : ¬ Connected G conn nod seed c) : f[c]! = elev[c]! ∧ d8[c]! = 0 := by
  have hr : ¬ Reached G nod seed d8 c := fun hr => hnc ((reached_iff_connected_cert h c).1 hr)
  refine ⟨cert_unreached (fillCertOk_iff.1 h) hv hr, ?_⟩
  apply Classical.byContradiction
  intro h0
  exact hr ⟨hv, Or.inr h0⟩

/-- **every step goes to a neighbour allowed by the chosen connectivity** (a valid one), and
**the filled elevation never increases along a step**; the downstream cell is connected too -/
theorem d8_step_allowed_cert (h : fillCertOk G conn elev nod seed f d8 rk = true) (c : Nat)
    (hc : Connected G conn nod seed c) (h0 : dsOf G d8 c ≠ c) :
    Nbr G conn nod c (dsOf G d8 c) ∧ f[dsOf G d8 c]! ≤ f[c]! ∧
    Connected G conn nod seed (dsOf G d8 c) := by
  have hr := (reached_iff_connected_cert h c).2 hc
  have hcert := fillCertOk_iff.1 h
  have hd : d8[c]! ≠ 0 := fun e => h0 (dsOf_pit e)
  obtain ⟨hn, hf, _⟩ := (cert_reached hcert hr).2.2.1 hd
  exact ⟨hn, by omega, (reached_iff_connected_cert h _).1 (reached_closed hcert hr hn)⟩

/-- **never uphill**, for every cell of the raster (cells without direction are their own
downstream cell) -/
theorem never_uphill_cert (h : fillCertOk G conn elev nod seed f d8 rk = true) (c : Nat) (hc : c < G.n) :
    f[dsOf G d8 c]! ≤ f[c]! := by
  have hcert := fillCertOk_iff.1 h
  by_cases hr : Reached G nod seed d8 c
  · by_cases h0 : d8[c]! = 0
    · rw [dsOf_pit h0]; exact Int.le_refl _
    · have := ((cert_reached hcert hr).2.2.1 h0).2.1
      omega
  · have : dsOf G d8 c = c := by
      cases hn : nod[c]! with
      | true => simp [dsOf, drdc, (cert_nod hcert hc hn).2.1]
      | false =>
        apply dsOf_pit
        apply Classical.byContradiction
        intro h0
        exact hr ⟨⟨hc, hn⟩, Or.inr h0⟩
    rw [this]; exact Int.le_refl _

/-- **loop-free, every connected cell reaches an outlet**: following the directions from a cell
connected to an outlet ends, after finitely many steps, at a cell that is an outlet and its own
downstream cell (so the cell is on no cycle); all cells on the way are connected, hence
`d8_step_allowed_cert` applies to every step. -/
theorem d8_loopfree_reaches_seed_cert (h : fillCertOk G conn elev nod seed f d8 rk = true) (c : Nat)
    (hc : Connected G conn nod seed c) :
    ∃ k, IsSeed G seed (iter (dsOf G d8) k c) ∧
      dsOf G d8 (iter (dsOf G d8) k c) = iter (dsOf G d8) k c ∧
      ∀ m, m ≤ k → Connected G conn nod seed (iter (dsOf G d8) m c) := by
  have hcert := fillCertOk_iff.1 h
  have key := cert_induction hcert
    (fun c => ∃ k, IsSeed G seed (iter (dsOf G d8) k c) ∧
      dsOf G d8 (iter (dsOf G d8) k c) = iter (dsOf G d8) k c ∧
      ∀ m, m ≤ k → Reached G nod seed d8 (iter (dsOf G d8) m c))
    (fun c hr h0 => ⟨0, reached_pit_seed hr h0, dsOf_pit h0, fun m hm => by
      have : m = 0 := by omega
      subst this; exact hr⟩)
    (fun c hr _ _ ⟨k, hs, hfix, hall⟩ => ⟨k + 1, hs, hfix, fun m hm => by
      cases m with
      | zero => exact hr
      | succ m => exact hall m (by omega)⟩)
  obtain ⟨k, hs, hfix, hall⟩ := key c ((reached_iff_connected_cert h c).2 hc)
  exact ⟨k, hs, hfix, fun m hm => (reached_iff_connected_cert h _).1 (hall m hm)⟩

/-- the filled surface drains everywhere: from every connected cell the direction chain is a
neighbour path to an outlet along which the filled elevation never rises -/
theorem filled_surface_drains_cert (h : fillCertOk G conn elev nod seed f d8 rk = true) (c : Nat)
    (hc : Connected G conn nod seed c) : Drains G conn nod seed f c := by
  have hcert := fillCertOk_iff.1 h
  refine cert_induction hcert (Drains G conn nod seed f)
    (fun c hr h0 => Drains.base c (reached_pit_seed hr h0))
    (fun c hr h0 _ ih => ?_) c ((reached_iff_connected_cert h c).2 hc)
  obtain ⟨hn, hf, _⟩ := (cert_reached hcert hr).2.2.1 h0
  exact Drains.step c _ hn (by omega) ih

/-- **filling an already filled surface changes no elevation**: any accepted output `f2` for the
input surface `f` (itself an accepted output for `elev`, same mask, connectivity and outlets)
equals `f` on the whole raster. -/
theorem idempotent_cert {f2 : Array Int} {d82 rk2 : Array Nat}
    (h1 : fillCertOk G conn elev nod seed f d8 rk = true)
    (h2 : fillCertOk G conn f nod seed f2 d82 rk2 = true) (c : Nat) (hc : c < G.n) :
    f2[c]! = f[c]! := by
  have hc2 := fillCertOk_iff.1 h2
  cases hn : nod[c]! with
  | true => exact (cert_nod hc2 hc hn).1
  | false =>
    by_cases hr : Reached G nod seed d82 c
    · have hconn := (reached_iff_connected_cert h2 c).1 hr
      exact filled_fix_cert h2 c (filled_surface_drains_cert h1 c hconn)
    · exact cert_unreached hc2 ⟨hc, hn⟩ hr

/-! ### the outlet sets -/

/-- **`get_edge`**: the model of `gis_utils.get_edge(~nodata_mask, structure)` marks exactly the
valid cells on the raster border or with a neighbour (in the chosen connectivity) that is not valid -/
theorem getEdge_edge (G : Grid) (conn : Nat) (nod : Array Bool) (c : Nat) (hc : c < G.n) :
    (getEdge G conn nod)[c]! = true ↔ IsEdge G conn nod c := getEdge_spec G conn nod c hc

/-- `outlets='edge'`: the model starts from exactly the edge cells of the valid area -/
theorem seedsOf_edge (G : Grid) (conn : Nat) (elev : Array Int) (nod s : Array Bool)
    (h : seedsOf G conn elev nod none false = some s) : EdgeSeeds G conn nod s := by
  simp only [seedsOf, seeds0] at h
  injection h with h
  subst h
  exact fun c hc => getEdge_spec G conn nod c hc

/-- `outlets='min'`: the model starts from the single lowest edge cell (first in row-major order
among equally low ones) -/
theorem seedsOf_min_edge (G : Grid) (conn : Nat) (elev : Array Int) (nod s : Array Bool)
    (h : seedsOf G conn elev nod none true = some s) : MinSeed G conn elev nod s := by
  obtain ⟨m, hm, hq, hmin, hs⟩ := seedsOf_min G conn elev nod none s h
  simp only [seeds0] at hq hmin
  exact ⟨m, hm, (getEdge_spec G conn nod m hm).1 hq,
    fun c hc he => hmin c hc ((getEdge_spec G conn nod c hc).2 he), hs⟩

/-- user outlets: the model starts from exactly the listed cells; with `outlets='min'` in addition,
from the lowest listed cell (`seedsOf_min`) -/
theorem seedsOf_user (G : Grid) (conn : Nat) (elev : Array Int) (nod s : Array Bool) (pits : List Nat)
    (h : seedsOf G conn elev nod (some pits) false = some s) :
    ∀ c, c < G.n → (s[c]! = true ↔ c ∈ pits) := by
  simp only [seedsOf, seeds0] at h
  injection h with h
  subst h
  intro c hc
  unfold userSeeds
  rw [userSeeds_fold]
  simp [hc]

/-- **with `outlets='edge'` every valid cell is connected to an outlet**, so the minimax
characterisation, the never-uphill network and the reach-an-outlet statement cover the whole
valid area -/
theorem edge_mode_total_cert (h : fillCertOk G conn elev nod seed f d8 rk = true)
    (hseed : EdgeSeeds G conn nod seed) (c : Nat) (hv : Valid G nod c) :
    (∀ p, Path G conn nod seed c p → f[c]! ≤ pathMax elev p) ∧
    (∃ p, Path G conn nod seed c p ∧ pathMax elev p = f[c]!) ∧
    ∃ k, IsEdge G conn nod (iter (dsOf G d8) k c) ∧
      dsOf G d8 (iter (dsOf G d8) k c) = iter (dsOf G d8) k c := by
  have hc := edge_all_connected G conn nod seed hseed c hv
  obtain ⟨h1, h2⟩ := fillCert_sound h c hc
  obtain ⟨k, hs, hfix, _⟩ := d8_loopfree_reaches_seed_cert h c hc
  exact ⟨h1, h2, k, (hseed _ hs.1).1 hs.2, hfix⟩

/-- the heap's tuple order `(r, c)` is the order of the flat index (used by the model's heap) -/
theorem rc_lex_iff {ncol r1 c1 r2 c2 : Nat} (h1 : c1 < ncol) (h2 : c2 < ncol) :
    (r1 < r2 ∨ (r1 = r2 ∧ c1 < c2)) ↔ r1 * ncol + c1 < r2 * ncol + c2 := by
  have key : ∀ a b ca cb, ca < ncol → a < b → a * ncol + ca < b * ncol + cb := by
    intro a b ca cb hca hab
    have : (a + 1) * ncol ≤ b * ncol := Nat.mul_le_mul_right _ hab
    rw [Nat.add_mul, Nat.one_mul] at this
    omega
  constructor
  · rintro (h | ⟨rfl, h⟩)
    · exact key _ _ _ _ h1 h
    · omega
  · intro h
    rcases Nat.lt_trichotomy r1 r2 with hr | hr | hr
    · exact Or.inl hr
    · subst hr; exact Or.inr ⟨rfl, by omega⟩
    · have := key _ _ c2 c1 h2 hr; omega

/-- the neighbour loop of the model enumerates exactly the declarative neighbours -/
theorem nbr_loop_exact {i j : Nat} (hi : i < G.n) :
    Adj G conn i j ↔ ∃ o, o ∈ offsets conn ∧ o ≠ (0, 0) ∧ shift G i o.1 o.2 = some j :=
  adj_iff_shift hi


/-! ### algorithm level (second stage): the model of `fill_depressions` itself, all inputs

Hypotheses: the arrays have the raster's size and user outlets are valid cells. No certificate
hypothesis; that the run ends with an empty heap (`fin = true`) is `fillModel_terminates`. -/

/-- **the loop of the model always ends with an empty heap** within its fuel `n + 1` (every cell is
pushed at most once): whenever the model returns, its third component is `true` -/
theorem fillModel_terminates {pits : Option (List Nat)} {minMode : Bool} {fin : Bool}
    (hN : nod.size = G.n) (hE : elev.size = G.n)
    (h : fillModel G conn elev nod pits minMode = some (f, d8, fin)) : fin = true :=
  fillModel_fin hN hE h

/-- the model returns `none` (the code's `IndexError` from `heappop` on an empty heap) only with
`outlets='min'` and no candidate outlet at all -/
theorem fillModel_none_iff {pits : Option (List Nat)} {minMode : Bool} :
    fillModel G conn elev nod pits minMode = none ↔
      (minMode = true ∧ initHeap G elev (seeds0 G conn nod pits) = []) := by
  unfold fillModel seedsOf
  cases minMode with
  | false => simp
  | true =>
    simp only [if_true, true_and]
    cases hq : initHeap G elev (seeds0 G conn nod pits) <;> simp

/-- **`fill_model_cert`**: every output of the priority flood is accepted by the certificate
(loop invariant `Inv` in `Proofs/C06Inv.lean`: monotone pop levels, every cell pushed once, popped
cells have all neighbours visited) -/
theorem fill_model_cert {pits : Option (List Nat)} {minMode : Bool} {fin : Bool}
    (hN : nod.size = G.n) (hE : elev.size = G.n)
    (hpits : ∀ l, pits = some l → ∀ p, p ∈ l → p < G.n → nod[p]! = false)
    (h : fillModel G conn elev nod pits minMode = some (f, d8, fin)) :
    ∃ seed rk, seedsOf G conn elev nod pits minMode = some seed ∧
      fillCertOk G conn elev nod seed f d8 rk = true := by
  have hfin' := fillModel_terminates hN hE h
  subst hfin'
  obtain ⟨seed, s, rk, hseed, hSV, I, hf, hd, hfin⟩ := fillModel_inv hN hE hpits h
  have hq : s.q = [] := List.isEmpty_iff.1 hfin.symm
  subst hf hd
  exact ⟨seed, _, hseed, fillCertOk_iff.2 (inv_final I hq hSV)⟩

/-- **the property for the model, all inputs**: with the outlet set `seed` the run started from
(edge cells / lowest edge cell / user cells: `seedsOf_edge`, `seedsOf_min_edge`, `seedsOf_user`),
the filled surface is the minimax spill level on every connected cell, the directions lead every
connected cell to an outlet, nothing goes uphill, nothing is lowered, nodata is untouched. -/
theorem fillModel_sound {pits : Option (List Nat)} {minMode : Bool} {fin : Bool}
    (hN : nod.size = G.n) (hE : elev.size = G.n)
    (hpits : ∀ l, pits = some l → ∀ p, p ∈ l → p < G.n → nod[p]! = false)
    (h : fillModel G conn elev nod pits minMode = some (f, d8, fin)) :
    ∃ seed, seedsOf G conn elev nod pits minMode = some seed ∧
      (∀ c, Connected G conn nod seed c →
        (∀ p, Path G conn nod seed c p → f[c]! ≤ pathMax elev p) ∧
        (∃ p, Path G conn nod seed c p ∧ pathMax elev p = f[c]!) ∧
        (∃ k, IsSeed G seed (iter (dsOf G d8) k c) ∧
          dsOf G d8 (iter (dsOf G d8) k c) = iter (dsOf G d8) k c) ∧
        (dsOf G d8 c ≠ c → Nbr G conn nod c (dsOf G d8 c))) ∧
      (∀ c, c < G.n → f[dsOf G d8 c]! ≤ f[c]! ∧ elev[c]! ≤ f[c]! ∧
        (nod[c]! = true → f[c]! = elev[c]! ∧ d8[c]! = 247)) := by
  obtain ⟨seed, rk, hseed, hcert⟩ := fill_model_cert hN hE hpits h
  refine ⟨seed, hseed, fun c hc => ?_, fun c hc => ?_⟩
  · obtain ⟨h1, h2⟩ := fillCert_sound hcert c hc
    obtain ⟨k, hk1, hk2, _⟩ := d8_loopfree_reaches_seed_cert hcert c hc
    exact ⟨h1, h2, ⟨k, hk1, hk2⟩, fun h0 => (d8_step_allowed_cert hcert c hc h0).1⟩
  · exact ⟨never_uphill_cert hcert c hc, filled_ge_cert hcert c hc,
      fun hn => nodata_untouched_cert hcert c hc hn⟩

/-- **filling an already filled surface changes no elevation — for the model**, all three outlet
modes (for `min`: the lowest edge cell of the filled surface is the same cell, `seedsOf_min_stable`) -/
theorem fillModel_idempotent {pits : Option (List Nat)} {minMode : Bool} {f2 : Array Int}
    {d82 : Array Nat} {fin fin2 : Bool} (hN : nod.size = G.n) (hE : elev.size = G.n)
    (hpits : ∀ l, pits = some l → ∀ p, p ∈ l → p < G.n → nod[p]! = false)
    (h1 : fillModel G conn elev nod pits minMode = some (f, d8, fin))
    (h2 : fillModel G conn f nod pits minMode = some (f2, d82, fin2)) (c : Nat) (hc : c < G.n) :
    f2[c]! = f[c]! := by
  obtain ⟨_, s, _, _, _, I, hf, _, _⟩ := fillModel_inv hN hE hpits h1
  have hF : f.size = G.n := by rw [hf]; exact I.sized.2.2.1
  obtain ⟨seed1, rk1, hs1, c1⟩ := fill_model_cert hN hE hpits h1
  obtain ⟨seed2, rk2, hs2, c2⟩ := fill_model_cert hN hF hpits h2
  have : seed1 = seed2 := by
    cases minMode with
    | false =>
      simp only [seedsOf, Bool.false_eq_true, if_false, Option.some.injEq] at hs1 hs2
      rw [← hs1, ← hs2]
    | true =>
      have hst := seedsOf_min_stable (e2 := f) hs1 (fun c hc _ => filled_ge_cert c1 c hc)
        (fun c hc hs => cert_L2 (fillCertOk_iff.1 c1) ⟨hc, hs⟩)
      rw [hst] at hs2
      injection hs2
  subst this
  exact idempotent_cert c1 c2 c hc

/-- the outlet chosen by `outlets='min'` does not move when the surface is filled -/
theorem min_outlet_stable {pits : Option (List Nat)} {fin : Bool} (hN : nod.size = G.n)
    (hE : elev.size = G.n) (hpits : ∀ l, pits = some l → ∀ p, p ∈ l → p < G.n → nod[p]! = false)
    (h1 : fillModel G conn elev nod pits true = some (f, d8, fin)) :
    seedsOf G conn f nod pits true = seedsOf G conn elev nod pits true := by
  obtain ⟨seed1, rk1, hs1, c1⟩ := fill_model_cert hN hE hpits h1
  rw [hs1]
  exact seedsOf_min_stable (e2 := f) hs1 (fun c hc _ => filled_ge_cert c1 c hc)
    (fun c hc hs => cert_L2 (fillCertOk_iff.1 c1) ⟨hc, hs⟩)

/-- nodata untouched, never below the input — for the model, without even the `fin` hypothesis -/
theorem fillModel_nodata_ge {pits : Option (List Nat)} {minMode : Bool} {fin : Bool}
    (hn : nod.size = G.n) (h : fillModel G conn elev nod pits minMode = some (f, d8, fin)) (c : Nat)
    (hc : c < G.n) :
    (nod[c]! = true → f[c]! = elev[c]! ∧ d8[c]! = 247) ∧ elev[c]! ≤ f[c]! :=
  fillModel_safe hn h c hc

/-! ### `elv_max`: outlets only at edge cells at or below `elv_max` (model `fillModelE`) -/

/-- the restricted initial outlets are exactly the edge cells with elevation `≤ elv_max` -/
theorem edgeBelow_edge (m : Int) (c : Nat) (hc : c < G.n) :
    (edgeBelow G conn elev nod m)[c]! = true ↔ (IsEdge G conn nod c ∧ elev[c]! ≤ m) :=
  edgeBelow_spec m c hc

/-- the model raises `ValueError` (returns `none` for the initial outlets) exactly when `idxs_pit` is
absent, `elv_max` is given and no edge cell lies at or below it -/
theorem elvMax_valueError_iff {pits : Option (List Nat)} {elvMax : Option Int} :
    seeds0E G conn elev nod pits elvMax = none ↔
      ∃ m, pits = none ∧ elvMax = some m ∧ ¬ ∃ c, c < G.n ∧ IsEdge G conn nod c ∧ elev[c]! ≤ m :=
  seeds0E_none

/-- **all clauses of the property hold with `elv_max` too**: the model's run from the restricted
outlets ends with an empty heap and its output is accepted by the certificate for that outlet set
(so `fillCert_sound`, `never_uphill_cert`, ... apply with `seed` = the restricted set) -/
theorem fillModelE_cert {pits : Option (List Nat)} {minMode : Bool} {elvMax : Option Int} {fin : Bool}
    (hN : nod.size = G.n) (hE : elev.size = G.n)
    (hpits : ∀ l, pits = some l → ∀ p, p ∈ l → p < G.n → nod[p]! = false)
    (h : fillModelE G conn elev nod pits minMode elvMax = .ok (f, d8, fin)) :
    fin = true ∧ ∃ seed rk, seedsOfE G conn elev nod pits minMode elvMax = .ok seed ∧
      fillCertOk G conn elev nod seed f d8 rk = true := by
  obtain ⟨h1, seed, rk, h2, h3⟩ := fillModelE_cert_aux hN hE hpits h
  exact ⟨h1, seed, rk, h2, fillCertOk_iff.2 h3⟩

/-- without `elv_max` the extended model is `fillModel` -/
theorem fillModelE_no_elvMax (pits : Option (List Nat)) (minMode : Bool) :
    fillModelE G conn elev nod pits minMode none =
      match fillModel G conn elev nod pits minMode with
      | none => .error .indexError
      | some r => .ok r :=
  fillModelE_none pits minMode

/-! ### `max_depth >= 0` (model `fillModelDepth`, loop for loop as of /repo 463c4a4)

Proved for all inputs: the invariants (`fillDepth_invariants`, `fillModelDepth_safe`), the measure
(`fillDepth_measure`), termination given a bound on the number of too-deep events
(`fillModelDepth_terminates_of_events`), coincidence with the unlimited fill when no depression
reaches `max_depth` (`fillModelDepth_eq_unlimited`), and - closing the former open item - the lemma
`too_deep_once` (every cell has at most one too-deep event per run) with its consequence
`fillModelDepth_total`: the loop ends with an empty heap within `fuelD = 12 n + 1` pops on EVERY input
(any seeds, any nodata mask, any `max_depth`, also negative), and more fuel changes nothing
(`fillLoopD_fuel_irrelevant`).

Why `too_deep_once` holds although pop levels are not monotone and cells are re-opened, popped and
pushed several times (`Proofs/C06Once.lean`): call a cell *touched* once it is queued. Invariant:
(a) a touched cell has all valid cells of its window touched, or still has a heap entry, or is being
popped right now; (b) a touched cell that is not done (= re-opened) lies in the window of some heap
entry whose level is not too deep for it, or is still to be visited by the current pop at a level that
is not too deep for it. Heap entries have levels `elev <= z`, `z - elev` not too deep, and the popped
level is the minimum, so by (b) a visit of a re-opened cell is never too deep: a too-deep event only
hits an untouched cell, and touches it. (a) is what re-establishes (b) when an event re-opens done
cells: such a cell is next to the (untouched) event cell, so it still has its own heap entry - or is
the popped cell itself. -/

/-- **the measure of the depth-limited loop**: `potD` = heap size + number of cells that are not
done. Every iteration of `while len(q) > 0` lowers it by at least one, except that each too-deep
event may add up to 10 (one push, at most nine re-opened cells). Hence, as long as the heap is not
empty after `fuel` iterations, `fuel + potD ≤ potD₀ + 10 · (too-deep events so far)`; the number of
events never decreases. -/
theorem fillDepth_measure {md : Int} (fuel : Nat) (s : StD) (hs : SizedD G s) :
    s.ev ≤ (fillLoopD G conn elev nod md fuel s).ev ∧
    ((fillLoopD G conn elev nod md fuel s).q ≠ [] →
      fuel + potD G (fillLoopD G conn elev nod md fuel s) + 10 * s.ev ≤
        potD G s + 10 * (fillLoopD G conn elev nod md fuel s).ev) :=
  potD_loop fuel s hs

/-- **termination of `fill_depressions(max_depth >= 0)` given at most `n` too-deep events**: then the
loop ends with an empty heap within `12 n + 1` pops (the initial potential is at most `2 n`) -/
theorem fillModelDepth_terminates_of_events {pits : Option (List Nat)} {minMode : Bool}
    {elvMax : Option Int} {md : Int} {fin : Bool} {ev : Nat} {evc : Array Nat}
    (hN : nod.size = G.n) (hE : elev.size = G.n)
    (h : fillModelDepth G conn elev nod pits minMode elvMax md = .ok (f, d8, fin, ev, evc))
    (hev : ev ≤ G.n) : fin = true :=
  fillModelDepth_fin_of_events hN hE h hev

/-- **`too_deep_once`**: in every run of the depth-limited fill every cell has at most one too-deep
event, hence there are at most `n` events. No hypothesis on seeds (user outlets may even be nodata
cells), on `max_depth` (any integer) or on the result (`fin` is not assumed). -/
theorem too_deep_once {pits : Option (List Nat)} {minMode : Bool} {elvMax : Option Int} {md : Int}
    {fin : Bool} {ev : Nat} {evc : Array Nat} (hN : nod.size = G.n) (hE : elev.size = G.n)
    (h : fillModelDepth G conn elev nod pits minMode elvMax md = .ok (f, d8, fin, ev, evc)) :
    (∀ c : Nat, evc[c]! ≤ 1) ∧ ev ≤ G.n :=
  fillModelDepth_once hN hE h

/-- the same for every intermediate state (after any number `fuel` of pops, from any seed set): at
most one event per cell; events + never-queued cells `≤ n` (an event always hits a never-queued cell) -/
theorem too_deep_once_state {md : Int} {seed : Array Bool} (fuel : Nat) (hN : nod.size = G.n)
    (hE : elev.size = G.n) (hS : seed.size = G.n) :
    (∀ c : Nat, (fillLoopD G conn elev nod md fuel (initStateD G elev nod seed)).evc[c]! ≤ 1) ∧
    (fillLoopD G conn elev nod md fuel (initStateD G elev nod seed)).ev +
      unq G.n (fillLoopD G conn elev nod md fuel (initStateD G elev nod seed)).queued ≤ G.n :=
  too_deep_once_loop fuel hN hE hS

/-- **`fillModelDepth_total`: `fill_depressions(max_depth >= 0)` terminates on every input**: whenever
the model returns, the loop has ended with an empty heap within its fuel `fuelD = 12 n + 1` (the model
never runs out of fuel); the only other outcomes are the two errors of the outlet selection
(`ValueError` for `elv_max`, `IndexError` for `outlets='min'` without candidates) -/
theorem fillModelDepth_total {pits : Option (List Nat)} {minMode : Bool} {elvMax : Option Int} {md : Int}
    {fin : Bool} {ev : Nat} {evc : Array Nat} (hN : nod.size = G.n) (hE : elev.size = G.n)
    (h : fillModelDepth G conn elev nod pits minMode elvMax md = .ok (f, d8, fin, ev, evc)) :
    fin = true :=
  fillModelDepth_terminates_of_events hN hE h (too_deep_once hN hE h).2

/-- the fuel is irrelevant: with any fuel `≥ 12 n + 1` the loop ends with an empty heap and in the
same state, i.e. the fuelled model *is* the `while len(q) > 0` loop -/
theorem fillLoopD_fuel_irrelevant {md : Int} {seed : Array Bool} (hN : nod.size = G.n)
    (hE : elev.size = G.n) (hS : seed.size = G.n) (fuel : Nat) (hf : fuelD G ≤ fuel) :
    (fillLoopD G conn elev nod md fuel (initStateD G elev nod seed)).q = [] ∧
    fillLoopD G conn elev nod md fuel (initStateD G elev nod seed) =
      fillLoopD G conn elev nod md (fuelD G) (initStateD G elev nod seed) := by
  refine ⟨fillLoopD_empty hN hE hS fuel hf, ?_⟩
  obtain ⟨k, rfl⟩ : ∃ k, fuel = fuelD G + k := ⟨fuel - fuelD G, by omega⟩
  exact fillLoopD_stable _ _ (fillLoopD_empty hN hE hS _ (Nat.le_refl _)) k

/-- **invariants of every state of every depth-limited run** (after any number of pops): nodata cells
are never pushed (no heap entry is a nodata cell), never queued, never re-opened, keep their elevation
and the code 247; valid cells are never coded 247, never lowered, never raised by `md` or more -/
theorem fillDepth_invariants {md : Int} {seed : Array Bool} (fuel : Nat) (hN : nod.size = G.n)
    (hE : elev.size = G.n) (hS : seed.size = G.n)
    (hSV : ∀ c : Nat, c < G.n → seed[c]! = true → nod[c]! = false) :
    SafeD G elev nod md (fillLoopD G conn elev nod md fuel (initStateD G elev nod seed)) :=
  safeD_loop fuel _ (sizedD_init hN hE hS) (safeD_init hN hSV)

/-- the same for the returned rasters: nodata untouched and coded 247, valid cells never 247,
`elev ≤ f`, and `f = elev` or `f - elev < max_depth` (cells of depressions deeper than `max_depth`
are not raised to the pour point; with `max_depth = 0` nothing is raised) -/
theorem fillModelDepth_invariants {pits : Option (List Nat)} {minMode : Bool} {elvMax : Option Int}
    {md : Int} {fin : Bool} {ev : Nat} {evc : Array Nat}
    (hN : nod.size = G.n) (hE : elev.size = G.n)
    (hpits : ∀ l, pits = some l → ∀ p, p ∈ l → p < G.n → nod[p]! = false)
    (h : fillModelDepth G conn elev nod pits minMode elvMax md = .ok (f, d8, fin, ev, evc))
    (c : Nat) (hc : c < G.n) :
    (nod[c]! = true → f[c]! = elev[c]! ∧ d8[c]! = 247) ∧ (nod[c]! = false → d8[c]! ≠ 247) ∧
    elev[c]! ≤ f[c]! ∧ (f[c]! = elev[c]! ∨ f[c]! - elev[c]! < md) :=
  fillModelDepth_safe hN hE hpits h c hc

/-- **no depression as deep as `max_depth` ⇒ the unlimited result**: if the unlimited fill raises no
cell by `md` or more, `fillModelDepth` returns exactly the unlimited output, terminates, and sees no
too-deep event -/
theorem fillModelDepth_eq_unlimited {pits : Option (List Nat)} {minMode : Bool} {elvMax : Option Int}
    {md : Int} {f0 : Array Int} {d80 : Array Nat} {fin0 : Bool}
    (hN : nod.size = G.n) (hE : elev.size = G.n)
    (hpits : ∀ l, pits = some l → ∀ p, p ∈ l → p < G.n → nod[p]! = false)
    (h0 : fillModelE G conn elev nod pits minMode elvMax = .ok (f0, d80, fin0))
    (hdepth : ∀ c, c < G.n → f0[c]! - elev[c]! < md) :
    fillModelDepth G conn elev nod pits minMode elvMax md =
      .ok (f0, d80, true, 0, Array.replicate G.n 0) :=
  fillModelDepth_eq_unlimited_aux hN hE hpits h0 hdepth

/-! #### what the depth option guarantees

Intended full statement (brief): *cells of depressions deeper than `max_depth` keep their original
elevation, and every other guarantee of `fill_model_cert` holds on the remaining cells*, i.e. with
`seed' = outlets ∪ too-deep cells`

    theorem fillModelDepth_cert : fillModelDepth ... = .ok (f, d8, fin, ev, evc) →
      ∃ rk, fillCertOk G conn elev nod seed' f d8 rk = true

This is FALSE for the code as it is (and for its model), see the two `example`s below - reported as a
finding, not worked around:
* the popped cell `i0` is re-opened when a too-deep neighbour is met at an offset BEFORE `(0, 0)` in the
  neighbour loop (NW, N, NE, W); the loop then visits `i0` itself, marks it done and writes the code
  `_us[1, 1] = 0`: `i0` ends as a pit although it is neither an outlet nor too deep (and it may even
  be raised). With the too-deep neighbour at a later offset (E, SW, S, SE) `i0` drains into it instead:
  the output is not mirror-symmetric.
* a filled cell that was re-directed can stay raised above `max (elev c) (f (ds c))`.
What IS proved for every input (`fillModelDepth_guarantees_partial`): termination, at most one event
per cell, nodata untouched, nothing lowered, nothing raised by `max_depth` or more, and the outlets and
the too-deep cells (the local minima whose pour point lies `max_depth` or more above them) keep their
input elevation, and every direction goes to an allowed valid neighbour. Missing for more (never
uphill along `d8`, loop-freeness - both hold in every explored case): an order argument for the
non-monotone pop sequence; not attempted. -/

/-- **the outlets and the too-deep cells keep their input elevation**: a cell that had its too-deep
event is never filled afterwards although it may be re-opened and visited again (every later visit
comes from a level at or below its own elevation); the same for the outlets. No hypothesis on the
outlets or on `max_depth`. -/
theorem fillModelDepth_deep_cells_keep {pits : Option (List Nat)} {minMode : Bool} {elvMax : Option Int}
    {md : Int} {fin : Bool} {ev : Nat} {evc : Array Nat} (hN : nod.size = G.n) (hE : elev.size = G.n)
    (h : fillModelDepth G conn elev nod pits minMode elvMax md = .ok (f, d8, fin, ev, evc)) :
    ∃ seed, seedsOfE G conn elev nod pits minMode elvMax = .ok seed ∧
      ∀ c, c < G.n → (seed[c]! = true ∨ 1 ≤ evc[c]!) → f[c]! = elev[c]! :=
  fillModelDepth_keep hN hE h

/-- the same in every intermediate state, and cells never queued are untouched -/
theorem fillDepth_keep_state {md : Int} {seed : Array Bool} (fuel : Nat) (hN : nod.size = G.n)
    (hE : elev.size = G.n) (hS : seed.size = G.n) (c : Nat) (hc : c < G.n)
    (h : seed[c]! = true ∨ 1 ≤ (fillLoopD G conn elev nod md fuel (initStateD G elev nod seed)).evc[c]! ∨
      (fillLoopD G conn elev nod md fuel (initStateD G elev nod seed)).queued[c]! = false) :
    (fillLoopD G conn elev nod md fuel (initStateD G elev nod seed)).f[c]! = elev[c]! :=
  pin_keep_loop fuel hN hE hS c hc h

/-- **every direction of the depth-limited fill goes to an allowed valid neighbour**: a valid cell with
a non-zero code decodes (`core_d8` decoding `dsOf`) to a different valid cell that is its neighbour in
the chosen connectivity (the cell from whose pop it was last visited) -/
theorem fillModelDepth_step_allowed {pits : Option (List Nat)} {minMode : Bool} {elvMax : Option Int}
    {md : Int} {fin : Bool} {ev : Nat} {evc : Array Nat} (hN : nod.size = G.n) (hE : elev.size = G.n)
    (hpits : ∀ l, pits = some l → ∀ p, p ∈ l → p < G.n → nod[p]! = false)
    (h : fillModelDepth G conn elev nod pits minMode elvMax md = .ok (f, d8, fin, ev, evc))
    (c : Nat) (hc : c < G.n) (hn : nod[c]! = false) (h0 : d8[c]! ≠ 0) :
    Nbr G conn nod c (dsOf G d8 c) :=
  fillModelDepth_step_nbr hN hE hpits h c hc hn h0

/-- **the guarantees of `fill_depressions(max_depth >= 0)` that hold on every input** (partial, see
above): the run terminates (`fin`), every cell is too deep at most once, nodata cells are untouched and
coded 247, valid cells are never coded 247, no cell is lowered, no cell is raised by `max_depth` or
more, outlets and too-deep cells are not raised at all, every direction goes to an allowed valid
neighbour. -/
theorem fillModelDepth_guarantees_partial {pits : Option (List Nat)} {minMode : Bool}
    {elvMax : Option Int} {md : Int} {fin : Bool} {ev : Nat} {evc : Array Nat}
    (hN : nod.size = G.n) (hE : elev.size = G.n)
    (hpits : ∀ l, pits = some l → ∀ p, p ∈ l → p < G.n → nod[p]! = false)
    (h : fillModelDepth G conn elev nod pits minMode elvMax md = .ok (f, d8, fin, ev, evc)) :
    fin = true ∧ ev ≤ G.n ∧
    ∃ seed, seedsOfE G conn elev nod pits minMode elvMax = .ok seed ∧
      ∀ c, c < G.n →
        evc[c]! ≤ 1 ∧
        (nod[c]! = true → f[c]! = elev[c]! ∧ d8[c]! = 247) ∧ (nod[c]! = false → d8[c]! ≠ 247) ∧
        elev[c]! ≤ f[c]! ∧ (f[c]! = elev[c]! ∨ f[c]! - elev[c]! < md) ∧
        ((seed[c]! = true ∨ 1 ≤ evc[c]!) → f[c]! = elev[c]!) ∧
        (nod[c]! = false → d8[c]! ≠ 0 → Nbr G conn nod c (dsOf G d8 c)) := by
  obtain ⟨h1, h2⟩ := too_deep_once hN hE h
  obtain ⟨seed, hs, hk⟩ := fillModelDepth_deep_cells_keep hN hE h
  refine ⟨fillModelDepth_total hN hE h, h2, seed, hs, fun c hc => ?_⟩
  obtain ⟨a, b, d, e⟩ := fillModelDepth_invariants hN hE hpits h c hc
  exact ⟨h1 c, a, b, d, e, hk c hc, fillModelDepth_step_allowed hN hE hpits h c hc⟩

-- non-vacuity of `fillModelDepth_deep_cells_keep`: the staircase above (cells 1, 2, 3 are too deep, are
-- re-opened and visited again, and keep 6, 3, 0); and a raster where a shallow dent (cell 9: 4 -> 5) IS
-- filled while the deep cell 6 (elevation 0, pour point 5, max_depth 3) is not
example : (match fillModelDepth ⟨3, 5⟩ 8 #[9, 9, 9, 9, 9, 5, 0, 5, 5, 4, 9, 9, 9, 9, 9] (Array.replicate 15 false)
      (some [5]) false none 3 with
    | .ok (f, _, fin, ev, evc) => (f.toList, fin, ev, evc.toList)
    | .error _ => ([], false, 0, [])) =
    ([9, 9, 9, 9, 9, 5, 0, 5, 5, 5, 9, 9, 9, 9, 9], true, 1,
     [0, 0, 0, 0, 0, 0, 1, 0, 0, 0, 0, 0, 0, 0, 0]) := by decide +kernel

-- non-vacuity of `fillModelDepth_step_allowed` on the regression raster's output (nodata at cell 6)
example : ∀ c, c < 15 →
    (#[false, false, false, false, false, false, true, false, false, false, false, false, false, false, false] : Array Bool)[c]! = false →
    (#[0, 2, 4, 8, 16, 64, 247, 0, 16, 32, 64, 128, 64, 32, 32] : Array Nat)[c]! ≠ 0 →
    Nbr ⟨3, 5⟩ 8 #[false, false, false, false, false, false, true, false, false, false, false, false, false, false, false] c
      (dsOf ⟨3, 5⟩ #[0, 2, 4, 8, 16, 64, 247, 0, 16, 32, 64, 128, 64, 32, 32] c) := by decide +kernel

-- FINDING (refutes the intended full statement): 1x3 raster [0, 1, 4], outlet = cell 2, max_depth 4.
-- Cell 0 is too deep (4 - 0 >= 4) when cell 1 (filled 1 -> 4) is popped; it precedes the centre in the
-- neighbour loop, so cell 1 is re-opened and visits itself: it stays raised to 4 AND ends as a pit (code 0)
-- next to the lower cell 0. The certificate for the outlets {0, 2} rejects the output (cell 1 is neither an
-- outlet nor has a direction, so it would have to be untouched; this clause does not involve the rank).
-- The real code returns the same: fill_depressions(np.array([[0., 1., 4.]]), idxs_pit=[2], max_depth=4.0)
-- = ([[0, 4, 4]], [[0, 0, 0]]); the mirror image [[4, 1, 0]], idxs_pit=[0] gives ([[4, 1, 0]], [[0, 1, 0]]).
example : (match fillModelDepth ⟨1, 3⟩ 8 #[0, 1, 4] (Array.replicate 3 false) (some [2]) false none 4 with
    | .ok (f, d8, fin, ev, evc) => (f.toList, d8.toList, fin, ev, evc.toList)
    | .error _ => ([], [], false, 0, [])) = ([0, 4, 4], [0, 0, 0], true, 1, [1, 0, 0]) := by decide +kernel
example : fillCertOk ⟨1, 3⟩ 8 #[0, 1, 4] (Array.replicate 3 false) #[true, false, true]
    #[0, 4, 4] #[0, 0, 0] (rankOf ⟨1, 3⟩ #[0, 0, 0]) = false := by decide +kernel
example : (match fillModelDepth ⟨1, 3⟩ 8 #[4, 1, 0] (Array.replicate 3 false) (some [0]) false none 4 with
    | .ok (f, d8, fin, ev, evc) => (f.toList, d8.toList, fin, ev, evc.toList)
    | .error _ => ([], [], false, 0, [])) = ([4, 1, 0], [0, 1, 0], true, 1, [0, 0, 1]) := by decide +kernel

-- non-vacuity: the regression raster of /repo 463c4a4 (nodata at cell 6 next to the depression at
-- cell 7, single outlet 0, max_depth 1): cell 7 is too deep once, stays at its elevation and becomes
-- a pit (code 0); the nodata cell keeps 247; with max_depth 10 the result is the unlimited fill
example : (match fillModelDepth ⟨3, 5⟩ 8 #[0, 5, 5, 5, 5, 5, 0, 1, 5, 5, 5, 5, 5, 5, 5]
      #[false, false, false, false, false, false, true, false, false, false, false, false, false, false, false]
      none true none 1 with
    | .ok (f, d8, fin, ev, evc) => (f.toList, d8.toList, fin, ev, evc.toList)
    | .error _ => ([], [], false, 0, [])) =
    ([0, 5, 5, 5, 5, 5, 0, 1, 5, 5, 5, 5, 5, 5, 5],
     [0, 2, 4, 8, 16, 64, 247, 0, 16, 32, 64, 128, 64, 32, 32], true, 1,
     [0, 0, 0, 0, 0, 0, 0, 1, 0, 0, 0, 0, 0, 0, 0]) := by decide +kernel
example : (match fillModelDepth ⟨3, 5⟩ 8 #[0, 5, 5, 5, 5, 5, 0, 1, 5, 5, 5, 5, 5, 5, 5]
      #[false, false, false, false, false, false, true, false, false, false, false, false, false, false, false]
      none true none 10 with
    | .ok (f, d8, fin, ev, _) => (f.toList, d8.toList, fin, ev)
    | .error _ => ([], [], false, 0)) =
    ([0, 5, 5, 5, 5, 5, 0, 5, 5, 5, 5, 5, 5, 5, 5],
     [0, 16, 16, 16, 16, 64, 247, 32, 32, 32, 64, 32, 64, 32, 32], true, 0) := by decide +kernel
-- too_deep_once / fillModelDepth_total, non-vacuity: a 1x5 staircase descending from the single outlet
-- (cell 0) with max_depth 1: three cells are too deep one after the other (each re-opens the previous
-- one, which is then visited again from below and NOT too deep a second time); all of 9, 6, 3 end up
-- draining into the pit 0 at the far end; the run ends with an empty heap
example : (match fillModelDepth ⟨1, 5⟩ 8 #[9, 6, 3, 0, 9] (Array.replicate 5 false) (some [0]) false none 1 with
    | .ok (f, d8, fin, ev, evc) => (f.toList, d8.toList, fin, ev, evc.toList)
    | .error _ => ([], [], false, 0, [])) =
    ([9, 6, 3, 0, 9], [1, 1, 1, 0, 16], true, 3, [0, 1, 1, 1, 0]) := by decide +kernel
-- two adjacent deep cells hit in the same neighbour loop (the second event re-opens the first cell)
example : (match fillModelDepth ⟨3, 4⟩ 8 #[6, 5, 5, 5, 5, 0, 0, 5, 5, 5, 5, 5] (Array.replicate 12 false) none false none 2 with
    | .ok (_, d8, fin, ev, evc) => (d8.toList, fin, ev, evc.toList)
    | .error _ => ([], false, 0, [])) =
    ([2, 4, 8, 8, 1, 0, 16, 16, 128, 64, 32, 32], true, 2, [0, 0, 0, 0, 0, 1, 1, 0, 0, 0, 0, 0]) := by
  decide +kernel
-- elv_max = 3 keeps only the notch (cell 3) as outlet; elv_max = 2 leaves none: ValueError
example : (match fillModelE ⟨3, 3⟩ 8 #[5, 4, 5, 3, 1, 5, 5, 5, 5] (Array.replicate 9 false) none false (some 3) with
    | .ok (f, d8, fin) => (f.toList, d8.toList, fin)
    | .error _ => ([], [], false)) =
    ([5, 4, 5, 3, 3, 5, 5, 5, 5], [4, 8, 8, 0, 16, 16, 64, 32, 32], true) := by decide +kernel
example : (match fillModelE ⟨3, 3⟩ 8 #[5, 4, 5, 3, 1, 5, 5, 5, 5] (Array.replicate 9 false) none false (some 2) with
    | .ok _ => false
    | .error e => decide (e = .valueError)) = true := by decide +kernel

/-! ### ties to the code tables regenerated from /repo -/

/-- the model's `_us` table is the code's, in the order of the neighbour loop -/
theorem usCode_table : (offsets 8).map (fun o => usCode o.1 o.2) = Generated.d8Us := by decide

/-- the model's decoding agrees with `core_d8.drdc` on every code of the D8 alphabet -/
theorem drdc_table : ∀ code ∈ Generated.d8All, drdc code = Generated.d8Drdc[code]! := by decide

/-- the direction written at a neighbour points back to the popped cell -/
theorem drdc_usCode : ∀ o ∈ offsets 8, drdc (usCode o.1 o.2) = (-o.1, -o.2) := by decide

/-! ### non-vacuity -/
-- 3x3, pit (1) in the middle, rim 5 with a notch 3 at the west side, 8-connectivity, all edge
-- cells are outlets: the centre is filled to 3 and drains west (code 16)
example : fillCertOk ⟨3, 3⟩ 8 #[5, 5, 5, 3, 1, 5, 5, 5, 5] (Array.replicate 9 false)
    #[true, true, true, true, false, true, true, true, true]
    #[5, 5, 5, 3, 3, 5, 5, 5, 5] #[4, 8, 8, 0, 16, 16, 64, 32, 32] #[1, 1, 2, 0, 1, 2, 1, 1, 2] = true := by
  decide +kernel
-- ... and the model computes exactly this output
example : (fillModel ⟨3, 3⟩ 8 #[5, 5, 5, 3, 1, 5, 5, 5, 5] (Array.replicate 9 false) none false).map
    (fun r => (r.1.toList, r.2.1.toList, r.2.2)) =
    some ([5, 5, 5, 3, 3, 5, 5, 5, 5], [4, 8, 8, 0, 16, 16, 64, 32, 32], true) := by decide +kernel
-- a wrong level (4 instead of 3) is rejected
example : fillCertOk ⟨3, 3⟩ 8 #[5, 5, 5, 3, 1, 5, 5, 5, 5] (Array.replicate 9 false)
    #[true, true, true, true, false, true, true, true, true]
    #[5, 5, 5, 3, 4, 5, 5, 5, 5] #[4, 8, 8, 0, 16, 16, 64, 32, 32] #[1, 1, 2, 0, 1, 2, 1, 1, 2] = false := by
  decide +kernel

end Pf.C06
