import PfVerif.Generated.Funcs
import PfVerif.Model.C09
import PfVerif.Model.C10
import PfVerif.Model.C01_ext
import PfVerif.Proofs.C01_fn
/-! # C01_fn - translator tie for the straight-line integer functions

`Generated/Funcs.lean` is rewritten from /repo's working tree on every run (`harness/extract_fn.py`: Python `//` =
`Int.fdiv`, `%` = `Int.fmod`, statement by statement). Each obligation below says that the *generated* def equals the
*hand-written* model function the other properties' theorems are about (C09 / C10: `subidx2idx`, `inD8`, `cellEdge`,
`cellOf`; C01_ext: `downstreamIdx`), on the documented domain (non-negative indices and sizes, uint8 codes) - for ALL
such inputs, not for sampled ones. The proofs normalise `fdiv`/`fmod` on casts to `Nat` `/`, `%` and close with
`grind` / `omega`, so an algebraically equivalent rewrite of the Python source still goes through; a different formula
makes the named theorem fail to build (check.py then searches a failing input with the escalated budget).
A function that leaves the translated fragment is emitted as `unsupported_<name>`; `Fn.<name>` is then unknown and
the obligation fails as well. -/
namespace Pf.C01fn
open Pf Pf.Generated Pf.FnBridge

/-- closes `b₁ = b₂` for Boolean combinations of linear comparisons over opaque atoms, whatever the shape of the
two sides (`and`/`or`/`not`, `if`, early `return False`, `abs`) -/
macro "fn_bool" : tactic => `(tactic| first
  | grind
  | (rw [Bool.eq_iff_iff]; simp; omega)
  | grind (splits := 40)
  | (rw [Bool.eq_iff_iff]; simp; grind (splits := 40)))
/-- closes linear-arithmetic goals over opaque products, up to commutativity of the products -/
macro "fn_arith" : tactic => `(tactic| first | rfl | omega | grind)

/-! ## `upscale.subidx_2_idx`, `in_d8`, `cell_edge` -/

/-- generated `subidx_2_idx` = the model of C09 (`Pf.subidx2idx`), all non-negative arguments (zero sizes included:
`Int.fdiv x 0 = 0 = x / 0`; Python raises there) -/
theorem gen_subidx_2_idx_eq_model (subidx subncol cs ncol : Nat) :
    Fn.subidx_2_idx subidx subncol cs ncol = ((Pf.subidx2idx subidx subncol cs ncol : Nat) : Int) := by
  simp only [Fn.subidx_2_idx, Pf.subidx2idx, fdiv_nat, fmod_nat]
  fn_arith

/-- … = the model of C10 (`C10.cellOf`, other argument order) -/
theorem gen_subidx_2_idx_eq_model_C10 (subidx subncol cs ncol : Nat) :
    Fn.subidx_2_idx subidx subncol cs ncol = ((Pf.C10.cellOf subncol cs ncol subidx : Nat) : Int) := by
  simp only [Fn.subidx_2_idx, Pf.C10.cellOf, fdiv_nat, fmod_nat]
  fn_arith

/-- … = the division-free declarative definition: the coarse cell whose block of pixels contains `subidx` -/
theorem gen_subidx_2_idx_eq_spec (subidx subncol cs ncol : Nat) (h1 : 0 < subncol) (h2 : 0 < cs) :
    Fn.subidx_2_idx subidx subncol cs ncol = ((Pf.FnSpec.cellOf subidx subncol cs ncol : Nat) : Int) := by
  simp only [Fn.subidx_2_idx, Pf.FnSpec.cellOf, fdiv_nat, fmod_nat, FnSpec.blockOf_eq_div _ _ h1,
    FnSpec.blockOf_eq_div _ _ h2, FnSpec.offsetOf_eq_mod _ _ h1]
  fn_arith

example : Fn.subidx_2_idx 57 10 3 4 = 6 := by decide
example : Pf.FnSpec.cellOf 57 10 3 4 = 6 := by decide

/-- generated `in_d8` = the model of C09 (`Pf.inD8`) -/
theorem gen_in_d8_eq_model (idx0 idxds ncol : Nat) :
    Fn.in_d8 idx0 idxds ncol = Pf.inD8 idx0 idxds ncol := by
  simp only [Fn.in_d8, Pf.inD8, Pf.absDiff, Fn.pyAbs, fdiv_nat, fmod_nat]
  generalize idx0 / ncol = r0
  generalize idxds / ncol = r1
  generalize idx0 % ncol = c0
  generalize idxds % ncol = c1
  fn_bool

/-- … = the declarative definition: some offset in `{-1,0,1}²` leads from the (row, column) of one to the other -/
theorem gen_in_d8_eq_spec (idx0 idxds ncol : Nat) (h : 0 < ncol) :
    Fn.in_d8 idx0 idxds ncol = Pf.FnSpec.near idx0 idxds ncol := by
  simp only [Fn.in_d8, Pf.FnSpec.near, Fn.pyAbs, fdiv_nat, fmod_nat, FnSpec.blockOf_eq_div _ _ h,
    FnSpec.offsetOf_eq_mod _ _ h, List.any_cons, List.any_nil]
  generalize ((idx0 / ncol : Nat) : Int) = r0
  generalize ((idxds / ncol : Nat) : Int) = r1
  generalize ((idx0 % ncol : Nat) : Int) = c0
  generalize ((idxds % ncol : Nat) : Int) = c1
  fn_bool

example : Fn.in_d8 11 17 5 = true ∧ Fn.in_d8 11 18 5 = false ∧ Fn.in_d8 9 10 5 = false := by decide

/-- generated `cell_edge` = the model of C09 (`Pf.cellEdge`) -/
theorem gen_cell_edge_eq_model (subidx subncol cs : Nat) :
    Fn.cell_edge subidx subncol cs = Pf.cellEdge subidx subncol cs := by
  simp only [Fn.cell_edge, Pf.cellEdge, fdiv_nat, fmod_nat]
  generalize (subidx / subncol) % cs = ri
  generalize (subidx % subncol) % cs = ci
  fn_bool

/-- … = the model of C10 (`C10.cellEdge`) -/
theorem gen_cell_edge_eq_model_C10 (subidx subncol cs : Nat) :
    Fn.cell_edge subidx subncol cs = Pf.C10.cellEdge subncol cs subidx := by
  simp only [Fn.cell_edge, Pf.C10.cellEdge, fdiv_nat, fmod_nat]
  generalize (subidx / subncol) % cs = ri
  generalize (subidx % subncol) % cs = ci
  fn_bool

example : Fn.cell_edge 44 10 3 = false ∧ Fn.cell_edge 45 10 3 = true ∧ Fn.cell_edge 34 10 3 = true := by decide

/-! ## `core_d8._downstream_idx`, `core_ldd._downstream_idx` -/

/-- the extracted `drdc` tables equal the model's `drdc` on **all** 256 uint8 values (the obligation of `Props/C01`
covers the legal alphabet), and no entry is the "raised" marker -/
theorem gen_d8_drdc_eq_model : ∀ v, v < 256 → Generated.d8Drdc.getD v (99, 99) = Fd.d8Drdc v := by decide +kernel
theorem gen_ldd_drdc_eq_model : ∀ v, v < 256 → Generated.lddDrdc.getD v (99, 99) = Fd.lddDrdc v := by decide +kernel

/-- generated `core_d8._downstream_idx` = the model of C01_ext (`Fd.downstreamIdxD8`) for every shape, every code
array read at a cell with a uint8 value, `mv` canonicalised to `nrow * ncol` as the harness does -/
theorem gen_d8_downstream_idx_eq_model (nrow ncol : Nat) (codes : Array Nat) (idx0 : Nat) (hc : codes[idx0]! < 256) :
    Fn.d8_downstream_idx idx0 (fun i => codes[i.toNat]!) (nrow, ncol) ((nrow * ncol : Nat) : Int)
      = ((Fd.downstreamIdxD8 nrow ncol codes idx0 : Nat) : Int) := by
  simp only [Fn.d8_downstream_idx, Fn.d8DrdcAt, Fd.downstreamIdxD8, Fd.downstreamIdx, fdiv_nat, fmod_nat,
    Int.toNat_natCast, gen_d8_drdc_eq_model _ hc]
  generalize Fd.d8Drdc codes[idx0]! = d
  generalize ((idx0 / ncol : Nat) : Int) + d.1 = r
  generalize ((idx0 % ncol : Nat) : Int) + d.2 = c
  by_cases h : (r ≥ 0 ∧ r < nrow ∧ c ≥ 0 ∧ c < ncol)
  · have h1 := inb_toNat r c ncol h.1 h.2.2.1
    have h2 := mul_ncol_nonneg r ncol h.1
    have h3 := Int.mul_comm (ncol : Int) r
    first | (simp_all; done) | (simp_all; omega) | grind
  · simp_all
    grind

theorem gen_ldd_downstream_idx_eq_model (nrow ncol : Nat) (codes : Array Nat) (idx0 : Nat) (hc : codes[idx0]! < 256) :
    Fn.ldd_downstream_idx idx0 (fun i => codes[i.toNat]!) (nrow, ncol) ((nrow * ncol : Nat) : Int)
      = ((Fd.downstreamIdxLdd nrow ncol codes idx0 : Nat) : Int) := by
  simp only [Fn.ldd_downstream_idx, Fn.lddDrdcAt, Fd.downstreamIdxLdd, Fd.downstreamIdx, fdiv_nat, fmod_nat,
    Int.toNat_natCast, gen_ldd_drdc_eq_model _ hc]
  generalize Fd.lddDrdc codes[idx0]! = d
  generalize ((idx0 / ncol : Nat) : Int) + d.1 = r
  generalize ((idx0 % ncol : Nat) : Int) + d.2 = c
  by_cases h : (r ≥ 0 ∧ r < nrow ∧ c ≥ 0 ∧ c < ncol)
  · have h1 := inb_toNat r c ncol h.1 h.2.2.1
    have h2 := mul_ncol_nonneg r ncol h.1
    have h3 := Int.mul_comm (ncol : Int) r
    first | (simp_all; done) | (simp_all; omega) | grind
  · simp_all
    grind

set_option linter.unusedSimpArgs false in
/-- the out-of-raster answer is whatever `mv` the caller passes (the library passes `core._mv`) -/
theorem gen_d8_downstream_idx_mv (nrow ncol : Nat) (codes : Array Nat) (idx0 : Nat) (mv : Int)
    (hc : codes[idx0]! < 256) (hout : Fd.downstreamIdxD8 nrow ncol codes idx0 = nrow * ncol) :
    Fn.d8_downstream_idx idx0 (fun i => codes[i.toNat]!) (nrow, ncol) mv = mv := by
  have h0 := gen_d8_downstream_idx_eq_model nrow ncol codes idx0 hc
  rw [hout] at h0
  have hmul : ((nrow * ncol : Nat) : Int) = (nrow : Int) * ncol := Int.natCast_mul _ _
  simp only [Fn.d8_downstream_idx] at h0 ⊢
  generalize Int.fdiv (idx0 : Int) ncol + _ = r at *
  generalize Int.fmod (idx0 : Int) ncol + _ = c at *
  -- whichever way the source writes the bounds test (in-range first, or out-of-range with an early return): in the
  -- out-of-range branch the answer is `mv` itself; the in-range branch is impossible, because there the model (equal to the
  -- generated value for the particular `mv = nrow * ncol`, `h0`) would have answered `c + r * ncol < nrow * ncol`
  split <;> rename_i hif <;> first
    | rfl
    | (exfalso
       simp only [hif, if_true, if_false, if_pos, if_neg, not_true_eq_false, not_false_eq_true, Bool.false_eq_true] at h0
       simp only [Bool.and_eq_true, Bool.or_eq_true, decide_eq_true_eq, not_or, Int.not_lt, Int.not_le, ge_iff_le,
         Bool.not_eq_true, Bool.or_eq_false_iff, decide_eq_false_iff_not] at hif
       have hr : r + 1 ≤ (nrow : Int) := by omega
       have h3 : (r + 1) * (ncol : Int) ≤ nrow * ncol := Int.mul_le_mul_of_nonneg_right hr (Int.natCast_nonneg _)
       have h4 : (r + 1) * (ncol : Int) = r * ncol + ncol := by rw [Int.add_mul, Int.one_mul]
       have h5 := Int.mul_comm (ncol : Int) r
       omega)

example : Fn.d8_downstream_idx 4 (fun i => (#[0, 1, 2, 4, 8, 16, 32, 64, 128] : Array Nat)[i.toNat]!) (3, 3) 9 = 6 ∧
    Fn.d8_downstream_idx 2 (fun i => (#[0, 1, 2, 4, 8, 16, 32, 64, 128] : Array Nat)[i.toNat]!) (3, 3) 9 = 9 ∧
    Fn.ldd_downstream_idx 4 (fun i => (#[5, 5, 5, 5, 9, 5, 5, 5, 5] : Array Nat)[i.toNat]!) (3, 3) 9 = 2 := by decide

end Pf.C01fn
