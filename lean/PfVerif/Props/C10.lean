import PfVerif.Proofs.C10
import PfVerif.Proofs.C10Seg
import PfVerif.Proofs.C10Total
import PfVerif.Proofs.C10Stat
import PfVerif.Proofs.C10Lstsq
import PfVerif.Props.C11
/-! # C10 — unit catchments partition the fine grid by nearest downstream outlet pixel

All theorems quantify over every network `ds`, every downstream-first order `seq` (`Topo`, what C03
establishes for the library's cell orders and what the harness re-checks with `isTopo` on the order
actually used), every outlet vector `outs` (missing entries = `ds.size`), every weight / area / hand /
depth / data field. No bound on sizes. -/
namespace Pf.C10
open Pf

/-! ## the unit catchment map -/

/-- **label = first outlet pixel downstream** (`ucat_label`): every cell of the network carries
`1 +` the position of the first listed outlet pixel on its downstream path, `0` if a pit comes first. -/
theorem ucat_label (ds : Array Nat) (seq outs : List Nat) (w : Nat → Int)
    (htopo : Topo ds seq) (hb : ∀ i ∈ seq, i < ds.size) :
    ∀ i ∈ seq, FirstOutlet ds outs i (ucatAccum ds seq outs w).1[i]! := by
  intro i hi
  rw [ucatAccum_fst]
  exact firstValid_firstOutlet
    (fill_first_valid ds _ 0 seq htopo (fun i hi => by rw [size_mapSeed]; exact hb i hi) i hi)

/-- the relation is functional, so the label is *the* first-outlet label; in particular the model
agrees with the executable declarative walk (the oracle applied to the implementation's output)
wherever that walk terminates -/
theorem ucat_label_eq_walk (ds : Array Nat) (seq outs : List Nat) (w : Nat → Int)
    (htopo : Topo ds seq) (hb : ∀ i ∈ seq, i < ds.size) (fuel : Nat) :
    ∀ i ∈ seq, ∀ v, labelWalk ds outs fuel i = some v → (ucatAccum ds seq outs w).1[i]! = v :=
  fun i hi v hv => (ucat_label ds seq outs w htopo hb i hi).unique (labelWalk_sound ds outs fuel i v hv)

/-- cells outside the network keep their seed: the position of the cell in the outlet vector if it
is listed, else 0 -/
theorem ucat_label_outside (ds : Array Nat) (seq outs : List Nat) (w : Nat → Int)
    (htopo : Topo ds seq) (hb : ∀ i ∈ seq, i < ds.size) :
    ∀ i, i ∉ seq → (ucatAccum ds seq outs w).1[i]! = if i < ds.size then lastPos1 outs i else 0 := by
  intro i hi
  rw [(ucat_inv ds seq outs w htopo hb).2.2.1 i hi, mapSeed_get]

/-- `ucat_area` and `ucat_volume` produce the same map (it does not depend on the weights) -/
theorem ucat_map_indep (ds : Array Nat) (seq outs : List Nat) (w w' : Nat → Int) :
    (ucatAccum ds seq outs w).1 = (ucatAccum ds seq outs w').1 := by
  rw [ucatAccum_fst, ucatAccum_fst]

/-! ## areas and volumes are sums over exactly the labelled cells -/

theorem ucat_map_of_seed {ds : Array Nat} {seq outs : List Nat} {w : Nat → Int}
    (htopo : Topo ds seq) (hb : ∀ i ∈ seq, i < ds.size) {a : Nat}
    (h : (mapSeed ds.size outs)[a]! ≠ 0) :
    (ucatAccum ds seq outs w).1[a]! = (mapSeed ds.size outs)[a]! := by
  by_cases ha : a ∈ seq
  · rw [ucatAccum_fst]
    have hr := (sweepDown_rec ds (gFillNd 0) (mapSeed ds.size outs) seq htopo
      (fun i hi => by rw [size_mapSeed]; exact hb i hi)).1 a ha
    rw [hr]
    simp [gFillNd, h]
  · exact (ucat_inv ds seq outs w htopo hb).2.2.1 a ha

/-- **sum clause** (`ucat_area_sum` / `ucat_volume_sum`): for an outlet pixel `o` whose LAST position in the
outlet vector is `k` (in particular: an outlet pixel listed once), the accumulated value is the sum of
the cell weights over exactly the cells of the raster that carry label `k + 1`. -/
theorem ucat_acc_sum (ds : Array Nat) (seq outs : List Nat) (w : Nat → Int)
    (htopo : Topo ds seq) (hb : ∀ i ∈ seq, i < ds.size)
    (k o : Nat) (hk : outs[k]? = some o) (ho : o < ds.size)
    (hlast : ∀ q : Nat, outs[q]? = some o → q ≤ k) :
    (ucatAccum ds seq outs w).2[k]! =
      sumIf (List.range ds.size) (fun i => (ucatAccum ds seq outs w).1[i]! == (k : Int) + 1) w := by
  obtain ⟨hL, _, hU, hA⟩ := ucat_inv ds seq outs w htopo hb
  have hklt : k < outs.length := (List.getElem?_eq_some_iff.mp hk).1
  rw [hA k hklt, accSeed_get _ _ _ k o hk, if_pos (Nat.ne_of_lt ho)]
  obtain ⟨M, hM⟩ : ∃ M, M = (ucatAccum ds seq outs w).1 := ⟨_, rfl⟩
  rw [← hM] at hL hU ⊢
  -- the seed of the outlet pixel is k + 1, and so is its label
  have hseed_o : (mapSeed ds.size outs)[o]! = (k : Int) + 1 := by
    rw [mapSeed_get, if_pos ho]
    rcases lastPos1_cases outs o with ⟨_, h2⟩ | ⟨p, hp, hv, hmx⟩
    · exact absurd (List.mem_of_getElem? hk) h2
    · have h1 := hlast p hp
      have h2 := hmx k hk
      have : p = k := by omega
      rw [hv, this]
  have hM_o : M[o]! = (k : Int) + 1 := by
    rw [hM, ucat_map_of_seed htopo hb (by rw [hseed_o]; omega), hseed_o]
  -- a cell with a non-zero seed and label k + 1 is the outlet pixel itself
  have honly : ∀ a, (mapSeed ds.size outs)[a]! ≠ 0 → M[a]! = (k : Int) + 1 → a = o := by
    intro a hs hl
    rw [hM, ucat_map_of_seed htopo hb hs] at hl
    obtain ⟨_, p, hp, hv, _⟩ := seed_nonzero hs
    have : p = k := by rw [hv] at hl; omega
    rw [this, hk] at hp
    exact (Option.some.inj hp).symm
  unfold sumIf
  have hperm : (((List.range ds.size).filter fun i => M[i]! == (k : Int) + 1).map w).sum =
      ((o :: seq.filter fun i => (mapSeed ds.size outs)[i]! == 0 && M[i]! == (k : Int) + 1).map w).sum := by
    apply sum_eq_of_mem_iff
    · exact List.Pairwise.filter _ List.nodup_range
    · rw [List.nodup_cons]
      refine ⟨?_, List.Pairwise.filter _ htopo.nodup⟩
      simp only [List.mem_filter, Bool.and_eq_true, beq_iff_eq, not_and]
      intro _ h0
      rw [hseed_o] at h0; omega
    · intro a
      simp only [List.mem_filter, List.mem_range, List.mem_cons, Bool.and_eq_true, beq_iff_eq]
      constructor
      · rintro ⟨_, hl⟩
        by_cases hs : (mapSeed ds.size outs)[a]! = 0
        · by_cases ha : a ∈ seq
          · exact Or.inr ⟨ha, hs, hl⟩
          · rw [hU a ha, hs] at hl; omega
        · exact Or.inl (honly a hs hl)
      · rintro (rfl | ⟨ha, _, hl⟩)
        · exact ⟨ho, hM_o⟩
        · exact ⟨hb a ha, hl⟩
  rw [hperm]
  simp

/-- a missing outlet keeps the initial `-9999` -/
theorem ucat_acc_missing (ds : Array Nat) (seq outs : List Nat) (w : Nat → Int)
    (htopo : Topo ds seq) (hb : ∀ i ∈ seq, i < ds.size)
    (k : Nat) (hk : outs[k]? = some ds.size) :
    (ucatAccum ds seq outs w).2[k]! = -9999 := by
  obtain ⟨hL, _, _, hA⟩ := ucat_inv ds seq outs w htopo hb
  have hklt : k < outs.length := (List.getElem?_eq_some_iff.mp hk).1
  rw [hA k hklt, accSeed_get _ _ _ k _ hk, sumIf_false]
  · simp
  · intro i _
    rcases hL i with h | ⟨p, c, hp, hc, hv, _⟩
    · have : ¬ ((0 : Int) = (k : Int) + 1) := by omega
      simp [h, this]
    · have : ¬ ((p : Int) + 1 = (k : Int) + 1) := by
        intro h
        have : p = k := by omega
        rw [this, hk] at hp
        have := Option.some.inj hp
        omega
      simp [hv, this]

/-- no cell carries the label of a missing outlet or of an outlet entry that is listed again later:
every label is `1 +` the LAST position of a listed, in-range outlet pixel -/
theorem ucat_label_range (ds : Array Nat) (seq outs : List Nat) (w : Nat → Int)
    (htopo : Topo ds seq) (hb : ∀ i ∈ seq, i < ds.size) (i : Nat) :
    (ucatAccum ds seq outs w).1[i]! = 0 ∨
    ∃ p c : Nat, outs[p]? = some c ∧ c < ds.size ∧ (ucatAccum ds seq outs w).1[i]! = (p : Int) + 1 ∧
      ∀ q : Nat, outs[q]? = some c → q ≤ p :=
  (ucat_inv ds seq outs w htopo hb).1 i

/-- **outlet pixel listed twice** (what the code does): the map keeps the LAST position (`ucat_acc_sum`
applies to that entry); an earlier entry `k` of the same pixel `o` reports the pixel's own weight
only, and no cell of the raster carries label `k + 1`. -/
theorem ucat_acc_shadowed (ds : Array Nat) (seq outs : List Nat) (w : Nat → Int)
    (htopo : Topo ds seq) (hb : ∀ i ∈ seq, i < ds.size)
    (k q o : Nat) (hk : outs[k]? = some o) (ho : o < ds.size) (hq : outs[q]? = some o) (hkq : k < q) :
    (ucatAccum ds seq outs w).2[k]! = w o ∧
    ∀ i : Nat, (ucatAccum ds seq outs w).1[i]! ≠ (k : Int) + 1 := by
  obtain ⟨hL, _, _, hA⟩ := ucat_inv ds seq outs w htopo hb
  have hklt : k < outs.length := (List.getElem?_eq_some_iff.mp hk).1
  have hno : ∀ i : Nat, (ucatAccum ds seq outs w).1[i]! ≠ (k : Int) + 1 := by
    intro i hi
    rcases hL i with h | ⟨p, c, hp, _, hv, hmx⟩
    · rw [h] at hi; omega
    · have hpk : p = k := by rw [hv] at hi; omega
      rw [hpk, hk] at hp
      have hc : o = c := Option.some.inj hp
      have := hmx q (hc ▸ hq)
      omega
  refine ⟨?_, hno⟩
  rw [hA k hklt, accSeed_get _ _ _ k o hk, if_pos (Nat.ne_of_lt ho), sumIf_false]
  · simp
  · intro i _
    have := hno i
    simp [this]

/-- the 1-based last position of the pixel at entry `k` is `k + 1` iff no later entry lists it again -/
theorem lastPos1_eq_iff (outs : List Nat) (k o : Nat) (hk : outs[k]? = some o) :
    lastPos1 outs o = (k : Int) + 1 ↔ ∀ q : Nat, outs[q]? = some o → q ≤ k := by
  rcases lastPos1_cases outs o with ⟨_, h2⟩ | ⟨p, hp, hv, hmx⟩
  · exact absurd (List.mem_of_getElem? hk) h2
  · constructor
    · intro h q hq
      have : p = k := by rw [hv] at h; omega
      exact this ▸ hmx q hq
    · intro h
      have h1 := h p hp
      have h2 := hmx k hk
      have : p = k := by omega
      rw [hv, this]

/-- **totals** (`ucat_area_total`), duplicates allowed: the values reported for the non-missing outlet
entries that are the last entry of their pixel add up to the total weight of all labelled cells. -/
theorem ucat_acc_total (ds : Array Nat) (seq outs : List Nat) (w : Nat → Int)
    (htopo : Topo ds seq) (hb : ∀ i ∈ seq, i < ds.size)
    (hrange : ∀ o ∈ outs, o ≤ ds.size) :
    sumIf (List.range outs.length)
        (fun k => outs[k]! != ds.size && lastPos1 outs outs[k]! == (k : Int) + 1)
        (fun k => (ucatAccum ds seq outs w).2[k]!) =
      sumIf (List.range ds.size) (fun i => (ucatAccum ds seq outs w).1[i]! != 0) w := by
  obtain ⟨M, hM⟩ : ∃ M, M = (ucatAccum ds seq outs w).1 := ⟨_, rfl⟩
  have hL := ucat_label_range ds seq outs w htopo hb
  rw [← hM] at hL ⊢
  -- prefix statement
  have key : ∀ m, m ≤ outs.length →
      sumIf (List.range m) (fun k => outs[k]! != ds.size && lastPos1 outs outs[k]! == (k : Int) + 1)
        (fun k => (ucatAccum ds seq outs w).2[k]!) =
      sumIf (List.range ds.size) (fun i => decide (1 ≤ M[i]! ∧ M[i]! ≤ (m : Int))) w := by
    intro m
    induction m with
    | zero =>
      intro _
      rw [sumIf_false (p := fun i => decide (1 ≤ M[i]! ∧ M[i]! ≤ ((0 : Nat) : Int)))]
      · simp [sumIf]
      · intro i _
        have : ¬ (1 ≤ M[i]! ∧ M[i]! ≤ ((0 : Nat) : Int)) := by omega
        exact decide_eq_false this
    | succ m ih =>
      intro hm
      have hmlt : m < outs.length := by omega
      rw [List.range_succ, sumIf_append, sumIf_singleton, ih (by omega)]
      rw [sumIf_or (r := fun i => decide (1 ≤ M[i]! ∧ M[i]! ≤ ((m + 1 : Nat) : Int)))
        (p := fun i => decide (1 ≤ M[i]! ∧ M[i]! ≤ (m : Int)))
        (q := fun i => M[i]! == (m : Int) + 1) w]
      · congr 1
        have hget : outs[m]? = some outs[m] := List.getElem?_eq_getElem hmlt
        have hbang : outs[m]! = outs[m] := by simp [getElem!_def, hget]
        -- when nothing carries label m + 1 the right-hand sum vanishes
        have hnone : (∀ i : Nat, M[i]! ≠ (m : Int) + 1) →
            0 = sumIf (List.range ds.size) (fun i => M[i]! == (m : Int) + 1) w := by
          intro hno
          symm
          apply sumIf_false
          intro i _
          have := hno i
          simp [this]
        by_cases hv : outs[m] = ds.size
        · -- missing outlet: nothing carries its label
          rw [hbang, hv]
          simp only [bne_self_eq_false, Bool.false_and, Bool.false_eq_true, if_false]
          apply hnone
          intro i hi
          rcases hL i with h | ⟨p, c, hp, hc, hvv, _⟩
          · rw [h] at hi; omega
          · have : p = m := by rw [hvv] at hi; omega
            rw [this, hget] at hp
            have := Option.some.inj hp
            omega
        · have hlt : outs[m] < ds.size := by
            have := hrange outs[m] (List.getElem_mem hmlt)
            omega
          rw [hbang]
          by_cases hl : lastPos1 outs outs[m] = (m : Int) + 1
          · have hcond : (outs[m] != ds.size && lastPos1 outs outs[m] == (m : Int) + 1) = true := by
              simp [hv, hl]
            rw [if_pos hcond, hM]
            exact ucat_acc_sum ds seq outs w htopo hb m outs[m] hget hlt
              ((lastPos1_eq_iff outs m outs[m] hget).mp hl)
          · -- the pixel is listed again later: excluded, and nothing carries label m + 1
            have hl' : (lastPos1 outs outs[m] == (m : Int) + 1) = false := by simpa using hl
            simp only [hl', Bool.and_false, Bool.false_eq_true, if_false]
            apply hnone
            intro i hi
            rcases hL i with h | ⟨p, c, hp, hc, hvv, hmx⟩
            · rw [h] at hi; omega
            · have hpm : p = m := by rw [hvv] at hi; omega
              rw [hpm, hget] at hp
              have hc' : outs[m] = c := Option.some.inj hp
              exact hl ((lastPos1_eq_iff outs m outs[m] hget).mpr (hc' ▸ (hpm ▸ hmx)))
      · intro i _
        rw [Bool.eq_iff_iff]
        simp only [decide_eq_true_eq, Bool.or_eq_true, beq_iff_eq]
        push_cast
        omega
      · intro i _
        simp only [decide_eq_true_eq, beq_iff_eq]
        omega
  rw [key outs.length (Nat.le_refl _)]
  apply sumIf_congr
  intro i _
  rcases hL i with h | ⟨p, c, hp, _, hv, _⟩
  · simp [h]
  · have hplt : p < outs.length := (List.getElem?_eq_some_iff.mp hp).1
    have h1 : 1 ≤ M[i]! ∧ M[i]! ≤ (outs.length : Int) := by omega
    have h2 : M[i]! ≠ 0 := by omega
    simp [h1, h2]

/-- **totals**, pairwise distinct outlet pixels: the values reported for all non-missing outlets add up
to the total weight of all labelled cells. -/
theorem ucat_acc_total_distinct (ds : Array Nat) (seq outs : List Nat) (w : Nat → Int)
    (htopo : Topo ds seq) (hb : ∀ i ∈ seq, i < ds.size)
    (hrange : ∀ o ∈ outs, o ≤ ds.size)
    (hdist : ∀ p q o : Nat, outs[p]? = some o → outs[q]? = some o → o < ds.size → p = q) :
    sumIf (List.range outs.length) (fun k => outs[k]! != ds.size) (fun k => (ucatAccum ds seq outs w).2[k]!) =
      sumIf (List.range ds.size) (fun i => (ucatAccum ds seq outs w).1[i]! != 0) w := by
  rw [← ucat_acc_total ds seq outs w htopo hb hrange]
  apply sumIf_congr
  intro k hk
  have hklt : k < outs.length := by simpa using hk
  have hget : outs[k]? = some outs[k] := List.getElem?_eq_getElem hklt
  have hbang : outs[k]! = outs[k] := by simp [getElem!_def, hget]
  rw [hbang]
  by_cases hv : outs[k] = ds.size
  · simp [hv]
  · have hlt : outs[k] < ds.size := by
      have := hrange outs[k] (List.getElem_mem hklt)
      omega
    have : lastPos1 outs outs[k] = (k : Int) + 1 :=
      (lastPos1_eq_iff outs k outs[k] hget).mpr (fun q hq => by rw [hdist q k outs[k] hq hget hlt]; omega)
    simp [this]

/-- `ucat_volume`: row `d` of the flood-volume table is the sum of `area * max 0 (depth_d - hand)` over
exactly the cells carrying the outlet's label (`ucat_volume_sum`). -/
theorem ucat_volume_sum (ds : Array Nat) (seq outs : List Nat) (hand area : Array Int) (depths : List Int)
    (htopo : Topo ds seq) (hb : ∀ i ∈ seq, i < ds.size)
    (d : Nat) (hd : d < depths.length)
    (k o : Nat) (hk : outs[k]? = some o) (ho : o < ds.size)
    (hlast : ∀ q : Nat, outs[q]? = some o → q ≤ k) :
    ((ucatVolume ds seq outs hand area depths).2[d]!)[k]! =
      sumIf (List.range ds.size) (fun i => (ucatVolume ds seq outs hand area depths).1[i]! == (k : Int) + 1)
        (fun i => area[i]! * max 0 (depths[d] - hand[i]!)) := by
  have h1 : (ucatVolume ds seq outs hand area depths).2[d]! =
      (ucatAccum ds seq outs (volW area hand depths[d])).2 := by
    simp [ucatVolume, hd]
  have h2 : (ucatVolume ds seq outs hand area depths).1 =
      (ucatAccum ds seq outs (volW area hand depths[d])).1 := ucat_map_indep ..
  rw [h1, h2]
  exact ucat_acc_sum ds seq outs _ htopo hb k o hk ho hlast

/-! ### non-vacuity -/
-- chain 2 → 1 → 0 (pit), branch 3 → 1, 4 off the network; outlets: cell 1, a missing entry, pit 0
example : ucatArea #[0, 0, 1, 1, 5] [0, 1, 2, 3] [1, 5, 0] #[10, 20, 30, 40, 50] =
    (#[3, 1, 1, 1, 0], #[90, -9999, 10]) := by decide
example : ucatVolume #[0, 0, 1, 1, 5] [0, 1, 2, 3] [1, 5, 0] #[0, 1, 2, 5, 0] #[1, 1, 2, 1, 1] [2, 4] =
    (#[3, 1, 1, 1, 0], [#[1, -9999, 2], #[7, -9999, 4]]) := by decide
example : labelWalk #[0, 0, 1, 1, 5] [1, 5, 0] 6 3 = some 1 := by decide


/-! ## derived outlet pixels (`subgrid.outlets`) -/

/-- `dmm_exitcell` / `eam_repcell`: the pixel stored for coarse cell `c` is missing, or a valid pixel
of coarse cell `c` that is a pit or a candidate (cell edge resp. effective area) -/
theorem rep_in_cell (ds : Array Nat) (upa : Array Int) (cand : Nat → Bool)
    (subncol cellsize ncells ncol : Nat) :
    (repCell ds upa cand subncol cellsize ncells ncol).size = ncells ∧
    ∀ c, c < ncells → RepOK ds cand subncol cellsize ncol c (repCell ds upa cand subncol cellsize ncells ncol)[c]! := by
  have h := repFold_inv ds upa cand subncol cellsize ncol (List.range ds.size)
    (Array.replicate ncells ds.size, Array.replicate ncells 0)
    (fun i hi => by simpa using hi)
    (fun c hc => by
      have hc' : c < ncells := by simpa using hc
      exact Or.inl (by simp [hc']))
  simp only [Array.size_replicate] at h
  exact h

/-- **outlet pixels lie inside their coarse cell** (`outlets_in_cell`), both methods -/
theorem outlets_in_cell (ds : Array Nat) (upa : Array Int) (effare : Array Bool) (dmm : Bool)
    (subncol cellsize nrowc ncolc : Nat) (l : List Nat)
    (h : outletsModel ds upa effare dmm subncol cellsize nrowc ncolc = some l) :
    l.length = nrowc * ncolc ∧
    ∀ c o, l[c]? = some o → o = ds.size ∨ cellOf subncol cellsize ncolc o = c := by
  unfold outletsModel at h
  cases dmm with
  | true =>
    simp only [if_true, Option.some.injEq] at h
    obtain ⟨hsz, hrep⟩ := rep_in_cell ds upa (cellEdge subncol cellsize) subncol cellsize (nrowc * ncolc) ncolc
    subst h
    refine ⟨by simp [hsz], ?_⟩
    intro c o hco
    rw [Array.getElem?_toList] at hco
    have hc : c < nrowc * ncolc := by
      rw [← hsz]; exact (Array.getElem?_eq_some_iff.mp hco).1
    have ho : (repCell ds upa (cellEdge subncol cellsize) subncol cellsize (nrowc * ncolc) ncolc)[c]! = o := by
      simp [getElem!_def, hco]
    rcases hrep c hc with h1 | ⟨_, _, h3, _⟩
    · exact Or.inl (ho ▸ h1)
    · exact Or.inr (ho ▸ h3)
  | false =>
    simp only [Bool.false_eq_true, if_false] at h
    obtain ⟨hsz, hrep⟩ := rep_in_cell ds upa (fun i => effare[i]!) subncol cellsize (nrowc * ncolc) ncolc
    unfold ihuOutlets at h
    obtain ⟨hlen, hget⟩ := mapM_option_get _ _ _ h
    refine ⟨by rw [hlen, List.length_range, hsz], ?_⟩
    intro c o hco
    have hc : c < nrowc * ncolc := by
      have := (List.getElem?_eq_some_iff.mp hco).1
      rw [hlen, List.length_range, hsz] at this; exact this
    obtain ⟨b, hb1, hb2⟩ := hget c c (by simp [hsz, hc])
    rw [hco] at hb1
    have : o = b := Option.some.inj hb1
    subst this
    by_cases hm : (repCell ds upa (fun i => effare[i]!) subncol cellsize (nrowc * ncolc) ncolc)[c]! = ds.size
    · rw [if_pos hm] at hb2
      exact Or.inl (Option.some.inj hb2).symm
    · rw [if_neg hm] at hb2
      rcases hrep c hc with h1 | ⟨_, _, h3, _⟩
      · exact absurd h1 hm
      · exact Or.inr (ihuTrace_spec ds subncol cellsize ncolc c _ _ _ hb2 h3).1

/-- **default method: the pixel downstream of an outlet pixel lies in another coarse cell unless the
outlet is a pit** (`outlet_leaves`) -/
theorem outlet_leaves (ds : Array Nat) (upa : Array Int) (effare : Array Bool)
    (subncol cellsize nrowc ncolc : Nat) (l : List Nat)
    (h : outletsModel ds upa effare false subncol cellsize nrowc ncolc = some l) :
    ∀ c o, l[c]? = some o → o = ds.size ∨ ds[o]! = o ∨ cellOf subncol cellsize ncolc ds[o]! ≠ c := by
  unfold outletsModel at h
  simp only [Bool.false_eq_true, if_false] at h
  obtain ⟨hsz, hrep⟩ := rep_in_cell ds upa (fun i => effare[i]!) subncol cellsize (nrowc * ncolc) ncolc
  unfold ihuOutlets at h
  obtain ⟨hlen, hget⟩ := mapM_option_get _ _ _ h
  intro c o hco
  have hc : c < nrowc * ncolc := by
    have := (List.getElem?_eq_some_iff.mp hco).1
    rw [hlen, List.length_range, hsz] at this; exact this
  obtain ⟨b, hb1, hb2⟩ := hget c c (by simp [hsz, hc])
  rw [hco] at hb1
  have : o = b := Option.some.inj hb1
  subst this
  by_cases hm : (repCell ds upa (fun i => effare[i]!) subncol cellsize (nrowc * ncolc) ncolc)[c]! = ds.size
  · rw [if_pos hm] at hb2
    exact Or.inl (Option.some.inj hb2).symm
  · rw [if_neg hm] at hb2
    rcases hrep c hc with h1 | ⟨_, _, h3, _⟩
    · exact absurd h1 hm
    · exact Or.inr (ihuTrace_spec ds subncol cellsize ncolc c _ _ _ hb2 h3).2.1

/-- the outlet pixel of the default method lies on the flow path of the representative pixel, and
the whole stretch in between stays inside the coarse cell -/
theorem ihu_outlet_on_path (ds : Array Nat) (subncol cellsize ncol idx0 fuel s o : Nat)
    (h : ihuTrace ds subncol cellsize ncol idx0 fuel s = some o)
    (hs : cellOf subncol cellsize ncol s = idx0) :
    ∃ j, o = iterA ds j s ∧ ∀ m, m < j → ds[iterA ds m s]! ≠ iterA ds m s ∧
      cellOf subncol cellsize ncol (iterA ds (m + 1) s) = idx0 :=
  (ihuTrace_spec ds subncol cellsize ncol idx0 fuel s o h hs).2.2

/-! ## river segments -/

/-- the temporary outlet flags mark exactly the listed in-range pixels -/
theorem outletFlags_get (n : Nat) (outs : List Nat) (j : Nat) :
    (outletFlags n outs)[j]! = decide (j ∈ outs ∧ j < n) := by
  unfold outletFlags
  suffices hs : ∀ (a : Array Bool), a.size = n →
      (outs.foldl (fun a o => if o ≠ n then a.setIfInBounds o true else a) a)[j]! =
        (a[j]! || decide (j ∈ outs ∧ j < n)) by
    rw [hs _ (by simp)]
    by_cases hj : j < n <;> simp [hj]
  induction outs with
  | nil => intro a _; simp
  | cons o t ih =>
    intro a ha
    simp only [List.foldl_cons]
    rw [ih _ (by split <;> simp [ha])]
    by_cases ho : o = n
    · have hjn : ¬ (j = o ∧ j < n) := by omega
      by_cases h1 : j ∈ t <;> by_cases h2 : j < n <;> simp [ho, h1, h2] <;> omega
    · simp only [ne_eq, ho, not_false_eq_true, if_true, get!_setIfInBounds, ha, List.mem_cons]
      by_cases hoj : o = j
      · subst hoj
        by_cases h2 : o < n <;> simp [h2]
      · have : ¬ j = o := fun h => hoj h.symm
        simp [hoj, this]

/-- **segment cells, exclusive end** (`segment_cells` for average / median / slope): the cells used are
the flow path `s, nxt s, nxt² s, …, nxtᴷ s` in the chosen direction (`nxt` = downstream or main
upstream array), where `K` is the least index whose cell has no admissible next cell or whose next
cell is an outlet pixel; that `K` is unique. -/
theorem segment_cells_excl (nxt : Array Nat) (isOut : Array Bool) (mask : Option (Array Bool))
    (fuel s : Nat) (cells : List Nat) (h : exclWalk nxt isOut mask fuel s = some cells) :
    ∃ K, cells = (List.range (K + 1)).map (fun j => iterA nxt j s) ∧
      (∀ j, j < K → stopExcl nxt isOut mask (iterA nxt j s) = false) ∧
      stopExcl nxt isOut mask (iterA nxt K s) = true ∧
      ∀ K', (∀ j, j < K' → stopExcl nxt isOut mask (iterA nxt j s) = false) →
        stopExcl nxt isOut mask (iterA nxt K' s) = true → K' = K := by
  obtain ⟨K, _, hc, hpre, hstop⟩ := exclWalk_spec nxt isOut mask fuel s cells h
  refine ⟨K, hc, hpre, hstop, ?_⟩
  intro K' hpre' hstop'
  rcases Nat.lt_trichotomy K' K with h1 | h1 | h1
  · rw [hpre K' h1] at hstop'; cases hstop'
  · exact h1
  · rw [hpre' K h1] at hstop; cases hstop

/-- the walk agrees with the declarative segment found by search (the oracle applied to the
implementation's output) -/
theorem segment_cells_excl_eq_spec (nxt : Array Nat) (isOut : Array Bool) (mask : Option (Array Bool))
    (s : Nat) (cells : List Nat) (h : segExclSpec nxt isOut mask s = some cells) :
    exclWalk nxt isOut mask (nxt.size + 1) s = some cells :=
  segExclSpec_eq_walk nxt isOut mask s cells h _ (by omega)

/-- **segment end, inclusive** (`segment_cells` for the river length): the walk ends in `nxtᴷ s` for the
unique least `K` such that (`K ≥ 1` and the cell is an outlet pixel) or the cell has no admissible
next cell -/
theorem segment_end_incl (nxt : Array Nat) (isOut : Array Bool) (mask : Option (Array Bool))
    (fuel s e : Nat) (h : lenWalk nxt isOut mask fuel s = some e) :
    ∃ K, e = iterA nxt K s ∧
      (∀ j, j < K → stopInclAt nxt isOut mask s j = false) ∧
      stopInclAt nxt isOut mask s K = true ∧
      ∀ K', (∀ j, j < K' → stopInclAt nxt isOut mask s j = false) →
        stopInclAt nxt isOut mask s K' = true → K' = K := by
  obtain ⟨K, _, hc, hpre, hstop⟩ := lenWalk_spec nxt isOut mask fuel s e h
  refine ⟨K, hc, hpre, hstop, ?_⟩
  intro K' hpre' hstop'
  rcases Nat.lt_trichotomy K' K with h1 | h1 | h1
  · rw [hpre K' h1] at hstop'; cases hstop'
  · exact h1
  · rw [hpre' K h1] at hstop; cases hstop

theorem segment_end_incl_eq_spec (nxt : Array Nat) (isOut : Array Bool) (mask : Option (Array Bool))
    (s e : Nat) (h : segInclEndSpec nxt isOut mask s = some e) :
    lenWalk nxt isOut mask (nxt.size + 1) s = some e :=
  segInclEndSpec_eq_walk nxt isOut mask s e h _ (by omega)

/-- **river length** (`rivlen`): a missing outlet keeps nodata; otherwise the value is
`|distnc end − distnc start|` with `end` the inclusive segment end -/
theorem segment_length_spec (nxt : Array Nat) (outs : List Nat) (distnc : Array Int)
    (mask : Option (Array Bool)) (res : PerOutlet Int)
    (h : segLength nxt outs distnc mask = some res) (k s : Nat) (hk : outs[k]? = some s) :
    (s = nxt.size ∧ res[k]? = some none) ∨
    (s ≠ nxt.size ∧ ∃ e, lenWalk nxt (outletFlags nxt.size outs) mask (nxt.size + 1) s = some e ∧
      res[k]? = some (some ((distnc[e]! - distnc[s]!).natAbs : Int))) := by
  unfold segLength at h
  obtain ⟨_, hget⟩ := mapM_option_get _ _ _ h
  obtain ⟨b, hb1, hb2⟩ := hget k s hk
  by_cases hs : s = nxt.size
  · rw [if_pos hs] at hb2
    exact Or.inl ⟨hs, by rw [hb1, ← Option.some.inj hb2]⟩
  · rw [if_neg hs, Option.map_eq_some_iff] at hb2
    obtain ⟨e, he, hb⟩ := hb2
    exact Or.inr ⟨hs, e, he, by rw [hb1, ← hb]⟩

/-- **average** over the exclusive segment: `(Σ w·v, Σ w)` over the segment cells with `v ≠ nodata`;
nodata when the outlet is missing or the weights sum to zero -/
theorem segment_average_spec (nxt : Array Nat) (outs : List Nat) (data weights : Array Int) (nodata : Int)
    (mask : Option (Array Bool)) (res : PerOutlet (Int × Int))
    (h : segAverage nxt outs data weights nodata mask = some res) (k s : Nat) (hk : outs[k]? = some s) :
    (s = nxt.size ∧ res[k]? = some none) ∨
    (s ≠ nxt.size ∧ ∃ cells, exclWalk nxt (outletFlags nxt.size outs) mask (nxt.size + 1) s = some cells ∧
      res[k]? = some (if (avgNumDen cells data weights nodata).2 ≠ 0
        then some (avgNumDen cells data weights nodata) else none)) := by
  unfold segAverage at h
  obtain ⟨_, hget⟩ := mapM_option_get _ _ _ h
  obtain ⟨b, hb1, hb2⟩ := hget k s hk
  by_cases hs : s = nxt.size
  · rw [if_pos hs] at hb2
    exact Or.inl ⟨hs, by rw [hb1, ← Option.some.inj hb2]⟩
  · rw [if_neg hs, Option.map_eq_some_iff] at hb2
    obtain ⟨e, he, hb⟩ := hb2
    exact Or.inr ⟨hs, e, he, by rw [hb1, ← hb]⟩

/-- `avgNumDen` is the pair of declarative sums over the non-nodata cells -/
theorem avgNumDen_eq (cells : List Nat) (data weights : Array Int) (nodata : Int) :
    avgNumDen cells data weights nodata =
      ((((cells.filter fun c => data[c]! != nodata).map fun c => weights[c]! * data[c]!).sum),
       (((cells.filter fun c => data[c]! != nodata).map fun c => weights[c]!).sum)) := by
  unfold avgNumDen
  suffices hs : ∀ (a b : Int), cells.foldl (fun (vw : Int × Int) c =>
      if data[c]! = nodata then vw else (vw.1 + weights[c]! * data[c]!, vw.2 + weights[c]!)) (a, b) =
      (a + (((cells.filter fun c => data[c]! != nodata).map fun c => weights[c]! * data[c]!).sum),
       b + (((cells.filter fun c => data[c]! != nodata).map fun c => weights[c]!).sum)) by
    simpa using hs 0 0
  induction cells with
  | nil => intro a b; simp
  | cons c t ih =>
    intro a b
    simp only [List.foldl_cons]
    by_cases hc : data[c]! = nodata
    · simp [hc, ih]
    · simp only [hc, if_false, ih, List.filter_cons, bne_iff_ne, ne_eq, not_false_eq_true,
        decide_true, if_true, List.map_cons, List.sum_cons]
      refine Prod.ext ?_ ?_ <;> simp only [] <;> omega

/-- **median** over the exclusive segment -/
theorem segment_median_spec (nxt : Array Nat) (outs : List Nat) (data : Array Int) (nodata : Int)
    (mask : Option (Array Bool)) (res : PerOutlet (Option Int))
    (h : segMedian nxt outs data nodata mask = some res) (k s : Nat) (hk : outs[k]? = some s) :
    (s = nxt.size ∧ res[k]? = some none) ∨
    (s ≠ nxt.size ∧ ∃ cells, exclWalk nxt (outletFlags nxt.size outs) mask (nxt.size + 1) s = some cells ∧
      res[k]? = some (some (median2 ((cells.map fun c => data[c]!).filter (· ≠ nodata))))) := by
  unfold segMedian at h
  obtain ⟨_, hget⟩ := mapM_option_get _ _ _ h
  obtain ⟨b, hb1, hb2⟩ := hget k s hk
  by_cases hs : s = nxt.size
  · rw [if_pos hs] at hb2
    exact Or.inl ⟨hs, by rw [hb1, ← Option.some.inj hb2]⟩
  · rw [if_neg hs, Option.map_eq_some_iff] at hb2
    obtain ⟨e, he, hb⟩ := hb2
    exact Or.inr ⟨hs, e, he, by rw [hb1, ← hb]⟩

/-- **slope** over the exclusive segment (same cells as average / median, river mask included) -/
theorem segment_slope_spec (nxt : Array Nat) (outs : List Nat) (elevtn distnc : Array Int) (lstsq : Bool)
    (mask : Option (Array Bool)) (res : PerOutlet (Int × Int))
    (h : segSlope nxt outs elevtn distnc lstsq mask = some res) (k s : Nat) (hk : outs[k]? = some s) :
    (s = nxt.size ∧ res[k]? = some none) ∨
    (s ≠ nxt.size ∧ ∃ cells, exclWalk nxt (outletFlags nxt.size outs) mask (nxt.size + 1) s = some cells ∧
      res[k]? = some (some (slopeNumDen cells elevtn distnc lstsq))) := by
  unfold segSlope at h
  obtain ⟨_, hget⟩ := mapM_option_get _ _ _ h
  obtain ⟨b, hb1, hb2⟩ := hget k s hk
  by_cases hs : s = nxt.size
  · rw [if_pos hs] at hb2
    exact Or.inl ⟨hs, by rw [hb1, ← Option.some.inj hb2]⟩
  · rw [if_neg hs, Option.map_eq_some_iff] at hb2
    obtain ⟨e, he, hb⟩ := hb2
    exact Or.inr ⟨hs, e, he, by rw [hb1, ← hb]⟩

/-- **termination, direction "down"**: on a loop-free network (`Topo`) the downstream walks of all four
segment kernels return within the model's fuel `n + 1`, whatever the outlets and the mask -/
theorem segment_down_total (ds : Array Nat) (seq : List Nat) (isOut : Array Bool) (mask : Option (Array Bool))
    (htopo : Topo ds seq) (hb : ∀ i ∈ seq, i < ds.size) (s : Nat) (hs : s ∈ seq) :
    (∃ cells, exclWalk ds isOut mask (ds.size + 1) s = some cells) ∧
    (∃ e, lenWalk ds isOut mask (ds.size + 1) s = some e) := by
  obtain ⟨K, hK, hp⟩ := reaches_pit_within htopo s hs
  have hlen := seq_length_le htopo hb
  constructor
  · obtain ⟨K0, h0, h1, h2⟩ := exists_least (fun j => stopExcl ds isOut mask (iterA ds j s)) K
      (by simp [stopExcl, hp])
    exact ⟨_, exclWalk_complete ds isOut mask K0 (ds.size + 1) s (by omega) h2 h1⟩
  · obtain ⟨K0, h0, h1, h2⟩ := exists_least (stopInclAt ds isOut mask s) K
      (by simp [stopInclAt, blocked, hp])
    exact ⟨_, lenWalk_complete ds isOut mask K0 (ds.size + 1) s (by omega) h2 h1⟩

/-! ## totality: every walk of the model returns within its fuel on a loop-free network -/

/-- the array `main_upstream` returns is an upstream-link array (from C11's `mainUpstream_argmax`) -/
theorem mainUpstream_usLink (ds : Array Nat) (uparea : Array Int) (upaMin : Int) :
    UsLink ds (mainUpstream ds uparea upaMin) := by
  obtain ⟨hsz, hmain, _⟩ := Pf.C11.mainUpstream_argmax ds uparea upaMin
  refine ⟨hsz, fun c hc => ?_⟩
  rcases hmain c hc with ⟨a, _⟩ | ⟨a, b, c', _, _⟩
  · exact Or.inl a
  · exact Or.inr ⟨a, b, c'⟩

/-- **termination, direction "up"**: on a loop-free network whose order contains every valid cell, the
walks of all four segment kernels along an upstream-link array (`idxs_us_main`) return within the
model's fuel `n + 1` from every cell of the raster, whatever the outlets and the mask -/
theorem segment_up_total (ds us : Array Nat) (seq : List Nat) (isOut : Array Bool) (mask : Option (Array Bool))
    (htopo : Topo ds seq) (hb : ∀ i ∈ seq, i < ds.size)
    (hall : ∀ i, i < ds.size → ds[i]! ≠ ds.size → i ∈ seq) (hlink : UsLink ds us)
    (s : Nat) (hs : s < ds.size) :
    (∃ cells, exclWalk us isOut mask (us.size + 1) s = some cells) ∧
    (∃ e, lenWalk us isOut mask (us.size + 1) s = some e) := by
  obtain ⟨K, hK, hend⟩ := us_reaches_end htopo hall hlink s hs
  have hlen := seq_length_le htopo hb
  have hsz := hlink.1
  constructor
  · obtain ⟨K0, h0, h1, h2⟩ := exists_least (fun j => stopExcl us isOut mask (iterA us j s)) K
      (by rcases hend with h | h <;> simp [stopExcl, h])
    exact ⟨_, exclWalk_complete us isOut mask K0 (us.size + 1) s (by omega) h2 h1⟩
  · obtain ⟨K0, h0, h1, h2⟩ := exists_least (stopInclAt us isOut mask s) K
      (by rcases hend with h | h <;> simp [stopInclAt, blocked, h])
    exact ⟨_, lenWalk_complete us isOut mask K0 (us.size + 1) s (by omega) h2 h1⟩

/-- a start cell outside the network (no downstream cell) stops every downstream walk at once -/
theorem segment_offnet_total (nxt : Array Nat) (isOut : Array Bool) (mask : Option (Array Bool))
    (s : Nat) (hs : nxt[s]! = nxt.size) :
    exclWalk nxt isOut mask (nxt.size + 1) s = some [s] ∧ lenWalk nxt isOut mask (nxt.size + 1) s = some s := by
  simp [exclWalk, lenWalk, stopExcl, blocked, hs]

/-- the four segment kernels return a value for every outlet vector as soon as the two walks return
from every non-missing outlet pixel -/
theorem segment_ops_total (nxt : Array Nat) (outs : List Nat) (mask : Option (Array Bool))
    (h : ∀ s ∈ outs, s ≠ nxt.size →
      (∃ cells, exclWalk nxt (outletFlags nxt.size outs) mask (nxt.size + 1) s = some cells) ∧
      (∃ e, lenWalk nxt (outletFlags nxt.size outs) mask (nxt.size + 1) s = some e))
    (distnc data weights elevtn : Array Int) (nodata : Int) (lstsq : Bool) :
    (segLength nxt outs distnc mask).isSome = true ∧
    (segAverage nxt outs data weights nodata mask).isSome = true ∧
    (segMedian nxt outs data nodata mask).isSome = true ∧
    (segSlope nxt outs elevtn distnc lstsq mask).isSome = true := by
  refine ⟨?_, ?_, ?_, ?_⟩
  all_goals
    first | unfold segLength | unfold segAverage | unfold segMedian | unfold segSlope
    apply mapM_option_isSome
    intro s hs
    by_cases hm : s = nxt.size
    · simp [hm]
    · obtain ⟨⟨cells, hc⟩, ⟨e, he⟩⟩ := h s hs hm
      simp [hm, hc, he]

/-- **`subgrid.outlets` returns**: on a loop-free network whose order contains every valid cell both
outlet methods return (the `ihu_outlets` trace of every representative pixel ends within the fuel) -/
theorem outlets_total (ds : Array Nat) (seq : List Nat) (upa : Array Int) (effare : Array Bool) (dmm : Bool)
    (subncol cellsize nrowc ncolc : Nat)
    (htopo : Topo ds seq) (hb : ∀ i ∈ seq, i < ds.size)
    (hall : ∀ i, i < ds.size → ds[i]! ≠ ds.size → i ∈ seq) :
    (outletsModel ds upa effare dmm subncol cellsize nrowc ncolc).isSome = true := by
  unfold outletsModel
  cases dmm with
  | true => simp
  | false =>
    simp only [Bool.false_eq_true, if_false]
    obtain ⟨hsz, hrep⟩ := rep_in_cell ds upa (fun i => effare[i]!) subncol cellsize (nrowc * ncolc) ncolc
    unfold ihuOutlets
    apply mapM_option_isSome
    intro c hc
    have hc' : c < nrowc * ncolc := by rw [← hsz]; simpa using hc
    split
    · rfl
    · rename_i hm
      rcases hrep c hc' with h1 | ⟨h1, h2, _, _⟩
      · exact absurd h1 hm
      · obtain ⟨K, hK, hp⟩ := reaches_pit_within htopo _ (hall _ h1 h2)
        have hlen := seq_length_le htopo hb
        exact ihuTrace_complete ds subncol cellsize ncolc c K (ds.size + 1) _ (by omega) hp

/-- **`fixed_length_slope` returns**: both loops end within the fuel for every outlet pixel that is
missing, a cell of the network, or a raster cell outside the network -/
theorem fixed_length_slope_total (ds us : Array Nat) (seq outs : List Nat) (elevtn distnc : Array Int)
    (half : Int) (lstsq : Bool) (mask : Option (Array Bool))
    (htopo : Topo ds seq) (hb : ∀ i ∈ seq, i < ds.size)
    (hall : ∀ i, i < ds.size → ds[i]! ≠ ds.size → i ∈ seq) (hlink : UsLink ds us)
    (hout : ∀ o ∈ outs, o = ds.size ∨ o ∈ seq ∨ (o < ds.size ∧ ds[o]! = ds.size)) :
    (fixedLengthSlope ds us outs elevtn distnc half lstsq mask).isSome = true := by
  unfold fixedLengthSlope
  apply mapM_option_isSome
  intro s hs
  have hlen := seq_length_le htopo hb
  by_cases hm : s = ds.size
  · simp [hm]
  · rw [if_neg hm]
    -- the downstream loop returns a cell of the raster
    have hdown : ∃ d, flsDown ds distnc mask (distnc[s]! - half) (ds.size + 1) s = some d ∧ d < ds.size := by
      rcases hout s hs with h | h | ⟨h1, h2⟩
      · exact absurd h hm
      · obtain ⟨K, hK, hp⟩ := reaches_pit_within htopo s h
        have hsome := flsDown_complete ds distnc mask (distnc[s]! - half) K (ds.size + 1) s (by omega) (Or.inl hp)
        cases hd : flsDown ds distnc mask (distnc[s]! - half) (ds.size + 1) s with
        | none => rw [hd] at hsome; cases hsome
        | some d => exact ⟨d, rfl, hb d (flsDown_mem htopo distnc mask _ _ s d h hd)⟩
      · have hsome := flsDown_complete ds distnc mask (distnc[s]! - half) 0 (ds.size + 1) s (by omega)
          (Or.inr (by simpa [iterA] using h2))
        cases hd : flsDown ds distnc mask (distnc[s]! - half) (ds.size + 1) s with
        | none => rw [hd] at hsome; cases hsome
        | some d =>
          have := flsDown_offnet ds distnc mask _ _ s d h2 hd
          exact ⟨d, rfl, this ▸ h1⟩
    obtain ⟨d, hd, hdn⟩ := hdown
    rw [hd]
    have hup := flsUp_total ds us distnc mask (distnc[s]! + half) (fun c => seq.length - seq.idxOf c)
      (fun c hc hne => usLink_measure htopo hall hlink c hc hne) seq.length (ds.size + 1) d hdn
      (Nat.sub_le _ _) (by omega)
    simpa using hup

/-! ## the statistics: median and least-squares slope characterised independently of the code -/

/-- **median**: `median2` is taken in THE non-decreasing rearrangement `s` of the values: NaN (`none`) for
no value, twice the middle element for an odd count, the sum of the two middle elements otherwise -/
theorem median2_def (vals s : List Int) (hperm : s.Perm vals) (hs : s.Pairwise (fun a b => a ≤ b)) :
    median2 vals = if s.length = 0 then none
                   else if s.length % 2 = 1 then some (2 * s[s.length / 2]!)
                   else some (s[s.length / 2 - 1]! + s[s.length / 2]!) := by
  unfold median2
  rw [insSort_unique vals s hperm hs]
  simp only [List.size_toArray]
  have e : ∀ i : Nat, s.toArray[i]! = s[i]! := fun i => by simp [getElem!_def]
  simp only [e]

/-- the sorted list exists for every input (the model's own sort), so `median2_def` always applies -/
theorem median2_sorted_exists (vals : List Int) :
    ∃ s : List Int, s.Perm vals ∧ s.Pairwise (fun a b => a ≤ b) :=
  ⟨insSort vals, insSort_perm vals, insSort_sorted vals⟩

/-- **least-squares slope = normal equations**: for a segment of at least two cells the fraction `N / D`
returned for `lstsq = true` is the slope of the line `y = (N/D)·x + B/(n·D)`, `B = Σz·D − N·Σx`, whose
residuals against (distance, elevation) sum to zero and are orthogonal to the distances — the normal
equations of ordinary least squares (both scaled by `n·D`) -/
theorem slope_lstsq_normal (cells : List Nat) (elevtn distnc : Array Int) (hlen : cells.length > 1)
    (N D : Int) (h : slopeNumDen cells elevtn distnc true = (N, D)) :
    (cells.map fun c => (cells.length : Int) * D * elevtn[c]! - (cells.length : Int) * N * distnc[c]! -
        ((cells.map fun c => elevtn[c]!).sum * D - N * (cells.map fun c => distnc[c]!).sum)).sum = 0 ∧
    (cells.map fun c => distnc[c]! * ((cells.length : Int) * D * elevtn[c]! - (cells.length : Int) * N * distnc[c]! -
        ((cells.map fun c => elevtn[c]!).sum * D - N * (cells.map fun c => distnc[c]!).sum))).sum = 0 := by
  unfold slopeNumDen at h
  rw [if_pos hlen] at h
  simp only [if_true] at h
  exact lstsq_normal_eq cells (fun c => distnc[c]!) (fun c => elevtn[c]!) N D h

/-- **mean slope**: elevation difference over distance difference between the first and the last cell of
the segment; a single cell gives slope 0 for both methods -/
theorem slope_mean_def (cells : List Nat) (elevtn distnc : Array Int) (lstsq : Bool) :
    (cells.length > 1 → slopeNumDen cells elevtn distnc false =
      (elevtn[cells.head!]! - elevtn[cells.getLast!]!, distnc[cells.head!]! - distnc[cells.getLast!]!)) ∧
    (¬ cells.length > 1 → slopeNumDen cells elevtn distnc lstsq = (0, 1)) := by
  constructor
  · intro h; simp [slopeNumDen, h]
  · intro h; simp [slopeNumDen, h]

/-! ### the least-squares denominator (third round) -/

/-- **Lagrange's identity for the least-squares denominator**: the denominator `n·Σx² − (Σx)²` of
`arithmetics.lstsq` equals the sum of the squared differences of all pairs of abscissae,
`Σ_{i<j} (x_i − x_j)²` (`pairSqSum`); in particular it is never negative. -/
theorem lstsq_den_identity (xs ys : List Int) :
    (lstsqNumDen xs ys).2 = pairSqSum xs ∧ 0 ≤ (lstsqNumDen xs ys).2 := by
  rw [lstsqNumDen_snd, lstsqDen_eq_pairSqSum]
  exact ⟨rfl, pairSqSum_nonneg xs⟩

/-- **the denominator is strictly positive unless all abscissae are equal** (Cauchy-Schwarz with equality
case): `D > 0` as soon as two entries differ, and `D = 0` exactly when all entries are equal. -/
theorem lstsq_den_pos (xs ys : List Int) :
    ((∃ a ∈ xs, ∃ b ∈ xs, a ≠ b) → 0 < (lstsqNumDen xs ys).2) ∧
    ((lstsqNumDen xs ys).2 = 0 ↔ ∀ a ∈ xs, ∀ b ∈ xs, a = b) := by
  rw [lstsqNumDen_snd, lstsqDen_eq_pairSqSum]
  refine ⟨pairSqSum_pos xs, fun h a ha b hb => ?_, pairSqSum_zero xs⟩
  apply Classical.byContradiction
  intro hab
  have := pairSqSum_pos xs ⟨a, ha, b, hb, hab⟩
  omega

/-- **a one-cell segment is not divided at all** (`if len(idxs) > 1: ... else: rivslp[i] = 0.0` in
`segment_slope`, `if len(xs) >= 2` in `fixed_length_slope`): for at most one cell the model returns the
fraction `0 / 1` for both methods, whatever the elevations and distances. -/
theorem slope_single_cell (cells : List Nat) (elevtn distnc : Array Int) (lstsq : Bool)
    (h : cells.length ≤ 1) : slopeNumDen cells elevtn distnc lstsq = (0, 1) := by
  have : ¬ cells.length > 1 := by omega
  simp [slopeNumDen, this]

/-- **the slope is never a division by zero**: when the distances along the cells of the segment are
strictly monotone (they are along every flow path: `distnc` strictly increases upstream) the denominator
of the model's slope fraction is strictly positive for the least-squares method - for every number of
cells, the one-cell guard included - and non-zero for the mean method. -/
theorem slope_den_pos (cells : List Nat) (elevtn distnc : Array Int)
    (hmono : (cells.map fun c => distnc[c]!).Pairwise (· < ·) ∨ (cells.map fun c => distnc[c]!).Pairwise (· > ·)) :
    0 < (slopeNumDen cells elevtn distnc true).2 ∧ (slopeNumDen cells elevtn distnc false).2 ≠ 0 := by
  by_cases hlen : cells.length > 1
  · constructor
    · unfold slopeNumDen
      rw [if_pos hlen]
      simp only [if_true]
      exact (lstsq_den_pos _ _).1 (exists_ne_of_pairwise (by simp only [List.length_map]; omega) hmono)
    · match cells, hlen with
      | a :: b :: t, _ =>
        have hl : (a :: b :: t).getLast! ∈ b :: t := by
          have : (a :: b :: t).getLast! = (b :: t).getLast (by simp) := by
            simp [List.getLast!_eq_getLast?_getD, List.getLast?_eq_some_getLast]
          rw [this]; exact List.getLast_mem _
        have hm : distnc[(a :: b :: t).getLast!]! ∈ (b :: t).map fun c => distnc[c]! :=
          List.mem_map.mpr ⟨_, hl, rfl⟩
        have hh : (a :: b :: t).head! = a := rfl
        have hval : (slopeNumDen (a :: b :: t) elevtn distnc false).2 =
            distnc[a]! - distnc[(a :: b :: t).getLast!]! := by
          unfold slopeNumDen
          rw [if_pos (by simp), hh]
          simp
        rw [hval]
        simp only [List.map_cons] at hmono hm
        rcases hmono with h | h
        · have := (List.pairwise_cons.mp h).1 _ hm; omega
        · have := (List.pairwise_cons.mp h).1 _ hm; omega
  · rw [slope_single_cell cells elevtn distnc true (by omega),
      slope_single_cell cells elevtn distnc false (by omega)]
    exact ⟨by decide, by decide⟩

/-- non-vacuity: distances 5, 3, 2 (strictly decreasing downstream): D = 3·38 − 100 = 14 = 4 + 9 + 1 -/
example : (lstsqNumDen [5, 3, 2] [7, 4, 4]).2 = 14 ∧ pairSqSum [5, 3, 2] = 14 ∧
    (lstsqNumDen [4, 4, 4] [1, 2, 3]).2 = 0 := by decide
example : slopeNumDen [2, 1, 0] #[0, 1, 3] #[2, 3, 5] true = (14, 14) ∧
    slopeNumDen [2] #[0, 1, 3] #[2, 3, 5] true = (0, 1) ∧ slopeNumDen [] #[0, 1, 3] #[2, 3, 5] false = (0, 1) := by
  decide
example : 0 < (slopeNumDen [2, 1, 0] #[0, 1, 3] #[2, 3, 5] true).2 :=
  (slope_den_pos [2, 1, 0] #[0, 1, 3] #[2, 3, 5] (Or.inr (by decide))).1

/-- **slope around the outlet pixel** (`fixed_length_slope`, `subgrid_rivslp(direction="both")`): the cells
used start at the first cell downstream of the outlet pixel that is a pit, has no downstream cell (an
outlet pixel outside the network), is masked out, or lies at least `half` below it, and follow the main upstream path up to the first cell that has no main upstream
cell, whose main upstream cell is masked out, or that lies at least `half` above the outlet pixel -/
theorem fixed_length_slope_spec (ds usMain : Array Nat) (outs : List Nat) (elevtn distnc : Array Int)
    (half : Int) (lstsq : Bool) (mask : Option (Array Bool)) (res : PerOutlet (Int × Int))
    (h : fixedLengthSlope ds usMain outs elevtn distnc half lstsq mask = some res) (k s : Nat)
    (hk : outs[k]? = some s) :
    (s = ds.size ∧ res[k]? = some none) ∨
    (s ≠ ds.size ∧ ∃ Kd Ku,
      (∀ j, j < Kd → distnc[iterA ds j s]! > distnc[s]! - half ∧ ds[iterA ds j s]! ≠ iterA ds j s ∧
        ds[iterA ds j s]! ≠ ds.size ∧ maskAt mask (iterA ds j s) = true) ∧
      (distnc[iterA ds Kd s]! ≤ distnc[s]! - half ∨ ds[iterA ds Kd s]! = iterA ds Kd s ∨
        ds[iterA ds Kd s]! = ds.size ∨ maskAt mask (iterA ds Kd s) = false) ∧
      (∀ j, j < Ku → distnc[iterA usMain j (iterA ds Kd s)]! < distnc[s]! + half ∧
        usMain[iterA usMain j (iterA ds Kd s)]! ≠ usMain.size ∧
        maskAt mask usMain[iterA usMain j (iterA ds Kd s)]! = true) ∧
      (distnc[s]! + half ≤ distnc[iterA usMain Ku (iterA ds Kd s)]! ∨
        usMain[iterA usMain Ku (iterA ds Kd s)]! = usMain.size ∨
        maskAt mask usMain[iterA usMain Ku (iterA ds Kd s)]! = false) ∧
      res[k]? = some (some (slopeNumDen ((List.range (Ku + 1)).map fun j => iterA usMain j (iterA ds Kd s))
        elevtn distnc lstsq))) := by
  unfold fixedLengthSlope at h
  obtain ⟨_, hget⟩ := mapM_option_get _ _ _ h
  obtain ⟨b, hb1, hb2⟩ := hget k s hk
  by_cases hs : s = ds.size
  · rw [if_pos hs] at hb2
    exact Or.inl ⟨hs, by rw [hb1, ← Option.some.inj hb2]⟩
  · rw [if_neg hs] at hb2
    cases hd : flsDown ds distnc mask (distnc[s]! - half) (ds.size + 1) s with
    | none => simp [hd] at hb2
    | some d =>
      simp only [hd, Option.map_eq_some_iff] at hb2
      obtain ⟨cells, hu, hb⟩ := hb2
      obtain ⟨Kd, hdd, hpre, hend⟩ := flsDown_spec ds distnc mask _ _ _ _ hd
      obtain ⟨Ku, hcells, hpre', hend'⟩ := flsUp_spec usMain distnc mask _ _ _ _ hu
      subst hdd
      exact Or.inr ⟨hs, Kd, Ku, hpre, hend, hpre', hend', by rw [hb1, ← hb, hcells]⟩

/-! ### non-vacuity (segments, outlets) -/
-- an outlet pixel listed twice (cell 1 at positions 0 and 2): the last position labels, the first entry
-- keeps the pixel's own area
example : ucatArea #[0, 0, 1, 1, 5] [0, 1, 2, 3] [1, 0, 1] #[10, 20, 30, 40, 50] =
    (#[2, 3, 3, 3, 0], #[20, 10, 90]) := by decide
example : median2 [8, 5, 6] = some (2 * 6) := by
  rw [median2_def [8, 5, 6] [5, 6, 8] (by decide) (by decide)]; decide
example : median2 [8, 5, 6, 3] = some (5 + 6) := by
  rw [median2_def [8, 5, 6, 3] [3, 5, 6, 8] (by decide) (by decide)]; decide
example : slopeNumDen [2, 1, 0] #[0, 1, 3] #[0, 1, 2] true = (9, 6) := by decide
example : UsLink #[0, 0, 0, 1, 1] (mainUpstream #[0, 0, 0, 1, 1] #[5, 2, 2, 1, 1] 0) := mainUpstream_usLink ..
example : mainUpstream #[0, 0, 0, 1, 1] #[5, 2, 2, 1, 1] 0 = #[1, 3, 5, 5, 5] := by decide
-- chain 4 → 3 → 2 → 1 → 0, unit spacing, window of half-length 1 around cell 2: cells 1, 2, 3
example : fixedLengthSlope #[0, 0, 1, 2, 3] #[1, 2, 3, 4, 5] [2, 5] #[0, 1, 3, 6, 10] #[0, 1, 2, 3, 4] 1 false none =
    some [some (-5, -2), none] := by decide
-- with cell 3 masked out the window is cells 1, 2 only
example : fixedLengthSlope #[0, 0, 1, 2, 3] #[1, 2, 3, 4, 5] [2, 5] #[0, 1, 3, 6, 10] #[0, 1, 2, 3, 4] 1 false
    (some #[true, true, true, false, true]) = some [some (-2, -1), none] := by decide
-- chain 4 → 3 → 2 → 1 → 0 (pit), outlets at 4, 2 and a missing one; walking downstream
example : exclWalk #[0, 0, 1, 2, 3] (outletFlags 5 [4, 5, 2]) none 6 4 = some [4, 3] := by decide
example : lenWalk #[0, 0, 1, 2, 3] (outletFlags 5 [4, 5, 2]) none 6 4 = some 2 := by decide
example : segLength #[0, 0, 1, 2, 3] [4, 5, 2] #[0, 3, 7, 12, 16] none = some [some 9, none, some 7] := by decide
example : segAverage #[0, 0, 1, 2, 3] [4, 5, 2] #[5, -9999, 6, 2, 4] #[1, 1, 1, 3, 1] (-9999) none =
    some [some (10, 4), none, some (11, 2)] := by decide
example : segMedian #[0, 0, 1, 2, 3] [4, 5, 2] #[5, -9999, 6, 2, 4] (-9999) (some #[true, true, true, true, true]) =
    some [some (some 6), none, some (some 11)] := by decide
example : segSlope #[0, 0, 1, 2, 3] [4, 5, 2] #[0, 1, 3, 6, 10] #[0, 1, 2, 3, 4] true none =
    some [some (4, 1), none, some (9, 6)] := by decide
-- the river mask cuts the segment of outlet 2 before the masked-out cell 1: cells [2] only
example : segSlope #[0, 0, 1, 2, 3] [4, 5, 2] #[0, 1, 3, 6, 10] #[0, 1, 2, 3, 4] false
    (some #[true, false, true, true, true]) = some [some (4, 1), none, some (0, 1)] := by decide
-- 2×4 fine raster, cell size 2: both rows drain east to the pit 7; coarse cells 0 and 1
example : outletsModel #[1, 2, 3, 7, 5, 6, 7, 7] #[1, 2, 3, 4, 1, 2, 3, 8]
    #[true, true, true, true, true, true, true, true] false 4 2 1 2 = some [1, 7] := by decide
example : outletsModel #[1, 2, 3, 7, 5, 6, 7, 7] #[1, 2, 3, 4, 1, 2, 3, 8]
    #[true, true, true, true, true, true, true, true] true 4 2 1 2 = some [1, 7] := by decide

end Pf.C10
