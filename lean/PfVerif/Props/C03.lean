import PfVerif.Proofs.C03Order
import PfVerif.Proofs.C03Walk
import PfVerif.Proofs.C03RankAlg
import PfVerif.Proofs.C03Sort
/-! # C03 — cell ordering, rank and loop detection are topologically correct

All theorems quantify over every network `ds : Array Nat` (any size, any functional graph: cycles of
any length, trees hanging on cycles, missing cells = `ds.size`). `WF ds` only says that entries are
indices or the missing value and that a cell never points to a missing cell (what the decoders of C01
produce and what both constructors receive). Nothing is bounded.

Vocabulary (`Model/C03.lean`): `Valid ds i` = `i` is a cell of the network; `ReachesPit ds i` =
some iterate of `i` is a pit (unbounded ∃); `StepsToPit ds i k` = the `k`-th iterate is the first pit;
`Topo ds seq` = every cell is listed after its downstream cell and at most once (`Core/Sweep.lean`).

Models: `rank` = `core.rank`, `orderWalk` = `order_cells('walk')` = `core.idxs_seq`, `orderSort` =
`order_cells('sort')`, `loopIndices` = `core.loop_indices`, `isValidNet` = `isvalid`, `nnodesRank` =
`nnodes`, `repairLoops` = `repair_loops` (`Model/Core.lean`, `Model/C03.lean`). -/
namespace Pf.C03
open Pf

/-- the executable well-formedness test the driver reports (`wf`) is the hypothesis `WF` -/
theorem wfB_iff (ds : Array Nat) : wfB ds = true ↔ WF ds := by
  simp only [wfB, List.all_eq_true, List.mem_range, Bool.and_eq_true, decide_eq_true_eq, Bool.or_eq_true,
    Bool.not_eq_true', decide_eq_false_iff_not, WF]
  constructor
  · intro h i hi
    refine ⟨(h i hi).1, fun hlt => ?_⟩
    rcases (h i hi).2 with h2 | h2
    · exact absurd hlt h2
    · exact h2
  · intro h i hi
    refine ⟨(h i hi).1, ?_⟩
    by_cases hlt : ds[i]! < ds.size
    · exact Or.inr ((h i hi).2 hlt)
    · exact Or.inl hlt

/-! ## 1. the executable order check used by every other property is sound (and complete) -/

/-- **`isTopo` is sound**: an accepted sequence is downstream-first without duplicates and in range.
This is the hypothesis `Topo ds seq` of every sweep theorem (C04, C05, C08, C10, C14, C18 …). -/
theorem isTopo_sound (ds : Array Nat) (seq : List Nat) (h : isTopo ds seq = true) :
    Topo ds seq ∧ ∀ i ∈ seq, i < ds.size :=
  isTopo_sound' ds seq h

/-- `isTopo` rejects nothing it should accept (no false alarms) -/
theorem isTopo_iff (ds : Array Nat) (seq : List Nat) :
    isTopo ds seq = true ↔ (Topo ds seq ∧ ∀ i ∈ seq, i < ds.size) :=
  ⟨isTopo_sound' ds seq, fun h => isTopo_complete' ds seq h.1 h.2⟩

example : isTopo #[0, 0, 1, 1, 5, 4] [0, 1, 3, 2] = true := by decide
example : isTopo #[0, 0, 1, 1, 5, 4] [0, 2, 1, 3] = false := by decide   -- 2 before its downstream cell 1
example : isTopo #[0, 0, 1, 1, 5, 4] [0, 1, 4, 5] = false := by decide   -- cells of a 2-cycle can never be listed

/-! ## 2. rank certificate: rank = number of steps to the pit, `-1` = never reaches a pit -/

/-- **certificate soundness (arrays, unbounded on both sides)**: if the decidable local check accepts
`rk`, then on every cell `rk i = k ≥ 0` iff `k` is the least number of steps to a pit, and
`rk i = -1` iff no iterate of `i` is ever a pit; missing cells carry `-9999`. -/
theorem checkRankCert_sound (ds : Array Nat) (rk : Array Int) (h : checkRankCert ds rk = true) :
    WF ds ∧
    (∀ i, Valid ds i →
      (∀ k : Nat, rk[i]! = (k : Int) ↔ StepsToPit ds i k) ∧
      (rk[i]! = -1 ↔ ¬ ReachesPit ds i) ∧ (rk[i]! = -1 ∨ 0 ≤ rk[i]!)) ∧
    (∀ i, i < ds.size → ¬ Valid ds i → rk[i]! = -9999) := by
  have hc := (checkRankCert_iff ds rk).1 h
  refine ⟨hc.wf, fun i hv => ⟨hc.rank_eq_iff hv, hc.rank_neg_iff hv, hc.range hv⟩, fun i hi hnv => ?_⟩
  by_cases hd : ds[i]! = ds.size
  · exact hc.nodata i hi hd
  · exact absurd ⟨hi, hc.lt i hi hd⟩ hnv

-- 3-cycle 0→1→2→0, pit 3 with tributary 4, 2-cycle 5↔6 with tributary 8, pit 7, missing cell 9
example : checkRankCert #[1, 2, 0, 3, 3, 6, 5, 7, 5, 10] #[-1, -1, -1, 0, 1, -1, -1, 0, -1, -9999] = true := by decide
example : checkRankCert #[1, 2, 0, 3, 3, 6, 5, 7, 5, 10] #[-1, -1, -1, 0, 1, -1, -1, 0, 2, -9999] = false := by decide

/-- **`core.rank` terminates and satisfies the certificate** on every well-formed network
(invariant over the outer loop and the explicit stack; `Proofs/C03RankAlg.lean`) -/
theorem rank_cert (ds : Array Nat) (hwf : WF ds) :
    ∃ r c, rank ds = some (r, c) ∧ checkRankCert ds r = true := by
  obtain ⟨r, c, h1, h2, _⟩ := rank_cert' ds hwf
  exact ⟨r, c, h1, (checkRankCert_iff ds r).2 h2⟩

/-- **rank is correct**: `rank i = k` iff the flow path of `i` reaches its pit after exactly `k` steps;
`rank i = -1` iff it never reaches a pit (member of, or tributary to, a cycle). -/
theorem rank_correct (ds : Array Nat) (hwf : WF ds) (r : Array Int) (c : Nat) (h : rank ds = some (r, c)) :
    ∀ i, Valid ds i →
      (∀ k : Nat, r[i]! = (k : Int) ↔ StepsToPit ds i k) ∧ (r[i]! = -1 ↔ ¬ ReachesPit ds i) := by
  obtain ⟨r', c', h1, h2⟩ := rank_cert ds hwf
  rw [h] at h1
  obtain ⟨rfl, rfl⟩ : r = r' ∧ c = c' := by simpa using h1
  intro i hv
  have := (checkRankCert_sound ds r h2).2.1 i hv
  exact ⟨this.1, this.2.1⟩

example : rank #[1, 2, 0, 3, 3, 6, 5, 7, 5, 10] = some (#[-1, -1, -1, 0, 1, -1, -1, 0, -1, -9999], 3) := by
  decide +kernel

/-- **the count returned by `core.rank`** (the `n` of `argsort(rank)[-n:]`) is the number of cells of
rank ≥ 0, i.e. (by `rank_correct`) of cells that drain to a pit -/
theorem rank_count (ds : Array Nat) (hwf : WF ds) (r : Array Int) (c : Nat) (h : rank ds = some (r, c)) :
    c = (List.range ds.size).countP (fun i => decide ((0:Int) ≤ r[i]!)) ∧ nnodesRank ds = some c := by
  obtain ⟨r', c', h1, _, h3⟩ := rank_cert' ds hwf
  rw [h] at h1
  obtain ⟨rfl, rfl⟩ : r = r' ∧ c = c' := by simpa using h1
  refine ⟨h3, ?_⟩
  simp only [nnodesRank, h, Option.map_some, Option.some.injEq]
  exact h3.symm

/-! ## 3. loop detection and validity -/

/-- **the cells reported as loops are exactly the cells that never reach a pit** -/
theorem loops_exact (ds : Array Nat) (hwf : WF ds) (l : List Nat) (h : loopIndices ds = some l) :
    ∀ i, i ∈ l ↔ (Valid ds i ∧ ¬ ReachesPit ds i) := by
  obtain ⟨r, c, h1, h2, _⟩ := rank_cert' ds hwf
  simp only [loopIndices, h1, Option.map_some, Option.some.injEq] at h
  subst h
  exact loops_exact' h2

/-- **a network is reported valid iff every cell drains to a pit** -/
theorem isvalid_iff (ds : Array Nat) (hwf : WF ds) (b : Bool) (h : isValidNet ds = some b) :
    b = true ↔ ∀ i, Valid ds i → ReachesPit ds i := by
  obtain ⟨r, c, h1, h2, _⟩ := rank_cert' ds hwf
  simp only [isValidNet, h1, Option.map_some, Option.some.injEq] at h
  subst h
  exact isvalid_iff' h2

example : loopIndices #[1, 2, 0, 3, 3, 6, 5, 7, 5, 10] = some [0, 1, 2, 5, 6, 8] := by decide +kernel
example : isValidNet #[1, 2, 0, 3, 3, 6, 5, 7, 5, 10] = some false := by decide +kernel
example : isValidNet #[0, 0, 1, 1, 4, 4] = some true := by decide +kernel

/-! ## 4. cell orders -/

/-- **complete-order certificate** (evaluated by the driver on the sequence the implementation
returned, for both methods): an accepted sequence lists each cell after its downstream cell, has no
duplicates, and its members are exactly the cells that drain to a pit. -/
theorem completeTopo_sound (ds : Array Nat) (seq : List Nat) (hwf : WF ds)
    (h : isCompleteTopo ds seq = true) :
    Topo ds seq ∧ seq.Nodup ∧ ∀ i, i ∈ seq ↔ (Valid ds i ∧ ReachesPit ds i) :=
  completeTopo_char hwf h

example : isCompleteTopo #[1, 2, 0, 3, 3, 6, 5, 7, 5, 10] [7, 3, 4] = true := by decide
example : isCompleteTopo #[1, 2, 0, 3, 3, 6, 5, 7, 5, 10] [7, 3] = false := by decide        -- 4 missing
example : isCompleteTopo #[1, 2, 0, 3, 3, 6, 5, 7, 5, 10] [7, 3, 4, 8] = false := by decide  -- 8 drains to a cycle

/-- **a downstream-first sequence whose members are the cells of rank ≥ 0 contains every cell that
drains to a pit exactly once**, and the node count `#{rank ≥ 0}` is its length -/
theorem topo_complete (ds : Array Nat) (rk : Array Int) (seq : List Nat) (h : checkRankCert ds rk = true)
    (ht : Topo ds seq) (hmem : ∀ i, i ∈ seq ↔ (i < ds.size ∧ 0 ≤ rk[i]!)) :
    (∀ i, i ∈ seq ↔ (Valid ds i ∧ ReachesPit ds i)) ∧ seq.Nodup ∧
    seq.length = (List.range ds.size).countP (fun i => decide ((0:Int) ≤ rk[i]!)) :=
  topo_complete' ((checkRankCert_iff ds rk).1 h) ht hmem

/-- **`order_cells('sort')`, for every sorting routine**: any arrangement of the cells of rank ≥ 0 in
non-decreasing rank order (whatever the order among equal ranks, i.e. for any `argsort` kind and
NumPy version) is downstream-first. -/
theorem seq_sort_topo (ds : Array Nat) (rk : Array Int) (seq : List Nat) (h : checkRankCert ds rk = true)
    (hs : seq.Pairwise (fun a b => rk[a]! ≤ rk[b]!)) (hn : seq.Nodup)
    (hmem : ∀ i, i ∈ seq ↔ (i < ds.size ∧ 0 ≤ rk[i]!)) : Topo ds seq :=
  seq_sort_topo' ((checkRankCert_iff ds rk).1 h) hs hn hmem

/-- **`order_cells('walk')` (`core.idxs_seq`)**: the breadth-first walk from the pits through the
upstream matrix lists each cell after its downstream cell, exactly once, and lists exactly the cells
that drain to a pit (cells on, or tributary to, a cycle are excluded). Algorithm-level, all networks. -/
theorem seq_walk_topo (ds : Array Nat) (hwf : WF ds) :
    Topo ds (orderWalk ds) ∧ (orderWalk ds).Nodup ∧
    ∀ i, i ∈ orderWalk ds ↔ (Valid ds i ∧ ReachesPit ds i) := by
  obtain ⟨h1, _, h3⟩ := orderWalk_spec ds hwf
  exact ⟨h1, h1.nodup, h3⟩

example : orderWalk #[1, 2, 0, 3, 3, 6, 5, 7, 5, 10] = [3, 7, 4] := by decide +kernel
example : orderWalk #[0, 0, 1, 1, 4, 4, 0] = [0, 4, 1, 6, 5, 2, 3] := by decide +kernel

/-- **`order_cells('sort')` as coded** (`argsort(rank)[-n:]` with the stable sort standing for
`argsort`): on every network with at least one pit (the constructors reject all others) the result is
downstream-first, has no duplicates, lists exactly the cells that drain to a pit, and has length `n`. -/
theorem seq_sort_model_topo (ds : Array Nat) (hwf : WF ds) (seq : List Nat) (h : orderSort ds = some seq)
    (hpit : ∃ p, p < ds.size ∧ ds[p]! = p) :
    Topo ds seq ∧ seq.Nodup ∧ (∀ i, i ∈ seq ↔ (Valid ds i ∧ ReachesPit ds i)) ∧
    nnodesRank ds = some seq.length := by
  obtain ⟨r, c, h1, h2, hs, hn, hm, hl⟩ := orderSort_spec ds hwf seq h hpit
  have ht := seq_sort_topo' h2 hs hn hm
  refine ⟨ht, hn, (topo_complete' h2 ht hm).1, ?_⟩
  rw [hl]; exact (rank_count ds hwf r c h1).2

/-- the hypotheses of `seq_sort_model_topo` are satisfiable on every well-formed network with a pit -/
theorem orderSort_total (ds : Array Nat) (hwf : WF ds) : ∃ seq, orderSort ds = some seq := by
  obtain ⟨r, c, h1, _⟩ := rank_cert' ds hwf
  simp only [orderSort, h1, Option.map_some]
  exact ⟨_, rfl⟩

-- (`List.mergeSort` does not reduce in the kernel, so the concrete instance is checked through the
-- hypotheses of `seq_sort_topo`: a rank-sorted arrangement that differs from the walk order)
example : wfB #[0, 0, 1, 1, 4, 4, 0] = true ∧ checkRankCert #[0, 0, 1, 1, 4, 4, 0] #[0, 1, 2, 2, 0, 1, 1] = true ∧
    rankSorted #[0, 1, 2, 2, 0, 1, 1] [4, 0, 6, 5, 1, 3, 2] = true ∧
    isCompleteTopo #[0, 0, 1, 1, 4, 4, 0] [4, 0, 6, 5, 1, 3, 2] = true := by decide

/-- **node count**: `nnodes` (= `#{rank ≥ 0}`) is the number of cells that drain to a pit, i.e. the
length of every complete downstream-first order (in particular of both `order_cells` results). -/
theorem nnodes_eq (ds : Array Nat) (hwf : WF ds) (k : Nat) (h : nnodesRank ds = some k) (seq : List Nat)
    (hn : seq.Nodup) (hmem : ∀ i, i ∈ seq ↔ (Valid ds i ∧ ReachesPit ds i)) : seq.length = k := by
  obtain ⟨r, c, h1, h2, _⟩ := rank_cert' ds hwf
  simp only [nnodesRank, h1, Option.map_some, Option.some.injEq] at h
  subst h
  rw [List.countP_eq_length_filter]
  apply List.Perm.length_eq
  rw [List.perm_ext_iff_of_nodup hn (List.Nodup.sublist List.filter_sublist List.nodup_range)]
  intro a
  rw [hmem a]
  simp only [List.mem_filter, List.mem_range, decide_eq_true_eq]
  constructor
  · rintro ⟨hv, hr⟩; exact ⟨hv.1, (h2.rank_nonneg_iff hv).2 hr⟩
  · rintro ⟨hi, h0⟩
    have hv := h2.nonneg_valid hi h0
    exact ⟨hv, (h2.rank_nonneg_iff hv).1 h0⟩

example : nnodesRank #[1, 2, 0, 3, 3, 6, 5, 7, 5, 10] = some 3 := by decide +kernel

/-! ## 5. repair -/

/-- **repairing loops yields a valid network and leaves every previously valid link unchanged**:
after `repair_loops` every cell drains to a pit, the set of cells is the same, and a cell that
drained to a pit before keeps its downstream link and its rank (number of steps to the pit). -/
theorem repair_valid (ds ds' : Array Nat) (hwf : WF ds) (h : repairLoops ds = some ds') :
    WF ds' ∧ ds'.size = ds.size ∧ (∀ i, Valid ds' i ↔ Valid ds i) ∧
    (∀ i, Valid ds' i → ReachesPit ds' i) ∧
    (∀ i, Valid ds i → ReachesPit ds i →
      ds'[i]! = ds[i]! ∧ ∀ k, StepsToPit ds i k → StepsToPit ds' i k) := by
  obtain ⟨r, c, h1, h2, _⟩ := rank_cert' ds hwf
  have hrep : ds' = repairBy ds r := by
    simp only [repairLoops, loopIndices, h1, Option.map_some, Option.some.injEq] at h
    rw [← h]; rfl
  subst hrep
  have h3 := repair_cert' h2
  have hsz : (repairBy ds r).size = ds.size := addPits_size _ _
  have hval : ∀ i, Valid (repairBy ds r) i ↔ Valid ds i := by
    intro i
    simp only [Valid, hsz, repairBy_get]
    constructor
    · rintro ⟨hi, hd⟩
      refine ⟨hi, ?_⟩
      by_cases hd0 : ds[i]! = ds.size
      · have := h2.nodata i hi hd0
        have hne : ¬ (r[i]! = -1 ∧ i < ds.size) := by omega
        rw [if_neg hne] at hd; exact hd
      · exact h2.lt i hi hd0
    · rintro ⟨hi, hd⟩
      refine ⟨hi, ?_⟩
      split
      · exact hi
      · exact hd
  refine ⟨h3.wf, hsz, hval, ?_, ?_⟩
  · intro i hv
    refine (h3.rank_nonneg_iff hv).1 ?_
    rw [rankAfterRepair_get]
    split
    · exact Int.le_refl 0
    · rename_i hne
      rcases h2.range ((hval i).1 hv) with h4 | h4
      · exact absurd h4 hne
      · exact h4
  · intro i hv hr
    have h0 := (h2.rank_nonneg_iff hv).2 hr
    have hne : ¬ (r[i]! = -1 ∧ i < ds.size) := by omega
    refine ⟨by rw [repairBy_get, if_neg hne], fun k hk => ?_⟩
    have hk' := (h2.rank_eq_iff hv k).2 hk
    refine (h3.rank_eq_iff ((hval i).2 hv) k).1 ?_
    rw [rankAfterRepair_get, if_neg (by omega)]
    exact hk'

example : repairLoops #[1, 2, 0, 3, 3, 6, 5, 7, 5, 10] = some #[0, 1, 2, 3, 3, 5, 6, 7, 8, 10] := by
  decide +kernel
example : isValidNet #[0, 1, 2, 3, 3, 5, 6, 7, 8, 10] = some true := by decide +kernel

end Pf.C03
