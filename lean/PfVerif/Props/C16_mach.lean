import PfVerif.Proofs.C16_machSweep
import PfVerif.Proofs.C16_machD4
import PfVerif.Props.C16
/-! # C16 extension `C16_mach` — machine-integer refinement of the index-generic kernels

Property C16: a network object built from `int32`, `int64`, `uint32` or `uint64` downstream indices
supports the same operations and returns the same values; only the missing-value sentinel differs
(`-1` for the signed types, the type's maximum for the unsigned ones).

All kernel models of `Model/*.lean` use `ds : Array Nat` of size `n` with `ds[i] = n` as the missing
value. This file connects a *machine-integer* reading of the kernels with those models:

1. the four index dtypes, their sentinel (one bit pattern, all ones), encoding / decoding, the
   capacity condition guaranteed by the library's own dtype selection, order comparisons;
2. the two generic sweeps and the generic trace on arrays of `BitVec w` (positions by `.toNat`, pit
   test and missing-value test by machine equality) compute exactly what `Pf.sweepDown`, `Pf.sweepUp`,
   `Pf.trace` compute on the abstract network - for EVERY body function; hence every sweep-shaped
   kernel (C04, C05, C08, C10, C14, C18 are instances) is independent of the index dtype;
   corollaries for `fillnodata_upstream`, `accuflux`, `accuflux_ds`, `_trace`;
3. the index arithmetic sites of the library (`c + r*ncol` of the `from_array` decoders, neighbour
   computation `idx0 ± ncol ± 1`, `//`, `%`, `abs(np.int64(idx0) - np.int64(idx_ds))`,
   `subidx_2_idx`, `in_d8`, `_local_d4`): under capacity the machine computation equals the
   mathematical one; the *unrepaired* unsigned subtraction wraps (every pair of cells, plus the
   kernel-checked witnesses of `Props/C16.lean`).

Every theorem is generic in the dtype `t : IdxTy` - in fact in the width: the capacity condition
`Cap t n` is the only hypothesis on the type (it excludes width 0); conversions to `int64`
additionally need `t.w ≤ 64` and / or `n < 2^63` (true of every array NumPy can allocate) where stated. `n` is the number
of cells, unbounded. Core Lean only. -/
namespace Pf.C16m
open Pf

/-! ## 1. index dtypes, sentinel, encoding, order -/

/-- the four dtypes are the standard widths -/
theorem std_types : i32.Std ∧ i64.Std ∧ u32.Std ∧ u64.Std := by decide

/-- the capacity bounds are the constants of `pyflwdir.from_array` (32 bit) and their 64-bit analogues -/
theorem cap_values : i32.cap = 2147483647 ∧ u32.cap = 4294967294 ∧
    i64.cap = 9223372036854775807 ∧ u64.cap = 18446744073709551614 := by decide

/-- **the library's dtype selection guarantees capacity** (`int32 if n < 2147483647 else (uint32 if
n < 4294967294 else uint64)`), for every raster size a `uint64` sentinel leaves room for -/
theorem select_dtype_cap (n : Nat) (h : n < 2 ^ 64 - 2) :
    Cap (selectDtype n) n ∧ (selectDtype n).Std := by
  unfold selectDtype
  split
  · refine ⟨?_, Or.inl rfl⟩
    show n < i32.cap
    rw [cap_values.1]; assumption
  · split
    · refine ⟨?_, Or.inl rfl⟩
      show n < u32.cap
      rw [cap_values.2.1]; assumption
    · refine ⟨?_, Or.inr rfl⟩
      show n < u64.cap
      rw [cap_values.2.2.2]; omega

/-- one sentinel bit pattern for all dtypes: all ones -/
theorem mv_all_ones (t : IdxTy) : t.mv = BitVec.allOnes t.w := mv_eq_allOnes t

/-- … which reads `-1` under the signed types and as the type's maximum under the unsigned ones -/
theorem mv_value (t : IdxTy) (hw : 0 < t.w) :
    val t t.mv = if t.signed then -1 else ((2 ^ t.w - 1 : Nat) : Int) := val_mv hw

theorem mv_values : val i32 i32.mv = -1 ∧ val i64 i64.mv = -1 ∧ val u32 u32.mv = 4294967295 ∧
    val u64 u64.mv = 18446744073709551615 := by decide

/-- decoding inverts encoding on cells and on the missing value -/
theorem dec_enc {t : IdxTy} {n i : Nat} (hc : Cap t n) (hi : i ≤ n) : dec t n (enc t n i) = i :=
  dec_enc' hc hi

/-- encoding inverts decoding on every machine value that can occur in an index array (no capacity
condition needed) -/
theorem enc_dec {t : IdxTy} {n : Nat} {v : BitVec t.w} (hv : WfM t n v) : enc t n (dec t n v) = v :=
  enc_dec' hv

/-- the machine missing-value test `idx == mv` is the abstract one -/
theorem enc_eq_mv_iff {t : IdxTy} {n i : Nat} (hc : Cap t n) (hi : i ≤ n) :
    enc t n i = t.mv ↔ i = n := by
  rw [enc_eq_mv_iff' hc]; omega

/-- machine equality of indices (`idx_ds == idx0`, the pit test) is abstract equality -/
theorem enc_inj {t : IdxTy} {n i j : Nat} (hc : Cap t n) (hi : i ≤ n) (hj : j ≤ n) :
    enc t n i = enc t n j ↔ i = j := by
  by_cases h : j < n
  · exact enc_inj' hc h i
  · have hjn : j = n := by omega
    subst hjn
    rw [enc_missing (Nat.le_refl _), enc_eq_mv_iff hc hi]

/-- a cell index has the same numeric value under every dtype; its position is `.toNat` -/
theorem val_cell {t : IdxTy} {n i : Nat} (hc : Cap t n) (hi : i < n) :
    val t (enc t n i) = (i : Int) ∧ (enc t n i).toNat = i :=
  ⟨val_enc_cell hc hi, enc_toNat hc hi⟩

/-- **order comparisons of cell indices agree with the abstract order for every dtype** (signed
comparison for the signed types, unsigned for the unsigned ones) -/
theorem cmp_cells {t : IdxTy} {n i j : Nat} (hc : Cap t n) (hi : i < n) (hj : j < n) :
    ltM t (enc t n i) (enc t n j) = decide (i < j) := by
  rw [Bool.eq_iff_iff, ltM_iff_val, val_enc_cell hc hi, val_enc_cell hc hj]
  simp

/-- under the capacity of a signed type the signed and the unsigned comparison instruction agree on
cell indices (the bit patterns are below `2^(w-1)`) -/
theorem cmp_instr_agree {t : IdxTy} {n i j : Nat} (hc : Cap t n) (hs : t.signed = true) (hi : i < n)
    (hj : j < n) : (enc t n i).slt (enc t n j) = (enc t n i).ult (enc t n j) := by
  have h1 := val_enc_cell hc hi
  have h2 := val_enc_cell hc hj
  simp only [val, hs, if_true] at h1 h2
  rw [Bool.eq_iff_iff, BitVec.slt_iff_toInt_lt, BitVec.ult_iff_toNat_lt, h1, h2, enc_toNat hc hi,
    enc_toNat hc hj]
  omega

/-- the range test `0 <= idx < size` accepts exactly the cells, under the signed and the unsigned
reading alike -/
theorem in_range_iff {t : IdxTy} {n i : Nat} (hc : Cap t n) (hi : i ≤ n) :
    (0 ≤ val t (enc t n i) ∧ val t (enc t n i) < (n : Int)) ↔ i < n := by
  have hb := cap_bound hc
  by_cases h : i < n
  · rw [val_enc_cell hc h]; omega
  · rw [enc_missing (by omega), val_mv hb.2]
    split <;> omega

/-- … whereas the bare test `idx < size` separates the dtypes on the sentinel: it holds of `-1` and
fails for the unsigned maximum (the F16c class: `distnc[-1]` wrapped silently for the signed types and
raised `IndexError` for the unsigned ones) -/
theorem lt_size_sentinel {t : IdxTy} {n : Nat} (hc : Cap t n) :
    val t t.mv < (n : Int) ↔ t.signed = true := by
  have hb := cap_bound hc
  rw [val_mv hb.2]
  split <;> rename_i h
  · simp [h]; omega
  · simp [h]; omega

/-! ## 2. refinement of the generic sweeps and of the generic trace -/

section sweeps
variable {α : Type} [Inhabited α]

/-- **down-to-upstream sweep, machine = abstract.** For every dtype with capacity for `n` cells, every
network `ds` of `n` cells, every body function `g`, every cell list `seq` and every start array: the
machine sweep on the encoded network returns exactly the array the `Nat` sweep returns. (`hsafe`: the
sweep never follows a missing value out of the array - cells of the order have a downstream cell, or
the array is no longer than the network; both hold in every kernel call.) -/
theorem sweepDown_refines {t : IdxTy} {n : Nat} (hc : Cap t n) (ds : Array Nat) (hsz : ds.size = n)
    (g : Nat → α → α → α) (seq : List Nat) (out : Array α) (hseq : ∀ i ∈ seq, i < n)
    (hsafe : ∀ i ∈ seq, ds[i]! < n ∨ out.size ≤ n) :
    sweepDownM (ds.map (enc t n)) g (seq.map (enc t n)) out = sweepDown ds g seq out :=
  sweepDownM_eq hc ds hsz g g seq out hseq hsafe (fun _ _ _ _ => rfl)

/-- the same with a machine-level body (pit / nodata tests on machine values inside the body) that
agrees with the abstract body on the cells of the order -/
theorem sweepDown_refines_body {t : IdxTy} {n : Nat} (hc : Cap t n) (ds : Array Nat) (hsz : ds.size = n)
    (g gM : Nat → α → α → α) (seq : List Nat) (out : Array α) (hseq : ∀ i ∈ seq, i < n)
    (hsafe : ∀ i ∈ seq, ds[i]! < n ∨ out.size ≤ n) (hg : ∀ i ∈ seq, ∀ a b, gM i a b = g i a b) :
    sweepDownM (ds.map (enc t n)) gM (seq.map (enc t n)) out = sweepDown ds g seq out :=
  sweepDownM_eq hc ds hsz g gM seq out hseq hsafe hg

/-- **up-to-downstream sweep, machine = abstract** (the pit test `idxs_ds[idx0] == idx0` is a machine
equality) -/
theorem sweepUp_refines {t : IdxTy} {n : Nat} (hc : Cap t n) (ds : Array Nat) (hsz : ds.size = n)
    (upd : Nat → α → α → α) (seq : List Nat) (out : Array α) (hseq : ∀ i ∈ seq, i < n)
    (hsafe : ∀ i ∈ seq, ds[i]! < n ∨ out.size ≤ n) :
    sweepUpM (ds.map (enc t n)) upd (seq.map (enc t n)) out = sweepUp ds upd seq out :=
  sweepUpM_eq hc ds hsz upd upd seq out hseq hsafe (fun _ _ _ _ => rfl)

theorem sweepUp_refines_body {t : IdxTy} {n : Nat} (hc : Cap t n) (ds : Array Nat) (hsz : ds.size = n)
    (upd updM : Nat → α → α → α) (seq : List Nat) (out : Array α) (hseq : ∀ i ∈ seq, i < n)
    (hsafe : ∀ i ∈ seq, ds[i]! < n ∨ out.size ≤ n) (hu : ∀ i ∈ seq, ∀ a b, updM i a b = upd i a b) :
    sweepUpM (ds.map (enc t n)) updM (seq.map (enc t n)) out = sweepUp ds upd seq out :=
  sweepUpM_eq hc ds hsz upd updM seq out hseq hsafe hu

/-- **dtype independence of every sweep-shaped kernel**: two dtypes with capacity for the network give
the same result array, whatever the body -/
theorem sweepDown_dtype_indep {t1 t2 : IdxTy} {n : Nat} (h1 : Cap t1 n) (h2 : Cap t2 n) (ds : Array Nat)
    (hsz : ds.size = n) (g : Nat → α → α → α) (seq : List Nat) (out : Array α) (hseq : ∀ i ∈ seq, i < n)
    (hsafe : ∀ i ∈ seq, ds[i]! < n ∨ out.size ≤ n) :
    sweepDownM (ds.map (enc t1 n)) g (seq.map (enc t1 n)) out
      = sweepDownM (ds.map (enc t2 n)) g (seq.map (enc t2 n)) out := by
  rw [sweepDown_refines h1 ds hsz g seq out hseq hsafe, sweepDown_refines h2 ds hsz g seq out hseq hsafe]

theorem sweepUp_dtype_indep {t1 t2 : IdxTy} {n : Nat} (h1 : Cap t1 n) (h2 : Cap t2 n) (ds : Array Nat)
    (hsz : ds.size = n) (upd : Nat → α → α → α) (seq : List Nat) (out : Array α) (hseq : ∀ i ∈ seq, i < n)
    (hsafe : ∀ i ∈ seq, ds[i]! < n ∨ out.size ≤ n) :
    sweepUpM (ds.map (enc t1 n)) upd (seq.map (enc t1 n)) out
      = sweepUpM (ds.map (enc t2 n)) upd (seq.map (enc t2 n)) out := by
  rw [sweepUp_refines h1 ds hsz upd seq out hseq hsafe, sweepUp_refines h2 ds hsz upd seq out hseq hsafe]

/-- **machine arrays that come from outside** (what the harness sends: the raw values of a NumPy index
array whose entries are the sentinel or in range): the machine sweep equals the `Nat` sweep on the
DECODED arrays - decoding is the harness' `canon_idx` -/
theorem sweepDown_of_machine {t : IdxTy} {n : Nat} (hc : Cap t n) (dsM : Array (BitVec t.w))
    (hsz : dsM.size = n) (hwf : ∀ v ∈ dsM, WfM t n v) (g : Nat → α → α → α) (seqM : List (BitVec t.w))
    (out : Array α) (hseq : ∀ v ∈ seqM, v.toNat < n)
    (hsafe : ∀ v ∈ seqM, dec t n dsM[v.toNat]! < n ∨ out.size ≤ n) :
    sweepDownM dsM g seqM out = sweepDown (dsM.map (dec t n)) g (seqM.map (dec t n)) out := by
  have e1 := map_enc_dec dsM hwf
  have e2 := list_map_enc_dec seqM (fun v hv => Or.inr (hseq v hv))
  calc sweepDownM dsM g seqM out
      = sweepDownM ((dsM.map (dec t n)).map (enc t n)) g ((seqM.map (dec t n)).map (enc t n)) out := by
        rw [e1, e2]
    _ = _ := by
        apply sweepDown_refines hc _ (by simpa using hsz)
        · intro i hi
          obtain ⟨v, hv, rfl⟩ := List.mem_map.1 hi
          rw [dec_cell hc (hseq v hv)]; exact hseq v hv
        · intro i hi
          obtain ⟨v, hv, rfl⟩ := List.mem_map.1 hi
          rw [dec_cell hc (hseq v hv), map_get! dsM (dec t n) (by rw [hsz]; exact hseq v hv)]
          exact hsafe v hv

theorem sweepUp_of_machine {t : IdxTy} {n : Nat} (hc : Cap t n) (dsM : Array (BitVec t.w))
    (hsz : dsM.size = n) (hwf : ∀ v ∈ dsM, WfM t n v) (upd : Nat → α → α → α) (seqM : List (BitVec t.w))
    (out : Array α) (hseq : ∀ v ∈ seqM, v.toNat < n)
    (hsafe : ∀ v ∈ seqM, dec t n dsM[v.toNat]! < n ∨ out.size ≤ n) :
    sweepUpM dsM upd seqM out = sweepUp (dsM.map (dec t n)) upd (seqM.map (dec t n)) out := by
  have e1 := map_enc_dec dsM hwf
  have e2 := list_map_enc_dec seqM (fun v hv => Or.inr (hseq v hv))
  calc sweepUpM dsM upd seqM out
      = sweepUpM ((dsM.map (dec t n)).map (enc t n)) upd ((seqM.map (dec t n)).map (enc t n)) out := by
        rw [e1, e2]
    _ = _ := by
        apply sweepUp_refines hc _ (by simpa using hsz)
        · intro i hi
          obtain ⟨v, hv, rfl⟩ := List.mem_map.1 hi
          rw [dec_cell hc (hseq v hv)]; exact hseq v hv
        · intro i hi
          obtain ⟨v, hv, rfl⟩ := List.mem_map.1 hi
          rw [dec_cell hc (hseq v hv), map_get! dsM (dec t n) (by rw [hsz]; exact hseq v hv)]
          exact hsafe v hv

end sweeps

/-- **trace, machine = abstract**: `core._trace` on the encoded array (stop tests `idx1 == idx0`,
`idx1 == mv` on machine values) returns the encoding of what `Pf.trace` returns on the abstract array -
for every mask, length limit, step-length function, fuel, start cell and accumulator -/
theorem trace_refines {t : IdxTy} {n : Nat} (hc : Cap t n) (nxt : Array Nat) (hsz : nxt.size = n)
    (hwf : ∀ i, i < n → nxt[i]! ≤ n) (mask : Option (Array Bool)) (maxLen : Option Int)
    (step : Nat → Nat → Int) (fuel i0 : Nat) (acc : List Nat) (dist : Int) (hi0 : i0 < n) :
    traceM (nxt.map (enc t n)) t.mv mask maxLen step fuel (enc t n i0) (acc.map (enc t n)) dist
      = encRes t n (trace nxt mask maxLen step fuel i0 acc dist) :=
  traceM_eq hc nxt hsz hwf mask maxLen step fuel i0 acc dist hi0

/-- the traced cells and the traced length do not depend on the dtype: the machine runs under two
dtypes are the two encodings of one abstract result -/
theorem trace_dtype_indep {t1 t2 : IdxTy} {n : Nat} (h1 : Cap t1 n) (h2 : Cap t2 n) (nxt : Array Nat)
    (hsz : nxt.size = n) (hwf : ∀ i, i < n → nxt[i]! ≤ n) (mask : Option (Array Bool))
    (maxLen : Option Int) (step : Nat → Nat → Int) (fuel i0 : Nat) (hi0 : i0 < n) :
    ∃ r, traceFromM (nxt.map (enc t1 n)) t1.mv mask maxLen step fuel (enc t1 n i0) = encRes t1 n r ∧
         traceFromM (nxt.map (enc t2 n)) t2.mv mask maxLen step fuel (enc t2 n i0) = encRes t2 n r :=
  ⟨traceFrom nxt mask maxLen step fuel i0,
   trace_refines h1 nxt hsz hwf mask maxLen step fuel i0 [i0] 0 hi0,
   trace_refines h2 nxt hsz hwf mask maxLen step fuel i0 [i0] 0 hi0⟩

/-- trace on machine arrays that come from outside: equals the abstract trace on the decoded array -/
theorem trace_of_machine {t : IdxTy} {n : Nat} (hc : Cap t n) (nxtM : Array (BitVec t.w))
    (hsz : nxtM.size = n) (hwf : ∀ v ∈ nxtM, WfM t n v) (mask : Option (Array Bool)) (maxLen : Option Int)
    (step : Nat → Nat → Int) (fuel : Nat) (v0 : BitVec t.w) (hv0 : v0.toNat < n) :
    traceFromM nxtM t.mv mask maxLen step fuel v0
      = encRes t n (traceFrom (nxtM.map (dec t n)) mask maxLen step fuel (dec t n v0)) := by
  have e1 := map_enc_dec nxtM hwf
  have e0 : enc t n (dec t n v0) = v0 := enc_dec' (Or.inr hv0)
  have hd : dec t n v0 < n := by rw [dec_cell hc hv0]; exact hv0
  have h := trace_refines hc (nxtM.map (dec t n)) (by simpa using hsz)
    (fun i hi => by
      rw [map_get! nxtM (dec t n) (by rw [hsz]; exact hi)]
      exact dec_le (hwf _ (by
        rw [getElem!_pos nxtM i (by rw [hsz]; exact hi)]; exact Array.getElem_mem _)))
    mask maxLen step fuel (dec t n v0) [dec t n v0] 0 hd
  rw [e1] at h
  simp only [List.map_cons, List.map_nil, e0] at h
  exact h

/-! ### kernels that are definitional instances -/

/-- **`core.fillnodata_upstream` (basins, sub-basin fill, unit catchments) is dtype independent** -/
theorem fillnodata_upstream_mach {t : IdxTy} {n : Nat} (hc : Cap t n) (ds : Array Nat) (hsz : ds.size = n)
    (seq : List Nat) (data : Array Int) (nodata : Int) (hseq : ∀ i ∈ seq, i < n)
    (hsafe : ∀ i ∈ seq, ds[i]! < n ∨ data.size ≤ n) :
    fillnodataUpstreamM (ds.map (enc t n)) (seq.map (enc t n)) data nodata
      = fillnodataUpstream ds seq data nodata :=
  sweepDown_refines hc ds hsz (gFillNd nodata) seq data hseq hsafe

/-- **`streams.accuflux` is dtype independent** (the nodata guard reads `data[idxs_ds[idx0]]` at the
machine position) -/
theorem accuflux_mach {t : IdxTy} {n : Nat} (hc : Cap t n) (ds : Array Nat) (hsz : ds.size = n)
    (seq : List Nat) (data : Array Int) (nodata : Int) (hseq : ∀ i ∈ seq, i < n)
    (hsafe : ∀ i ∈ seq, ds[i]! < n ∨ data.size ≤ n) :
    accufluxM (ds.map (enc t n)) (seq.map (enc t n)) data nodata = accuflux ds seq data nodata := by
  apply sweepUp_refines_body hc ds hsz _ _ seq data hseq hsafe
  intro i hi a b
  have hin := hseq i hi
  have e : linkOkM (ds.map (enc t n)) data nodata i = linkOk ds data nodata i := by
    unfold linkOkM linkOk
    rw [map_get! ds (enc t n) (by omega), read_enc hc data ds[i]! (hsafe i hi)]
  simp only [updAdd, e]

/-- **`streams.accuflux_ds` is dtype independent** (pit test inside the body on machine values) -/
theorem accuflux_ds_mach {t : IdxTy} {n : Nat} (hc : Cap t n) (ds : Array Nat) (hsz : ds.size = n)
    (seq : List Nat) (data : Array Int) (nodata : Int) (hseq : ∀ i ∈ seq, i < n)
    (hsafe : ∀ i ∈ seq, ds[i]! < n ∨ data.size ≤ n) :
    accufluxDsM (ds.map (enc t n)) (seq.map (enc t n)) data nodata = accufluxDs ds seq data nodata := by
  apply sweepDown_refines_body hc ds hsz _ _ seq data hseq hsafe
  intro i hi a b
  have hin := hseq i hi
  have e : linkOkM (ds.map (enc t n)) data nodata i = linkOk ds data nodata i := by
    unfold linkOkM linkOk
    rw [map_get! ds (enc t n) (by omega), read_enc hc data ds[i]! (hsafe i hi)]
  have e3 : (ds.map (enc t n))[i]! ≠ BitVec.ofNat t.w i ↔ ds[i]! ≠ i := by
    rw [map_get! ds (enc t n) (by omega), ← enc_cell hin]; exact not_congr (enc_inj' hc hin _)
  simp only [gAddDownM, gAddDown, e, e3]

/-- **`core._trace` / `path` is dtype independent** -/
theorem trace_mach {t : IdxTy} {n : Nat} (hc : Cap t n) (nxt : Array Nat) (hsz : nxt.size = n)
    (hwf : ∀ i, i < n → nxt[i]! ≤ n) (mask : Option (Array Bool)) (maxLen : Option Int)
    (step : Nat → Nat → Int) (fuel i0 : Nat) (hi0 : i0 < n) :
    traceFromM (nxt.map (enc t n)) t.mv mask maxLen step fuel (enc t n i0)
      = encRes t n (traceFrom nxt mask maxLen step fuel i0) :=
  trace_refines hc nxt hsz hwf mask maxLen step fuel i0 [i0] 0 hi0

/-- **transport of a property theorem to the machine level**: the first-valid-value characterisation of
`fillnodata_upstream` (`Pf.fill_first_valid`, the core of C05 / C14) holds of the machine run under
every index dtype -/
theorem fillnodata_upstream_mach_first_valid {t : IdxTy} {n : Nat} (hc : Cap t n) (ds : Array Nat)
    (hsz : ds.size = n) (seq : List Nat) (data : Array Int) (nodata : Int) (htopo : Topo ds seq)
    (hseq : ∀ i ∈ seq, i < n) (hb : ∀ i ∈ seq, i < data.size)
    (hsafe : ∀ i ∈ seq, ds[i]! < n ∨ data.size ≤ n) :
    ∀ i ∈ seq, FirstValid ds data nodata i
      (fillnodataUpstreamM (ds.map (enc t n)) (seq.map (enc t n)) data nodata)[i]! := by
  rw [fillnodata_upstream_mach hc ds hsz seq data nodata hseq hsafe]
  exact fill_first_valid ds data nodata seq htopo hb

/-- the four dtypes side by side for `fillnodata_upstream` -/
theorem fillnodata_upstream_dtype_indep {t1 t2 : IdxTy} {n : Nat} (h1 : Cap t1 n) (h2 : Cap t2 n)
    (ds : Array Nat) (hsz : ds.size = n) (seq : List Nat) (data : Array Int) (nodata : Int)
    (hseq : ∀ i ∈ seq, i < n) (hsafe : ∀ i ∈ seq, ds[i]! < n ∨ data.size ≤ n) :
    fillnodataUpstreamM (ds.map (enc t1 n)) (seq.map (enc t1 n)) data nodata
      = fillnodataUpstreamM (ds.map (enc t2 n)) (seq.map (enc t2 n)) data nodata :=
  sweepDown_dtype_indep h1 h2 ds hsz _ seq data hseq hsafe

/-! ## 3. index arithmetic sites -/

/-- **the two promotion tables** (both probed on the installed NumPy / Numba by the harness).
NumPy (typed scalars and arrays in the interpreter; array expressions under Numba): an index-typed
value meeting an `int64` gives `int64` for `int32`, `uint32`, `int64` and `float64` for `uint64` - the
F16b / F16d defect class. Numba scalars (NBEP 1): `int64` for all four index types, `uint64` for two
unsigned operands (where `abs(int(a) - int(b))` wrapped, F07d). The repaired code converts first
(`np.int64(idx0)`, `int(idxs_fix[i0])`): both operands are `int64` under either table. -/
theorem promotion_tables :
    (numpyPromote i32 i64 = some i64 ∧ numpyPromote u32 i64 = some i64 ∧ numpyPromote i64 i64 = some i64 ∧
      numpyPromote u64 i64 = none ∧ numpyPromote u32 i32 = some i64) ∧
    (numbaScalar i32 i64 = i64 ∧ numbaScalar u32 i64 = i64 ∧ numbaScalar i64 i64 = i64 ∧
      numbaScalar u64 i64 = i64 ∧ numbaScalar u32 u32 = u64 ∧ numbaScalar u64 u64 = u64 ∧
      numbaScalar i32 i32 = i64) := by decide

/-- after conversion of both operands to `int64` (the repaired sites) neither table leaves `int64` -/
theorem repaired_sites_stay_int64 :
    numpyPromote i64 i64 = some i64 ∧ numbaScalar i64 i64 = i64 := by decide

/-- conversion to `int64` keeps the value of every cell index (and of the signed sentinel) -/
theorem to_int64_exact {t : IdxTy} {n i : Nat} (hc : Cap t n) (h63 : n < 2 ^ 63) (hi : i < n) :
    (toI64 t (enc t n i)).toInt = (i : Int) := by
  rw [toI64_enc hc hi]; exact toInt_ofInt_64 _ (by omega) (by omega)

theorem to_int64_sentinel {t : IdxTy} (hw : 0 < t.w) (hs : t.signed = true) :
    (toI64 t t.mv).toInt = -1 := by
  rw [toI64_mv_signed hw hs]; exact toInt_ofInt_64 _ (by omega) (by omega)

/-- **`from_array` decoders** (D8, LDD, NEXTXY), `_d8_idx`, `_downstream_idx`, `_upstream_idx`:
`idx_ds = c_ds + r_ds * ncol` on `int64` row / column numbers does not wrap, and storing it into the
index array (`idxs_ds[idx0] = idx_ds`, a truncating cast) yields the encoding of the cell
`r * ncol + c` - for every dtype with capacity for the raster -/
theorem from_array_store_exact {t : IdxTy} {nrow ncol r c : Nat} (hc : Cap t (nrow * ncol))
    (ht : t.w ≤ 64) (h63 : nrow * ncol < 2 ^ 63) (hr : r < nrow) (hcc : c < ncol) :
    (linIdx64 (BitVec.ofNat 64 r) (BitVec.ofNat 64 c) (BitVec.ofNat 64 ncol)).toInt
        = ((r * ncol + c : Nat) : Int) ∧
    storeIdx t (linIdx64 (BitVec.ofNat 64 r) (BitVec.ofNat 64 c) (BitVec.ofNat 64 ncol))
        = enc t (nrow * ncol) (r * ncol + c) ∧
    dec t (nrow * ncol) (storeIdx t (linIdx64 (BitVec.ofNat 64 r) (BitVec.ofNat 64 c) (BitVec.ofNat 64 ncol)))
        = r * ncol + c := by
  have hlt := lin_lt hr hcc
  rw [linIdx64_eq, storeIdx_cell ht hlt, dec_enc' hc (Nat.le_of_lt hlt)]
  exact ⟨toInt_ofInt_64 _ (by omega) (by omega), rfl, rfl⟩

/-- the initial fill `np.full(size, core._mv, dtype)`: the `intp` value `-1` stored into the index
array is the dtype's sentinel -/
theorem from_array_fill_sentinel (t : IdxTy) (ht : t.Std) : storeIdx t (BitVec.ofInt 64 (-1)) = t.mv := by
  obtain ⟨w, sg⟩ := t
  rcases ht with h | h <;> simp only at h <;> subst h <;> cases sg <;> decide

/-- **neighbour computation, operands `int64`** (Numba scalars for all four index types - `uint64` is
reinterpreted, exact below `2^63`; the repaired `ihu_minimize_error` and `core._d8_idx`): whenever the
mathematical neighbour
`i + dr*ncol + dc` is a cell `j`, the machine value is exactly `j` -/
theorem nbr64_exact {t : IdxTy} {n i j : Nat} (hc : Cap t n) (h63 : n < 2 ^ 63) (hi : i < n) (hj : j < n)
    (ncol : Nat) (dr dc : Int) (h : (i : Int) + dr * ncol + dc = j) :
    (nbr64 t (enc t n i) (BitVec.ofNat 64 ncol) dr dc).toInt = (j : Int) := by
  rw [nbr64_eq hc hi, h]; exact toInt_ofInt_64 _ (by omega) (by omega)

/-- **neighbour computation at the index type itself** (NumPy >= 2 interpreter: `idx0 - ncol - 1` with
Python ints stays `uint32` / `uint64`; intermediate values may wrap): whenever the mathematical
neighbour is a cell `j`, the machine result is the encoding of `j` -/
theorem nbrT_exact {t : IdxTy} {n i j : Nat} (hi : i < n) (hj : j < n) (ncol : Nat) (dr dc : Int)
    (h : (i : Int) + dr * ncol + dc = j) : nbrT t (enc t n i) ncol dr dc = enc t n j := by
  rw [nbrT_eq hi, h, enc_cell hj, BitVec.ofInt_natCast]

/-- **`idx // ncol`, `idx % ncol`** at the index type (Python-int divisor, regime P) and after
unification to `int64` (regime N): row and column of the cell, for every dtype -/
theorem row_col_exact {t : IdxTy} {n i : Nat} (hc : Cap t n) (hi : i < n) (ncol : Nat) (hn : ncol ≤ n) :
    rowT t (enc t n i) ncol = enc t n (i / ncol) ∧ colT t (enc t n i) ncol = enc t n (i % ncol) :=
  ⟨rowT_eq hc hi ncol hn, colT_eq hc hi ncol hn⟩

theorem row_col_exact_64 {t : IdxTy} {n i : Nat} (hc : Cap t n) (h63 : n < 2 ^ 63) (hi : i < n) (ncol : Nat)
    (hn : ncol ≤ n) :
    (row64 t (enc t n i) (BitVec.ofNat 64 ncol)).toInt = ((i / ncol : Nat) : Int) ∧
    (col64 t (enc t n i) (BitVec.ofNat 64 ncol)).toInt = ((i % ncol : Nat) : Int) := by
  have hq : i / ncol < n := Nat.lt_of_le_of_lt (Nat.div_le_self _ _) hi
  have hm : i % ncol < n := Nat.lt_of_le_of_lt (Nat.mod_le _ _) hi
  rw [row64_eq hc h63 hi ncol hn, col64_eq hc h63 hi ncol hn]
  exact ⟨toInt_ofInt_nat64 _ (by omega), toInt_ofInt_nat64 _ (by omega)⟩

/-- **repaired `dem.dig_4connectivity`**: `abs(np.int64(idx0) - np.int64(idx_ds))` is the distance of
the two cell indices, for every dtype (fix b088814 / 23a01f9) -/
theorem absdiff_repaired_exact {t : IdxTy} {n i j : Nat} (hc : Cap t n) (h63 : n < 2 ^ 63) (hi : i < n)
    (hj : j < n) : (absDiff64 t (enc t n i) (enc t n j)).toInt = (((i : Int) - j).natAbs : Int) :=
  absDiff64_eq hc h63 hi hj

/-- **the unrepaired form wraps on the unsigned types - for EVERY link that points to a larger index**:
`abs(idx0 - idx_ds)` evaluates to `2^w - (j - i)` instead of `j - i` -/
theorem absdiff_unrepaired_unsigned_wraps {t : IdxTy} {n i j : Nat} (hc : Cap t n) (hs : t.signed = false)
    (hi : i < n) (hj : j < n) (hij : i < j) :
    (absDiffT t (enc t n i) (enc t n j)).toNat = 2 ^ t.w - (j - i) :=
  absDiffT_unsigned hc hs hi hj hij

/-- … so it is never the true distance when that is below half the range (all raster links) -/
theorem absdiff_unrepaired_unsigned_wrong {t : IdxTy} {n i j : Nat} (hc : Cap t n) (hs : t.signed = false)
    (hi : i < n) (hj : j < n) (hij : i < j) (hd : 2 * (j - i) < 2 ^ t.w) :
    (absDiffT t (enc t n i) (enc t n j)).toNat ≠ j - i := by
  rw [absDiffT_unsigned hc hs hi hj hij]; omega

/-- **the intermediate form `abs(int(idx0) - int(idx_ds))` under the JIT** (between b088814 and
23a01f9): `int()` keeps the unsigned type, Numba computes in `uint64`, the difference wraps to
`2^64 - (j - i)` - for `uint32` as well as `uint64` indices (F07d) -/
theorem absdiff_unrepaired_jit_unsigned_wraps {t : IdxTy} {n i j : Nat} (hc : Cap t n) (ht : t.w ≤ 64)
    (hs : t.signed = false) (hi : i < n) (hj : j < n) (hij : i < j) :
    (absDiffJit t (enc t n i) (enc t n j)).toNat = 2 ^ 64 - (j - i) :=
  absDiffJit_unsigned hc ht hs hi hj hij

/-- on the signed types the unrepaired form was exact (which is why only `uint32` / `uint64` failed) -/
theorem absdiff_unrepaired_signed_exact {t : IdxTy} {n i j : Nat} (hc : Cap t n) (hs : t.signed = true)
    (hi : i < n) (hj : j < n) :
    (absDiffT t (enc t n i) (enc t n j)).toInt = (((i : Int) - j).natAbs : Int) :=
  absDiffT_signed hc hs hi hj

/-- **`upscale.subidx_2_idx`** in both typing regimes: the coarse cell index
`(subidx // subncol // cellsize) * ncol + (subidx % subncol) // cellsize`, exactly, whenever that
number fits `int64` -/
theorem subidx2idx_exact {t : IdxTy} {n i : Nat} (hc : Cap t n) (h63 : n < 2 ^ 63) (hi : i < n)
    (regimeP : Bool) (subncol cellsize ncol : Nat) (hsn : subncol ≤ n) (hcs : cellsize < 2 ^ 63)
    (hres : (i / subncol / cellsize) * ncol + (i % subncol) / cellsize < 2 ^ 63) :
    (subidx2idx t regimeP (enc t n i) subncol cellsize ncol).toInt
      = (((i / subncol / cellsize) * ncol + (i % subncol) / cellsize : Nat) : Int) := by
  rw [subidx2idx_eq hc h63 hi regimeP subncol cellsize ncol hsn hcs]
  exact toInt_ofInt_nat64 _ hres

/-- **`upscale.in_d8`** (and the `dr`, `dc` of `gis_utils.distance`): the test on machine values is the
test on rows and columns -/
theorem in_d8_exact {t : IdxTy} {n i j : Nat} (hc : Cap t n) (h63 : n < 2 ^ 63) (hi : i < n) (hj : j < n)
    (ncol : Nat) (hn : ncol ≤ n) :
    inD8 t (enc t n i) (enc t n j) ncol
      = (decide ((((j % ncol : Nat) : Int) - ((i % ncol : Nat) : Int)).natAbs ≤ 1)
          && decide ((((j / ncol : Nat) : Int) - ((i / ncol : Nat) : Int)).natAbs ≤ 1)) :=
  inD8_eq hc h63 hi hj ncol hn

/-- **`dem._local_d4`, diagonal step, at the index type** (regime P; the unused list entries may wrap):
for a cell `i` whose diagonal neighbour `j = i + dr*ncol + dc` and the two D4 cells `a = i + dr*ncol`,
`b = i + dc` lie in the raster, `list.index` finds the direction and the function returns the
encodings of the two D4 cells (in the order of the code's list slices) -/
theorem local_d4_exact {t : IdxTy} {n i j a b : Nat} (hc : Cap t n) (hi : i < n) (hj : j < n) (ha : a < n)
    (hb : b < n) (ncol : Nat) (dr dc : Int) (hdr : dr = 1 ∨ dr = -1) (hdc : dc = 1 ∨ dc = -1)
    (h2 : 2 ≤ ncol) (h2n : 2 * ncol ≤ n)
    (hjv : (i : Int) + dr * ncol + dc = j) (hav : (i : Int) + dr * ncol = a) (hbv : (i : Int) + dc = b) :
    localD4T t (enc t n i) (enc t n j) ncol
      = some (if dr = dc then [enc t n a, enc t n b] else [enc t n b, enc t n a]) := by
  have hcb := (cap_bound hc).1
  unfold localD4T
  rw [enc_cell hi, enc_cell hj, enc_cell ha, enc_cell hb]
  simp only [ofNat_eq_ofInt]
  rw [← hjv, ← hav, ← hbv]
  exact localD4_ofInt i ncol dr dc hdr hdc h2 (by omega)

/-- the same after unification to `int64` (regime N: what the JIT computes for `int32`, `uint32`,
`int64` at every capacity and for `uint64` below `2^53` cells - above, Numba's mixed-sign `==` inside
`list.index` goes through `float64`; no such raster can be allocated) -/
theorem local_d4_exact_64 {t : IdxTy} {n i j a b : Nat} (hc : Cap t n) (h63 : n < 2 ^ 63) (hi : i < n)
    (hj : j < n) (ncol : Nat) (dr dc : Int) (hdr : dr = 1 ∨ dr = -1) (hdc : dc = 1 ∨ dc = -1)
    (h2 : 2 ≤ ncol) (h2n : 2 * ncol ≤ n)
    (hjv : (i : Int) + dr * ncol + dc = j) (hav : (i : Int) + dr * ncol = a) (hbv : (i : Int) + dc = b) :
    localD4N t (enc t n i) (enc t n j) (BitVec.ofNat 64 ncol)
      = some (if dr = dc then [BitVec.ofInt 64 (a : Int), BitVec.ofInt 64 (b : Int)]
              else [BitVec.ofInt 64 (b : Int), BitVec.ofInt 64 (a : Int)]) := by
  unfold localD4N
  rw [toI64_enc hc hi, toI64_enc hc hj, ofNat_eq_ofInt, ← hjv, ← hav, ← hbv]
  exact localD4_ofInt i ncol dr dc hdr hdc h2 (by omega)

/-- a diagonal neighbour inside the raster implies the side conditions of `local_d4_exact` -/
theorem local_d4_geometry {nrow ncol r c : Nat} {dr dc : Int} (hr : r < nrow) (hcc : c < ncol)
    (hdr : dr = 1 ∨ dr = -1) (hdc : dc = 1 ∨ dc = -1)
    (hr' : 0 ≤ (r : Int) + dr ∧ (r : Int) + dr < nrow) (hc' : 0 ≤ (c : Int) + dc ∧ (c : Int) + dc < ncol) :
    2 ≤ ncol ∧ 2 * ncol ≤ nrow * ncol :=
  diag_geom hr hcc hdr hdc hr' hc'

/-- `_local_d4` at a pit (`idx_ds == idx0`): west, south, east, north -/
theorem local_d4_pit {w : Nat} (idx0 nc : BitVec w) :
    localD4 idx0 idx0 nc = some [idx0 - 1, idx0 + nc, idx0 + 1, idx0 - nc] :=
  localD4_pit idx0 nc

/-! ## non-vacuity: a 2×3 raster, cell 1 is the pit, 0, 2, 4 drain to 1, 5 drains to 4, cell 3 is missing -/

-- the encodings: one bit pattern for the missing value, read -1 / maximum
example : (#[1, 1, 1, 6, 1, 4] : Array Nat).map (enc u32 6)
    = #[1#32, 1#32, 1#32, 4294967295#32, 1#32, 4#32] := by decide +kernel
example : ((#[1, 1, 1, 6, 1, 4] : Array Nat).map (enc i64 6)).map (val i64) = #[1, 1, 1, -1, 1, 4] := by decide +kernel
example : ((#[1, 1, 1, 6, 1, 4] : Array Nat).map (enc u64 6)).map (val u64)
    = #[1, 1, 1, 18446744073709551615, 1, 4] := by decide +kernel
example : ((#[1, 1, 1, 6, 1, 4] : Array Nat).map (enc i32 6)).map (dec i32 6) = #[1, 1, 1, 6, 1, 4] := by decide +kernel
example : Cap i32 6 ∧ Cap u32 6 ∧ Cap i64 6 ∧ Cap u64 6 := by decide
example : selectDtype 6 = i32 ∧ selectDtype 3000000000 = u32 ∧ selectDtype 5000000000 = u64 := by decide
-- the sentinel passes `idx < size` when read signed, fails when read unsigned
example : ltM i32 i32.mv (enc i32 6 5) = true ∧ ltM u32 u32.mv (enc u32 6 5) = false := by decide

-- the machine sweeps on the four dtypes and the abstract sweep: fill upstream, accumulate, trace
example : fillnodataUpstreamM ((#[1, 1, 1, 6, 1, 4] : Array Nat).map (enc u32 6))
    ([1, 0, 2, 4, 5].map (enc u32 6)) #[-1, 7, -1, -1, 9, -1] (-1) = #[7, 7, 7, -1, 9, 9] := by decide +kernel
example : fillnodataUpstreamM ((#[1, 1, 1, 6, 1, 4] : Array Nat).map (enc i64 6))
    ([1, 0, 2, 4, 5].map (enc i64 6)) #[-1, 7, -1, -1, 9, -1] (-1) = #[7, 7, 7, -1, 9, 9] := by decide +kernel
example : fillnodataUpstream #[1, 1, 1, 6, 1, 4] [1, 0, 2, 4, 5] #[-1, 7, -1, -1, 9, -1] (-1)
    = #[7, 7, 7, -1, 9, 9] := by decide
example : accufluxM ((#[1, 1, 1, 6, 1, 4] : Array Nat).map (enc u64 6)) ([1, 0, 2, 4, 5].map (enc u64 6))
    #[1, 1, 1, 100, 1, 1] (-9999) = #[1, 5, 1, 100, 2, 1] := by decide +kernel
example : accufluxM ((#[1, 1, 1, 6, 1, 4] : Array Nat).map (enc i32 6)) ([1, 0, 2, 4, 5].map (enc i32 6))
    #[1, 1, 1, 100, 1, 1] (-9999) = accuflux #[1, 1, 1, 6, 1, 4] [1, 0, 2, 4, 5] #[1, 1, 1, 100, 1, 1] (-9999) := by decide +kernel
example : accufluxDsM ((#[1, 1, 1, 6, 1, 4] : Array Nat).map (enc u32 6)) ([1, 0, 2, 4, 5].map (enc u32 6))
    #[1, 1, 1, 100, 1, 1] (-9999) = #[2, 1, 2, 100, 2, 3] := by decide +kernel
example : traceFromM ((#[1, 1, 1, 6, 1, 4] : Array Nat).map (enc u32 6)) u32.mv none none (fun _ _ => 1) 7
    (enc u32 6 5) = some ([5#32, 4#32, 1#32], 2) := by decide +kernel
example : traceFrom #[1, 1, 1, 6, 1, 4] none none (fun _ _ => 1) 7 5 = some ([5, 4, 1], 2) := by decide
-- a main-upstream array (missing value inside): the trace stops at the sentinel of each dtype
example : traceFromM ((#[6, 4, 6, 6, 5, 6] : Array Nat).map (enc i32 6)) i32.mv none none (fun _ _ => 1) 7
    (enc i32 6 1) = some ([1#32, 4#32, 5#32], 2) := by decide +kernel
example : traceFromM ((#[6, 4, 6, 6, 5, 6] : Array Nat).map (enc u64 6)) u64.mv none none (fun _ _ => 1) 7
    (enc u64 6 1) = some ([1#64, 4#64, 5#64], 2) := by decide +kernel
-- the hypotheses of the refinement theorems are satisfiable: an instance on this network
example : fillnodataUpstreamM ((#[1, 1, 1, 6, 1, 4] : Array Nat).map (enc u64 6))
      ([1, 0, 2, 4, 5].map (enc u64 6)) #[-1, 7, -1, -1, 9, -1] (-1)
    = fillnodataUpstream #[1, 1, 1, 6, 1, 4] [1, 0, 2, 4, 5] #[-1, 7, -1, -1, 9, -1] (-1) :=
  fillnodata_upstream_mach (t := u64) (n := 6) (by decide) #[1, 1, 1, 6, 1, 4] rfl [1, 0, 2, 4, 5]
    #[-1, 7, -1, -1, 9, -1] (-1) (by decide) (by decide)

-- arithmetic sites. F16: the link 4 -> 5 on unsigned 32-bit indices, unrepaired and repaired
example : (absDiffT u32 (enc u32 6 4) (enc u32 6 5)).toNat = 4294967295 := by decide
example : (absDiff64 u32 (enc u32 6 4) (enc u32 6 5)).toInt = 1 := by decide
example : (absDiffT u64 (enc u64 6 4) (enc u64 6 5)).toNat = 18446744073709551615 := by decide
example : (absDiff64 u64 (enc u64 6 4) (enc u64 6 5)).toInt = 1 := by decide
example : (absDiffT i32 (enc i32 6 4) (enc i32 6 5)).toInt = 1 := by decide
-- F07d: under the JIT `abs(int(a) - int(b))` on uint32 indices is computed in uint64
example : (absDiffJit u32 (enc u32 6 4) (enc u32 6 5)).toNat = 18446744073709551615 := by decide
example : (absDiffJit i32 (enc i32 6 4) (enc i32 6 5)).toInt = 1 := by decide
-- the witnesses of Props/C16.lean are the same defect (reused, not restated)
example : ∃ a b : BitVec 32, a < b ∧ (a - b).toNat ≠ (b.toNat - a.toNat) := Pf.C16.u32_sub_wraps
example : ∃ a b : BitVec 64, a < b ∧ (a - b).toNat ≠ (b.toNat - a.toNat) := Pf.C16.u64_sub_wraps
-- `_local_d4` at cell 1 = (0,1) draining south-east to 5 = (1,2), 3 columns: the `n` entries of the list
-- wrap on uint32 (1 - 3), the selected ones (`s` = 4, `e` = 2) are right
example : d4List (enc u32 6 1) (BitVec.ofNat 32 3) = [4294967294#32, 0#32, 4#32, 2#32, 4294967294#32] := by decide
example : localD4T u32 (enc u32 6 1) (enc u32 6 5) 3 = some [4#32, 2#32] := by decide
example : localD4N u32 (enc u32 6 1) (enc u32 6 5) 3#64 = some [4#64, 2#64] := by decide
example : localD4T i64 (enc i64 6 4) (enc i64 6 0) 3 = some [1#64, 3#64] := by decide
-- decoder: cell (1,2) of a 2x3 raster stored into each dtype; subidx_2_idx of fine cell 17 on a 4x6 raster, cellsize 2
example : dec u32 6 (storeIdx u32 (linIdx64 1#64 2#64 3#64)) = 5 := by decide
example : (subidx2idx u32 true (enc u32 24 17) 6 2 3).toInt = 5 ∧
    (subidx2idx u64 false (enc u64 24 17) 6 2 3).toInt = 5 := by decide
example : inD8 u32 (enc u32 6 1) (enc u32 6 5) 3 = true ∧ inD8 u32 (enc u32 6 0) (enc u32 6 5) 3 = false := by decide

end Pf.C16m
