import PfVerif.Proofs.C13_boundsWalk
import PfVerif.Proofs.C13_boundsRank
import PfVerif.Proofs.C13_boundsSeq
import PfVerif.Props.C03
/-! # C13_bounds - the core kernels never index outside an array

`Model/Core.lean` reads arrays with `a[i]!`, which returns a default outside the array; "in bounds" is
therefore a *statement* about the models, made here. `Model/C13_bounds.lean` repeats every kernel model
of `pyflwdir/core.py` loop for loop with an access log: every scalar read / write `arr[i]` of the Python
source (in its short-circuit evaluation order) adds `(arr, i, size of arr at that moment)`.

For each kernel two theorems, for every input (no size bound):
* `…_log_eq`     the logging variant returns exactly the model the other properties use;
* `…_in_bounds`  on the documented domain - `WF ds` (entries are cell indices or the missing value `n`; a
  cell never points at a missing cell), start indices `< n`, masks / fields of size `n` - every logged index
  is `<` the size of the array it addresses (`InB`). In particular the missing value `n` is never used as an
  index (defect class F16c / C13-16: `strord[idx_ds]` evaluated before `idx_ds == mv`).

The NEGATIVE side (kernel-checked examples at the end): the historical evaluation order does log an
out-of-range index on a network with a cell outside the network. -/
namespace Pf.C13b
open Pf

/-! ### `upstream_count` -/

theorem upstream_count_log_eq (ds : Array Nat) (mask : Option (Array Bool)) :
    (upstreamCountL ds mask).1 = upstreamCount ds mask := by
  unfold upstreamCountL upstreamCount
  exact foldl_fst _ _ (upstreamCountStepL_fst ds mask) _ _

theorem upstream_count_in_bounds (ds : Array Nat) (hwf : WF ds) (mask : Option (Array Bool))
    (hm : ∀ m, mask = some m → m.size = ds.size) : InB (upstreamCountL ds mask).2 := by
  unfold upstreamCountL
  refine (foldl_inv (upstreamCountStepL ds mask) (fun st => st.1.size = ds.size ∧ InB st.2) _ ?_ _ ?_).2
  · intro st x hx h
    exact upstreamCountStepL_inv ds hwf mask hm st x (List.mem_range.1 hx) h
  · simp

/-! ### `main_upstream` -/

theorem main_upstream_log_eq (ds : Array Nat) (uparea : Array Int) (upaMin : Int) :
    (mainUpstreamL ds uparea upaMin).1 = mainUpstream ds uparea upaMin := by
  unfold mainUpstreamL mainUpstream
  dsimp only
  refine congrArg Prod.fst (foldl_fst _ (mainUpstreamStepL ds uparea) ?_ _ _)
  rintro ⟨⟨um, upa⟩, log⟩ x
  unfold mainUpstreamStepL
  dsimp only
  split
  · rfl
  · split <;> rfl

theorem main_upstream_in_bounds (ds : Array Nat) (hwf : WF ds) (uparea : Array Int) (hu : uparea.size = ds.size)
    (upaMin : Int) : InB (mainUpstreamL ds uparea upaMin).2 := by
  unfold mainUpstreamL
  dsimp only
  refine (foldl_inv (mainUpstreamStepL ds uparea)
    (fun st => st.1.1.size = ds.size ∧ st.1.2.size = ds.size ∧ InB st.2) _ ?_ _ ?_).2.2
  · intro st x hx h
    exact mainUpstreamStepL_inv ds hwf uparea hu st x (List.mem_range.1 hx) h
  · simp

/-- the result of `main_upstream` is again an index array of size `n` (entries: cells or the missing value),
so it is a legal `idxs_nxt` of `_trace` and a legal `idxs_us_main` of `_window` -/
theorem main_upstream_idx_array (ds : Array Nat) (uparea : Array Int) (upaMin : Int) :
    (mainUpstream ds uparea upaMin).size = ds.size ∧ IdxArr (mainUpstream ds uparea upaMin) :=
  mainUpstream_idxArr ds uparea upaMin

/-! ### `pit_indices` -/

theorem pit_indices_log_eq (ds : Array Nat) : (pitIndicesL ds).1 = pitIndices ds := by
  unfold pitIndicesL pitIndices
  induction List.range ds.size with
  | nil => rfl
  | cons i l ih =>
    simp only [List.foldr_cons, List.filter_cons]
    rw [ih]

/-- no hypothesis at all: `pit_indices` reads `idxs_ds[idx0]` for `idx0 in range(size)` only -/
theorem pit_indices_in_bounds (ds : Array Nat) : InB (pitIndicesL ds).2 := by
  unfold pitIndicesL
  have : ∀ l : List Nat, (∀ i ∈ l, i < ds.size) →
      InB (l.foldr (fun i (st : List Nat × List Acc) =>
        (if ds[i]! == i then i :: st.1 else st.1, acc Arr.ds ds i :: st.2)) ([], [])).2 := by
    intro l
    induction l with
    | nil => intro _; simp
    | cons i l ih =>
      intro h
      simp only [List.foldr_cons, InB_cons, acc_idx, acc_size]
      exact ⟨h i (List.mem_cons_self ..), ih (fun j hj => h j (List.mem_cons_of_mem _ hj))⟩
  exact this _ (fun i hi => List.mem_range.1 hi)

/-! ### `_trace` / `path` -/

theorem trace_log_eq (nxt : Array Nat) (mask : Option (Array Bool)) (maxLen : Option Int) (step : Nat → Nat → Int)
    (fuel idx0 : Nat) :
    (traceFromL nxt mask maxLen step fuel idx0).map Prod.fst = traceFrom nxt mask maxLen step fuel idx0 :=
  traceL_fst nxt mask maxLen step fuel idx0 [idx0] 0 []

/-- `_trace` over ANY index array (`idxs_ds` downstream, `idxs_us_main` upstream): entries are slots or the
missing value, the start is a slot, the mask has the size of the array -/
theorem trace_in_bounds (nxt : Array Nat) (hn : IdxArr nxt) (mask : Option (Array Bool))
    (hm : ∀ m, mask = some m → m.size = nxt.size) (maxLen : Option Int) (step : Nat → Nat → Int)
    (fuel idx0 : Nat) (hi : idx0 < nxt.size) (r : (List Nat × Int) × List Acc)
    (h : traceFromL nxt mask maxLen step fuel idx0 = some r) : InB r.2 :=
  traceL_inb nxt hn mask hm maxLen step fuel idx0 [idx0] 0 [] r hi InB_nil h

/-- downstream trace on a well-formed network -/
theorem trace_down_in_bounds (ds : Array Nat) (hwf : WF ds) (mask : Option (Array Bool))
    (hm : ∀ m, mask = some m → m.size = ds.size) (maxLen : Option Int) (step : Nat → Nat → Int)
    (fuel idx0 : Nat) (hi : idx0 < ds.size) (r : (List Nat × Int) × List Acc)
    (h : traceFromL ds mask maxLen step fuel idx0 = some r) : InB r.2 :=
  trace_in_bounds ds (IdxArr.of_wf hwf) mask hm maxLen step fuel idx0 hi r h

/-- upstream trace along `main_upstream` of any network (no well-formedness needed for the trace itself) -/
theorem trace_up_in_bounds (ds : Array Nat) (uparea : Array Int) (upaMin : Int) (mask : Option (Array Bool))
    (hm : ∀ m, mask = some m → m.size = ds.size) (maxLen : Option Int) (step : Nat → Nat → Int)
    (fuel idx0 : Nat) (hi : idx0 < ds.size) (r : (List Nat × Int) × List Acc)
    (h : traceFromL (mainUpstream ds uparea upaMin) mask maxLen step fuel idx0 = some r) : InB r.2 := by
  obtain ⟨hsz, hidx⟩ := mainUpstream_idxArr ds uparea upaMin
  exact trace_in_bounds _ hidx mask (fun m hm' => (hm m hm').trans hsz.symm) maxLen step fuel idx0 (hsz ▸ hi) r h

/-! ### `_window` -/

theorem window_down_log_eq (ds : Array Nat) (strord : Option (Array Int)) (s0 : Int) (w k pos idx0 : Nat)
    (acc0 : List Nat) (log : List Acc) :
    (windowDownL ds strord s0 w k pos idx0 acc0 log).1 = windowDown ds strord s0 k idx0 acc0 :=
  windowDownL_fst ds strord s0 w k pos idx0 acc0 log

theorem window_log_eq (ds usMain : Array Nat) (strord : Option (Array Int)) (n idx0 : Nat) :
    (windowL ds usMain strord n idx0).1 = window ds usMain strord n idx0 := by
  unfold windowL window
  dsimp only
  rw [windowDownL_fst, windowUpL_fst]
  cases strord <;> rfl

/-- the downstream half: the missing value is never used as an index of `strord` (nor of `idxs_ds`) -/
theorem window_down_in_bounds (ds : Array Nat) (hwf : WF ds) (strord : Option (Array Int))
    (hs : ∀ s, strord = some s → s.size = ds.size) (s0 : Int) (n idx0 : Nat) (hi : idx0 < ds.size) :
    InB (windowDownL ds strord s0 n n (n + 1) idx0 [] []).2 :=
  windowDownL_inb ds (IdxArr.of_wf hwf) strord hs s0 n n (n + 1) idx0 [] [] hi (by omega) InB_nil

/-- the whole `_window` (both halves, the `2n+1` result slots included) -/
theorem window_in_bounds (ds usMain : Array Nat) (hwf : WF ds) (hus : IdxArr usMain) (hsz : usMain.size = ds.size)
    (strord : Option (Array Int)) (hs : ∀ s, strord = some s → s.size = ds.size) (n idx0 : Nat)
    (hi : idx0 < ds.size) : InB (windowL ds usMain strord n idx0).2 := by
  unfold windowL
  dsimp only
  apply windowUpL_inb ds usMain hus hsz n n idx0 _ _ hi (Nat.le_refl _)
  simp only [InB_cons]
  refine ⟨by omega, ?_⟩
  apply windowDownL_inb ds (IdxArr.of_wf hwf) strord hs _ n n (n + 1) idx0 _ _ hi (by omega)
  apply InB_accOpt _ _ _ _ _ hs hi
  simp only [InB_cons, InB_nil, and_true]
  omega

/-- `_window` with the library's own `main_upstream` -/
theorem window_main_in_bounds (ds : Array Nat) (hwf : WF ds) (uparea : Array Int) (upaMin : Int)
    (strord : Option (Array Int)) (hs : ∀ s, strord = some s → s.size = ds.size) (n idx0 : Nat)
    (hi : idx0 < ds.size) : InB (windowL ds (mainUpstream ds uparea upaMin) strord n idx0).2 :=
  window_in_bounds ds _ hwf (mainUpstream_idxArr ds uparea upaMin).2 (mainUpstream_idxArr ds uparea upaMin).1
    strord hs n idx0 hi

/-! ### `rank`, `loop_indices` -/

theorem rank_log_eq (ds : Array Nat) : (rankL ds).map Prod.fst = rank ds := rankL_fst ds

/-- every access of `rank` (outer loop, the `while True` walk, both pop loops) is in bounds on a well-formed
network, cycles included -/
theorem rank_in_bounds (ds : Array Nat) (hwf : WF ds) (r : (Array Int × Nat) × List Acc)
    (h : rankL ds = some r) : InB r.2 := (rankL_inb ds hwf r h).2

/-- and there is such a run (the logging variant returns whenever the model does: always, C13.rank_total) -/
theorem rank_log_total (ds : Array Nat) (hwf : WF ds) : (rankL ds).isSome = true := by
  have h := rankL_fst ds
  obtain ⟨r, c, hr, _⟩ := C03.rank_cert ds hwf
  cases hl : rankL ds with
  | none => rw [hl, hr] at h; simp at h
  | some _ => rfl

theorem loop_indices_log_eq (ds : Array Nat) : (loopIndicesL ds).map Prod.fst = loopIndices ds := by
  unfold loopIndicesL loopIndices
  rw [← rankL_fst ds]
  cases rankL ds <;> rfl

theorem loop_indices_in_bounds (ds : Array Nat) (hwf : WF ds) (r : List Nat × List Acc)
    (h : loopIndicesL ds = some r) : InB r.2 := by
  unfold loopIndicesL at h
  cases hr : rankL ds with
  | none => rw [hr] at h; simp at h
  | some rr =>
    rw [hr] at h
    simp only [Option.map_some, Option.some.injEq] at h
    subst h
    obtain ⟨hsz, hl⟩ := rankL_inb ds hwf rr hr
    simp only [InB_append, hl, and_true]
    intro e he
    obtain ⟨i, hi, rfl⟩ := List.mem_map.1 he
    simp only [acc_idx, acc_size, hsz]
    exact List.mem_range.1 hi

/-! ### `idxs_seq`

`idxs_seq[i]` is read at the start of iteration `i`, `idxs_seq[j]` is written for every enqueued cell; both stay
inside the `n` slots because processed + waiting cells are distinct cells (loop invariant `WalkInv` of
`Proofs/C03Walk.lean`). The 2-D `idxs_us` matrix of `upstream_matrix` is abstracted by `upsOf` in the model
(its accesses are explored by the harness only). -/

theorem idxs_seq_log_eq (ds : Array Nat) (pits : List Nat) : (idxsSeqL ds pits).1 = idxsSeq ds pits :=
  seqWalkLoopL_fst ds ds.size pits [] _

/-- for ANY start list satisfying the loop invariant (distinct pits of the network) … -/
theorem idxs_seq_in_bounds_of_inv (ds : Array Nat) (pits : List Nat) (h : WalkInv ds ds.size pits []) :
    InB (idxsSeqL ds pits).2 := by
  unfold idxsSeqL
  have hlen := WalkInv.length_le h
  exact seqWalkLoopL_inb ds _ _ _ _ h (InB_enqLog _ _ _ _ (by simpa using hlen) InB_nil)

/-- … in particular for the call the library makes, `idxs_seq(idxs_ds, pit_indices(idxs_ds))`: no hypothesis
on the network at all (loops, cells outside the network) -/
theorem idxs_seq_in_bounds (ds : Array Nat) : InB (idxsSeqL ds (pitIndices ds)).2 :=
  idxs_seq_in_bounds_of_inv ds _ (walkInv_init ds)

/-- a row of `upstream_matrix` is built by reading `idxs_ds` at every cell: in bounds without hypothesis -/
theorem ups_of_in_bounds (ds : Array Nat) (j : Nat) : (upsOfL ds j).1 = upsOf ds j ∧ InB (upsOfL ds j).2 := by
  refine ⟨rfl, ?_⟩
  intro e he
  obtain ⟨i, hi, rfl⟩ := List.mem_map.1 he
  exact List.mem_range.1 hi

/-! ### non-vacuity and the negative side

network of 10 cells with a 3-cycle (0,1,2), a pit (3), a confluence at 3 and at 5, a second pit (7) and a
cell outside the network (9, `ds = 10`) -/

def exDs : Array Nat := #[1, 2, 0, 3, 3, 6, 5, 7, 5, 10]
def exMask : Array Bool := #[false, false, true, false, false, false, false, false, false, false]
def exStr : Array Int := #[1, 1, 1, 2, 1, 2, 2, 1, 1, -1]

example : WF exDs := (C03.wfB_iff _).1 (by decide)
example : InB (upstreamCountL exDs (some exMask)).2 ∧ (upstreamCountL exDs (some exMask)).2.length > 20 := by
  decide +kernel
example : InB (mainUpstreamL exDs #[3, 3, 3, 2, 1, 3, 3, 1, 1, 0] 0).2 := by decide +kernel
example : (traceFromL exDs (some exMask) none (fun _ _ => 1) 11 4).map (·.1.1) = some [4, 3] := by decide +kernel
example : ∃ r, traceFromL exDs (some exMask) none (fun _ _ => 1) 11 0 = some r ∧ InB r.2 ∧ r.1.1 = [0, 1, 2] := by
  decide +kernel
example : ∃ r, rankL exDs = some r ∧ InB r.2 ∧ r.1.2 = 3 := by decide +kernel
example : InB (idxsSeqL exDs (pitIndices exDs)).2 ∧ (idxsSeqL exDs (pitIndices exDs)).1 = [3, 7, 4] := by decide +kernel
example : InB (windowL exDs (mainUpstream exDs #[3, 3, 3, 2, 1, 3, 3, 1, 1, 0] 0) (some exStr) 2 8).2 := by
  decide +kernel

/-! NEGATIVE side. `exDs` is well-formed and has a cell outside the network (cell 9, `ds[9] = 10 = n`). A start
index only has to be `< n`, so cell 9 is a legal start of `_window` / `_trace`: there `idx_ds` is the missing
value at the first iteration. -/

/-- NEGATIVE 1 (F16c / C13-16): testing `strord[d] > strord0` before `d = n` logs the access `strord[10]` of
a 10-slot array: out of range -/
example : ¬ InB (windowDownBadL exDs (some exStr) (-1) 2 2 3 9 [] []).2 := by decide +kernel
example : (⟨Arr.strord, 10, 10⟩ : Acc) ∈ (windowDownBadL exDs (some exStr) (-1) 2 2 3 9 [] []).2 := by decide +kernel
/-- with the order of the code under verification (`d = n` first) the same input stays in bounds
(an instance of `window_down_in_bounds`) -/
example : InB (windowDownL exDs (some exStr) (-1) 2 2 3 9 [] []).2 := by decide +kernel
/-- the defect is invisible in the result (`a[n]!` is a default value): both variants return the same cells,
here and from a start inside the network -/
example : (windowDownBadL exDs (some exStr) (-1) 2 2 3 9 [] []).1 = (windowDownL exDs (some exStr) (-1) 2 2 3 9 [] []).1 ∧
    (windowDownBadL exDs (some exStr) 2 2 2 3 8 [] []).1 = (windowDownL exDs (some exStr) 2 2 2 3 8 [] []).1 ∧
    (windowDownL exDs (some exStr) 2 2 2 3 8 [] []).1 = [5, 6] := by
  decide +kernel
/-- away from cells outside the network the historical order is in bounds too (why tests never saw it) -/
example : InB (windowDownBadL exDs (some exStr) 2 2 2 3 8 [] []).2 := by decide +kernel

/-- NEGATIVE 2: a trace that reads `mask[idx1]` before testing `idx1 == mv` logs `mask[10]` of a 10-slot mask -/
example : ∃ r, traceBadL exDs exMask 11 9 [9] [] = some r ∧ ¬ InB r.2 ∧ (⟨Arr.mask, 10, 10⟩ : Acc) ∈ r.2 := by
  decide +kernel
example : ∃ r, traceFromL exDs (some exMask) none (fun _ _ => 1) 11 9 = some r ∧ InB r.2 ∧ r.1.1 = [9] := by
  decide +kernel

end Pf.C13b
