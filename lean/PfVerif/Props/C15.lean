import PfVerif.Proofs.C15Adjust
import PfVerif.Proofs.C15Dig
import PfVerif.Proofs.C15Fix1d
import PfVerif.Proofs.C15Last
import PfVerif.Proofs.C15Mono
/-! # C15 — elevation conditioning makes elevation non-increasing downstream

All theorems quantify over every network `ds`, every downstream-first order `seq` (`Topo`, what C03
establishes for the library's orders and what the harness re-checks with `isTopo` on the order
actually used), and every elevation field; no bound on sizes. -/
namespace Pf.C15
open Pf

section compose
variable (f : List Int → List Int) (ds : Array Nat) (seq : List Nat) (elev : Array Int)
  (htopo : Topo ds seq) (hbd : ∀ i ∈ seq, i < ds.size) (hb : ∀ i ∈ seq, i < elev.size)
include htopo hbd hb

/-- **streamline composition** (the confluence argument, in full): if the 1-D streamline fixer
returns a non-increasing profile of the same length and keeps its last (most downstream) value,
then after `adjust_elevation` no cell of the network is lower than its downstream cell. -/
theorem streamline_compose (hlen : LenKept f) (hmono : MonoOut f) (hlast : LastKept f) :
    ∀ i ∈ seq, (adjustWith f ds seq elev).1[ds[i]!]! ≤ (adjustWith f ds seq elev).1[i]! := by
  obtain ⟨ht, h1, h2⟩ := topo_height htopo
  obtain ⟨inv, hm⟩ := fold_inv f ds seq elev ht (Topo.ds_mem htopo) hbd h2 hb seq.length
    (fun c hc => Nat.le_of_lt (h1 c hc)) hlen hmono hlast seq (fun _ h => h)
  exact fun i hi => inv.mono i (hm i hi)

/-- every cell of the network is visited (masked) exactly by the end of the loop -/
theorem all_checked (hlen : LenKept f) (hmono : MonoOut f) (hlast : LastKept f) :
    ∀ i, (adjustWith f ds seq elev).2[i]! = true ↔ i ∈ seq := by
  obtain ⟨ht, h1, h2⟩ := topo_height htopo
  obtain ⟨inv, hm⟩ := fold_inv f ds seq elev ht (Topo.ds_mem htopo) hbd h2 hb seq.length
    (fun c hc => Nat.le_of_lt (h1 c hc)) hlen hmono hlast seq (fun _ h => h)
  exact fun i => ⟨inv.msub i, hm i⟩

/-- **only cells of the network are touched** -/
theorem only_network_cells (hlen : LenKept f) :
    ∀ c, c ∉ seq → (adjustWith f ds seq elev).1[c]! = elev[c]! := by
  obtain ⟨ht, h1, h2⟩ := topo_height htopo
  exact fold_outside f ds seq elev ht (Topo.ds_mem htopo) hbd h2 hb seq.length
    (fun c hc => Nat.le_of_lt (h1 c hc)) hlen seq (fun _ h => h)

/-- **an already conforming elevation is returned unchanged** (as an array) -/
theorem conforming_unchanged (hlen : LenKept f) (hid : IdOnNonInc f)
    (hconf : ∀ c ∈ seq, elev[ds[c]!]! ≤ elev[c]!) : (adjustWith f ds seq elev).1 = elev := by
  obtain ⟨ht, h1, h2⟩ := topo_height htopo
  exact fold_fix f ds seq elev ht (Topo.ds_mem htopo) hbd h2 hb seq.length
    (fun c hc => Nat.le_of_lt (h1 c hc)) hlen hid hconf seq (fun _ h => h)

/-- **range kept**: values on the network stay within every interval containing the input values
on the network -/
theorem range_kept (hlen : LenKept f) (hrange : RangeKept f) (lo hi : Int)
    (hin : ∀ c ∈ seq, lo ≤ elev[c]! ∧ elev[c]! ≤ hi) :
    ∀ c ∈ seq, lo ≤ (adjustWith f ds seq elev).1[c]! ∧ (adjustWith f ds seq elev).1[c]! ≤ hi := by
  obtain ⟨ht, h1, h2⟩ := topo_height htopo
  exact fold_range f ds seq elev ht (Topo.ds_mem htopo) hbd h2 hb seq.length
    (fun c hc => Nat.le_of_lt (h1 c hc)) hlen hrange lo hi hin seq (fun _ h => h)

omit htopo hbd hb in
theorem adjustWith_size : (adjustWith f ds seq elev).1.size = elev.size := by
  have := fold_pres (fun st : Array Int × Array Bool => st.1.size = elev.size)
    (fun st i => adjStep f ds seq.length st i) seq (elev, Array.replicate elev.size false) rfl
    (fun st i _ h => by rw [(adjStep_sizes f ds seq.length st i).1]; exact h) seq (fun _ h => h)
  exact this

/-- **idempotent**: adjusting an adjusted elevation changes nothing -/
theorem idempotent (hlen : LenKept f) (hmono : MonoOut f) (hlast : LastKept f) (hid : IdOnNonInc f) :
    (adjustWith f ds seq (adjustWith f ds seq elev).1).1 = (adjustWith f ds seq elev).1 := by
  have hsz := adjustWith_size f ds seq elev
  exact conforming_unchanged f ds seq _ htopo hbd (fun i hi => by rw [hsz]; exact hb i hi) hlen hid
    (streamline_compose f ds seq elev htopo hbd hb hlen hmono hlast)

end compose

/-! ## `dem_adjust` = `adjustWith` instantiated with the model of `_adjust_elevation`

All five components of the contract `Fix1D` are proved for the real 1-D fixer `adjust1d`, for
every profile: `adjust1d_length` (length kept), `adjust1d_range` (range kept), `adjust1d_id` (identity
on non-increasing profiles), `adjust1d_last` (the last, most downstream, value is kept) and
`adjust1d_mono` (the output profile is non-increasing; `Proofs/C15Mono.lean`: scan invariant "finished
prefix non-increasing up to `imin`, open hump non-decreasing up to `imax` and non-increasing after it",
each of the three candidate modifications dig / fill / dig & fill yields a non-increasing prefix).
Hence the theorems below carry no hypothesis on the fixer. -/
/-- **`fix1d_ok`**: the model of `_adjust_elevation` satisfies the whole contract `Fix1D`, for every profile -/
theorem fix1d_ok :
    LenKept adjust1d ∧ MonoOut adjust1d ∧ LastKept adjust1d ∧ IdOnNonInc adjust1d ∧ RangeKept adjust1d :=
  ⟨adjust1d_length, adjust1d_mono, adjust1d_last, adjust1d_id, adjust1d_range⟩

/-- **the output of `_adjust_elevation` is non-increasing**, in list form: every element is at most
its predecessor -/
theorem adjust1d_nonincreasing (v : List Int) (j : Nat) (hj : j + 1 < v.length) :
    (adjust1d v)[j+1]! ≤ (adjust1d v)[j]! := adjust1d_mono v j hj

section real
variable (ds : Array Nat) (seq : List Nat) (elev : Array Int)
  (htopo : Topo ds seq) (hbd : ∀ i ∈ seq, i < ds.size) (hb : ∀ i ∈ seq, i < elev.size)
include htopo hbd hb

/-- **non-increasing downstream** (full strength): after `dem_adjust` no cell of the network is lower
than its downstream cell -/
theorem dem_adjust_monotone :
    ∀ i ∈ seq, (adjustElevation ds seq elev)[ds[i]!]! ≤ (adjustElevation ds seq elev)[i]! :=
  streamline_compose adjust1d ds seq elev htopo hbd hb adjust1d_length adjust1d_mono adjust1d_last

/-- **only cells of the network are touched** (full strength) -/
theorem dem_adjust_only_network : ∀ c, c ∉ seq → (adjustElevation ds seq elev)[c]! = elev[c]! :=
  only_network_cells adjust1d ds seq elev htopo hbd hb adjust1d_length

/-- **a conforming elevation is left unchanged** (full strength) -/
theorem dem_adjust_conforming_unchanged (hconf : ∀ c ∈ seq, elev[ds[c]!]! ≤ elev[c]!) :
    adjustElevation ds seq elev = elev :=
  conforming_unchanged adjust1d ds seq elev htopo hbd hb adjust1d_length adjust1d_id hconf

/-- **every value stays within the range of the input values on the network** (full strength) -/
theorem dem_adjust_range_kept (lo hi : Int) (hin : ∀ c ∈ seq, lo ≤ elev[c]! ∧ elev[c]! ≤ hi) :
    ∀ c ∈ seq, lo ≤ (adjustElevation ds seq elev)[c]! ∧ (adjustElevation ds seq elev)[c]! ≤ hi :=
  range_kept adjust1d ds seq elev htopo hbd hb adjust1d_length adjust1d_range lo hi hin

/-- **idempotent** (full strength) -/
theorem dem_adjust_idempotent :
    adjustElevation ds seq (adjustElevation ds seq elev) = adjustElevation ds seq elev :=
  idempotent adjust1d ds seq elev htopo hbd hb adjust1d_length adjust1d_mono adjust1d_last adjust1d_id

end real

/-! ### non-vacuity -/
-- chain 4 → 3 → 2 → 1 → 0 (pit) with tributary 5 → 2; a hump at cell 1 and a pit at cell 2
example : Topo #[0, 0, 1, 2, 3, 2] [0, 1, 2, 3, 4, 5] := by
  have h0 : Topo #[0, 0, 1, 2, 3, 2] [] := Topo.nil
  have h1 : Topo #[0, 0, 1, 2, 3, 2] ([] ++ [0]) := Topo.snoc h0 (by simp) (Or.inl (by decide))
  have h2 : Topo #[0, 0, 1, 2, 3, 2] ([0] ++ [1]) := Topo.snoc h1 (by simp) (Or.inr (by decide))
  have h3 : Topo #[0, 0, 1, 2, 3, 2] ([0, 1] ++ [2]) := Topo.snoc h2 (by simp) (Or.inr (by decide))
  have h4 : Topo #[0, 0, 1, 2, 3, 2] ([0, 1, 2] ++ [3]) := Topo.snoc h3 (by simp) (Or.inr (by decide))
  have h5 : Topo #[0, 0, 1, 2, 3, 2] ([0, 1, 2, 3] ++ [4]) := Topo.snoc h4 (by simp) (Or.inr (by decide))
  exact Topo.snoc h5 (by simp) (Or.inr (by decide))
example : adjustElevation #[0, 0, 1, 2, 3, 2] [0, 1, 2, 3, 4, 5] #[0, 5, 2, 4, 1, 7] = #[0, 2, 2, 2, 2, 7] := by decide +kernel
-- a later streamline (from cell 2) ends on the already fixed cell 1 and is raised to it
example : adjustElevation #[0, 0, 1, 1] [0, 1, 2, 3] #[1, 3, 2, 5] = #[1, 3, 3, 5] := by decide +kernel
example : adjust1d [4, 2, 5, 0, 3, 1, 2] = [4, 2, 2, 2, 2, 2, 2] := by decide +kernel

/-! ## the D4 digging variant (`dig_4connectivity`) -/
section dig
variable (digf : Int → Int → Int) (ds : Array Nat) (seq : List Nat) (nrow ncol : Nat)
  (mask : Option (Array Bool)) (nodata : Int) (elv : Array Int)

/-- **never raises**: for every dig rule that does not raise its first argument -/
theorem dig_d4_never_raises (hdig : ∀ e z, digf e z ≤ e) :
    ∀ c : Nat, (digD4 digf ds seq nrow ncol mask nodata elv)[c]! ≤ elv[c]! := by
  unfold digD4
  induction seq with
  | nil => intro c; exact Int.le_refl _
  | cons i l ih =>
    intro c
    simp only [List.foldr_cons]
    exact Int.le_trans ((digStep_spec digf ds nrow ncol mask nodata _ i).2.2.2 hdig c) (ih c)

/-- the two dig rules of the code do not raise: `min(e - dz_min, z0)` with `dz_min ≥ 0`, and its
truncating integer-dtype version -/
theorem digExact_le (dz : Int) (hdz : 0 ≤ dz) : ∀ e z, digExact dz e z ≤ e := by
  intro e z; unfold digExact; omega
theorem digTrunc_le : ∀ e z, digTrunc e z ≤ e := by
  intro e z; unfold digTrunc; split
  · omega
  · split <;> omega

/-- **nodata cells are never altered** -/
theorem dig_d4_nodata_unchanged :
    ∀ c : Nat, elv[c]! = nodata → (digD4 digf ds seq nrow ncol mask nodata elv)[c]! = elv[c]! := by
  unfold digD4
  induction seq with
  | nil => intro c _; rfl
  | cons i l ih =>
    intro c hc
    simp only [List.foldr_cons]
    have h1 := ih c hc
    rw [(digStep_spec digf ds nrow ncol mask nodata _ i).2.1 c (by rw [h1]; exact hc), h1]

/-- **locality**: a changed cell is a side neighbour (index arithmetic `±1`, `±ncol`, exact on a D8
network) of a considered river cell `i` (in the order, selected by the mask), or of the pit directly
downstream of one -/
theorem dig_d4_local :
    ∀ c : Nat, (digD4 digf ds seq nrow ncol mask nodata elv)[c]! ≠ elv[c]! →
      ∃ i ∈ seq, maskAt mask i = true ∧
        (c ∈ d4nbrs ncol i ∨ (ds[ds[i]!]! = ds[i]! ∧ c ∈ d4nbrs ncol ds[i]!)) := by
  unfold digD4
  induction seq with
  | nil => intro c hc; exact absurd rfl hc
  | cons i l ih =>
    intro c hc
    simp only [List.foldr_cons] at hc
    by_cases h : (digStep digf ds nrow ncol mask nodata
        (l.foldr (fun i e => digStep digf ds nrow ncol mask nodata e i) elv) i)[c]! =
        (l.foldr (fun i e => digStep digf ds nrow ncol mask nodata e i) elv)[c]!
    · obtain ⟨j, hj, hr⟩ := ih c (by rw [← h]; exact hc)
      exact ⟨j, by simp [hj], hr⟩
    · exact ⟨i, by simp, (digStep_spec digf ds nrow ncol mask nodata _ i).2.2.1 c h⟩

theorem dig_d4_size : (digD4 digf ds seq nrow ncol mask nodata elv).size = elv.size := by
  unfold digD4
  induction seq with
  | nil => rfl
  | cons i l ih => simp only [List.foldr_cons]; rw [(digStep_spec digf ds nrow ncol mask nodata _ i).1, ih]

end dig

/-! ### non-vacuity (3×3 raster, every cell drains to the central pit) -/
example : digD4 (digExact 1) #[4, 4, 4, 4, 4, 4, 4, 4, 4] [4, 0, 1, 2, 3, 5, 6, 7, 8] 3 3 none (-9999)
    #[5, 5, 5, 5, 1, 5, 5, 5, 5] = #[5, -1, 5, 1, 1, 1, 5, 0, 5] := by decide
example : digD4 digTrunc #[4, 4, 4, 4, 4, 4, 4, 4, 4] [4, 0, 1, 2, 3, 5, 6, 7, 8] 3 3
    (some #[false, false, false, false, false, false, false, false, true]) (-9999)
    #[5, -9999, 5, 5, 1, 5, 5, 5, 5] ≠ #[5, -9999, 5, 5, 1, 5, 5, 5, 5] := by decide

end Pf.C15
