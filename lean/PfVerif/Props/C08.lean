import PfVerif.Proofs.C08Unique
import PfVerif.Proofs.C08Classic
import PfVerif.Proofs.C08Bound
import PfVerif.Proofs.C08Nup
/-! # C08 — Strahler and classic stream orders follow their recursive definitions

All theorems quantify over every network `ds`, every downstream-first cell order `seq` (`Topo`,
established by C03 and re-checked by the harness on the order actually used), every mask and every
upstream-area field; there is no bound on sizes or on the number of tributaries of a junction.
`kidsM ds seq mask j` = the cells of the network that drain directly into `j` and lie in the mask.
Orders are natural numbers in the model (the code stores `uint8`; see `strahler_pow_le_count`). -/
namespace Pf.C08
open Pf

/-! ## Strahler order -/

/-- **junction update = Strahler rule, in any arrival order.** Folding the update of
`strahler_order` over the orders of the inflowing streams, in whatever order they arrive, yields
`max l + [max attained at least twice]` (and the running maximum) — for any number of tributaries. -/
theorem junction_fold (l : List Nat) (hpos : ∀ x ∈ l, 0 < x) :
    l.foldl phi (0, 0) = (strahler l, mx l) := phi_fold l hpos

/-- the Strahler rule spelled out: the maximum is attained, bounds every inflowing order, and the
result is that maximum, plus one iff at least two inflowing streams attain it -/
theorem strahler_rule_spelled (l : List Nat) (hne : l ≠ []) (hpos : ∀ x ∈ l, 0 < x) :
    mx l ∈ l ∧ (∀ x ∈ l, x ≤ mx l) ∧
    strahler l = mx l + (if 2 ≤ l.count (mx l) then 1 else 0) := by
  refine ⟨mx_mem l hpos hne, le_mx l, ?_⟩
  unfold strahler
  simp only [hne, if_false]
  split <;> rfl

/-- the rule does not depend on the order in which the tributaries are listed -/
theorem strahler_rule_perm {l1 l2 : List Nat} (h : l1.Perm l2) : strahler l1 = strahler l2 :=
  strahler_perm h

/-- **recursive definition (main theorem).** For every cell `j`: let `l` be the final orders of the
masked cells draining into `j`. If `l` is empty the order is 1 when `j` is a cell of the considered
network (headwater) and 0 otherwise; if not, it is the Strahler rule applied to `l`. -/
theorem strahler_rec (ds : Array Nat) (seq : List Nat) (mask : Option (Array Bool))
    (htopo : Topo ds seq) (hb : ∀ i ∈ seq, i < ds.size) (j : Nat) :
    (strahlerOrder ds seq mask)[j]! =
      strahlerRule (decide (j ∈ seq) && maskAt mask j)
        ((kidsM ds seq mask j).map ((strahlerOrder ds seq mask)[·]!)) :=
  (strahlerOrder_rec ds mask seq htopo hb).2 j

/-- every cell of the considered network has order ≥ 1 -/
theorem strahler_pos (ds : Array Nat) (seq : List Nat) (mask : Option (Array Bool))
    (htopo : Topo ds seq) (hb : ∀ i ∈ seq, i < ds.size) (j : Nat) (hj : j ∈ seq)
    (hm : maskAt mask j = true) : 0 < (strahlerOrder ds seq mask)[j]! :=
  (strahlerOrder_rec ds mask seq htopo hb).1 j hj hm

/-- **headwaters have order 1**: a cell of the network in the mask without masked inflow -/
theorem strahler_headwater (ds : Array Nat) (seq : List Nat) (mask : Option (Array Bool))
    (htopo : Topo ds seq) (hb : ∀ i ∈ seq, i < ds.size) (j : Nat) (hj : j ∈ seq)
    (hm : maskAt mask j = true)
    (hhead : ∀ c ∈ seq, ds[c]! = j → c ≠ j → maskAt mask c = false) :
    (strahlerOrder ds seq mask)[j]! = 1 := by
  rw [strahler_rec ds seq mask htopo hb j]
  have : kidsM ds seq mask j = [] := by
    rw [List.eq_nil_iff_forall_not_mem]
    intro c hc
    have hc' := (mem_kidsM ds seq mask j c).1 hc
    have := hhead c hc'.1 hc'.2.1 hc'.2.2.1
    simp [hc'.2.2.2] at this
  simp [this, strahlerRule, hj, hm]

/-- **junctions**: a cell with at least one masked inflow gets the maximum of the inflowing orders,
plus one iff that maximum is attained by at least two of them (any number of tributaries) -/
theorem strahler_junction (ds : Array Nat) (seq : List Nat) (mask : Option (Array Bool))
    (htopo : Topo ds seq) (hb : ∀ i ∈ seq, i < ds.size) (j : Nat)
    (hne : kidsM ds seq mask j ≠ []) :
    let l := (kidsM ds seq mask j).map ((strahlerOrder ds seq mask)[·]!)
    (strahlerOrder ds seq mask)[j]! = mx l + (if 2 ≤ l.count (mx l) then 1 else 0) ∧
    mx l ∈ l ∧ ∀ x ∈ l, x ≤ mx l := by
  intro l
  have hl : l ≠ [] := by simpa [l] using hne
  have hpos : ∀ x ∈ l, 0 < x := by
    intro x hx
    obtain ⟨c, hc, rfl⟩ := List.mem_map.1 hx
    have hc' := (mem_kidsM ds seq mask j c).1 hc
    exact strahler_pos ds seq mask htopo hb c hc'.1 hc'.2.2.2
  obtain ⟨h1, h2, h3⟩ := strahler_rule_spelled l hl hpos
  refine ⟨?_, h1, h2⟩
  rw [strahler_rec ds seq mask htopo hb j]
  show strahlerRule _ l = _
  simp only [strahlerRule, hl, if_false]
  exact h3

/-- **0 outside the network or the mask**, for a downstream-closed mask -/
theorem strahler_outside (ds : Array Nat) (seq : List Nat) (mask : Option (Array Bool))
    (htopo : Topo ds seq) (hb : ∀ i ∈ seq, i < ds.size)
    (hclosed : ∀ c ∈ seq, maskAt mask c = true → maskAt mask ds[c]! = true)
    (j : Nat) (hj : ¬ (j ∈ seq ∧ maskAt mask j = true)) :
    (strahlerOrder ds seq mask)[j]! = 0 := by
  rw [strahler_rec ds seq mask htopo hb j]
  have hk : kidsM ds seq mask j = [] := by
    rw [List.eq_nil_iff_forall_not_mem]
    intro c hc
    have hc' := (mem_kidsM ds seq mask j c).1 hc
    have h1 := htopo.ds_mem c hc'.1
    have h2 := hclosed c hc'.1 hc'.2.2.2
    rw [hc'.2.1] at h1 h2
    exact hj ⟨h1, h2⟩
  have hflag : (decide (j ∈ seq) && maskAt mask j) = false := by
    by_cases h1 : j ∈ seq
    · have : maskAt mask j = false := by
        cases h : maskAt mask j
        · rfl
        · exact absurd ⟨h1, h⟩ hj
      simp [this]
    · simp [h1]
  simp [hk, hflag, strahlerRule]

/-- **the result does not depend on the cell order**: any two downstream-first orders of the same
cells (hence any arrival order of the tributaries at every junction) give the same orders -/
theorem strahler_order_independent (ds : Array Nat) (mask : Option (Array Bool)) (seq1 seq2 : List Nat)
    (h1 : Topo ds seq1) (h2 : Topo ds seq2) (hb : ∀ i ∈ seq1, i < ds.size)
    (hsame : ∀ i, i ∈ seq1 ↔ i ∈ seq2) (j : Nat) :
    (strahlerOrder ds seq2 mask)[j]! = (strahlerOrder ds seq1 mask)[j]! :=
  strahlerOrder_order_indep ds mask seq1 seq2 h1 h2 hb hsame j

/-- **the recursive definition has a unique solution**, and it is the model's output -/
theorem strahler_unique_solution (ds : Array Nat) (mask : Option (Array Bool)) (seq : List Nat)
    (htopo : Topo ds seq) (hb : ∀ i ∈ seq, i < ds.size) (o : Nat → Nat) (L : Nat → List Nat)
    (hL : ∀ j, (L j).Perm (kidsM ds seq mask j))
    (ho : ∀ j, o j = strahlerRule (decide (j ∈ seq) && maskAt mask j) ((L j).map o)) (j : Nat) :
    o j = (strahlerOrder ds seq mask)[j]! :=
  strahler_unique ds mask seq htopo hb o L hL ho j

/-- the model equals the order-free declarative recursion over the upstream tree (the `spec`
output of the driver) when `seq` lists exactly the valid cells (loop-free network) -/
theorem strahler_eq_spec (ds : Array Nat) (mask : Option (Array Bool)) (seq : List Nat)
    (htopo : Topo ds seq) (hb : ∀ i ∈ seq, i < ds.size) (hc : Complete ds seq) (j : Nat) :
    strahlerSpec ds mask j = (strahlerOrder ds seq mask)[j]! := by
  refine strahlerSpecF_eq ds mask seq htopo hb hc ds.size ?_ j
  have := List.Nodup.length_le_of_subset htopo.nodup
    (fun i hi => List.mem_range.2 (hb i hi) : seq ⊆ List.range ds.size)
  simpa using this

/-- **certificate theorem**: whatever array passes the local check `strahlerCert` (evaluated by the
driver on the implementation's output in every case) is the Strahler order of the network -/
theorem strahler_cert_sound (ds : Array Nat) (mask : Option (Array Bool)) (seq : List Nat)
    (htopo : Topo ds seq) (hb : ∀ i ∈ seq, i < ds.size) (hc : Complete ds seq)
    (ord : Array Nat) (hcert : strahlerCert ds mask ord = true) (j : Nat) :
    ord[j]! = (strahlerOrder ds seq mask)[j]! :=
  strahlerCert_eq_model ds mask seq htopo hb hc ord hcert j

/-- **a stream of Strahler order `k` drains at least `2^(k-1)` cells**: `maskedCount` is the
up-to-downstream accumulation of the constant field 1 over the stream network (the kernel of C04,
whose theorem identifies it with the number of cells of the catchment) -/
theorem strahler_pow_le_count (ds : Array Nat) (seq : List Nat) (mask : Option (Array Bool))
    (htopo : Topo ds seq) (hb : ∀ i ∈ seq, i < ds.size) (j : Nat) (hj : j ∈ seq)
    (hm : maskAt mask j = true) :
    2 ^ ((strahlerOrder ds seq mask)[j]! - 1) ≤ (maskedCount ds seq mask)[j]! :=
  strahler_pow_le ds seq mask htopo hb j hj hm

/-- **no `uint8` overflow**: a Strahler order above 255 would need a catchment of at least `2^255`
cells, so the code's `uint8` storage is exact for every raster that can exist -/
theorem strahler_no_u8_overflow (ds : Array Nat) (seq : List Nat) (mask : Option (Array Bool))
    (htopo : Topo ds seq) (hb : ∀ i ∈ seq, i < ds.size) (j : Nat) (hj : j ∈ seq)
    (hm : maskAt mask j = true) (hsmall : (maskedCount ds seq mask)[j]! < 2 ^ 255) :
    (strahlerOrder ds seq mask)[j]! ≤ 255 := by
  have h := strahler_pow_le_count ds seq mask htopo hb j hj hm
  apply Classical.byContradiction
  intro hgt
  have : 2 ^ 255 ≤ 2 ^ ((strahlerOrder ds seq mask)[j]! - 1) :=
    Nat.pow_le_pow_right (by decide) (by omega)
  omega

/-! ## classic (Hack) order -/

/-- **recursive definition (main theorem)**: order 1 at every (masked) pit; otherwise the order of
the downstream cell, plus one iff the downstream cell is a confluence (more than one inflowing
stream) and this cell is not its main upstream cell; 0 outside the mask or the network. -/
theorem classic_rec (ds : Array Nat) (seq : List Nat) (usMain : Array Nat) (mask : Option (Array Bool))
    (htopo : Topo ds seq) (hb : ∀ i ∈ seq, i < ds.size) :
    let ord := classicOrder ds seq usMain mask
    let nup := upstreamCount ds mask
    (∀ i ∈ seq, maskAt mask i = true → ds[i]! = i → ord[i]! = 1) ∧
    (∀ i ∈ seq, maskAt mask i = true → ds[i]! ≠ i →
      ord[i]! = ord[ds[i]!]! + (if nup[ds[i]!]! > 1 ∧ usMain[ds[i]!]! ≠ i then 1 else 0)) ∧
    (∀ i, i ∉ seq ∨ maskAt mask i = false → ord[i]! = 0) := by
  intro ord nup
  obtain ⟨h1, h2⟩ := classicOrderWith_rec ds seq usMain nup mask htopo hb
  refine ⟨fun i hi hm hp => ?_, fun i hi hm hp => ?_, fun i hi => ?_⟩
  · have := h1 i hi; simp only [hm, hp, if_true, Bool.true_eq_false, if_false] at this; exact this
  · have := h1 i hi; simp only [hm, hp, if_false, Bool.true_eq_false, nonMain] at this; exact this
  · by_cases hs : i ∈ seq
    · have hm : maskAt mask i = false := by
        rcases hi with h | h
        · exact absurd hs h
        · exact h
      have := h1 i hs; simp only [hm, if_true] at this; exact this
    · exact h2 i hs

/-- **the main upstream branch inherits the order unchanged** (also a lone inflow) -/
theorem classic_main_inherits (ds : Array Nat) (seq : List Nat) (usMain : Array Nat)
    (mask : Option (Array Bool)) (htopo : Topo ds seq) (hb : ∀ i ∈ seq, i < ds.size)
    (i : Nat) (hi : i ∈ seq) (hm : maskAt mask i = true) (hp : ds[i]! ≠ i)
    (hmain : usMain[ds[i]!]! = i ∨ (upstreamCount ds mask)[ds[i]!]! ≤ 1) :
    (classicOrder ds seq usMain mask)[i]! = (classicOrder ds seq usMain mask)[ds[i]!]! := by
  have := (classic_rec ds seq usMain mask htopo hb).2.1 i hi hm hp
  rw [this, if_neg (by omega)]
  rfl

/-- **every other branch of a confluence is one higher** -/
theorem classic_tributary_plus_one (ds : Array Nat) (seq : List Nat) (usMain : Array Nat)
    (mask : Option (Array Bool)) (htopo : Topo ds seq) (hb : ∀ i ∈ seq, i < ds.size)
    (i : Nat) (hi : i ∈ seq) (hm : maskAt mask i = true) (hp : ds[i]! ≠ i)
    (hconf : (upstreamCount ds mask)[ds[i]!]! > 1) (hnot : usMain[ds[i]!]! ≠ i) :
    (classicOrder ds seq usMain mask)[i]! = (classicOrder ds seq usMain mask)[ds[i]!]! + 1 := by
  have := (classic_rec ds seq usMain mask htopo hb).2.1 i hi hm hp
  rw [this, if_pos ⟨hconf, hnot⟩]

/-- **`uint8` storage** (the wrap-free bound is a hypothesis for the classic order — it fails on
crafted area fields, known finding F08): while no order exceeds 255, the code's `uint8` loop
(`classicOrderU8`, which wraps modulo 256) returns exactly the unbounded orders of the theorems above -/
theorem classic_u8_exact (ds : Array Nat) (seq : List Nat) (usMain : Array Nat)
    (mask : Option (Array Bool)) (htopo : Topo ds seq) (hb : ∀ i ∈ seq, i < ds.size)
    (hle : ∀ i ∈ seq, (classicOrder ds seq usMain mask)[i]! ≤ 255) (i : Nat) :
    (classicOrderU8 ds seq usMain mask)[i]! = (classicOrder ds seq usMain mask)[i]! :=
  classicOrderU8_eq ds seq usMain mask htopo hb hle i

/-- **path form**: the order is related to the cell by the inductive relation "1 + number of non-main
confluence steps down to the pit" (`ClassicOrd`, a functional relation: `ClassicOrd.unique`) -/
theorem classic_path (ds : Array Nat) (seq : List Nat) (usMain : Array Nat) (mask : Option (Array Bool))
    (htopo : Topo ds seq) (hb : ∀ i ∈ seq, i < ds.size) (i : Nat) (hi : i ∈ seq) :
    ClassicOrd ds mask (nonMain (upstreamCount ds mask) usMain) i (classicOrder ds seq usMain mask)[i]! :=
  classicOrderWith_path ds seq usMain (upstreamCount ds mask) mask htopo hb i hi

/-- **count form**: if the flow path of `i` stays in the mask and reaches its pit after `k` steps then
the order of `i` is 1 + the number of steps that join a confluence from a non-main branch -/
theorem classic_count (ds : Array Nat) (seq : List Nat) (usMain : Array Nat) (mask : Option (Array Bool))
    (htopo : Topo ds seq) (hb : ∀ i ∈ seq, i < ds.size) :
    ∀ (k i : Nat), i ∈ seq →
      (∀ m, m < k → maskAt mask (iterA ds m i) = true ∧ ds[iterA ds m i]! ≠ iterA ds m i) →
      maskAt mask (iterA ds k i) = true → ds[iterA ds k i]! = iterA ds k i →
      (classicOrder ds seq usMain mask)[i]! =
        1 + nonMainSteps ds (nonMain (upstreamCount ds mask) usMain) k i := by
  obtain ⟨h1, h2, _⟩ := classic_rec ds seq usMain mask htopo hb
  intro k
  induction k with
  | zero =>
    intro i hi _ hm hp
    simp only [iterA] at hm hp
    simp [h1 i hi hm hp, nonMainSteps]
  | succ k ih =>
    intro i hi hpre hm hp
    have h0 := hpre 0 (Nat.succ_pos k)
    simp only [iterA] at h0
    have hd : ds[i]! ∈ seq := htopo.ds_mem i hi
    rw [h2 i hi h0.1 h0.2]
    have := ih ds[i]! hd (fun m hm => by simpa [iterA] using hpre (m+1) (Nat.succ_lt_succ hm))
      (by simpa [iterA] using hm) (by simpa [iterA] using hp)
    rw [this]
    simp only [nonMainSteps, nonMain]
    omega

/-- the model agrees with the executable downstream walk (the `spec` output of the driver)
wherever the walk terminates -/
theorem classic_eq_spec (ds : Array Nat) (seq : List Nat) (usMain : Array Nat) (mask : Option (Array Bool))
    (htopo : Topo ds seq) (hb : ∀ i ∈ seq, i < ds.size) (fuel i v : Nat) (hi : i ∈ seq)
    (hw : classicWalk ds mask (fun d => ((upstreamCount ds mask)[d]!).toNat) (usMain[·]!) fuel i = some v) :
    (classicOrder ds seq usMain mask)[i]! = v := by
  have h1 := classic_path ds seq usMain mask htopo hb i hi
  have h2 := classicWalk_sound ds mask _ _ fuel i v hw
  have hnm : (fun d i => if ((upstreamCount ds mask)[d]!).toNat > 1 ∧ usMain[d]! ≠ i then 1 else 0) =
      nonMain (upstreamCount ds mask) usMain := by
    funext d i
    simp only [nonMain]
    have : ((upstreamCount ds mask)[d]!).toNat > 1 ↔ (upstreamCount ds mask)[d]! > 1 := by omega
    simp only [this]
  rw [hnm] at h2
  exact h1.unique h2

/-- **main upstream cell = least-index inflow of maximal upstream area** (`core.main_upstream`):
either no inflow of `d` has an area above `upaMin` and the result is "none", or the result is an
inflow whose area exceeds `upaMin`, is maximal among the inflows, and has the least index among
the inflows attaining that maximum. -/
theorem main_argmax (ds : Array Nat) (uparea : Array Int) (upaMin : Int)
    (hwf : ∀ i < ds.size, ds[i]! ≤ ds.size) (d : Nat) (hd : d < ds.size)
    (m : Nat) (hm : m = (mainUpstream ds uparea upaMin)[d]!) :
    (m = ds.size ∧ ∀ j < ds.size, IsInflow ds j d → uparea[j]! ≤ upaMin) ∨
    (m < ds.size ∧ IsInflow ds m d ∧ upaMin < uparea[m]! ∧
      ∀ j < ds.size, IsInflow ds j d → uparea[j]! ≤ uparea[m]! ∧ (uparea[j]! = uparea[m]! → m ≤ j)) := by
  obtain ⟨_, _, hinv⟩ := mainInv_final ds uparea upaMin hwf ds.size (Nat.le_refl _)
  obtain ⟨a, b, c, e⟩ := hinv d hd
  rw [mainUpstream_eq] at hm
  rw [← hm] at b c e
  by_cases hms : m = ds.size
  · left
    refine ⟨hms, fun j hj hin => ?_⟩
    have := (e j hj hin).1
    have hb := b hms
    omega
  · right
    obtain ⟨c1, c2, c3, c4⟩ := c hms
    refine ⟨c1, c2, by omega, fun j hj hin => ?_⟩
    obtain ⟨e1, e2⟩ := e j hj hin
    exact ⟨by omega, fun h => e2 (by omega) c4⟩

/-- **`core.upstream_count(mask)` counts the inflowing streams**: on a valid cell `d` the counter
equals the number of masked cells draining into `d` (`nupSpec`, the declarative count used by the
driver's oracle); `-9` only on missing cells without inflow. Hence "confluence" in `classic_rec`
(`nup > 1`) means: at least two inflowing streams. -/
theorem upstream_count_spec (ds : Array Nat) (mask : Option (Array Bool))
    (hwf : ∀ i < ds.size, ds[i]! ≤ ds.size) (d : Nat) (hd : d < ds.size) :
    (upstreamCount ds mask)[d]! =
      if ds[d]! ≠ ds.size ∨ 0 < nupSpec ds mask d then (nupSpec ds mask d : Int) else -9 := by
  obtain ⟨_, h⟩ := nupInv_final ds mask hwf ds.size (Nat.le_refl _)
  rw [upstreamCount_eq, nupSpec_eq, h d hd]
  simp only [hd, true_and]

/-- **stream masks by area threshold contain the main stem**: if the mask is `uparea ≥ t` (with
`t > upaMin`) for the same field that selects the main stem, then at every cell with a masked inflow
the main upstream cell lies in the mask, so exactly one masked branch inherits the order -/
theorem main_in_threshold_mask (ds : Array Nat) (uparea : Array Int) (upaMin t : Int)
    (mask : Option (Array Bool)) (hwf : ∀ i < ds.size, ds[i]! ≤ ds.size) (ht : upaMin < t)
    (hmask : ∀ i < ds.size, maskAt mask i = decide (t ≤ uparea[i]!))
    (d c : Nat) (hd : d < ds.size) (hc : c < ds.size) (hin : IsInflow ds c d)
    (hcm : maskAt mask c = true) :
    (mainUpstream ds uparea upaMin)[d]! < ds.size ∧
    IsInflow ds (mainUpstream ds uparea upaMin)[d]! d ∧
    maskAt mask (mainUpstream ds uparea upaMin)[d]! = true := by
  have hct : t ≤ uparea[c]! := by simpa [hmask c hc] using hcm
  rcases main_argmax ds uparea upaMin hwf d hd _ rfl with ⟨_, h2⟩ | ⟨h1, h2, _, h4⟩
  · have := h2 c hc hin; omega
  · refine ⟨h1, h2, ?_⟩
    rw [hmask _ h1]
    have := (h4 c hc hin).1
    simp only [decide_eq_true_eq]; omega

/-! ### non-vacuity: concrete networks meet the hypotheses and the conclusions are non-trivial -/
-- cells 1,2,3 drain into the pit 0 (a junction of three tributaries), cells 4,5 drain into 1
theorem topo_example : Topo #[0, 0, 0, 0, 1, 1] [0, 1, 2, 3, 4, 5] := by
  have h0 : Topo #[0, 0, 0, 0, 1, 1] [] := Topo.nil
  have h1 : Topo #[0, 0, 0, 0, 1, 1] ([] ++ [0]) := Topo.snoc h0 (by simp) (Or.inl (by decide))
  have h2 : Topo #[0, 0, 0, 0, 1, 1] ([0] ++ [1]) := Topo.snoc h1 (by simp) (Or.inr (by decide))
  have h3 : Topo #[0, 0, 0, 0, 1, 1] ([0, 1] ++ [2]) := Topo.snoc h2 (by simp) (Or.inr (by decide))
  have h4 : Topo #[0, 0, 0, 0, 1, 1] ([0, 1, 2] ++ [3]) := Topo.snoc h3 (by simp) (Or.inr (by decide))
  have h5 : Topo #[0, 0, 0, 0, 1, 1] ([0, 1, 2, 3] ++ [4]) := Topo.snoc h4 (by simp) (Or.inr (by decide))
  exact Topo.snoc h5 (by simp) (Or.inr (by decide))
-- orders 2,1,1 meet at the pit: maximum attained once -> 2; orders 1,1 meet at cell 1 -> 2
example : strahlerOrder #[0, 0, 0, 0, 1, 1] [0, 1, 2, 3, 4, 5] none = #[2, 2, 1, 1, 1, 1] := by decide
-- another arrival order of the tributaries, same result
example : strahlerOrder #[0, 0, 0, 0, 1, 1] [0, 3, 1, 5, 2, 4] none = #[2, 2, 1, 1, 1, 1] := by decide
-- three tributaries of equal order -> 2 (not 3); four equal -> 2
example : strahlerOrder #[0, 0, 0, 0] [0, 1, 2, 3] none = #[2, 1, 1, 1] := by decide
example : strahler [1, 1, 1, 1] = 2 ∧ strahler [2, 1, 2, 1, 1, 2, 1, 1] = 3 ∧ strahler [3, 1, 2] = 3 := by decide
-- a downstream-closed mask {0,1,4}: a single stream of order 1, 0 elsewhere
example : strahlerOrder #[0, 0, 0, 0, 1, 1] [0, 1, 2, 3, 4, 5]
    (some #[true, true, false, false, true, false]) = #[1, 1, 0, 0, 1, 0] := by decide
example : strahlerCert #[0, 0, 0, 0, 1, 1] none #[2, 2, 1, 1, 1, 1] = true ∧
    strahlerCert #[0, 0, 0, 0, 1, 1] none #[3, 2, 1, 1, 1, 1] = false := by decide
example : (List.range 6).map (strahlerSpec #[0, 0, 0, 0, 1, 1] none) = [2, 2, 1, 1, 1, 1] := by decide
-- classic order: main stem 0 <- 1 <- 4 (areas 6, 3, tie 1 = 1 broken towards the least index)
example : mainUpstream #[0, 0, 0, 0, 1, 1] #[6, 3, 1, 1, 1, 1] 0 = #[1, 4, 6, 6, 6, 6] := by decide
example : classicOrder #[0, 0, 0, 0, 1, 1] [0, 1, 2, 3, 4, 5]
    (mainUpstream #[0, 0, 0, 0, 1, 1] #[6, 3, 1, 1, 1, 1] 0) none = #[1, 1, 2, 2, 1, 2] := by decide

-- uint8 loop = unbounded loop on a small network; the accumulated cell counts bound the order
example : classicOrderU8 #[0, 0, 0, 0, 1, 1] [0, 1, 2, 3, 4, 5]
    (mainUpstream #[0, 0, 0, 0, 1, 1] #[6, 3, 1, 1, 1, 1] 0) none = #[1, 1, 2, 2, 1, 2] := by decide
example : maskedCount #[0, 0, 0, 0, 1, 1] [0, 1, 2, 3, 4, 5] none = #[6, 3, 1, 1, 1, 1] := by decide

end Pf.C08
