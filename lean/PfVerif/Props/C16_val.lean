import PfVerif.Proofs.C16_val
import PfVerif.Proofs.C16_valCount
/-! # C16 extension `C16_val` — capacity of the fixed-width VALUE arrays

`Props/C16_mach.lean` proves that the kernels do not depend on the INDEX dtype under the capacity the
library's dtype selection guarantees. The kernels also allocate VALUE arrays whose dtype is fixed:
`int32` ranks / inflow counts / cell-count distances / stream-order labels / Pfafstetter seeds, `uint8`
stream orders, `uint32` basin ids / area labels / heap entries / positions, `int8` flags. All kernel models
compute these values unbounded (`Int`, `Nat`). This file closes the gap:

1. the machine reading of a value array: `store` (truncation), `load` (two's complement), `Fits`;
   `load (store x) = x` **iff** `x` fits, `= wrapZ x` always;
2. for each value array the exact bound of the UNBOUNDED model value in terms of the number of cells /
   pits / outlets / the depth, proved from the model theorems of C03, C08, C18 - and hence the capacity
   statement (`*_fits`) under which the stored array reads back as the model value;
3. the loops that do arithmetic at the value dtype itself (`rnk += 1`, `dist[idx_ds] + 1`,
   `strord[idx_ds] + 1`): the machine counter is the truncation of the unbounded one at every step;
4. kernel-checked wrap-around just beyond each bound that is not implied by the index capacity:
   classic stream order `255 + 1 -> 0` (open finding F08), `pfaf_branch` at
   `(i+1) * 10^depth >= 2^31`, rank / distance `2^31`, heap rows `2^32`.

`n` (number of cells) is unbounded in every theorem. Core Lean only. -/
namespace Pf.C16v
open Pf Pf.C16m Pf.C03 Pf.C08 Pf.C18

/-! ## 1. value dtypes: store, load, capacity -/

/-- the ranges of the four value dtypes that occur -/
theorem range_values :
    (lo i8 = -128 ∧ hi i8 = 127) ∧ (lo u8 = 0 ∧ hi u8 = 255) ∧
    (lo i32 = -2147483648 ∧ hi i32 = 2147483647) ∧ (lo u32 = 0 ∧ hi u32 = 4294967295) := by decide

/-- store-then-load is reduction modulo `2^w` into the dtype's range - always -/
theorem load_store (t : ValTy) (x : Int) : load t (store t x) = wrapZ t x := load_store' t x

/-- **refinement**: a representable number is read back exactly -/
theorem load_store_fits {t : ValTy} (hw : 0 < t.w) {x : Int} (h : Fits t x) : load t (store t x) = x :=
  load_store_fits' hw h

/-- … and ONLY a representable number is: beyond the capacity the array silently holds another value -/
theorem load_store_iff {t : ValTy} (hw : 0 < t.w) (x : Int) : load t (store t x) = x ↔ Fits t x :=
  load_store_iff' hw x

/-- whatever bit pattern is in the array reads as a number of the dtype -/
theorem load_in_range {t : ValTy} (hw : 0 < t.w) (v : BitVec t.w) : Fits t (load t v) := load_range' hw v

/-- **array refinement**: if every entry of the unbounded model array fits, the machine array reads back
as the model array -/
theorem storeArr_exact {t : ValTy} (hw : 0 < t.w) (a : Array Int) (h : FitsArr t a) :
    loadArr t (storeArr t a) = a := by
  unfold loadArr storeArr
  apply Array.ext (by simp)
  intro i h1 h2
  simp only [Array.getElem_map]
  exact load_store_fits' hw (h _ (Array.getElem_mem _))

theorem fitsArrB_iff (t : ValTy) (a : Array Int) : fitsArrB t a = true ↔ FitsArr t a := by
  unfold fitsArrB FitsArr
  rw [List.all_eq_true]
  constructor
  · intro h x hx; exact of_decide_eq_true (h x (Array.mem_def.1 hx))
  · intro h x hx; exact decide_eq_true (h x (Array.mem_def.2 hx))

/-- the machine increment is the truncation of the unbounded increment (`rnk += 1`, `dist[idx_ds] + 1`,
`strord[idx_ds] + 1` at the element type) -/
theorem inc_refines (t : ValTy) (x : Int) : incM (store t x) = store t (x + 1) := incM_store t x

/-! ## 2. `core.rank` (`int32`; `-9999` nodata, `-1` loop) and `stream_distance(real_length=False)` -/

/-- **bound**: every certified rank array (the model's, and the implementation's output once the decidable
certificate of C03 accepts it) has entries in `[-9999, n - 1]` -/
theorem rank_cert_bounds (ds : Array Nat) (rk : Array Int) (h : checkRankCert ds rk = true)
    (i : Nat) (hi : i < ds.size) : -9999 ≤ rk[i]! ∧ rk[i]! ≤ (ds.size : Int) - 1 := by
  have hc := (checkRankCert_iff ds rk).1 h
  have := rank_lt_size hc i hi
  exact ⟨rank_ge hc i hi, by omega⟩

/-- **`core.rank`: ranks are at most `n - 1`, the node count at most `n`** (from `rank_cert`, C03) -/
theorem rank_bounds (ds : Array Nat) (hwf : WF ds) (r : Array Int) (c : Nat) (h : rank ds = some (r, c)) :
    (∀ i, i < ds.size → -9999 ≤ r[i]! ∧ r[i]! ≤ (ds.size : Int) - 1) ∧ c ≤ ds.size ∧ r.size = ds.size := by
  obtain ⟨r', c', h1, h2⟩ := rank_cert ds hwf
  rw [h] at h1
  obtain ⟨rfl, rfl⟩ : r = r' ∧ c = c' := by simpa using h1
  refine ⟨fun i hi => rank_cert_bounds ds r h2 i hi, ?_, ((checkRankCert_iff ds r).1 h2).size⟩
  rw [(rank_count ds hwf r c h).1]
  have := List.countP_le_length (p := fun i => decide ((0:Int) ≤ r[i]!)) (l := List.range ds.size)
  rwa [List.length_range] at this

/-- **capacity**: for `n ≤ 2^31` cells - in particular whenever the library selects `int32` indices
(`n < 2^31 - 1`) - the `int32` rank array holds exactly the model's ranks -/
theorem rank_fits (ds : Array Nat) (hwf : WF ds) (r : Array Int) (c : Nat) (h : rank ds = some (r, c))
    (hn : ds.size ≤ 2 ^ 31) : FitsArr i32 r ∧ loadArr i32 (storeArr i32 r) = r := by
  obtain ⟨hb, _, hs⟩ := rank_bounds ds hwf r c h
  have hf : FitsArr i32 r := by
    intro x hx
    obtain ⟨i, hi, rfl⟩ := Array.getElem_of_mem hx
    have := hb i (hs ▸ hi)
    rw [getElem!_pos r i hi] at this
    have hr := range_values.2.2.1
    unfold Fits
    rw [hr.1, hr.2]
    constructor <;> omega
  exact ⟨hf, storeArr_exact (by decide) r hf⟩

theorem rank_fits_of_cap (ds : Array Nat) (hwf : WF ds) (r : Array Int) (c : Nat) (h : rank ds = some (r, c))
    (hc : Cap i32 ds.size) : loadArr i32 (storeArr i32 r) = r := by
  have : ds.size < 2147483647 := by have := cap32_values.1; unfold Cap at hc; omega
  exact (rank_fits ds hwf r c h (by omega)).2

/-- **the `int32` counter of `core.rank`** (`rnk = np.int32(-1)` at the pit, `rnk += 1` per cell of the
stack) after `k + 1` increments holds the truncation of `k` - the rank of the `k`-th cell above the pit -/
theorem rank_counter (t : ValTy) (k : Nat) :
    load t (chainCountM (store t (-1)) (k + 1)) = wrapZ t (k : Int) := by
  rw [chainCountM_store, load_store]
  congr 1
  omega

/-- … which is `k` itself up to `2^31 - 1` -/
theorem rank_counter_exact (k : Nat) (hk : k < 2 ^ 31) :
    load i32 (chainCountM (store i32 (-1)) (k + 1)) = (k : Int) := by
  rw [chainCountM_store]
  have : (-1 : Int) + ((k + 1 : Nat) : Int) = (k : Int) := by omega
  rw [this]
  apply load_store_fits (by decide)
  have hr := range_values.2.2.1
  unfold Fits
  rw [hr.1, hr.2]
  constructor <;> omega

/-- `stream_distance(real_length=False)`: `dist[idx0] = dist[idx_ds] + 1` from 0 at the pit - the same counter -/
theorem distance_counter (t : ValTy) (k : Nat) : load t (chainCountM (store t 0) k) = wrapZ t (k : Int) := by
  rw [chainCountM_store, load_store]; congr 1; omega

-- beyond the bound (only reachable with `uint32` / `uint64` indices, i.e. more than 2^31 cells on one flow
-- path): rank 2^31 is stored as -2^31 - the `int32` value dtype does NOT follow the index dtype
example : load i32 (store i32 2147483647) = 2147483647 ∧ load i32 (store i32 2147483648) = -2147483648 := by decide
example : Cap u32 2147483650 ∧ ¬ Fits i32 (2147483650 - 1) := by decide

/-! ## 3. `core.upstream_count` (`int32`; `-9` on missing cells) -/

/-- **bound**: `-9 ≤ n_up ≤ n` (the count of inflowing cells, C08 `upstream_count_spec`) -/
theorem nup_bounds (ds : Array Nat) (mask : Option (Array Bool)) (hwf : ∀ i < ds.size, ds[i]! ≤ ds.size)
    (d : Nat) (hd : d < ds.size) :
    -9 ≤ (upstreamCount ds mask)[d]! ∧ (upstreamCount ds mask)[d]! ≤ (ds.size : Int) := by
  rw [upstream_count_spec ds mask hwf d hd]
  have := nupSpec_le ds mask d
  split <;> constructor <;> omega

theorem nup_fits (ds : Array Nat) (mask : Option (Array Bool)) (hwf : ∀ i < ds.size, ds[i]! ≤ ds.size)
    (hn : ds.size < 2 ^ 31) (d : Nat) (hd : d < ds.size) : Fits i32 (upstreamCount ds mask)[d]! := by
  have := nup_bounds ds mask hwf d hd
  have hr := range_values.2.2.1
  unfold Fits
  rw [hr.1, hr.2]
  constructor <;> omega

/-! ## 4. `streams.strahler_order` (`uint8`) -/

/-- **bound**: a Strahler order `k` needs `2^(k-1)` cells (C08), and a catchment has at most `n` cells:
on a network of fewer than `2^w` cells every order is at most `w` -/
theorem strahler_le_log (ds : Array Nat) (seq : List Nat) (mask : Option (Array Bool))
    (htopo : Topo ds seq) (hb : ∀ i ∈ seq, i < ds.size) (w : Nat) (hn : ds.size < 2 ^ w)
    (j : Nat) (hj : j ∈ seq) (hm : maskAt mask j = true) : (strahlerOrder ds seq mask)[j]! ≤ w := by
  have h1 := strahler_pow_le_count ds seq mask htopo hb j hj hm
  have h2 := maskedCount_le ds seq mask htopo hb j hj
  have := pow_le_imp_le (Nat.le_trans h1 h2) w hn
  omega

/-- **capacity**: whenever an index dtype exists for the network (`n < 2^64`) every Strahler order is at
most 64 - the `uint8` arrays `strord`, `strmax` (and the comparison `strord[idx0] == 0`) are exact -/
theorem strahler_fits (ds : Array Nat) (seq : List Nat) (mask : Option (Array Bool))
    (htopo : Topo ds seq) (hb : ∀ i ∈ seq, i < ds.size) (hn : ds.size < 2 ^ 64)
    (hclosed : ∀ c ∈ seq, maskAt mask c = true → maskAt mask ds[c]! = true) (j : Nat) :
    (strahlerOrder ds seq mask)[j]! ≤ 64 ∧ Fits u8 ((strahlerOrder ds seq mask)[j]! : Int) := by
  have h : (strahlerOrder ds seq mask)[j]! ≤ 64 := by
    by_cases hj : j ∈ seq ∧ maskAt mask j = true
    · exact strahler_le_log ds seq mask htopo hb 64 hn j hj.1 hj.2
    · rw [strahler_outside ds seq mask htopo hb hclosed j hj]; omega
  refine ⟨h, ?_⟩
  have hr := range_values.2.1
  unfold Fits
  rw [hr.1, hr.2]
  constructor <;> omega

/-! ## 5. `streams.stream_order` (classic, `uint8`) - open finding F08 -/

/-- **bound**: the classic order is at most the number of cells (one increment per step of the path) -/
theorem classic_le_n (ds : Array Nat) (seq : List Nat) (usMain : Array Nat) (mask : Option (Array Bool))
    (htopo : Topo ds seq) (hb : ∀ i ∈ seq, i < ds.size) (i : Nat) :
    (classicOrder ds seq usMain mask)[i]! ≤ ds.size := by
  by_cases hi : i ∈ seq
  · exact Nat.le_trans (classic_le_length ds seq usMain mask htopo hb i hi) (topo_length_le htopo hb)
  · rw [(classic_rec ds seq usMain mask htopo hb).2.2 i (Or.inl hi)]; omega

/-- **capacity**: up to 255 cells the `uint8` loop of the code is exact (C08 `classic_u8_exact`) … -/
theorem classic_fits_small (ds : Array Nat) (seq : List Nat) (usMain : Array Nat) (mask : Option (Array Bool))
    (htopo : Topo ds seq) (hb : ∀ i ∈ seq, i < ds.size) (hn : ds.size ≤ 255) (i : Nat) :
    (classicOrderW 8 ds seq usMain mask)[i]! = (classicOrder ds seq usMain mask)[i]! := by
  rw [classicOrderW_8]
  exact classic_u8_exact ds seq usMain mask htopo hb
    (fun k _ => Nat.le_trans (classic_le_n ds seq usMain mask htopo hb k) hn) i

/-- … and in general exactly as long as no order exceeds 255 -/
theorem classic_fits (ds : Array Nat) (seq : List Nat) (usMain : Array Nat) (mask : Option (Array Bool))
    (htopo : Topo ds seq) (hb : ∀ i ∈ seq, i < ds.size)
    (hle : ∀ i ∈ seq, (classicOrder ds seq usMain mask)[i]! ≤ 255) (i : Nat) :
    (classicOrderW 8 ds seq usMain mask)[i]! = (classicOrder ds seq usMain mask)[i]! := by
  rw [classicOrderW_8]; exact classic_u8_exact ds seq usMain mask htopo hb hle i

-- the bound `n` is attained - unlike Strahler the index capacity does not protect the `uint8` array.
-- F08 mechanism on a 2-bit order array: a spine 0 <- 1 <- 2 <- 3 <- 4 whose cells each receive a leaf with a
-- larger upstream area (the leaf is the main upstream cell, so every spine step is a non-main confluence step)
example : classicOrder #[0, 0, 1, 2, 3, 0, 1, 2, 3] [0, 1, 2, 3, 4, 5, 6, 7, 8] #[5, 6, 7, 8, 9, 9, 9, 9, 9] none
    = #[1, 2, 3, 4, 5, 1, 2, 3, 4] := by decide +kernel
example : classicOrderW 2 #[0, 0, 1, 2, 3, 0, 1, 2, 3] [0, 1, 2, 3, 4, 5, 6, 7, 8] #[5, 6, 7, 8, 9, 9, 9, 9, 9] none
    = #[1, 2, 3, 0, 1, 1, 2, 3, 0] := by decide +kernel
-- the `uint8` step of the code: order 255 + 1 is stored as 0
example : load u8 (incM (store u8 255)) = 0 ∧ load u8 (store u8 256) = 0 ∧ load u8 (store u8 257) = 1 := by decide
example : ¬ Fits u8 256 := by decide

/-! ## 6. labels `1 .. #outlets` (`basins`: `uint32`, `subbasins_streamorder`: `int32`, `subbasins_area`: `uint32`) -/

/-- **bound**: in a label map accepted by the C18 certificates (`subOK`: every cell carries the label of its
first outlet downstream; `idsOK`: the `k`-th outlet carries `k + 1`) every label lies in `0 .. #outlets` -/
theorem labels_bounds (ds : Array Nat) (outlets : List Nat) (labels : Array Int)
    (h1 : subOK ds outlets labels = true) (h2 : idsOK outlets labels = true) (i : Nat)
    (hv : isValid ds i = true) : 0 ≤ labels[i]! ∧ labels[i]! ≤ (outlets.length : Int) := by
  have hs := (subOK_sound ds outlets labels h1).2.1 i hv
  have hid := idsOK_sound outlets labels h2
  rcases hs with ⟨hz, _⟩ | ⟨m, hm, hl, _⟩
  · omega
  · obtain ⟨k, hk, he⟩ := mem_getElem! hm
    have hl' : labels[i]! = labels[iterA ds m i]! := hl
    rw [hl', ← he, hid k hk]
    omega

/-- **capacity** of the `int32` (`subbasins_streamorder`) and `uint32` (`basins`, `subbasins_area`) label maps -/
theorem labels_fit (ds : Array Nat) (outlets : List Nat) (labels : Array Int)
    (h1 : subOK ds outlets labels = true) (h2 : idsOK outlets labels = true) (i : Nat)
    (hv : isValid ds i = true) :
    (outlets.length < 2 ^ 31 → Fits i32 labels[i]!) ∧ (outlets.length < 2 ^ 32 → Fits u32 labels[i]!) := by
  have := labels_bounds ds outlets labels h1 h2 i hv
  have hr := range_values.2.2
  unfold Fits
  rw [hr.1.1, hr.1.2, hr.2.1, hr.2.2]
  constructor <;> intro _ <;> constructor <;> omega

/-- `basins.basins`: `ids = np.arange(1, npits + 1, dtype=np.uint32)` -/
theorem basin_ids_fit (npits k : Nat) (hk : k < npits) (hn : npits < 2 ^ 32) : Fits u32 ((k : Int) + 1) := by
  have hr := range_values.2.2.2
  unfold Fits
  rw [hr.1, hr.2]
  constructor <;> omega

/-- a duplicate-free outlet list has at most `n` entries: with `int32` indices every label fits `int32` -/
theorem outlets_le_n (n : Nat) (outlets : List Nat) (hnd : outlets.Nodup) (hb : ∀ o ∈ outlets, o < n) :
    outlets.length ≤ n := by
  have := List.Nodup.length_le_of_subset hnd (l₂ := List.range n) (fun x hx => List.mem_range.2 (hb x hx))
  rwa [List.length_range] at this

example : load u32 (store u32 4294967296) = 0 ∧ load i32 (store i32 2147483648) = -2147483648 := by decide

/-! ## 7. `basins.subbasins_pfafstetter`: `pfaf_branch` (`int32`) holds `pfaf0 + (i+1) * 10^depth` -/

/-- `pfaf0 = 1 + 10 + … + 10^(depth-1)` -/
theorem pfaf_base (depth : Nat) (hd : 0 < depth) : 9 * pfBase depth + 1 = (10 : Int) ^ depth :=
  pfBase_repunit depth hd

/-- **bound**: the seed of pit number `i` (0-based) lies strictly between `(i+1) * 10^depth` and
`(i+2) * 10^depth` -/
theorem pfaf_seed_bounds (depth i : Nat) (hd : 0 < depth) :
    ((i : Int) + 1) * (10 : Int) ^ depth < pfafSeed depth i ∧
    pfafSeed depth i < ((i : Int) + 2) * (10 : Int) ^ depth := by
  have h := pfBase_repunit depth hd
  have hp := pow10_pos depth
  have hb1 := pfBase_pos depth
  unfold pfafSeed
  have e : ((i : Int) + 2) * (10 : Int) ^ depth = ((i : Int) + 1) * (10 : Int) ^ depth + (10 : Int) ^ depth := by
    rw [Int.add_mul, Int.add_mul]; omega
  rw [e]
  constructor <;> omega

/-- **capacity**: all seeds of `npits` pits fit `int32` when `(npits + 1) * 10^depth ≤ 2^31` -/
theorem pfaf_seed_fits (depth npits : Nat) (hd : 0 < depth)
    (hcap : ((npits : Int) + 1) * (10 : Int) ^ depth ≤ 2147483648) (i : Nat) (hi : i < npits) :
    Fits i32 (pfafSeed depth i) ∧ load i32 (store i32 (pfafSeed depth i)) = pfafSeed depth i := by
  obtain ⟨h1, h2⟩ := pfaf_seed_bounds depth i hd
  have hp := pow10_pos depth
  have hmono : ((i : Int) + 2) * (10 : Int) ^ depth ≤ ((npits : Int) + 1) * (10 : Int) ^ depth :=
    Int.mul_le_mul_of_nonneg_right (by omega) (Int.le_of_lt hp)
  have hpos : 0 ≤ ((i : Int) + 1) * (10 : Int) ^ depth := Int.mul_nonneg (by omega) (Int.le_of_lt hp)
  have hf : Fits i32 (pfafSeed depth i) := by
    have hr := range_values.2.2.1
    unfold Fits
    rw [hr.1, hr.2]
    constructor <;> omega
  exact ⟨hf, load_store_fits (by decide) hf⟩

/-- **wrap-around beyond it**: as soon as `(i+1) * 10^depth ≥ 2^31` the seed of pit `i` is not representable;
the `int32` array then holds another number (by `load_store_iff`) -/
theorem pfaf_seed_overflow (depth i : Nat) (hd : 0 < depth)
    (h : 2147483648 ≤ ((i : Int) + 1) * (10 : Int) ^ depth) :
    ¬ Fits i32 (pfafSeed depth i) ∧ load i32 (store i32 (pfafSeed depth i)) ≠ pfafSeed depth i := by
  have hb := (pfaf_seed_bounds depth i hd).1
  have hn : ¬ Fits i32 (pfafSeed depth i) := by
    have hr := range_values.2.2.1
    unfold Fits
    rw [hr.1, hr.2]
    omega
  exact ⟨hn, fun he => hn ((load_store_iff (by decide) _).1 he)⟩

-- depth 9 (outside C18's quantified depths 1..3): the third pit already wraps
example : pfafSeed 9 1 = 2111111111 ∧ Fits i32 (pfafSeed 9 1) := by decide
example : pfafSeed 9 2 = 3111111111 ∧ load i32 (store i32 (pfafSeed 9 2)) = -1183856185 := by decide
-- inside the quantified depths: the first pit number (0-based) whose seed does not fit
example : Fits i32 (pfafSeed 3 2147482) ∧ ¬ Fits i32 (pfafSeed 3 2147483) := by decide
example : Fits i32 (pfafSeed 2 21474835) ∧ ¬ Fits i32 (pfafSeed 2 21474836) := by decide
example : Fits i32 (pfafSeed 1 214748363) ∧ ¬ Fits i32 (pfafSeed 1 214748364) := by decide
-- the wrapped seed no longer ends in the repunit: `% 10^depth` of the stored value is not the code 111
example : load i32 (store i32 (pfafSeed 3 2147483)) = -2147483185 ∧ pfafSeed 3 2147483 % 1000 = 111 := by decide

/-! ### after fix 21ba047 (`pfaf_branch` is `int64` until the final `% 10^depth`)

The two theorems above describe the array as it was (finding F18b, fixed): they stay as the record of the defect. The code
now stores the seeds in `int64`; the result `seed % 10^depth` is cast to `int32`. -/

theorem range_i64 : lo i64 = -9223372036854775808 ∧ hi i64 = 9223372036854775807 := by decide

/-- **capacity of the repaired array**: all seeds fit `int64` when `(npits + 1) * 10^depth ≤ 2^63` - for every depth `≤ 9`
that is any number of pits below `9.2 * 10^9`, more than the `uint32` index dtype can address -/
theorem pfaf_seed_fits64 (depth npits : Nat) (hd : 0 < depth)
    (hcap : ((npits : Int) + 1) * (10 : Int) ^ depth ≤ 9223372036854775808) (i : Nat) (hi : i < npits) :
    Fits i64 (pfafSeed depth i) ∧ load i64 (store i64 (pfafSeed depth i)) = pfafSeed depth i := by
  obtain ⟨h1, h2⟩ := pfaf_seed_bounds depth i hd
  have hp := pow10_pos depth
  have hmono : ((i : Int) + 2) * (10 : Int) ^ depth ≤ ((npits : Int) + 1) * (10 : Int) ^ depth :=
    Int.mul_le_mul_of_nonneg_right (by omega) (Int.le_of_lt hp)
  have hpos : 0 ≤ ((i : Int) + 1) * (10 : Int) ^ depth := Int.mul_nonneg (by omega) (Int.le_of_lt hp)
  have hf : Fits i64 (pfafSeed depth i) := by
    have hr := range_i64
    unfold Fits
    rw [hr.1, hr.2]
    constructor <;> omega
  exact ⟨hf, load_store_fits (by decide) hf⟩

/-- the code the kernel returns for a pit, `seed % 10^depth`, is the repunit `pfaf0` whatever the pit number, and it fits the
documented `int32` result for every depth `≤ 9` -/
theorem pfaf_code_fits32 (depth i : Nat) (hd : 0 < depth) (h9 : depth ≤ 9) :
    pfafSeed depth i % (10 : Int) ^ depth = pfBase depth ∧ Fits i32 (pfBase depth) := by
  have h := pfBase_repunit depth hd
  have hp := pow10_pos depth
  have hb1 := pfBase_pos depth
  have hlt : pfBase depth < (10 : Int) ^ depth := by omega
  constructor
  · unfold pfafSeed
    rw [Int.add_mul_emod_self_right]
    exact Int.emod_eq_of_lt (by omega) hlt
  · have hc : depth = 1 ∨ depth = 2 ∨ depth = 3 ∨ depth = 4 ∨ depth = 5 ∨ depth = 6 ∨ depth = 7 ∨ depth = 8 ∨ depth = 9 := by
      omega
    rcases hc with rfl | rfl | rfl | rfl | rfl | rfl | rfl | rfl | rfl <;> decide

-- the third pit at depth 9, which wrapped in `int32`, is exact in `int64` and its code is the repunit
example : Fits i64 (pfafSeed 9 2) ∧ load i64 (store i64 (pfafSeed 9 2)) = 3111111111 ∧ pfafSeed 9 2 % 10 ^ 9 = 111111111 := by decide

/-! ## 8. flags (`int8`), heap entries and positions (`uint32`) -/

/-- `dem.floodplains`, `upscale.upscale_error` (and `map_effare` / edge flags): the values `-1, 0, 1` -/
theorem flags_fit : Fits i8 (-1) ∧ Fits i8 0 ∧ Fits i8 1 ∧ load i8 (store i8 (-1)) = -1 ∧
    load i8 (store i8 0) = 0 ∧ load i8 (store i8 1) = 1 := by decide

/-- a `Nat` stored in an unsigned array is exact below `2^w` … -/
theorem storeNat_exact (t : ValTy) (k : Nat) (h : k < 2 ^ t.w) : (storeNat t k).toNat = k := by
  unfold storeNat
  rw [BitVec.toNat_ofNat]
  exact Nat.mod_eq_of_lt h

/-- … and reduced modulo `2^w` in general -/
theorem storeNat_wraps (t : ValTy) (k : Nat) : (storeNat t k).toNat = k % 2 ^ t.w := by
  unfold storeNat
  rw [BitVec.toNat_ofNat]

/-- **`dem.fill_depressions` heap entries `(np.uint32(r), np.uint32(c))`** and **`dem._adjust_elevation`
positions `np.arange(i, j, dtype=np.uint32)`**: exact for every raster the 32-bit index dtypes can hold
(rows, columns and positions along a stream are below the number of cells) -/
theorem heap_entry_exact {nrow ncol r c : Nat} (hc : Cap i32 (nrow * ncol) ∨ Cap u32 (nrow * ncol))
    (hr : r < nrow) (hcc : c < ncol) : (storeNat u32 r).toNat = r ∧ (storeNat u32 c).toNat = c := by
  have hn : nrow * ncol < 2 ^ 32 := by
    have := cap32_values
    rcases hc with h | h <;> unfold Cap at h <;> omega
  have h1 : r < nrow * ncol := Nat.lt_of_lt_of_le hr (Nat.le_mul_of_pos_right _ (by omega))
  have h2 : c < nrow * ncol := Nat.lt_of_lt_of_le hcc (Nat.le_mul_of_pos_left _ (by omega))
  exact ⟨storeNat_exact u32 r (by show r < 2 ^ 32; omega), storeNat_exact u32 c (by show c < 2 ^ 32; omega)⟩

theorem position_exact {n k : Nat} (hc : Cap i32 n ∨ Cap u32 n) (hk : k ≤ n) : (storeNat u32 k).toNat = k := by
  have hn : n < 2 ^ 32 := by
    have := cap32_values
    rcases hc with h | h <;> unfold Cap at h <;> omega
  exact storeNat_exact u32 k (by show k < 2 ^ 32; omega)

-- with `uint64` indices (more than 2^32 - 2 cells) a row number 2^32 would be stored as 0
example : (storeNat u32 4294967296).toNat = 0 ∧ (storeNat u32 4294967295).toNat = 4294967295 := by decide

/-! ## non-vacuity: the network of `Props/C03.lean` (3-cycle, pit 3 with tributary 4, 2-cycle, pit 7, missing cell 9) -/

example : rank #[1, 2, 0, 3, 3, 6, 5, 7, 5, 10] = some (#[-1, -1, -1, 0, 1, -1, -1, 0, -1, -9999], 3) := by
  decide +kernel
example : fitsArrB i32 #[-1, -1, -1, 0, 1, -1, -1, 0, -1, -9999] = true := by decide +kernel
example : loadArr i32 (storeArr i32 #[-1, -1, -1, 0, 1, -1, -1, 0, -1, -9999])
    = #[-1, -1, -1, 0, 1, -1, -1, 0, -1, -9999] := by decide +kernel
-- the same array does not survive a `uint8` / `int8` store
example : loadArr u8 (storeArr u8 #[-1, 0, 1, -9999]) = #[255, 0, 1, 241] := by decide +kernel
example : loadArr i8 (storeArr i8 #[-1, 0, 1, -9999]) = #[-1, 0, 1, -15] := by decide +kernel
example : load i32 (chainCountM (store i32 (-1)) 5) = 4 := by decide
example : (upstreamCount #[0, 0, 0, 0, 1, 1] none) = #[3, 2, 0, 0, 0, 0] := by decide +kernel
example : strahlerOrder #[0, 0, 0, 0, 1, 1] [0, 1, 2, 3, 4, 5] none = #[2, 2, 1, 1, 1, 1] := by decide +kernel

end Pf.C16v
