import PfVerif.Proofs.C09_ihuLoop
import PfVerif.Proofs.C09_ihuSync2
import PfVerif.Props.C09_ihu
/-! # C09 extension, fourth stage — the iterative stages of IHU keep the coarse network well formed and terminate

For the loop-for-loop models of `Model/C09_ihu.lean` (`ihu_relocate_outlets`, `ihu_optimize_rivlen`,
`ihu_minimize_error`, `upscale_check`, the `niter` loop of `ihu`):

* `LinksOK e cds out` — both arrays have one entry per coarse cell, every coarse link is the missing value or a coarse
  cell of the 3×3 neighbourhood, a cell has a link exactly where it has an outlet pixel, outlet pixels are valid fine
  cells — is preserved by every stage (`*_links`), hence holds for the output of `ihu` (`ihu_links`): "valid iff outlet",
  "links in range" and "8-neighbour adjacency" are theorems about the algorithm, no longer per-run observations;
* every `while` of the stages stops: the bottleneck loop of STEP 4 within `ncell + 2` rounds
  (`reloc_bottleneck_fuel`), the walks down the fine network at the pit; with the fuel the models use none of them is
  ever exhausted (`relocate_outlets_total`, `optimize_rivlen_total`, `minimize_error_total`, `upscale_check_total`,
  `ihu_model_total`).

Domain: a well-formed fine network (`FineWF`) on which every valid pixel reaches a pit (`ReachesPit`, from the
downstream-first order of C03), an upstream-area array that is not above `minupa` on missing pixels (`-9999` in the
library), the coarse grid of the fine grid (`EnvOK`). All theorems hold for every `np.argsort` tie order (`Sorts`). -/
namespace Pf.C09ihu
open Pf

/-! ## vocabulary -/

/-- the stage environment is consistent: valid fine cells point to valid fine cells and lie in coarse cells of the raster -/
structure EnvOK (e : Env) : Prop where
  wf : FineWF e.ds
  cell : ∀ p, ValidPx e.ds p → e.cell p < e.ncell

/-- weak form of an acceptable (link `v`, outlet pixel `p`) pair of coarse cell `c`: the link is in range, the outlet
pixel is missing or a valid fine cell, a linked cell has an outlet pixel -/
def LinkTot (e : Env) (_c v p : Nat) : Prop :=
  v ≤ e.ncell ∧ (p = e.ds.size ∨ ValidPx e.ds p) ∧ (v ≠ e.ncell → p ≠ e.ds.size)

/-- full form: no link and no outlet pixel, or a link to a cell of the 3×3 neighbourhood and a valid outlet pixel -/
def LinkFull (e : Env) (c v p : Nat) : Prop :=
  (v = e.ncell ∧ p = e.ds.size) ∨ (v < e.ncell ∧ inD8 c v e.ncol = true ∧ ValidPx e.ds p)

/-- what the stages need to run (weak well-formedness) -/
def StateOK (e : Env) (cds out : Array Nat) : Prop :=
  cds.size = e.ncell ∧ out.size = e.ncell ∧ ∀ c, c < e.ncell → LinkTot e c cds[c]! out[c]!

/-- the coarse network is well formed: valid ⇔ outlet, links in range and 8-neighbour, outlet pixels valid -/
def LinksOK (e : Env) (cds out : Array Nat) : Prop :=
  cds.size = e.ncell ∧ out.size = e.ncell ∧ ∀ c, c < e.ncell → LinkFull e c cds[c]! out[c]!

theorem LinkFull.tot {e : Env} {c v p : Nat} (h : LinkFull e c v p) : LinkTot e c v p := by
  rcases h with ⟨h1, h2⟩ | ⟨h1, _, h3⟩
  · exact ⟨by omega, Or.inl h2, fun hne => absurd h1 hne⟩
  · exact ⟨by omega, Or.inr h3, fun _ => by have := h3.1; omega⟩

theorem LinksOK.state {e : Env} {cds out : Array Nat} (h : LinksOK e cds out) : StateOK e cds out :=
  ⟨h.1, h.2.1, fun c hc => (h.2.2 c hc).tot⟩

theorem wctx_tot {e : Env} (h : EnvOK e) : WCtx e e.ncell (LinkTot e) where
  w1 := fun _ v p _ hv _ hp => ⟨by omega, Or.inr hp, fun _ => by have := hp.1; omega⟩
  w2 := fun _ _ _ h => h
  w3 := fun _ _ _ _ h _ hp => ⟨h.1, Or.inr hp, fun _ => by have := hp.1; omega⟩
  cell := h.cell
  wf := h.wf
  ncell := rfl

theorem wctx_full {e : Env} (h : EnvOK e) : WCtx e e.ncell (LinkFull e) where
  w1 := fun _ _ _ _ hv hd hp => Or.inr ⟨hv, hd, hp⟩
  w2 := fun _ _ _ h => h.tot
  w3 := fun _ _ _ _ h hne hp => by
    rcases h with ⟨h1, _⟩ | ⟨h1, h2, _⟩
    · exact absurd h1 hne
    · exact Or.inr ⟨h1, h2, hp⟩
  cell := h.cell
  wf := h.wf
  ncell := rfl

theorem wok_iff {e : Env} {W : Nat → Nat → Nat → Prop} {cds out : Array Nat} :
    WOK e e.ncell W cds out ↔ cds.size = e.ncell ∧ out.size = e.ncell ∧ ∀ c, c < e.ncell → W c cds[c]! out[c]! :=
  ⟨fun h => ⟨h.szc, h.szo, h.ok⟩, fun h => ⟨h.1, h.2.1, h.2.2, fun _ _ hh => hh.elim, fun _ _ hh => hh.elim⟩⟩

/-- `LinksOK` is exactly what the driver evaluates on the implementation's arrays (`chkLinksOK`): the former
observation-only bits `validiff`, `range`, `d8` plus sizes and validity of the outlet pixels -/
theorem chkLinksOK_iff (e : Env) (cds out : Array Nat) : chkLinksOK e cds out = true ↔ LinksOK e cds out := by
  unfold chkLinksOK chkSizes chkCdsRange chkValidIff chkD8 chkOutValid okD8 LinksOK
  simp only [Bool.and_eq_true, beq_iff_eq, allCells_iff, decide_eq_true_eq, Bool.or_eq_true, bne_iff_ne, ne_eq]
  constructor
  · rintro ⟨⟨⟨⟨⟨h1, h2⟩, h3⟩, h4⟩, h5⟩, h6⟩
    refine ⟨h1, h2, fun c hc => ?_⟩
    have a3 := h3 c (h1 ▸ hc)
    have a4 := h4 c (h1 ▸ hc)
    have a5 := h5 c (h1 ▸ hc)
    have a6 := h6 c (h2 ▸ hc)
    rw [h1] at a4 a5
    by_cases hv : cds[c]! = e.ncell
    · left
      refine ⟨hv, ?_⟩
      simp only [hv, bne_self_eq_false] at a4
      simpa using a4
    · right
      rcases a5 with a5 | a5
      · exact absurd a5 hv
      · refine ⟨a5.1, a5.2, ?_⟩
        have hne : out[c]! ≠ e.ds.size := by
          intro heq
          simp [hv, heq] at a4
        rcases a6 with a6 | a6
        · exact absurd a6 hne
        · exact a6
  · rintro ⟨h1, h2, h3⟩
    refine ⟨⟨⟨⟨⟨h1, h2⟩, fun c hc => ?_⟩, fun c hc => ?_⟩, fun c hc => ?_⟩, fun c hc => ?_⟩
    · have := (h3 c (h1 ▸ hc)).tot.1; omega
    · rcases h3 c (h1 ▸ hc) with ⟨a, b⟩ | ⟨a, _, b⟩
      · simp [a, b, h1]
      · have := b.1
        have h4 : cds[c]! ≠ cds.size := by omega
        have h5 : out[c]! ≠ e.ds.size := by omega
        rw [bne_iff_ne.mpr h4, bne_iff_ne.mpr h5]
    · rcases h3 c (h1 ▸ hc) with ⟨a, _⟩ | ⟨a, b, _⟩
      · left; omega
      · right; exact ⟨by omega, b⟩
    · rcases h3 c (h2 ▸ hc) with ⟨_, b⟩ | ⟨_, _, b⟩
      · left; exact b
      · right; exact b

/-! ## 1. `ihu_relocate_outlets` -/

/-- **the bottleneck loop of STEP 4 (`while len(bottleneck) > nbottlenecks`) runs at most `ncell + 2` times.**
On a well-formed state, with trace lists and tributary cells as STEPS 1-3 produce them (trace cells and tributary cells
are linked cells of the raster, alternative outlet pixels are valid, the flagged cell has an outlet pixel), for a
bottleneck list without duplicates that holds only values of coarse links: every fuel `≥ ncell + 2 - len(bottleneck)`
gives the same defined result as fuel `ncell + 2` (the model calls the loop with `ncell + 3` and an empty list), and the
result is well formed again. The reason: `bottleneck` only receives values of coarse links (`≤ ncell`) that it does not
contain yet, so it never holds more than `ncell + 1` entries (pigeonhole `nodup_le_length`), and the loop goes on only
while it grows. -/
theorem reloc_bottleneck_fuel (e : Env) (hE : EnvOK e) (hr : Pf.C09.ReachesPit e.ds) (idx00 : Nat) (cells pixs : List Nat)
    (tr : Tribs) (s : S4) (hs : StateOK e s.cds s.out) (h00 : s.out[idx00]! ≠ e.ds.size)
    (htw : ∀ j, j < pixs.length → cells[j]! < e.ncell ∧ s.cds[cells[j]!]! ≠ e.ncell ∧ ValidPx e.ds pixs[j]!)
    (htr : ∀ k, k < tr.conn.size → tr.us0[k]! < e.ncell ∧ s.cds[tr.us0[k]!]! ≠ e.ncell)
    (hn : s.bott.Nodup) (hl : ∀ b ∈ s.bott, b ≤ e.ncell) (fuel : Nat) (hf : e.ncell + 2 ≤ fuel + s.bott.length) :
    ∃ r, step4 e idx00 cells pixs tr fuel s = some r ∧ step4 e idx00 cells pixs tr (e.ncell + 2) s = some r ∧
      StateOK e r.cds r.out := by
  have hw := wctx_tot hE
  have hs' : WArr e e.ncell (LinkTot e) (fun c => s.cds[c]! ≠ e.ncell) (fun c => s.out[c]! ≠ e.ds.size) s.cds s.out :=
    ⟨hs.1, hs.2.1, hs.2.2, fun _ _ hh => hh, fun _ _ hh => hh⟩
  have htw' : TrW e e.ncell (fun c => s.cds[c]! ≠ e.ncell) (fun c => s.out[c]! ≠ e.ds.size) cells pixs := by
    refine ⟨fun j hj => ?_⟩
    obtain ⟨h1, h2, h3⟩ := htw j hj
    refine ⟨h1, h2, ?_, h3⟩
    have := (hs'.valid_of_link hw _ h1 h2).1
    omega
  obtain ⟨r, h1, h2, _⟩ := step4_tot hw hr idx00 h00 cells pixs tr htw' htr (e.ncell + 2 - s.bott.length) s hs' hn hl
    (by have := nodup_le_length _ _ hn hl; omega)
  exact ⟨r, step4_mono e idx00 cells pixs tr _ s r h1 fuel (by omega),
    step4_mono e idx00 cells pixs tr _ s r h1 (e.ncell + 2) (by omega), h2.szc, h2.szo, h2.ok⟩

/-- **`ihu_relocate_outlets` never runs out of fuel** (trace @1A, connect loop @3B, tributary loop @4D with the nested
`next_outlet`, bottleneck loop of STEP 4, each with the fuel the model gives it) on a well-formed state whose flagged
cells have outlet pixels; the state it returns is well formed again -/
theorem relocate_outlets_total (e : Env) (hE : EnvOK e) (hr : Pf.C09.ReachesPit e.ds) (fix : List Nat) (cds out : Array Nat)
    (sorts : Sorts) (hs : StateOK e cds out) (hfix : ∀ c ∈ fix, c < e.ncell ∧ out[c]! ≠ e.ds.size) :
    ∃ r, relocateOutlets e fix cds out sorts = some r ∧ StateOK e r.cds r.out := by
  obtain ⟨r, h1, h2⟩ := relocateOutlets_tot (wctx_tot hE) hr fix cds out sorts
    (A := fun _ => False) (B := fun c => out[c]! ≠ e.ds.size)
    ⟨hs.1, hs.2.1, hs.2.2, fun _ _ hh => hh.elim, fun _ _ hh => hh⟩ hfix
  exact ⟨r, h1, h2.szc, h2.szo, h2.ok⟩

/-- **`ihu_relocate_outlets` keeps the coarse network well formed** (valid ⇔ outlet, links in range and 8-neighbour) -/
theorem relocate_outlets_links (e : Env) (hE : EnvOK e) (hr : Pf.C09.ReachesPit e.ds) (fix : List Nat) (cds out : Array Nat)
    (sorts : Sorts) (r : RelSt) (h : relocateOutlets e fix cds out sorts = some r) (hs : LinksOK e cds out)
    (hfix : ∀ c ∈ fix, c < e.ncell ∧ out[c]! ≠ e.ds.size) : LinksOK e r.cds r.out := by
  obtain ⟨r', h1, h2⟩ := relocateOutlets_tot (wctx_full hE) hr fix cds out sorts
    (A := fun _ => False) (B := fun c => out[c]! ≠ e.ds.size)
    ⟨hs.1, hs.2.1, hs.2.2, fun _ _ hh => hh.elim, fun _ _ hh => hh⟩ hfix
  rw [h] at h1
  cases h1
  exact ⟨h2.szc, h2.szo, h2.ok⟩

/-! ## 2. `ihu_optimize_rivlen`, `ihu_minimize_error`, `upscale_check` -/

/-- **`ihu_optimize_rivlen` never runs out of fuel** (the walks of `new_outlet`) and returns a well-formed state -/
theorem optimize_rivlen_total (e : Env) (par : Par) (hE : EnvOK e) (hf : FineOK e par) (short : List Nat)
    (valid : Array Bool) (hvs : valid.size ≤ e.ncell) (streams : Array Int) (cds out : Array Nat)
    (hs : StateOK e cds out) :
    ∃ st', optimizeRivlen e par short valid (streams, cds, out) = some st' ∧ StateOK e st'.2.1 st'.2.2 := by
  obtain ⟨st', h1, h2⟩ := optimizeRivlen_tot (wctx_tot hE) par hf short valid hvs (streams, cds, out)
    (wok_iff.mpr hs)
  exact ⟨st', h1, wok_iff.mp h2⟩

/-- **`ihu_optimize_rivlen` keeps the coarse network well formed** -/
theorem optimize_rivlen_links (e : Env) (par : Par) (hE : EnvOK e) (hf : FineOK e par) (short : List Nat)
    (valid : Array Bool) (hvs : valid.size ≤ e.ncell) (streams : Array Int) (cds out : Array Nat) (st' : Tri)
    (h : optimizeRivlen e par short valid (streams, cds, out) = some st') (hs : LinksOK e cds out) :
    LinksOK e st'.2.1 st'.2.2 := by
  obtain ⟨st2, h1, h2⟩ := optimizeRivlen_tot (wctx_full hE) par hf short valid hvs (streams, cds, out)
    (wok_iff.mpr hs)
  rw [h] at h1
  cases h1
  exact wok_iff.mp h2

/-- **`ihu_minimize_error` never runs out of fuel** and returns a well-formed state, for every `pit_out_of_cell` -/
theorem minimize_error_total (e : Env) (par : Par) (hE : EnvOK e) (hf : FineOK e par) (poc : Nat) (fix : List Nat)
    (streams : Array Int) (cds out : Array Nat) (sorts : Sorts) (hs : StateOK e cds out)
    (hfix : ∀ c ∈ fix, c < e.ncell ∧ out[c]! ≠ e.ds.size) :
    ∃ r, minimizeError e par poc fix (streams, cds, out) sorts = some r ∧ StateOK e r.1.2.1 r.1.2.2 := by
  obtain ⟨r, h1, h2⟩ := minimizeError_tot (wctx_tot hE) par hf poc fix (streams, cds, out) sorts
    (A := fun _ => False) (B := fun c => out[c]! ≠ e.ds.size) hfix
    ⟨hs.1, hs.2.1, hs.2.2, fun _ _ hh => hh.elim, fun _ _ hh => hh⟩
  exact ⟨r, h1, h2.szc, h2.szo, h2.ok⟩

/-- **`ihu_minimize_error` keeps the coarse network well formed**, for every `pit_out_of_cell` (a cell whose outlet is
moved to a pit becomes a coarse pit; the F09c loop is a loop of well-formed links) -/
theorem minimize_error_links (e : Env) (par : Par) (hE : EnvOK e) (hf : FineOK e par) (poc : Nat) (fix : List Nat)
    (streams : Array Int) (cds out : Array Nat) (sorts : Sorts) (r : Tri × Sorts)
    (h : minimizeError e par poc fix (streams, cds, out) sorts = some r) (hs : LinksOK e cds out)
    (hfix : ∀ c ∈ fix, c < e.ncell ∧ out[c]! ≠ e.ds.size) : LinksOK e r.1.2.1 r.1.2.2 := by
  obtain ⟨r', h1, h2⟩ := minimizeError_tot (wctx_full hE) par hf poc fix (streams, cds, out) sorts
    (A := fun _ => False) (B := fun c => out[c]! ≠ e.ds.size) hfix
    ⟨hs.1, hs.2.1, hs.2.2, fun _ _ hh => hh.elim, fun _ _ hh => hh⟩
  rw [h] at h1
  cases h1
  exact ⟨h2.szc, h2.szo, h2.ok⟩

/-- **`upscale_check` never runs out of fuel** on a well-formed state; `valid` has one entry per coarse cell and the
cells it reports as erroneous are linked cells (hence have an outlet pixel) -/
theorem upscale_check_total (e : Env) (hE : EnvOK e) (hr : Pf.C09.ReachesPit e.ds) (cds out : Array Nat) (minNum minDen : Nat)
    (hs : StateOK e cds out) :
    ∃ r, upscaleCheck e.ds out cds minNum minDen = some r ∧ r.1.size = e.ncell ∧
      ∀ c ∈ r.2.2.1, c < e.ncell ∧ out[c]! ≠ e.ds.size := by
  have hw := wok_iff.mpr hs
  obtain ⟨r, h1, h2, h3⟩ := upscaleCheck_tot e.ds out cds minNum minDen hr
    (fun c hc hne => hw.valid_of_link (wctx_tot hE) c (by rw [← hs.1]; exact hc) (by rw [← hs.1]; exact hne))
  refine ⟨r, h1, by rw [h2, hs.1], fun c hc => ?_⟩
  have := h3 c hc
  rw [hs.1] at this
  have hv := (hw.valid_of_link (wctx_tot hE) c this.1 this.2).1
  exact ⟨this.1, by omega⟩

/-! ## 3. The whole of `ihu` -/

/-- the environment `ihuModel` builds from the fine grid is consistent -/
theorem envOK_of_geo (ds : Array Nat) (upa : Array Int) (g : Geo) (hg : g.OK ds) (hwf : FineWF ds) :
    EnvOK ⟨ds, upa, g.subncol, g.cs, g.nrow, g.ncol⟩ := by
  refine ⟨hwf, fun p hp => ?_⟩
  have hp1 : p < ds.size := hp.1
  show (if p < ds.size then subidx2idx p g.subncol g.cs g.ncol else g.nrow * g.ncol) < g.nrow * g.ncol
  rw [if_pos hp1]
  exact g.cell_lt ds hg p hp1

/-- the cells `ihu_nextidx` flags are coarse cells with an outlet pixel -/
theorem eamPlus_fix (ds : Array Nat) (upa : Array Int) (ea : Array Bool) (g : Geo) (cds out : Array Nat)
    (fix : List Nat) (hwf : FineWF ds) (h : eamPlusModel ds upa ea g = some (cds, out, fix)) :
    ∀ c ∈ fix, c < g.ncell ∧ out[c]! ≠ ds.size := by
  have hown := Pf.C09.eam_plus_outlets ds upa ea g cds out fix hwf h
  unfold eamPlusModel at h
  simp only at h
  split at h
  · cases h
  · rename_i out' hout
    simp only [Option.map_eq_some_iff, Prod.mk.injEq] at h
    obtain ⟨r, hn, rfl, rfl, rfl⟩ := h
    unfold ihuNextidx at hn
    simp only [Option.map_eq_some_iff] at hn
    obtain ⟨a, ha, rfl⟩ := hn
    obtain ⟨hsa, hf⟩ := collect_some _ _ _ ha
    intro c hc
    simp only [List.mem_filter, List.mem_range] at hc
    have hso : out'.size = g.ncell := hown.size_out
    have hlt : c < out'.size := by rw [← hsa]; exact hc.1
    refine ⟨hso ▸ hlt, fun heq => ?_⟩
    have hfc := hf c hlt
    rw [if_pos heq] at hfc
    have e1 : a[c]! = (out'.size, false) := (Option.some.inj hfc).symm
    rw [e1] at hc
    exact absurd hc.2 (by simp)

/-- **`ihu_model_total`: the model of `ihu` is total.** On a well-formed fine network of the right size on which every
valid pixel reaches a pit, with an upstream-area array that is not above `minupa = cellsize²` (quarter units) on missing
pixels, `ihuModel` returns — whatever `niter`, `opt_rivlen`, `min_error`, `pit_out_of_cell` and the order of `np.argsort`
ties are, none of the `while` loops of the first pass, `ihu_relocate_outlets`, `upscale_check`, `ihu_optimize_rivlen`,
`ihu_minimize_error`, `new_outlet`, `next_outlet` exhausts the fuel the model gives it -/
theorem ihu_model_total (ds : Array Nat) (upa : Array Int) (ea : Array Bool) (g : Geo) (o : IhuOpt) (sorts : Sorts)
    (hg : g.OK ds) (hwf : FineWF ds) (hr : Pf.C09.ReachesPit ds)
    (hup : ∀ p, p < ds.size → ds[p]! = ds.size → upa[p]! ≤ Int.ofNat (g.cs * g.cs)) :
    (ihuModel ds upa ea g o sorts).isSome = true := by
  obtain ⟨⟨cds0, out0, fix0⟩, hfirst⟩ := Option.isSome_iff_exists.mp (Pf.C09.eam_plus_total ds upa ea g hwf hr)
  have hE := envOK_of_geo ds upa g hg hwf
  have hown := Pf.C09.eam_plus_outlets ds upa ea g cds0 out0 fix0 hwf hfirst
  have hun := Pf.C09.eam_plus_unflagged ds upa ea g cds0 out0 fix0 hg hwf hfirst
  have hs : StateOK ⟨ds, upa, g.subncol, g.cs, g.nrow, g.ncol⟩ cds0 out0 := by
    refine ⟨hown.size_cds, hown.size_out, fun c hc => ?_⟩
    have hc' : c < g.ncell := hc
    obtain ⟨h1, h2, _⟩ := hun c hc'
    refine ⟨h2, ?_, fun hne heq => hne (h1 heq)⟩
    by_cases hv : out0[c]! = ds.size
    · exact Or.inl hv
    · exact Or.inr (hown.own c hc' hv).1
  obtain ⟨r, h1, _⟩ := ihuLoop_tot (wctx_tot hE) ⟨g.cs, 4, Int.ofNat (g.cs * g.cs)⟩ ⟨hr, hup⟩ o o.niter fix0 cds0 out0
    sorts (wok_iff.mpr hs) (eamPlus_fix ds upa ea g cds0 out0 fix0 hwf hfirst)
  unfold ihuModel
  rw [hfirst]
  simp only [h1, Option.isSome_some]

/-- **valid ⇔ outlet, links in range, 8-neighbour adjacency after the iterative stages** (`chkValidIff`, `chkCdsRange`,
`chkD8` as theorems about `ihuModel`): under the hypotheses of `eam_plus_valid_iff_outlet` (fine links join 8-neighbours,
the effective-area map contains the centre cross of every coarse cell) and of `ihu_model_total`, whatever the options and
the order of ties are, in the result of `ihu` a coarse cell has a link exactly where it has an outlet pixel, every link
is a coarse cell of the 3×3 neighbourhood, every outlet pixel is a valid fine cell. (Loop-freeness is NOT claimed: F09c.) -/
theorem ihu_links (ds : Array Nat) (upa : Array Int) (ea : Array Bool) (g : Geo) (o : IhuOpt) (sorts sorts' : Sorts)
    (cds out : Array Nat) (hg : g.OK ds) (hwf : FineWF ds) (hd8 : FineD8 ds g.subncol) (hea : EaCross g ea ds.size)
    (hr : Pf.C09.ReachesPit ds) (hup : ∀ p, p < ds.size → ds[p]! = ds.size → upa[p]! ≤ Int.ofNat (g.cs * g.cs))
    (h : ihuModel ds upa ea g o sorts = some (cds, out, sorts')) :
    cds.size = g.ncell ∧ out.size = g.ncell ∧ ∀ c, c < g.ncell →
      (cds[c]! ≠ g.ncell ↔ out[c]! ≠ ds.size) ∧ cds[c]! ≤ g.ncell ∧
      (cds[c]! ≠ g.ncell → cds[c]! < g.ncell ∧ inD8 c cds[c]! g.ncol = true) ∧
      (out[c]! ≠ ds.size → ValidPx ds out[c]!) := by
  unfold ihuModel at h
  split at h
  · cases h
  · rename_i cds0 out0 fix0 hfirst
    have hE := envOK_of_geo ds upa g hg hwf
    have hown := Pf.C09.eam_plus_outlets ds upa ea g cds0 out0 fix0 hwf hfirst
    have hvi := Pf.C09.eam_plus_valid_iff_outlet ds upa ea g cds0 out0 fix0 hg hwf hd8 hea hfirst
    have hs : LinksOK ⟨ds, upa, g.subncol, g.cs, g.nrow, g.ncol⟩ cds0 out0 := by
      refine ⟨hown.size_cds, hown.size_out, fun c hc => ?_⟩
      have hc' : c < g.ncell := hc
      obtain ⟨h1, h2⟩ := hvi c hc'
      by_cases hv : out0[c]! = ds.size
      · left
        refine ⟨?_, hv⟩
        apply Classical.byContradiction
        intro hne
        exact (h1.mp hne) hv
      · right
        exact ⟨(h2 hv).1, (h2 hv).2, (hown.own c hc' hv).1⟩
    obtain ⟨r, h1, h2⟩ := ihuLoop_tot (wctx_full hE) ⟨g.cs, 4, Int.ofNat (g.cs * g.cs)⟩ ⟨hr, hup⟩ o o.niter fix0 cds0
      out0 sorts (wok_iff.mpr hs) (eamPlus_fix ds upa ea g cds0 out0 fix0 hwf hfirst)
    rw [h] at h1
    cases h1
    obtain ⟨hz1, hz2, hz3⟩ := wok_iff.mp h2
    refine ⟨hz1, hz2, fun c hc => ?_⟩
    have hc' : c < Env.ncell ⟨ds, upa, g.subncol, g.cs, g.nrow, g.ncol⟩ := hc
    rcases hz3 c hc' with ⟨a, b⟩ | ⟨a, b, d⟩
    · have a' : cds[c]! = g.ncell := a
      have b' : out[c]! = ds.size := b
      exact ⟨by simp [a', b'], by omega, fun hne => absurd a' hne, fun hne => absurd b' hne⟩
    · have a' : cds[c]! < g.ncell := a
      have d1 : out[c]! < ds.size := d.1
      have hne : out[c]! ≠ ds.size := by omega
      exact ⟨⟨fun _ => hne, fun _ => by omega⟩, by omega, fun _ => ⟨a', b⟩, fun _ => d⟩

/-! ## 3b. Outlet pixels stay pairwise distinct when `pit_out_of_cell > 0`

With `pit_out_of_cell > 0` `ihu_minimize_error` may move the outlet pixel of a cell to the pit its stream ends in, OUTSIDE
the cell (`Props/C09_ihu.lean`, `exMEnv`), so "one outlet per cell because every outlet lies in its own cell" is lost.
Can two coarse cells then report the same pixel? No: the stage works on the `streams` array of `upscale_check`, in which
the entry of every outlet pixel is its coarse cell (`SyncD`); `new_outlet` only selects pixels with `streams = -9`, the
pit is only taken when the walk from the old outlet pixel met no pixel with `streams ≥ 0` (`errPath_empty`), and every
change of the outlet array is mirrored in `streams` (`move_sync`). So the stages keep `SyncD`, and `SyncD` implies that
the in-range outlet pixels are pairwise distinct. -/

/-- **`upscale_check` puts `streams` in step with a duplicate-free outlet array** -/
theorem upscale_check_sync (ds out cds : Array Nat) (minNum minDen : Nat)
    (r : Array Bool × Array Int × List Nat × List Nat) (h : upscaleCheck ds out cds minNum minDen = some r)
    (hd : DistinctD ds out) : r.2.1.size = ds.size ∧ SyncD ds r.2.1 out :=
  ⟨(upscaleCheck_sync ds out cds minNum minDen r h hd).2.1, (upscaleCheck_sync ds out cds minNum minDen r h hd).2.2.1⟩

/-- **`ihu_optimize_rivlen` keeps `streams` in step with the outlet array** (hence the outlets distinct) -/
theorem optimize_rivlen_sync (e : Env) (par : Par) (short : List Nat) (valid : Array Bool) (streams streams' : Array Int)
    (cds out cds' out' : Array Nat)
    (h : optimizeRivlen e par short valid (streams, cds, out) = some (streams', cds', out'))
    (hvs : valid.size ≤ out.size) (hsz : streams.size = e.ds.size) (hs : SyncD e.ds streams out) :
    streams'.size = e.ds.size ∧ out'.size = out.size ∧ SyncD e.ds streams' out' :=
  optimizeRivlen_sync e par out.size short valid hvs _ _ h ⟨hsz, rfl, hs⟩

/-- **`minimize_error_outlets_distinct`: for EVERY `pit_out_of_cell`, `ihu_minimize_error` keeps `streams` in step with
the outlet array, so no two coarse cells share an (in-range) outlet pixel afterwards** — also when outlets are moved to
pits outside their cells. Hypotheses: `streams` has one entry per pixel and is in step before (what `upscale_check`
establishes, `upscale_check_sync`), the erroneous cells are cells of the coarse raster. -/
theorem minimize_error_outlets_distinct (e : Env) (par : Par) (poc : Nat) (fix : List Nat) (streams streams' : Array Int)
    (cds out cds' out' : Array Nat) (sorts sorts' : Sorts)
    (h : minimizeError e par poc fix (streams, cds, out) sorts = some ((streams', cds', out'), sorts'))
    (hn : e.nrow * e.ncol = out.size) (hfix : ∀ c ∈ fix, c < out.size) (hsz : streams.size = e.ds.size)
    (hs : SyncD e.ds streams out) :
    out'.size = out.size ∧ SyncD e.ds streams' out' ∧
      ∀ c c', c < out'.size → c' < out'.size → out'[c]! < e.ds.size → out'[c]! = out'[c']! → c = c' := by
  have := minimizeError_sync e par out.size poc fix _ _ sorts sorts' hn hfix h ⟨hsz, rfl, hs⟩
  exact ⟨this.2.1, this.2.2, SyncD.distinct this.2.2⟩

/-- **the outlet pixels of `ihu` are pairwise distinct for every `pit_out_of_cell`** (completes `ihu_outlets`, which
proves it for `pit_out_of_cell = 0`) -/
theorem ihu_outlets_distinct (ds : Array Nat) (upa : Array Int) (ea : Array Bool) (g : Geo) (o : IhuOpt)
    (sorts sorts' : Sorts) (cds out : Array Nat) (hwf : FineWF ds)
    (h : ihuModel ds upa ea g o sorts = some (cds, out, sorts')) :
    ∀ c c', c < g.ncell → c' < g.ncell → out[c]! ≠ ds.size → out[c]! = out[c']! → c = c' := by
  have hout := ihu_outlets ds upa ea g o sorts sorts' cds out hwf h
  unfold ihuModel at h
  split at h
  · cases h
  · rename_i cds0 out0 fix0 hfirst
    have h0 := Pf.C09.eam_plus_outlets ds upa ea g cds0 out0 fix0 hwf hfirst
    have hd := ihuLoop_distinct ⟨ds, upa, g.subncol, g.cs, g.nrow, g.ncol⟩ _ o g.ncell rfl o.niter fix0 cds0 out0 sorts
      _ h h0.size_cds h0.size_out (by
        intro c hc
        by_cases hv : out0[c]! = ds.size
        · exact Or.inl hv
        · have := h0.own c (h0.size_out ▸ hc) hv
          refine Or.inr ⟨this.1.1, ?_⟩
          show (if out0[c]! < ds.size then subidx2idx out0[c]! g.subncol g.cs g.ncol else g.nrow * g.ncol) = c
          rw [if_pos this.1.1]
          exact this.2)
    intro c c' hc hc' hv heq
    have hlt : out[c]! < ds.size := by
      rcases hout.2.2.1 c hc with h1 | h1 | h1
      · exact absurd h1 hv
      · exact h1.1
      · apply Classical.byContradiction
        intro hge
        rw [get!_oob ds out[c]! hge] at h1
        omega
    exact hd c c' (by rw [hout.2.1]; exact hc) (by rw [hout.2.1]; exact hc') hlt heq

/-! ## 4. The hypotheses are decidable (evaluated by the driver on every case: `hyp.*` outputs) -/

theorem chkReach_sound (ds : Array Nat) (h : chkReach ds = true) : Pf.C09.ReachesPit ds := by
  intro p hp
  have := (allCells_iff _ _).mp h p hp.1
  simp only [Bool.or_eq_true, beq_iff_eq] at this
  rcases this with h0 | h1
  · exact absurd h0 hp.2
  · exact ⟨ds.size, Nat.le_refl _, h1⟩

theorem chkEnvOK_sound (e : Env) (h1 : chkFineWF e.ds = true) (h2 : chkEnvCells e = true) : EnvOK e := by
  refine ⟨(Pf.C09.hyp_checks_sound e.ds e.upa #[] ⟨0, 0, 0⟩).1 h1, fun p hp => ?_⟩
  have := (allCells_iff _ _).mp h2 p hp.1
  simp only [Bool.or_eq_true, beq_iff_eq, decide_eq_true_eq] at this
  rcases this with h0 | h0
  · exact absurd h0 hp.2
  · exact h0

theorem chkUpaNodata_sound (e : Env) (par : Par) (hr : Pf.C09.ReachesPit e.ds) (h : chkUpaNodata e par.minupa = true) :
    FineOK e par := by
  refine ⟨hr, fun p hp hv => ?_⟩
  have := (allCells_iff _ _).mp h p hp
  simp only [Bool.or_eq_true, bne_iff_ne, ne_eq, decide_eq_true_eq] at this
  rcases this with h0 | h0
  · exact absurd hv h0
  · exact h0

theorem chkFixOK_sound (e : Env) (fix : List Nat) (out : Array Nat) (h : chkFixOK e fix out = true) :
    ∀ c ∈ fix, c < e.ncell ∧ out[c]! ≠ e.ds.size := by
  intro c hc
  have := List.all_eq_true.mp h c hc
  simpa using this

theorem chkSync_iff (e : Env) (streams : Array Int) (out : Array Nat) :
    chkSync e streams out = true ↔ streams.size = e.ds.size ∧ SyncD e.ds streams out := by
  unfold chkSync SyncD
  simp only [Bool.and_eq_true, beq_iff_eq, allCells_iff, Bool.or_eq_true, Bool.not_eq_true', decide_eq_false_iff_not]
  constructor
  · rintro ⟨h1, h2⟩
    exact ⟨h1, fun c hc hlt => (h2 c hc).resolve_left (fun hn => hn hlt)⟩
  · rintro ⟨h1, h2⟩
    refine ⟨h1, fun c hc => ?_⟩
    by_cases hlt : out[c]! < e.ds.size
    · exact Or.inr (h2 c hc hlt)
    · exact Or.inl hlt

theorem chkDistinct_iff (e : Env) (out : Array Nat) :
    chkDistinct e out = true ↔
      ∀ c c', c < out.size → c' < out.size → out[c]! ≠ e.ds.size → out[c]! = out[c']! → c = c' := by
  unfold chkDistinct
  simp only [allCells_iff, Bool.or_eq_true, beq_iff_eq, bne_iff_ne, ne_eq]
  constructor
  · intro h c c' hc hc' hv heq
    rcases h c hc with h1 | h1
    · exact absurd h1 hv
    · rcases h1 c' hc' with h2 | h2
      · exact h2
      · exact absurd heq h2
  · intro h c hc
    by_cases hv : out[c]! = e.ds.size
    · exact Or.inl hv
    · refine Or.inr (fun c' hc' => ?_)
      by_cases heq : out[c]! = out[c']!
      · exact Or.inl (h c c' hc hc' hv heq)
      · exact Or.inr heq

/-! ## 5. Concrete inputs (non-vacuity) -/

/-- a 1×16 raster, scale 6 (coarse 1×3): the only flagged cell is 2; the tributary cell 0 cannot be connected to the
alternative outlet pixel 11 of cell 1, so coarse link value 1 enters `bottleneck` and the loop of STEP 4 runs twice -/
def bEnv : Env :=
  { ds := #[1, 2, 3, 4, 5, 6, 6, 6, 7, 10, 11, 11, 11, 12, 13, 15],
    upa := #[1, 2, 3, 4, 5, 6, 9, 2, 1, 1, 2, 6, 3, 2, 1, 1],
    subncol := 16, cs := 6, nrow := 1, ncol := 3 }
def bCds : Array Nat := #[1, 1, 1]
def bOut : Array Nat := #[5, 6, 12]
def bTr : Tribs := { us0 := #[0], sds0 := #[6], conn := #[0], conn1 := #[0] }
def bS0 : S4 :=
  { cds := bCds, out := bOut, outEd := [], dsEd := [], idx0 := 2, j0 := 0, k0 := 0, nextiter := false, bott := [], idx1 := 1 }

/-- STEPS 1-3 of the model produce exactly the data STEP 4 is run on below -/
example : (relocTrace bEnv bCds bOut 17 11 (bEnv.cell 11) 1 [] []).map (fun t => (t.cells, t.pixs, t.idx1)) =
      some ([1], [11], 1) ∧
    relocTribs bEnv bCds bOut 2 ⟨true, 11, 1, [1], [11]⟩ = [0] ∧
    relocConn bEnv bOut [11] [0] 1 = some ([0], [0], 1) := by decide +kernel

/-- one round is not enough (fuel 1 is exhausted), two are; `ncell + 2 = 5` rounds give the same result, with
`bottleneck = [1]` and the arrays restored -/
example : (step4 bEnv 2 [1] [11] bTr 1 bS0).isNone = true ∧
    (step4 bEnv 2 [1] [11] bTr 2 bS0).map (fun s => (s.cds, s.out, s.bott, s.nextiter)) =
      some (#[1, 1, 1], #[5, 6, 12], [1], true) ∧
    (step4 bEnv 2 [1] [11] bTr (bEnv.ncell + 2) bS0).map (fun s => (s.cds, s.out, s.bott, s.nextiter)) =
      some (#[1, 1, 1], #[5, 6, 12], [1], true) := by decide +kernel

/-- the hypotheses of `reloc_bottleneck_fuel` / `relocate_outlets_total` / `relocate_outlets_links` on it -/
example : chkFineWF bEnv.ds = true ∧ chkEnvCells bEnv = true ∧ chkReach bEnv.ds = true ∧
    chkLinksOK bEnv bCds bOut = true ∧ chkFixOK bEnv [2] bOut = true ∧
    (1 < bEnv.ncell ∧ bCds[1]! ≠ bEnv.ncell ∧ ValidPx bEnv.ds 11) ∧ (0 < bEnv.ncell ∧ bCds[0]! ≠ bEnv.ncell) := by
  unfold ValidPx; decide +kernel

/-- … and the conclusion: the whole relocation is defined (the cell stays unresolved) and the state well formed -/
example : (relocateOutlets bEnv [2] bCds bOut ⟨[[0], [0]], 0⟩).map (fun r => (r.cds, r.out, r.fixOut, r.sorts.bad)) =
      some (#[1, 1, 1], #[5, 6, 12], [2], 0) ∧ chkLinksOK bEnv #[1, 1, 1] #[5, 6, 12] = true := by decide +kernel

/-- the 3×7 raster of `Props/C09_ihu.lean` (scale 2, upstream areas in quarter units): hypotheses of `ihu_model_total`
and `ihu_links` … -/
example : chkFineWF exEnv.ds = true ∧ chkReach exEnv.ds = true ∧ chkFineD8 exEnv.ds 7 = true ∧
    chkEaCross ⟨3, 7, 2⟩ (Array.replicate 21 true) 21 = true ∧
    chkUpaNodata { exEnv with upa := exEnv.upa.map (· * 4) } 4 = true ∧ exEnv.ds.size = 3 * 7 := by decide +kernel

/-- … and their conclusions: `ihu` returns (see the example in `Props/C09_ihu.lean`) and its result, in which the outlet
of coarse cell 2 has moved and cell 6 is re-linked, is well formed -/
example : (ihuModel exEnv.ds (exEnv.upa.map (· * 4)) (Array.replicate 21 true) ⟨3, 7, 2⟩ ⟨5, true, true, 2⟩
      ⟨[[0], [0, 1, 2], []], 0⟩).isSome = true ∧
    chkLinksOK exEnv #[1, 1, 1, 2, 0, 0, 1, 6] #[8, 9, 4, 6, 14, 16, 18, 20] = true := by decide +kernel

/-- a state that is NOT well formed is rejected by the check: cell 3 linked to the non-adjacent cell 0 -/
example : chkLinksOK exEnv #[1, 1, 1, 0, 0, 0, 1, 6] #[8, 9, 4, 6, 14, 16, 18, 20] = false := by decide +kernel

/-- `minimize_error_outlets_distinct` on the 1×7 raster of `Props/C09_ihu.lean` (`pit_out_of_cell = 2`): `streams` is in
step with the outlets before; the outlet of coarse cell 3 moves to the pit 5 in coarse cell 2 — outside its own cell —
and `streams` is in step again, the four outlets stay distinct -/
example : chkSync exMEnv exMStreams #[7, 2, 4, 6] = true ∧ exMEnv.nrow * exMEnv.ncol = 4 ∧
    (minimizeError exMEnv ⟨2, 4, 1⟩ 2 [3] (exMStreams, #[4, 1, 2, 2], #[7, 2, 4, 6]) ⟨[[0]], 0⟩).map
      (fun r => (r.1.1, r.1.2.2)) = some (#[-9, -9, 1, -9, 2, 3, -1], #[7, 2, 4, 5]) ∧
    chkSync exMEnv #[-9, -9, 1, -9, 2, 3, -1] #[7, 2, 4, 5] = true ∧
    chkDistinct exMEnv #[7, 2, 4, 5] = true ∧ chkOwnCell exMEnv #[7, 2, 4, 5] = false := by decide +kernel

/-- a `streams` array that is NOT in step is rejected: pixel 5 marked for cell 2 while cell 3 reports it -/
example : chkSync exMEnv #[-9, -9, 1, -9, 2, 2, -1] #[7, 2, 4, 5] = false ∧
    chkDistinct exMEnv #[7, 2, 5, 5] = false := by decide +kernel

end Pf.C09ihu
