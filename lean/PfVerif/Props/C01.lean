import PfVerif.Proofs.C01
import PfVerif.Generated.Tables
/-! # C01 — flow-direction rasters are decoded faithfully to the D8 / LDD / NEXTXY conventions

`Pf.Fd.Spec` (in `Model/C01.lean`) holds the code tables typed in from the property statement and the
declarative graph `Spec.graph nrow ncol read`: a nodata cell is outside the graph, every other cell drains
to the cell its code designates when that cell lies on the raster and is not nodata, and to itself
otherwise. The theorems below hold for **every** shape `nrow × ncol` (no lower or upper bound; `1 × N`,
`N × 1` and empty rasters included), every raster over the legal alphabet and every cell.

Section 1 are the obligations against the tables regenerated from /repo on every run; they break when
someone edits `drdc`, `_mv`, `_pv` or `_all` in /repo. -/
namespace Pf.C01
open Pf Pf.Fd Pf.Fd.Spec

/-! ## 1. regenerated tables = specification tables (tie 1) -/

/-- `core_d8.drdc` as extracted from /repo sends every D8 direction code to the compass delta of the
property statement (1=E, 2=SE, 4=S, 8=SW, 16=W, 32=NW, 64=N, 128=NE), both pit codes to (0,0), and the
module constants are nodata 247, pits {0, 255}, alphabet = the 11 legal codes -/
theorem d8_table_ok :
    (∀ p ∈ d8Dirs, Generated.d8Drdc[p.1]! = p.2) ∧
    (∀ v ∈ d8Pits, Generated.d8Drdc[v]! = (0, 0)) ∧
    Generated.d8Mv = d8Nodata ∧ Generated.d8Pv = d8Pits ∧
    (∀ v, v < 256 → (v ∈ Generated.d8All ↔ v ∈ d8Alphabet)) := by
  decide +kernel

/-- the same for LDD: keypad `7 8 9 / 4 5 6 / 1 2 3`, pit 5, nodata 255 -/
theorem ldd_table_ok :
    (∀ p ∈ lddDirs, Generated.lddDrdc[p.1]! = p.2) ∧
    (∀ v ∈ lddPits, Generated.lddDrdc[v]! = (0, 0)) ∧
    Generated.lddMv = lddNodata ∧ Generated.lddPv = lddPits ∧
    (∀ v, v < 256 → (v ∈ Generated.lddAll ↔ v ∈ lddAlphabet)) := by
  decide +kernel

/-- NEXTXY constants: nodata -9999, pits -9 (outlet) and -10 (inland) -/
theorem nextxy_consts_ok : Generated.nextxyMv = xyNodata ∧ Generated.nextxyPv = xyPits := by
  decide

/-- the hand-written model of the two `drdc` functions and of the module constants is what /repo
contains: on every legal code the extracted `drdc` equals the model's, and the constants coincide -/
theorem model_tables_ok :
    (∀ v ∈ d8Alphabet, Generated.d8Drdc[v]! = d8Drdc v) ∧
    (∀ v ∈ lddAlphabet, Generated.lddDrdc[v]! = lddDrdc v) ∧
    Generated.d8Mv = d8Mv ∧ Generated.d8Pv = d8Pv ∧ Generated.d8All = d8All ∧
    Generated.lddMv = lddMv ∧ Generated.lddPv = lddPv ∧ Generated.lddAll = lddAll ∧
    Generated.nextxyMv = xyMv ∧ Generated.nextxyPv = [xyPv0, xyPv1] := by
  decide +kernel

/-- on the legal alphabet the model's `drdc` is (0,0) exactly on the pit codes and the compass delta of
the specification otherwise (`tabOK` is this statement as a decidable check) -/
theorem d8_drdc_ok : tabOK d8Drdc d8Dirs d8Pits d8Nodata = true := by decide +kernel
theorem ldd_drdc_ok : tabOK lddDrdc lddDirs lddPits lddNodata = true := by decide +kernel

/-! ## 2. decoding -/

/-- **D8 decoding** (`decode_link`, `decode_pits`): for every shape and every raster over the D8 alphabet,
`core_d8.from_array` returns exactly the declarative graph of the compass table, its pit list is exactly
the list of self-draining cells in increasing order, and `n` counts the non-nodata cells. -/
theorem d8_decode (nrow ncol : Nat) (codes : Array Nat)
    (hlegal : ∀ i, i < nrow * ncol → codes[i]! ∈ d8Alphabet) :
    (fromArrayD8 nrow ncol codes).ds = graph nrow ncol (readD8 ncol codes) ∧
    (fromArrayD8 nrow ncol codes).pits.toList = pitsOf (graph nrow ncol (readD8 ncol codes)) ∧
    (fromArrayD8 nrow ncol codes).n = nvalidOf (nrow * ncol) (readD8 ncol codes) :=
  decode_eq_graph (tab_agrees d8_drdc_ok nrow ncol codes hlegal)

/-- **LDD decoding** -/
theorem ldd_decode (nrow ncol : Nat) (codes : Array Nat)
    (hlegal : ∀ i, i < nrow * ncol → codes[i]! ∈ lddAlphabet) :
    (fromArrayLdd nrow ncol codes).ds = graph nrow ncol (readLdd ncol codes) ∧
    (fromArrayLdd nrow ncol codes).pits.toList = pitsOf (graph nrow ncol (readLdd ncol codes)) ∧
    (fromArrayLdd nrow ncol codes).n = nvalidOf (nrow * ncol) (readLdd ncol codes) :=
  decode_eq_graph (tab_agrees ldd_drdc_ok nrow ncol codes hlegal)

/-- **NEXTXY decoding**: for every shape and *every* pair of integer rasters (no legality hypothesis is
needed: a pit code in `y` only, a negative coordinate or a coordinate beyond the raster all point off the
raster and make the cell a pit, as does a cell that designates itself). -/
theorem nextxy_decode (nrow ncol : Nat) (xs ys : Array Int) :
    (fromArrayXY nrow ncol xs ys).ds = graph nrow ncol (readXY xs ys) ∧
    (fromArrayXY nrow ncol xs ys).pits.toList = pitsOf (graph nrow ncol (readXY xs ys)) ∧
    (fromArrayXY nrow ncol xs ys).n = nvalidOf (nrow * ncol) (readXY xs ys) :=
  decode_eq_graph (xy_agrees nrow ncol xs ys)

/-! ### what the declarative graph says, cell by cell (`decode_link`) -/

/-- **decode_link**: in the graph of any reading, a cell `i` of the raster
* is outside the graph (`ds i = n`) iff it is nodata;
* otherwise drains to the designated cell `(r, c)` — whose row is `r` and column is `c`, i.e. for D8/LDD the
  8-neighbour in the compass direction of its code — if that cell is on the raster and is not nodata;
* and to itself in every other case (pit code, off the raster, into nodata). -/
theorem decode_link (nrow ncol : Nat) (read : Nat → Code) (i : Nat) (hi : i < nrow * ncol) :
    let ds := graph nrow ncol read
    (read i = .nodata → ds[i]! = nrow * ncol) ∧
    (read i = .pit → ds[i]! = i) ∧
    (∀ r c, read i = .to r c →
      (inRaster nrow ncol r c = true → read (cellIdx ncol r c) ≠ .nodata →
        ds[i]! = cellIdx ncol r c ∧ ((ds[i]! / ncol : Nat) : Int) = r ∧ ((ds[i]! % ncol : Nat) : Int) = c) ∧
      (inRaster nrow ncol r c = false ∨ read (cellIdx ncol r c) = .nodata → ds[i]! = i)) := by
  intro ds
  have hg : ds[i]! = dsOf nrow ncol read i := graph_get nrow ncol read i hi
  refine ⟨fun h => by rw [hg]; simp [dsOf, h], fun h => by rw [hg]; simp [dsOf, h], ?_⟩
  intro r c h
  constructor
  · intro hin hv
    have e : ds[i]! = cellIdx ncol r c := by rw [hg]; simp [dsOf, h, hin, hv]
    obtain ⟨_, _, e3, e4⟩ := cellIdx_of_inRaster hin
    exact ⟨e, by rw [e]; exact e3, by rw [e]; exact e4⟩
  · intro hor
    rw [hg]
    rcases hor with h1 | h1 <;> simp [dsOf, h, h1]

/-- D8 instance of `decode_link` in compass terms: a non-nodata, non-pit cell with direction code `v ↦ (dr, dc)`
whose neighbour `(row + dr, col + dc)` is on the raster and not nodata drains to exactly that neighbour. -/
theorem d8_decode_compass (nrow ncol : Nat) (codes : Array Nat)
    (hlegal : ∀ i, i < nrow * ncol → codes[i]! ∈ d8Alphabet) (i : Nat) (hi : i < nrow * ncol)
    (dr dc : Int) (hv : (codes[i]!, (dr, dc)) ∈ d8Dirs) :
    let j := (fromArrayD8 nrow ncol codes).ds[i]!
    let r : Int := (i / ncol : Nat) + dr
    let c : Int := (i % ncol : Nat) + dc
    (inRaster nrow ncol r c = true ∧ codes[cellIdx ncol r c]! ≠ d8Nodata →
      ((j / ncol : Nat) : Int) = r ∧ ((j % ncol : Nat) : Int) = c) ∧
    (inRaster nrow ncol r c = false ∨ codes[cellIdx ncol r c]! = d8Nodata → j = i) := by
  intro j r c
  have hds := (d8_decode nrow ncol codes hlegal).1
  have hread : readD8 ncol codes i = .to r c := by
    simp only [d8Dirs, List.mem_cons, Prod.mk.injEq, List.mem_nil_iff, or_false] at hv
    rcases hv with ⟨h1, h2, h3⟩ | ⟨h1, h2, h3⟩ | ⟨h1, h2, h3⟩ | ⟨h1, h2, h3⟩ | ⟨h1, h2, h3⟩ |
      ⟨h1, h2, h3⟩ | ⟨h1, h2, h3⟩ | ⟨h1, h2, h3⟩ <;>
    · subst h2 h3
      simp [readD8, readTab, h1, d8Nodata, d8Pits, d8Dirs, List.lookup, r, c]
  have hnd : ∀ k, k < nrow * ncol → (readD8 ncol codes k = .nodata ↔ codes[k]! = d8Nodata) := by
    intro k hk
    have := (tab_agrees d8_drdc_ok nrow ncol codes hlegal).nd_iff k hk
    simp only [beq_iff_eq] at this
    exact this.symm
  obtain ⟨_, _, h3⟩ := decode_link nrow ncol (readD8 ncol codes) i hi
  obtain ⟨ha, hb⟩ := h3 r c hread
  have hj : j = (graph nrow ncol (readD8 ncol codes))[i]! := by simp only [j, hds]
  rw [hj]
  constructor
  · rintro ⟨hin, hne⟩
    have hlt := (cellIdx_of_inRaster hin).2.1
    exact (ha hin (fun h => hne ((hnd _ hlt).1 h))).2
  · intro hor
    apply hb
    rcases hor with h | h
    · exact Or.inl h
    · by_cases hin : inRaster nrow ncol r c = true
      · exact Or.inr ((hnd _ (cellIdx_of_inRaster hin).2.1).2 h)
      · exact Or.inl (by simpa using hin)

/-- **decode_wf**: the decoded network is well formed for every reading — it has one entry per cell, every
entry is a cell index or the sentinel `n`, the entry is `n` exactly on nodata cells, and the downstream cell
of a cell of the graph is again a cell of the graph (no link into nodata). -/
theorem decode_wf (nrow ncol : Nat) (read : Nat → Code) :
    let ds := graph nrow ncol read
    ds.size = nrow * ncol ∧
    ∀ i, i < nrow * ncol →
      ds[i]! ≤ nrow * ncol ∧ (ds[i]! = nrow * ncol ↔ read i = .nodata) ∧
      (ds[i]! < nrow * ncol → ds[ds[i]!]! < nrow * ncol) := by
  intro ds
  refine ⟨graph_size nrow ncol read, ?_⟩
  intro i hi
  have hg : ds[i]! = dsOf nrow ncol read i := graph_get nrow ncol read i hi
  refine ⟨by rw [hg]; exact dsOf_le nrow ncol read i hi, by rw [hg]; exact dsOf_eq_n_iff nrow ncol read i hi, ?_⟩
  intro hlt
  have hg2 : ds[ds[i]!]! = dsOf nrow ncol read ds[i]! := graph_get nrow ncol read _ hlt
  rw [hg2, hg]
  rw [hg] at hlt
  exact dsOf_ds_valid nrow ncol read i hi hlt

/-! ### non-vacuity -/
-- 2x3 D8 raster: E, SE, nodata / NE, pit 255, N  (cell 2 nodata: cell 5 points at it and becomes a pit,
-- cell 0 points E to cell 1, cell 1 points SE to cell 5, cell 3 points NE to cell 1)
example : fromArrayD8 2 3 #[1, 2, 247, 128, 255, 64] =
    { ds := #[1, 5, 6, 1, 4, 5], pits := #[4, 5], n := 5 } := by decide +kernel
example : ∀ i, i < 2 * 3 → (#[1, 2, 247, 128, 255, 64] : Array Nat)[i]! ∈ d8Alphabet := by decide
example : graph 2 3 (readD8 3 #[1, 2, 247, 128, 255, 64]) = #[1, 5, 6, 1, 4, 5] := by decide +kernel
-- LDD 1x3: 6 (E), 4 (W), 6 (E, off the raster)
example : fromArrayLdd 1 3 #[6, 4, 6] = { ds := #[1, 0, 2], pits := #[2], n := 3 } := by decide +kernel
-- NEXTXY 1x3: cell 0 designates itself (a pit), cell 1 points at cell 0, cell 2 has pit code -10
example : fromArrayXY 1 3 #[1, 1, -10] #[1, 1, -10] = { ds := #[0, 0, 2], pits := #[0, 2], n := 3 } := by
  decide +kernel

/-! ## 3. user mask -/

/-- **mask_excludes** (generic part): in the graph of a masked reading a hidden cell is outside the graph,
whatever its code -/
theorem mask_excluded (nrow ncol : Nat) (mask : Nat → Bool) (read : Nat → Code) (i : Nat)
    (hi : i < nrow * ncol) (hm : mask i = false) :
    (graph nrow ncol (maskRead mask read))[i]! = nrow * ncol :=
  ((decode_wf nrow ncol (maskRead mask read)).2 i hi).2.1.2 (by simp [maskRead, hm])

/-- **mask_excludes**, D8: decoding `np.where(mask, raster, 247)` gives the declarative graph of the raster in
which the hidden cells are nodata (so cells draining into a hidden cell become pits), with its pits and count -/
theorem d8_mask_excludes (nrow ncol : Nat) (codes : Array Nat) (mask : Array Bool)
    (hsize : codes.size = nrow * ncol) (hlegal : ∀ i, i < nrow * ncol → codes[i]! ∈ d8Alphabet) :
    let d := fromArrayD8 nrow ncol (applyMask d8Mv mask codes)
    let g := graph nrow ncol (maskRead (fun i => mask[i]!) (readD8 ncol codes))
    d.ds = g ∧ d.pits.toList = pitsOf g ∧
    d.n = nvalidOf (nrow * ncol) (maskRead (fun i => mask[i]!) (readD8 ncol codes)) := by
  intro d g
  have hread : ∀ j, j < nrow * ncol → readD8 ncol (applyMask d8Mv mask codes) j =
      maskRead (fun i => mask[i]!) (readD8 ncol codes) j :=
    fun j hj => readTab_mask d8Dirs d8Pits d8Nodata ncol codes mask j (by omega)
  have hl : ∀ i, i < nrow * ncol → (applyMask d8Mv mask codes)[i]! ∈ d8Alphabet := by
    intro i hi
    rw [applyMask_get _ _ _ _ (by omega)]
    by_cases hm : mask[i]! = true
    · simp only [hm, if_true]; exact hlegal i hi
    · have hm' : mask[i]! = false := by simpa using hm
      simp only [hm', Bool.false_eq_true, if_false]; decide
  obtain ⟨h1, h2, h3⟩ := d8_decode nrow ncol _ hl
  have hg : graph nrow ncol (readD8 ncol (applyMask d8Mv mask codes)) = g := graph_congr hread
  exact ⟨by rw [← hg]; exact h1, by rw [← hg]; exact h2, by rw [← nvalidOf_congr hread]; exact h3⟩

/-- **mask_excludes**, LDD -/
theorem ldd_mask_excludes (nrow ncol : Nat) (codes : Array Nat) (mask : Array Bool)
    (hsize : codes.size = nrow * ncol) (hlegal : ∀ i, i < nrow * ncol → codes[i]! ∈ lddAlphabet) :
    let d := fromArrayLdd nrow ncol (applyMask lddMv mask codes)
    let g := graph nrow ncol (maskRead (fun i => mask[i]!) (readLdd ncol codes))
    d.ds = g ∧ d.pits.toList = pitsOf g ∧
    d.n = nvalidOf (nrow * ncol) (maskRead (fun i => mask[i]!) (readLdd ncol codes)) := by
  intro d g
  have hread : ∀ j, j < nrow * ncol → readLdd ncol (applyMask lddMv mask codes) j =
      maskRead (fun i => mask[i]!) (readLdd ncol codes) j :=
    fun j hj => readTab_mask lddDirs lddPits lddNodata ncol codes mask j (by omega)
  have hl : ∀ i, i < nrow * ncol → (applyMask lddMv mask codes)[i]! ∈ lddAlphabet := by
    intro i hi
    rw [applyMask_get _ _ _ _ (by omega)]
    by_cases hm : mask[i]! = true
    · simp only [hm, if_true]; exact hlegal i hi
    · have hm' : mask[i]! = false := by simpa using hm
      simp only [hm', Bool.false_eq_true, if_false]; decide
  obtain ⟨h1, h2, h3⟩ := ldd_decode nrow ncol _ hl
  have hg : graph nrow ncol (readLdd ncol (applyMask lddMv mask codes)) = g := graph_congr hread
  exact ⟨by rw [← hg]; exact h1, by rw [← hg]; exact h2, by rw [← nvalidOf_congr hread]; exact h3⟩

/-- **mask_excludes**, NEXTXY (the 2-D mask is applied to both layers) -/
theorem nextxy_mask_excludes (nrow ncol : Nat) (xs ys : Array Int) (mask : Array Bool)
    (hx : xs.size = nrow * ncol) (hy : ys.size = nrow * ncol) :
    let d := fromArrayXY nrow ncol (applyMask xyMv mask xs) (applyMask xyMv mask ys)
    let g := graph nrow ncol (maskRead (fun i => mask[i]!) (readXY xs ys))
    d.ds = g ∧ d.pits.toList = pitsOf g ∧
    d.n = nvalidOf (nrow * ncol) (maskRead (fun i => mask[i]!) (readXY xs ys)) := by
  intro d g
  have hread : ∀ j, j < nrow * ncol → readXY (applyMask xyMv mask xs) (applyMask xyMv mask ys) j =
      maskRead (fun i => mask[i]!) (readXY xs ys) j :=
    fun j hj => readXY_mask xs ys mask j (by omega) (by omega)
  obtain ⟨h1, h2, h3⟩ := nextxy_decode nrow ncol (applyMask xyMv mask xs) (applyMask xyMv mask ys)
  have hg : graph nrow ncol (readXY (applyMask xyMv mask xs) (applyMask xyMv mask ys)) = g := graph_congr hread
  exact ⟨by rw [← hg]; exact h1, by rw [← hg]; exact h2, by rw [← nvalidOf_congr hread]; exact h3⟩

/-! ## 4. validity predicates and type inference -/

/-- `isvalid` of a format holds exactly when the container has the format's type and every value is in the
format's alphabet (NEXTXY: nodata / pit codes in `x` are repeated in `y`, every other `x` is ≥ 0) -/
theorem isvalid_iff_alphabet (nrow ncol : Nat) (codes : Array Nat) (xs ys : Array Int) :
    (isvalid .d8 (.u8 nrow ncol codes) = true ↔ ∀ v ∈ codes.toList, v ∈ d8Alphabet) ∧
    (isvalid .ldd (.u8 nrow ncol codes) = true ↔ ∀ v ∈ codes.toList, v ∈ lddAlphabet) ∧
    (isvalid .nextxy (.xy nrow ncol xs ys) = true ↔
      ∀ i, i < xs.size →
        (xs[i]! = xyNodata ∨ xs[i]! ∈ xyPits → ys[i]! = xs[i]!) ∧
        (¬ (xs[i]! = xyNodata ∨ xs[i]! ∈ xyPits) → xs[i]! ≥ 0)) ∧
    (∀ t, isvalid t .other = false) ∧
    isvalid .nextxy (.u8 nrow ncol codes) = false ∧
    isvalid .d8 (.xy nrow ncol xs ys) = false ∧ isvalid .ldd (.xy nrow ncol xs ys) = false := by
  refine ⟨?_, ?_, ?_, ?_, rfl, rfl, rfl⟩
  · rw [isvalid_eq_spec]; exact validTab_iff _ _
  · rw [isvalid_eq_spec]; exact validTab_iff _ _
  · rw [isvalid_eq_spec]; exact validXY_iff _ _
  · intro t; cases t <;> rfl

/-- **infer_first_valid**: `_infer_ftype` returns the first of d8, ldd, nextxy whose validity predicate holds,
and fails exactly when none holds -/
theorem infer_first_valid (data : Data) :
    (inferFtype data = some .d8 ↔ isvalid .d8 data = true) ∧
    (inferFtype data = some .ldd ↔ isvalid .d8 data = false ∧ isvalid .ldd data = true) ∧
    (inferFtype data = some .nextxy ↔
      isvalid .d8 data = false ∧ isvalid .ldd data = false ∧ isvalid .nextxy data = true) ∧
    (inferFtype data = none ↔
      isvalid .d8 data = false ∧ isvalid .ldd data = false ∧ isvalid .nextxy data = false) := by
  unfold inferFtype ftypes
  simp only [List.find?]
  cases isvalid .d8 data <;> cases isvalid .ldd data <;> cases isvalid .nextxy data <;> simp

/-- the oracle the driver evaluates (`Spec.valid`, `Spec.infer`) is the model's `isvalid` / `_infer_ftype` -/
theorem valid_infer_eq_spec (t : Ftype) (data : Data) :
    isvalid t data = Spec.valid t data ∧ inferFtype data = Spec.infer data :=
  ⟨isvalid_eq_spec t data, inferFtype_eq_spec data⟩

/-! ## 5. `pyflwdir.from_array` -/

theorem finishParse_ok {t : Ftype} {d : Dec} {p : Parsed} (h : finishParse t d = .ok p) :
    p = { ftype := t, dec := d } ∧ 2 ≤ d.ds.size ∧ d.pits.size ≠ 0 := by
  unfold finishParse at h
  by_cases h1 : d.ds.size ≤ 1
  · rw [if_pos h1] at h; cases h
  · rw [if_neg h1] at h
    by_cases h2 : d.pits.size = 0
    · rw [if_pos h2] at h; cases h
    · rw [if_neg h2] at h
      injection h with h
      exact ⟨h.symm, by omega, h2⟩

/-- the stages of `pyflwdir.from_array` that a successful call went through -/
theorem fromArrayApi_ok {ft : Option Ftype} {check : Bool} {data : Data}
    {mask : Option (List Nat × Array Bool)} {p : Parsed} (h : fromArrayApi ft check data mask = .ok p) :
    ∃ t c d' d, selectFtype ft check data = .ok (t, c) ∧ (c && !isvalid t data) = false ∧
      maskData t data mask = .ok d' ∧ decodeData t d' = .ok d ∧ finishParse t d = .ok p := by
  unfold fromArrayApi at h
  cases hs : selectFtype ft check data with
  | error e => rw [hs] at h; cases h
  | ok tc =>
    obtain ⟨t, c⟩ := tc
    rw [hs] at h
    dsimp only at h
    cases hv : (c && !isvalid t data) with
    | true => rw [hv] at h; simp at h
    | false =>
      rw [hv] at h
      simp only [Bool.false_eq_true, if_false] at h
      cases hm : maskData t data mask with
      | error e => rw [hm] at h; cases h
      | ok d' =>
        rw [hm] at h
        dsimp only at h
        cases hd : decodeData t d' with
        | error e => rw [hd] at h; cases h
        | ok d =>
          rw [hd] at h
          exact ⟨t, c, d', d, rfl, hv, hm, hd, h⟩

/-- the format of the returned object is the requested one, or with `ftype="infer"` the first format the
raster is valid for; a raster valid for no format, or invalid for the requested one while `check_ftype` is
on, is rejected with `ValueError` -/
theorem from_array_ftype (ft : Option Ftype) (check : Bool) (data : Data)
    (mask : Option (List Nat × Array Bool)) :
    (∀ p, fromArrayApi ft check data mask = .ok p →
      (ft = some p.ftype ∧ (check = true → isvalid p.ftype data = true)) ∨
      (ft = none ∧ inferFtype data = some p.ftype ∧ isvalid p.ftype data = true)) ∧
    (ft = none → inferFtype data = none → fromArrayApi ft check data mask = .error "ValueError") ∧
    (∀ t, ft = some t → check = true → isvalid t data = false →
      fromArrayApi ft check data mask = .error "ValueError") := by
  refine ⟨?_, ?_, ?_⟩
  · intro p h
    obtain ⟨t, c, d', d, hs, hv, _, _, hf⟩ := fromArrayApi_ok h
    have hp : p.ftype = t := by rw [(finishParse_ok hf).1]
    rw [hp]
    cases ft with
    | none =>
      right
      simp only [selectFtype] at hs
      cases hi : inferFtype data with
      | none => rw [hi] at hs; cases hs
      | some t' =>
        rw [hi] at hs
        injection hs with hs
        injection hs with h1 h2
        subst h1
        exact ⟨rfl, rfl, List.find?_some (p := fun t => isvalid t data) hi⟩
    | some t' =>
      left
      simp only [selectFtype] at hs
      injection hs with hs
      injection hs with h1 h2
      subst h1 h2
      refine ⟨rfl, fun hck => ?_⟩
      cases hvv : isvalid t' data with
      | true => rfl
      | false => simp [hck, hvv] at hv
  · intro h1 h2
    subst h1
    simp [fromArrayApi, selectFtype, h2]
  · intro t h1 h2 h3
    subst h1
    simp [fromArrayApi, selectFtype, h2, h3]

/-- an object is only returned for rasters of at least two cells with at least one pit, and then carries the
kernel's result for the masked data unchanged -/
theorem from_array_result (ft : Option Ftype) (check : Bool) (data : Data)
    (mask : Option (List Nat × Array Bool)) (p : Parsed) (h : fromArrayApi ft check data mask = .ok p) :
    ∃ data', maskData p.ftype data mask = .ok data' ∧ decodeData p.ftype data' = .ok p.dec ∧
      2 ≤ p.dec.ds.size ∧ p.dec.pits.size ≠ 0 := by
  obtain ⟨t, c, d', d, _, _, hm, hd, hf⟩ := fromArrayApi_ok h
  obtain ⟨hp, h2, h3⟩ := finishParse_ok hf
  subst hp
  exact ⟨d', hm, hd, h2, h3⟩

/-! ### non-vacuity (mask, inference, API) -/
-- 1x3 D8 raster E E pit with the middle cell hidden: cell 0 now drains into a hidden cell and becomes a pit
example : (fromArrayD8 1 3 (applyMask d8Mv #[true, false, true] #[1, 1, 0])).ds = #[0, 3, 2] := by decide +kernel
example : graph 1 3 (maskRead (fun i => (#[true, false, true] : Array Bool)[i]!) (readD8 3 #[1, 1, 0])) = #[0, 3, 2] := by
  decide +kernel
-- {1, 2, 4, 8, 255} is legal for D8 and for LDD: D8 wins; 3 is LDD only; 0 with 3 fits no format
example : inferFtype (.u8 1 3 #[1, 2, 255]) = some .d8 := by decide +kernel
example : inferFtype (.u8 1 3 #[1, 3, 255]) = some .ldd := by decide +kernel
example : inferFtype (.u8 1 3 #[0, 3, 255]) = none := by decide +kernel
example : inferFtype (.xy 1 2 #[2, -9] #[1, -9]) = some .nextxy := by decide +kernel
example : inferFtype (.xy 1 2 #[2, -9] #[1, -10]) = none := by decide +kernel
example : (fromArrayApi none true (.u8 1 3 #[1, 3, 255]) (some ([1, 3], #[true, true, true]))).toOption.map
    (fun p => (p.ftype, p.dec.ds)) = some (.ldd, #[0, 1, 3]) := by decide +kernel

end Pf.C01
