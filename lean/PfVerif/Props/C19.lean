import PfVerif.Proofs.C19Cover
import PfVerif.Proofs.C19Feat
import PfVerif.Proofs.C19Nup
import PfVerif.Proofs.C19Ok6
import PfVerif.Proofs.C19Seg
import PfVerif.Proofs.C19SegTotal
import PfVerif.Proofs.C19Join
/-! # C19 — stream vectorisation covers every link exactly once, split at confluences

Three groups of theorems, each for ALL inputs (no bound on network size, stream length or
`max_len`):

* the split rule (`split_arith`, `split_cover`, `split_chain`, `split_size`) — full strength, about
  the model `splitPieces` of the slicing code, from the two roundings `k = round(l/m)`, `n = round(l/k)`;
* the decidable certificate `StreamsOK` (evaluated by the driver on the IMPLEMENTATION's index
  arrays in every case) is sound for the global statement (`streamsOK_sound`);
* algorithm-level facts about the model `streamsModel` of `streams.streams` itself
  (`walk_spec`, `streams_model_linked`, `streams_model_flowpath`, `streams_model_size`), and the closed
  forms of `gis_utils.features` / `core.flwdir_tuples` (`features_props`, `vectorize_per_cell`).

Second stage (proved): `streams_model_ok` — for every downstream-first order that contains the stream
cells and every downstream-closed mask the model returns (fuel suffices) and its output satisfies the
certificate `StreamsOK`; hence `streams_model_cover` (every link exactly once), `streams_model_pits`.
`walk_total` is the fuel-totality of the inner walk on a `Topo` order.

Third round: `segment_walk_total`, `segment_walk_total_up`, `segment_indices_total(_up)` - the model of
`subgrid.segment_indices` returns on every loop-free network in both directions (no fuel hypothesis left
anywhere: `streams_model_total`); `split_concat` - the pieces glue back to the unsplit stream. -/
namespace Pf.C19
open Pf

/-! ## the split rule -/

/-- **split arithmetic**: for a stream of `l` vertices and a maximum length `m` with `l / m > 1.5`,
`k = round_half_even(l/m) ≥ 2` pieces of `n = round_half_even(l/k) ≥ 1` links are cut; the last piece
starts inside the stream (`(k-1)·n < l`, so it is non-empty and every earlier slice is complete, hence
ends at the vertex where the next one starts); a non-final piece has `n + 1` vertices with
`2·(n+1) ≤ 3·m + 1`, the final piece `l - (k-1)·n` vertices with `2·(l - (k-1)·n) ≤ 3·m`. -/
theorem split_arith (l m : Nat) (hm : 0 < m) (hlm : 3 * m < 2 * l) :
    let k := roundHalfEven l m
    let n := roundHalfEven l k
    2 ≤ k ∧ 1 ≤ n ∧ (k - 1) * n < l ∧ 2 * (n + 1) ≤ 3 * m + 1 ∧ 2 * (l - (k - 1) * n) ≤ 3 * m := by
  intro k n
  obtain ⟨h1, h2, h3, h4, h5⟩ := split_arith_rhe l m hm hlm
  refine ⟨h1, h2, h3, ?_, h5⟩
  have h4' : 2 * roundHalfEven l (roundHalfEven l m) + 1 ≤ 3 * m := h4
  show 2 * (roundHalfEven l (roundHalfEven l m) + 1) ≤ 3 * m + 1
  omega

/-- the bound `2·vertices ≤ 3·m + 1` is attained (l = 2, m = 1) -/
example : splitPieces [7, 8] 1 = [[7, 8], [8]] ∧ 2 * [7, 8].length = 3 * 1 + 1 := by decide
example : splitNK 7 2 = (2, 4) ∧ splitPieces [8, 7, 6, 5, 4, 3, 1] 2 = [[8, 7, 6], [6, 5, 4], [4, 3, 1], [1]] := by
  decide

/-- **cover**: for every vertex list and every `max_len`, the pieces appended for a stream contain
every link of the stream exactly once and in order (concatenating the consecutive pairs of the
pieces gives the consecutive pairs of the stream). -/
theorem split_cover (idxs : List Nat) (m : Nat) :
    (splitPieces idxs m).flatMap pairsOf = pairsOf idxs :=
  splitPieces_pairs idxs m

example : (splitPieces [9, 8, 7, 6, 5, 4, 3] 2).flatMap pairsOf = [(9, 8), (8, 7), (7, 6), (6, 5), (5, 4), (4, 3)] ∧
    (splitPieces [9, 8, 7, 6, 5, 4, 3] 2).length = 4 := by decide

/-- **chain**: consecutive pieces share a vertex — piece `i+1` starts where piece `i` ends. -/
theorem split_chain (idxs : List Nat) (m : Nat) (i : Nat) (hi : i + 1 < (splitPieces idxs m).length) :
    ∃ p q v, (splitPieces idxs m)[i]? = some p ∧ (splitPieces idxs m)[i + 1]? = some q ∧
      p.getLast? = some v ∧ q.head? = some v := by
  unfold splitPieces at hi ⊢
  split
  · rename_i hc
    rw [if_pos hc, splitLoop_length] at hi
    unfold splitNK at hi ⊢
    split
    · rename_i h15
      rw [if_pos h15] at hi
      obtain ⟨_, _, hlast, _, _⟩ := split_arith_rhe idxs.length m hc.2 h15
      obtain ⟨p, q, v, hp, hq, _, hpl, hqh⟩ := splitLoop_chain idxs _ _ hlast i hi
      exact ⟨p, q, v, hp, hq, hpl, hqh⟩
    · rename_i h15
      rw [if_neg h15] at hi
      simp at hi
  · rename_i hc
    rw [if_neg hc] at hi
    simp at hi

example : splitPieces [9, 8, 7, 6, 5] 2 = [[9, 8, 7], [7, 6, 5]] := by decide

/-- **size**: with a maximum length `m > 0` no piece has more than `(3·m + 1) / 2` vertices
("not exceeding about 1.5 times that maximum"). -/
theorem split_size (idxs : List Nat) (m : Nat) (hm : 0 < m) :
    ∀ p ∈ splitPieces idxs m, 2 * p.length ≤ 3 * m + 1 :=
  splitPieces_size idxs m hm

/-- **concatenation** (vertex level, every vertex list and EVERY `max_len`, 0 included): gluing the pieces
back together - the first piece, then every later piece without its first vertex, which by `split_chain`
is the last vertex of the piece before (`joinPieces`) - gives back the unsplit stream. -/
theorem split_concat (idxs : List Nat) (m : Nat) : joinPieces (splitPieces idxs m) = idxs :=
  splitPieces_join idxs m

example : splitPieces [6, 5, 4, 3, 2, 1, 0] 2 = [[6, 5, 4], [4, 3, 2], [2, 1, 0], [0]] ∧
    joinPieces [[6, 5, 4], [4, 3, 2], [2, 1, 0], [0]] = [6, 5, 4, 3, 2, 1, 0] := by decide
/-- the size bound of `split_size`, `(3·m + 1) / 2` vertices, cannot be improved to `m + 1` vertices: a stream
of 7 vertices with `max_len = 3` is cut into `k = round(7/3) = 2` pieces of `n = round(7/2) = 4` links, the
first piece has 5 vertices (the code returns `[6,5,4,3,2], [2,1,0]` on the chain 6→…→0). -/
example : splitPieces [6, 5, 4, 3, 2, 1, 0] 3 = [[6, 5, 4, 3, 2], [2, 1, 0]] ∧ 2 * 5 = 3 * 3 + 1 := by decide

/-- without a maximum length the stream is kept whole -/
theorem split_none (idxs : List Nat) : splitPieces idxs 0 = [idxs] := by
  simp [splitPieces]

/-! ## the certificate -/

/-- **certificate soundness** (`_cert`: about any list of index arrays the decidable check accepts,
in particular the implementation's output, on which the driver evaluates it in every case).
If `StreamsOK ds mask m feats` then
1. every link `(i, ds i)` of a stream cell occurs exactly once among the consecutive vertex pairs
   of the stream features, and nothing else occurs there;
2. every stream feature is the flow path of its first cell (`f[k] = ds^k (f[0])`): consecutive
   vertices are linked cells;
3. no interior vertex of a stream feature has more than one inflowing stream cell;
4. every pit of the stream network has exactly one zero-length feature `[p, p]`, and every
   zero-length feature is one of these;
5. with `m > 0` no stream feature has more than `(3m+1)/2` vertices. -/
theorem streamsOK_sound (ds : Array Nat) (mask : Option (Array Bool)) (m : Nat) (feats : List (List Nat))
    (h : StreamsOK ds mask m feats = true) :
    (∀ i, inStream ds mask i = true → ds[i]! ≠ i → (allPairs feats).count (i, ds[i]!) = 1) ∧
    (∀ p ∈ allPairs feats, inStream ds mask p.1 = true ∧ ds[p.1]! = p.2 ∧ p.1 ≠ p.2) ∧
    (∀ f ∈ streamFeats feats, ∀ k, k < f.length → f[k]? = some (iterA ds k f.head!)) ∧
    (∀ f ∈ streamFeats feats, ∀ v ∈ interior f, nupM ds mask v ≤ 1) ∧
    (∀ p, inStream ds mask p = true → ds[p]! = p → feats.count [p, p] = 1) ∧
    (∀ f ∈ feats, isPitFeat f = true → ∃ p, f = [p, p] ∧ inStream ds mask p = true ∧ ds[p]! = p) ∧
    (0 < m → ∀ f ∈ streamFeats feats, 2 * f.length ≤ 3 * m + 1) := by
  obtain ⟨hl, ho, hc, hi, _, hp, hs⟩ := streamsOK_parts h
  refine ⟨count_link_eq_one hl ho hc, linked_of_ok hl, ?_, ?_, count_pit_eq_one hp, pit_feat_is_pit hp, ?_⟩
  · intro f hf
    exact path_of_pairs ds f fun p hpf => (linked_of_ok hl p (mem_allPairs_of_mem hf hpf)).2.1
  · intro f hf v hv
    have := List.all_eq_true.mp (List.all_eq_true.mp hi f hf) v hv
    simpa using this
  · intro hm f hf
    simp only [okSize, Bool.or_eq_true, beq_iff_eq] at hs
    rcases hs with hs | hs
    · omega
    · have := List.all_eq_true.mp hs f hf
      simpa using this

/-- the start/end clause of the certificate, spelled out: a stream feature starts at a headwater or
confluence (or, with a maximum length, where another stream feature ends) and ends at a confluence
or pit (or where another one starts). -/
theorem streamsOK_ends (ds : Array Nat) (mask : Option (Array Bool)) (m : Nat) (feats : List (List Nat))
    (h : StreamsOK ds mask m feats = true) :
    ∀ f ∈ streamFeats feats, ∃ s e, f.head? = some s ∧ f.getLast? = some e ∧ inStream ds mask s = true ∧
      (nupM ds mask s ≠ 1 ∨ (0 < m ∧ ∃ g ∈ streamFeats feats, 2 ≤ g.length ∧ g.getLast? = some s)) ∧
      (1 < nupM ds mask e ∨ ds[e]! = e ∨ (0 < m ∧ ∃ g ∈ streamFeats feats, 2 ≤ g.length ∧ g.head? = some e)) := by
  obtain ⟨_, _, _, _, he, _, _⟩ := streamsOK_parts h
  intro f hf
  have := List.all_eq_true.mp he f hf
  cases hh : f.head? with
  | none => simp [hh] at this
  | some s =>
    cases hl : f.getLast? with
    | none => simp [hh, hl] at this
    | some e =>
      simp only [hh, hl, Bool.and_eq_true, Bool.or_eq_true, bne_iff_ne, ne_eq, decide_eq_true_eq,
        List.any_eq_true, beq_iff_eq] at this
      obtain ⟨⟨hs, hst⟩, hen⟩ := this
      refine ⟨s, e, rfl, rfl, hs, ?_, ?_⟩
      · rcases hst with h1 | ⟨h1, g, hg, h2, h3⟩
        · exact Or.inl h1
        · exact Or.inr ⟨h1, g, hg, h2, h3⟩
      · rcases hen with (h1 | h1) | ⟨h1, g, hg, h2, h3⟩
        · exact Or.inl h1
        · exact Or.inr (Or.inl h1)
        · exact Or.inr (Or.inr ⟨h1, g, hg, h2, h3⟩)

/-- non-vacuity: the certificate accepts the model's output on a network with a confluence
(8→7→…→3→1, 2→1, 1→0 pit) with and without a maximum length, and rejects a list that misses a link -/
example : streamsModel #[0, 0, 1, 1, 3, 4, 5, 6, 7] [0, 1, 2, 3, 4, 5, 6, 7, 8] none 0 =
    some [[8, 7, 6, 5, 4, 3, 1], [2, 1], [1, 0], [0, 0]] := by decide
example : StreamsOK #[0, 0, 1, 1, 3, 4, 5, 6, 7] none 0 [[8, 7, 6, 5, 4, 3, 1], [2, 1], [1, 0], [0, 0]] = true := by
  decide
example : StreamsOK #[0, 0, 1, 1, 3, 4, 5, 6, 7] none 2
    [[8, 7, 6], [6, 5, 4], [4, 3, 1], [1], [2, 1], [1, 0], [0, 0]] = true := by decide
example : StreamsOK #[0, 0, 1, 1, 3, 4, 5, 6, 7] none 0 [[8, 7, 6, 5, 4, 3, 1], [1, 0], [0, 0]] = false := by decide
example : StreamsOK #[0, 0, 1, 1, 3, 4, 5, 6, 7] none 0 [[8, 7, 6, 5, 4, 3, 1, 0], [2, 1], [1, 0], [0, 0]] = false := by
  decide

/-! ## the algorithm (model of `streams.streams`), all inputs -/

/-- **one walk**: the inner `while True` started at `s` returns a vertex list that starts at `s`,
whose consecutive vertices are linked, different cells, none of whose interior vertices has more than one
inflowing stream cell (`upstream_count` with the mask), and which ends at a pit (then `pit` is set and the
zero-length feature is appended) or at a cell with more than one inflowing stream cell. -/
theorem walk_spec (ds : Array Nat) (nup : Array Int) (fuel s : Nat) (done : Array Bool) (w : WalkRes)
    (h : streamWalk ds nup fuel s [s] done = some w) :
    w.idxs.head? = some s ∧
    (∀ p ∈ pairsOf w.idxs, ds[p.1]! = p.2 ∧ p.1 ≠ p.2) ∧
    (∀ v ∈ interior w.idxs, nup[v]! ≤ 1) ∧
    w.idxs.getLast? = some w.last ∧
    (if w.pit = true then ds[w.last]! = w.last else nup[w.last]! > 1) := by
  obtain ⟨tail, hw, hi⟩ := streamWalk_spec ds nup fuel s [s] done w h
  have hi' : w.idxs = s :: tail := by simpa using hi
  rw [hi']
  refine ⟨rfl, hw.linked, ?_, hw.ends.1, hw.ends.2⟩
  intro v hv
  have := hw.interior v hv
  omega

/-- **`upstream_count` with a mask counts the inflowing stream cells**: on every valid cell the array
`nup` used by `streams` (and in `walk_spec`) equals the declarative count `nupM` used by the certificate. -/
theorem nup_is_inflow_count (ds : Array Nat) (mask : Option (Array Bool)) (v : Nat)
    (hv : isValid ds v = true) : (upstreamCount ds mask)[v]! = (nupM ds mask v : Int) :=
  upstreamCount_spec ds mask v hv

example : upstreamCount #[0, 0, 1, 1, 3, 6] (some #[true, true, false, true, true, true]) = #[1, 1, 0, 1, 0, -9] ∧
    nupM #[0, 0, 1, 1, 3, 6] (some #[true, true, false, true, true, true]) 1 = 1 ∧
    nupM #[0, 0, 1, 1, 3, 6] none 1 = 2 := by decide

/-- **consecutive vertices are always linked cells** (algorithm level, every network, order, mask and
`max_len`): every index array returned by the model is the zero-length feature of a pit or a polyline
whose consecutive vertices are a cell and its (different) downstream cell.
 No hypothesis on order or mask is needed for this clause
(the full certificate for the model is `streams_model_ok` below). -/
theorem streams_model_linked (ds : Array Nat) (seq : List Nat) (mask : Option (Array Bool)) (m : Nat)
    (feats : List (List Nat)) (h : streamsModel ds seq mask m = some feats) :
    ∀ f ∈ feats, (∃ p, f = [p, p] ∧ ds[p]! = p) ∨ (∀ q ∈ pairsOf f, ds[q.1]! = q.2 ∧ q.1 ≠ q.2) := by
  refine streamsModel_forall ds seq mask m _ ?_ feats h
  intro idx0 done w hw f hf
  obtain ⟨_, hlink, _, hlast, hend⟩ := walk_spec ds _ _ idx0 done w hw
  unfold walkFeatures at hf
  rcases List.mem_append.mp hf with hf | hf
  · exact Or.inr fun q hq => hlink q (pairs_of_piece hf q hq)
  · by_cases hp : w.pit = true
    · simp only [hp, if_true, List.mem_singleton] at hf hend
      exact Or.inl ⟨w.last, hf, hend⟩
    · simp [hp] at hf

/-- **every feature is a flow path**: vertex `k` of a returned index array is the `k`-fold downstream
cell of its first vertex. -/
theorem streams_model_flowpath (ds : Array Nat) (seq : List Nat) (mask : Option (Array Bool)) (m : Nat)
    (feats : List (List Nat)) (h : streamsModel ds seq mask m = some feats) :
    ∀ f ∈ feats, ∀ k, k < f.length → f[k]? = some (iterA ds k f.head!) := by
  intro f hf
  apply path_of_pairs
  rcases streams_model_linked ds seq mask m feats h f hf with ⟨p, rfl, hp⟩ | hl
  · intro q hq
    simp [pairsOf] at hq
    subst hq
    exact hp
  · exact fun q hq => (hl q hq).1

/-- **size**: with a maximum length `m > 0` no returned index array has more than `(3m+1)/2` vertices. -/
theorem streams_model_size (ds : Array Nat) (seq : List Nat) (mask : Option (Array Bool)) (m : Nat)
    (hm : 0 < m) (feats : List (List Nat)) (h : streamsModel ds seq mask m = some feats) :
    ∀ f ∈ feats, 2 * f.length ≤ 3 * m + 1 := by
  refine streamsModel_forall ds seq mask m _ ?_ feats h
  intro idx0 done w _ f hf
  unfold walkFeatures at hf
  rcases List.mem_append.mp hf with hf | hf
  · exact split_size w.idxs m hm f hf
  · by_cases hp : w.pit = true
    · simp only [hp, if_true, List.mem_singleton] at hf
      subst hf
      simp
      omega
    · simp [hp] at hf

/-- **emitted at least once, for ANY mask and ANY order** (no `Topo`, no closedness): the link of every
selected non-pit cell of the sequence occurs in some returned index array, and every selected pit of
the sequence has its zero-length feature. ("Exactly once" needs the hypotheses of `streams_model_ok`;
see `streams_model_cover`.) -/
theorem streams_model_emits (ds : Array Nat) (seq : List Nat) (mask : Option (Array Bool)) (m : Nat)
    (feats : List (List Nat)) (h : streamsModel ds seq mask m = some feats)
    (hb : ∀ i ∈ seq, i < ds.size) (i : Nat) (hi : i ∈ seq) (hm : maskAt mask i = true) :
    (ds[i]! ≠ i → ∃ f ∈ feats, (i, ds[i]!) ∈ pairsOf f) ∧ (ds[i]! = i → [i, i] ∈ feats) := by
  unfold streamsModel at h
  rw [Option.map_eq_some_iff] at h
  obtain ⟨st', hst', rfl⟩ := h
  have hinv0 : CoverInv ds (([] : List (List Nat)), Array.replicate ds.size false) := by
    intro a ha
    exfalso
    by_cases hlt : a < ds.size
    · simp [hlt] at ha
    · simp [hlt] at ha
  obtain ⟨hinv, _, hall⟩ := foldlM_streams_cover ds _ mask m seq.reverse _ st' hst' (by simp)
    (fun i hi => hb i (List.mem_reverse.mp hi)) hinv0
  have hdone := hall i (List.mem_reverse.mpr hi) hm
  rcases hinv i hdone with ⟨h1, h2⟩ | ⟨f, hf, h2⟩
  · exact ⟨fun hne => absurd h1 hne, fun _ => h2⟩
  · refine ⟨fun _ => ⟨f, hf, h2⟩, fun hp => ?_⟩
    -- a pit has no link (a, ds a) with a ≠ ds a in any feature; use linkedness of the model's features
    rcases streams_model_linked ds seq mask m st'.1 (by unfold streamsModel; rw [hst']; rfl) f hf with
      ⟨p, rfl, _⟩ | hl
    · have : i = p := by
        have h3 := h2
        simp [pairsOf] at h3
        exact h3.1
      subst this; exact hf
    · exact absurd hp.symm (by have := (hl _ h2).2; simpa using this)

example : streamsModel #[0, 0, 1, 1, 3, 4, 5, 6, 7] [0, 1, 2, 3, 4, 5, 6, 7, 8] none 2 =
    some [[8, 7, 6], [6, 5, 4], [4, 3, 1], [1], [2, 1], [1, 0], [0, 0]] := by decide
-- a stream mask (cells 0,1,3,4): cell 2 is not a stream cell, so 1 is no confluence of the stream network
example : streamsModel #[0, 0, 1, 1, 3, 4, 5, 6, 7] [0, 1, 2, 3, 4, 5, 6, 7, 8]
    (some #[true, true, false, true, true, false, false, false, false]) 0 = some [[4, 3, 1, 0], [0, 0]] := by decide

/-! ## second stage: the model satisfies the certificate -/

/-- **fuel totality of the walk**: on a downstream-first order whose cells are in range, the inner
`while True` started at any cell of the order returns within the `ds.size + 1` steps of fuel the model
uses (so `none` = "fuel exhausted" never occurs on loop-free networks). -/
theorem walk_total (ds : Array Nat) (nup : Array Int) (seq : List Nat) (htopo : Topo ds seq)
    (hb : ∀ i ∈ seq, i < ds.size) (c : Nat) (hc : c ∈ seq) (acc : List Nat) (done : Array Bool) :
    ∃ w, streamWalk ds nup (ds.size + 1) c acc done = some w :=
  streamWalk_total_topo ds nup seq htopo hb c hc acc done

/-- **the algorithm theorem** (`streams_model_ok`, full strength): for every network `ds`, every
downstream-first order `seq` (`Topo`) of cells in range that contains all stream cells, every
downstream-closed stream mask and every `max_len`, the model of `streams.streams` returns (its fuel
suffices) and its output satisfies every clause of the certificate `StreamsOK`: links of stream cells
exactly once and nothing else, no interior confluence, starts at a headwater / confluence / previous piece
end, ends at a confluence / pit / next piece start, one zero-length feature per pit, bounded size.
Proof: invariant of the `done` flags over the order processed from its end (`Inv`, `inv_walk`): flagged
cells are exactly the upstream ends of emitted pairs and the pits with an emitted zero-length feature;
a flagged cell that is still to be visited was entered from a flagged cell; a flagged cell draining into
a non-confluence has a flagged downstream cell; so a walk never enters a flagged cell (uniqueness of the
inflow of a non-confluence) and an unflagged selected cell at its visit is a headwater or confluence. -/
theorem streams_model_ok (ds : Array Nat) (seq : List Nat) (mask : Option (Array Bool)) (m : Nat)
    (htopo : Topo ds seq) (hb : ∀ i ∈ seq, i < ds.size)
    (hcov : ∀ i, inStream ds mask i = true → i ∈ seq) (hcl : dsClosed ds mask = true) :
    ∃ feats, streamsModel ds seq mask m = some feats ∧ StreamsOK ds mask m feats = true := by
  obtain ⟨st', hfold, hinv⟩ := fold_inv ds mask m hcl seq htopo hb _ (inv_init ds mask m seq hcov)
  have hmodel : streamsModel ds seq mask m = some st'.1 := by
    unfold streamsModel; rw [hfold]; rfl
  exact ⟨st'.1, hmodel, streamsOK_of_inv ds mask m seq st' hinv hmodel⟩

/-- **cover, exactly once** (algorithm level): under the hypotheses of `streams_model_ok` every link
`(i, ds i)` of a stream cell occurs exactly once among the consecutive vertex pairs of the stream
features returned by the model, and every consecutive pair is such a link. -/
theorem streams_model_cover (ds : Array Nat) (seq : List Nat) (mask : Option (Array Bool)) (m : Nat)
    (htopo : Topo ds seq) (hb : ∀ i ∈ seq, i < ds.size)
    (hcov : ∀ i, inStream ds mask i = true → i ∈ seq) (hcl : dsClosed ds mask = true) :
    ∃ feats, streamsModel ds seq mask m = some feats ∧
      (∀ i, inStream ds mask i = true → ds[i]! ≠ i → (allPairs feats).count (i, ds[i]!) = 1) ∧
      (∀ p ∈ allPairs feats, inStream ds mask p.1 = true ∧ ds[p.1]! = p.2 ∧ p.1 ≠ p.2) := by
  obtain ⟨feats, h1, h2⟩ := streams_model_ok ds seq mask m htopo hb hcov hcl
  have hs := streamsOK_sound ds mask m feats h2
  exact ⟨feats, h1, hs.1, hs.2.1⟩

/-- **one zero-length feature per pit** (algorithm level): under the hypotheses of `streams_model_ok`
every pit of the stream network has exactly one feature `[p, p]` in the model's output. -/
theorem streams_model_pits (ds : Array Nat) (seq : List Nat) (mask : Option (Array Bool)) (m : Nat)
    (htopo : Topo ds seq) (hb : ∀ i ∈ seq, i < ds.size)
    (hcov : ∀ i, inStream ds mask i = true → i ∈ seq) (hcl : dsClosed ds mask = true) :
    ∃ feats, streamsModel ds seq mask m = some feats ∧
      ∀ p, inStream ds mask p = true → ds[p]! = p → feats.count [p, p] = 1 := by
  obtain ⟨feats, h1, h2⟩ := streams_model_ok ds seq mask m htopo hb hcov hcl
  exact ⟨feats, h1, (streamsOK_sound ds mask m feats h2).2.2.2.2.1⟩

/-- non-vacuity of the hypotheses: the example network is a `Topo` order, the all-cells mask is closed -/
example : Topo #[0, 0, 1, 1, 3] [0, 1, 2, 3, 4] := by
  have h0 : Topo #[0, 0, 1, 1, 3] [] := Topo.nil
  have h1 : Topo #[0, 0, 1, 1, 3] ([] ++ [0]) := Topo.snoc h0 (by simp) (Or.inl (by decide))
  have h2 : Topo #[0, 0, 1, 1, 3] ([0] ++ [1]) := Topo.snoc h1 (by simp) (Or.inr (by decide))
  have h3 : Topo #[0, 0, 1, 1, 3] ([0, 1] ++ [2]) := Topo.snoc h2 (by simp) (Or.inr (by decide))
  have h4 : Topo #[0, 0, 1, 1, 3] ([0, 1, 2] ++ [3]) := Topo.snoc h3 (by simp) (Or.inr (by decide))
  exact Topo.snoc h4 (by simp) (Or.inr (by decide))
example : dsClosed #[0, 0, 1, 1, 3] none = true ∧
    dsClosed #[0, 0, 1, 1, 3] (some #[true, true, false, true, false]) = true ∧
    dsClosed #[0, 0, 1, 1, 3] (some #[true, false, false, true, false]) = false := by decide
example : streamsModel #[0, 0, 1, 1, 3] [0, 1, 2, 3, 4] none 0 = some [[4, 3, 1], [2, 1], [1, 0], [0, 0]] ∧
    StreamsOK #[0, 0, 1, 1, 3] none 0 [[4, 3, 1], [2, 1], [1, 0], [0, 0]] = true := by decide

/-! ## features and per-cell vectorisation -/

/-- **feature properties**: `gis_utils.features` returns, in order, one feature per flow path with at
least two vertices; its coordinates are the coordinates of the path's cells, `idx` is the first and
`idx_ds` the last cell, the extra maps are sampled at the first cell, and `pit` says that the last two
vertices coincide. -/
theorem features_props (paths : List (List Nat)) (coord : Nat → Int × Int) (maps : List (Array Int)) :
    (featuresModel paths coord maps).map (·.cells) = paths.filter (fun p => decide (2 ≤ p.length)) ∧
    ∀ ft ∈ featuresModel paths coord maps,
      ft.cells ∈ paths ∧ 2 ≤ ft.cells.length ∧
      ft.coords = ft.cells.map coord ∧ ft.idx = ft.cells.head! ∧ ft.idxDs = ft.cells.getLast! ∧
      ft.props = maps.map (·[ft.cells.head!]!) ∧
      (ft.pit = true ↔ ft.cells.getLast! = (ft.cells.dropLast).getLast!) := by
  rw [featuresModel_eq]
  constructor
  · rw [List.map_map]
    have : ((fun (x : Feat) => x.cells) ∘ mkFeat coord maps) = id := by funext p; rfl
    rw [this, List.map_id]
  · intro ft hft
    rw [List.mem_map] at hft
    obtain ⟨p, hp, rfl⟩ := hft
    rw [List.mem_filter] at hp
    refine ⟨hp.1, (by simpa using hp.2 : 2 ≤ p.length), rfl, rfl, rfl, rfl, ?_⟩
    simp [mkFeat]

example : (featuresModel [[4, 3, 1], [1], [0, 0], []] (fun i => (i, -i)) [#[10, 11, 12, 13, 14]]) =
    [⟨[4, 3, 1], [(4, -4), (3, -3), (1, -1)], 4, 1, false, [14]⟩, ⟨[0, 0], [(0, 0), (0, 0)], 0, 0, true, [10]⟩] := by
  decide

/-- **per-cell vectorisation**: `flwdir_tuples` lists exactly the pairs `(i, nxt i)` of the valid cells
selected by the mask, each cell once, and `features` turns every one of them into a two-vertex
feature (none is dropped). -/
theorem vectorize_per_cell (nxt : Array Nat) (mask : Option (Array Bool)) (coord : Nat → Int × Int)
    (maps : List (Array Int)) :
    (∀ p, p ∈ flwdirTuples nxt mask ↔
      p.1 < nxt.size ∧ nxt[p.1]! ≠ nxt.size ∧ maskAt mask p.1 = true ∧ p.2 = nxt[p.1]!) ∧
    ((flwdirTuples nxt mask).map (·.1)).Nodup ∧
    (featuresModel ((flwdirTuples nxt mask).map fun p => [p.1, p.2]) coord maps).map (·.cells) =
      (flwdirTuples nxt mask).map fun p => [p.1, p.2] := by
  refine ⟨flwdirTuples_mem nxt mask, flwdirTuples_nodup nxt mask, ?_⟩
  rw [(features_props _ coord maps).1, List.filter_eq_self]
  intro a ha
  rw [List.mem_map] at ha
  obtain ⟨p, _, rfl⟩ := ha
  simp

example : flwdirTuples #[0, 0, 1, 4, 4] (some #[true, true, false, true, true]) = [(0, 0), (1, 0), (3, 4), (4, 4)] := by decide

/-! ## `streams(idxs_out=...)`: `subgrid.segment_indices` -/

/-- **segments between outlets** (every next-cell array — `idxs_ds` or the main-upstream array —, outlet
list, mask and `max_len`): every index array returned by the model of `segment_indices` is either the
zero-length feature `[p, p]` of a pit, or a segment with at least two vertices that
* starts at a listed outlet,
* is the path of its first cell along `nxt` (`f[k] = nxt^k (f[0])`), consecutive vertices being a cell and
  its different, existing next cell that the mask selects,
* has no listed outlet among its interior vertices,
* has at most `max_len` vertices when `max_len > 0`,
* ends where the loop breaks (no next cell, pit, next cell masked out, `max_len` vertices reached) or at
  the next listed outlet. -/
theorem segment_indices_spec (idxsOut : List Nat) (nxt : Array Nat) (mask : Option (Array Bool)) (maxLen : Nat)
    (out : List (List Nat)) (h : segmentIndices idxsOut nxt mask maxLen = some out) :
    ∀ f ∈ out, (∃ p, f = [p, p] ∧ nxt[p]! = p) ∨
      (2 ≤ f.length ∧ (∃ s ∈ idxsOut, s ≠ nxt.size ∧ f.head? = some s) ∧
       (∀ q ∈ pairsOf f, nxt[q.1]! = q.2 ∧ q.1 ≠ q.2 ∧ q.2 ≠ nxt.size ∧ maskAt mask q.2 = true) ∧
       (∀ k, k < f.length → f[k]? = some (iterA nxt k f.head!)) ∧
       (∀ v ∈ interior f, v < nxt.size → v ∉ idxsOut) ∧
       (0 < maxLen → f.length ≤ maxLen) ∧
       (∃ e, f.getLast? = some e ∧
         (segStop nxt mask maxLen e f.length = true ∨ (e ∈ idxsOut ∧ e < nxt.size)))) := by
  unfold segmentIndices at h
  refine foldlM_seg_forall nxt _ mask maxLen _ idxsOut ?_ idxsOut [] out (fun _ h => h) h (by simp)
  intro idx0 r hmem0 hne hr f hf
  obtain ⟨tail, hS, hidx⟩ := segWalk_spec nxt _ mask maxLen _ idx0 [idx0] r hr
  have hidx' : r.1 = idx0 :: tail := by simpa using hidx
  unfold segFeatures at hf
  rcases List.mem_append.mp hf with hf | hf
  · right
    by_cases hl : r.1.length > 1
    · simp only [hl, if_true, List.mem_singleton] at hf
      subst hf
      rw [hidx'] at hl ⊢
      have hlink := hS.linked
      refine ⟨hl, ?_, hlink, ?_, ?_, ?_, ?_⟩
      · -- the start is the listed outlet idx0
        exact ⟨idx0, hmem0, hne, rfl⟩
      · exact path_of_pairs nxt _ (fun q hq => (hlink q hq).1)
      · intro v hv hvlt hmem
        have := hS.interior v hv
        have h2 := (segOutlets_get idxsOut nxt.size v).mpr ⟨hmem, hvlt⟩
        rw [h2] at this; cases this
      · intro hm
        have := hS.length hm (by simp; omega)
        simp at this ⊢; omega
      · obtain ⟨e, he, hcase⟩ := hS.ends
        refine ⟨e, he, ?_⟩
        rcases hcase with ⟨h1, _, _⟩ | ⟨_, h2, _, _⟩
        · left
          have : (idx0 :: tail).length = [idx0].length + tail.length := by simp; omega
          rw [this]; exact h1
        · exact Or.inr ((segOutlets_get idxsOut nxt.size e).mp h2)
    · simp [hl] at hf
  · left
    by_cases hp : r.2.1 = true
    · simp only [hp, if_true, List.mem_singleton] at hf
      exact ⟨r.2.2, hf, hS.pit_last hp⟩
    · simp [hp] at hf

example : segmentIndices [4, 1] #[0, 0, 1, 1, 3] none 0 = some [[4, 3, 1], [1, 0], [0, 0]] := by decide
example : segmentIndices [4] #[0, 0, 1, 1, 3] none 2 = some [[4, 3]] := by decide

/-! ### totality of the segment walk (third round) -/

/-- **fuel totality of the segment walk, direction "down"** (`idxs_nxt = idxs_ds`): on a downstream-first
order (`Topo`, i.e. a loop-free network) whose cells are in range, the inner `while True` of
`subgrid.segment_indices` started at any cell of the order - with any outlet flags, mask, `max_len` and any
vertices already collected - returns within the `n + 1` steps of fuel the model uses: `none` ("fuel
exhausted") never occurs. -/
theorem segment_walk_total (ds : Array Nat) (seq : List Nat) (htopo : Topo ds seq)
    (hb : ∀ i ∈ seq, i < ds.size) (outlets : Array Bool) (mask : Option (Array Bool)) (maxLen : Nat)
    (c : Nat) (hc : c ∈ seq) (acc : List Nat) :
    ∃ r, segWalk ds outlets mask maxLen (ds.size + 1) c acc = some r :=
  segWalk_total_down ds seq htopo hb outlets mask maxLen c hc acc

/-- **fuel totality of the segment walk, direction "up"** (`idxs_nxt = idxs_us_main`): the same along any
upstream-link array `us` of a loop-free network `ds` (per cell the missing value or an inflowing cell other
than the cell itself - `core.main_upstream` returns such an array, C11 `mainUpstream_argmax`), from every
cell in range, when the order contains every valid cell. -/
theorem segment_walk_total_up (ds us : Array Nat) (seq : List Nat) (htopo : Topo ds seq)
    (hb : ∀ i ∈ seq, i < ds.size) (hall : ∀ i, i < ds.size → ds[i]! ≠ ds.size → i ∈ seq)
    (hsz : us.size = ds.size)
    (hlink : ∀ c, c < ds.size → us[c]! = ds.size ∨ (us[c]! < ds.size ∧ ds[us[c]!]! = c ∧ us[c]! ≠ c))
    (outlets : Array Bool) (mask : Option (Array Bool)) (maxLen : Nat)
    (c : Nat) (hc : c < ds.size) (acc : List Nat) :
    ∃ r, segWalk us outlets mask maxLen (us.size + 1) c acc = some r :=
  segWalk_total_up ds us seq htopo hb hall hsz hlink outlets mask maxLen c hc acc

/-- **`segment_indices` returns, direction "down"**: for every loop-free network with an order containing
every valid cell, every list of outlet pixels (missing entries `= n` and pixels outside the network
included), every mask and every `max_len`, the model of `subgrid.segment_indices` returns a list of index
arrays - no fuel hypothesis - and that list satisfies `segment_indices_spec`. -/
theorem segment_indices_total (ds : Array Nat) (seq : List Nat) (htopo : Topo ds seq)
    (hb : ∀ i ∈ seq, i < ds.size) (hall : ∀ i, i < ds.size → ds[i]! ≠ ds.size → i ∈ seq)
    (idxsOut : List Nat) (hout : ∀ c ∈ idxsOut, c ≤ ds.size) (mask : Option (Array Bool)) (maxLen : Nat) :
    ∃ out, segmentIndices idxsOut ds mask maxLen = some out := by
  unfold segmentIndices
  refine foldlM_seg_total ds _ mask maxLen idxsOut [] ?_
  intro c hc hne
  have hlt : c < ds.size := by have := hout c hc; omega
  by_cases hv : ds[c]! = ds.size
  · exact segWalk_offnet ds _ mask maxLen _ c [c] hv
  · exact segWalk_total_down ds seq htopo hb _ mask maxLen c (hall c hlt hv) [c]

/-- **`segment_indices` returns, direction "up"** (the default of `FlwdirRaster.streams(idxs_out=...)`):
the same along an upstream-link array of the network. -/
theorem segment_indices_total_up (ds us : Array Nat) (seq : List Nat) (htopo : Topo ds seq)
    (hb : ∀ i ∈ seq, i < ds.size) (hall : ∀ i, i < ds.size → ds[i]! ≠ ds.size → i ∈ seq)
    (hsz : us.size = ds.size)
    (hlink : ∀ c, c < ds.size → us[c]! = ds.size ∨ (us[c]! < ds.size ∧ ds[us[c]!]! = c ∧ us[c]! ≠ c))
    (idxsOut : List Nat) (hout : ∀ c ∈ idxsOut, c ≤ ds.size) (mask : Option (Array Bool)) (maxLen : Nat) :
    ∃ out, segmentIndices idxsOut us mask maxLen = some out := by
  unfold segmentIndices
  refine foldlM_seg_total us _ mask maxLen idxsOut [] ?_
  intro c hc hne
  have hlt : c < ds.size := by have := hout c hc; rw [hsz] at hne; omega
  exact segWalk_total_up ds us seq htopo hb hall hsz hlink _ mask maxLen c hlt [c]

/-- **the model of `streams.streams` needs no fuel hypothesis either**: under the hypotheses of
`streams_model_ok` (loop-free order containing the stream cells, downstream-closed mask) the model never
returns `none`; stated separately so that the absence of any fuel assumption is explicit. -/
theorem streams_model_total (ds : Array Nat) (seq : List Nat) (mask : Option (Array Bool)) (m : Nat)
    (htopo : Topo ds seq) (hb : ∀ i ∈ seq, i < ds.size)
    (hcov : ∀ i, inStream ds mask i = true → i ∈ seq) (hcl : dsClosed ds mask = true) :
    streamsModel ds seq mask m ≠ none := by
  obtain ⟨feats, h, _⟩ := streams_model_ok ds seq mask m htopo hb hcov hcl
  rw [h]; exact fun h => nomatch h

/-- non-vacuity: the theorems applied to the network 4→3→1→0, 2→1 with cell 5 outside the network, outlet
list with a missing entry (6 = n) and an off-network pixel (5); in direction "up" along the main-upstream
array `[1, 3, 6, 4, 6, 6]` -/
example : ∃ out, segmentIndices [4, 6, 1, 5] #[0, 0, 1, 1, 3, 6] none 0 = some out := by
  have h0 : Topo #[0, 0, 1, 1, 3, 6] [] := Topo.nil
  have h1 : Topo #[0, 0, 1, 1, 3, 6] ([] ++ [0]) := Topo.snoc h0 (by simp) (Or.inl (by decide))
  have h2 : Topo #[0, 0, 1, 1, 3, 6] ([0] ++ [1]) := Topo.snoc h1 (by simp) (Or.inr (by decide))
  have h3 : Topo #[0, 0, 1, 1, 3, 6] ([0, 1] ++ [2]) := Topo.snoc h2 (by simp) (Or.inr (by decide))
  have h4 : Topo #[0, 0, 1, 1, 3, 6] ([0, 1, 2] ++ [3]) := Topo.snoc h3 (by simp) (Or.inr (by decide))
  have h5 : Topo #[0, 0, 1, 1, 3, 6] ([0, 1, 2, 3] ++ [4]) := Topo.snoc h4 (by simp) (Or.inr (by decide))
  exact segment_indices_total _ [0, 1, 2, 3, 4] h5 (by decide) (by decide) _ (by decide) none 0
example : segmentIndices [4, 6, 1, 5] #[0, 0, 1, 1, 3, 6] none 0 = some [[4, 3, 1], [1, 0], [0, 0]] ∧
    segmentIndices [0, 6, 3, 5] #[1, 3, 6, 4, 6, 6] none 0 = some [[0, 1, 3], [3, 4]] ∧
    segmentIndices [0, 6, 3, 5] #[1, 3, 6, 4, 6, 6] none 2 = some [[0, 1], [3, 4]] := by decide
example : ∃ out, segmentIndices [0, 6, 3, 5] #[1, 3, 6, 4, 6, 6] none 2 = some out := by
  have h0 : Topo #[0, 0, 1, 1, 3, 6] [] := Topo.nil
  have h1 : Topo #[0, 0, 1, 1, 3, 6] ([] ++ [0]) := Topo.snoc h0 (by simp) (Or.inl (by decide))
  have h2 : Topo #[0, 0, 1, 1, 3, 6] ([0] ++ [1]) := Topo.snoc h1 (by simp) (Or.inr (by decide))
  have h3 : Topo #[0, 0, 1, 1, 3, 6] ([0, 1] ++ [2]) := Topo.snoc h2 (by simp) (Or.inr (by decide))
  have h4 : Topo #[0, 0, 1, 1, 3, 6] ([0, 1, 2] ++ [3]) := Topo.snoc h3 (by simp) (Or.inr (by decide))
  have h5 : Topo #[0, 0, 1, 1, 3, 6] ([0, 1, 2, 3] ++ [4]) := Topo.snoc h4 (by simp) (Or.inr (by decide))
  exact segment_indices_total_up #[0, 0, 1, 1, 3, 6] #[1, 3, 6, 4, 6, 6] [0, 1, 2, 3, 4] h5 (by decide) (by decide)
    rfl (by decide) _ (by decide) none 2
example : ∀ c, c < 6 → (#[1, 3, 6, 4, 6, 6] : Array Nat)[c]! = 6 ∨
    ((#[1, 3, 6, 4, 6, 6] : Array Nat)[c]! < 6 ∧
      (#[0, 0, 1, 1, 3, 6] : Array Nat)[(#[1, 3, 6, 4, 6, 6] : Array Nat)[c]!]! = c ∧
      (#[1, 3, 6, 4, 6, 6] : Array Nat)[c]! ≠ c) := by decide

end Pf.C19
