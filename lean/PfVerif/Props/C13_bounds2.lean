import PfVerif.Proofs.C13_bounds2
import PfVerif.Proofs.C13_bounds2Fill
import PfVerif.Proofs.C13_bounds2Adj
import PfVerif.Props.C03
/-! # C13_bounds2 - the kernels outside `core.py` never index outside an array

Extension of `Props/C13_bounds.lean` (which covers `pyflwdir/core.py`) to the sweep-shaped kernels of
`streams.py`, `dem.py`, `arithmetics.py`, the two `fillnodata` sweeps of `core.py`, and to the neighbour loop of
`dem.fill_depressions`. `Model/C13_bounds2.lean` holds the access-logging variants.

GENERIC (`sweepDown_*`, `sweepUp_*`): for ANY loop body given by its state function and its access trace, the
logging sweep returns exactly `Pf.sweepDown` / `Pf.sweepUp`, and if the trace is cell-shaped (`CellTr`: arrays of
`n` slots addressed at `i` or `ds[i]`) then every logged access addresses the cell `i` or `ds[i]` of some `i ∈ seq`;
hence in bounds when `seq` is closed (`Closed`: entries `< n` with downstream entries `< n`; follows from `Topo ds seq`
with entries `< n`, or from `WF ds` with `seq` inside the network).

PER KERNEL: `<kernel>_log_eq` (logging variant = the model the other properties use) and `<kernel>_in_bounds`. -/
namespace Pf.C13b2
open Pf

/-! ### the generic pair for `sweepDown` / `sweepUp` -/

theorem sweepDown_log_eq {α : Type} [Inhabited α] (ds : Array Nat) (g : Nat → α → α → α)
    (tr : Nat → Array α → List Acc) (seq : List Nat) (out : Array α) :
    (sweepDownL ds g tr seq out).1 = sweepDown ds g seq out := foldlL_fst _ _ _ _

theorem sweepUp_log_eq {α : Type} [Inhabited α] (ds : Array Nat) (upd : Nat → α → α → α)
    (tr : Nat → Array α → List Acc) (seq : List Nat) (out : Array α) :
    (sweepUpL ds upd tr seq out).1 = sweepUp ds upd seq out := foldrL_fst _ _ _ _

/-- the logging down-sweep touches only `i` and `ds[i]` for `i ∈ seq`, in arrays of `n` slots -/
theorem sweepDown_touch {α : Type} [Inhabited α] (ds : Array Nat) (g : Nat → α → α → α)
    (tr : Nat → Array α → List Acc) (seq : List Nat) (out : Array α) (n : Nat) (hsz : out.size = n)
    (htr : ∀ i o, o.size = n → CellTr ds n i (tr i o)) :
    ∀ e ∈ (sweepDownL ds g tr seq out).2, e.size = n ∧ ∃ i ∈ seq, e.idx = i ∨ e.idx = ds[i]! := by
  intro e he
  have h := (foldlL_log (stepDown ds g) tr (fun o => o.size = n) seq
    (fun s i _ hs => by simpa using hs) (out, []) hsz).2 e he
  rcases h with h | ⟨i, hi, s, hs, hes⟩
  · cases h
  · exact ⟨(htr i s hs e hes).1, i, hi, (htr i s hs e hes).2⟩

theorem sweepUp_touch {α : Type} [Inhabited α] (ds : Array Nat) (upd : Nat → α → α → α)
    (tr : Nat → Array α → List Acc) (seq : List Nat) (out : Array α) (n : Nat) (hsz : out.size = n)
    (htr : ∀ i o, o.size = n → CellTr ds n i (tr i o)) :
    ∀ e ∈ (sweepUpL ds upd tr seq out).2, e.size = n ∧ ∃ i ∈ seq, e.idx = i ∨ e.idx = ds[i]! := by
  intro e he
  have h := (foldrL_log (stepUp ds upd) tr (fun o => o.size = n) seq
    (fun s i _ hs => by unfold stepUp; split <;> simpa using hs) (out, []) hsz).2 e he
  rcases h with h | ⟨i, hi, s, hs, hes⟩
  · cases h
  · exact ⟨(htr i s hs e hes).1, i, hi, (htr i s hs e hes).2⟩

theorem sweepDown_in_bounds {α : Type} [Inhabited α] (ds : Array Nat) (g : Nat → α → α → α)
    (tr : Nat → Array α → List Acc) (seq : List Nat) (out : Array α) (n : Nat) (hsz : out.size = n)
    (htr : ∀ i o, o.size = n → CellTr ds n i (tr i o)) (hcl : Closed ds n seq) :
    InB (sweepDownL ds g tr seq out).2 :=
  inb_of_touch hcl (sweepDown_touch ds g tr seq out n hsz htr)

theorem sweepUp_in_bounds {α : Type} [Inhabited α] (ds : Array Nat) (upd : Nat → α → α → α)
    (tr : Nat → Array α → List Acc) (seq : List Nat) (out : Array α) (n : Nat) (hsz : out.size = n)
    (htr : ∀ i o, o.size = n → CellTr ds n i (tr i o)) (hcl : Closed ds n seq) :
    InB (sweepUpL ds upd tr seq out).2 :=
  inb_of_touch hcl (sweepUp_touch ds upd tr seq out n hsz htr)

/-- a downstream-first order of cells is closed (`Topo`: established by C03 for the library's `idxs_seq`) -/
theorem closed_topo {ds : Array Nat} {n : Nat} {seq : List Nat} (ht : Topo ds seq) (hb : ∀ i ∈ seq, i < n) :
    Closed ds n seq := closed_of_topo ht hb

/-- cells inside a well-formed network are closed, in any order and with repetitions -/
theorem closed_wf {ds : Array Nat} {seq : List Nat} (hwf : WF ds) (hv : ∀ i ∈ seq, isValid ds i = true) :
    Closed ds ds.size seq := closed_of_wf hwf hv

/-! ### instances -/

/-- `streams.accuflux` -/
theorem accuflux_log_eq (ds : Array Nat) (seq : List Nat) (data : Array Int) (nodata : Int) :
    (accufluxL ds seq data nodata).1 = accuflux ds seq data nodata := sweepUp_log_eq ..

theorem accuflux_in_bounds (ds : Array Nat) (seq : List Nat) (data : Array Int) (nodata : Int)
    (hd : data.size = ds.size) (hcl : Closed ds ds.size seq) : InB (accufluxL ds seq data nodata).2 := by
  refine sweepUp_in_bounds _ _ _ _ _ _ hd (fun i o ho => ?_) hcl
  exact trLink_cell _ _ _ _ _ hd (by simp [acc, ho])

/-- `streams.accuflux_ds` -/
theorem accuflux_ds_log_eq (ds : Array Nat) (seq : List Nat) (data : Array Int) (nodata : Int) :
    (accufluxDsL ds seq data nodata).1 = accufluxDs ds seq data nodata := sweepDown_log_eq ..

theorem accuflux_ds_in_bounds (ds : Array Nat) (seq : List Nat) (data : Array Int) (nodata : Int)
    (hd : data.size = ds.size) (hcl : Closed ds ds.size seq) : InB (accufluxDsL ds seq data nodata).2 := by
  refine sweepDown_in_bounds _ _ _ _ _ _ hd (fun i o ho => ?_) hcl
  exact trLink_cell _ _ _ _ _ hd (by simp [acc, ho])

/-- `streams.upstream_area` (kernel) -/
theorem upstream_area_log_eq (ds : Array Nat) (seq : List Nat) (ncol : Nat) (rowArea : Array Int) (nodata : Int) :
    (upstreamAreaL ds seq ncol rowArea nodata).1 = upstreamAreaKernel ds seq ncol rowArea nodata := sweepUp_log_eq ..

theorem upstream_area_in_bounds (ds : Array Nat) (seq : List Nat) (ncol : Nat) (rowArea : Array Int) (nodata : Int)
    (hcl : Closed ds ds.size seq) : InB (upstreamAreaL ds seq ncol rowArea nodata).2 := by
  unfold upstreamAreaL
  simp only [InB_append]
  constructor
  · refine sweepUp_in_bounds _ _ _ _ _ ds.size ?_ (fun i o ho => ?_) hcl
    · rw [size_foldl_set seq (fun idx => rowArea[idx / ncol]!)]; simp
    · unfold trUparea; split <;> simp [acc, ho]
  · intro e he
    simp only [List.mem_reverse, List.mem_map] at he
    obtain ⟨i, hi, rfl⟩ := he
    exact (hcl i hi).1

/-- `core.fillnodata_upstream` -/
theorem fillnodata_upstream_log_eq (ds : Array Nat) (seq : List Nat) (data : Array Int) (nodata : Int) :
    (fillnodataUpstreamL ds seq data nodata).1 = fillnodataUpstream ds seq data nodata := sweepDown_log_eq ..

theorem fillnodata_upstream_in_bounds (ds : Array Nat) (seq : List Nat) (data : Array Int) (nodata : Int)
    (hd : data.size = ds.size) (hcl : Closed ds ds.size seq) : InB (fillnodataUpstreamL ds seq data nodata).2 := by
  refine sweepDown_in_bounds _ _ _ _ _ _ hd (fun i o ho => ?_) hcl
  unfold trFillUp; celltr

/-- `core.fillnodata_downstream` (state = `(data_out, filled)` per cell) -/
theorem fillnodata_downstream_log_eq (ds : Array Nat) (seq : List Nat) (data : Array Int) (nd : Int) (how : Nat) :
    (fillnodataDownstreamL ds seq data nd how).1 = fillDownState ds seq data nd how := sweepUp_log_eq ..

theorem fillnodata_downstream_in_bounds (ds : Array Nat) (seq : List Nat) (data : Array Int) (nd : Int) (how : Nat)
    (hd : data.size = ds.size) (hcl : Closed ds ds.size seq) : InB (fillnodataDownstreamL ds seq data nd how).2 := by
  refine sweepUp_in_bounds _ _ _ _ _ ds.size (by simp [fillDownInit, hd]) (fun i o ho => ?_) hcl
  unfold trFillDown; celltr

/-- `streams.stream_order` (classic) for any `nup` of `n` slots … -/
theorem stream_order_log_eq (ds : Array Nat) (seq : List Nat) (usMain : Array Nat) (nup : Array Int)
    (mask : Option (Array Bool)) :
    (classicOrderWithL ds seq usMain nup mask).1 = classicOrderWith ds seq usMain nup mask := sweepDown_log_eq ..

theorem stream_order_in_bounds (ds : Array Nat) (seq : List Nat) (usMain : Array Nat) (nup : Array Int)
    (mask : Option (Array Bool)) (hu : usMain.size = ds.size) (hn : nup.size = ds.size)
    (hm : ∀ m, mask = some m → m.size = ds.size) (hcl : Closed ds ds.size seq) :
    InB (classicOrderWithL ds seq usMain nup mask).2 := by
  refine sweepDown_in_bounds _ _ _ _ _ ds.size (by simp) (fun i o ho => ?_) hcl
  have hmk := CellTr_accOpt ds ds.size i Arr.mask mask hm
  unfold trClassic
  dsimp only
  repeat' split
  all_goals simp_all [acc]

/-- `streams.stream_distance` -/
theorem stream_distance_log_eq (ds : Array Nat) (seq : List Nat) (mask : Option (Array Bool)) (step : Nat → Nat → Int) :
    (streamDistanceL ds seq mask step).1 = streamDistanceModel ds seq mask step := sweepDown_log_eq ..

theorem stream_distance_in_bounds (ds : Array Nat) (seq : List Nat) (mask : Option (Array Bool))
    (step : Nat → Nat → Int) (hm : ∀ m, mask = some m → m.size = ds.size) (hcl : Closed ds ds.size seq) :
    InB (streamDistanceL ds seq mask step).2 := by
  refine sweepDown_in_bounds _ _ _ _ _ ds.size (size_initSeq ..) (fun i o ho => ?_) hcl
  have hmk := CellTr_accOpt ds ds.size i Arr.mask mask hm
  unfold trDist
  dsimp only
  repeat' split
  all_goals simp_all [acc]

/-- `dem.height_above_nearest_drain` -/
theorem hand_log_eq (ds : Array Nat) (seq : List Nat) (drain : Array Bool) (elev : Array Int) :
    (handL ds seq drain elev).1 = handModel ds seq drain elev := sweepDown_log_eq ..

theorem hand_in_bounds (ds : Array Nat) (seq : List Nat) (drain : Array Bool) (elev : Array Int)
    (hdr : drain.size = ds.size) (he : elev.size = ds.size) (hcl : Closed ds ds.size seq) :
    InB (handL ds seq drain elev).2 := by
  refine sweepDown_in_bounds _ _ _ _ _ ds.size (size_initSeq ..) (fun i o ho => ?_) hcl
  unfold trHand; celltr

/-- `dem.floodplains` (state = `(fldpln, drainz, drainh)` per cell) -/
theorem floodplains_log_eq (ds : Array Nat) (seq : List Nat) (P : FpParams) :
    (floodL ds seq P).1 = floodState ds seq P := sweepDown_log_eq ..

theorem floodplains_in_bounds (ds : Array Nat) (seq : List Nat) (P : FpParams)
    (hu : P.uparea.size = ds.size) (he : P.elev.size = ds.size) (hcl : Closed ds ds.size seq) :
    InB (floodL ds seq P).2 := by
  refine sweepDown_in_bounds _ _ _ _ _ ds.size (size_initSeq ..) (fun i o ho => ?_) hcl
  unfold trFlood; celltr

/-! ### `streams.strahler_order`, `arithmetics.upstream_sum` (generic folds) -/

theorem strahler_log_eq (ds : Array Nat) (seq : List Nat) (mask : Option (Array Bool)) :
    (strahlerL ds seq mask).1 = strahlerState ds seq mask := foldrL_fst _ _ _ _

theorem strahler_in_bounds (ds : Array Nat) (seq : List Nat) (mask : Option (Array Bool))
    (hm : ∀ m, mask = some m → m.size = ds.size) (hcl : Closed ds ds.size seq) :
    InB (strahlerL ds seq mask).2 := by
  intro e he
  have h := (foldrL_log (strahlerStep ds mask) (trStrahler ds mask) (fun st => st.1.size = ds.size ∧ st.2.size = ds.size)
    seq (fun s i _ hs => strahlerStep_size ds mask i s _ hs) (_, []) (by simp)).2 e he
  rcases h with h | ⟨i, hi, s, hs, hes⟩
  · cases h
  · have hmk := CellTr_accOpt ds ds.size i Arr.mask mask hm
    have hc : CellTr ds ds.size i (trStrahler ds mask i s) := by
      obtain ⟨hs1, hs2⟩ := hs
      unfold trStrahler
      dsimp only
      repeat' split
      all_goals simp_all [acc]
    exact (hc.inb (hcl i hi)) e hes

theorem upstream_sum_log_eq (ds : Array Nat) (data : Array Int) (nodata : Int) :
    (upstreamSumL ds data nodata).1 = upstreamSumModel ds data nodata := foldlL_fst _ _ _ _

/-- all cells are visited, the cells outside the network included: the guard `idx_ds != mv` comes first -/
theorem upstream_sum_in_bounds (ds : Array Nat) (hwf : WF ds) (data : Array Int) (nodata : Int)
    (hd : data.size = ds.size) : InB (upstreamSumL ds data nodata).2 := by
  intro e he
  have h := (foldlL_log (upstreamSumStep ds data nodata) (trUpsum ds data nodata) (fun a => a.size = ds.size)
    (List.range ds.size) (fun s i _ hs => by unfold upstreamSumStep; dsimp only; repeat' split <;> simp_all)
    (_, []) (by simp)).2 e he
  rcases h with h | ⟨i, hi, s, hs, hes⟩
  · cases h
  · have hi' : i < ds.size := List.mem_range.1 hi
    have hle := (hwf i hi').1
    have : InB (trUpsum ds data nodata i s) := by
      unfold trUpsum
      dsimp only
      repeat' split
      all_goals simp_all [acc]
      all_goals omega
    exact this e hes

/-! ### non-vacuity (part 1)

network of 10 cells: pits 3 and 7, confluences at 3 and 5, a cell outside the network (9, `ds = 10`);
`exSeq` is a downstream-first order of the 9 cells inside -/

def exDs : Array Nat := #[3, 0, 0, 3, 3, 6, 7, 7, 5, 10]
def exSeq : List Nat := [3, 7, 0, 4, 6, 1, 2, 5, 8]
def exData : Array Int := #[1, 2, -9999, 4, 5, 6, -9999, 8, 9, 3]
def exMask : Array Bool := #[true, false, true, true, true, true, false, true, true, false]

example : WF exDs := (C03.wfB_iff _).1 (by decide)
example : Closed exDs exDs.size exSeq := closed_wf ((C03.wfB_iff _).1 (by decide)) (by decide)
example : InB (accufluxL exDs exSeq exData (-9999)).2 ∧ (accufluxL exDs exSeq exData (-9999)).2.length > 30 := by
  decide +kernel
example : (accufluxL exDs exSeq exData (-9999)).1 = #[3, 2, -9999, 12, 5, 15, -9999, 8, 9, 3] := by decide +kernel
example : InB (fillnodataDownstreamL exDs exSeq exData (-9999) 2).2 := by decide +kernel
example : InB (classicOrderWithL exDs exSeq #[1, 10, 10, 0, 10, 8, 5, 6, 10, 10] (upstreamCount exDs (some exMask)) (some exMask)).2 := by
  decide +kernel
example : InB (strahlerL exDs exSeq (some exMask)).2 ∧ (strahlerL exDs exSeq (some exMask)).1.1[3]! = 2 := by
  decide +kernel
example : InB (upstreamSumL exDs exData (-9999)).2 := by decide +kernel
/-- NEGATIVE: a sequence that is not closed (it holds cell 9, which lies outside the network): `data[idx_ds]` is
`data[10]` of a 10-slot array -/
example : ¬ InB (accufluxL exDs (exSeq ++ [9]) exData (-9999)).2 := by decide +kernel

/-! ### `dem.fill_depressions`: the neighbour loop

`fillL … lim md fuel queued` is the `while len(q) > 0` loop started from the outlets `queued`; `lim` says whether the
block `if max_depth >= 0:` of the source is executed. Every access is logged as an INTEGER pair `(r, c)`,
`r = r0 + dr`, `c = c0 + dc`, computed before the raster-bounds test as in the source. -/
open Pf.C06

/-- the raster-bounds test of the source (`r < 0 or r == nrow or c < 0 or c == ncol`, with `==`) is the `shift` of the
model (`>=`): a neighbour of a raster cell is at most one row / column outside -/
theorem fill_guard_eq_shift {G : Grid} {i0 : Nat} {conn : Nat} {o : Int × Int} (hi : i0 < G.n) (ho : o ∈ offsets conn) :
    shift G i0 o.1 o.2 =
      if outside G (((i0 / G.ncol : Nat) : Int) + o.1) (((i0 % G.ncol : Nat) : Int) + o.2) then none
      else some ((((i0 / G.ncol : Nat) : Int) + o.1).toNat * G.ncol + (((i0 % G.ncol : Nat) : Int) + o.2).toNat) :=
  shift_outside hi ho

/-- one neighbour visit, `max_depth >= 0`: the logging variant is `Pf.C06.visitD` -/
theorem fill_visit_log_eq_depth (G : Grid) (conn : Nat) (elev : Array Int) (nod : Array Bool) (md z0 : Int) (i0 : Nat)
    (s : StD) (o : Int × Int) (hi : i0 < G.n) (ho : o ∈ offsets conn) :
    (visitDL G conn elev nod true md z0 i0 s o).1 = visitD G conn elev nod md z0 i0 s o :=
  visitDL_fst_lim G conn elev nod md z0 i0 s o hi ho

/-- one neighbour visit, `max_depth < 0`: the logging variant is `Pf.C06.visit` -/
theorem fill_visit_log_eq (G : Grid) (conn : Nat) (elev : Array Int) (nod : Array Bool) (md z0 : Int) (i0 : Nat)
    (s : StD) (o : Int × Int) (hi : i0 < G.n) (ho : o ∈ offsets conn) :
    (visitDL G conn elev nod false md z0 i0 s o).1.toSt = visit G elev z0 i0 s.toSt o :=
  visitDL_fst_nolim G conn elev nod md z0 i0 s o hi ho

/-- one neighbour visit of a raster cell: every logged `(r, c)` lies in `[0, nrow) × [0, ncol)` - no hypothesis
on the rasters (`elevtn`, `done`, … may hold anything) -/
theorem fill_visit_in_bounds (G : Grid) (conn : Nat) (elev : Array Int) (nod : Array Bool) (lim : Bool) (md z0 : Int)
    (i0 : Nat) (s : StD) (o : Int × Int) (hi : i0 < G.n) (ho : o ∈ offsets conn) (hq : ∀ e ∈ s.q, e.idx < G.n) :
    InB2 G.nrow G.ncol (visitDL G conn elev nod lim md z0 i0 s o).2 :=
  (visitDL_inv G conn elev nod lim md z0 i0 s o hi ho hq).2

/-- the whole loop, `max_depth >= 0`: the state of the logging variant is the state of `fillLoopD` … -/
theorem fill_depressions_log_eq_depth (G : Grid) (conn : Nat) (elev : Array Int) (nod : Array Bool) (md : Int)
    (fuel : Nat) (queued : Array Bool) :
    (fillL G conn elev nod true md fuel queued).1 = fillLoopD G conn elev nod md fuel (initStateD G elev nod queued) :=
  (fillLoopDL_inv G conn elev nod true md fuel _ (initStateD_q G elev nod queued) (InB2_nil _ _)).2.1 rfl

/-- … hence `fillModelDepth` (the model of C06) is a projection of it -/
theorem fill_depressions_model_depth (G : Grid) (conn : Nat) (elev : Array Int) (nod : Array Bool)
    (pits : Option (List Nat)) (minMode : Bool) (elvMax : Option Int) (md : Int) (queued : Array Bool)
    (h : seedsOfE G conn elev nod pits minMode elvMax = .ok queued) :
    fillModelDepth G conn elev nod pits minMode elvMax md =
      .ok ((fillL G conn elev nod true md (fuelD G) queued).1.f, (fillL G conn elev nod true md (fuelD G) queued).1.d8,
           (fillL G conn elev nod true md (fuelD G) queued).1.q.isEmpty, (fillL G conn elev nod true md (fuelD G) queued).1.ev,
           (fillL G conn elev nod true md (fuelD G) queued).1.evc) := by
  unfold fillModelDepth
  rw [h, fill_depressions_log_eq_depth]

/-- the whole loop, `max_depth < 0`: `fillLoop` -/
theorem fill_depressions_log_eq (G : Grid) (conn : Nat) (elev : Array Int) (nod : Array Bool) (md : Int)
    (fuel : Nat) (queued : Array Bool) :
    (fillL G conn elev nod false md fuel queued).1.toSt = fillLoop G conn elev fuel (initState G elev nod queued) :=
  (fillLoopDL_inv G conn elev nod false md fuel _ (initStateD_q G elev nod queued) (InB2_nil _ _)).2.2 rfl

theorem fill_depressions_model (G : Grid) (conn : Nat) (elev : Array Int) (nod : Array Bool)
    (pits : Option (List Nat)) (minMode : Bool) (elvMax : Option Int) (md : Int) (queued : Array Bool)
    (h : seedsOfE G conn elev nod pits minMode elvMax = .ok queued) :
    fillModelE G conn elev nod pits minMode elvMax =
      .ok ((fillL G conn elev nod false md (G.n + 1) queued).1.f, (fillL G conn elev nod false md (G.n + 1) queued).1.d8,
           (fillL G conn elev nod false md (G.n + 1) queued).1.q.isEmpty) := by
  have e := fill_depressions_log_eq G conn elev nod md (G.n + 1) queued
  unfold fillModelE
  rw [h]
  dsimp only
  rw [← e]
  rfl

/-- every `(r, c)` the loop uses to index `elevtn`, `done`, `queued`, `delv`, `elevtn_out`, `d8`, `isnodata` lies in the
raster, the initial heap pushes included: for EVERY raster shape, elevation, nodata pattern, connectivity, depth
limit, outlet set and fuel - no hypothesis -/
theorem fill_depressions_in_bounds (G : Grid) (conn : Nat) (elev : Array Int) (nod : Array Bool) (lim : Bool) (md : Int)
    (fuel : Nat) (queued q0 : Array Bool) :
    InB2 G.nrow G.ncol ((fillL G conn elev nod lim md fuel queued).2 ++ initHeapLog G q0) := by
  rw [InB2_append]
  exact ⟨(fillLoopDL_inv G conn elev nod lim md fuel _ (initStateD_q G elev nod queued) (InB2_nil _ _)).1,
    initHeapLog_inb G q0⟩

/-! non-vacuity: a 3 x 4 raster with a nodata cell and a two-level depression; depth limit 1 -/

def exG : Grid := ⟨3, 4⟩
def exElev : Array Int := #[5, 5, 5, 5, 5, 1, 3, -9999, 5, 5, 5, 5]
def exNod : Array Bool := exElev.map (· == -9999)
def exSeeds : Array Bool := getEdge exG 8 exNod

example : InB2 3 4 (fillL exG 8 exElev exNod true 1 (fuelD exG) exSeeds).2 ∧
    (fillL exG 8 exElev exNod true 1 (fuelD exG) exSeeds).2.length > 40 ∧
    (fillL exG 8 exElev exNod true 1 (fuelD exG) exSeeds).1.ev > 0 := by decide +kernel
example : InB2 3 4 (fillL exG 4 exElev exNod false (-1) 13 exSeeds).2 ∧
    (fillL exG 4 exElev exNod false (-1) 13 exSeeds).1.f[5]! = 3 := by decide +kernel
/-- NEGATIVE (F13): consulting `done[r, c]` before the raster-bounds test logs `(-1, -1)` at the corner cell 0 and
`(3, 4)` at the corner cell 11 -/
example : ¬ InB2 3 4 (visitBadL exG 0 (-1, -1)) ∧ ¬ InB2 3 4 (visitBadL exG 11 (1, 1)) ∧
    InB2 3 4 (visitBadL exG 5 (1, 1)) := by decide +kernel
/-- the guard of the current source skips these offsets without any access -/
example : (visitDL exG 8 exElev exNod true 1 5 0 (initStateD exG exElev exNod exSeeds) (-1, -1)).2 = [] := by
  decide +kernel

/-! ### `dem._adjust_elevation`: the index ranges stay within the profile

`imin .. i`, `0 .. imax`, `j0 .. max(imax + 1, j1)`, the scans `range(i0, imin + 1)` / `range(i1, i + 1)` and the scalar
reads `elevtn[i]`, `elevtn[imax]`, `elevtn[imin]`, `elevtn[0]`, `elevtn[-1]` -/

theorem adjust_elevation_1d_log_eq (l : List Int) : (adjust1dL l).1.e.toList = adjust1d l := by
  unfold adjust1dL adjust1d
  rw [foldlL_fst]

/-- for every non-empty profile (the source reads `elevtn[0]`: it fails on an empty one) every index used on the
profile is `<` its length -/
theorem adjust_elevation_1d_in_bounds (l : List Int) (hl : l ≠ []) : InB (adjust1dL l).2 := by
  have hn : 0 < l.length := List.length_pos_iff.2 hl
  intro e he
  have h := (foldlL_log (a1Step l.length) (a1StepLog l.length) (AdjInv l.length) (List.range l.length)
    (fun s i hi hs => a1Step_inv _ s i (List.mem_range.1 hi) hs) (a1Init l.toArray, _)
    (by simp [AdjInv, a1Init, hn])).2 e he
  rcases h with h | ⟨i, hi, s, hs, hes⟩
  · simp only [List.mem_cons, List.mem_nil_iff, or_false] at h
    rcases h with rfl | rfl | rfl <;> simp [acc] <;> omega
  · exact a1StepLog_inb _ s i (List.mem_range.1 hi) hs e hes

/-- non-vacuity: a profile with two pits (dig / fill / dig & fill candidates are all formed) -/
example : InB (adjust1dL [9, 4, 7, 3, 8, 2, 5, 1]).2 ∧ (adjust1dL [9, 4, 7, 3, 8, 2, 5, 1]).2.length > 40 ∧
    (adjust1dL [9, 4, 7, 3, 8, 2, 5, 1]).1.e.toList ≠ [9, 4, 7, 3, 8, 2, 5, 1] := by decide +kernel

end Pf.C13b2
