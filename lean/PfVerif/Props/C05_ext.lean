import PfVerif.Proofs.C05_extOut
import PfVerif.Proofs.C05_extIn
import PfVerif.Proofs.C05_extInter
import PfVerif.Proofs.C05_extRegion
import PfVerif.Props.C05
import PfVerif.Props.C11
/-! # C05 extension — region and mask operations next to basin delineation

Theorems about the models of `Model/C05_ext.lean` (and `Pf.outflowIdxs` / `Pf.inflowIdxs` of
`Model/Core.lean`): `core.outflow_idxs`, `core.inflow_idxs`, `basins.interbasin_mask`,
`regions.region_sum / region_area / region_slices / region_bounds`, `FlwdirRaster.basin_bounds` and the
snapping path of `FlwdirRaster.basins(idxs|xy, streams=mask)`.

All theorems quantify over every network `ds`, every downstream-first order `seq` (`Topo`, established
by C03 and re-checked with `isTopo` on the order the implementation used), every region / stream /
label raster and every unrotated transform (both signs of the cell sizes); no bound on sizes.

Vocabulary: `exitCell i` = `i` is in the region and its downstream cell is itself or outside;
`enterCell i` = `i` is a non-pit cell outside the region whose downstream cell is inside;
`NoExit j` = no exit cell on the whole flow path from `j`; `firstKid seq j` = the first cell of `seq`
draining into `j`; `ChainClear j` = no entering cell on the chain of first kids above `j`;
`InterOK mask0 i` = the flow path from `i` never steps from outside the region into it and ends in a
pit whose start value `mask0` is true. -/
namespace Pf.C05x
open Pf

/-! ## 0. `_check_data` -/

/-- `_check_data(flatten=True)`: a size-1 array is broadcast, an array of the network size is taken
as it is, every other size is rejected (`ValueError`) -/
theorem checkData_spec {α : Type} [Inhabited α] (n : Nat) (data : Array α) :
    checkData n data =
      if data.size = 1 then some (Array.replicate n data[0]!)
      else if data.size = n then some data else none := by
  unfold checkData
  by_cases h1 : data.size = 1
  · have h0 : 0 < data.size := by omega
    simp [h1]
  · simp [h1]

theorem nodup_reverse' {l : List Nat} (h : l.Nodup) : l.reverse.Nodup := by
  unfold List.Nodup at *
  rw [List.pairwise_reverse]
  exact h.imp (fun hab => Ne.symm hab)

/-! ## 1. `outflow_idxs` -/

/-- **outflow cells**: `outflow_idxs` reports exactly the cells of the network that lie in the region,
drain to a pit or out of the region, and have no such cell anywhere further down their flow path
("most downstream cells within region") -/
theorem outflow_mem_iff (ds : Array Nat) (seq : List Nat) (region : Array Bool) (htopo : Topo ds seq)
    (hb : ∀ i ∈ seq, i < ds.size) (x : Nat) :
    x ∈ outflowIdxs ds seq region ↔
      x ∈ seq ∧ exitCell ds region x = true ∧ (ds[x]! = x ∨ NoExit ds region ds[x]!) := by
  rw [outflowIdxs_eq, List.mem_reverse]
  exact (outflow_inv ds region seq htopo hb).2.2.2.1 x

/-- the reported cells come in the order of `seq`, each once -/
theorem outflow_sublist (ds : Array Nat) (seq : List Nat) (region : Array Bool) (htopo : Topo ds seq)
    (hb : ∀ i ∈ seq, i < ds.size) :
    (outflowIdxs ds seq region).Sublist seq ∧ (outflowIdxs ds seq region).Nodup := by
  have h := (outflow_inv ds region seq htopo hb).2.2.2.2
  rw [← outflowIdxs_eq] at h
  exact ⟨h, h.nodup htopo.nodup⟩

/-- no two reported outflow cells lie on one flow path -/
theorem outflow_antichain (ds : Array Nat) (seq : List Nat) (region : Array Bool) (htopo : Topo ds seq)
    (hb : ∀ i ∈ seq, i < ds.size) (x y : Nat) (k : Nat)
    (hx : x ∈ outflowIdxs ds seq region) (hy : y ∈ outflowIdxs ds seq region)
    (hxy : iterA ds (k+1) x = y) : ds[x]! = x := by
  obtain ⟨_, _, h3⟩ := (outflow_mem_iff ds seq region htopo hb x).1 hx
  obtain ⟨_, hy2, _⟩ := (outflow_mem_iff ds seq region htopo hb y).1 hy
  rcases h3 with h3 | h3
  · exact h3
  · have := h3 k
    simp only [iterA] at hxy
    rw [hxy, hy2] at this; cases this

/-- the order-independent walk the harness applies to the implementation's output decides the
condition of `outflow_mem_iff` wherever it ends -/
theorem outflow_walk_sound (ds : Array Nat) (region : Array Bool) (fuel j : Nat) (b : Bool)
    (h : walkClear ds region fuel j = some b) : b = true ↔ NoExit ds region j :=
  walkClear_sound ds region fuel j b h

/-! ## 2. `inflow_idxs` -/

/-- **inflow cells, exact**: `inflow_idxs` reports exactly the non-pit cells of the network outside
the region whose downstream cell is inside and above which the chain of first inflowing cells
(first in `seq`) contains no such cell. (The mask of the loop is overwritten, not and-ed, by each
inflowing cell, so the result depends on the order of the cells at confluences.) -/
theorem inflow_mem_iff (ds : Array Nat) (seq : List Nat) (region : Array Bool) (htopo : Topo ds seq)
    (hb : ∀ i ∈ seq, i < ds.size) (x : Nat) :
    x ∈ inflowIdxs ds seq region ↔
      x ∈ seq ∧ enterCell ds region x = true ∧ ChainClear ds seq region x := by
  obtain ⟨L, hL1, _, hL3⟩ := inflow_gen ds region seq htopo hb (Array.replicate ds.size true) [] (by simp)
  rw [inflowIdxs_eq, List.mem_reverse, hL1, List.append_nil, hL3 x]
  constructor
  · rintro ⟨h1, h2, h3⟩
    exact ⟨h1, h2, (inflow_mask_iff ds region seq htopo hb x (hb x h1)).1 h3⟩
  · rintro ⟨h1, h2, h3⟩
    exact ⟨h1, h2, (inflow_mask_iff ds region seq htopo hb x (hb x h1)).2 h3⟩

/-- the reported cells come in up- to downstream order (reversed `seq`), each once -/
theorem inflow_sublist (ds : Array Nat) (seq : List Nat) (region : Array Bool) (htopo : Topo ds seq)
    (hb : ∀ i ∈ seq, i < ds.size) :
    (inflowIdxs ds seq region).Sublist seq.reverse ∧ (inflowIdxs ds seq region).Nodup := by
  obtain ⟨L, hL1, hL2, _⟩ := inflow_gen ds region seq htopo hb (Array.replicate ds.size true) [] (by simp)
  have h : (inflowIdxs ds seq region).Sublist seq.reverse := by
    rw [inflowIdxs_eq, hL1, List.append_nil]; exact List.reverse_sublist.2 hL2
  exact ⟨h, h.nodup (nodup_reverse' htopo.nodup)⟩

/-- **order-independent upper bound**: every reported cell is a non-pit cell outside the region that
drains into the region (so the reported cells are *not* "within region", unlike the docstring says) -/
theorem inflow_entering (ds : Array Nat) (seq : List Nat) (region : Array Bool) (htopo : Topo ds seq)
    (hb : ∀ i ∈ seq, i < ds.size) (x : Nat) (hx : x ∈ inflowIdxs ds seq region) :
    x ∈ seq ∧ ds[x]! ≠ x ∧ region[ds[x]!]! = true ∧ region[x]! = false := by
  obtain ⟨h1, h2, _⟩ := (inflow_mem_iff ds seq region htopo hb x).1 hx
  simp only [enterCell, Bool.and_eq_true, bne_iff_ne, ne_eq, Bool.not_eq_true'] at h2
  exact ⟨h1, h2.1.1, h2.1.2, h2.2⟩

/-- **order-independent lower bound**: an entering cell with no entering cell anywhere upstream of it
is reported whatever the order of the cells -/
theorem inflow_must (ds : Array Nat) (seq : List Nat) (region : Array Bool) (htopo : Topo ds seq)
    (hb : ∀ i ∈ seq, i < ds.size) (x : Nat) (hx : x ∈ seq) (he : enterCell ds region x = true)
    (hup : ∀ y ∈ seq, ∀ k, iterA ds (k+1) y = x → enterCell ds region y = false) :
    x ∈ inflowIdxs ds seq region :=
  (inflow_mem_iff ds seq region htopo hb x).2
    ⟨hx, he, chainClear_of_no_enter_up ds region seq htopo x hup⟩

/-- the declarative list the harness compares the implementation with: wherever the chain walks end,
it has the members of `inflow_idxs` -/
theorem inflowSpec_mem (ds : Array Nat) (seq : List Nat) (region : Array Bool) (htopo : Topo ds seq)
    (hb : ∀ i ∈ seq, i < ds.size)
    (hfuel : ∀ x ∈ seq, (chainClear ds seq region (ds.size + 1) x).isSome = true) (x : Nat) :
    x ∈ inflowSpec ds seq region ↔ x ∈ inflowIdxs ds seq region := by
  rw [inflow_mem_iff ds seq region htopo hb x]
  simp only [inflowSpec, List.mem_filter, List.mem_reverse, Bool.and_eq_true, beq_iff_eq]
  constructor
  · rintro ⟨h1, h2, h3⟩
    exact ⟨h1, h2, (chainClear_sound ds seq region _ x true h3).1 rfl⟩
  · rintro ⟨h1, h2, h3⟩
    refine ⟨h1, h2, ?_⟩
    cases hc : chainClear ds seq region (ds.size + 1) x with
    | none => have := hfuel x h1; rw [hc] at this; cases this
    | some b =>
      have := (chainClear_sound ds seq region _ x b hc).2 h3
      rw [this]

/-! ## 3. `interbasin_mask` -/

theorem interbasin_size (ds : Array Nat) (seq : List Nat) (region : Array Bool) (stream : Option (Array Bool)) :
    (interbasinMask ds seq region stream).size = region.size := by
  simp [interbasinMask]

/-- the start mask of the second loop has the size of the region (no stream) / of the stream mask -/
theorem interMask0_size (ds : Array Nat) (seq : List Nat) (region : Array Bool) (stream : Option (Array Bool)) :
    (interMask0 ds seq region stream).size = match stream with | none => region.size | some s => s.size := by
  cases stream with
  | none => simp [interMask0]
  | some s => simp [interMask0, size_streamDown]

/-- `np.logical_and(mask, region)` -/
theorem interbasin_get (ds : Array Nat) (seq : List Nat) (region : Array Bool) (stream : Option (Array Bool))
    (i : Nat) (hi : i < region.size) :
    (interbasinMask ds seq region stream)[i]! = ((interSweep ds seq region stream)[i]! && region[i]!) := by
  simp [interbasinMask, hi]

/-- **interbasin mask**: a cell of the network is kept iff it lies in the region, its flow path never
steps from outside the region into the region ("only the most downstream contiguous area"), and the
path ends in a pit whose start value is true (always without `stream`; see `stream_mask0_iff`) -/
theorem interbasin_iff (ds : Array Nat) (seq : List Nat) (region : Array Bool) (stream : Option (Array Bool))
    (htopo : Topo ds seq) (hb : ∀ i ∈ seq, i < (interMask0 ds seq region stream).size)
    (i : Nat) (hi : i ∈ seq) (hir : i < region.size) :
    (interbasinMask ds seq region stream)[i]! = true ↔
      region[i]! = true ∧ InterOK ds region (interMask0 ds seq region stream) i := by
  rw [interbasin_get ds seq region stream i hir, Bool.and_eq_true, interSweep,
    interSweep_gen ds region _ seq htopo hb i hi]
  exact And.comm

/-- cells outside the network keep `mask0 ∧ region` -/
theorem interbasin_outside (ds : Array Nat) (seq : List Nat) (region : Array Bool) (stream : Option (Array Bool))
    (htopo : Topo ds seq) (hb : ∀ i ∈ seq, i < (interMask0 ds seq region stream).size)
    (i : Nat) (hi : i ∉ seq) (hir : i < region.size) :
    (interbasinMask ds seq region stream)[i]! = ((interMask0 ds seq region stream)[i]! && region[i]!) := by
  rw [interbasin_get ds seq region stream i hir, interSweep,
    (sweepDown_rec ds (gInter ds region) _ seq htopo hb).2 i hi]

/-- path form of the condition of `interbasin_iff` -/
theorem interOK_path (ds : Array Nat) (region mask0 : Array Bool) (i : Nat) :
    InterOK ds region mask0 i ↔
      ∃ m, ds[iterA ds m i]! = iterA ds m i ∧ mask0[iterA ds m i]! = true ∧
        ∀ k, k < m → ds[iterA ds k i]! ≠ iterA ds k i ∧ enterCell ds region (iterA ds k i) = false :=
  InterOK_iff_path ds region mask0 i

/-- **the stream argument**: after the first loop a cell is flagged iff it was a stream cell or lies
downstream of a stream cell of the network. Together with `interbasin_iff` (only the value at the
*pit* is read): with `stream`, a region cell is kept iff its basin contains a stream cell anywhere -
not iff the cell itself drains to the stream, as the docstring says. -/
theorem stream_mask0_iff (ds : Array Nat) (seq : List Nat) (s : Array Bool) (htopo : Topo ds seq)
    (hb : ∀ i ∈ seq, i < s.size) (j : Nat) :
    (streamDown ds seq s)[j]! = true ↔
      s[j]! = true ∨ ∃ y ∈ seq, ∃ k, iterA ds k y = j ∧ s[y]! = true := by
  constructor
  · exact streamDown_sound ds seq s j
  · rintro (h | ⟨y, hy, k, hk, hs⟩)
    · exact streamDown_mono ds seq s j h
    · subst hk
      have hmem : ∀ k, iterA ds k y ∈ seq := by
        intro k
        induction k with
        | zero => exact hy
        | succ k ih => rw [iterA_succ']; exact Topo.ds_mem htopo _ ih
      induction k with
      | zero => exact streamDown_mono ds seq s y hs
      | succ k ih =>
        rw [iterA_succ']
        exact streamDown_closed ds seq htopo s hb _ (hmem k) ih

/-- the order-independent walk the harness applies to the implementation's output decides `InterOK` -/
theorem interbasin_walk_sound (ds : Array Nat) (region mask0 : Array Bool) (pitOK : Nat → Bool)
    (hpit : ∀ p, ds[p]! = p → pitOK p = mask0[p]!) (fuel i : Nat) (b : Bool)
    (h : walkInter ds region pitOK fuel i = some b) : b = true ↔ InterOK ds region mask0 i :=
  walkInter_sound ds region mask0 pitOK hpit fuel i b h

/-! ## 4. `region_sum`, `region_area` -/

/-- the labels are strictly increasing (sorted, no duplicates) -/
theorem uniquePos_sorted (regions : Array Int) : (uniquePos regions).Pairwise (· < ·) :=
  (uniquePos_aux regions.toList [] List.Pairwise.nil).1

/-- the labels are exactly the positive values that occur in the raster -/
theorem uniquePos_mem (regions : Array Int) (l : Int) :
    l ∈ uniquePos regions ↔ l > 0 ∧ ∃ i, i < regions.size ∧ regions[i]! = l := by
  rw [← mem_toList_iff_get!]
  have := (uniquePos_aux regions.toList [] List.Pairwise.nil).2 l
  simpa [uniquePos] using this

/-- **region_sum**: labels = sorted positive labels, and the value of each label is the sum of the
data over the cells that carry it -/
theorem regionSum_spec (data regions : Array Int) :
    (regionSum data regions).1 = uniquePos regions ∧
    (regionSum data regions).2 = (uniquePos regions).map (labelSumSpec data regions) := by
  refine ⟨rfl, ?_⟩
  simp only [regionSum]
  apply List.map_congr_left
  intro l _
  simp only [labelSum, labelSumSpec]
  rw [labelSum_aux]; omega

/-- **conservation**: the region sums add up to the sum of the data over all cells with a positive label -/
theorem regionSum_total (data regions : Array Int) :
    (regionSum data regions).2.sum =
      (((List.range regions.size).filter fun i => decide (regions[i]! > 0)).map fun i => data[i]!).sum := by
  rw [(regionSum_spec data regions).2]
  have h := sum_labels data regions (uniquePos regions) (pairwise_lt_nodup _ (uniquePos_sorted regions))
    (List.range regions.size)
  rw [show (uniquePos regions).map (labelSumSpec data regions) = (uniquePos regions).map (fun l =>
    (((List.range regions.size).filter fun i => regions[i]! == l).map fun i => data[i]!).sum) from rfl, h]
  congr 1
  congr 1
  apply List.filter_congr
  intro i hi
  have hi' : i < regions.size := List.mem_range.1 hi
  simp only [decide_eq_decide, uniquePos_mem]
  constructor
  · rintro ⟨h, _⟩; exact h
  · intro h; exact ⟨h, i, hi', rfl⟩

/-- **region_area, projected grid**: area of a label = number of its cells × `|xres · yres|` -/
theorem regionAreaProj_count (xres yres : Int) (regions : Array Int) :
    (regionAreaProj xres yres regions).2 =
      (uniquePos regions).map fun l => (labelCount regions l : Int) * ((xres * yres).natAbs : Int) := by
  simp only [regionAreaProj]
  rw [(regionSum_spec _ regions).2]
  apply List.map_congr_left
  intro l _
  simp only [labelSumSpec, labelCount]
  apply sum_map_const
  intro i hi
  have hi' : i < regions.size := List.mem_range.1 (List.mem_filter.1 hi).1
  simp [hi']

/-! ## 5. `region_slices`, `region_bounds`, `basin_bounds` -/

/-- **region_slices**: `ValueError` iff no positive label; otherwise one slice pair per label (in
label order), and it is the tight bounding box of the cells that carry the label -/
theorem regionSlices_spec (ncol : Nat) (regions : Array Int) :
    (regionSlices ncol regions = none ↔ ∀ i, i < regions.size → regions[i]! ≤ 0) ∧
    ∀ lbs boxes, regionSlices ncol regions = some (lbs, boxes) →
      lbs = uniquePos regions ∧ boxes.map some = lbs.map (labelBox ncol regions) ∧
      ∀ l ∈ lbs, ∃ b, labelBox ncol regions l = some b ∧
        TightBox ncol (fun i => i < regions.size ∧ regions[i]! = l) b := by
  have hsome : ∀ l ∈ uniquePos regions, ∃ b, labelBox ncol regions l = some b ∧
      TightBox ncol (fun i => i < regions.size ∧ regions[i]! = l) b := by
    intro l hl
    obtain ⟨_, i, hi, hil⟩ := (uniquePos_mem regions l).1 hl
    have hinv := labelBox_inv ncol regions l
    cases hb : labelBox ncol regions l with
    | none => rw [hb] at hinv; exact absurd ⟨hi, hil⟩ (hinv i)
    | some b => rw [hb] at hinv; exact ⟨b, rfl, hinv⟩
  constructor
  · simp only [regionSlices]
    cases hu : uniquePos regions with
    | nil =>
      simp only [List.isEmpty_nil, if_true, true_iff]
      intro i hi
      have : ¬ (regions[i]! ∈ uniquePos regions) := by rw [hu]; simp
      rw [uniquePos_mem] at this
      have h2 : ¬ regions[i]! > 0 := fun h => this ⟨h, i, hi, rfl⟩
      omega
    | cons l ls =>
      simp only [List.isEmpty_cons, Bool.false_eq_true, if_false, reduceCtorEq, false_iff]
      intro h
      have hl : l ∈ uniquePos regions := by rw [hu]; simp
      obtain ⟨hpos, i, hi, hil⟩ := (uniquePos_mem regions l).1 hl
      have := h i hi; omega
  · intro lbs boxes h
    simp only [regionSlices] at h
    split at h
    · cases h
    · simp only [Option.some.injEq, Prod.mk.injEq] at h
      obtain ⟨rfl, rfl⟩ := h
      exact ⟨rfl, filterMap_map_some _ _ (fun l hl => by obtain ⟨b, hb, _⟩ := hsome l hl; exact ⟨b, hb⟩), hsome⟩

/-- **bounding box of a slice pair, both signs of the cell sizes**: `[xmin, ymin, xmax, ymax]`
(doubled) is the hull of the outer cell edges `x0 + xres·c0`, `x0 + xres·c1`, `y0 + yres·r0`,
`y0 + yres·r1` -/
theorem boxBounds2_hull (x0 y0 xres yres : Int) (r0 r1 c0 c1 : Nat) (hr : r0 < r1) (hc : c0 < c1) :
    boxBounds2 x0 y0 xres yres (r0, r1, c0, c1) =
      (2 * min (x0 + xres * (c0 : Int)) (x0 + xres * (c1 : Int)),
       2 * min (y0 + yres * (r0 : Int)) (y0 + yres * (r1 : Int)),
       2 * max (x0 + xres * (c0 : Int)) (x0 + xres * (c1 : Int)),
       2 * max (y0 + yres * (r0 : Int)) (y0 + yres * (r1 : Int))) := by
  simp only [boxBounds2, axisBounds2_hull x0 xres c0 c1 hc, axisBounds2_hull y0 yres r0 r1 hr]

/-- every cell inside the slices has its rectangle `[x0 + xres·c, x0 + xres·(c+1)] × [y0 + yres·r,
y0 + yres·(r+1)]` inside the bounding box (so, by `regionSlices_spec`, every cell of the label) -/
theorem cell_in_bounds (ncol : Nat) (x0 y0 xres yres : Int) (b : Box) (i : Nat) (h : InBox ncol b i) :
    (boxBounds2 x0 y0 xres yres b).1 ≤
      2 * min (x0 + xres * ((i % ncol : Nat) : Int)) (x0 + xres * (((i % ncol : Nat) : Int) + 1)) ∧
    (boxBounds2 x0 y0 xres yres b).2.1 ≤
      2 * min (y0 + yres * ((i / ncol : Nat) : Int)) (y0 + yres * (((i / ncol : Nat) : Int) + 1)) ∧
    2 * max (x0 + xres * ((i % ncol : Nat) : Int)) (x0 + xres * (((i % ncol : Nat) : Int) + 1)) ≤
      (boxBounds2 x0 y0 xres yres b).2.2.1 ∧
    2 * max (y0 + yres * ((i / ncol : Nat) : Int)) (y0 + yres * (((i / ncol : Nat) : Int) + 1)) ≤
      (boxBounds2 x0 y0 xres yres b).2.2.2 := by
  obtain ⟨r0, r1, c0, c1⟩ := b
  simp only [InBox] at h
  rw [boxBounds2_hull x0 y0 xres yres r0 r1 c0 c1 (by omega) (by omega)]
  have hx := axis_cell_inside x0 xres c0 c1 (i % ncol) h.2.2.1 h.2.2.2
  have hy := axis_cell_inside y0 yres r0 r1 (i / ncol) h.1 h.2.1
  simp only
  refine ⟨?_, ?_, ?_, ?_⟩ <;> omega

/-- **total bounding box**: componentwise minimum of the lower and maximum of the upper corners; each
component is attained by one of the boxes -/
theorem totalBounds_spec (bbs : List BBox) (t : BBox) (h : totalBounds bbs = some t) :
    (∀ b ∈ bbs, t.1 ≤ b.1 ∧ t.2.1 ≤ b.2.1 ∧ b.2.2.1 ≤ t.2.2.1 ∧ b.2.2.2 ≤ t.2.2.2) ∧
    (∃ b ∈ bbs, b.1 = t.1) ∧ (∃ b ∈ bbs, b.2.1 = t.2.1) ∧
    (∃ b ∈ bbs, b.2.2.1 = t.2.2.1) ∧ (∃ b ∈ bbs, b.2.2.2 = t.2.2.2) := by
  cases bbs with
  | nil => simp [totalBounds] at h
  | cons b0 rest =>
    simp only [totalBounds, Option.some.injEq] at h
    subst h
    have m1 := listMin_le (rest.map (·.1)) b0.1
    have m2 := listMin_le (rest.map (·.2.1)) b0.2.1
    have m3 := listMax_ge (rest.map (·.2.2.1)) b0.2.2.1
    have m4 := listMax_ge (rest.map (·.2.2.2)) b0.2.2.2
    refine ⟨?_, ?_, ?_, ?_, ?_⟩
    · intro b hb
      simp only [List.mem_cons] at hb
      rcases hb with rfl | hb
      · exact ⟨m1.1, m2.1, m3.1, m4.1⟩
      · exact ⟨m1.2.1 _ (List.mem_map_of_mem hb), m2.2.1 _ (List.mem_map_of_mem hb),
          m3.2.1 _ (List.mem_map_of_mem hb), m4.2.1 _ (List.mem_map_of_mem hb)⟩
    · rcases m1.2.2 with h | h
      · exact ⟨b0, by simp, h.symm⟩
      · obtain ⟨b, hb, e⟩ := List.mem_map.1 h; exact ⟨b, by simp [hb], e⟩
    · rcases m2.2.2 with h | h
      · exact ⟨b0, by simp, h.symm⟩
      · obtain ⟨b, hb, e⟩ := List.mem_map.1 h; exact ⟨b, by simp [hb], e⟩
    · rcases m3.2.2 with h | h
      · exact ⟨b0, by simp, h.symm⟩
      · obtain ⟨b, hb, e⟩ := List.mem_map.1 h; exact ⟨b, by simp [hb], e⟩
    · rcases m4.2.2 with h | h
      · exact ⟨b0, by simp, h.symm⟩
      · obtain ⟨b, hb, e⟩ := List.mem_map.1 h; exact ⟨b, by simp [hb], e⟩

/-- **region_bounds** = labels, the bounds of the slices, and their total box; `ValueError` exactly
when `region_slices` raises -/
theorem regionBounds_spec (ncol : Nat) (x0 y0 xres yres : Int) (regions : Array Int) :
    (regionBounds ncol x0 y0 xres yres regions = none ↔ regionSlices ncol regions = none) ∧
    ∀ lbs bbs t, regionBounds ncol x0 y0 xres yres regions = some (lbs, bbs, t) →
      ∃ boxes, regionSlices ncol regions = some (lbs, boxes) ∧
        bbs = boxes.map (boxBounds2 x0 y0 xres yres) ∧ totalBounds bbs = some t := by
  constructor
  · simp only [regionBounds]
    cases hs : regionSlices ncol regions with
    | none => simp
    | some p =>
      obtain ⟨lbs, boxes⟩ := p
      simp only [Option.map_eq_none_iff, reduceCtorEq, iff_false]
      obtain ⟨_, hmap, _⟩ := (regionSlices_spec ncol regions).2 lbs boxes hs
      have hne : lbs ≠ [] := by
        intro h; subst h
        simp only [regionSlices] at hs
        split at hs
        · cases hs
        · simp only [Option.some.injEq, Prod.mk.injEq] at hs
          rename_i hne; rw [hs.1] at hne; simp at hne
      have hlen : boxes.length = lbs.length := by
        have := congrArg List.length hmap; simpa using this
      cases boxes with
      | nil => simp at hlen; exact absurd hlen.symm (by simpa using hne)
      | cons b bs => simp [totalBounds]
  · intro lbs bbs t h
    simp only [regionBounds] at h
    cases hs : regionSlices ncol regions with
    | none => rw [hs] at h; cases h
    | some p =>
      obtain ⟨lbs', boxes⟩ := p
      rw [hs] at h
      simp only [Option.map_eq_some_iff, Prod.mk.injEq] at h
      obtain ⟨t', ht, rfl, rfl, rfl⟩ := h
      exact ⟨boxes, rfl, rfl, ht⟩

/-- **basin_bounds** without a basin map is `region_bounds` of the default basin map (outlets = all
pits, ids `1..k`); a given map goes through `_check_data` -/
theorem basinBounds_spec (ds : Array Nat) (seq pits : List Nat) (ncol : Nat) (x0 y0 xres yres : Int) :
    basinBounds ds seq pits none ncol x0 y0 xres yres =
      regionBounds ncol x0 y0 xres yres (basinsModel ds seq pits (defaultIds pits.length)) ∧
    ∀ b, basinBounds ds seq pits (some b) ncol x0 y0 xres yres =
      (checkData ds.size b).bind (regionBounds ncol x0 y0 xres yres) := ⟨rfl, fun _ => rfl⟩

/-! ## 6. the snapping path of `basins(idxs | xy, streams=mask)` -/

/-- snapping an outlet = walking to the first cell that is flagged in `streams`, is a pit, or has no
downstream cell -/
theorem snapTo_eq_spec (ds : Array Nat) (streams : Array Bool) (fuel o : Nat) :
    snapTo ds streams fuel o = snapSpec ds streams fuel o := by
  simp only [snapTo, snapSpec, (C11.snap_last ds (some streams) none (stepConst 1) fuel o).1, specSnap,
    Option.map_map]
  have hp : (stopAt ds (some streams) none (stepConst 1) o) =
      (fun m => streams[iterA ds m o]! || ds[iterA ds m o]! == iterA ds m o ||
        ds[iterA ds m o]! == ds.size) := by
    funext m; simp [stopAt, maskHit, overLen]
  rw [hp]
  rfl

/-- characterisation of the snapped cell: the `m`-fold downstream cell for the least `m` at which the
walk must stop -/
theorem snapTo_char (ds : Array Nat) (streams : Array Bool) (fuel o c : Nat)
    (h : snapTo ds streams fuel o = some c) :
    ∃ m, m < fuel ∧ c = iterA ds m o ∧
      (streams[c]! = true ∨ ds[c]! = c ∨ ds[c]! = ds.size) ∧
      ∀ k, k < m → streams[iterA ds k o]! = false ∧ ds[iterA ds k o]! ≠ iterA ds k o ∧
        ds[iterA ds k o]! ≠ ds.size := by
  rw [snapTo_eq_spec, snapSpec] at h
  simp only [Option.map_eq_some_iff] at h
  obtain ⟨m, hm, rfl⟩ := h
  obtain ⟨_, h2, h3, h4⟩ := leastFrom_some _ _ _ _ hm
  refine ⟨m, by omega, rfl, ?_, fun k hk => ?_⟩
  · simp only [Bool.or_eq_true, beq_iff_eq] at h3
    rcases h3 with (h3 | h3) | h3
    · exact Or.inl h3
    · exact Or.inr (Or.inl h3)
    · exact Or.inr (Or.inr h3)
  · have := h4 k (Nat.zero_le _) hk
    simp only [Bool.or_eq_false_iff, beq_eq_false_iff_ne, ne_eq] at this
    exact ⟨this.1.1, this.1.2, this.2⟩

/-- on a loop-free network every outlet of the network snaps within `seq.length` iterations -/
theorem snapTo_total (ds : Array Nat) (seq : List Nat) (htopo : Topo ds seq) (streams : Array Bool)
    (fuel o : Nat) (ho : o ∈ seq) (hfuel : seq.length ≤ fuel) :
    (snapTo ds streams fuel o).isSome = true := by
  have := C11.trace_total_topo ds seq htopo (some streams) none (stepConst 1) fuel o ho hfuel
  simp only [snapTo, snapOne, Option.isSome_map]
  exact this

/-- **basins with snapping = basins at the snapped cells**: whenever
`basins(idxs=os, streams=s, ids=ids)` returns, it returns the basin map (C05) of the snapped outlets -
each outlet replaced by the first cell downstream of it (itself included) that is flagged in
`streams`, is a pit or has no downstream cell - with the same ids. -/
theorem basins_snap_eq (ds : Array Nat) (seq pits os : List Nat) (s : Array Bool) (ids : Option (List Int))
    (fuel : Nat) (M : Array Int)
    (h : basinsRaster ds seq pits (some os) (some s) ids fuel = .ok M) :
    ∃ s' sn ids', checkData ds.size s = some s' ∧ os.mapM (snapSpec ds s' fuel) = some sn ∧
      checkIds sn.length ids = .ok ids' ∧ M = basinsModel ds seq sn ids' := by
  simp only [basinsRaster, bind, Except.bind, pure, Except.pure] at h
  cases hc : checkData ds.size s with
  | none => rw [hc] at h; simp [throw, throwThe, MonadExceptOf.throw] at h
  | some s' =>
    rw [hc] at h
    simp only at h
    have hfun : snapTo ds s' fuel = snapSpec ds s' fuel := funext (snapTo_eq_spec ds s' fuel)
    rw [hfun] at h
    cases hm : os.mapM (snapSpec ds s' fuel) with
    | none => rw [hm] at h; simp [throw, throwThe, MonadExceptOf.throw] at h
    | some sn =>
      rw [hm] at h
      simp only at h
      cases hi : checkIds sn.length ids with
      | error e => rw [hi] at h; cases h
      | ok ids' =>
        rw [hi] at h
        simp only [Except.ok.injEq] at h
        exact ⟨s', sn, ids', rfl, hm, hi, h.symm⟩

/-- … and therefore every cell of the network carries the id of the first *snapped* outlet on its
downstream path (0 if a pit comes first) -/
theorem basins_snap_first_outlet (ds : Array Nat) (seq pits os : List Nat) (s : Array Bool)
    (ids : Option (List Int)) (fuel : Nat) (M : Array Int) (htopo : Topo ds seq)
    (hb : ∀ i ∈ seq, i < ds.size)
    (h : basinsRaster ds seq pits (some os) (some s) ids fuel = .ok M) :
    ∃ s' sn ids', checkData ds.size s = some s' ∧ os.mapM (snapSpec ds s' fuel) = some sn ∧
      ∀ i ∈ seq, FirstValid ds (seedLabels ds.size sn ids') 0 i M[i]! := by
  obtain ⟨s', sn, ids', h1, h2, _, rfl⟩ := basins_snap_eq ds seq pits os s ids fuel M h
  exact ⟨s', sn, ids', h1, h2, C05.basins_first_outlet ds seq sn ids' htopo hb⟩

/-- without `streams` the outlets are used as they are; without `idxs` the outlets are the pits and
`streams` is not looked at; by coordinates = by the cells containing the points (`IndexError` if a
point lies in no cell) -/
theorem basinsRaster_plain (ds : Array Nat) (seq pits os : List Nat) (s : Option (Array Bool))
    (ids : Option (List Int)) (fuel : Nat) :
    basinsRaster ds seq pits (some os) none ids fuel =
      (checkIds os.length ids).map (basinsModel ds seq os) ∧
    basinsRaster ds seq pits none s ids fuel =
      (checkIds pits.length ids).map (basinsModel ds seq pits) := by
  constructor
  · simp only [basinsRaster, bind, Except.bind, pure, Except.pure, Except.map]
  · simp only [basinsRaster, bind, Except.bind, pure, Except.pure, Except.map]

theorem basinsRasterXY_spec (nrow ncol : Nat) (x0 y0 xres yres : Int) (xs ys : List Int)
    (ds : Array Nat) (seq pits : List Nat) (s : Option (Array Bool)) (ids : Option (List Int)) (fuel : Nat) :
    basinsRasterXY nrow ncol x0 y0 xres yres xs ys ds seq pits s ids fuel =
      match (xs.zip ys).mapM (fun p => cellOf nrow ncol x0 y0 xres yres p.1 p.2) with
      | none => .error .indexError
      | some os => basinsRaster ds seq pits (some os) s ids fuel := rfl

/-! ## non-vacuity: concrete networks meet the hypotheses and the conclusions are non-trivial -/

-- 2×3 raster of finding F-X1a: 1 → 3 → 4 → 0 (pit), 2 → 4, 5 → 4; order of the implementation
example : Topo #[0, 3, 4, 4, 0, 4] [0, 4, 2, 3, 5, 1] := by
  have h0 : Topo #[0, 3, 4, 4, 0, 4] [] := Topo.nil
  have h1 : Topo #[0, 3, 4, 4, 0, 4] ([] ++ [0]) := Topo.snoc h0 (by simp) (Or.inl (by decide))
  have h2 : Topo #[0, 3, 4, 4, 0, 4] ([0] ++ [4]) := Topo.snoc h1 (by simp) (Or.inr (by decide))
  have h3 : Topo #[0, 3, 4, 4, 0, 4] ([0, 4] ++ [2]) := Topo.snoc h2 (by simp) (Or.inr (by decide))
  have h4 : Topo #[0, 3, 4, 4, 0, 4] ([0, 4, 2] ++ [3]) := Topo.snoc h3 (by simp) (Or.inr (by decide))
  have h5 : Topo #[0, 3, 4, 4, 0, 4] ([0, 4, 2, 3] ++ [5]) := Topo.snoc h4 (by simp) (Or.inr (by decide))
  exact Topo.snoc h5 (by simp) (Or.inr (by decide))
-- region = {0, 3}: cells 1 and 4 are reported although 1 lies upstream of 4 (first kid of 4 is 2)
example : inflowIdxs #[0, 3, 4, 4, 0, 4] [0, 4, 2, 3, 5, 1] #[true, false, false, true, false, false] = [1, 4] := by decide
-- another downstream-first order of the same network (3 before 2): cell 4 is no longer reported
example : inflowIdxs #[0, 3, 4, 4, 0, 4] [0, 4, 3, 2, 5, 1] #[true, false, false, true, false, false] = [1] := by decide
example : inflowSpec #[0, 3, 4, 4, 0, 4] [0, 4, 2, 3, 5, 1] #[true, false, false, true, false, false] = [1, 4] := by decide
example : inflowMust #[0, 3, 4, 4, 0, 4] #[true, false, false, true, false, false] = [1] := by decide
example : outflowIdxs #[0, 3, 4, 4, 0, 4] [0, 4, 2, 3, 5, 1] #[true, false, false, true, false, false] = [0] := by decide
-- region {3, 4, 1}: 4 leaves to 0 (outside), 3 is upstream of the exit cell 4
example : outflowIdxs #[0, 3, 4, 4, 0, 4] [0, 4, 2, 3, 5, 1] #[false, true, false, true, true, false] = [4] := by decide
example : outflowSpec #[0, 3, 4, 4, 0, 4] #[false, true, false, true, true, false] = some [4] := by decide
-- interbasin: region {0, 3, 1}: the flow leaves the region at 3 → 4 and re-enters at 4 → 0
example : (interbasinMask #[0, 3, 4, 4, 0, 4] [0, 4, 2, 3, 5, 1] #[true, true, false, true, false, false] none).toList
    = [true, false, false, false, false, false] := by decide +kernel
-- F-X1c: chain 2 → 1 → 0, 3 → 1; stream = {2}; everything is kept, also cell 3
example : (interbasinMask #[0, 0, 1, 1] [0, 1, 2, 3] #[true, true, true, true] (some #[false, false, true, false])).toList
    = [true, true, true, true] := by decide +kernel
example : (interbasinMask #[0, 0, 1, 1] [0, 1, 2, 3] #[true, true, true, true] (some #[false, false, false, false])).toList
    = [false, false, false, false] := by decide +kernel
-- regions on a 2×3 raster
example : regionSum #[0, 1, 2, 3, 4, 5] #[5, 0, 2, 0, 2, -3] = ([2, 5], [6, 0]) := by decide
example : regionSlices 3 #[5, 0, 2, 0, 2, -3] = some ([2, 5], [(0, 2, 1, 3), (0, 1, 0, 1)]) := by decide
example : regionSlices 3 #[0, 0, -1, 0, 0, 0] = none := by decide
-- transform (xres, yres) = (1/2, -1/2), origin (10, 20), scale 2: doubled boxes at scale 2
example : regionBounds 3 20 40 1 (-1) #[5, 0, 2, 0, 2, -3] =
    some ([2, 5], [(42, 76, 46, 80), (40, 78, 42, 80)], (40, 76, 46, 80)) := by rfl
-- negative xres, positive yres
example : regionBounds 3 20 40 (-1) 1 #[5, 0, 2, 0, 2, -3] =
    some ([2, 5], [(34, 80, 38, 84), (38, 80, 40, 82)], (34, 80, 40, 84)) := by rfl
example : regionAreaProj 1 (-2) #[5, 0, 2, 0, 2, -3] = ([2, 5], [4, 2]) := by decide
-- snapping: chain 4 → 3 → 2 → 1 → 0, stream = {1}: outlet 3 snaps to 1
example : basinsRaster #[0, 0, 1, 2, 3] [0, 1, 2, 3, 4] [0] (some [3])
    (some #[false, true, false, false, false]) (some [7]) 7 = .ok #[0, 7, 7, 7, 7] := by rfl
example : snapSpec #[0, 0, 1, 2, 3] #[false, true, false, false, false] 7 3 = some 1 := by decide
example : basinsRaster #[0, 0, 1, 2, 3] [0, 1, 2, 3, 4] [0] (some [3])
    (some #[false, true, false, false, false]) (some [0]) 7 = .error .valueError := by rfl

end Pf.C05x
